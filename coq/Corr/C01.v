(* Correspondence stream for C01 (library layer): sequences of key shares fed to the real
   EpochKG.HandleEpochSecretKeyShare with real BLS material, replayed on Model/EpochKG.v
   instantiated with *labels* instead of group elements.

   The labels, verify_l and combine_l are in Model/EpochKGLabels.v. *)
From Coq Require Import List NArith ZArith Bool.
From Verif Require Import Lib.Bytes Lib.Assoc Lib.Sorting Model.EpochKG Model.EpochKGLabels.
Import ListNotations.
Open Scope N_scope.

Definition outcome_code (o : outcome) : N :=
  match o with Ok => 0 | ErrVerify => 1 | ErrDup => 2 | ErrCombine => 3 | Panic => 4 end.

(* observation of one derived key: 0 = nil pointer stored, 1 = the correct key (verifies
   against the eon public key and decrypts), 2 = some other value *)
Definition key_code (x : bytes) (k : option lbl) : N :=
  match k with
  | None => 0
  | Some (LKey e y) => if (e =? 0) && bytes_eqb y x then 1 else 2
  | Some _ => 2
  end.

Definition obs_keys (st : state lbl) : list (bytes * N) :=
  ksort (map (fun kv => (fst kv, key_code (fst kv) (snd kv))) (keys st)).

Definition obs_pending (st : state lbl) : list (bytes * list N) :=
  ksort (map (fun kv => (fst kv, map fst (snd kv))) (pending st)).

Fixpoint nlist_eqb (a b : list N) : bool :=
  match a, b with
  | [], [] => true
  | x :: a', y :: b' => (x =? y) && nlist_eqb a' b'
  | _, _ => false
  end.

Fixpoint keys_eqb (a b : list (bytes * N)) : bool :=
  match a, b with
  | [], [] => true
  | (k, v) :: a', (k', v') :: b' => bytes_eqb k k' && (v =? v') && keys_eqb a' b'
  | _, _ => false
  end.

Fixpoint pending_eqb (a b : list (bytes * list N)) : bool :=
  match a, b with
  | [], [] => true
  | (k, v) :: a', (k', v') :: b' => bytes_eqb k k' && nlist_eqb v v' && pending_eqb a' b'
  | _, _ => false
  end.

(* one observed step: error class, identities with a key (sorted, with the key's code),
   pending senders per identity (sorted by identity, senders in arrival order) *)
Definition obs := (N * list (bytes * N) * list (bytes * list N))%type.

Inductive case :=
| CSeq (id : N) (n t : N) (ops : list (bytes * N * lbl)) (observed : list obs).

Fixpoint replay (n t : N) (st : state lbl) (ops : list (bytes * N * lbl)) (observed : list obs) : bool :=
  match ops, observed with
  | [], [] => true
  | (x, s, v) :: ops', (oc, ok, op) :: obs' =>
      let '(st', o) := handle_share lbl verify_l combine_l n t st (mkShare x s v) in
      (outcome_code o =? oc) && keys_eqb (obs_keys st') ok && pending_eqb (obs_pending st') op
      && replay n t st' ops' obs'
  | _, _ => false
  end.

Definition check_case (c : case) : list N :=
  match c with
  | CSeq id n t ops observed => if replay n t init ops observed then [] else [id]
  end.

Definition mismatches (cs : list case) : list N := flat_map check_case cs.
