(* Correspondence stream for C15: one case per Sync call of a real syncer (pre-state read from
   the database, what the fake node serves, the injected faults, the observed result and
   post-state), and one case per call of medley.GetSyncRanges. *)
From Coq Require Import List NArith ZArith Bool.
From Verif Require Import Lib.Bytes.
From Verif Require Export Model.Syncer.
Import ListNotations.
Open Scope Z_scope.

(* The repository's syncRange of RegistrySyncer / SequencerSyncer returns the error of its
   transaction (fix commits 0b3d76a, 737c434 in /repo); the pinned tree swallowed it (D8): the
   legacy behaviour is the flavour flag fl_swallow = true (legacy_registry_flavour,
   legacy_sequencer_flavour). *)
Definition registry_legacy : bool := false.
Definition sequencer_legacy : bool := false.

Inductive which := WRegistry | WMulti | WSequencer.

Inductive case :=
| CRanges (id : N) (s e r : Z) (obs : list (Z * Z))
| CSync (id : N) (w : which) (sync_start depth range : Z)
        (pre_status : option (Z * bytes)) (pre_rows : list (pev uev))
        (number : Z) (parent : bytes) (hashes : list (Z * bytes)) (evs : list (pev uev))
        (rpc db : list fault)
        (obs_ok : bool) (post_status : option (Z * bytes)) (post_rows : list (pev uev)).

Definition uev_eqb (a b : uev) : bool :=
  (ev_eon a =? ev_eon b) && bytes_eqb (ev_prefix a) (ev_prefix b) && bytes_eqb (ev_sender a) (ev_sender b) &&
  (ev_timestamp a =? ev_timestamp b) && bytes_eqb (ev_definition a) (ev_definition b) &&
  Bool.eqb (ev_def_valid a) (ev_def_valid b) && (ev_expiry a =? ev_expiry b) &&
  (ev_index a =? ev_index b) && (ev_gas a =? ev_gas b).

Definition pev_eqb (a b : pev uev) : bool :=
  (pe_block a =? pe_block b) && bytes_eqb (pe_bhash a) (pe_bhash b) && (pe_tx a =? pe_tx b) &&
  (pe_log a =? pe_log b) && uev_eqb (pe_ev a) (pe_ev b).

Fixpoint list_eqb {A} (eqb : A -> A -> bool) (a b : list A) : bool :=
  match a, b with
  | [], [] => true
  | x :: a', y :: b' => eqb x y && list_eqb eqb a' b'
  | _, _ => false
  end.

Definition status_eqb (a b : option (Z * bytes)) : bool :=
  match a, b with
  | None, None => true
  | Some (k, h), Some (k', h') => (k =? k') && bytes_eqb h h'
  | _, _ => false
  end.

Definition zpair_eqb (a b : Z * Z) : bool := (fst a =? fst b) && (snd a =? snd b).

(* the conversions done when a decoded event is written to its row: int64(event.Timestamp),
   int64(event.TxIndex); the other uint64 columns are admissible only below 2^63 *)
Definition cast_ev (p : pev uev) : pev uev :=
  let e := pe_ev p in
  mkpev (pe_block p) (pe_bhash p) (pe_tx p) (pe_log p)
        (mkuev (ev_eon e) (ev_prefix e) (ev_sender e) (to_i64 (ev_timestamp e)) (ev_definition e)
               (ev_def_valid e) (ev_expiry e) (to_i64 (ev_index e)) (ev_gas e)).

Fixpoint zlookup (k : Z) (l : list (Z * bytes)) : option bytes :=
  match l with [] => None | (k', h) :: r => if k' =? k then Some h else zlookup k r end.

(* the node as far as the driver recorded it: hashes of some canonical blocks and every event
   of the canonical branch *)
Definition sparse_node (number : Z) (parent : bytes) (hashes : list (Z * bytes)) (evs : list (pev uev)) : node uev :=
  mknode number parent (fun k => zlookup k hashes)
         (fun s e => filter (fun p => (s <=? pe_block p) && (pe_block p <=? e)) (map cast_ev evs)).

Definition run_sync (w : which) (sync_start depth range : Z) :=
  match w with
  | WRegistry => registry_sync (registry_flavour sync_start depth range registry_legacy)
  | WMulti => trigger_sync (multi_flavour sync_start depth range)
  | WSequencer => sequencer_sync (sequencer_flavour sync_start depth range sequencer_legacy)
  end.

Definition check_case (c : case) : list N :=
  match c with
  | CRanges id s e r obs =>
      match get_sync_ranges s e r with
      | RangesDone rs => if list_eqb zpair_eqb rs obs then [] else [id]
      | RangesOutOfFuel => [id]
      end
  | CSync id w sync_start depth range pre_status pre_rows number parent hashes evs rpc db obs_ok post_status post_rows =>
      let '(st, r, _) := run_sync w sync_start depth range (sparse_node number parent hashes evs)
                                  (mkstate pre_status pre_rows) rpc db in
      let ok := match r with Ok => true | _ => false end in
      if Bool.eqb ok obs_ok && status_eqb (st_status st) post_status && list_eqb pev_eqb (st_rows st) post_rows
      then [] else [id]
  end.

Definition mismatches (cs : list case) : list N := flat_map check_case cs.
