(* Correspondence stream for C16: one case per Sync call of the real MultiEventSyncer with both
   processors (registration processor and trigger processor), and one per update of the
   decrypted flag.  Plain logs are numbered; the matcher is given as a table (definition ->
   numbers of the logs for which the real ToFilterQuery + Match accept). *)
From Coq Require Import List NArith ZArith Bool.
From Verif Require Import Lib.Bytes.
From Verif Require Export Model.Syncer Model.TriggerSync.
Import ListNotations.
Open Scope Z_scope.

Definition item := titem N.

Inductive case :=
| CTSync (id : N) (sync_start depth range : Z)
         (pre_status : option (Z * bytes)) (pre_regs : list (pev item)) (pre_decrypted : list ukey) (pre_fired : list fired)
         (number : Z) (parent : bytes) (hashes : list (Z * bytes)) (items : list (pev item))
         (mtable : list (bytes * list N))
         (rpc db : list fault)
         (obs_ok : bool)
         (post_status : option (Z * bytes)) (post_regs : list (pev item)) (post_decrypted : list ukey) (post_fired : list fired)
| CTDecrypt (id : N) (regs : list (pev item)) (pre_decrypted : list ukey) (k : ukey) (post_decrypted : list ukey).

Fixpoint mlookup (d : bytes) (t : list (bytes * list N)) : list N :=
  match t with [] => [] | (d', ids) :: r => if bytes_eqb d' d then ids else mlookup d r end.
Definition table_match (t : list (bytes * list N)) (d : bytes) (l : N) : bool := existsb (N.eqb l) (mlookup d t).

Definition uev_eqb (a b : uev) : bool :=
  (ev_eon a =? ev_eon b) && bytes_eqb (ev_prefix a) (ev_prefix b) && bytes_eqb (ev_sender a) (ev_sender b) &&
  (ev_timestamp a =? ev_timestamp b) && bytes_eqb (ev_definition a) (ev_definition b) &&
  Bool.eqb (ev_def_valid a) (ev_def_valid b) && (ev_expiry a =? ev_expiry b) &&
  (ev_index a =? ev_index b) && (ev_gas a =? ev_gas b).

Definition item_eqb (a b : item) : bool :=
  match a, b with
  | IReg u, IReg u' => uev_eqb u u'
  | ILog l, ILog l' => N.eqb l l'
  | _, _ => false
  end.

Definition pev_eqb (a b : pev item) : bool :=
  (pe_block a =? pe_block b) && bytes_eqb (pe_bhash a) (pe_bhash b) && (pe_tx a =? pe_tx b) &&
  (pe_log a =? pe_log b) && item_eqb (pe_ev a) (pe_ev b).

Definition fired_eqb (a b : fired) : bool :=
  ukey_eqb (f_key a) (f_key b) && (f_block a =? f_block b) && bytes_eqb (f_bhash a) (f_bhash b) &&
  (f_tx a =? f_tx b) && (f_log a =? f_log b).

Fixpoint list_eqb {A} (eqb : A -> A -> bool) (a b : list A) : bool :=
  match a, b with
  | [], [] => true
  | x :: a', y :: b' => eqb x y && list_eqb eqb a' b'
  | _, _ => false
  end.

Definition keyset_eqb (a b : list ukey) : bool :=
  forallb (fun k => has_key k b) a && forallb (fun k => has_key k a) b.

Definition status_eqb (a b : option (Z * bytes)) : bool :=
  match a, b with
  | None, None => true
  | Some (k, h), Some (k', h') => (k =? k') && bytes_eqb h h'
  | _, _ => false
  end.

Fixpoint zlookup (k : Z) (l : list (Z * bytes)) : option bytes :=
  match l with [] => None | (k', h) :: r => if k' =? k then Some h else zlookup k r end.

Definition sparse_node (number : Z) (parent : bytes) (hashes : list (Z * bytes)) (items : list (pev item)) : node item :=
  mknode number parent (fun k => zlookup k hashes)
         (fun s e => filter (fun p => (s <=? pe_block p) && (pe_block p <=? e)) items).

Definition check_case (c : case) : list N :=
  match c with
  | CTSync id sync_start depth range pre_status pre_regs pre_decrypted pre_fired number parent hashes items mtable
           rpc db obs_ok post_status post_regs post_decrypted post_fired =>
      let '(st, r, _) := tsync (table_match mtable) (multi_flavour sync_start depth range)
                               (sparse_node number parent hashes items)
                               (mktstate (mkstate pre_status pre_regs) pre_decrypted pre_fired) [] rpc db in
      let ok := match r with Ok => true | _ => false end in
      if Bool.eqb ok obs_ok && status_eqb (st_status (ts_core st)) post_status &&
         list_eqb pev_eqb (st_rows (ts_core st)) post_regs && keyset_eqb (ts_decrypted st) post_decrypted &&
         list_eqb fired_eqb (ts_fired st) post_fired
      then [] else [id]
  | CTDecrypt id regs pre_decrypted k post_decrypted =>
      let st := tdecrypt (mktstate (mkstate None regs) pre_decrypted []) k in
      if keyset_eqb (ts_decrypted st) post_decrypted then [] else [id]
  end.

Definition mismatches (cs : list case) : list N := flat_map check_case cs.
