(* Correspondence stream for C06: the verdicts the real validators returned, replayed on the
   model (executable instance: the hash-tree-root of a tuple is the tuple). *)
From Coq Require Import List NArith ZArith Bool.
From Verif Require Import Lib.Bytes.
From Verif Require Export Model.KeysSig.
Import ListNotations.

(* identity lists the driver builds with its mkIds(count, width, tag): entry i is
   tag, i / 256, i mod 256, 0, ..., 0 (long lists are sent in this compact form) *)
Definition seq_id (width : nat) (tag : N) (i : N) : bytes :=
  match width with
  | 0%nat => []
  | 1%nat => [tag]
  | 2%nat => [tag; (i mod 256)%N]
  | S (S (S k)) => tag :: ((i / 256) mod 256)%N :: (i mod 256)%N :: repeat 0%N k
  end.
Definition ids_seq (count width : nat) (tag : N) : list bytes :=
  map (fun i => seq_id width tag (N.of_nat i)) (seq 0 count).
Definition keys_seq (count width : nat) (tag : N) : list (bytes * keylabel) :=
  map (fun b => (b, KeyOk)) (ids_seq count width tag).

Inductive case :=
  (* gnosis / shutterservice ValidateDecryptionKeysSignatures(keys, extra, keyperSet) *)
| CSigs (id : N) (fl : flavour) (ks : keyperset) (m : keysmsg)
        (signers : list N) (sigs : list csig) (obs : verdict)
  (* gnosis.ValidateDecryptionKeysBasic(keys) *)
| CBasic (id : N) (m : keysmsg) (obs : verdict)
  (* the keyper's ValidateMessage with the database lookup replaced by its result: the driver
     calls ValidateDecryptionKeysBasic, then (on Accept) ValidateDecryptionKeysSignatures *)
| CKeyper (id : N) (lookup : option keyperset) (m : keysmsg)
          (signers : list N) (sigs : list csig) (obs : verdict)
  (* the keyper's real DecryptionKeysHandler.ValidateMessage over the (fake) database whose
     keyper_set table holds [db] *)
| CKeyperDB (id : N) (db : list (Z * keyperset)) (m : keysmsg)
            (signers : list N) (sigs : list csig) (obs : verdict)
  (* gnosisaccessnode.DecryptionKeysHandler.ValidateMessage over an in-memory Storage *)
| CAccess (id : N) (st : an_state) (m : keysmsg)
          (signers : list N) (sigs : list csig) (obs : verdict).

Definition check_case (c : case) : list N :=
  match c with
  | CSigs id fl ks m signers sigs obs =>
      if verdict_eqb (c_validate_sigs fl ks m signers sigs) obs then [] else [id]
  | CBasic id m obs =>
      if verdict_eqb (validate_basic m) obs then [] else [id]
  | CKeyper id lk m signers sigs obs =>
      if verdict_eqb (c_keyper_validate_gnosis lk m signers sigs) obs then [] else [id]
  | CKeyperDB id db m signers sigs obs =>
      if verdict_eqb (c_keyper_validate_gnosis_db db m signers sigs) obs then [] else [id]
  | CAccess id st m signers sigs obs =>
      if verdict_eqb (c_an_validate st m signers sigs) obs then [] else [id]
  end.

Definition mismatches (cs : list case) : list N := flat_map check_case cs.
