(* Correspondence stream for C07: a DKG run of the real keyper stacks (harness/dkgrig), replayed
   on the model Model/DKGDriver.v + Model/DKGPure.v, one keyper at a time, from the chain's
   block sequence alone.

   Label instance of the abstract values.  A commitment is (identity of the gamma vector on
   the chain, number of gammas).  An evaluation is (ValidEval, the identities of its dealer's
   commitments it verifies against under the index it is checked with) - the driver computes
   the second component with the real shcrypto.VerifyPolyEval.  A private evaluation is only
   ever checked with the receiver's index, an apology value only with the accuser's index, so
   the label is well defined.  A polynomial is (identity of its commitment, its length). *)
From Coq Require Import List NArith ZArith Bool.
From Verif Require Import Lib.Bytes Model.DKGPure Model.DKGDriver.
Import ListNotations.
Open Scope Z_scope.

Record clabel := mkC { cl_id : N; cl_len : N }.
Record elabel := mkE { el_valid : bool; el_okfor : list N }.
Record plabel := mkP { pl_id : N; pl_len : N }.

Definition two64N : N := 18446744073709551616%N.
(* Degree() is uint64(len) - 1, DegreeFromThreshold is threshold - 1, both wrapping *)
Definition l_deg_ok (t : N) (c : clabel) : bool :=
  N.eqb ((cl_len c + two64N - 1) mod two64N) ((t + two64N - 1) mod two64N).
Definition l_verify (_ : nat) (v : elabel) (c : clabel) : bool := existsb (N.eqb (cl_id c)) (el_okfor v).
Definition l_valid (v : elabel) : bool := el_valid v.
Definition l_commit_of (p : plabel) : clabel := mkC (pl_id p) (pl_len p).
Definition l_eval_of (p : plabel) (_ : nat) : elabel := mkE true [pl_id p].

Notation lpure := (@DKGPure.pure clabel elabel plabel).
Notation ldev := (@dev clabel elabel).
Notation lmsg := (@msg clabel elabel).
Notation ldb := (db clabel elabel plabel).
Notation lsm := (@sm clabel elabel plabel).

Fixpoint nlist_eqb (a b : list N) : bool :=
  match a, b with
  | [], [] => true
  | x :: a', y :: b' => N.eqb x y && nlist_eqb a' b'
  | _, _ => false
  end.

Definition clabel_eqb (a b : clabel) : bool := N.eqb (cl_id a) (cl_id b) && N.eqb (cl_len a) (cl_len b).
Definition elabel_eqb (a b : elabel) : bool := Bool.eqb (el_valid a) (el_valid b) && nlist_eqb (el_okfor a) (el_okfor b).

Definition opt_eqb {A} (f : A -> A -> bool) (a b : option A) : bool :=
  match a, b with Some x, Some y => f x y | None, None => true | _, _ => false end.

Fixpoint list_eqb {A} (f : A -> A -> bool) (a b : list A) : bool :=
  match a, b with
  | [], [] => true
  | x :: a', y :: b' => f x y && list_eqb f a' b'
  | _, _ => false
  end.

(* equality as sets for lists without duplicates *)
Definition set_eqb {A} (f : A -> A -> bool) (a b : list A) : bool :=
  Nat.eqb (length a) (length b) && forallb (fun x => existsb (f x) b) a && forallb (fun y => existsb (fun x => f x y) a) b.

(* ---- the stored puredkg of one eon as the driver observes it ---- *)
Record snap := mkSnap {
  sn_phase : nat;
  sn_commits : list (option clabel);
  sn_evals : list (option elabel);
  sn_accs : list (nat * nat);                  (* a set *)
  sn_apos : list ((nat * nat) * elabel)        (* a set *)
}.

Definition snap_of (p : lpure) : snap :=
  mkSnap (phase_num (p_phase p)) (p_commits p) (p_evals p) (p_accs p) (p_apos p).

Definition snap_eqb (a b : snap) : bool :=
  Nat.eqb (sn_phase a) (sn_phase b) &&
  list_eqb (opt_eqb clabel_eqb) (sn_commits a) (sn_commits b) &&
  list_eqb (opt_eqb elabel_eqb) (sn_evals a) (sn_evals b) &&
  set_eqb pair_eqb (sn_accs a) (sn_accs b) &&
  set_eqb (fun x y => pair_eqb (fst x) (fst y) && elabel_eqb (snd x) (snd y)) (sn_apos a) (sn_apos b).

(* ---- the DKG messages of a keyper, as received by the chain ---- *)
Definition msg_eqb (a b : lmsg) : bool :=
  match a, b with
  | MCheckIn, MCheckIn => true
  | MCommit e c, MCommit e' c' => N.eqb e e' && clabel_eqb c c'
  | MEvals e rs vs, MEvals e' rs' vs' =>
      N.eqb e e' && Nat.eqb (length rs) (length vs) && Nat.eqb (length rs') (length vs') &&
      set_eqb (fun x y => bytes_eqb (fst x) (fst y) && elabel_eqb (snd x) (snd y)) (combine rs vs) (combine rs' vs')
  | MAccusation e l, MAccusation e' l' => N.eqb e e' && list_eqb bytes_eqb l l'
  | MApology e rs vs, MApology e' rs' vs' =>
      N.eqb e e' && Nat.eqb (length rs) (length vs) && Nat.eqb (length rs') (length vs') &&
      set_eqb (fun x y => bytes_eqb (fst x) (fst y) && elabel_eqb (snd x) (snd y)) (combine rs vs) (combine rs' vs')
  | MResult e s, MResult e' s' => N.eqb e e' && Bool.eqb s s'
  | _, _ => false
  end.

Record view := mkView {
  v_me : addr;
  v_polys : list (N * plabel);               (* eon -> the polynomial this keyper drew *)
  v_snaps : list (Z * list (N * snap));      (* sync position -> the puredkg table at that time *)
  v_msgs : list lmsg;                        (* check-ins and DKG messages the chain got from it, in order *)
  v_results : list (N * (bool * N))          (* dkg_result: eon -> (success, equality class of key material) *)
}.

Inductive case :=
| CRun (id : N) (L : Z) (blocks : list (Z * list ldev)) (views : list view).

Definition poly_of (v : view) (eon : N) : plabel :=
  match nget (v_polys v) eon with Some p => p | None => mkP 0 0 end.

Definition step_block (v : view) (L : Z) (x : ldb * lsm) (blk : Z * list ldev) : tx (ldb * lsm) :=
  handle_block clabel elabel plabel l_commit_of l_eval_of l_verify l_deg_ok l_valid (v_me v) L (fun m => m)
               (poly_of v) x blk (fst blk + 1).

(* the states after every block; None when a transaction errs or panics *)
Fixpoint run_trace (v : view) (L : Z) (x : ldb * lsm) (blocks : list (Z * list ldev))
  : option (list (Z * (ldb * lsm))) :=
  match blocks with
  | [] => Some []
  | b :: r =>
      match step_block v L x b with
      | TOk x' => match run_trace v L x' r with Some t => Some ((fst b, x') :: t) | None => None end
      | _ => None
      end
  end.

Fixpoint zget {A} (m : list (Z * A)) (k : Z) : option A :=
  match m with [] => None | (k', v) :: r => if Z.eqb k' k then Some v else zget r k end.

Definition check_snap (tr : list (Z * (ldb * lsm))) (s : Z * list (N * snap)) : bool :=
  match zget tr (fst s) with
  | None => Z.eqb (fst s) 0 && Nat.eqb (length (snd s)) 0
  | Some x =>
      let tbl := db_pure _ _ _ (fst x) in
      Nat.eqb (length tbl) (length (snd s)) &&
      forallb (fun es => match nget tbl (fst es) with
                         | Some p => snap_eqb (snap_of p) (snd es)
                         | None => false end) (snd s)
  end.

Definition is_dkg_msg (m : lmsg) : bool :=
  match m with MVote _ _ | MBlockSeen _ => false | _ => true end.

Definition final_of (tr : list (Z * (ldb * lsm))) : ldb * lsm :=
  match rev tr with (_, x) :: _ => x | [] => (db_init, sm_fresh) end.

Definition model_results (d : ldb) : list (N * (bool * cres clabel elabel)) :=
  map (fun r => (fst r, (rs_success _ _ (snd r), rs_result _ _ (snd r)))) (db_results _ _ _ d).

Definition check_view (L : Z) (blocks : list (Z * list ldev)) (v : view) : bool :=
  match run_trace v L (db_init, sm_fresh) blocks with
  | None => false
  | Some tr =>
      let d := fst (final_of tr) in
      forallb (check_snap tr) (v_snaps v) &&
      list_eqb msg_eqb (filter is_dkg_msg (map (fun r => snd (snd r)) (db_outbox _ _ _ d))) (v_msgs v) &&
      list_eqb (fun a b => N.eqb (fst a) (fst b) && Bool.eqb (snd a) (snd b))
               (map (fun r => (fst r, fst (snd r))) (model_results d)) (map (fun r => (fst r, fst (snd r))) (v_results v))
  end.

Definition cres_eqb (a b : cres clabel elabel) : bool :=
  match a, b with
  | CResult cs _, CResult cs' _ => list_eqb (opt_eqb clabel_eqb) cs cs'
  | _, _ => false
  end.

(* two keypers hold the same public key material for an eon iff the model gives them the same
   vector of qualified commitments *)
Definition check_classes (L : Z) (blocks : list (Z * list ldev)) (views : list view) : bool :=
  let finals := map (fun v => match run_trace v L (db_init, sm_fresh) blocks with
                              | Some tr => (v, model_results (fst (final_of tr)))
                              | None => (v, []) end) views in
  forallb (fun a : view * list (N * (bool * cres clabel elabel)) =>
    forallb (fun b : view * list (N * (bool * cres clabel elabel)) =>
      forallb (fun ra : N * (bool * N) =>
        match nget (v_results (fst b)) (fst ra), nget (snd a) (fst ra), nget (snd b) (fst ra) with
        | Some (true, cb), Some (true, ma), Some (true, mb) =>
            if fst (snd ra) then Bool.eqb (N.eqb (snd (snd ra)) cb) (cres_eqb ma mb) else true
        | _, _, _ => true
        end) (v_results (fst a))) finals) finals.

Definition check_case (c : case) : list N :=
  match c with
  | CRun id L blocks views =>
      if forallb (check_view L blocks) views && check_classes L blocks views then [] else [id]
  end.

Definition mismatches (cs : list case) : list N := flat_map check_case cs.

(* which part of a case disagrees (used when a mismatch is investigated by hand):
   per view (trace exists, snapshots, messages, results) *)
Definition explain (c : case) : list (bool * bool * bool * bool) :=
  match c with
  | CRun id L blocks views =>
      map (fun v => match run_trace v L (db_init, sm_fresh) blocks with
                    | None => (false, false, false, false)
                    | Some tr =>
                        let d := fst (final_of tr) in
                        (true, forallb (check_snap tr) (v_snaps v),
                         list_eqb msg_eqb (filter is_dkg_msg (map (fun r => snd (snd r)) (db_outbox _ _ _ d))) (v_msgs v),
                         list_eqb (fun a b => N.eqb (fst a) (fst b) && Bool.eqb (snd a) (snd b))
               (map (fun r => (fst r, fst (snd r))) (model_results d)) (map (fun r => (fst r, fst (snd r))) (v_results v)))
                    end) views
  end.
