(* Correspondence stream for C04: the cases are those of Corr/Gossip.v (direct validator calls
   with the rejection class, the combined topic validator, Handle, and handler histories). *)
From Verif Require Export Corr.Gossip.
