(* Correspondence stream for C03: schedules run on n real handler stacks (gossipsim), replayed
   on the network model of Model/GossipNet.v: per operation the receiver's verdict and every
   message handed to publication with the sender's own verdict; at the end the key table of
   every keyper. *)
From Coq Require Import List NArith ZArith Bool.
From Verif Require Import Lib.Bytes Model.EpochKG Model.EpochKGLabels Model.EpochKGHandler.
From Verif Require Export Model.GossipNet Corr.Gossip.
Import ListNotations.

Definition csig_eqb (a b : csig) : bool :=
  match a, b with
  | SigBy x t, SigBy y u => (x =? y)%N && tuple_eqb t u
  | SigMalformed, SigMalformed | SigStray, SigStray => true
  | _, _ => false
  end.

Fixpoint list_eqb {A} (f : A -> A -> bool) (a b : list A) : bool :=
  match a, b with
  | [], [] => true
  | x :: a', y :: b' => f x y && list_eqb f a' b'
  | _, _ => false
  end.

Definition olbl_eqb (a b : option lbl) : bool :=
  match a, b with
  | Some x, Some y => lbl_eqb x y
  | None, None => true
  | _, _ => false
  end.

Definition item_eqb (a b : bytes * kv) : bool :=
  bytes_eqb (fst a) (fst b) && bytes_eqb (kv_bytes (snd a)) (kv_bytes (snd b)) && olbl_eqb (kv_lbl (snd a)) (kv_lbl (snd b)).

Definition sx_eqb (a b : shares_extra) : bool :=
  match a, b with
  | SxNone, SxNone | SxGnosisNil, SxGnosisNil | SxServiceNil, SxServiceNil | SxOptimism, SxOptimism => true
  | SxGnosis s p g, SxGnosis s' p' g' => (s =? s')%N && (p =? p')%N && csig_eqb g g'
  | SxService g, SxService g' => csig_eqb g g'
  | _, _ => false
  end.

Definition kx_eqb (a b : keys_extra) : bool :=
  match a, b with
  | KxNone, KxNone | KxGnosisNil, KxGnosisNil | KxServiceNil, KxServiceNil | KxOptimism, KxOptimism => true
  | KxGnosis s p i g, KxGnosis s' p' i' g' => (s =? s')%N && (p =? p')%N && list_eqb N.eqb i i' && list_eqb csig_eqb g g'
  | KxService i g, KxService i' g' => list_eqb N.eqb i i' && list_eqb csig_eqb g g'
  | _, _ => false
  end.

(* A signature label of the model names the data that was signed; the driver classifies the
   observed bytes relative to the data of the message that carries them (recovery over the
   message's own hash-tree-root). A signature over other data recovers, over that root, to an
   address nobody holds: both sides are normalised to that view before they are compared. *)
Definition norm_sig (own : tuple) (s : csig) : csig :=
  match s with
  | SigBy a h => if tuple_eqb h own then s else SigStray
  | _ => s
  end.

Definition norm_kx (inst eon : N) (ids : list bytes) (x : keys_extra) : keys_extra :=
  match x with
  | KxGnosis s p i g => KxGnosis s p i (map (norm_sig (TGnosis inst eon s p ids)) g)
  | KxService i g => KxService i (map (norm_sig (TService inst eon ids)) g)
  | _ => x
  end.

Definition norm_sx (inst eon : N) (ids : list bytes) (x : shares_extra) : shares_extra :=
  match x with
  | SxGnosis s p g => SxGnosis s p (norm_sig (TGnosis inst eon s p ids) g)
  | SxService g => SxService (norm_sig (TService inst eon ids) g)
  | _ => x
  end.

Definition gmsg_eqb (a b : gmsg) : bool :=
  match a, b with
  | MShares x, MShares y =>
      (s_inst x =? s_inst y)%N && (s_eon x =? s_eon y)%N && (s_kidx x =? s_kidx y)%N
      && list_eqb item_eqb (s_shares x) (s_shares y)
      && sx_eqb (norm_sx (s_inst x) (s_eon x) (sh_ids x) (s_extra x)) (norm_sx (s_inst y) (s_eon y) (sh_ids y) (s_extra y))
  | MKeys x, MKeys y =>
      (km_inst x =? km_inst y)%N && (km_eon x =? km_eon y)%N
      && list_eqb item_eqb (km_keys x) (km_keys y)
      && kx_eqb (norm_kx (km_inst x) (km_eon x) (k_ids x) (km_extra x)) (norm_kx (km_inst y) (km_eon y) (k_ids y) (km_extra y))
  | _, _ => false
  end.

Definition pub_eqb (a b : pub) : bool :=
  match a, b with Pub m v, Pub m' v' => gmsg_eqb m m' && vres_eqb v v' end.

Definition step_obs_eqb (a b : step_obs) : bool :=
  match a, b with
  | SkipOp, SkipOp => true
  | Did v p, Did v' p' => vres_eqb v v' && list_eqb pub_eqb p p'
  | _, _ => false
  end.

(* the tables of the run: key set 0 only *)
Fixpoint share_lookup (tbl : list (N * bytes * bytes)) (i : N) (x : bytes) : bytes :=
  match tbl with
  | [] => []
  | (j, y, b) :: r => if (j =? i)%N && bytes_eqb y x then b else share_lookup r i x
  end.
Definition sharebytes_of (tbl : list (N * bytes * bytes)) (e i : N) (x : bytes) : bytes :=
  if (e =? 0)%N then share_lookup tbl i x else [].

Fixpoint key_lookup (tbl : list (bytes * bytes)) (x : bytes) : bytes :=
  match tbl with
  | [] => []
  | (y, b) :: r => if bytes_eqb y x then b else key_lookup r x
  end.
Definition keybytes_of (tbl : list (bytes * bytes)) (e : N) (x : bytes) : bytes :=
  if (e =? 0)%N then key_lookup tbl x else [].

Fixpoint classify_of (tbl : list (bytes * bytes)) (b : bytes) : lbl :=
  match tbl with
  | [] => LOther
  | (y, k) :: r => if bytes_eqb k b then LKey 0 y else classify_of r b
  end.

Definition keyrow_eqb (a b : Z * bytes * bytes) : bool :=
  match a, b with (e, x, k), (e', x', k') => (e =? e')%Z && bytes_eqb x x' && bytes_eqb k k' end.

(* the key tables of the first [length finals] nodes (the keypers) *)
Fixpoint finals_eqb (nds : list knode) (finals : list (list (Z * bytes * bytes))) : bool :=
  match finals with
  | [] => true
  | f :: fr => match nds with
               | [] => false
               | nd :: nr => list_eqb keyrow_eqb (c_keys (kn_core nd)) f && finals_eqb nr fr
               end
  end.

Inductive case :=
| CNet (id : N) (init : list knode) (shb : list (N * bytes * bytes)) (kb : list (bytes * bytes))
       (ops : list op) (obs : list step_obs) (finals : list (list (Z * bytes * bytes))).

Definition check_case (c : case) : list N :=
  match c with
  | CNet id init shb kb ops obs finals =>
      let '(nt, o) := run_net (sharebytes_of shb) (keybytes_of kb) (classify_of kb) (mkNet init []) ops in
      if list_eqb step_obs_eqb o obs && finals_eqb (nodes nt) finals then [] else [id]
  end.

Definition mismatches (cs : list case) : list N := flat_map check_case cs.
