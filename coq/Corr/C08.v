(* Correspondence stream for C08: the operations the keyper under test went through in a run
   with crashes (committed block transactions, on-chain transactions, broadcasts with
   shuttermint's answers, row deletions, crashes), replayed on Model/Outbox.v; after every loop
   iteration the durable state the driver observed is compared with the model's.  Values are
   the label instance of Corr/C07.v.  Outbox ids are not compared (a rolled back transaction
   consumes sequence numbers), only the order of the queued messages. *)
From Coq Require Import List NArith ZArith Bool.
From Verif Require Import Lib.Bytes Model.DKGPure Model.DKGDriver Model.Outbox Corr.C07.
Import ListNotations.
Open Scope Z_scope.

Notation lop := (@op clabel elabel plabel).
Notation lworld := (@world clabel elabel plabel).

Definition poly_tbl (l : list (N * plabel)) (eon : N) : plabel :=
  match nget l eon with Some p => p | None => mkP 0 0 end.

Definition msg_eqb8 (a b : lmsg) : bool :=
  match a, b with
  | MVote x y, MVote x' y' => N.eqb x x' && N.eqb y y'
  | MBlockSeen n, MBlockSeen n' => N.eqb n n'
  | _, _ => msg_eqb a b
  end.

Record obs := mkObs {
  ob_sync : Z;
  ob_outbox : list lmsg;              (* in id order *)
  ob_lastcfg : Z;
  ob_lastseen : Z;
  ob_pure : list (N * snap);
  ob_results : list (N * bool);
  ob_log : nat                        (* number of transactions shuttermint has received from the keyper *)
}.

Inductive case :=
| CCrash (id : N) (me : addr) (L delta : Z) (groups : list (list lop * obs)).

Definition lstep (me : addr) (L delta : Z) (w : lworld) (o : lop) : option lworld :=
  step clabel elabel plabel l_commit_of l_eval_of l_verify l_deg_ok l_valid me L (fun m => m) delta w o.

Fixpoint lrun (me : addr) (L delta : Z) (w : lworld) (ops : list lop) : option lworld :=
  match ops with
  | [] => Some w
  | o :: r => match lstep me L delta w o with Some w' => lrun me L delta w' r | None => None end
  end.

Definition check_obs (w : lworld) (o : obs) : bool :=
  let d := o_db (w_o w) in
  Z.eqb (db_sync _ _ _ d) (ob_sync o) &&
  list_eqb msg_eqb8 (map (fun r => snd (snd r)) (db_outbox _ _ _ d)) (ob_outbox o) &&
  Z.eqb (o_lastcfg (w_o w)) (ob_lastcfg o) && Z.eqb (o_lastseen (w_o w)) (ob_lastseen o) &&
  Nat.eqb (length (db_pure _ _ _ d)) (length (ob_pure o)) &&
  forallb (fun es => match nget (db_pure _ _ _ d) (fst es) with
                     | Some p => snap_eqb (snap_of p) (snd es)
                     | None => false end) (ob_pure o) &&
  list_eqb (fun a b => N.eqb (fst a) (fst b) && Bool.eqb (snd a) (snd b))
           (map (fun r => (fst r, rs_success _ _ (snd r))) (db_results _ _ _ d)) (ob_results o) &&
  Nat.eqb (length (w_log w)) (ob_log o).

Fixpoint check_groups (me : addr) (L delta : Z) (w : lworld) (gs : list (list lop * obs)) : bool :=
  match gs with
  | [] => true
  | (ops, o) :: r =>
      match lrun me L delta w ops with
      | None => false
      | Some w' => check_obs w' o && check_groups me L delta w' r
      end
  end.

Definition check_case (c : case) : list N :=
  match c with
  | CCrash id me L delta gs => if check_groups me L delta (world_init clabel elabel plabel) gs then [] else [id]
  end.

Definition mismatches (cs : list case) : list N := flat_map check_case cs.

(* the index of the first group that disagrees, and which comparison fails there *)
Fixpoint explain_groups (me : addr) (L delta : Z) (w : lworld) (gs : list (list lop * obs)) (i : nat)
  : option (nat * option (list bool)) :=
  match gs with
  | [] => None
  | (ops, o) :: r =>
      match lrun me L delta w ops with
      | None => Some (i, None)
      | Some w' =>
          if check_obs w' o then explain_groups me L delta w' r (S i)
          else let d := o_db (w_o w') in
               Some (i, Some [Z.eqb (db_sync _ _ _ d) (ob_sync o);
                              list_eqb msg_eqb8 (map (fun r => snd (snd r)) (db_outbox _ _ _ d)) (ob_outbox o);
                              Z.eqb (o_lastcfg (w_o w')) (ob_lastcfg o); Z.eqb (o_lastseen (w_o w')) (ob_lastseen o);
                              Nat.eqb (length (db_pure _ _ _ d)) (length (ob_pure o));
                              forallb (fun es => match nget (db_pure _ _ _ d) (fst es) with
                                                 | Some p => snap_eqb (snap_of p) (snd es) | None => false end) (ob_pure o);
                              list_eqb (fun a b => N.eqb (fst a) (fst b) && Bool.eqb (snd a) (snd b))
                                (map (fun r => (fst r, rs_success _ _ (snd r))) (db_results _ _ _ d)) (ob_results o);
                              Nat.eqb (length (w_log w')) (ob_log o)])
      end
  end.

Definition explain (c : case) :=
  match c with CCrash id me L delta gs => explain_groups me L delta (world_init clabel elabel plabel) gs 0 end.
