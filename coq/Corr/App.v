(* Correspondence for the shuttermint application: one case = a genesis, a list of ABCI calls
   (on decoded transactions), the implementation's responses and a projection of its final
   state; the model is run on the same calls and everything is compared. *)
From Coq Require Import List NArith ZArith Bool.
From Verif Require Import Lib.Bytes Lib.Assoc Lib.Sorting Model.Powermap Model.App.
Import ListNotations.

Fixpoint list_eqb {A} (eqb : A -> A -> bool) (a b : list A) : bool :=
  match a, b with
  | [], [] => true
  | x :: a', y :: b' => eqb x y && list_eqb eqb a' b'
  | _, _ => false
  end.

Definition pair_eqb {A B} (ea : A -> A -> bool) (eb : B -> B -> bool) (x y : A * B) : bool :=
  ea (fst x) (fst y) && eb (snd x) (snd y).

Definition blist_eqb := list_eqb bytes_eqb.

Definition event_eqb (a b : event) : bool :=
  match a, b with
  | EvCheckIn s k, EvCheckIn s' k' => bytes_eqb s s' && bytes_eqb k k'
  | EvBatchConfig a t k i, EvBatchConfig a' t' k' i' => N.eqb a a' && N.eqb t t' && blist_eqb k k' && N.eqb i i'
  | EvBatchConfigStarted i, EvBatchConfigStarted i' => N.eqb i i'
  | EvEonStarted e a i, EvEonStarted e' a' i' => N.eqb e e' && N.eqb a a' && N.eqb i i'
  | EvPolyEval s e r v, EvPolyEval s' e' r' v' => bytes_eqb s s' && N.eqb e e' && blist_eqb r r' && blist_eqb v v'
  | EvPolyCommitment s e g, EvPolyCommitment s' e' g' => bytes_eqb s s' && N.eqb e e' && blist_eqb g g'
  | EvAccusation s e a, EvAccusation s' e' a' => bytes_eqb s s' && N.eqb e e' && blist_eqb a a'
  | EvApology s e a v, EvApology s' e' a' v' => bytes_eqb s s' && N.eqb e e' && blist_eqb a a' && blist_eqb v v'
  | _, _ => false
  end.

Definition response_eqb (a b : response) : bool :=
  match a, b with
  | RBegin e, RBegin e' => list_eqb event_eqb e e'
  | RCheck c, RCheck c' => N.eqb c c'
  | RDeliver c e, RDeliver c' e' => N.eqb c c' && list_eqb event_eqb e e'
  | REnd u e, REnd u' e' => list_eqb (pair_eqb bytes_eqb Z.eqb) u u' && list_eqb event_eqb e e'
  | RCommit, RCommit => true
  | RPanic, RPanic => true
  | _, _ => false
  end.

(* projection of the state that is compared with the implementation (maps sorted by key) *)
Record proj := mkProj {
  p_configs : list config;
  p_eon : N;
  p_height : Z;
  p_ids : list (bytes * bytes);
  p_seen : list (bytes * N);
  p_vals : list (bytes * Z);
  p_votes : list (bytes * nat);
  p_ncands : nat;
  p_dkgs : list (N * (N * list (bytes * nat) * (nat * nat * nat * nat)));
  p_nnonces : nat;
  p_members : list bytes
}.

Fixpoint ninsert {V} (x : N * V) (l : list (N * V)) : list (N * V) :=
  match l with
  | [] => [x]
  | y :: r => if (fst y <? fst x)%N then y :: ninsert x r else x :: l
  end.
Definition nsort {V} (l : list (N * V)) : list (N * V) := fold_right ninsert [] l.

Fixpoint dedup (l : list bytes) : list bytes :=
  match l with
  | [] => []
  | x :: r => if mem_addr x r then dedup r else x :: dedup r
  end.

Definition project (s : state) : proj :=
  mkProj (configs s) (eon_counter s) (last_height s) (ksort (identities s)) (ksort (blocks_seen s))
         (ksort (validators s)) (ksort (v_votes (cfg_voting s))) (length (v_cands (cfg_voting s)))
         (nsort (map (fun ed => (fst ed, (c_index (d_config (snd ed)), ksort (v_votes (d_success (snd ed))),
                                          (length (d_evals (snd ed)), length (d_commits (snd ed)),
                                           length (d_accs (snd ed)), length (d_apos (snd ed)))))) (dkgs s)))
         (length (nonces s))
         (map fst (ksort (map (fun a => (a, tt)) (dedup (chk_members s))))).

Definition config_full_eqb := config_eqb.

Definition proj_eqb (a b : proj) : bool :=
  list_eqb config_full_eqb (p_configs a) (p_configs b) &&
  N.eqb (p_eon a) (p_eon b) && Z.eqb (p_height a) (p_height b) &&
  list_eqb (pair_eqb bytes_eqb bytes_eqb) (p_ids a) (p_ids b) &&
  list_eqb (pair_eqb bytes_eqb N.eqb) (p_seen a) (p_seen b) &&
  list_eqb (pair_eqb bytes_eqb Z.eqb) (p_vals a) (p_vals b) &&
  list_eqb (pair_eqb bytes_eqb Nat.eqb) (p_votes a) (p_votes b) &&
  Nat.eqb (p_ncands a) (p_ncands b) &&
  list_eqb (pair_eqb N.eqb (pair_eqb (pair_eqb N.eqb (list_eqb (pair_eqb bytes_eqb Nat.eqb)))
                                     (pair_eqb (pair_eqb (pair_eqb Nat.eqb Nat.eqb) Nat.eqb) Nat.eqb)))
           (p_dkgs a) (p_dkgs b) &&
  Nat.eqb (p_nnonces a) (p_nnonces b) &&
  blist_eqb (p_members a) (p_members b).

Record app_case := mkAppCase {
  ac_id : N;
  ac_genesis : genesis;
  ac_calls : list call;
  ac_resps : list response;     (* observed on the implementation *)
  ac_final : proj               (* observed on the implementation *)
}.

Definition check_app_case (c : app_case) : list N :=
  match init_chain (ac_genesis c) with
  | None => [ac_id c]
  | Some s0 =>
      let '(s, rs) := run enum_id s0 (ac_calls c) in
      if list_eqb response_eqb rs (ac_resps c) && proj_eqb (project s) (ac_final c) then [] else [ac_id c]
  end.
