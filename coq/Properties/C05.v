(* C05 - no byte string on any gossip topic can crash a node.
   This file only states the theorems; proofs are in Proofs/GossipTotal.v and
   Proofs/GossipHandle.v.

   Byte strings enter through the decoder oracle ([wire]: garbage | an envelope with a version
   and either no usable payload or a decoded message); every theorem quantifies over all of
   them. The model follows the code after the repairs committed in /repo ("fix: key shares
   validation rejects a keyper index outside the DKG result" 2767adb0877f, "fix: getBidderNodeAddress
   refuses a signature that is not 65 bytes long" 048a131b7e58, and the C06 repairs of the signature
   validators). The functions of the pinned tree are kept (legacy_...) and refuted at the end. *)
From Coq Require Import List NArith ZArith Bool Lia.
From Verif Require Import Lib.Bytes Model.EpochKG Model.EpochKGLabels Model.EpochKGHandler Model.KeysSig
     Model.Gossip Model.GossipMisc Proofs.EpochKGHandler Proofs.Gossip Proofs.GossipTotal Proofs.GossipHandle.
Import ListNotations.

(* For every node flavour (core, Gnosis, Shutter service, Primev, snapshot keyper, Gnosis access
   node), every state, every topic whose validator is run, every topic field of the message
   and everything the decoder can produce: the combined validator finishes with accept or
   reject; it does not panic. Termination: every model function is structurally recursive. *)
Theorem C05_validate_total : forall nd st tp mt w,
  combined nd st tp mt w <> VPanic /\
  (combined nd st tp mt w = VAccept \/ combined nd st tp mt w = VReject).
Proof. intros. split; [apply validate_total | apply combined_verdicts]. Qed.
Print Assumptions C05_validate_total.

Definition ex_gstate : gstate :=
  mkGState (mkFState d1_state [(1%Z, {| ks_keypers := [Some 0%N; None]; ks_threshold := 1 |})])
           [(0%Z, None)] {| an_instance := 7; an_maxkeys := 3; an_eonkeys := []; an_keypersets := [] |} [].

(* the message that crashed the pinned tree, on four flavours; an index beyond the observer's
   keyper set and an undecodable keyper address on a Gnosis node *)
Example C05_validate_total_nonvacuous :
  let w := WEnv envelope_version (PMsg (MShares d1_msg)) in
  combined NCore ex_gstate TpShares TpShares w = VReject /\
  combined NPrimev ex_gstate TpShares TpShares w = VReject /\
  combined NSnapshot ex_gstate TpShares TpShares w = VReject /\
  combined NGnosis ex_gstate TpShares TpShares
    (WEnv envelope_version (PMsg (MShares (mkSharesMsg 7 1 1 (s_shares d1_msg) (SxGnosis 1 1 SigStray))))) = VReject /\
  combined NAccess ex_gstate TpKeys TpKeys WGarbage = VReject.
Proof. cbv zeta. split; [|split; [|split; [|split]]]; vm_compute; reflexivity. Qed.

(* If the combined validator of a subscribed topic accepted a message in some state st, then
   in every state st' (the database may have moved in between) that keeps the share table
   invariant - every stored share row carries a keyper index inside the DKG result under which
   it is aggregated, thresholds are at least 1 - and in which the DKG result of the message's
   keyper config index has the size it had in st, for every row order the database may choose:
   all handlers registered for the message's type finish without a panic. *)
Theorem C05_handle_total : forall nd o st st' tp w m,
  validators_for nd tp <> [] ->
  combined nd st tp tp w = VAccept -> unmarshal_pubsub w = Some m ->
  handle_premises o st st' m ->
  handle nd o st' m = HFin.
Proof. exact handle_total. Qed.
Print Assumptions C05_handle_total.

(* a Gnosis keys message with two signers and two signatures, accepted, handled; premises hold *)
Definition ex_ks : keyperset := {| ks_keypers := [Some 10%N; Some 11%N; Some 12%N]; ks_threshold := 2 |}.
Definition id52 : bytes := repeat 161%N 52.
Definition ex_km : keys_msg :=
  let ids := [id52] in
  mkKeysMsg 7 1 [(id52, mkKV [1%N] (Some (LKey 0 id52)))]
            (KxGnosis 5 0 [0%N; 2%N] [SigBy 10%N (TGnosis 7 1 5 0 ids); SigBy 12%N (TGnosis 7 1 5 0 ids)]).
Definition ex_gstate2 : gstate :=
  mkGState (mkFState d1_state [(1%Z, ex_ks)]) [] {| an_instance := 7; an_maxkeys := 3; an_eonkeys := []; an_keypersets := [] |} [].

Example C05_handle_total_nonvacuous :
  let w := WEnv envelope_version (PMsg (MKeys ex_km)) in
  validators_for NGnosis TpKeys <> [] /\
  validate_keys_gnosis (g_f ex_gstate2) ex_km = GAccept /\
  unmarshal_pubsub w = Some (MKeys ex_km) /\
  handle_premises (fun _ rows => rows) ex_gstate2 ex_gstate2 (MKeys ex_km) /\
  handle NGnosis (fun _ rows => rows) ex_gstate2 (MKeys ex_km) = HFin.
Proof.
  cbv zeta. split; [unfold validators_for, validators_of, registered, registered_with; simpl; discriminate|].
  split; [vm_compute; reflexivity|].
  split; [vm_compute; reflexivity|]. split; [|vm_compute; reflexivity].
  split; [intros i rows; apply Permutation.Permutation_refl|]. split; [|exact I].
  intros eon ks n t H. split; [|simpl; constructor].
  unfold dkg_for_config in H. simpl in H.
  destruct (match eon with Z.pos q => (1 =? q)%positive | _ => false end); simpl in H; [|discriminate].
  injection H as _ _ <-. lia.
Qed.

(* partial: the number of database statements and of pairing / signature-recovery checks a
   validator performs is bounded by a linear function of the number of shares / keys / signers
   of the message (cost functions defined alongside the validators, following the same control
   flow; the statement count of the core validators is compared with the fake database's count
   on every executed case). What is missing: heap allocation and wall-clock time are not
   expressible in the model (the drivers measure both per call), and the cost of the handlers
   is not modelled. *)
Theorem C05_cost_bounded_partial :
  (forall st m, db_stmts (cost_validate_shares st m) <= 2 /\
                crypto_ops (cost_validate_shares st m) <= length (s_shares m))%nat /\
  (forall st m, db_stmts (cost_validate_keys st m) <= 2 + length (km_keys m) /\
                crypto_ops (cost_validate_keys st m) <= length (km_keys m))%nat /\
  (forall m, db_stmts (cost_validate_shares_flavour m) <= 1 /\ crypto_ops (cost_validate_shares_flavour m) <= 1)%nat /\
  (forall m, db_stmts (cost_validate_keys_flavour m) <= 1 /\
             crypto_ops (cost_validate_keys_flavour m) <= length (k_signers m))%nat.
Proof. exact cost_bounds. Qed.
Print Assumptions C05_cost_bounded_partial.

Example C05_cost_bounded_partial_nonvacuous :
  cost_validate_shares d1_state (mkSharesMsg 7 1 1 (s_shares d1_msg) SxNone) = mkCost 2 1 /\
  validate_shares d1_state (mkSharesMsg 7 1 1 (s_shares d1_msg) SxNone) = GAccept.
Proof. split; vm_compute; reflexivity. Qed.

(* ---- the pinned tree ---- *)

(* D1: the combined key-share validator of a core keyper panics on a decodable one-share
   message whose keyper index equals the number of public key shares *)
Theorem C05_legacy_validate_refuted :
  exists nd st w, legacy_combined nd st TpShares TpShares w = VPanic.
Proof. eexists _, _, _. exact legacy_validate_panics. Qed.
Print Assumptions C05_legacy_validate_refuted.

(* D5: the Primev validator accepts a commitment whose bid signature decodes to 2 bytes; the
   handler of the pinned tree indexes byte 64 of it *)
Theorem C05_legacy_handle_refuted :
  exists st w m, combined NPrimev st TpCommit TpCommit w = VAccept /\ unmarshal_pubsub w = Some m /\
                 legacy_handle NPrimev (fun _ rows => rows) st m = HCrash /\
                 handle NPrimev (fun _ rows => rows) st m = HFin.
Proof.
  exists d1_gstate, (WEnv envelope_version (PMsg (MCommit d5_msg))), (MCommit d5_msg).
  destruct legacy_handle_crashes as [Ha Hc]. split; [exact Ha|]. split; [reflexivity|].
  split; [exact Hc | vm_compute; reflexivity].
Qed.
Print Assumptions C05_legacy_handle_refuted.

(* D3: with the signature validators of the pinned tree (legacy_validate_sigs of Model/KeysSig.v,
   repaired under C06) a Gnosis keys message with two signers and no signature was accepted,
   and the keys handler indexes Signatures[i] over the signers. After the C06 repairs the
   validators require equal lengths, which is what C05_handle_total uses. *)
Theorem C05_legacy_signature_lists_refuted :
  exists ks m,
    c_legacy_validate_sigs Gnosis ks (to_keysmsg no_label m) (k_signers m) (k_sigs m) = Accept /\
    handle_keys_gnosis m = HCrash /\
    c_validate_sigs Gnosis ks (to_keysmsg no_label m) (k_signers m) (k_sigs m) = Reject RSigCount.
Proof.
  exists d3_ks, d3_km. destruct legacy_sigs_then_handle_crashes as [Ha Hc].
  split; [exact Ha|]. split; [exact Hc | vm_compute; reflexivity].
Qed.
Print Assumptions C05_legacy_signature_lists_refuted.
