(* C12 - validator updates always lead to the intended, live validator set.
   This file only states the theorems; proofs are in Proofs/. *)
From Coq Require Import List NArith ZArith Bool Permutation Sorted String Lia.
From Verif Require Import Lib.Bytes Lib.Assoc Lib.Sorting Model.Powermap Model.App Proofs.Powermap
     Proofs.AppDet Proofs.AppSafe Proofs.AppVals.
Import ListNotations.
Open Scope Z_scope.
Open Scope string_scope.

(* For all old and new power maps with distinct keys and positive powers, and for every
   enumeration order of the two Go maps: the update list is the same list, is strictly
   sorted by key (hence duplicate free), removes only validators that are present, and
   applying it the way Tendermint does yields exactly the new map. *)
Theorem C12_diff_apply : forall oldpm newpm oe ne,
  wf_pm oldpm -> wf_pm newpm -> newpm <> [] ->
  Permutation oe oldpm -> Permutation ne newpm ->
  let ups := validator_updates_enum (diff_powermaps_enum oldpm newpm oe ne) in
  ups = validator_updates (diff_powermaps oldpm newpm) /\
  Sorted klt ups /\
  (forall k, In (k, 0) ups -> In k (map fst oldpm)) /\
  exists r, apply_updates oldpm ups = Some r /\ NoDup (map fst r) /\
            forall k, aget r k = aget newpm k.
Proof. exact diff_apply_enum. Qed.
Print Assumptions C12_diff_apply.

Example C12_diff_apply_nonvacuous :
  wf_pm [(hx "01", 10); (hx "02", 20)] /\ wf_pm [(hx "02", 10); (hx "03", 30)] /\
  validator_updates (diff_powermaps [(hx "01", 10); (hx "02", 20)] [(hx "02", 10); (hx "03", 30)])
  = [(hx "01", 0); (hx "02", 10); (hx "03", 30)].
Proof.
  unfold wf_pm. repeat split; try (repeat constructor; simpl; intuition (try discriminate; try lia)).
Qed.

(* Histories.  For every genesis with at least one validator and positive powers (what
   Tendermint's genesis validation enforces), not in dev mode, every call sequence and every
   map enumeration: folding the validator updates of the EndBlock responses over the genesis
   set, with the reference Tendermint rule (which fails on duplicates, negative powers,
   removal of an absent validator and an empty result), never fails and yields at the end of
   the sequence (hence at every height: take prefixes) exactly the application's validator
   map. *)
Theorem C12_fold_is_validators : forall g s0 cs es,
  init_chain g = Some s0 -> good_genesis g -> g_dev_mode g = false -> (forall j, enum_ok (es j)) ->
  exists vs, fold_updates (validators s0) (snd (run_enums es 0 s0 cs)) = Some vs /\
             NoDup (map fst vs) /\
             forall k, aget vs k = aget (validators (fst (run_enums es 0 s0 cs))) k.
Proof.
  intros g s0 cs es Hi Hg Hd He.
  assert (Hdev : dev_mode s0 = false).
  { revert Hi. unfold init_chain. destruct (negb (ensure_valid _)); [discriminate|].
    destruct (negb (forallb _ _)); [discriminate|]. intros [= <-]. exact Hd. }
  pose proof (init_chain_vals_wf g s0 Hg Hi) as Hw.
  apply (fold_is_validators cs es 0%nat s0 (validators s0) He Hdev Hw); [apply Hw|intros k; reflexivity].
Qed.
Print Assumptions C12_fold_is_validators.

(* That map is the intended one: after every EndBlock it is ten units of power per keyper of
   the newest config that is started and whose check-in quorum was met, each keyper's share
   sitting on its registered validator key or, if it has not checked in, on the placeholder
   key; until such a config exists it is the previous (genesis) map. *)
Theorem C12_intended_set : forall e s h,
  let s' := fst (end_block e s h) in
  validators s' = match effective (configs s') with
                  | Some c => make_powermap (identities s) (c_keypers c)
                  | None => validators s
                  end /\
  forall ids ks key, pget0 (make_powermap ids ks) key = 10 * count_key ids ks key.
Proof.
  intros e s h. split; [|intros; apply make_powermap_spec].
  unfold end_block. destruct (end_block_configs s None (configs s)) as [cs evs]. simpl.
  apply current_validators_effective.
Qed.
Print Assumptions C12_intended_set.

(* Liveness of the set: in every reachable state, every config whose validators were switched
   in has at least max(threshold, floor(2n/3)+1) checked-in keypers - more than two thirds of
   the ten-per-keyper power - and this stays true (check-ins are never removed). *)
Theorem C12_quorum_two_thirds : forall g s0 cs es c,
  init_chain g = Some s0 ->
  let s := fst (run_enums es 0 s0 cs) in
  In c (configs s) -> c_valupd c = true -> c_keypers c <> [] ->
  let n := Z.of_nat (List.length (c_keypers c)) in
  let checked := Z.of_N (count_checked_in (identities s) (c_keypers c)) in
  Z.of_N (c_threshold c) <= checked /\ 2 * n < 3 * checked.
Proof.
  intros g s0 cs es c Hi s Hin Hv Hk n checked.
  pose proof (run_valupd_ok cs es 0%nat s0 (init_chain_valupd_ok g s0 Hi)) as Hok.
  unfold valupd_ok in Hok. rewrite Forall_forall in Hok. specialize (Hok c Hin Hv).
  destruct (num_required_spec c Hk) as [H1 H2]. unfold checked, n. fold s in Hok. lia.
Qed.
Print Assumptions C12_quorum_two_thirds.

(* The fork gate: an override height wins over an override eon, which wins over the
   configured (enabled, height) pair; an empty override disables the fork. *)
Theorem C12_fork_gate : forall (oh : Z) (oe : option N) (e0 : N) enabled height cur_h cur_e,
  is_fork_active (Some (Some oh, oe)) enabled height cur_h cur_e = (oh <=? cur_h)%Z /\
  is_fork_active (Some (None, Some e0)) enabled height cur_h cur_e = (e0 <=? cur_e)%N /\
  is_fork_active (Some (None, None)) enabled height cur_h cur_e = false /\
  is_fork_active None enabled height cur_h cur_e = (enabled && (height <=? cur_h)%Z).
Proof. intros. repeat split; try reflexivity. Qed.
Print Assumptions C12_fork_gate.

Definition kk (i : N) : bytes := repeat i 20.
Definition gg : genesis := mkGenesis [kk 1; kk 2] 1 0 false 0 [(repeat 7%N 32, 10)] (hx "63") false.
Example C12_fold_nonvacuous :
  exists s0, init_chain gg = Some s0 /\ good_genesis gg /\
  (* keyper 1 reports block 0 and checks in; config 0 starts and the validators switch *)
  snd (run enum_id s0 [CDeliver (Tx (kk 1) (hx "63") 1 (PBlockSeen 1));
                       CDeliver (Tx (kk 1) (hx "63") 2 (PCheckIn (repeat 9%N 32) [] true));
                       CDeliver (Tx (kk 2) (hx "63") 3 (PCheckIn (repeat 8%N 32) [] true));
                       CEnd 1]) =
  [RDeliver 0 []; RDeliver 0 [EvCheckIn (kk 1) []]; RDeliver 0 [EvCheckIn (kk 2) []];
   REnd [(repeat 7%N 32, 0); (repeat 8%N 32, 10); (repeat 9%N 32, 10)] [EvBatchConfigStarted 0]].
Proof.
  eexists. split; [reflexivity|]. split.
  - split; [discriminate|]. repeat constructor.
  - vm_compute. reflexivity.
Qed.

(* The second tie: constants, the fork-override table, IsForkActive and
   numRequiredTransitionValidators as regenerated from the source on this run
   (Generated/AppConsts.v) agree with the model the theorems above are about. *)
From Verif Require Import Generated.AppConsts Proofs.AppConsts.
Theorem C12_translated_source_agrees :
  (gen_max_txs_per_block = max_txs_per_block /\
   gen_code_ok = code_ok /\ gen_code_error = code_error /\ gen_code_seen = code_seen /\
   gen_power_per_keyper = 10%Z /\ gen_nonexistent_validator = nonexistent_validator) /\
  (forall chain, fork_override chain = lookup_override gen_fork_overrides chain) /\
  (forall o en h ch ce, gen_is_fork_active o en h ch ce = is_fork_active o en h ch ce) /\
  (forall c, (Z.of_nat (List.length (c_keypers c)) < two63)%Z ->
             Z.of_N (num_required_transition c) =
             gen_num_required_transition (Z.of_nat (List.length (c_keypers c))) (Z.of_N (c_threshold c))).
Proof.
  split; [exact consts_agree|]. split; [exact fork_overrides_agree|]. split; [exact is_fork_active_agrees|exact num_required_agrees].
Qed.
Print Assumptions C12_translated_source_agrees.

(* The third tie: DiffPowermaps, Powermap.ValidatorUpdates, the comparator of SortValidators
   (app/powermap.go), ShutterApp.makePowermap, countCheckedInKeypers and CurrentValidators (app/app.go),
   translated statement by statement on this run
   (Generated/PowermapFuns.v; every `range` over a map is a fold over an explicit enumeration),
   compute what the model computes - for every enumeration of the ranged maps. *)
From Verif Require Import Generated.PowermapFuns Proofs.PowermapFuns.
Theorem C12_translated_powermap_agrees :
  (forall oldpm newpm oe ne, gen_diff_powermaps oldpm newpm oe ne = diff_powermaps_enum oldpm newpm oe ne) /\
  gen_diff_ranged = [0%nat; 1%nat] /\
  (forall pm e, gen_validator_updates pm e = validator_updates_enum e) /\
  (forall a b, gen_validator_less a b = bytes_ltb a b) /\
  (forall ids keypers, gen_make_powermap ids keypers = make_powermap ids keypers) /\
  (forall (ids : amap bytes) keypers, (Z.of_nat (List.length keypers) < 18446744073709551616)%Z ->
                        gen_count_checked_in ids keypers = Z.of_N (count_checked_in ids keypers)) /\
  (forall ids validators cs, gen_current_validators ids validators cs = current_validators ids validators cs).
Proof.
  split; [exact gen_diff_agrees|]. split; [exact gen_diff_ranged_ok|].
  split; [exact gen_validator_updates_agrees|]. split; [exact gen_validator_less_is_ltb|].
  split; [exact gen_make_powermap_agrees|]. split; [exact gen_count_checked_in_agrees|exact gen_current_validators_agrees].
Qed.
Print Assumptions C12_translated_powermap_agrees.
