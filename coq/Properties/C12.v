(* C12 - validator updates always lead to the intended, live validator set.
   This file only states the theorems; proofs are in Proofs/. *)
From Coq Require Import List NArith ZArith Bool Permutation Sorted String Lia.
From Verif Require Import Lib.Bytes Lib.Assoc Lib.Sorting Model.Powermap Proofs.Powermap.
Import ListNotations.
Open Scope Z_scope.
Open Scope string_scope.

(* For all old and new power maps with distinct keys and positive powers, and for every
   enumeration order of the two Go maps: the update list is the same list, is strictly
   sorted by key (hence duplicate free), removes only validators that are present, and
   applying it the way Tendermint does yields exactly the new map. *)
Theorem C12_diff_apply : forall oldpm newpm oe ne,
  wf_pm oldpm -> wf_pm newpm -> newpm <> [] ->
  Permutation oe oldpm -> Permutation ne newpm ->
  let ups := validator_updates_enum (diff_powermaps_enum oldpm newpm oe ne) in
  ups = validator_updates (diff_powermaps oldpm newpm) /\
  Sorted klt ups /\
  (forall k, In (k, 0) ups -> In k (map fst oldpm)) /\
  exists r, apply_updates oldpm ups = Some r /\ NoDup (map fst r) /\
            forall k, aget r k = aget newpm k.
Proof. exact diff_apply_enum. Qed.
Print Assumptions C12_diff_apply.

Example C12_diff_apply_nonvacuous :
  wf_pm [(hx "01", 10); (hx "02", 20)] /\ wf_pm [(hx "02", 10); (hx "03", 30)] /\
  validator_updates (diff_powermaps [(hx "01", 10); (hx "02", 20)] [(hx "02", 10); (hx "03", 30)])
  = [(hx "01", 0); (hx "02", 10); (hx "03", 30)].
Proof.
  unfold wf_pm. repeat split; try (repeat constructor; simpl; intuition (try discriminate; try lia)).
Qed.
