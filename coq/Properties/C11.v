(* C11 - keyper-set changes need a threshold of the current set; eons are unique.
   (statements only; proofs in Proofs/AppGov.v, Proofs/AppNonint.v)

   Reachable states: [reachable_ok s] = s is the state after some call sequence from some
   genesis accepted by InitChain, with map enumerators that return permutations. *)
From Coq Require Import String.
From Coq Require Import List NArith ZArith Bool.
From Verif Require Import Lib.Bytes Lib.Assoc Model.Powermap Model.App
     Proofs.AppDet Proofs.AppSafe Proofs.AppNonint Proofs.AppGov.
Import ListNotations.
Open Scope Z_scope.

(* A config is accepted (the batch-config event is emitted) only if: at least
   threshold(current config) DISTINCT members of the current (last) config - [voters], the
   sender of this transaction among them - each hold a vote for exactly this config in the
   voting state of this round; its index is strictly larger and its activation block not
   smaller than the current config's; it is valid; and it becomes the new last config
   together with a fresh eon. *)
Theorem C11_config_needs_quorum : forall e s sender act ks t i s' code evs,
  enum_ok e -> reachable_ok s ->
  deliver_batch_config e s sender act ks t i = Some (s', (code, evs)) -> evs <> [] ->
  let bc := mkConfig act ks t i false false in
  exists lc v' i0 voters,
    last_opt (configs s) = Some lc /\
    add_vote config_eqb (cfg_voting s) sender bc = Some v' /\
    nth_error (v_cands v') i0 = Some bc /\
    NoDup voters /\ In sender voters /\
    (forall a, In a voters -> is_keyper lc a = true /\ aget (v_votes v') a = Some i0) /\
    Z.of_N (c_threshold lc) <= Z.of_nat (length voters) /\
    (c_index lc < i)%N /\ (c_act lc <= act)%N /\ ensure_valid bc = true /\
    configs s' = configs s ++ [bc] /\
    evs = [EvBatchConfig act t ks i; EvEonStarted (next_eon (eon_counter s)) act i].
Proof.
  intros e s sender act ks t i s' code evs He Hr. apply config_quorum; [exact He|].
  apply reachable_ok_gov in Hr. tauto.
Qed.
Print Assumptions C11_config_needs_quorum.

(* Where the votes of a round come from: a vote for [cfg] by [a] appears in the voting state
   only through an accepted (code 0) transaction signed by [a] that carries exactly [cfg] ... *)
Theorem C11_vote_provenance : forall e s c a cfg,
  reachable_ok s -> voted_for (fst (step e s c)) a cfg -> ~ voted_for s a cfg ->
  exists chain nonce, c = CDeliver (Tx a chain nonce (PBatchConfig (c_act cfg) (c_keypers cfg) (c_threshold cfg) (c_index cfg))) /\
                      c_started cfg = false /\ c_valupd cfg = false /\
                      exists evs, snd (step e s c) = RDeliver code_ok evs.
Proof. intros e s c a cfg Hr. apply vote_provenance. apply reachable_ok_gov in Hr. tauto. Qed.
Print Assumptions C11_vote_provenance.

(* ... and disappears only when a config is accepted (so the voters of the quorum theorem
   all voted since the previous acceptance). *)
Theorem C11_votes_persist_until_acceptance : forall e s c a cfg,
  reachable_ok s -> voted_for s a cfg -> ~ voted_for (fst (step e s c)) a cfg ->
  exists act t ks i, In (EvBatchConfig act t ks i) (events_of (snd (step e s c))) /\
                     exists code evs, snd (step e s c) = RDeliver code evs.
Proof. intros e s c a cfg Hr. apply votes_persist. apply reachable_ok_gov in Hr. tauto. Qed.
Print Assumptions C11_votes_persist_until_acceptance.

(* One vote per sender and round: a second vote is refused, changes nothing, emits nothing. *)
Theorem C11_one_vote_per_round : forall e s sender act ks t i,
  reachable_ok s -> amem (v_votes (cfg_voting s)) sender = true ->
  exists code, deliver_batch_config e s sender act ks t i = Some (s, (code, [])) /\ code <> code_ok.
Proof.
  intros e s sender act ks t i Hr Hm. apply second_vote_refused; [exact Hm|].
  apply reachable_ok_gov in Hr. tauto.
Qed.
Print Assumptions C11_one_vote_per_round.

(* Each (sender, nonce) pair executes at most once. *)
Theorem C11_nonce_once : forall e s signer chain nonce p s1 r1 cs es k,
  deliver_tx e s (Tx signer chain nonce p) = Some (s1, r1) ->
  chain = chain_id s -> nonce_used (nonces s) signer nonce = false ->
  let s2 := fst (run_enums es k s1 cs) in
  forall e' chain' p', deliver_tx e' s2 (Tx signer chain' nonce p') = Some (s2, (code_error, [])).
Proof. exact nonce_executes_once. Qed.
Print Assumptions C11_nonce_once.

(* Every eon start - by an accepted config or by a restart - takes the next number: along
   any run the started eons are c+1, c+2, ..., c+m and the counter ends at c+m; while the
   counter stays below 2^64 these are strictly increasing and pairwise distinct. *)
Theorem C11_eons_fresh_increasing : forall cs es k s,
  exists m, flat_map eons_started (snd (run_enums es k s cs)) = eons_from (eon_counter s) m /\
            eon_counter (fst (run_enums es k s cs)) = iter_next (eon_counter s) m /\
            (Z.of_N (eon_counter s) + Z.of_nat m < two64 ->
             eons_from (eon_counter s) m = map (fun i => (eon_counter s + 1 + N.of_nat i)%N) (seq 0 m)).
Proof.
  intros cs es k s. destruct (eons_fresh cs es k s) as [m [H1 H2]]. exists m. split; [exact H1|]. split; [exact H2|].
  apply eons_from_no_wrap.
Qed.
Print Assumptions C11_eons_fresh_increasing.

(* A key-generation restart (the only other source of an eon start) happens only if the eon
   voted on is not older than the newest eon, and at least threshold(config of that eon)
   distinct members of that config have voted "failed" for it. *)
Theorem C11_restart_only_newest_after_t_failures : forall e s sender succ eon s' code evs,
  enum_ok e -> reachable_ok s ->
  deliver_dkg_result e s sender succ eon = Some (s', (code, evs)) -> evs <> [] ->
  exists d v' j voters,
    dkg_get (dkgs s) eon = Some d /\
    add_vote Bool.eqb (d_success d) sender succ = Some v' /\
    nth_error (v_cands v') j = Some false /\
    NoDup voters /\
    (forall a, In a voters -> is_keyper (d_config d) a = true /\ aget (v_votes v') a = Some j) /\
    Z.of_N (c_threshold (d_config d)) <= Z.of_nat (length voters) /\
    (eon_counter s <= eon)%N /\
    evs = [EvEonStarted (next_eon (eon_counter s)) (c_act (d_config d)) (c_index (d_config d))].
Proof.
  intros e s sender succ eon s' code evs He Hr. apply restart_quorum; [exact He|].
  apply reachable_ok_gov in Hr. tauto.
Qed.
Print Assumptions C11_restart_only_newest_after_t_failures.

(* ... and that eon IS the newest one: every DKG instance carries an eon number at most the
   counter, so "not older than the counter" means "equal to it" - for every state reached from
   a genesis by a call sequence short enough that the 64-bit counter cannot have wrapped. *)
Theorem C11_restart_is_for_newest_eon : forall g s0 cs es e sender succ eon s' code evs,
  init_chain g = Some s0 ->
  (Z.of_N (g_initial_eon g) + Z.of_nat (List.length cs) < Z.of_N max_eon)%Z ->
  let s := fst (run_enums es 0 s0 cs) in
  deliver_dkg_result e s sender succ eon = Some (s', (code, evs)) -> evs <> [] ->
  eon = eon_counter s.
Proof.
  intros g s0 cs es e sender succ eon s' code evs Hi Hb s Hd Hev.
  assert (Hc0 : eon_counter s0 = g_initial_eon g).
  { revert Hi. unfold init_chain. destruct (negb (ensure_valid _)); [discriminate|].
    destruct (negb (forallb _ _)); [discriminate|]. intros [= <-]. reflexivity. }
  assert (Hinv : eon_inv s).
  { apply run_eon_inv; [eapply init_chain_eon_inv; eauto|]. rewrite Hc0. exact Hb. }
  revert Hd. unfold deliver_dkg_result.
  destruct (dkg_get (dkgs s) eon) as [d|] eqn:Eg; [|intros [= <- <- <-]; congruence].
  pose proof (Hinv eon d Eg) as Hle.
  destruct (negb (is_keyper (d_config d) sender)); [intros [= <- <- <-]; congruence|].
  destruct (add_vote Bool.eqb (d_success d) sender succ); [|intros [= <- <- <-]; congruence].
  destruct (outcome e _ _) as [[w|]|]; try discriminate; [|intros [= <- <- <-]; congruence].
  destruct w; simpl; [intros [= <- <- <-]; congruence|].
  destruct (eon <? eon_counter _)%N eqn:Eout; [intros [= <- <- <-]; congruence|].
  simpl in Eout. apply N.ltb_ge in Eout. intros _. apply N.le_antisymm; assumption.
Qed.
Print Assumptions C11_restart_is_for_newest_eon.

(* A config is marked started only if at least threshold(previous config) members of the
   previous config (the config itself for the first one) reported a block at or past its
   activation block. *)
Theorem C11_started_needs_block_quorum : forall s cs prev idx,
  In (EvBatchConfigStarted idx) (snd (end_block_configs s prev cs)) ->
  exists l1 c l2 allow,
    cs = l1 ++ c :: l2 /\ c_index c = idx /\ c_started c = false /\
    core_eq (pred_of prev l1 c) allow /\
    (c_threshold allow <= count_seen (blocks_seen s) (c_keypers allow) (c_act c))%N.
Proof. exact started_quorum. Qed.
Print Assumptions C11_started_needs_block_quorum.

(* Before the repair of EnsureValid (fix: commit, known_findings/C11.json): a config with
   threshold 2^63 was "valid", and with it as the current config one vote is an outcome. *)
Theorem C11_quorum_refuted_legacy :
  exists c : config, legacy_ensure_valid c = true /\ ensure_valid c = false /\
    (2 <= c_threshold c)%N /\
    outcome_index enum_id (mkVoting [(hx "aa"%string, 0%nat)] [true]) (int_of_u64 (c_threshold c)) = Some 0%nat.
Proof. exact legacy_threshold_refuted. Qed.
Print Assumptions C11_quorum_refuted_legacy.

(* Non-vacuity: a reachable state in which the second of two votes is accepted. *)
Definition k_ (i : N) : bytes := repeat i 20.
Definition g1 : genesis := mkGenesis [k_ 1; k_ 2; k_ 3; k_ 4] 2 0 false 0 [(repeat 7%N 32, 10%Z)] (hx "63"%string) false.
Example C11_config_needs_quorum_nonvacuous :
  exists s0 s1 s2 evs,
    init_chain g1 = Some s0 /\
    s1 = fst (run_enums (fun _ => enum_id) 0 s0 [CDeliver (Tx (k_ 1) (hx "63"%string) 0 (PBatchConfig 0 [k_ 1; k_ 2] 1 1))]) /\
    reachable_ok s1 /\
    deliver_batch_config enum_id s1 (k_ 2) 0 [k_ 1; k_ 2] 1 1 = Some (s2, (code_ok, evs)) /\ evs <> [].
Proof.
  eexists. eexists. eexists. eexists.
  split; [reflexivity|]. split; [reflexivity|]. split.
  - exists g1. eexists. exists [CDeliver (Tx (k_ 1) (hx "63"%string) 0 (PBatchConfig 0 [k_ 1; k_ 2] 1 1))], (fun _ => enum_id), 0%nat.
    split; [intros j; apply enum_id_ok|]. split; reflexivity.
  - split; [vm_compute; reflexivity|discriminate].
Qed.

(* The second tie: BatchConfig.EnsureValid and ShutterApp.checkConfig, regenerated from the
   source on this run (Generated/AppConsts.v), decide exactly what the model's do. A change of
   the comparison (the signed cast repaired in the fix: commit, a dropped test, <= for <)
   breaks this obligation before any history is generated. *)
From Verif Require Import Generated.AppConsts Proofs.AppConsts.
Theorem C11_translated_config_checks_agree :
  (forall c, ensure_valid c =
             gen_ensure_valid (Z.of_nat (List.length (c_keypers c))) (Z.of_N (c_threshold c)) &&
             (Z.of_nat (List.length (c_keypers c)) <? two63)) /\
  (forall s c lc, last_opt (configs s) = Some lc ->
             Z.of_nat (List.length (c_keypers c)) < two63 ->
             check_config s c =
             Some (gen_check_config (Z.of_nat (List.length (c_keypers c))) (Z.of_N (c_threshold c))
                                    (Z.of_N (c_act c)) (Z.of_N (c_index c)) (Z.of_N (c_act lc)) (Z.of_N (c_index lc)))).
Proof. split; [exact ensure_valid_agrees|exact check_config_agrees]. Qed.
Print Assumptions C11_translated_config_checks_agree.

(* The second tie for the vote bookkeeping: Voting.SetVote, AddVote, outcomeIndex and Outcome,
   regenerated from app/voting.go on this run (Generated/VotingFuns.v), are the model's
   functions - one vote per sender, equal candidates share an index, the first candidate index
   with at least the required number of votes wins - so the quorum theorems above
   (config_needs_quorum, one_vote_per_round, restart_only_newest_after_t_failures) speak
   about the code as it is now. *)
From Verif Require Import Generated.VotingFuns Proofs.VotingFuns.
Theorem C11_translated_voting_agrees :
  (forall (T : Type) (teqb : T -> T -> bool) v sender c,
     gen_set_vote teqb v sender c = set_vote teqb v sender c /\
     gen_add_vote teqb v sender c = add_vote teqb v sender c) /\
  (forall (T : Type) (enum : enumerator) (v : voting T) req,
     gen_outcome v (enum _ (v_votes v)) req = outcome enum v req).
Proof.
  split.
  - intros T teqb v sender c. split; [apply gen_set_vote_agrees|apply gen_add_vote_agrees].
  - intros T enum v req. apply gen_outcome_agrees.
Qed.
Print Assumptions C11_translated_voting_agrees.
