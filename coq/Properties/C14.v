(* C14 - keypers read chain events exactly as shuttermint wrote them.
   This file only states the theorems; the model is Model/Events.v (over the attribute tables
   regenerated from events.go in Generated/EventSchema.v), proofs are in Proofs/Events*.v.

   Everywhere below, [point]/[key] with [enc_pt]/[dec_pt]/[enc_key]/[dec_key] stand for blst's
   compressed G2 points, go-ethereum's secp256k1 keys and their codecs, and [cs] for the EIP-55
   casing (Keccak) of an address.  They are arbitrary; the only facts assumed about them are
   the premises written in each theorem (decoding undoes encoding; a point is 96 bytes; encodings
   are bytes). Nothing is assumed about [cs]. *)
From Coq Require Import String Ascii List NArith ZArith Bool Lia.
From Verif Require Import Lib.Bytes Generated.EventSchema Model.Events Model.AppEvents
  Proofs.EventsCodec Proofs.Events Proofs.EventsGrammar Proofs.EventsExamples Proofs.AppEvents.
From Verif Require Model.App.
Import ListNotations.
Open Scope N_scope.

(* Each attribute kind of marshal.go decodes what it encoded, for every value of its domain:
   every uint64 (also through fmt.Sprintf("%d")), every 20-byte address, every list of
   addresses and every list of byte strings (empty list, empty elements included), every list
   of non-negative big integers (zero included), every list of points, every key. *)
Theorem C14_kind_roundtrip :
  forall (point key : Type) (cs : bytes -> list bool)
         (enc_pt : point -> bytes) (dec_pt : bytes -> option point)
         (enc_key : key -> bytes) (dec_key : bytes -> option key),
  (forall p, dec_pt (enc_pt p) = Some p) ->
  (forall p, length (enc_pt p) = pt_len) ->
  (forall p, bytes_ok (enc_pt p)) ->
  (forall k, dec_key (enc_key k) = Some k) ->
  (forall k, bytes_ok (enc_key k)) ->
  (forall n, n <= u64_max -> parse_uint (format_uint n) = Some n) /\
  (forall a, addr_ok a -> decode_address cs (address_hex cs a) = Some a) /\
  (forall l, Forall addr_ok l -> decode_addresses (encode_addresses cs l) = Some l) /\
  (forall l, Forall bytes_ok l -> decode_byteseq (encode_byteseq l) = Some l) /\
  (forall l : list N,
     option_map (map of_be_bytes) (decode_byteseq (encode_byteseq (map be_bytes l))) = Some l) /\
  (forall g, decode_gammas point dec_pt (encode_gammas point enc_pt g) = Some g) /\
  (forall k, decode_key key dec_key (encode_key key enc_key k) = Some k) /\
  (forall c v x s,
     encode_value point key cs enc_pt enc_key c v x = Some s -> wf_value point key x ->
     decode_value point key cs dec_pt dec_key (dec_codec_of c) v s = Ok x).
Proof. exact kind_roundtrip. Qed.
Print Assumptions C14_kind_roundtrip.

Example C14_kind_roundtrip_nonvacuous :
  format_uint 18446744073709551615 = bs "18446744073709551615" /\
  format_uint 0 = bs "0" /\ parse_uint (bs "0") = Some 0 /\
  encode_byteseq [] = [] /\ decode_byteseq [] = Some [] /\
  encode_byteseq [[]] = bs "0x" /\ decode_byteseq (bs "0x") = Some [[]] /\
  encode_byteseq [[]; [0; 171]] = bs "0x,0x00ab" /\
  encode_addresses ex_cs [] = [] /\ decode_addresses [] = Some [] /\
  address_hex ex_cs ex_addr1 = bs "0x5AAEb6053f3E94C9b9A09f33669435E7Ef1bEAEd" /\
  addr_ok ex_addr1 /\
  map be_bytes [0; 5; 256] = [[]; [5]; [1; 0]] /\
  decode_gammas bool ex_dec_pt (encode_gammas bool ex_enc_pt [true; false]) = Some [true; false] /\
  encode_key unit ex_enc_key tt
  = bs "BAcHBwcHBwcHBwcHBwcHBwcHBwcHBwcHBwcHBwcHBwcHBwcHBwcHBwcHBwcHBwcHBwcHBwcHBwcHBwcHBwcHBwc".
Proof. repeat split; try (vm_compute; reflexivity). apply ex_addr1_ok. Qed.

(* The leniencies of ParseUint and the exactness of decodeAddress, as equivalences. *)
Theorem C14_uint_text :
  forall s n, parse_uint s = Some n <->
              s <> [] /\ forallb is_digit s = true /\ dec_value s 0 = n /\ n <= u64_max.
Proof. exact parse_uint_spec. Qed.
Print Assumptions C14_uint_text.

Example C14_uint_text_nonvacuous :
  parse_uint (bs "007") = Some 7 /\ parse_uint (bs "18446744073709551615") = Some u64_max /\
  parse_uint (bs "18446744073709551616") = None /\ parse_uint (bs "+5") = None /\
  parse_uint (bs "1_0") = None /\ parse_uint (bs "0x10") = None /\ parse_uint [] = None /\
  parse_uint (bs " 5") = None.
Proof. repeat split; vm_compute; reflexivity. Qed.

Theorem C14_address_text :
  forall (cs : bytes -> list bool) s a,
  decode_address cs s = Some a <-> s = address_hex cs a /\ addr_ok a.
Proof. exact decode_address_spec. Qed.
Print Assumptions C14_address_text.

Example C14_address_text_nonvacuous :
  decode_address ex_cs (bs "0x5AAEb6053f3E94C9b9A09f33669435E7Ef1bEAEd") = Some ex_addr1 /\
  decode_address ex_cs (bs "0x5aaeb6053f3e94c9b9a09f33669435e7ef1beaed") = None /\
  decode_address ex_cs (bs "5AAEb6053f3E94C9b9A09f33669435E7Ef1bEAEd") = None /\
  decode_address ex_cs (bs "0X5AAEb6053f3E94C9b9A09f33669435E7Ef1bEAEd") = None /\
  decode_address ex_cs (bs "0x5AAEb6053f3E94C9b9A09f33669435E7Ef1bEAEd0") = None.
Proof. repeat split; vm_compute; reflexivity. Qed.

(* On the tables regenerated from events.go: each of the eight event types is read by the
   function MakeEvent dispatches its type string to, under the same attribute names, in the
   same order, attribute i at position i with the decoder matching its encoder, into the
   field it was taken from, and the height is set; expectAttributes has its length guard. *)
Theorem C14_schema_agreement :
  Forall (fun e => exists d, find_decoder (bs (en_type e)) = Some d /\ mirrors e d) encoders /\
  length encoders = 8%nat /\ length decoders = 8%nat /\
  expect_attributes_length_guard = true.
Proof. exact schema_agreement. Qed.
Print Assumptions C14_schema_agreement.

Example C14_schema_agreement_nonvacuous :
  option_map (fun d => (de_func d, de_names d)) (find_decoder (bs "shutter.apology-registered"))
  = Some ("makeApology", ["Sender"; "Eon"; "Accusers"; "PolyEvals"])%string /\
  option_map (fun e => map ea_key (en_attrs e)) (find_encoder "Apology")
  = Some ["Sender"; "Eon"; "Accusers"; "PolyEvals"]%string /\
  map en_struct encoders
  = ["Accusation"; "Apology"; "BatchConfig"; "BatchConfigStarted"; "CheckIn"; "EonStarted";
     "PolyCommitment"; "PolyEval"]%string.
Proof. repeat split; vm_compute; reflexivity. Qed.

(* Every event value the application can emit (integers are uint64, addresses 20 bytes, the
   two unserialised BatchConfig flags false as the application leaves them) is encoded, and
   the keyper decodes exactly that value, with the height it was given. *)
Theorem C14_event_roundtrip :
  forall (point key : Type) (cs : bytes -> list bool)
         (enc_pt : point -> bytes) (dec_pt : bytes -> option point)
         (enc_key : key -> bytes) (dec_key : bytes -> option key),
  (forall p, dec_pt (enc_pt p) = Some p) ->
  (forall p, length (enc_pt p) = pt_len) ->
  (forall p, bytes_ok (enc_pt p)) ->
  (forall k, dec_key (enc_key k) = Some k) ->
  (forall k, bytes_ok (enc_key k)) ->
  forall (e : event point key) (h : Z),
  wf_event point key e ->
  exists a, make_abci_event point key cs enc_pt enc_key e = Ok a /\
            make_event point key cs dec_pt dec_key a h = Ok (set_height point key e h).
Proof. exact event_roundtrip. Qed.
Print Assumptions C14_event_roundtrip.

Example C14_event_roundtrip_nonvacuous :
  let e := EvApology bool unit 0 7 ex_addr1 [ex_addr2; ex_addr1] [0; 256; 5] in
  let a := (bs "shutter.apology-registered",
            [ati "Sender" "0x5AAEb6053f3E94C9b9A09f33669435E7Ef1bEAEd"; ati "Eon" "7";
             at_ "Accusers" "0x0000000000000000000000000000000000000000,0x5AAEb6053f3E94C9b9A09f33669435E7Ef1bEAEd";
             at_ "PolyEvals" "0x,0x0100,0x05"]) in
  wf_event bool unit e /\ ex_make_abci e = Ok a /\
  ex_make_event a 42 = Ok (EvApology bool unit 42 7 ex_addr1 [ex_addr2; ex_addr1] [0; 256; 5]) /\
  (* empty lists and zero values *)
  wf_event bool unit (EvPolyEval bool unit 0 ex_addr2 0 [] []) /\
  ex_make_abci (EvPolyEval bool unit 0 ex_addr2 0 [] [])
  = Ok (bs "shutter.poly-eval-registered",
        [ati "Sender" "0x0000000000000000000000000000000000000000"; ati "Eon" "0";
         at_ "Receivers" ""; at_ "EncryptedEvals" ""]).
Proof.
  cbv zeta. split; [exact ex_apology_wf|]. split; [vm_compute; reflexivity|].
  split; [vm_compute; reflexivity|]. split; [exact ex_polyeval_wf|]. vm_compute; reflexivity.
Qed.

(* MakeEvent returns a value or an error on every event whatsoever: any type string, any
   number of attributes, any byte strings as keys and values.  It never indexes out of range
   (Panic is excluded), and what it returns on success is a well-formed event of the given
   height. *)
Theorem C14_decode_total :
  forall (point key : Type) (cs : bytes -> list bool)
         (dec_pt : bytes -> option point) (dec_key : bytes -> option key)
         (ev : abci_event) (h : Z),
  (exists x, make_event point key cs dec_pt dec_key ev h = Ok x /\
             wf_event point key x /\ set_height point key x h = x) \/
  (exists e, make_event point key cs dec_pt dec_key ev h = Error e).
Proof. exact make_event_total. Qed.
Print Assumptions C14_decode_total.

Example C14_decode_total_nonvacuous :
  ex_make_event (bs "shutter.eon-started", [at_ "Eon" "1"]) 3 = Error ETooFew /\
  ex_make_event (bs "shutter.eon-started", []) 3 = Error ETooFew /\
  ex_make_event (bs "shutter.eon-started",
                 [at_ "Eon" "1"; at_ "KeyperConfigIndex" "3"; at_ "ActivationBlockNumber" "2"]) 3
  = Error (EBadKey 1) /\
  ex_make_event (bs "shutter.eon-started",
                 [at_ "Eon" "1"; at_ "ActivationBlockNumber" "+2"; at_ "KeyperConfigIndex" "3"]) 3
  = Error (EDecode CUint64) /\
  ex_make_event (bs "shutter.nonsense", []) 3 = Error EUnknownType /\
  ex_make_event (bs "shutter.eon-started",
                 [at_ "Eon" "1"; at_ "ActivationBlockNumber" "2"; at_ "KeyperConfigIndex" "3"]) 3
  = Ok (EvEonStarted bool unit 3 1 2 3).
Proof. repeat split; vm_compute; reflexivity. Qed.

(* Never mis-decoded: whenever MakeEvent succeeds,
   (1) the value is well formed, has the given height, and writing it with MakeABCIEvent and
       reading it again gives the same value; and
   (2) the event has a known type, at least as many attributes as the schema names, the names
       at their positions, and every field was built from a value the text at its position
       denotes under the grammar [denotes] of Proofs/EventsGrammar.v, where each leniency is
       spelled out: decimal numbers may carry leading zeros; a single address must be the exact
       EIP-55 text; list elements are hex of either case, addresses with optional 0x/0X and
       byte strings with mandatory 0x/0X; big integers may carry leading zero bytes; gammas are
       hex of either case without prefix; keys are unpadded base64url in which CR/LF and unused
       trailing bits are ignored; attributes beyond the named ones are ignored. *)
Theorem C14_no_misdecode :
  forall (point key : Type) (cs : bytes -> list bool)
         (enc_pt : point -> bytes) (dec_pt : bytes -> option point)
         (enc_key : key -> bytes) (dec_key : bytes -> option key),
  (forall p, dec_pt (enc_pt p) = Some p) ->
  (forall p, length (enc_pt p) = pt_len) ->
  (forall p, bytes_ok (enc_pt p)) ->
  (forall k, dec_key (enc_key k) = Some k) ->
  (forall k, bytes_ok (enc_key k)) ->
  forall (ev : abci_event) (h : Z) (x : event point key),
  make_event point key cs dec_pt dec_key ev h = Ok x ->
  (wf_event point key x /\ set_height point key x h = x /\
   exists a, make_abci_event point key cs enc_pt enc_key x = Ok a /\
             make_event point key cs dec_pt dec_key a h = Ok x) /\
  (exists d fs,
     find_decoder (fst ev) = Some d /\
     (length (de_names d) <= length (snd ev))%nat /\
     (forall i n, nth_error (de_names d) i = Some n ->
                  exists a, nth_error (snd ev) i = Some a /\ a_key a = bs n) /\
     event_denotes point key cs dec_pt dec_key d (snd ev) fs /\
     of_fields point key (de_struct d) h fs = Some x).
Proof. exact no_misdecode. Qed.
Print Assumptions C14_no_misdecode.

Example C14_no_misdecode_nonvacuous :
  (* leading zeros and an extra attribute are accepted; the value is the denoted one *)
  ex_make_event (bs "shutter.batch-config-started", [at_ "ConfigIndex" "007"; at_ "Extra" "zz"]) 3
  = Ok (EvBatchConfigStarted bool unit 3 7) /\
  ex_make_abci (EvBatchConfigStarted bool unit 3 7)
  = Ok (bs "shutter.batch-config-started", [at_ "ConfigIndex" "7"]) /\
  (* list elements: either case, optional prefix for addresses, 0X for byte strings *)
  ex_make_event (bs "shutter.poly-eval-registered",
    [at_ "Sender" "0x5AAEb6053f3E94C9b9A09f33669435E7Ef1bEAEd"; at_ "Eon" "18446744073709551615";
     at_ "Receivers" "0X5AAEB6053F3E94C9B9A09F33669435E7EF1BEAED,0000000000000000000000000000000000000000";
     at_ "EncryptedEvals" "0x,0XaB"]) 9
  = Ok (EvPolyEval bool unit 9 ex_addr1 18446744073709551615 [ex_addr1; ex_addr2] [[]; [171]]) /\
  (* a wrong checksum in the single address is an error *)
  ex_make_event (bs "shutter.poly-eval-registered",
    [at_ "Sender" "0x5aaeb6053f3e94c9b9a09f33669435e7ef1beaed"; at_ "Eon" "1"; at_ "Receivers" "";
     at_ "EncryptedEvals" ""]) 9
  = Error (EDecode CAddress).
Proof. repeat split; vm_compute; reflexivity. Qed.

(* smobserver.makeEvents never fails and returns exactly the events that decode, in order:
   the malformed ones are dropped, nothing else is. *)
Theorem C14_smdriver_skips_malformed :
  forall (point key : Type) (cs : bytes -> list bool)
         (dec_pt : bytes -> option point) (dec_key : bytes -> option key)
         (h : Z) (evs : list abci_event),
  make_events point key cs dec_pt dec_key h evs
  = Ok (flat_map (decoded point key cs dec_pt dec_key h) evs).
Proof. exact make_events_spec. Qed.
Print Assumptions C14_smdriver_skips_malformed.

Example C14_smdriver_skips_malformed_nonvacuous :
  ex_make_events 5
    [(bs "shutter.batch-config-started", [at_ "ConfigIndex" "1"]);
     (bs "shutter.batch-config-started", [at_ "ConfigIndex" "-1"]);
     (bs "shutter.unknown", []);
     (bs "shutter.eon-started", [at_ "Eon" "1"]);
     (bs "shutter.batch-config-started", [at_ "ConfigIndex" "2"])]
  = Ok [EvBatchConfigStarted bool unit 5 1; EvBatchConfigStarted bool unit 5 2].
Proof. vm_compute. reflexivity. Qed.

(* ------------------------------------------------------------------------------------ *)
(* End to end with the application model (Model/App.v).  [to_wire] builds the event struct
   from the application model's event the way app.go does ([key_of] = crypto.DecompressPubkey,
   [pt_of] = blst Uncompress, big.Int.SetBytes for apology evaluations), [app_abci_event]
   writes it with MakeABCIEvent. *)

(* Every well-formed event of the application model (integers uint64, addresses 20 bytes,
   byte strings bytes, points and key accepted by the dependencies), written by the
   application, is read by the keyper as exactly that event, with the block height. *)
Theorem C14_app_events_roundtrip :
  forall (point key : Type) (cs : bytes -> list bool)
         (enc_pt : point -> bytes) (dec_pt : bytes -> option point)
         (enc_key : key -> bytes) (dec_key : bytes -> option key)
         (pt_of : bytes -> point) (key_of : bytes -> key)
         (valid_pt valid_key : bytes -> Prop),
  (forall p, dec_pt (enc_pt p) = Some p) ->
  (forall p, length (enc_pt p) = pt_len) ->
  (forall p, bytes_ok (enc_pt p)) ->
  (forall k, dec_key (enc_key k) = Some k) ->
  (forall k, bytes_ok (enc_key k)) ->
  forall (e : App.event) (h : Z),
  wf_app_event valid_pt valid_key e ->
  exists a, app_abci_event point key cs enc_pt enc_key pt_of key_of e = Ok a /\
            make_event point key cs dec_pt dec_key a h
            = Ok (set_height point key (to_wire point key pt_of key_of e) h).
Proof. exact app_events_roundtrip. Qed.
Print Assumptions C14_app_events_roundtrip.

Example C14_app_events_roundtrip_nonvacuous :
  let e := App.EvPolyCommitment ex_addr1 3 [ex_enc_pt true; ex_enc_pt false] in
  wf_app_event ex_valid_pt ex_valid_key e /\
  option_map (fun a => map a_key (snd a))
             (match ex_app_abci e with Ok a => Some a | _ => None end)
  = Some [bs "Sender"; bs "Eon"; bs "Gammas"] /\
  match ex_app_abci e with
  | Ok a => ex_make_event a 9 = Ok (EvPolyCommitment bool unit 9 3 ex_addr1 [true; false])
  | _ => False
  end /\
  ex_app_abci (App.EvApology ex_addr1 1 [ex_addr2] [[]])
  = Ok (bs "shutter.apology-registered",
        [ati "Sender" "0x5AAEb6053f3E94C9b9A09f33669435E7Ef1bEAEd"; ati "Eon" "1";
         at_ "Accusers" "0x0000000000000000000000000000000000000000"; at_ "PolyEvals" "0x"]).
Proof.
  cbv zeta. split.
  - split; [exact ex_addr1_ok|]. split; [unfold num_ok, u64_max; lia|].
    constructor; [left; reflexivity|]. constructor; [right; reflexivity|constructor].
  - repeat split; vm_compute; reflexivity.
Qed.

(* Every event in every response of the application model, on any run from a valid genesis
   (keypers are 20-byte addresses) over decoded transactions (signers are 20-byte addresses,
   message fields are byte strings and uint64, the validity flags of the check-in key and of
   the gammas are the dependencies' verdicts), for every order in which Go may enumerate its
   maps, is well formed in the sense of C14_app_events_roundtrip: the application only emits
   addresses that passed its length checks or are signers / config keypers, gammas that passed
   the validity check, and the check-in key that passed DecompressPubkey. *)
Theorem C14_app_emits_wellformed :
  forall (valid_pt valid_key : bytes -> Prop) (g : App.genesis) (s0 : App.state),
  genesis_ok g ->
  App.init_chain g = Some s0 ->
  forall (cs : list App.call) (es : nat -> App.enumerator) (k : nat),
  Forall (call_ok valid_pt valid_key) cs ->
  Forall (response_wf valid_pt valid_key) (snd (App.run_enums es k s0 cs)).
Proof. exact app_emits_wellformed. Qed.
Print Assumptions C14_app_emits_wellformed.

Example C14_app_emits_wellformed_nonvacuous :
  genesis_ok ex_genesis /\ Forall (call_ok ex_valid_pt ex_valid_key) ex_calls /\
  option_map (fun s => map response_events (snd (App.run App.enum_id s ex_calls)))
             (App.init_chain ex_genesis)
  = Some [Some [App.EvBatchConfig 0 1 [ex_addr1; ex_addr2] 0];
          Some [App.EvCheckIn ex_addr1 ex_enckey];
          Some [App.EvBatchConfig 5 1 [ex_addr2] 1; App.EvEonStarted 1 5 1];
          Some []; Some []].
Proof. split; [exact ex_genesis_ok|]. split; [exact ex_calls_ok|]. vm_compute. reflexivity. Qed.

(* A point the dependency accepted is written back as the very 96 bytes the application
   received: the Gammas attribute is the hex text of the concatenated message fields. *)
Theorem C14_app_gammas_text :
  forall (point : Type) (enc_pt : point -> bytes) (pt_of : bytes -> point)
         (valid_pt : bytes -> Prop),
  (forall g, valid_pt g -> enc_pt (pt_of g) = g) ->
  forall gs, Forall valid_pt gs ->
  encode_gammas point enc_pt (map pt_of gs) = hex_encode (concat gs).
Proof. exact app_gammas_text. Qed.
Print Assumptions C14_app_gammas_text.

Example C14_app_gammas_text_nonvacuous :
  (forall g, ex_valid_pt g -> ex_enc_pt (ex_pt_of g) = g) /\
  Forall ex_valid_pt [ex_enc_pt false; ex_enc_pt true] /\
  length (encode_gammas bool ex_enc_pt (map ex_pt_of [ex_enc_pt false; ex_enc_pt true])) = 384%nat.
Proof.
  split; [exact ex_pt_of_canonical|]. split; [|vm_compute; reflexivity].
  constructor; [right; reflexivity|]. constructor; [left; reflexivity|constructor].
Qed.

(* The check-in key on the wire has a fixed width.  crypto.FromECDSAPub writes 0x04 and then
   each coordinate into exactly 32 bytes, so the encoding has 65 bytes (and its base64url text
   87 characters) whatever the coordinates are - also when X or Y has leading zero bytes - and
   both coordinates are recovered from their fixed positions.  (crypto.UnmarshalPubkey accepts
   only 65-byte strings: an encoder that drops leading zero bytes of a coordinate produces
   events the keyper rejects.) *)
Theorem C14_checkin_key_fixed_width :
  forall x y : N,
  length (marshal_pubkey x y) = 65%nat /\
  bytes_ok (marshal_pubkey x y) /\
  length (b64_encode (marshal_pubkey x y)) = 87%nat /\
  (x < 256 ^ 32 -> y < 256 ^ 32 ->
   of_be_bytes (firstn 32 (skipn 1 (marshal_pubkey x y))) = x /\
   of_be_bytes (skipn 33 (marshal_pubkey x y)) = y).
Proof.
  intros x y. split; [apply marshal_pubkey_length|]. split; [apply marshal_pubkey_ok|].
  split; [apply marshal_pubkey_text_length|]. apply marshal_pubkey_coords.
Qed.
Print Assumptions C14_checkin_key_fixed_width.

Example C14_checkin_key_fixed_width_nonvacuous :
  (* a coordinate with two leading zero bytes and one with none *)
  let x := 256 ^ 30 - 1 in let y := 256 ^ 32 - 1 in
  x < 256 ^ 32 /\ y < 256 ^ 32 /\
  firstn 4 (marshal_pubkey x y) = [4; 0; 0; 255] /\
  length (be_bytes x) = 30%nat /\ length (marshal_pubkey x y) = 65%nat /\
  marshal_pubkey 0 0 = 4 :: repeat 0 64.
Proof. cbv zeta. repeat split; vm_compute; reflexivity. Qed.

(* The shutter.check-in event the application writes, when the key encoder is FromECDSAPub of
   the key's coordinates: the two attributes, and the key attribute is the unpadded base64url
   text (87 characters) of exactly 65 bytes. *)
Theorem C14_app_checkin_wire :
  forall (point key : Type) (cs : bytes -> list bool) (enc_pt : point -> bytes)
         (pt_of : bytes -> point) (key_of : bytes -> key) (key_x key_y : key -> N)
         (s k : bytes),
  app_abci_event point key cs enc_pt (marshal_key key key_x key_y) pt_of key_of (App.EvCheckIn s k)
  = Ok (bs "shutter.check-in",
        [mk_attr (bs "Sender") (address_hex cs s) true;
         mk_attr (bs "EncryptionPublicKey")
                 (b64_encode (marshal_key key key_x key_y (key_of k))) false]) /\
  length (marshal_key key key_x key_y (key_of k)) = 65%nat /\
  length (b64_encode (marshal_key key key_x key_y (key_of k))) = 87%nat /\
  b64_decode (b64_encode (marshal_key key key_x key_y (key_of k)))
  = Some (marshal_key key key_x key_y (key_of k)).
Proof. exact app_checkin_wire. Qed.
Print Assumptions C14_app_checkin_wire.

Example C14_app_checkin_wire_nonvacuous :
  match app_abci_event bool (N * N) ex_cs ex_enc_pt (marshal_key (N * N) fst snd) ex_pt_of
                       (fun _ => (5, 256 ^ 31)) (App.EvCheckIn ex_addr2 ex_enckey) with
  | Ok (t, [a1; a2]) =>
      t = bs "shutter.check-in" /\ a_key a2 = bs "EncryptionPublicKey" /\
      length (a_value a2) = 87%nat /\
      option_map (firstn 34) (b64_decode (a_value a2)) = Some (4 :: repeat 0 31 ++ [5; 1])
  | _ => False
  end.
Proof. vm_compute. repeat split; reflexivity. Qed.
