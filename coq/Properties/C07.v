(* C07 - honest keypers agree on the eon key despite Byzantine participants.
   This file only states the theorems; proofs are in Proofs/DKGPure.v, Proofs/DKGChain.v,
   Proofs/DKGAlgebra.v; the concrete instance of the examples is Proofs/DKGExamples.v.

   Models: Model/DKGPure.v (shlib/puredkg, a dependency, modelled), Model/DKGDriver.v
   (keyper/smobserver: smstate.go and the block transaction of smdriver.go).  All definitions are
   generic in the value types C (commitment), E (evaluation), P (own polynomial) and in
   commit_of, eval_of, verify, deg_ok, valid_eval (see Model/DKGPure.v); the theorems quantify
   over them.  The algebra (C07_share_matches, C07_threshold_reconstructs) is stated in the
   exponent model over an arbitrary field (Proofs/DKGAlgebra.v).

   Vocabulary:
     run_blocks ... me L enum poly lch x0 blocks = Some x
                               the keyper with address me processed the blocks, one committed
                               transaction (handle_block) per block, none failed
     enum_keys_ok enum         Go's map enumeration visits every key of the map
     pub d                     (phase, commitments, accusations, apologies) of a PureDKG
     qualified d               per dealer: its commitment if isCorrupt is false, else None (zero)
     share_rel verify me cs vs cs, vs are per-dealer vectors: None/None for a disqualified dealer,
                               else Some c / Some v with verify me v c = true
     dealt_ok d                for every dealer the instance holds a commitment and an evaluation
                               that verifies against it *)
From Coq Require Import NArith ZArith List Bool.
From mathcomp Require Import all_ssreflect all_algebra.
From Verif Require Import Lib.Bytes Lib.Lagrange.
From Verif Require Import Model.DKGPure Model.DKGDriver.
From Verif Require Import Proofs.DKGPure Proofs.DKGChain Proofs.DKGAlgebra Proofs.DKGExamples Proofs.EpochKGAlgebra.
From Verif Require Import Generated.DkgPhase Proofs.DkgPhase.
Import GRing.Theory.
Local Open Scope ring_scope.

(* ------------------------------------------------------------------------------------------ *)
(* For every keyper address, positive phase length and map enumeration, every sequence of blocks
   (arbitrary events: whatever Byzantine keypers got admitted by shuttermint, honest messages
   anywhere, late, twice) that two keypers process without a failing transaction, starting from
   an empty database: for every eon both take part in they hold the same (phase, commitments,
   accusations, apologies), the same start height and keyper list - each equals what an observer
   without keys computes from the blocks - and therefore consider the same dealers corrupt. *)
Theorem C07_public_state_is_function_of_chain :
  forall (C E P : Type) (commit_of : P -> C) (eval_of : P -> nat -> E) (verify : nat -> E -> C -> bool)
         (deg_ok : N -> C -> bool) (valid_eval : E -> bool) (L : Z), Z.lt 0 L ->
  forall (blocks : list (Z * list (dev C E))) (me1 me2 : addr)
         (enum1 enum2 : list (N * active C E P) -> list (N * active C E P))
         (poly1 poly2 : N -> P) (lch1 lch2 : Z -> Z) (x1 x2 : st C E P),
  enum_keys_ok C E P enum1 -> enum_keys_ok C E P enum2 ->
  run_blocks C E P commit_of eval_of verify deg_ok valid_eval me1 L enum1 poly1 lch1 (db_init, sm_fresh) blocks = Some x1 ->
  run_blocks C E P commit_of eval_of verify deg_ok valid_eval me2 L enum2 poly2 lch2 (db_init, sm_fresh) blocks = Some x2 ->
  forall eon a1 a2,
    nget (sm_dkg (snd x1)) eon = Some a1 -> nget (sm_dkg (snd x2)) eon = Some a2 ->
    pub (a_pure a1) = pub (a_pure a2) /\ a_start a1 = a_start a2 /\ a_keypers a1 = a_keypers a2 /\
    (forall j, is_corrupt C E P verify (a_pure a1) j = is_corrupt C E P verify (a_pure a2) j).
Proof. exact public_state_is_function_of_chain. Qed.
Print Assumptions C07_public_state_is_function_of_chain.

Example C07_public_state_is_function_of_chain_nonvacuous :
  Z.lt 0 DkgEx.L /\ enum_keys_ok DkgEx.C DkgEx.E DkgEx.P (fun m => m) /\
  exists x1 x2 a1 a2, DkgEx.xA3 = Some x1 /\ DkgEx.xB3 = Some x2 /\
    nget (sm_dkg (snd x1)) DkgEx.n1 = Some a1 /\ nget (sm_dkg (snd x2)) DkgEx.n1 = Some a2 /\
    p_phase (a_pure a1) = Dealing /\ p_commits (a_pure a1) = (Some DkgEx.c10 :: Some DkgEx.c20 :: nil) /\
    p_me (a_pure a1) = 0%nat /\ p_me (a_pure a2) = 1%nat.
Proof. split; first by []. split; [exact DkgEx.enum_id_ok|exact DkgEx.both_hold_eon1]. Qed.

(* Under the same hypotheses: two keypers whose ComputeResult succeeds for an eon stored results
   built from the same vector of qualified commitments.  The eon public key and every public key
   share are functions of that vector (shcrypto.ComputeEonPublicKey / ComputeEonPublicKeyShare;
   [eon_pk], [pub_share] in the exponent model), hence equal. *)
Theorem C07_agreement :
  forall (C E P : Type) (commit_of : P -> C) (eval_of : P -> nat -> E) (verify : nat -> E -> C -> bool)
         (deg_ok : N -> C -> bool) (valid_eval : E -> bool) (L : Z), Z.lt 0 L ->
  forall (blocks : list (Z * list (dev C E))) (me1 me2 : addr)
         (enum1 enum2 : list (N * active C E P) -> list (N * active C E P))
         (poly1 poly2 : N -> P) (lch1 lch2 : Z -> Z) (x1 x2 : st C E P),
  enum_keys_ok C E P enum1 -> enum_keys_ok C E P enum2 ->
  run_blocks C E P commit_of eval_of verify deg_ok valid_eval me1 L enum1 poly1 lch1 (db_init, sm_fresh) blocks = Some x1 ->
  run_blocks C E P commit_of eval_of verify deg_ok valid_eval me2 L enum2 poly2 lch2 (db_init, sm_fresh) blocks = Some x2 ->
  forall eon r1 r2 cs1 vs1 cs2 vs2,
    nget (db_results C E P (fst x1)) eon = Some r1 -> nget (db_results C E P (fst x2)) eon = Some r2 ->
    rs_result C E r1 = CResult cs1 vs1 -> rs_result C E r2 = CResult cs2 vs2 -> cs1 = cs2.
Proof. exact agreement_on_results. Qed.
Print Assumptions C07_agreement.

Example C07_agreement_nonvacuous :
  exists x1 x2 r1 r2 vs1 vs2, DkgEx.xA8 = Some x1 /\ DkgEx.xB8 = Some x2 /\
    nget (db_results _ _ _ (fst x1)) DkgEx.n1 = Some r1 /\ nget (db_results _ _ _ (fst x2)) DkgEx.n1 = Some r2 /\
    rs_result _ _ r1 = CResult (Some DkgEx.c10 :: Some DkgEx.c20 :: nil) vs1 /\
    rs_result _ _ r2 = CResult (Some DkgEx.c10 :: Some DkgEx.c20 :: nil) vs2.
Proof. exact DkgEx.both_succeed. Qed.

(* What a successful ComputeResult guarantees, for every instance of the values and every state:
   the commitments are the qualified ones (a function of the public part), every evaluation
   summed into the secret share passed VerifyPolyEval under the keyper's own index against the
   very commitment that enters the public shares, and at least threshold dealers are qualified. *)
Theorem C07_result_checked :
  forall (C E P : Type) (verify : nat -> E -> C -> bool) (d : pure C E P) cs vs,
  compute_result C E P verify d = CResult cs vs ->
  cs = qualified C E P verify d /\ share_rel C E verify (p_me d) cs vs /\
  N.le (p_t d) (N.of_nat (count_some cs)).
Proof.
  move=> C E P verify d cs vs H; split; first exact: (result_commits _ _ _ _ _ _ _ H).
  split; [exact: (result_share_rel _ _ _ _ _ _ _ H)|exact: (result_threshold _ _ _ _ _ _ _ H)].
Qed.
Print Assumptions C07_result_checked.

Example C07_result_checked_nonvacuous :
  compute_result DkgEx.C DkgEx.E DkgEx.P DkgEx.verify DkgEx.d_fin =
  CResult (Some DkgEx.c10 :: Some DkgEx.c20 :: None :: nil) (Some DkgEx.c10 :: Some DkgEx.c20 :: None :: nil).
Proof. exact DkgEx.d_fin_result. Qed.

(* Exponent model over any field F, threshold t: a commitment is its coefficient vector,
   verify i v c = (size c == t) && (v == c(i+1)).  For vectors related as in C07_result_checked
   the keyper's secret share times the generator is its entry of the public key share vector. *)
Theorem C07_share_matches :
  forall (F : fieldType) (t : nat) (g : F) (i : nat) (cs : seq (option (seq F))) (vs : seq (option F)),
  share_rel (seq F) F (f_verify t) i cs vs -> sk_of vs * g = pub_share g cs i.
Proof. move=> F t g i cs vs; exact: share_matches. Qed.
Print Assumptions C07_share_matches.

(* Any t keypers whose results carry the same qualified vector cs (C07_agreement) and have
   pairwise distinct x-coordinates (keyper indices below the field characteristic): their epoch
   secret key shares sk_i * H1(x) combine, with the Lagrange coefficients of
   shcrypto.ComputeEpochSecretKey, to the key joint(0) * H1(x), which is the unique solution of
   the verification equation against the eon public key eon_pk = joint(0) * g and decrypts a
   ciphertext made with any randomness r. *)
Theorem C07_threshold_reconstructs :
  forall (F : fieldType) (t : nat) (g hx : F) (cs : seq (option (seq F))) (parts : seq (nat * seq (option F))),
  (0 < t)%N -> size parts = t ->
  {in [seq p.1 | p <- parts] &, injective (xco F)} -> uniq [seq p.1 | p <- parts] ->
  (forall p, p \in parts -> share_rel (seq F) F (f_verify t) p.1 cs p.2) ->
  let key := comb [seq (p.1, sk_of p.2 * hx) | p <- parts] in
  key = (joint cs).[0] * hx /\
  (g != 0 -> forall k', (k' * g == hx * eon_pk g cs) = (k' == key)) /\
  (forall r, key * (r * g) = (hx * eon_pk g cs) * r).
Proof. move=> F t g hx cs parts; exact: threshold_reconstructs. Qed.
Print Assumptions C07_threshold_reconstructs.

Example C07_threshold_reconstructs_nonvacuous :
  let parts := [:: (0%N, ex_vs 0); (2%N, ex_vs 2)] in
  (0 < 2)%N /\ size parts = 2%N /\
  {in [seq p.1 | p <- parts] &, injective (xco [fieldType of rat])} /\ uniq [seq p.1 | p <- parts] /\
  (forall p, p \in parts -> share_rel (seq rat) rat (@f_verify [fieldType of rat] 2) p.1 ex_cs p.2).
Proof. exact example_threshold_hyps. Qed.

Example C07_share_matches_nonvacuous i :
  share_rel (seq rat) rat (@f_verify [fieldType of rat] 2) i ex_cs (ex_vs i).
Proof. exact: example_share_rel. Qed.

(* Liveness, partial.  Proved, for every instance of the values: a keyper whose instance holds,
   at the end of the dealing phase, a commitment from every dealer and an evaluation that
   verifies against it (dealt_ok) sends no accusation; if no accusation and no apology is on the
   chain, it reports success.  Missing: the step from "every keyper is honest and its commitment
   and evaluations were included in dealing-phase blocks" to dealt_ok of the stored state and to
   the absence of accusations on the chain is not proved over block sequences here; the
   differential run checks that clause end to end (oracle key C07:honest-run-fails). *)
Theorem C07_honest_run_succeeds_partial :
  forall (C E P : Type) (verify : nat -> E -> C -> bool) (d : pure C E P),
  p_phase d = Dealing -> dealt_ok C E P verify d -> p_accs d = nil -> p_apos d = nil ->
  N.le (p_t d) (N.of_nat (p_n d)) ->
  start_phase2 C E P verify d = Some (set_phase d Accusing, nil) /\
  succeeds C E P verify (set_phase d Finalized) = true.
Proof.
  move=> C E P verify d Hp Hd Ha Hq Ht; split; first exact: start_phase2_no_accusations.
  exact: honest_instance_succeeds.
Qed.
Print Assumptions C07_honest_run_succeeds_partial.

Example C07_honest_run_succeeds_partial_nonvacuous :
  p_phase DkgEx.d_dealt = Dealing /\ dealt_ok DkgEx.C DkgEx.E DkgEx.P DkgEx.verify DkgEx.d_dealt /\
  p_accs DkgEx.d_dealt = nil /\ p_apos DkgEx.d_dealt = nil /\
  N.le (p_t DkgEx.d_dealt) (N.of_nat (p_n DkgEx.d_dealt)).
Proof. split; first by []. split; first exact DkgEx.d_dealt_ok. by []. Qed.

(* No false conviction, partial.  Proved, for every instance and state: a dealer is considered
   corrupt iff it has no accepted commitment, or one of its recorded apologies fails against its
   commitment, or an accepted accusation against it has no apology.  So a dealer whose commitment
   was accepted, who answers every accepted accusation with an apology that is recorded, and
   whose apologies all verify, is in nobody's corrupt set, whatever the others do.  Missing: that
   an honest dealer's single apology message is included in an apologising-phase block (an
   assumption on block inclusion the property does not grant for the Byzantine case). *)
Theorem C07_no_false_conviction_partial :
  forall (C E P : Type) (verify : nat -> E -> C -> bool) (d : pure C E P) (j : nat),
  is_corrupt C E P verify d j = false <->
  exists c, nth_opt (p_commits d) j = Some c /\
    (forall a b v, In ((a, b), v) (p_apos d) -> b = j -> verify a v c = true) /\
    (forall a b, In (a, b) (p_accs d) -> b = j -> apo_mem (a, b) (p_apos d) = true).
Proof. move=> C E P verify d j; exact: is_corrupt_false_iff. Qed.
Print Assumptions C07_no_false_conviction_partial.

Example C07_no_false_conviction_partial_nonvacuous :
  is_corrupt DkgEx.C DkgEx.E DkgEx.P DkgEx.verify DkgEx.d_fin 1 = false /\
  In (0%nat, 1%nat) (p_accs DkgEx.d_fin) /\
  is_corrupt DkgEx.C DkgEx.E DkgEx.P DkgEx.verify DkgEx.d_fin 2 = true.
Proof. split; first by []. split; [by left|by []]. Qed.

(* The phase function of the model is, for all phase lengths, heights and start heights, the
   function the translator produces from keyper/dkgphase/phase.go (NewConstantPhaseLength and
   PhaseLength.GetPhaseAtHeight, statement by statement; Generated/DkgPhase.v is rewritten from
   the repository's source on every check). *)
Theorem C07_phase_function_agrees_with_source :
  forall L height start : Z, phase_at L height start = gen_phase_at L height start.
Proof. exact phase_at_is_generated. Qed.
Print Assumptions C07_phase_function_agrees_with_source.

Example C07_phase_function_agrees_with_source_nonvacuous :
  gen_phase_at 6 9 9 = Dealing /\ gen_phase_at 6 15 9 = Accusing /\ gen_phase_at 6 21 9 = Apologizing /\
  gen_phase_at 6 27 9 = Finalized /\ gen_phase_at 6 8 9 = Off.
Proof. by []. Qed.
