(* C07 - honest keypers agree on the eon key despite Byzantine participants.
   This file only states the theorems; proofs are in Proofs/DKGPure.v, Proofs/DKGChain.v,
   Proofs/DKGLive.v, Proofs/DKGLiveRun.v, Proofs/DKGConvict.v, Proofs/DKGAlgebra.v; the concrete instance of the examples is Proofs/DKGExamples.v.

   Models: Model/DKGPure.v (shlib/puredkg, a dependency, modelled), Model/DKGDriver.v
   (keyper/smobserver: smstate.go and the block transaction of smdriver.go).  All definitions are
   generic in the value types C (commitment), E (evaluation), P (own polynomial) and in
   commit_of, eval_of, verify, deg_ok, valid_eval (see Model/DKGPure.v); the theorems quantify
   over them.  The algebra (C07_share_matches, C07_threshold_reconstructs) is stated in the
   exponent model over an arbitrary field (Proofs/DKGAlgebra.v).

   Vocabulary:
     run_blocks ... me L enum poly lch x0 blocks = Some x
                               the keyper with address me processed the blocks, one committed
                               transaction (handle_block) per block, none failed
     enum_keys_ok enum         Go's map enumeration visits every key of the map
     pub d                     (phase, commitments, accusations, apologies) of a PureDKG
     qualified d               per dealer: its commitment if isCorrupt is false, else None (zero)
     share_rel verify me cs vs cs, vs are per-dealer vectors: None/None for a disqualified dealer,
                               else Some c / Some v with verify me v c = true
     dealt_ok d                for every dealer the instance holds a commitment and an evaluation
                               that verifies against it *)
From Coq Require Import NArith ZArith List Bool.
From mathcomp Require Import all_ssreflect all_algebra.
From Verif Require Import Lib.Bytes Lib.Lagrange.
From Verif Require Import Model.DKGPure Model.DKGDriver.
From Verif Require Import Proofs.DKGPure Proofs.DKGChain Proofs.DKGAlgebra Proofs.DKGExamples Proofs.EpochKGAlgebra.
From Verif Require Import Proofs.DKGLive Proofs.DKGLiveRun Proofs.DKGLiveExamples Proofs.DKGConvict Proofs.DKGConvictExamples.
From Verif Require Import Generated.DkgPhase Proofs.DkgPhase.
Import GRing.Theory.
Local Open Scope ring_scope.

(* ------------------------------------------------------------------------------------------ *)
(* For every keyper address, positive phase length and map enumeration, every sequence of blocks
   (arbitrary events: whatever Byzantine keypers got admitted by shuttermint, honest messages
   anywhere, late, twice) that two keypers process without a failing transaction, starting from
   an empty database: for every eon both take part in they hold the same (phase, commitments,
   accusations, apologies), the same start height and keyper list - each equals what an observer
   without keys computes from the blocks - and therefore consider the same dealers corrupt. *)
Theorem C07_public_state_is_function_of_chain :
  forall (C E P : Type) (commit_of : P -> C) (eval_of : P -> nat -> E) (verify : nat -> E -> C -> bool)
         (deg_ok : N -> C -> bool) (valid_eval : E -> bool) (L : Z), Z.lt 0 L ->
  forall (blocks : list (Z * list (dev C E))) (me1 me2 : addr)
         (enum1 enum2 : list (N * active C E P) -> list (N * active C E P))
         (poly1 poly2 : N -> P) (lch1 lch2 : Z -> Z) (x1 x2 : st C E P),
  enum_keys_ok C E P enum1 -> enum_keys_ok C E P enum2 ->
  run_blocks C E P commit_of eval_of verify deg_ok valid_eval me1 L enum1 poly1 lch1 (db_init, sm_fresh) blocks = Some x1 ->
  run_blocks C E P commit_of eval_of verify deg_ok valid_eval me2 L enum2 poly2 lch2 (db_init, sm_fresh) blocks = Some x2 ->
  forall eon a1 a2,
    nget (sm_dkg (snd x1)) eon = Some a1 -> nget (sm_dkg (snd x2)) eon = Some a2 ->
    pub (a_pure a1) = pub (a_pure a2) /\ a_start a1 = a_start a2 /\ a_keypers a1 = a_keypers a2 /\
    (forall j, is_corrupt C E P verify (a_pure a1) j = is_corrupt C E P verify (a_pure a2) j).
Proof. exact public_state_is_function_of_chain. Qed.
Print Assumptions C07_public_state_is_function_of_chain.

Example C07_public_state_is_function_of_chain_nonvacuous :
  Z.lt 0 DkgEx.L /\ enum_keys_ok DkgEx.C DkgEx.E DkgEx.P (fun m => m) /\
  exists x1 x2 a1 a2, DkgEx.xA3 = Some x1 /\ DkgEx.xB3 = Some x2 /\
    nget (sm_dkg (snd x1)) DkgEx.n1 = Some a1 /\ nget (sm_dkg (snd x2)) DkgEx.n1 = Some a2 /\
    p_phase (a_pure a1) = Dealing /\ p_commits (a_pure a1) = (Some DkgEx.c10 :: Some DkgEx.c20 :: nil) /\
    p_me (a_pure a1) = 0%nat /\ p_me (a_pure a2) = 1%nat.
Proof. split; first by []. split; [exact DkgEx.enum_id_ok|exact DkgEx.both_hold_eon1]. Qed.

(* Under the same hypotheses: two keypers whose ComputeResult succeeds for an eon stored results
   built from the same vector of qualified commitments.  The eon public key and every public key
   share are functions of that vector (shcrypto.ComputeEonPublicKey / ComputeEonPublicKeyShare;
   [eon_pk], [pub_share] in the exponent model), hence equal. *)
Theorem C07_agreement :
  forall (C E P : Type) (commit_of : P -> C) (eval_of : P -> nat -> E) (verify : nat -> E -> C -> bool)
         (deg_ok : N -> C -> bool) (valid_eval : E -> bool) (L : Z), Z.lt 0 L ->
  forall (blocks : list (Z * list (dev C E))) (me1 me2 : addr)
         (enum1 enum2 : list (N * active C E P) -> list (N * active C E P))
         (poly1 poly2 : N -> P) (lch1 lch2 : Z -> Z) (x1 x2 : st C E P),
  enum_keys_ok C E P enum1 -> enum_keys_ok C E P enum2 ->
  run_blocks C E P commit_of eval_of verify deg_ok valid_eval me1 L enum1 poly1 lch1 (db_init, sm_fresh) blocks = Some x1 ->
  run_blocks C E P commit_of eval_of verify deg_ok valid_eval me2 L enum2 poly2 lch2 (db_init, sm_fresh) blocks = Some x2 ->
  forall eon r1 r2 cs1 vs1 cs2 vs2,
    nget (db_results C E P (fst x1)) eon = Some r1 -> nget (db_results C E P (fst x2)) eon = Some r2 ->
    rs_result C E r1 = CResult cs1 vs1 -> rs_result C E r2 = CResult cs2 vs2 -> cs1 = cs2.
Proof. exact agreement_on_results. Qed.
Print Assumptions C07_agreement.

Example C07_agreement_nonvacuous :
  exists x1 x2 r1 r2 vs1 vs2, DkgEx.xA8 = Some x1 /\ DkgEx.xB8 = Some x2 /\
    nget (db_results _ _ _ (fst x1)) DkgEx.n1 = Some r1 /\ nget (db_results _ _ _ (fst x2)) DkgEx.n1 = Some r2 /\
    rs_result _ _ r1 = CResult (Some DkgEx.c10 :: Some DkgEx.c20 :: nil) vs1 /\
    rs_result _ _ r2 = CResult (Some DkgEx.c10 :: Some DkgEx.c20 :: nil) vs2.
Proof. exact DkgEx.both_succeed. Qed.

(* What a successful ComputeResult guarantees, for every instance of the values and every state:
   the commitments are the qualified ones (a function of the public part), every evaluation
   summed into the secret share passed VerifyPolyEval under the keyper's own index against the
   very commitment that enters the public shares, and at least threshold dealers are qualified. *)
Theorem C07_result_checked :
  forall (C E P : Type) (verify : nat -> E -> C -> bool) (d : pure C E P) cs vs,
  compute_result C E P verify d = CResult cs vs ->
  cs = qualified C E P verify d /\ share_rel C E verify (p_me d) cs vs /\
  N.le (p_t d) (N.of_nat (count_some cs)).
Proof.
  move=> C E P verify d cs vs H; split; first exact: (result_commits _ _ _ _ _ _ _ H).
  split; [exact: (result_share_rel _ _ _ _ _ _ _ H)|exact: (result_threshold _ _ _ _ _ _ _ H)].
Qed.
Print Assumptions C07_result_checked.

Example C07_result_checked_nonvacuous :
  compute_result DkgEx.C DkgEx.E DkgEx.P DkgEx.verify DkgEx.d_fin =
  CResult (Some DkgEx.c10 :: Some DkgEx.c20 :: None :: nil) (Some DkgEx.c10 :: Some DkgEx.c20 :: None :: nil).
Proof. exact DkgEx.d_fin_result. Qed.

(* Exponent model over any field F, threshold t: a commitment is its coefficient vector,
   verify i v c = (size c == t) && (v == c(i+1)).  For vectors related as in C07_result_checked
   the keyper's secret share times the generator is its entry of the public key share vector. *)
Theorem C07_share_matches :
  forall (F : fieldType) (t : nat) (g : F) (i : nat) (cs : seq (option (seq F))) (vs : seq (option F)),
  share_rel (seq F) F (f_verify t) i cs vs -> sk_of vs * g = pub_share g cs i.
Proof. move=> F t g i cs vs; exact: share_matches. Qed.
Print Assumptions C07_share_matches.

(* Any t keypers whose results carry the same qualified vector cs (C07_agreement) and have
   pairwise distinct x-coordinates (keyper indices below the field characteristic): their epoch
   secret key shares sk_i * H1(x) combine, with the Lagrange coefficients of
   shcrypto.ComputeEpochSecretKey, to the key joint(0) * H1(x), which is the unique solution of
   the verification equation against the eon public key eon_pk = joint(0) * g and decrypts a
   ciphertext made with any randomness r. *)
Theorem C07_threshold_reconstructs :
  forall (F : fieldType) (t : nat) (g hx : F) (cs : seq (option (seq F))) (parts : seq (nat * seq (option F))),
  (0 < t)%N -> size parts = t ->
  {in [seq p.1 | p <- parts] &, injective (xco F)} -> uniq [seq p.1 | p <- parts] ->
  (forall p, p \in parts -> share_rel (seq F) F (f_verify t) p.1 cs p.2) ->
  let key := comb [seq (p.1, sk_of p.2 * hx) | p <- parts] in
  key = (joint cs).[0] * hx /\
  (g != 0 -> forall k', (k' * g == hx * eon_pk g cs) = (k' == key)) /\
  (forall r, key * (r * g) = (hx * eon_pk g cs) * r).
Proof. move=> F t g hx cs parts; exact: threshold_reconstructs. Qed.
Print Assumptions C07_threshold_reconstructs.

Example C07_threshold_reconstructs_nonvacuous :
  let parts := [:: (0%N, ex_vs 0); (2%N, ex_vs 2)] in
  (0 < 2)%N /\ size parts = 2%N /\
  {in [seq p.1 | p <- parts] &, injective (xco [fieldType of rat])} /\ uniq [seq p.1 | p <- parts] /\
  (forall p, p \in parts -> share_rel (seq rat) rat (@f_verify [fieldType of rat] 2) p.1 ex_cs p.2).
Proof. exact example_threshold_hyps. Qed.

Example C07_share_matches_nonvacuous i :
  share_rel (seq rat) rat (@f_verify [fieldType of rat] 2) i ex_cs (ex_vs i).
Proof. exact: example_share_rel. Qed.

(* Liveness at the level of one instance, for every instance of the values: a keyper whose
   instance holds, at the end of the dealing phase, a commitment from every dealer and an
   evaluation that verifies against it (dealt_ok) sends no accusation; if no accusation and no
   apology is recorded, it reports success.  (C07_honest_run_succeeds below derives dealt_ok and
   the empty accusation / apology lists from the blocks.) *)
Theorem C07_honest_instance_succeeds :
  forall (C E P : Type) (verify : nat -> E -> C -> bool) (d : pure C E P),
  p_phase d = Dealing -> dealt_ok C E P verify d -> p_accs d = nil -> p_apos d = nil ->
  N.le (p_t d) (N.of_nat (p_n d)) ->
  start_phase2 C E P verify d = Some (set_phase d Accusing, nil) /\
  succeeds C E P verify (set_phase d Finalized) = true.
Proof.
  move=> C E P verify d Hp Hd Ha Hq Ht; split; first exact: start_phase2_no_accusations.
  exact: honest_instance_succeeds.
Qed.
Print Assumptions C07_honest_instance_succeeds.

Example C07_honest_instance_succeeds_nonvacuous :
  p_phase DkgEx.d_dealt = Dealing /\ dealt_ok DkgEx.C DkgEx.E DkgEx.P DkgEx.verify DkgEx.d_dealt /\
  p_accs DkgEx.d_dealt = nil /\ p_apos DkgEx.d_dealt = nil /\
  N.le (p_t DkgEx.d_dealt) (N.of_nat (p_n DkgEx.d_dealt)).
Proof. split; first by []. split; first exact DkgEx.d_dealt_ok. by []. Qed.

(* Liveness over block sequences.  Vocabulary (Proofs/DKGLiveRun.v):
     live e a0 ph x a      in state x the keyper holds the instance a of eon e (cache synchronised,
                           eon row stored, no result row yet), a is in phase ph with no accusation
                           and no apology recorded, and a keeps what a0 held
     deal ... e ks start t i allev seen a
                           a started at height start for the keypers ks with threshold t, this
                           keyper has index i; every commitment a holds is that of an event of
                           allev from the dealer of the slot, every evaluation other than the own
                           one likewise; every admissible commitment / evaluation of seen has
                           filled its slot
     quiet e evs           evs contains no accusation and no apology for eon e
     success e x           the result row of eon e in x is (true, CResult _ _)
   The keyper is, at height h0 in the dealing phase of eon e, in a state x0 with an instance a0
   that holds its own evaluation and otherwise only values from the chain - the state the event
   that starts the eon produces (C07_eon_start_creates_dealing_instance) - and then processes
   consecutive blocks up to at least the height at which the eon is finalised, none failing, for
   any phase length, enumeration and event contents.  If every dealer's commitment (of admissible
   degree) and, for every other dealer, a message with a valid evaluation for this keyper are in
   blocks of the dealing phase, commitments / evaluations of one dealer on the chain are unique,
   every evaluation verifies against the dealer's commitment, the chain carries no accusation and
   no apology for the eon and t <= n, then the keyper stores a successful result.
   (Events for other eons, configs, check-ins, duplicates, late messages are arbitrary.) *)
Theorem C07_honest_run_succeeds :
  forall (C E P : Type) (commit_of : P -> C) (eval_of : P -> nat -> E) (verify : nat -> E -> C -> bool)
         (deg_ok : N -> C -> bool) (valid_eval : E -> bool) (me : addr) (L : Z), Z.lt 0 L ->
  forall (enum : list (N * active C E P) -> list (N * active C E P)), enum_keys_ok C E P enum ->
  forall (poly_for : N -> P) (e : N) (ks : list addr) (start : Z) (t : N) (i : nat) (allev : list (dev C E))
         (a0 : active C E P) (x0 : st C E P) (h0 : Z) (lch : Z -> Z) (blocks : list (Z * list (dev C E)))
         (xf : st C E P) (cj : nat -> C) (vj : nat -> E),
  List.incl (List.concat (List.map snd blocks)) allev ->
  live C E P e a0 Dealing x0 a0 ->
  deal C E P deg_ok valid_eval me e ks start t i allev nil a0 ->
  nth_opt (p_evals (a_pure a0)) i = Some (vj i) ->
  p_n (a_pure a0) = List.length ks ->
  N.le t (N.of_nat (List.length ks)) ->
  Z.le start h0 /\ Z.lt h0 (Z.add start L) ->
  (forall k b, List.nth_error blocks k = Some b -> fst b = Z.add (Z.add h0 1) (Z.of_nat k)) ->
  Z.le (Z.add start (Z.mul 3 L)) (Z.add h0 (Z.of_nat (List.length blocks))) ->
  run_blocks C E P commit_of eval_of verify deg_ok valid_eval me L enum poly_for lch x0 blocks = Some xf ->
  quiet C E e allev ->
  (forall s s' c c', List.In (DCommit s e c) allev -> List.In (DCommit s' e c') allev ->
     find_index ks s 0%nat = find_index ks s' 0%nat -> find_index ks s 0%nat <> None -> c = c') ->
  (forall s rs vs mi v s' rs' vs' mi' v',
     List.In (DEval s e rs vs) allev -> find_index rs me 0%nat = Some mi -> List.nth_error vs mi = Some (Some v) ->
     List.In (DEval s' e rs' vs') allev -> find_index rs' me 0%nat = Some mi' -> List.nth_error vs' mi' = Some (Some v') ->
     find_index ks s 0%nat = find_index ks s' 0%nat -> find_index ks s 0%nat <> None -> v = v') ->
  (forall j, Nat.lt j (List.length ks) -> exists k b s,
     List.nth_error blocks k = Some b /\ Z.lt (Z.add (Z.add h0 1) (Z.of_nat k)) (Z.add start L) /\
     List.In (DCommit s e (cj j)) (snd b) /\ find_index ks s 0%nat = Some j /\ deg_ok t (cj j) = true) ->
  (forall j, Nat.lt j (List.length ks) -> j <> i -> exists k b s rs vs mi,
     List.nth_error blocks k = Some b /\ Z.lt (Z.add (Z.add h0 1) (Z.of_nat k)) (Z.add start L) /\
     List.In (DEval s e rs vs) (snd b) /\ bytes_eqb s me = false /\ find_index ks s 0%nat = Some j /\
     find_index rs me 0%nat = Some mi /\ List.nth_error vs mi = Some (Some (vj j)) /\ valid_eval (vj j) = true) ->
  (forall j, Nat.lt j (List.length ks) -> verify i (vj j) (cj j) = true) ->
  success C E P e xf.
Proof. exact honest_run_succeeds. Qed.
Print Assumptions C07_honest_run_succeeds.

(* The starting state of C07_honest_run_succeeds exists whenever the eon starts: the event
   EonStarted for eon e at height start, processed (without failing) by a keyper that is a member
   of the config (keypers ks, threshold t, own index i) with a synchronised cache and no result
   row for e, leaves an instance in the dealing phase that holds the own evaluation and nothing
   else; the remaining events of that block keep live and deal (events_deal, live_cleaned in
   Proofs/DKGLiveRun.v). *)
Theorem C07_eon_start_creates_dealing_instance :
  forall (C E P : Type) (commit_of : P -> C) (eval_of : P -> nat -> E) (verify : nat -> E -> C -> bool)
         (deg_ok : N -> C -> bool) (valid_eval : E -> bool) (me : addr) (L : Z), Z.lt 0 L ->
  forall (poly_for : N -> P) (e : N) (ks : list addr) (start : Z) (t : N) (i : nat) (allev : list (dev C E))
         (x : st C E P) (act idx : N) (cfg : cfgrow) (x' : st C E P),
  handle_event C E P commit_of eval_of verify deg_ok valid_eval me L poly_for x start (DEonStarted e act idx) = TOk x' ->
  sm_sync (snd x) = true -> sm_iskeyper (snd x) = true ->
  nget (db_cfgs C E P (fst x)) idx = Some cfg -> cf_keypers cfg = ks -> cf_threshold cfg = t ->
  find_index ks me 0%nat = Some i -> res C E P x e = None ->
  exists a, live C E P e a Dealing x' a /\ deal C E P deg_ok valid_eval me e ks start t i allev nil a /\
            nth_opt (p_evals (a_pure a)) i = Some (eval_of (poly_for e) i) /\ p_n (a_pure a) = List.length ks.
Proof. exact fresh_instance. Qed.
Print Assumptions C07_eon_start_creates_dealing_instance.

(* all hypotheses of C07_honest_run_succeeds hold for keyper A of the example run (two keypers,
   threshold 2, phase length 2, eon 1 started in block 2) after block 2, reading blocks 3..8 *)
Example C07_honest_run_succeeds_nonvacuous :
  DkgEx.run DkgEx.A DkgEx.c10 (firstn 2 DkgEx.blocks) = Some LiveEx.x2 /\
  live DkgEx.C DkgEx.E DkgEx.P DkgEx.n1 LiveEx.a2 Dealing LiveEx.x2 LiveEx.a2 /\
  deal DkgEx.C DkgEx.E DkgEx.P DkgEx.deg_ok DkgEx.valid_eval DkgEx.A DkgEx.n1 (DkgEx.A :: DkgEx.B :: nil) LiveEx.h2 LiveEx.t2 0%nat
       LiveEx.allev nil LiveEx.a2 /\
  run_blocks DkgEx.C DkgEx.E DkgEx.P DkgEx.commit_of DkgEx.eval_of DkgEx.verify DkgEx.deg_ok DkgEx.valid_eval DkgEx.A DkgEx.L
             (fun m => m) (fun _ => DkgEx.c10) LiveEx.lchf LiveEx.x2 LiveEx.rest = Some LiveEx.x8 /\
  quiet DkgEx.C DkgEx.E DkgEx.n1 LiveEx.allev /\
  (forall j, Nat.lt j 2 -> exists k b s,
     List.nth_error LiveEx.rest k = Some b /\ Z.lt (Z.add (Z.add 2 1) (Z.of_nat k)) (Z.add 2 DkgEx.L) /\
     List.In (DCommit s DkgEx.n1 (LiveEx.cj j)) (snd b) /\ find_index (DkgEx.A :: DkgEx.B :: nil) s 0%nat = Some j /\
     DkgEx.deg_ok LiveEx.t2 (LiveEx.cj j) = true) /\
  (forall j, Nat.lt j 2 -> DkgEx.verify 0%nat (LiveEx.vj j) (LiveEx.cj j) = true) /\
  success DkgEx.C DkgEx.E DkgEx.P DkgEx.n1 LiveEx.x8.
Proof.
  split; first exact LiveEx.x2_is_reached. split; first exact LiveEx.ex_live. split; first exact LiveEx.ex_deal.
  split; first exact LiveEx.ex_run. split; first exact LiveEx.ex_quiet. split; first exact LiveEx.ex_lc.
  split; [exact LiveEx.ex_ver|exact LiveEx.ex_success].
Qed.

(* Who is considered corrupt, for every instance and state: a dealer is not corrupt iff it has an
   accepted commitment, each of its recorded apologies verifies against the commitment, and every
   accepted accusation against it has an apology on record. *)
Theorem C07_not_corrupt_iff :
  forall (C E P : Type) (verify : nat -> E -> C -> bool) (d : pure C E P) (j : nat),
  is_corrupt C E P verify d j = false <->
  exists c, nth_opt (p_commits d) j = Some c /\
    (forall a b v, In ((a, b), v) (p_apos d) -> b = j -> verify a v c = true) /\
    (forall a b, In (a, b) (p_accs d) -> b = j -> apo_mem (a, b) (p_apos d) = true).
Proof. move=> C E P verify d j; exact: is_corrupt_false_iff. Qed.
Print Assumptions C07_not_corrupt_iff.

Example C07_not_corrupt_iff_nonvacuous :
  is_corrupt DkgEx.C DkgEx.E DkgEx.P DkgEx.verify DkgEx.d_fin 1 = false /\
  In (0%nat, 1%nat) (p_accs DkgEx.d_fin) /\
  is_corrupt DkgEx.C DkgEx.E DkgEx.P DkgEx.verify DkgEx.d_fin 2 = true.
Proof. split; first by []. split; [by left|by []]. Qed.

(* No false conviction over block sequences, for every keyper (address me) that processes the
   chain, whatever the other participants put on it.  Vocabulary (Proofs/DKGConvict.v):
     held e a0 ph x a     in state x the keyper holds the instance a of eon e (cache synchronised,
                          eon row stored, no result row yet), in phase ph, keeping what a0 held
     evs_of blocks        the events of the blocks, each paired with the height of its block
   The keyper is, at height h0 in the dealing phase of eon e (started at height start, keypers ks,
   threshold t), in a state x0 with an instance a0 without accusations and apologies whose slot j
   is empty or holds c - the state the event that starts the eon produces
   (C07_eon_start_creates_dealing_instance) - and then processes consecutive blocks up to at
   least the height at which the eon is finalised, none failing.  Dealer j behaves as an honest
   dealer is seen on the chain:
     - its commitment c (of admissible degree) is in a block of the dealing phase, and every
       commitment attributed to j on the chain is c;
     - every value in an apology attributed to j verifies against c for the accuser it answers;
     - every accusation against j in a block of the accusing phase is answered, for that accuser,
       by an apology of j with a well-formed value in a block of the apologising phase.
   Everything else is arbitrary: other dealers' commitments and evaluations, false accusations
   against j by any number of keypers, accusations and apologies outside their phases, duplicates,
   events of other eons.  Then the result row the keyper stores is computed from an instance in
   which j is not corrupt and holds c; hence (C07_result_checked, good_qualified) a successful
   result carries c at position j of its qualified vector. *)
Theorem C07_no_false_conviction :
  forall (C E P : Type) (commit_of : P -> C) (eval_of : P -> nat -> E) (verify : nat -> E -> C -> bool)
         (deg_ok : N -> C -> bool) (valid_eval : E -> bool) (me : addr) (L : Z), Z.lt 0 L ->
  forall (enum : list (N * active C E P) -> list (N * active C E P)), enum_keys_ok C E P enum ->
  forall (poly_for : N -> P) (e : N) (ks : list addr) (start : Z) (t : N) (j : nat) (c : C)
         (allh : list (Z * dev C E)),
  (forall h s c', List.In (h, DCommit s e c') allh -> find_index ks s 0%nat = Some j -> c' = c) ->
  forall (a0 : active C E P) (x0 : st C E P) (h0 : Z) (lch : Z -> Z) (blocks : list (Z * list (dev C E)))
         (xf : st C E P),
  allh = evs_of C E blocks ->
  held C E P e a0 Dealing x0 a0 ->
  a_start a0 = start -> a_keypers a0 = ks -> p_eon (a_pure a0) = e -> p_t (a_pure a0) = t ->
  p_accs (a_pure a0) = nil -> p_apos (a_pure a0) = nil ->
  (forall c', nth_opt (p_commits (a_pure a0)) j = Some c' -> c' = c) ->
  Z.le start h0 /\ Z.lt h0 (Z.add start L) ->
  (forall k b, List.nth_error blocks k = Some b -> fst b = Z.add (Z.add h0 1) (Z.of_nat k)) ->
  Z.le (Z.add start (Z.mul 3 L)) (Z.add h0 (Z.of_nat (List.length blocks))) ->
  run_blocks C E P commit_of eval_of verify deg_ok valid_eval me L enum poly_for lch x0 blocks = Some xf ->
  (exists k b s, List.nth_error blocks k = Some b /\ Z.lt (Z.add (Z.add h0 1) (Z.of_nat k)) (Z.add start L) /\
     List.In (DCommit s e c) (snd b) /\ find_index ks s 0%nat = Some j /\ deg_ok t c = true) ->
  (forall h s accusers vals k ad a v,
     List.In (h, DApology s e accusers vals) allh -> find_index ks s 0%nat = Some j ->
     List.nth_error accusers k = Some ad -> find_index ks ad 0%nat = Some a -> List.nth_error vals k = Some v ->
     verify a v c = true) ->
  (forall h s accused ad a,
     List.In (h, DAccusation s e accused) allh -> phase_at L h start = Accusing ->
     find_index ks s 0%nat = Some a -> List.In ad accused -> find_index ks ad 0%nat = Some j ->
     exists h' s' accusers vals k ad' v,
       List.In (h', DApology s' e accusers vals) allh /\ phase_at L h' start = Apologizing /\
       find_index ks s' 0%nat = Some j /\ List.nth_error accusers k = Some ad' /\ find_index ks ad' 0%nat = Some a /\
       List.nth_error vals k = Some v /\ valid_eval v = true) ->
  exists pf, res C E P xf e = Some (mkRes C E (is_result C E (compute_result C E P verify pf)) (compute_result C E P verify pf)) /\
             is_corrupt C E P verify pf j = false /\ nth_opt (p_commits pf) j = Some c.
Proof. exact no_false_conviction. Qed.
Print Assumptions C07_no_false_conviction.

(* all hypotheses hold for keyper B in a run in which B accuses the honest dealer A in the
   accusing phase and A apologises in the apologising phase (Proofs/DKGConvictExamples.v) *)
Example C07_no_false_conviction_nonvacuous :
  DkgEx.run DkgEx.B DkgEx.c20 (firstn 2 ConvEx.blocks2) = Some ConvEx.x2 /\
  held DkgEx.C DkgEx.E DkgEx.P ConvEx.e1 ConvEx.a2 Dealing ConvEx.x2 ConvEx.a2 /\
  run_blocks DkgEx.C DkgEx.E DkgEx.P DkgEx.commit_of DkgEx.eval_of DkgEx.verify DkgEx.deg_ok DkgEx.valid_eval DkgEx.B DkgEx.L
             (fun m => m) (fun _ => DkgEx.c20) ConvEx.lchf ConvEx.x2 ConvEx.rest = Some ConvEx.x8 /\
  ConvEx.allh = evs_of DkgEx.C DkgEx.E ConvEx.rest /\
  (List.In (ConvEx.h4, DAccusation DkgEx.B ConvEx.e1 (DkgEx.A :: nil)) ConvEx.allh /\ phase_at DkgEx.L ConvEx.h4 ConvEx.h2 = Accusing) /\
  (exists k b s, List.nth_error ConvEx.rest k = Some b /\
     Z.lt (Z.add (Z.add ConvEx.h2 1) (Z.of_nat k)) (Z.add ConvEx.h2 DkgEx.L) /\
     List.In (DCommit s ConvEx.e1 ConvEx.c10) (snd b) /\ find_index (DkgEx.A :: DkgEx.B :: nil) s 0%nat = Some 0%nat /\
     DkgEx.deg_ok ConvEx.t2 ConvEx.c10 = true) /\
  exists pf, res DkgEx.C DkgEx.E DkgEx.P ConvEx.x8 ConvEx.e1 =
               Some (mkRes DkgEx.C DkgEx.E (is_result DkgEx.C DkgEx.E (compute_result DkgEx.C DkgEx.E DkgEx.P DkgEx.verify pf))
                           (compute_result DkgEx.C DkgEx.E DkgEx.P DkgEx.verify pf)) /\
             is_corrupt DkgEx.C DkgEx.E DkgEx.P DkgEx.verify pf 0%nat = false /\ nth_opt (p_commits pf) 0%nat = Some ConvEx.c10.
Proof.
  split; first exact ConvEx.x2_is_reached. split; first exact ConvEx.ex_held. split; first exact ConvEx.ex_run.
  split; first by []. split; first exact ConvEx.ex_accused. split; first exact ConvEx.ex_lcj. exact ConvEx.ex_good.
Qed.

(* The phase function of the model is, for all phase lengths, heights and start heights, the
   function the translator produces from keyper/dkgphase/phase.go (NewConstantPhaseLength and
   PhaseLength.GetPhaseAtHeight, statement by statement; Generated/DkgPhase.v is rewritten from
   the repository's source on every check). *)
Theorem C07_phase_function_agrees_with_source :
  forall L height start : Z, phase_at L height start = gen_phase_at L height start.
Proof. exact phase_at_is_generated. Qed.
Print Assumptions C07_phase_function_agrees_with_source.

Example C07_phase_function_agrees_with_source_nonvacuous :
  gen_phase_at 6 9 9 = Dealing /\ gen_phase_at 6 15 9 = Accusing /\ gen_phase_at 6 21 9 = Apologizing /\
  gen_phase_at 6 27 9 = Finalized /\ gen_phase_at 6 8 9 = Off.
Proof. by []. Qed.
