(* C10 - no transaction can crash shuttermint; refused transactions have no effect.
   (statements only; proofs in Proofs/AppSafe.v, AppNonint.v, AppReach.v)

   A transaction is a *decoded* transaction: [TxBad] stands for every byte string that the
   decode layer (base64, 65-byte signature split, public key recovery, protobuf) refuses;
   [Tx signer chain nonce payload] for every byte string it accepts, with arbitrary payload
   contents (lists of any lengths, addresses and keys of any length, validity bits of curve
   points chosen freely).  A panic of the Go code is the response [RPanic]. *)
From Coq Require Import String.
From Coq Require Import List NArith ZArith Bool.
From Verif Require Import Lib.Bytes Lib.Assoc Model.Powermap Model.App
     Proofs.AppDet Proofs.AppSafe Proofs.AppNonint Proofs.AppReach.
Import ListNotations.

(* For every genesis, every sequence of calls - BeginBlock, CheckTx, DeliverTx, EndBlock,
   Commit in any order, with any decoded transactions - and every map enumeration: no call
   panics. *)
Theorem C10_total : forall g s0 cs es,
  init_chain g = Some s0 -> ~ In RPanic (snd (run_enums es 0 s0 cs)).
Proof. intros g s0 cs es H. apply run_never_panics. eapply init_chain_cfg_ok. exact H. Qed.
Print Assumptions C10_total.

(* Malformed, wrong-chain and replayed transactions: DeliverTx answers with the error code,
   no events, and the state is untouched; CheckTx answers non-zero. In every state. *)
Theorem C10_refused_nonzero : forall e s,
  deliver_tx e s TxBad = Some (s, (code_error, [])) /\ check_tx s TxBad = (s, 1%N) /\
  (forall signer chain nonce p, chain <> chain_id s ->
     deliver_tx e s (Tx signer chain nonce p) = Some (s, (code_error, [])) /\
     check_tx s (Tx signer chain nonce p) = (s, 1%N)) /\
  (forall signer chain nonce p, nonce_used (nonces s) signer nonce = true ->
     deliver_tx e s (Tx signer chain nonce p) = Some (s, (code_error, [])) /\
     check_tx s (Tx signer chain nonce p) = (s, 1%N)).
Proof.
  intros e s. split; [reflexivity|]. split; [reflexivity|]. split.
  - intros. split; [apply deliver_wrong_chain|apply check_wrong_chain]; assumption.
  - intros. split; [apply deliver_replayed|apply check_replayed]; assumption.
Qed.
Print Assumptions C10_refused_nonzero.

(* "replayed" made explicit over histories: once (signer, nonce) has been executed - in a
   reachable or any other state - every later transaction with that pair is refused, after any
   further calls. *)
Theorem C10_replay_refused : forall e s signer chain nonce p s1 r1 cs es k,
  deliver_tx e s (Tx signer chain nonce p) = Some (s1, r1) ->
  chain = chain_id s -> nonce_used (nonces s) signer nonce = false ->
  let s2 := fst (run_enums es k s1 cs) in
  forall e' chain' p', deliver_tx e' s2 (Tx signer chain' nonce p') = Some (s2, (code_error, [])).
Proof. exact nonce_executes_once. Qed.
Print Assumptions C10_replay_refused.

(* The mempool check refuses every sender that is in no accepted keyper set, in every
   reachable state. *)
Theorem C10_outsider_refused_by_check : forall s signer chain nonce p,
  reachable s -> is_keyper_any s signer = false ->
  check_tx s (Tx signer chain nonce p) = (s, 1%N).
Proof.
  intros s signer chain nonce p Hr Hk. apply check_outsider; [|exact Hk].
  apply reachable_inv in Hr. destruct Hr as (_ & Hm & _). exact Hm.
Qed.
Print Assumptions C10_outsider_refused_by_check.

(* Even if a block includes a transaction of such a sender x: it emits no events, and for
   every continuation [cs] in which x sends nothing further and stays outside every accepted
   config, all responses (DeliverTx of other senders, EndBlock events and validator updates,
   CheckTx, BeginBlock) are the same as without it, and the final states agree on everything
   except x's own nonce and blocks-seen entries. *)
Theorem C10_noninterference : forall e es k s x chain nonce p s1 r1 cs,
  reachable s ->
  deliver_tx e s (Tx x chain nonce p) = Some (s1, r1) ->
  Forall (not_by x) cs -> never_keyper x es k s cs ->
  snd r1 = [] /\
  snd (run_enums es k s1 cs) = snd (run_enums es k s cs) /\
  hide x (fst (run_enums es k s1 cs)) = hide x (fst (run_enums es k s cs)).
Proof.
  intros e es k s x chain nonce p s1 r1 cs Hr. apply reachable_inv in Hr.
  destruct Hr as (H1 & _ & H3 & _). apply noninterference; assumption.
Qed.
Print Assumptions C10_noninterference.

(* Non-vacuity: on the genesis below an outsider's BlockSeen transaction is executed with
   code 0 (the one payload that is not answered with an error), and the hypotheses of the
   noninterference theorem hold for a continuation with a config vote by a member. *)
Definition k_ (i : N) : bytes := repeat i 20.
Definition g0 : genesis := mkGenesis [k_ 1; k_ 2; k_ 3] 2 0 false 0 [(repeat 7%N 32, 10%Z)] (hx "63"%string) false.
Example C10_noninterference_nonvacuous :
  exists s0 s1 r1, init_chain g0 = Some s0 /\ reachable s0 /\
    deliver_tx enum_id s0 (Tx (k_ 9) (hx "63"%string) 1 (PBlockSeen 5)) = Some (s1, r1) /\ fst r1 = code_ok /\
    Forall (not_by (k_ 9)) [CDeliver (Tx (k_ 1) (hx "63"%string) 1 (PBatchConfig 0 [k_ 1; k_ 2] 1 1)); CEnd 1] /\
    never_keyper (k_ 9) (fun _ => enum_id) 0 s0
                 [CDeliver (Tx (k_ 1) (hx "63"%string) 1 (PBatchConfig 0 [k_ 1; k_ 2] 1 1)); CEnd 1].
Proof.
  eexists. eexists. eexists. split; [reflexivity|]. split; [apply (reachable_init g0); reflexivity|].
  split; [vm_compute; reflexivity|]. split; [reflexivity|]. split.
  - repeat constructor; simpl; discriminate.
  - vm_compute. auto.
Qed.

(* The second tie: the admission decision of CheckTxState.AddTx (member set, per-sender limit
   MaxTxsPerBlock, per-block nonce), regenerated from app/checktx.go on this run
   (Generated/AppConsts.v), is the CheckTx code of the model. *)
From Verif Require Import Generated.AppConsts Proofs.AppConsts.
Theorem C10_translated_admission_agrees :
  forall s signer chain nonce p,
    bytes_eqb chain (chain_id s) = true -> nonce_used (nonces s) signer nonce = false ->
    snd (check_tx s (Tx signer chain nonce p)) =
    if gen_add_tx_ok (Z.of_nat (List.length (chk_members s))) (mem_addr signer (chk_members s))
                     (match aget (chk_counts s) signer with Some c => c | None => 0%Z end)
                     (negb (nonce_used (chk_nonces s) signer nonce))
    then 0%N else 1%N.
Proof. exact add_tx_agrees. Qed.
Print Assumptions C10_translated_admission_agrees.

(* Whatever makes block execution answer a transaction with the error code (a structurally
   invalid payload of any message type by any sender, a keyper included), it emits no events and
   changes nothing but the record of its own (signer, nonce) pair; the one exception is spelled
   out: a config vote may leave the vote table changed (and nothing else). *)
Theorem C10_error_code_means_no_effect :
  forall e s t s' code evs,
    deliver_tx e s t = Some (s', (code, evs)) -> code = code_error ->
    evs = [] /\
    (s' = s \/
     exists signer chain nonce p, t = Tx signer chain nonce p /\
       let s1 := set_nonces s ((signer, nonce) :: nonces s) in
       (s' = s1 \/ (exists act ks th i, p = PBatchConfig act ks th i) /\ same_but_cfg_voting s' s1)).
Proof. exact error_code_no_effect. Qed.
Print Assumptions C10_error_code_means_no_effect.

(* On the code as translated on this run (Generated/VotingFuns.v, from app/dkg.go and
   app/voting.go): a DKG message that DKGInstance.Register*Msg refuses - with the error code or
   as already seen - leaves the DKG instance exactly as it was, whatever the message contains
   (no premise on the receiver / accused / accuser lists); AddVote refuses exactly a sender that
   has voted and then returns no voting at all. *)
From Verif Require Import Generated.VotingFuns Proofs.VotingFuns.
Theorem C10_translated_refused_dkg_message_is_inert :
  (forall d eon sender rs d' code, gen_register_poly_eval d eon sender rs = (d', Some code) -> d' = d) /\
  (forall d eon sender d' code, gen_register_poly_commitment d eon sender = (d', Some code) -> d' = d) /\
  (forall d eon sender l d' code, gen_register_accusation d eon sender l = (d', Some code) -> d' = d) /\
  (forall d eon sender l d' code, gen_register_apology d eon sender l = (d', Some code) -> d' = d) /\
  (forall (T : Type) (teqb : T -> T -> bool) v sender c,
     gen_add_vote teqb v sender c = None <-> amem (v_votes v) sender = true).
Proof.
  split; [exact gen_register_poly_eval_refusal_inert|].
  split; [exact gen_register_poly_commitment_refusal_inert|].
  split; [exact gen_register_accusation_refusal_inert|].
  split; [exact gen_register_apology_refusal_inert|].
  intros T teqb v sender c. unfold gen_add_vote. cbv zeta.
  destruct (amem (v_votes v) sender); split; intros H; try reflexivity; discriminate.
Qed.
Print Assumptions C10_translated_refused_dkg_message_is_inert.

(* The model's four DKG message handlers are the translated Register*Msg functions wrapped in
   the response construction: an accepted message changes one "seen" set of its DKG instance
   and emits its event, a refused one answers the code and changes nothing. *)
Theorem C10_translated_dkg_handlers_agree :
  (forall s sender eon receivers evals d,
     Nat.eqb (length receivers) (length evals) = true -> all_len20 receivers = true ->
     addrs_unique receivers = true -> dkg_get (dkgs s) eon = Some d ->
     handle_poly_eval s sender eon receivers evals =
     via_register s eon (gen_register_poly_eval d eon sender receivers)
                  (code_ok, [EvPolyEval sender eon receivers evals])) /\
  (forall s sender eon gammas d,
     forallb snd gammas = true -> dkg_get (dkgs s) eon = Some d ->
     handle_poly_commitment s sender eon gammas =
     via_register s eon (gen_register_poly_commitment d eon sender)
                  (code_ok, [EvPolyCommitment sender eon (map fst gammas)])) /\
  (forall s sender eon accused d,
     all_len20 accused = true -> addrs_unique accused = true -> dkg_get (dkgs s) eon = Some d ->
     handle_accusation s sender eon accused =
     via_register s eon (gen_register_accusation d eon sender accused)
                  (code_ok, [EvAccusation sender eon accused])) /\
  (forall s sender eon accusers evals d,
     Nat.eqb (length accusers) (length evals) = true -> all_len20 accusers = true ->
     addrs_unique accusers = true -> dkg_get (dkgs s) eon = Some d ->
     handle_apology s sender eon accusers evals =
     via_register s eon (gen_register_apology d eon sender accusers)
                  (code_ok, [EvApology sender eon accusers (map strip_zeros evals)])).
Proof.
  split; [exact handle_poly_eval_via_generated|].
  split; [exact handle_poly_commitment_via_generated|].
  split; [exact handle_accusation_via_generated|exact handle_apology_via_generated].
Qed.
Print Assumptions C10_translated_dkg_handlers_agree.
