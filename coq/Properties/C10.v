(* C10 - no transaction can crash shuttermint; refused transactions have no effect.
   (statements only; proofs in Proofs/AppSafe.v, AppNonint.v, AppReach.v)

   A transaction is a *decoded* transaction: [TxBad] stands for every byte string that the
   decode layer (base64, 65-byte signature split, public key recovery, protobuf) refuses;
   [Tx signer chain nonce payload] for every byte string it accepts, with arbitrary payload
   contents (lists of any lengths, addresses and keys of any length, validity bits of curve
   points chosen freely).  A panic of the Go code is the response [RPanic]. *)
From Coq Require Import String.
From Coq Require Import List NArith ZArith Bool.
From Verif Require Import Lib.Bytes Lib.Assoc Model.Powermap Model.App
     Proofs.AppDet Proofs.AppSafe Proofs.AppNonint Proofs.AppReach.
Import ListNotations.

(* For every genesis, every sequence of calls - BeginBlock, CheckTx, DeliverTx, EndBlock,
   Commit in any order, with any decoded transactions - and every map enumeration: no call
   panics. *)
Theorem C10_total : forall g s0 cs es,
  init_chain g = Some s0 -> ~ In RPanic (snd (run_enums es 0 s0 cs)).
Proof. intros g s0 cs es H. apply run_never_panics. eapply init_chain_cfg_ok. exact H. Qed.
Print Assumptions C10_total.

(* Malformed, wrong-chain and replayed transactions: DeliverTx answers with the error code,
   no events, and the state is untouched; CheckTx answers non-zero. In every state. *)
Theorem C10_refused_nonzero : forall e s,
  deliver_tx e s TxBad = Some (s, (code_error, [])) /\ check_tx s TxBad = (s, 1%N) /\
  (forall signer chain nonce p, chain <> chain_id s ->
     deliver_tx e s (Tx signer chain nonce p) = Some (s, (code_error, [])) /\
     check_tx s (Tx signer chain nonce p) = (s, 1%N)) /\
  (forall signer chain nonce p, nonce_used (nonces s) signer nonce = true ->
     deliver_tx e s (Tx signer chain nonce p) = Some (s, (code_error, [])) /\
     check_tx s (Tx signer chain nonce p) = (s, 1%N)).
Proof.
  intros e s. split; [reflexivity|]. split; [reflexivity|]. split.
  - intros. split; [apply deliver_wrong_chain|apply check_wrong_chain]; assumption.
  - intros. split; [apply deliver_replayed|apply check_replayed]; assumption.
Qed.
Print Assumptions C10_refused_nonzero.

(* "replayed" made explicit over histories: once (signer, nonce) has been executed - in a
   reachable or any other state - every later transaction with that pair is refused, after any
   further calls. *)
Theorem C10_replay_refused : forall e s signer chain nonce p s1 r1 cs es k,
  deliver_tx e s (Tx signer chain nonce p) = Some (s1, r1) ->
  chain = chain_id s -> nonce_used (nonces s) signer nonce = false ->
  let s2 := fst (run_enums es k s1 cs) in
  forall e' chain' p', deliver_tx e' s2 (Tx signer chain' nonce p') = Some (s2, (code_error, [])).
Proof. exact nonce_executes_once. Qed.
Print Assumptions C10_replay_refused.

(* The mempool check refuses every sender that is in no accepted keyper set, in every
   reachable state. *)
Theorem C10_outsider_refused_by_check : forall s signer chain nonce p,
  reachable s -> is_keyper_any s signer = false ->
  check_tx s (Tx signer chain nonce p) = (s, 1%N).
Proof.
  intros s signer chain nonce p Hr Hk. apply check_outsider; [|exact Hk].
  apply reachable_inv in Hr. destruct Hr as (_ & Hm & _). exact Hm.
Qed.
Print Assumptions C10_outsider_refused_by_check.

(* Even if a block includes a transaction of such a sender x: it emits no events, and for
   every continuation [cs] in which x sends nothing further and stays outside every accepted
   config, all responses (DeliverTx of other senders, EndBlock events and validator updates,
   CheckTx, BeginBlock) are the same as without it, and the final states agree on everything
   except x's own nonce and blocks-seen entries. *)
Theorem C10_noninterference : forall e es k s x chain nonce p s1 r1 cs,
  reachable s ->
  deliver_tx e s (Tx x chain nonce p) = Some (s1, r1) ->
  Forall (not_by x) cs -> never_keyper x es k s cs ->
  snd r1 = [] /\
  snd (run_enums es k s1 cs) = snd (run_enums es k s cs) /\
  hide x (fst (run_enums es k s1 cs)) = hide x (fst (run_enums es k s cs)).
Proof.
  intros e es k s x chain nonce p s1 r1 cs Hr. apply reachable_inv in Hr.
  destruct Hr as (H1 & _ & H3 & _). apply noninterference; assumption.
Qed.
Print Assumptions C10_noninterference.

(* Non-vacuity: on the genesis below an outsider's BlockSeen transaction is executed with
   code 0 (the one payload that is not answered with an error), and the hypotheses of the
   noninterference theorem hold for a continuation with a config vote by a member. *)
Definition k_ (i : N) : bytes := repeat i 20.
Definition g0 : genesis := mkGenesis [k_ 1; k_ 2; k_ 3] 2 0 false 0 [(repeat 7%N 32, 10%Z)] (hx "63"%string) false.
Example C10_noninterference_nonvacuous :
  exists s0 s1 r1, init_chain g0 = Some s0 /\ reachable s0 /\
    deliver_tx enum_id s0 (Tx (k_ 9) (hx "63"%string) 1 (PBlockSeen 5)) = Some (s1, r1) /\ fst r1 = code_ok /\
    Forall (not_by (k_ 9)) [CDeliver (Tx (k_ 1) (hx "63"%string) 1 (PBatchConfig 0 [k_ 1; k_ 2] 1 1)); CEnd 1] /\
    never_keyper (k_ 9) (fun _ => enum_id) 0 s0
                 [CDeliver (Tx (k_ 1) (hx "63"%string) 1 (PBatchConfig 0 [k_ 1; k_ 2] 1 1)); CEnd 1].
Proof.
  eexists. eexists. eexists. split; [reflexivity|]. split; [apply (reachable_init g0); reflexivity|].
  split; [vm_compute; reflexivity|]. split; [reflexivity|]. split.
  - repeat constructor; simpl; discriminate.
  - vm_compute. auto.
Qed.

(* The second tie: the admission decision of CheckTxState.AddTx (member set, per-sender limit
   MaxTxsPerBlock, per-block nonce), regenerated from app/checktx.go on this run
   (Generated/AppConsts.v), is the CheckTx code of the model. *)
From Verif Require Import Generated.AppConsts Proofs.AppConsts.
Theorem C10_translated_admission_agrees :
  forall s signer chain nonce p,
    bytes_eqb chain (chain_id s) = true -> nonce_used (nonces s) signer nonce = false ->
    snd (check_tx s (Tx signer chain nonce p)) =
    if gen_add_tx_ok (Z.of_nat (List.length (chk_members s))) (mem_addr signer (chk_members s))
                     (match aget (chk_counts s) signer with Some c => c | None => 0%Z end)
                     (negb (nonce_used (chk_nonces s) signer nonce))
    then 0%N else 1%N.
Proof. exact add_tx_agrees. Qed.
Print Assumptions C10_translated_admission_agrees.

(* Whatever makes block execution answer a transaction with the error code (a structurally
   invalid payload of any message type by any sender, a keyper included), it emits no events and
   changes nothing but the record of its own (signer, nonce) pair; the one exception is spelled
   out: a config vote may leave the vote table changed (and nothing else). *)
Theorem C10_error_code_means_no_effect :
  forall e s t s' code evs,
    deliver_tx e s t = Some (s', (code, evs)) -> code = code_error ->
    evs = [] /\
    (s' = s \/
     exists signer chain nonce p, t = Tx signer chain nonce p /\
       let s1 := set_nonces s ((signer, nonce) :: nonces s) in
       (s' = s1 \/ (exists act ks th i, p = PBatchConfig act ks th i) /\ same_but_cfg_voting s' s1)).
Proof. exact error_code_no_effect. Qed.
Print Assumptions C10_error_code_means_no_effect.
