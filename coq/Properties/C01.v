(* C01 - a derived decryption key is the unique correct key, from any t valid shares.
   This file only states the theorems; proofs are in Proofs/EpochKG*.v.

   Vocabulary (defined in Proofs/EpochKG.v from the property text):
     senders_below n l         every share of l has a sender index < n (senders are keypers of the set)
     has_valid_from vf x l t   exists a duplicate-free list S of at least t senders, each of which
                               has in l a share for identity x that verifies
     dv vf x l                 the verifying shares for x in l, the first one of each sender, in arrival order
     counts vf t pre sh        sh verifies, no verifying share of its sender for its identity is in pre,
                               and its identity has fewer than t distinct verifying senders in pre
     effective vf t l          the subsequence of l of the shares that count (everything else is junk)
     good_shares vf n t x A    A is t (sender, value) pairs, senders pairwise distinct and < n, every
                               value verifies for x
   Model: Model/EpochKG.v (run, key_of, outcomes), Model/EpochKGHandler.v (handle_message). *)
From Coq Require Import NArith ZArith List Permutation.
From mathcomp Require Import all_ssreflect all_algebra.
From Verif Require Import Lib.Bytes Lib.Assoc Lib.Lagrange.
From Verif Require Import Model.EpochKG Model.EpochKGLabels Model.EpochKGHandler.
From Verif Require Import Proofs.EpochKG Proofs.EpochKGHandler Proofs.EpochKGExamples Proofs.EpochKGAlgebra.

(* For every share value type, verification function and combination function, every n, every
   threshold t >= 1, every sequence of shares whose senders are keypers of the set and every
   identity x: a (non-nil) key for x exists after the sequence iff the sequence contains valid
   shares for x from at least t distinct senders; and no key exists after any prefix that
   contains fewer ("never from fewer"). *)
Theorem C01_exactly_at_threshold :
  forall (V : Type) (verify : N -> bytes -> V -> bool) (combine : list (N * V) -> V)
         (n t : N) (l : list (share V)) (x : bytes),
  N.le 1 t -> senders_below n l ->
  ((exists k, key_of (run V verify combine n t l) x = Some (Some k)) <-> has_valid_from verify x l t) /\
  (forall l1 l2, l = List.app l1 l2 -> ~ has_valid_from verify x l1 t ->
     key_of (run V verify combine n t l1) x = None).
Proof. exact exactly_at_threshold. Qed.
Print Assumptions C01_exactly_at_threshold.

Example C01_exactly_at_threshold_nonvacuous :
  N.le 1 Ex.t /\ senders_below Ex.n Ex.l /\ Ex.l = List.app Ex.before (Ex.threshold_share :: Ex.late :: nil) /\
  has_valid_from verify_l Ex.A Ex.l Ex.t /\ ~ has_valid_from verify_l Ex.A Ex.before Ex.t /\
  key_of (Ex.run Ex.l) Ex.A = Some (Some (LKey N0 Ex.A)) /\ key_of (Ex.run Ex.before) Ex.A = None.
Proof.
  split; [discriminate|]. split; [exact Ex.below|]. split; [reflexivity|].
  split; [exact Ex.enough_A|]. split; [exact Ex.not_enough_before|].
  split; [exact Ex.key_A|exact Ex.no_key_before].
Qed.

(* Junk never alters, blocks or poisons: the state after a whole sequence is *equal* to the
   state after the subsequence of the shares that count; and each single junk share (invalid,
   repeated, second share of a sender, or late) leaves the state exactly as it was, with a
   non-fatal outcome. *)
Theorem C01_junk_is_noop :
  forall (V : Type) (verify : N -> bytes -> V -> bool) (combine : list (N * V) -> V)
         (n t : N) (l : list (share V)),
  N.le 1 t -> senders_below n l ->
  run V verify combine n t l = run V verify combine n t (effective verify t l) /\
  (forall l1 sh l2, l = List.app l1 (sh :: l2) -> counts verify t l1 sh = false ->
     run V verify combine n t (List.app l1 (sh :: nil)) = run V verify combine n t l1 /\
     forall o, nth_error (outcomes V verify combine n t l) (length l1) = Some o ->
               o = EpochKG.Ok \/ o = ErrVerify \/ o = ErrDup).
Proof. exact junk_is_noop. Qed.
Print Assumptions C01_junk_is_noop.

Example C01_junk_is_noop_nonvacuous :
  effective verify_l Ex.t Ex.l
    = (Ex.sh Ex.A Ex.s0 (LShare N0 Ex.s0 Ex.A) :: Ex.sh Ex.B Ex.s2 (LShare N0 Ex.s2 Ex.B) :: Ex.threshold_share :: nil) /\
  length Ex.l = 8 /\
  length (List.filter (fun o => match o with EpochKG.Ok => false | _ => true end)
                      (outcomes lbl verify_l combine_l Ex.n Ex.t Ex.l)) = 4.
Proof. split; [exact Ex.effective_l|]. split; [reflexivity|exact Ex.junk_count]. Qed.

(* The stored key is combine of the first t valid shares from distinct senders, in arrival
   order, and those are t good shares. *)
Theorem C01_key_is_combine_of_first_t :
  forall (V : Type) (verify : N -> bytes -> V -> bool) (combine : list (N * V) -> V)
         (n t : N) (l : list (share V)) (x : bytes) (k : V),
  N.le 1 t -> senders_below n l ->
  key_of (run V verify combine n t l) x = Some (Some k) ->
  k = combine (firstn (N.to_nat t) (dv verify x l)) /\
  good_shares verify n t x (firstn (N.to_nat t) (dv verify x l)).
Proof. exact key_is_combine_of_first_t. Qed.
Print Assumptions C01_key_is_combine_of_first_t.

Example C01_key_is_combine_of_first_t_nonvacuous :
  key_of (Ex.run Ex.l) Ex.A = Some (Some (LKey N0 Ex.A)) /\
  firstn (N.to_nat Ex.t) (dv verify_l Ex.A Ex.l)
    = ((Ex.s0, LShare N0 Ex.s0 Ex.A) :: (Ex.s2, LShare N0 Ex.s2 Ex.A) :: nil).
Proof. split; [exact Ex.key_A|exact Ex.first_t]. Qed.

(* The algebra, in the exponent model over an arbitrary field F (Proofs/EpochKGAlgebra.v):
   shares are f(s+1) * h x, verification is that equation, combine is the Lagrange sum of
   shcrypto.  Premises: deg f < t, and the x-coordinates 1..n are distinct in F.  Every key the
   keyper derives - whichever t shares arrived first, whatever junk was interleaved - is
   f(0) * h x; that value is the only solution of the key verification equation
   e(k, g) = e(H1 x, f(0) g), and it decrypts (e(k, r g) = e(H1 x, f(0) g)^r).  Moreover
   combine does not depend on which t good shares it is given. *)
Theorem C01_key_correct :
  forall (F : fieldType) (f : {poly F}) (h : bytes -> F) (n t : N) (l : list (share F)) (x : bytes) (k : F),
  (size f <= N.to_nat t)%N -> xco_inj_below F n -> N.le 1 t -> senders_below n l ->
  key_of (run F (verifyF f h) (@combineF F) n t l) x = Some (Some k) ->
  (k = f.[0] * h x /\
   (forall g k', g != 0 -> (k' * g == h x * (f.[0] * g)) = (k' == k)) /\
   (forall g r, k * (r * g) = (h x * (f.[0] * g)) * r))%R /\
  subset_independent (verifyF f h) (@combineF F) n t.
Proof.
  intros F f h n t l x k szf inj t1 below hk. split.
  - exact (key_correct szf inj t1 below hk).
  - exact (@combine_subset_independent F f h n t szf inj).
Qed.
Print Assumptions C01_key_correct.

Example C01_key_correct_nonvacuous :
  (size exf <= N.to_nat Ex.t)%N /\ xco_inj_below [fieldType of rat] Ex.n /\ N.le 1 Ex.t /\
  senders_below Ex.n exl /\
  exists k, key_of (run rat (verifyF exf exh) (@combineF _) Ex.n Ex.t exl) Ex.A = Some (Some k).
Proof. exact example_key_correct. Qed.

(* Handler layer (model of HandleMessage / aggregateDecryptionKeySharesFromDB; the DB-backed
   differential stream is pending): SelectDecryptionKeyShares has no ORDER BY, so the rows reach
   the fresh EpochKG in an order chosen by an enumeration oracle.  For any two oracles that
   permute the selected rows the handler returns the same output and leaves the same database;
   once the message gets as far as aggregation it emits keys exactly when every identity of
   the message has t valid stored shares (one key per identity, in message order, each the
   combination of t good shares), and otherwise returns nothing (never an error or a panic).
   Premise: combine is subset independent for the recorded (n, t) - discharged for the exponent
   model by C01_key_correct and for the label model by labels_subset_independent. *)
Theorem C01_handler_any_row_order :
  forall (V R : Type) (verify : N -> bytes -> V -> bool) (combine : list (N * V) -> V)
         (decode : R -> option V) (o1 o2 : oracle R) (d : db V R) (m : msg R),
  (forall n t, dkg_lookup (dkg_tbl d) (i64_of_u64 (m_eon m)) = Some (DkgResult n t) ->
               subset_independent verify combine n t) ->
  perm_oracle o1 -> perm_oracle o2 -> stored_shares_wf d m ->
  handle_message V R verify combine decode o1 d m = handle_message V R verify combine decode o2 d m /\
  forall n t, reaches_aggregation d m n t ->
    let tbl := insert_share_rows d m in
    let eon := i64_of_u64 (m_eon m) in
    ((forall x, List.In x (List.map fst (m_shares m)) ->
                has_valid_from verify x (table_shares decode tbl eon x) t) ->
       exists ks, snd (handle_message V R verify combine decode o1 d m) = HKeys ks /\
                  List.map fst ks = List.map fst (m_shares m) /\
                  List.Forall (fun xk => exists A, good_shares verify n t (fst xk) A /\ snd xk = combine A) ks) /\
    ((exists x, List.In x (List.map fst (m_shares m)) /\
                ~ has_valid_from verify x (table_shares decode tbl eon x) t) ->
       snd (handle_message V R verify combine decode o1 d m) = HNone).
Proof. exact handler_any_row_order. Qed.
Print Assumptions C01_handler_any_row_order.

Example C01_handler_any_row_order_nonvacuous :
  (forall n t, dkg_lookup (dkg_tbl Ex.d) (i64_of_u64 (m_eon Ex.m)) = Some (DkgResult n t) ->
               subset_independent verify_l combine_l n t) /\
  perm_oracle Ex.rev_oracle /\ perm_oracle Ex.id_oracle /\ stored_shares_wf Ex.d Ex.m /\
  reaches_aggregation Ex.d Ex.m Ex.n Ex.t /\
  snd (handle_message lbl (option lbl) verify_l combine_l Ex.decode Ex.rev_oracle Ex.d Ex.m)
    = HKeys ((Ex.A, LKey N0 Ex.A) :: nil).
Proof.
  split.
  - intros n t H. apply labels_subset_independent.
    destruct (Ex.d_wf n t H) as [Ht _]. exact Ht.
  - split; [exact Ex.rev_oracle_perm|]. split; [exact Ex.id_oracle_perm|].
    split; [exact Ex.d_wf|]. split; [exact Ex.d_reaches|exact Ex.d_out].
Qed.

(* The second tie: HandleEpochSecretKeyShare, addEpochSecretKeyShare and computeEpochSecretKey of
   keyper/epochkg/epochkg.go as translated statement by statement on this run
   (Generated/EpochKGFuns.v: guard order and error of each guard, the bounds test of
   PublicKeyShares[share.Sender], the duplicate-sender search loop, the threshold comparison with
   its int(uint64) cast, every access of SecretShares / SecretKeys with the key expression it
   uses, what is stored and what is deleted, the (index, share) lists handed to
   shcrypto.ComputeEpochSecretKey) do what the model does, for every share sequence: after any run
   the translated maps are the model's maps up to the injective key function Hex of the identity
   (pending entries projected to (sender, value)), and the error classes of all calls coincide.
   env_models says what the environment of the translated code means (Hex injective, the two
   struct fields, the two shcrypto calls); it is satisfiable (Example).  Both maps - and the
   handler when it reads them - use the one key function KHex; a translated source that keys a
   map by String() does not pass gen_handle_is_ref. *)
From Verif Require Import Generated.EpochKGFuns Proofs.EpochKGFuns.
Theorem C01_translated_bookkeeping_agrees :
  forall (V EID PK : Type) (E : genv V EID PK) (verify : N -> bytes -> V -> bool)
         (combine : list (N * V) -> V) (n t : N),
  env_models V EID PK E verify combine n t -> N.lt t two63 ->
  (forall sh st, gclass (gen_HandleEpochSecretKeyShare E sh st) = ref_handle E sh st) /\
  (forall l : list (share V),
     state_rel V EID PK E n (fst (gen_run V EID PK E l)) (run V verify combine n t l) /\
     snd (gen_run V EID PK E l) = List.map ocode (outcomes V verify combine n t l)) /\
  List.Forall (eq KHex) gen_handler_key_reads.
Proof.
  intros V EID PK E verify combine n t He Ht. split; [|split].
  - exact (gen_handle_is_ref E).
  - intros l. exact (gen_run_agrees V EID PK E verify combine n t l He Ht).
  - exact handler_key_reads_hex.
Qed.
Print Assumptions C01_translated_bookkeeping_agrees.

Example C01_translated_bookkeeping_agrees_nonvacuous :
  env_models lbl bytes N (model_env lbl verify_l combine_l Ex.n Ex.t) verify_l combine_l Ex.n Ex.t /\
  N.lt Ex.t two63 /\
  snd (gen_run lbl bytes N (model_env lbl verify_l combine_l Ex.n Ex.t) Ex.l)
    = example_codes /\
  gen_get_opt (g_SecretKeys (fst (gen_run lbl bytes N (model_env lbl verify_l combine_l Ex.n Ex.t) Ex.l))) Ex.A
    = Some (LKey N0 Ex.A).
Proof. exact example_translated_run. Qed.
