(* C09 - shuttermint replicas never diverge.  (statements only; proofs in Proofs/) *)
From Coq Require Import List NArith ZArith Bool.
From Verif Require Import Lib.Bytes Model.App.
Import ListNotations.

(* placeholder while the proofs are being written: the model is a function of state and call *)
Theorem C09_step_is_function : forall s c, exists s' r, step s c = (s', r).
Proof. intros s c. destruct (step s c) as [s' r]. exists s', r. reflexivity. Qed.
Print Assumptions C09_step_is_function.
