(* C09 - shuttermint replicas never diverge.  (statements only; proofs in Proofs/AppDet.v)

   The model applies an enumerator to the entries of a Go map wherever the code ranges over
   a map (the vote tally of Voting.outcomeIndex, both loops of DiffPowermaps, and
   Powermap.ValidatorUpdates); an enumerator may return any permutation, and may be a
   different one for every call (the stream [es]). *)
From Coq Require Import List NArith ZArith Bool Permutation String.
From Verif Require Import Lib.Bytes Lib.Assoc Model.Powermap Model.App Proofs.AppDet Generated.MapRanges.
Import ListNotations.

(* Two replicas started from the same genesis and fed the same calls return the same
   responses (codes, events in order, validator updates in order) and end in the same state,
   whatever order their maps are enumerated in - for every genesis, every call sequence
   (hence at every height: take prefixes) and every pair of enumerator streams. *)
Theorem C09_replicas_agree : forall g s0 cs es1 es2,
  init_chain g = Some s0 ->
  (forall k, enum_ok (es1 k)) -> (forall k, enum_ok (es2 k)) ->
  run_enums es1 0 s0 cs = run_enums es2 0 s0 cs.
Proof. exact replicas_agree. Qed.
Print Assumptions C09_replicas_agree.

(* Nothing but the genesis and the calls enters: every replica's run equals the run of the
   reference replica that enumerates maps in insertion order (the model has no clock, process
   identity or address among its inputs by construction; the correspondence run ties that to
   the code). *)
Theorem C09_no_ambient_input : forall g s0 cs es,
  init_chain g = Some s0 -> (forall k, enum_ok (es k)) ->
  run_enums es 0 s0 cs = run enum_id s0 cs.
Proof.
  intros g s0 cs es Hi He. rewrite (run_is_run_enums enum_id cs 0%nat s0).
  eapply replicas_agree; eauto. intros k. apply enum_id_ok.
Qed.
Print Assumptions C09_no_ambient_input.

(* The places where the model lets the enumeration vary are all the places where the source
   ranges over a map: the list go/types extracts from rolling-shutter/app on this run
   (Generated/MapRanges.v) equals the list of modelled sites. A new map iteration in the source
   breaks this obligation. *)
Theorem C09_all_map_iterations_modelled : Generated.MapRanges.gen_map_range_sites = modelled_map_range_sites.
Proof. exact map_range_sites_are_modelled. Qed.
Print Assumptions C09_all_map_iterations_modelled.

(* Voting.Outcome never indexes Candidates out of range. *)
Theorem C09_outcome_never_panics : forall (T : Type) e (v : voting T) req, outcome e v req <> Some None.
Proof. exact @outcome_never_panics. Qed.
Print Assumptions C09_outcome_never_panics.

(* The code before the repair (fix: commit in /repo, see known_findings/C09.json): the first
   qualifying entry of the tally map in enumeration order - two enumerations of the same map
   give different outcomes (two candidates with two votes each, threshold two). *)
Theorem C09_legacy_outcome_refuted :
  exists (enum1 enum2 : list (nat * nat)) (req : Z),
    Permutation enum1 enum2 /\
    legacy_outcome_index enum1 req <> legacy_outcome_index enum2 req.
Proof. exact legacy_outcome_index_order_dependent. Qed.
Print Assumptions C09_legacy_outcome_refuted.

(* Non-vacuity: a genesis with four keypers and threshold two exists, and a history on it in
   which a config vote passes (events) and validator updates are computed. *)
Definition ex_k (i : N) : bytes := repeat i 20.
Definition ex_genesis : genesis :=
  mkGenesis [ex_k 1; ex_k 2; ex_k 3; ex_k 4] 2 0 false 0 [(repeat 7%N 32, 10%Z)] (hx "63") false.
Definition ex_vote (i n : N) : call :=
  CDeliver (Tx (ex_k i) (hx "63") n (PBatchConfig 0 [ex_k 1; ex_k 2; ex_k 3; ex_k 4] 2 1)).
Example C09_replicas_agree_nonvacuous :
  exists s0, init_chain ex_genesis = Some s0 /\
  snd (run enum_id s0 [CBegin 1; ex_vote 1 1; ex_vote 2 2; CEnd 1; CCommit]) =
  [RBegin [EvBatchConfig 0 2 [ex_k 1; ex_k 2; ex_k 3; ex_k 4] 0];
   RDeliver 0 [];
   RDeliver 0 [EvBatchConfig 0 2 [ex_k 1; ex_k 2; ex_k 3; ex_k 4] 1; EvEonStarted 1 0 1];
   REnd [] []; RCommit].
Proof. eexists. split; [reflexivity|]. vm_compute. reflexivity. Qed.

(* On the code as translated on this run (Generated/PowermapFuns.v, from app/powermap.go):
   Powermap.ValidatorUpdates returns the same list for every iteration order of the map, and
   DiffPowermaps is the model's function for every pair of iteration orders (whose independence
   of the orders is C12_diff_apply). *)
From Verif Require Import Generated.PowermapFuns Proofs.PowermapFuns.
Theorem C09_translated_validator_updates_order_free :
  (forall pm e1 e2, NoDup (map fst e1) -> Permutation e1 e2 ->
                    gen_validator_updates pm e1 = gen_validator_updates pm e2) /\
  (forall oldpm newpm oe ne, gen_diff_powermaps oldpm newpm oe ne = diff_powermaps_enum oldpm newpm oe ne).
Proof. split; [exact gen_validator_updates_order_free|exact gen_diff_agrees]. Qed.
Print Assumptions C09_translated_validator_updates_order_free.

(* Each node answers its own mempool's CheckTx calls between the blocks; the property is about
   the block sequence. Whatever CheckTx calls are interleaved, the calls that execute blocks
   (BeginBlock, DeliverTx, EndBlock, Commit) are answered alike and leave the same replicated
   state [eqc] = every component of the state except the CheckTx bookkeeping. *)
From Verif Require Import Generated.AppFrame Proofs.AppFrame.
Theorem C09_mempool_irrelevant : forall e cs a b, eqc a b ->
  eqc (fst (run e a cs)) (fst (run e b (drop_checks cs))) /\
  block_responses cs (snd (run e a cs)) = snd (run e b (drop_checks cs)).
Proof. exact mempool_irrelevant. Qed.
Print Assumptions C09_mempool_irrelevant.

Example C09_mempool_irrelevant_nonvacuous :
  exists s0, init_chain ex_genesis = Some s0 /\
  let cs := [CBegin 1; CCheck (Tx (ex_k 2) (hx "63") 2 (PBlockSeen 1)); ex_vote 1 1;
             CCheck (Tx (ex_k 9) (hx "63") 5 PNone); ex_vote 2 2; CEnd 1; CCommit] in
  block_responses cs (snd (run enum_id s0 cs)) = snd (run enum_id s0 (drop_checks cs)) /\
  List.length (drop_checks cs) = 5%nat /\ chk_nonces (fst (run enum_id s0 [CBegin 1; CCheck (Tx (ex_k 2) (hx "63") 2 (PBlockSeen 1))])) <> [].
Proof. eexists. split; [reflexivity|]. vm_compute. repeat split; discriminate. Qed.

(* On the source as read on this run (Generated/AppFrame.v, go/types over the app package):
   CheckTx can write only the CheckTx bookkeeping, Commit only that and the node-local save,
   Info / Query / BeginBlock / PrepareProposal / ProcessProposal nothing at all (transitively
   inside the package), and no package-level variable is written after initialisation - the
   source-side counterpart of check_tx_frame / commit_frame and of "nothing but the genesis and
   the calls enters". *)
Theorem C09_translated_frame_agrees :
  gen_entry_writes = model_entry_writes /\ never_written gen_package_var_writes = true /\
  (forall s t, eqc (fst (check_tx s t)) s) /\ (forall s, eqc (commit s) s).
Proof.
  destruct frame_tables_agree as [H1 H2].
  split; [exact H1|split; [exact H2|split; [exact check_tx_frame|exact commit_frame]]].
Qed.
Print Assumptions C09_translated_frame_agrees.

(* On the code as translated on this run (Generated/VotingFuns.v, from app/voting.go):
   Voting.outcomeIndex and Voting.Outcome answer the same for every iteration order of the
   Votes map - the place where replicas diverged before the fix: commit (the translator
   refuses a range over the local tally map, and an early return inside a range over Votes
   would break these equalities) - they are the model's functions, and Outcome never indexes
   Candidates out of range. *)
From Verif Require Import Generated.VotingFuns Proofs.VotingFuns.
Theorem C09_translated_outcome_order_free :
  (forall (T : Type) (v : voting T) e1 e2 req, Permutation e1 e2 ->
     gen_outcome_index v e1 req = gen_outcome_index v e2 req /\ gen_outcome v e1 req = gen_outcome v e2 req) /\
  (forall (T : Type) (enum : enumerator) (v : voting T) req,
     gen_outcome_index v (enum _ (v_votes v)) req = outcome_index enum v req /\
     gen_outcome v (enum _ (v_votes v)) req = outcome enum v req) /\
  (forall (T : Type) (v : voting T) e req, gen_outcome v e req <> Some None).
Proof.
  split; [|split].
  - intros T v e1 e2 req Hp. split; [apply gen_outcome_index_order_free|apply gen_outcome_order_free]; exact Hp.
  - intros T enum v req. split; [apply gen_outcome_index_agrees|apply gen_outcome_agrees].
  - intros T v e req. apply gen_outcome_no_panic.
Qed.
Print Assumptions C09_translated_outcome_order_free.
