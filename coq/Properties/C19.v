(* C19 - Gnosis keypers agree on each slot's identities and on the transaction pointer.
   This file only states the theorems; the model is Model/GnosisSlot.v, the proofs are in
   Proofs/GnosisSlotSort.v, Proofs/GnosisSlot.v and Proofs/GnosisSlotHistory.v.

   Reading guide.  [identities cfg q slot e p] is getDecryptionIdentityPreimages (queue q, eon e,
   pointer p); [trigger_decryption] is triggerDecryption; [step]/[run] execute histories of
   operations (processNewSlot, received keys = DecryptionKeysHandler.HandleMessage, sent keys =
   MessagingMiddleware, restart, queue growth).  [spec_select L l] is the property's selection on
   the candidate rows l in queue order (first row, then rows while the cumulative gas stays
   within L); C19_selection_is_longest_prefix says so in the property's words.
   [window_rows q e p lim] describes what the SQL query returns: the rows of the eon with
   p <= index < p + lim in queue order, where lim = EncryptedGasLimit / MinGasPerTransaction + 1.

   Status.  The code selects from the query window, not from the whole queue.  For queues without
   index gaps whose gas limits are at least MinGasPerTransaction the window is invisible and the
   property's wording holds (C19_selection_spec_partial).  Otherwise it can fail:
   C19_selection_literal_refuted (known finding C19:selection-cut-by-row-window).  All keypers
   still agree (C19_two_keypers_identical, C19_two_keypers_any_sort hold for every input). *)
From Coq Require Import List NArith ZArith Bool Permutation Sorted Lia.
From Verif Require Import Lib.Bytes Model.GnosisSlot Proofs.GnosisSlotSort Proofs.GnosisSlot
  Proofs.GnosisSlotHistory.
Import ListNotations.
Open Scope Z_scope.

(* What the code requests, for every queue, pointer, slot and configuration: the sorted
   permutation of the slot identity and the identities of the property's selection applied to
   the rows in the query window - under hypothesis 1 (the uint64 gas counter does not wrap:
   limit below 2^63, or sum of the window's gas limits below 2^64).  If the sender of a selected
   row does not decode, the request fails instead. *)
Theorem C19_selection_within_window : forall cfg q slot e p,
  queue_wf q -> cfg_ok cfg -> p + row_limit cfg <= max_i64 ->
  exists cands,
    window_rows q e p (row_limit cfg) cands /\
    (no_wrap (cfg_gas_limit cfg) cands ->
     match all_ids (spec_select (cfg_gas_limit cfg) cands) with
     | Some txids =>
         exists ids, identities cfg q slot e p = IdsOk ids /\ Sorted ble ids /\
                     Permutation ids (slot_identity slot :: txids)
     | None => identities cfg q slot e p = IdsErr ESender
     end).
Proof. exact selection_within_window. Qed.
Print Assumptions C19_selection_within_window.

(* [spec_select] in the words of the property: a prefix of the candidates, at least one if there
   is one, within the limit unless it is the single forced transaction, not extendable. *)
Theorem C19_selection_is_longest_prefix : forall L l,
  gas_ok l -> 0 <= L ->
  let n := length (spec_select L l) in
  spec_select L l = firstn n l /\
  (l <> [] -> (1 <= n)%nat) /\
  (sum_gas (spec_select L l) <= L \/ n = 1%nat) /\
  ((n < length l)%nat -> sum_gas (firstn (S n) l) > L).
Proof. exact spec_select_longest_prefix. Qed.
Print Assumptions C19_selection_is_longest_prefix.

(* The property's wording - selection from the whole queue from the pointer on ([all]) - proved
   for the complement of the known failing class.  PARTIAL: what is missing are queues with an
   index gap between the pointer and the last selected transaction ([gap_free]) and queues that
   hold gas limits below MinGasPerTransaction; for those see C19_selection_literal_refuted. *)
Theorem C19_selection_spec_partial : forall cfg q slot e p all,
  queue_wf q -> cfg_ok cfg -> cfg_gas_limit cfg / cfg_min_gas cfg + 1 < two64 ->
  p + row_limit cfg <= max_i64 ->
  queue_from q e p all -> gap_free p all ->
  Forall (fun r => cfg_min_gas cfg <= q_gas r) all ->
  no_wrap (cfg_gas_limit cfg) all ->
  match all_ids (spec_select (cfg_gas_limit cfg) all) with
  | Some txids =>
      exists ids, identities cfg q slot e p = IdsOk ids /\ Sorted ble ids /\
                  Permutation ids (slot_identity slot :: txids)
  | None => identities cfg q slot e p = IdsErr ESender
  end.
Proof. exact selection_synced_queue. Qed.
Print Assumptions C19_selection_spec_partial.

(* The literal statement fails on the faithful model: a gap-free queue of three transactions
   with gas limit 0 under limit 10 / minimum 10 (query window of 2 rows): all three fit, two are
   requested.  Both stated hypotheses (no wrap, no small sender) hold for the witness. *)
Theorem C19_selection_literal_refuted :
  exists cfg q slot e p all txids ids,
    queue_wf q /\ cfg_ok cfg /\ p + row_limit cfg <= max_i64 /\
    queue_from q e p all /\ gap_free p all /\
    no_wrap (cfg_gas_limit cfg) all /\ Forall not_small_sender all /\
    all_ids (spec_select (cfg_gas_limit cfg) all) = Some txids /\
    identities cfg q slot e p = IdsOk ids /\
    ~ Permutation ids (slot_identity slot :: txids).
Proof. exact selection_literal_refuted. Qed.
Print Assumptions C19_selection_literal_refuted.

(* Hypothesis 2 (environment): no selected transaction has an all-zero prefix together with a
   sender address below 2^64.  Then the first requested identity is the slot's own. *)
Theorem C19_slot_identity_first : forall cfg q slot e p ids,
  queue_wf q -> cfg_ok cfg -> p + row_limit cfg <= max_i64 ->
  (forall cands, window_rows q e p (row_limit cfg) cands ->
     no_wrap (cfg_gas_limit cfg) cands /\
     forall r, In r (spec_select (cfg_gas_limit cfg) cands) -> not_small_sender r) ->
  identities cfg q slot e p = IdsOk ids ->
  hd_error ids = Some (slot_identity slot).
Proof. exact slot_identity_first. Qed.
Print Assumptions C19_slot_identity_first.

(* Two keypers whose databases hold the same rows (in any physical order), the same pointer
   rows and the same eon for the block produce the same result of triggerDecryption: the same
   trigger (block number, identity list) or the same error class. *)
Theorem C19_two_keypers_identical : forall cfg st1 st2 slot block ks,
  Permutation (st_queue st1) (st_queue st2) ->
  NoDup (map qkey (st_queue st1)) ->
  eon_for_block (st_eons st1) block = eon_for_block (st_eons st2) block ->
  (forall e, get_ptr (st_ptrs st1) e = get_ptr (st_ptrs st2) e) ->
  snd (trigger_decryption cfg st1 slot block ks) = snd (trigger_decryption cfg st2 slot block ks).
Proof. exact trigger_row_order_independent. Qed.
Print Assumptions C19_two_keypers_identical.

(* ... whatever sorting algorithm each of them runs (Go's sort.Slice is not stable): any two
   sorted permutations of the selected identities are the same list, the model's. *)
Theorem C19_two_keypers_any_sort : forall cfg q1 q2 slot e p l1 l2 out1 out2,
  Permutation q1 q2 -> NoDup (map qkey q1) ->
  identities_unsorted cfg q1 slot e p = IdsOk l1 ->
  identities_unsorted cfg q2 slot e p = IdsOk l2 ->
  Permutation out1 l1 -> Sorted ble out1 ->
  Permutation out2 l2 -> Sorted ble out2 ->
  out1 = out2 /\ identities cfg q1 slot e p = IdsOk out1.
Proof. exact any_sort_same. Qed.
Print Assumptions C19_two_keypers_any_sort.

(* After a keys message releasing k identities at pointer p is processed (received, passed
   through the middleware, or self-produced and completed from the trigger in flight), the
   pointer row is (p + k - 1, age 0). *)
Theorem C19_pointer_after_keys : forall cfg st o e p k,
  sets_pointer st o e p k ->
  0 <= p < two63 -> 0 <= p + k - 1 < two63 ->
  get_ptr (st_ptrs (fst (step cfg st o))) e = Some (mkP e (p + k - 1) (Some 0)).
Proof. exact pointer_after_keys. Qed.
Print Assumptions C19_pointer_after_keys.

(* A trigger that is sent starts at [request_start]: 0 for a missing row, the queue length if the
   age is unknown or exceeds the maximum, else the stored value; that pointer is recorded in the
   trigger row together with the requested identities. *)
Theorem C19_outdated_starts_at_queue_length : forall cfg st slot block ks b ids,
  snd (trigger_decryption cfg st slot block ks) = OTrig b ids ->
  exists er p,
    eon_for_block (st_eons st) block = Some er /\
    match get_ptr (st_ptrs st) (e_kci er) with
    | None => Some 0
    | Some r =>
        match p_age r with
        | None => queue_length (st_queue st) (e_kci er)
        | Some a => if a >? to_i64 (cfg_max_age cfg) then queue_length (st_queue st) (e_kci er)
                    else Some (p_value r)
        end
    end = Some p /\
    identities cfg (st_queue st) slot ks p = IdsOk ids /\
    get_trig (st_trigs (fst (trigger_decryption cfg st slot block ks))) (e_kci er)
      = Some (mkT (e_kci er) (to_i64 slot) p (concat ids)) /\
    b = u64 block.
Proof. exact trigger_uses_request_start. Qed.
Print Assumptions C19_outdated_starts_at_queue_length.

(* the queue length is the next index of the eon's queue (largest index + 1, 0 if empty) *)
Theorem C19_queue_length_is_next_index : forall q e n,
  queue_length q e = Some n ->
  (forall r, In r q -> q_eon r = e -> q_index r < n) /\
  (n = 0 \/ exists r, In r q /\ q_eon r = e /\ q_index r = n - 1).
Proof. exact queue_length_spec. Qed.
Print Assumptions C19_queue_length_is_next_index.

(* Over every history: after a keys message for eon e (at pointer p, k keys), and any
   interleaving h2 of slots, triggers, keys messages for other eons, restarts, queue growth and
   signature arrivals, the pointer row of e is (p + k - 1, age) where the age is the number of
   triggered slots for e since, or unknown if a restart happened since. *)
Theorem C19_history_invariant : forall cfg st0 h1 kop h2 e p k,
  sets_pointer (fst (run cfg st0 h1)) kop e p k ->
  0 <= p < two63 -> 0 <= p + k - 1 < two63 ->
  forallb (fun o => negb (is_keys_for e o)) h2 = true ->
  Z.of_nat (length h2) < max_i64 ->
  let st1 := fst (run cfg st0 (h1 ++ [kop])) in
  get_ptr (st_ptrs (fst (run cfg st0 (h1 ++ kop :: h2)))) e =
  Some (mkP e (p + k - 1)
            (if existsb is_restart h2 then None else Some (count_ticks cfg st1 h2 e))).
Proof. exact history_invariant. Qed.
Print Assumptions C19_history_invariant.

(* ... and before the first keys message for e: a row that the history itself creates has the
   fallback value 0. *)
Theorem C19_history_before_first_keys : forall cfg ops st e,
  forallb (fun o => negb (is_keys_for e o)) ops = true ->
  Z.of_nat (length ops) < max_i64 ->
  get_ptr (st_ptrs st) e = None ->
  get_ptr (st_ptrs (fst (run cfg st ops))) e = None \/
  exists a, get_ptr (st_ptrs (fst (run cfg st ops))) e = Some (mkP e 0 a).
Proof. exact history_before_keys. Qed.
Print Assumptions C19_history_before_first_keys.

(* ---------- the hypotheses are satisfiable: concrete, non-trivial instances --------------- *)

(* the concrete instances xcfg, xq, xall, xid, xst are defined at the end of Proofs/GnosisSlot.v:
   limit 100, minimum 30 (query window 4 rows); five transactions of gas 40 at indices 0..4 *)

Example C19_selection_within_window_nonvacuous :
  queue_wf xq /\ cfg_ok xcfg /\ 1 + row_limit xcfg <= max_i64 /\
  no_wrap (cfg_gas_limit xcfg) xall /\
  identities xcfg xq 7 0 1 = IdsOk [slot_identity 7; xid; xid].
Proof.
  split; [exact xq_wf|]. split; [exact xcfg_ok|]. split; [vm_compute; discriminate|].
  split; [left; vm_compute; reflexivity|]. vm_compute. reflexivity.
Qed.

Example C19_selection_is_longest_prefix_nonvacuous :
  gas_ok xall /\ spec_select 100 xall = [ex_row 1 40; ex_row 2 40].
Proof. split; [repeat constructor; unfold two63; simpl; lia|reflexivity]. Qed.

Example C19_selection_spec_partial_nonvacuous :
  queue_from xq 0 1 xall /\ gap_free 1 xall /\
  Forall (fun r => cfg_min_gas xcfg <= q_gas r) xall /\
  all_ids (spec_select (cfg_gas_limit xcfg) xall) = Some [xid; xid].
Proof.
  split.
  { split.
    - repeat constructor; unfold idx_lt; simpl; lia.
    - intros r. split.
      + intros Hr. simpl in Hr. destruct Hr as [<-|[<-|[<-|[<-|[]]]]]; simpl; intuition lia.
      + intros [Hr [_ Hp]]. simpl in Hr. destruct Hr as [<-|[<-|[<-|[<-|[<-|[]]]]]]; simpl in *; try lia; tauto. }
  split.
  { intros i r Hn. destruct i as [|[|[|[|i]]]]; simpl in Hn; try (injection Hn as <-; simpl; lia).
    destruct i; discriminate. }
  split; [repeat constructor; simpl; lia|reflexivity].
Qed.

Example C19_selection_literal_refuted_nonvacuous :
  identities ex_cfg_small ex_queue_cheap 7 0 0 = IdsOk [slot_identity 7; xid; xid] /\
  spec_select (cfg_gas_limit ex_cfg_small) ex_queue_cheap = ex_queue_cheap.
Proof. split; vm_compute; reflexivity. Qed.

Example C19_slot_identity_first_nonvacuous :
  not_small_sender (ex_row 1 40) /\
  hd_error [slot_identity 7; xid; xid] = Some (slot_identity 7) /\
  bytes_leb (slot_identity 7) xid = true.
Proof. split; [apply ex_not_small|]. split; vm_compute; reflexivity. Qed.

Example C19_two_keypers_identical_nonvacuous :
  Permutation xq (rev xq) /\ NoDup (map qkey xq) /\
  snd (trigger_decryption xcfg xst 7 6 0) = OTrig 6 [slot_identity 7; xid; xid].
Proof.
  split; [apply Permutation_rev|]. split; [apply xq_wf|]. vm_compute. reflexivity.
Qed.

Example C19_two_keypers_any_sort_nonvacuous :
  identities_unsorted xcfg xq 7 0 1 = IdsOk [slot_identity 7; xid; xid] /\
  Sorted ble [slot_identity 7; xid; xid].
Proof.
  split; [vm_compute; reflexivity|]. repeat constructor; vm_compute; reflexivity.
Qed.

(* a history: slot 11 is triggered (2 transactions requested at pointer 0), the keys for it
   arrive, two more slots are triggered *)
Definition xkeys : op := OpKeysRecv 0 11 0 [slot_identity 11; xid; xid] [0] 1.
Definition xh2 : list op := [OpSlot 12 PRegistered; OpSync [ex_row 5 40]; OpSlot 13 PRegistered].

Example C19_pointer_after_keys_nonvacuous :
  sets_pointer xst xkeys 0 0 3 /\
  get_ptr (st_ptrs (fst (step xcfg xst xkeys))) 0 = Some (mkP 0 2 (Some 0)).
Proof. split; [vm_compute; repeat split; reflexivity|vm_compute; reflexivity]. Qed.

Example C19_outdated_starts_at_queue_length_nonvacuous :
  snd (trigger_decryption xcfg (with_ptrs xst [mkP 0 2 (Some 4)]) 7 6 0) = OTrig 6 [slot_identity 7] /\
  queue_length xq 0 = Some 5 /\
  snd (trigger_decryption xcfg (with_ptrs xst [mkP 0 2 (Some 3)]) 7 6 0) = OTrig 6 [slot_identity 7; xid; xid].
Proof. repeat split; vm_compute; reflexivity. Qed.

Example C19_queue_length_is_next_index_nonvacuous :
  queue_length xq 0 = Some 5 /\ queue_length xq 1 = Some 0.
Proof. split; vm_compute; reflexivity. Qed.

Example C19_history_invariant_nonvacuous :
  sets_pointer (fst (run xcfg xst [OpSlot 11 PRegistered])) xkeys 0 0 3 /\
  forallb (fun o => negb (is_keys_for 0 o)) xh2 = true /\
  count_ticks xcfg (fst (run xcfg xst ([OpSlot 11 PRegistered] ++ [xkeys]))) xh2 0 = 2 /\
  get_ptr (st_ptrs (fst (run xcfg xst ([OpSlot 11 PRegistered] ++ xkeys :: xh2)))) 0
    = Some (mkP 0 2 (Some 2)) /\
  snd (run xcfg xst ([OpSlot 11 PRegistered] ++ xkeys :: xh2))
    = [OTrig 6 [slot_identity 11; xid; xid]; OHandled; OTrig 6 [slot_identity 12; xid; xid]; ODone;
       OTrig 6 [slot_identity 13; xid; xid]].
Proof. repeat split; vm_compute; reflexivity. Qed.

Example C19_history_before_first_keys_nonvacuous :
  get_ptr (st_ptrs xst) 0 = None /\
  get_ptr (st_ptrs (fst (run xcfg xst [OpSlot 11 PRegistered; OpSlot 12 PRegistered]))) 0
    = Some (mkP 0 0 (Some 1)).
Proof. split; vm_compute; reflexivity. Qed.

(* The second tie: the decision logic of newslot.go (getDecryptionIdentityPreimages with its
   uint64 row limit and gas counter, the selection loop, the identity constructions, the sort
   comparator, getTxPointer with its age / outdated decision, the guards of
   maybeTriggerDecryption and the order of the calls that follow) and the pointer arithmetic of
   HandleMessage / advanceTxPointer, translated statement by statement from the source on this
   run (Generated/GnosisSlotFuns.v), compute what the model computes. A changed comparison,
   cast, constant or step order breaks this obligation before any case is generated. *)
From Coq Require Import String.
Import List.
From Verif Require Import Generated.GnosisSlotFuns Proofs.GnosisSlotFuns.
Theorem C19_translated_slot_logic_agrees :
  (* getDecryptionIdentityPreimages, with the query as a parameter *)
  (forall cfg q slot e p,
     0 <= cfg_gas_limit cfg -> 0 < cfg_min_gas cfg -> 0 <= slot < two64 ->
     gen_identities (cfg_gas_limit cfg) (cfg_min_gas cfg) (select_events q) slot e p =
     result_of (identities cfg q slot e p)) /\
  (* its loop: [taken] of the model is len(identityPreimages) > 1 *)
  (forall L evs gas pre, (1 <= length pre)%nat ->
     gen_sel_loop L gas pre evs =
     option_map (fun l => pre ++ l) (sel_loop L gas (1 <? Z.of_nat (length pre)) evs)) /\
  (forall slot, 0 <= slot < two64 -> gen_slot_identity slot = slot_identity slot) /\
  (forall r, gen_event_identity r = event_identity r) /\
  (forall a b, gen_identity_less a b = bytes_ltb a b) /\
  (forall l, gen_sort_identities l = sort_ids l) /\
  (* getTxPointer: result and the row it writes *)
  (forall maxage q ptrs e,
     let row := get_ptr ptrs e in
     gen_get_tx_pointer e maxage (row_missing row) false (row_value row) (row_age row) (row_age_valid row) false
                        (queue_length q e)
     = match snd (get_tx_pointer maxage q ptrs e) with
       | None => None
       | Some p => Some (p, if row_missing row then [(e, 0, true, 0)] else [])
       end
     /\ fst (get_tx_pointer maxage q ptrs e) = (if row_missing row then set_ptr ptrs e 0 (Some 0) else ptrs)) /\
  (* maybeTriggerDecryption: new_slot is its guards followed by its calls in this order *)
  (forall cfg st slot pr,
     (forall ss sb, st_synced st = Some (ss, sb) -> 0 <= sb /\ sb + 1 < two63) ->
     new_slot cfg st slot pr =
     if gen_slot_seen (st_latest st) slot then (st, ONil)
     else
       let st1 := with_latest st (Some slot) in
       let '(sslot, sblock) := match st_synced st with Some x => x | None => (0, 0) end in
       if gen_slot_already_synced sslot slot then (st1, OErr EAlreadyProcessed)
       else
         let next := gen_next_block sblock in
         match kset_for_block (st_ksets st) next with
         | None => (st1, ONil)
         | Some ks =>
             if negb (k_member ks) then (st1, ONil)
             else match pr with
                  | PError => (st1, OErr EProposer)
                  | PNotRegistered => (st1, ONil)
                  | PRegistered =>
                      match increment_age (st_ptrs st) (k_kci ks) with
                      | None => (st1, OErr EIncrementAge)
                      | Some ptrs => trigger_decryption cfg (with_ptrs st1 ptrs) slot next (k_kci ks)
                      end
                  end
         end) /\
  gen_maybe_trigger_calls =
    ["GetTransactionSubmittedEventsSyncedUntil()"%string; "GetKeyperSet(nextBlock)"%string;
     "Contains(kpr.config.GetAddress())"%string; "isProposerRegistered(slot, uint64(nextBlock))"%string;
     "IncrementTxPointerAge(keyperSet.KeyperConfigIndex)"%string;
     "triggerDecryption(slot, nextBlock, &keyperSet)"%string] /\
  (* the pointer after a keys message *)
  (forall eon txp nkeys,
     gen_handler_set_pointer eon txp nkeys = (to_i64 eon, 0, true, new_pointer txp nkeys) /\
     gen_middleware_set_pointer eon txp nkeys = (to_i64 eon, 0, true, new_pointer txp nkeys)).
Proof.
  split; [exact gen_identities_agrees|]. split; [exact gen_sel_loop_agrees|].
  split; [exact gen_slot_identity_agrees|]. split; [exact gen_event_identity_agrees|].
  split; [exact gen_identity_less_is|]. split; [exact gen_sort_identities_agrees|].
  split; [exact gen_get_tx_pointer_agrees|]. split; [exact new_slot_via_generated|].
  split; [exact gen_maybe_trigger_calls_ok|].
  intros eon txp nkeys. split; [apply gen_handler_set_pointer_agrees|apply gen_middleware_set_pointer_agrees].
Qed.
Print Assumptions C19_translated_slot_logic_agrees.

Example C19_translated_slot_logic_agrees_nonvacuous :
  gen_identities (cfg_gas_limit xcfg) (cfg_min_gas xcfg) (select_events xq) 7 0 1
    = GenOk [slot_identity 7; xid; xid] /\
  gen_get_tx_pointer 0 3 false false 2 4 true false (queue_length xq 0) = Some (5, []) /\
  gen_get_tx_pointer 0 3 true false 0 0 false false None = Some (0, [(0, 0, true, 0)]) /\
  gen_handler_set_pointer 0 2 3 = (0, 0, true, 4).
Proof. repeat split; vm_compute; reflexivity. Qed.
