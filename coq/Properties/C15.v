(* C15 - synced contract events equal the canonical chain's, through reorgs and failures.
   This file only states the theorems; proofs are in Proofs/Syncer*.v. *)
From Coq Require Import List NArith ZArith Bool Lia.
From Verif Require Import Lib.Bytes Model.Syncer Proofs.SyncerRanges.
Import ListNotations.
Open Scope Z_scope.

(* GetSyncRanges: for every start >= 0, positive range limit and end + limit < 2^64 the Go
   loop terminates without any uint64 wrap and returns a contiguous, gap-free cover of
   [start, end] by pieces of at most the limit (all but the last of exactly the limit); it is
   empty exactly when start > end. *)
Theorem C15_sync_ranges_cover : forall s e r,
  0 <= s -> 0 < r -> e + r < two64 ->
  exists rs, get_sync_ranges s e r = RangesDone rs /\ ranges_cover s e r rs.
Proof. exact sync_ranges_cover. Qed.
Print Assumptions C15_sync_ranges_cover.

Example C15_sync_ranges_cover_nonvacuous :
  get_sync_ranges 1 21010 10000 = RangesDone [(1, 10000); (10001, 20000); (20001, 21010)] /\
  ranges_cover 1 21010 10000 [(1, 10000); (10001, 20000); (20001, 21010)] /\
  get_sync_ranges 5 4 3 = RangesDone [].
Proof. split; [vm_compute; reflexivity|]. split; [|vm_compute; reflexivity]. simpl. repeat split; try lia; intros H; congruence. Qed.
