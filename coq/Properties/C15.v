(* C15 - synced contract events equal the canonical chain's, through reorgs and failures.
   This file only states the theorems; proofs are in Proofs/Syncer*.v.

   Vocabulary (Model/Syncer.v): a view is the node's canonical branch at one Sync call (list of
   blocks from genesis, each with its hash and its decoded contract events); [sync fl nd st rpc
   db] is one Sync call under two fault streams (one entry per RPC call, one per database
   operation); [grun fl history] runs a history of (view, faults) from the empty database and
   remembers, as a ghost, the view of the last Sync that wrote; [heads_ok] is the property's
   assumption on the observed heads (forks at most the assumed depth below the synced block,
   first head of a fork at most one past the synced block; the recorded position counts as the
   synced block also while its hash is empty after a rollback whose resync failed); [universe_ok] says the views are
   non-empty, block hashes are non-empty and identify a block with its ancestors, a key is
   registered at most once per branch, and head + range limit < 2^63. *)
From Coq Require Import List NArith ZArith Bool Lia String.
From Verif Require Import Lib.Bytes Model.Syncer Generated.SyncConsts Generated.SyncFuns
     Proofs.SyncFuns Proofs.SyncerRanges Proofs.SyncerLemmas Proofs.Syncer Proofs.SyncerInstances.
From Verif Require Import Model.TriggerSync Proofs.TriggerSyncLemmas Proofs.TriggerSync.
Import ListNotations.
Open Scope string_scope.
Open Scope list_scope.
Open Scope Z_scope.

(* GetSyncRanges: for every start >= 0, positive range limit and end + limit < 2^64 the Go
   loop terminates without any uint64 wrap and returns a contiguous, gap-free cover of
   [start, end] by pieces of at most the limit (all but the last of exactly the limit); it is
   empty exactly when start > end. *)
Theorem C15_sync_ranges_cover : forall s e r,
  0 <= s -> 0 < r -> e + r < two64 ->
  exists rs, get_sync_ranges s e r = RangesDone rs /\ ranges_cover s e r rs.
Proof. exact sync_ranges_cover. Qed.
Print Assumptions C15_sync_ranges_cover.

Example C15_sync_ranges_cover_nonvacuous :
  get_sync_ranges 1 21010 10000 = RangesDone [(1, 10000); (10001, 20000); (20001, 21010)] /\
  ranges_cover 1 21010 10000 [(1, 10000); (10001, 20000); (20001, 21010)] /\
  get_sync_ranges 5 4 3 = RangesDone [].
Proof. split; [vm_compute; reflexivity|]. split; [|vm_compute; reflexivity]. simpl. repeat split; try lia; intros H; congruence. Qed.

(* The model's GetSyncRanges is the function translated statement by statement from
   medley/syncranges.go (Generated/SyncFuns.v; the Go loop as a fuelled recursion that accumulates
   the result, with the uint64 wraps and the index assignment written out): equal outcome for
   every fuel and every input, wrapping or not. *)
Theorem C15_generated_sync_ranges : forall fuel s e r,
  gen_get_sync_ranges fuel s e r =
  match sync_ranges_loop fuel s e r with
  | RangesDone rs => GenRangesDone rs
  | RangesOutOfFuel => GenRangesOutOfFuel
  end.
Proof. exact generated_sync_ranges. Qed.
Print Assumptions C15_generated_sync_ranges.

Example C15_generated_sync_ranges_nonvacuous :
  gen_get_sync_ranges 5 1 21010 10000 = GenRangesDone [(1, 10000); (10001, 20000); (20001, 21010)] /\
  gen_get_sync_ranges 2 1 21010 10000 = GenRangesOutOfFuel.
Proof. vm_compute. split; reflexivity. Qed.

(* The model's reorg test is the translated getNumReorgedBlocks (registry, sequencer; the
   constant AssumedReorgDepth inlined by the translator) and calculateReorgDepth (multi-event
   syncer), with bytes.Equal(header.ParentHash, status.BlockHash) as a boolean argument and
   len(status.BlockHash) as an integer argument (unused by the functions as they are: an empty
   stored hash is a parent mismatch like any other), for
   all block numbers within int64 (the Go int64 conversions and the + 1 are then exact). *)
Theorem C15_generated_num_reorged :
  forall (E : Type) (fl : flavour) (k : Z) (h : bytes) (nd : node E),
    0 <= k < 9223372036854775807 -> - 9223372036854775808 <= n_number nd < 9223372036854775808 ->
    (fl_depth fl = registry_assumed_reorg_depth ->
     num_reorged fl k h nd = gen_registry_num_reorged (n_number nd) k (bytes_eqb (n_parent nd) h) (Z.of_nat (List.length h))) /\
    (fl_depth fl = sequencer_assumed_reorg_depth ->
     num_reorged fl k h nd = gen_sequencer_num_reorged (n_number nd) k (bytes_eqb (n_parent nd) h) (Z.of_nat (List.length h))) /\
    (- 9223372036854775808 <= fl_depth fl < 9223372036854775808 ->
     num_reorged fl k h nd = gen_multi_reorg_depth (n_number nd) k (bytes_eqb (n_parent nd) h) (Z.of_nat (List.length h)) (fl_depth fl)).
Proof.
  intros E fl k h nd Hk Hn. split; [|split]; intros Hd.
  - apply generated_registry_num_reorged; assumption.
  - apply generated_sequencer_num_reorged; assumption.
  - apply generated_reorg_depth; assumption.
Qed.
Print Assumptions C15_generated_num_reorged.

Example C15_generated_num_reorged_nonvacuous :
  gen_registry_num_reorged 26 25 false 32 = 10 /\ gen_registry_num_reorged 8 7 false 0 = 7 /\
  gen_registry_num_reorged 26 25 true 32 = 0 /\ gen_multi_reorg_depth 27 25 false 32 3 = 0 /\ gen_multi_reorg_depth 26 25 false 0 3 = 3.
Proof. vm_compute. repeat split. Qed.

(* The sync position and the events it covers change together.  For every syncer flavour
   (including the legacy one), every node, every state and all fault streams: the database
   states written by one Sync form a chain in which each transition is either the commit of
   one range - the status becomes (end, hash of end) and exactly the admissible events of
   [start, end] are upserted, in the same transition; on flavours that return the
   transaction's error the range starts right after the previous position - or a rollback
   (status and deletions together); and the final state is the last one written. *)
Theorem C15_atomic_pair :
  forall (E K : Type) (key : E -> K) (key_eqb : K -> K -> bool) (admissible : E -> bool)
         (merge : pev E -> pev E -> pev E) (fl : flavour) (nd : node E) (st : state E) (rpc db : list fault),
    0 < fl_range fl -> 0 <= fl_first_start fl -> n_number nd + fl_range fl < two64 ->
    (forall k h, st_status st = Some (k, h) -> 0 <= k) ->
    let '(st', _, tr) := sync key key_eqb admissible merge fl nd st rpc db in
    chain_justified key key_eqb admissible merge fl nd st tr /\ st' = last tr st.
Proof. exact atomic_pair. Qed.
Print Assumptions C15_atomic_pair.

Example C15_atomic_pair_nonvacuous :
  (* two ranges are committed, the third transaction loses its connection after the commit *)
  let '(st', r, tr) := registry_sync (d8_flavour false) (node_of_view d8_view) init_state [] [NoFault; NoFault; NoFault; NoFault; FailApplied] in
  r = Err /\ List.length tr = 3%nat /\ st_status st' = Some (5, hx "05") /\ List.length (st_rows st') = 1%nat.
Proof. vm_compute. repeat split. Qed.

(* Exactness.  For every flavour that returns the error of its transaction (the multi-event
   syncer; the registry and sequencer syncers since the D8 fix), every history of views and
   fault streams that satisfies the property's assumptions: whenever the recorded position
   (k, h) lies on the current view (the block numbered k of the view has hash h), the table is
   exactly the list of the view's admissible events of the blocks [sync start, k], in chain
   order - none missing, none from abandoned blocks, none duplicated.  The flavour must also clamp
   the start of a sync to the sync start (all three syncers since the D9 fixes); on the unclamped
   legacy flavour the statement is false (C15_exact_when_canonical_legacy_unclamped_refuted). *)
Theorem C15_exact_when_canonical :
  forall (E K : Type) (key : E -> K) (key_eqb : K -> K -> bool) (admissible : E -> bool)
         (merge : pev E -> pev E -> pev E),
    (forall a b, key_eqb a b = true <-> a = b) ->
  forall fl : flavour,
    fl_swallow fl = false -> fl_unclamped fl = false -> 0 < fl_range fl -> 0 <= fl_depth fl -> 0 <= fl_first_start fl ->
  forall (inputs : list (sync_input E)) (v : view E) (faults : list fault * list fault),
    let history := inputs ++ [(v, faults)] in
    universe_ok key admissible fl (map fst history) ->
    heads_ok key key_eqb admissible merge fl ginit history ->
    forall k h b,
      st_status (g_st (grun key key_eqb admissible merge fl history)) = Some (k, h) ->
      block_at v k = Some b -> bk_hash b = h ->
      st_rows (g_st (grun key key_eqb admissible merge fl history)) = rows_of admissible v (fl_first_start fl) k.
Proof. exact exact_when_canonical. Qed.
Print Assumptions C15_exact_when_canonical.

(* instance: the multi-event syncer's registration table (event_trigger_registered_event), for
   every configured depth and range limit; "nothing synced" means synced until
   SyncStartBlockNumber, so the first block fetched is SyncStartBlockNumber + 1 *)
Theorem C15_exact_when_canonical_multi :
  forall sync_start depth range : Z, 0 <= sync_start -> 0 <= depth -> 0 < range ->
  forall (inputs : list (sync_input uev)) (v : view uev) (faults : list fault * list fault),
    let fl := multi_flavour sync_start depth range in
    let history := inputs ++ [(v, faults)] in
    universe_ok trigger_key trigger_admissible fl (map fst history) ->
    heads_ok trigger_key ukey_eqb trigger_admissible trigger_merge fl ginit history ->
    forall k h b,
      st_status (g_st (grun trigger_key ukey_eqb trigger_admissible trigger_merge fl history)) = Some (k, h) ->
      block_at v k = Some b -> bk_hash b = h ->
      st_rows (g_st (grun trigger_key ukey_eqb trigger_admissible trigger_merge fl history))
      = rows_of trigger_admissible v (sync_start + 1) k.
Proof.
  intros sync_start depth range Hs Hd Hr inputs v faults.
  apply (exact_when_canonical uev ukey trigger_key ukey_eqb trigger_admissible trigger_merge ukey_eqb_spec
           (multi_flavour sync_start depth range)); simpl; try reflexivity; lia.
Qed.
Print Assumptions C15_exact_when_canonical_multi.

(* the same for the multi-event syncer as the keyper runs it, with BOTH processors (registration
   processor and trigger processor, Model/TriggerSync.v: extra RPC calls and an extra database
   read per range, fired rows written in the same transaction, cascade on rollback), for every
   matcher, every iteration order of the processor map and all fault streams.  No D10 exclusion is
   needed for the registration table (and, since the D9 fixes, no exclusion at all). *)
Theorem C15_exact_when_canonical_multi_both_processors :
  forall (LogT : Type) (match_log : bytes -> LogT -> bool) (fl : flavour),
    0 < fl_range fl -> 0 <= fl_depth fl -> 0 <= fl_first_start fl -> fl_unclamped fl = false ->
  forall (ops : list (top LogT)) (v : view (titem LogT)) (orders : list bool) (rpc db : list fault),
    let history := ops ++ [TSync v orders rpc db] in
    tuniverse_ok fl (top_views history) -> theads_ok match_log fl tginit history ->
    let st := tg_st (tgrun match_log fl history) in
    forall k h b, st_status (ts_core st) = Some (k, h) -> block_at v k = Some b -> bk_hash b = h ->
      st_rows (ts_core st) = rows_of t_admissible v (fl_first_start fl) k.
Proof. exact registrations_exact. Qed.
Print Assumptions C15_exact_when_canonical_multi_both_processors.

(* instance: the registry syncer (identity_registered_event) as repaired (D8 fix), with the
   repository's constants *)
Theorem C15_exact_when_canonical_registry :
  forall sync_start : Z, 0 <= sync_start ->
  forall (inputs : list (sync_input uev)) (v : view uev) (faults : list fault * list fault),
    let fl := registry_flavour sync_start registry_assumed_reorg_depth registry_max_request_block_range false in
    let history := inputs ++ [(v, faults)] in
    universe_ok registry_key registry_admissible fl (map fst history) ->
    heads_ok registry_key ukey_eqb registry_admissible registry_merge fl ginit history ->
    forall k h b,
      st_status (g_st (grun registry_key ukey_eqb registry_admissible registry_merge fl history)) = Some (k, h) ->
      block_at v k = Some b -> bk_hash b = h ->
      st_rows (g_st (grun registry_key ukey_eqb registry_admissible registry_merge fl history))
      = rows_of registry_admissible v sync_start k.
Proof.
  intros sync_start Hs inputs v faults.
  apply (exact_when_canonical uev ukey registry_key ukey_eqb registry_admissible registry_merge ukey_eqb_spec
           (registry_flavour sync_start registry_assumed_reorg_depth registry_max_request_block_range false));
    simpl; try reflexivity; try exact Hs; vm_compute; congruence.
Qed.
Print Assumptions C15_exact_when_canonical_registry.

(* instance: the Gnosis sequencer syncer (transaction_submitted_event) as repaired (D8 fix) *)
Theorem C15_exact_when_canonical_sequencer :
  forall sync_start : Z, 0 <= sync_start ->
  forall (inputs : list (sync_input uev)) (v : view uev) (faults : list fault * list fault),
    let fl := sequencer_flavour sync_start sequencer_assumed_reorg_depth sequencer_max_request_block_range false in
    let history := inputs ++ [(v, faults)] in
    universe_ok sequencer_key sequencer_admissible fl (map fst history) ->
    heads_ok sequencer_key ukey_eqb sequencer_admissible sequencer_merge fl ginit history ->
    forall k h b,
      st_status (g_st (grun sequencer_key ukey_eqb sequencer_admissible sequencer_merge fl history)) = Some (k, h) ->
      block_at v k = Some b -> bk_hash b = h ->
      st_rows (g_st (grun sequencer_key ukey_eqb sequencer_admissible sequencer_merge fl history))
      = rows_of sequencer_admissible v sync_start k.
Proof.
  intros sync_start Hs inputs v faults.
  apply (exact_when_canonical uev ukey sequencer_key ukey_eqb sequencer_admissible sequencer_merge ukey_eqb_spec
           (sequencer_flavour sync_start sequencer_assumed_reorg_depth sequencer_max_request_block_range false));
    simpl; try reflexivity; try exact Hs; vm_compute; congruence.
Qed.
Print Assumptions C15_exact_when_canonical_sequencer.

(* a history with a fork whose hypotheses hold: two views, the second forks one block below
   the synced block; after the resync the table is the second view's events *)
Definition c15_ex_a : view uev :=
  [ mkblk (hx "00") []; mkblk (hx "01") [(0, 0, ev1)]; mkblk (hx "a2") [(0, 0, mkuev 2 (hx "cc") (hx "bb") 9 [] false 0 0 0)] ].
Definition c15_ex_b : view uev :=
  [ mkblk (hx "00") []; mkblk (hx "01") [(0, 0, ev1)]; mkblk (hx "b2") []; mkblk (hx "b3") [(0, 0, mkuev 2 (hx "cc") (hx "bb") 9 [] false 0 0 0)] ].
Definition c15_ex_history : list (sync_input uev) := [(c15_ex_a, ([], [])); (c15_ex_b, ([], [NoFault; NoFault; Fail])); (c15_ex_b, ([], []))].

Example C15_exact_when_canonical_nonvacuous :
  let fl := registry_flavour 0 10 10000 false in
  registry_universe_ok fl (map fst c15_ex_history) /\
  registry_heads_ok fl ginit c15_ex_history /\
  st_status (g_st (registry_grun fl c15_ex_history)) = Some (3, hx "b3") /\
  st_rows (g_st (registry_grun fl c15_ex_history)) = rows_of registry_admissible c15_ex_b 0 3 /\
  List.length (st_rows (g_st (registry_grun fl c15_ex_history))) = 2%nat.
Proof.
  simpl. split; [|split].
  - split.
    + intros v [<-|[<-|[<-|[]]]]; (split; [discriminate|]; split; [|split]);
        try (intros b Hb; simpl in Hb; repeat (destruct Hb as [<-|Hb]; [discriminate|]); destruct Hb);
        try (unfold keys_unique; concrete_nodup); vm_compute; reflexivity.
    + intros v w [<-|[<-|[<-|[]]]] [<-|[<-|[<-|[]]]]; concrete_hash_determines.
  - split; [exact I|].
    assert (Hg1 : gstep registry_key ukey_eqb registry_admissible registry_merge (registry_flavour 0 10 10000 false) ginit (c15_ex_a, ([], []))
                  = mkg (mkstate (Some (2, hx "a2")) (rows_of registry_admissible c15_ex_a 0 2)) c15_ex_a) by (vm_compute; reflexivity).
    rewrite Hg1. split; [unfold head_ok; simpl; split; [concrete_agree|left; vm_compute; discriminate]|].
    assert (Hg2 : gstep registry_key ukey_eqb registry_admissible registry_merge (registry_flavour 0 10 10000 false)
                        (mkg (mkstate (Some (2, hx "a2")) (rows_of registry_admissible c15_ex_a 0 2)) c15_ex_a)
                        (c15_ex_b, ([], [NoFault; NoFault; Fail]))
                  = mkg (mkstate (Some (0, [])) []) c15_ex_b) by (vm_compute; reflexivity).
    rewrite Hg2. split; [|exact I]. unfold head_ok. simpl. split; [concrete_agree|right; concrete_agree].
  - vm_compute. repeat split.
Qed.

(* D9 on the legacy flavour (legacy_unclamped_registry_flavour: the start of a sync is not clamped
   to the sync start, as before the fix commits fe0789c, 4702ec9, efdc9c3): every other hypothesis
   of C15_exact_when_canonical holds for this two-view history (sync start 2, assumed depth 3, an
   event in block 1, synced to block 3, then head 4 on a fork below 3), the position is
   canonical, and the table holds the event of block 1.  On the repaired flavour the same history
   is exact (d9_history_repaired). *)
Theorem C15_exact_when_canonical_legacy_unclamped_refuted :
  exists (history : list (sync_input uev)) v,
    let fl := d9_flavour in
    fl_swallow fl = false /\ fl_unclamped fl = true /\
    In v (map fst history) /\
    registry_universe_ok fl (map fst history) /\
    registry_heads_ok fl ginit history /\
    exists k h b, st_status (g_st (registry_grun fl history)) = Some (k, h) /\
                  block_at v k = Some b /\ bk_hash b = h /\
                  st_rows (g_st (registry_grun fl history)) <> rows_of registry_admissible v (fl_first_start fl) k.
Proof. exact exact_when_canonical_refuted. Qed.
Print Assumptions C15_exact_when_canonical_legacy_unclamped_refuted.

(* D8 on the legacy flavour (legacy_registry_flavour: syncRange swallows the error of its
   transaction, as on the pinned tree before fix commit 0b3d76a): one Sync over
   three ranges whose first transaction fails ends with a canonical position and a missing
   event, all other hypotheses holding. *)
Theorem C15_exact_when_canonical_legacy_refuted :
  exists (history : list (sync_input uev)) v,
    let fl := d8_flavour true in
    fl_swallow fl = true /\
    In v (map fst history) /\
    registry_universe_ok fl (map fst history) /\
    registry_heads_ok fl ginit history /\
    exists k h b, st_status (g_st (registry_grun fl history)) = Some (k, h) /\
                  block_at v k = Some b /\ bk_hash b = h /\
                  st_rows (g_st (registry_grun fl history)) <> rows_of registry_admissible v (fl_first_start fl) k.
Proof. exact exact_when_canonical_legacy_refuted. Qed.
Print Assumptions C15_exact_when_canonical_legacy_refuted.
