(* C06 - released keys carry a genuine threshold of keyper signatures.
   This file only states the theorems; proofs are in Proofs/KeysSig.v.

   STATE: the model follows the validators as they are on the pinned tree. There the full
   rule does NOT hold: the loop over the signatures indexes the signer list, so fewer
   signatures than signers are accepted with the missing ones unchecked and more signatures
   than signers panic; the service flavour returns Accept as soon as either list is empty.
   What is proved is (a) the refutations, with concrete witnesses, and (b) the rule on the
   complement of the failing class (messages whose two lists have the same length).

   Premises common to the theorems (Section variables of the model, no axioms):
   [H], [H_eqb], [hash] - the hash-tree-root values, their equality test, the root of a tuple;
   an ECDSA signature is the label [SigBy a h] (signed by address a over root h) or garbage. *)
From Coq Require Import List NArith ZArith Bool Lia.
From Verif Require Import Lib.Bytes Model.KeysSig Proofs.KeysSig.
Import ListNotations.

(* ---- refutations on the executable instance ([c_validate_sigs]: root of a tuple = the tuple) *)

(* "exactly one signature per signer" fails: a message naming threshold signers, strictly
   increasing and inside the set, is accepted with fewer signatures than signers *)
Theorem C06_gnosis_iff_refuted :
  exists ks m signers sigs,
    c_validate_sigs Gnosis ks m signers sigs = Accept /\ (length sigs < length signers)%nat /\
    ~ sig_rule tuple (fun t => t) Gnosis ks m signers sigs.
Proof.
  exists wit_ks, (wit_msg Gnosis), [0%N; 1%N], []. split; [apply fewer_signatures_accepted|].
  split; [simpl; lia|]. intros [_ [_ [_ [Hl _]]]]. discriminate.
Qed.
Print Assumptions C06_gnosis_iff_refuted.

(* "never Panic" fails: one entry more than there are signers *)
Theorem C06_gnosis_never_panics_refuted :
  exists ks m signers sigs, c_validate_sigs Gnosis ks m signers sigs = Panic.
Proof. eexists _, _, _, _. apply (more_signatures_panic Gnosis). Qed.
Print Assumptions C06_gnosis_never_panics_refuted.

(* the service flavour has both failures, and admits a message in which exactly one of the
   two lists is empty, whatever the other holds *)
Theorem C06_service_iff_refuted :
  (exists ks m signers sigs,
      c_validate_sigs Service ks m signers sigs = Accept /\ signers <> [] /\ sigs = [] /\
      ~ sig_rule tuple (fun t => t) Service ks m signers sigs) /\
  (exists ks m signers sigs,
      c_validate_sigs Service ks m signers sigs = Accept /\ signers = [] /\ sigs <> []) /\
  (exists ks m signers sigs,
      c_validate_sigs Service ks m signers sigs = Accept /\
      (0 < length sigs < length signers)%nat) /\
  (exists ks m signers sigs, c_validate_sigs Service ks m signers sigs = Panic).
Proof.
  repeat split.
  - exists wit_ks, (wit_msg Service), [7%N; 7%N; 7%N], [].
    split; [apply service_signers_without_signatures_accepted|].
    split; [discriminate|]. split; [reflexivity|]. intros [Hc _]. discriminate.
  - exists wit_ks, (wit_msg Service), [], [SigMalformed].
    split; [apply service_signatures_without_signers_accepted|]. split; [reflexivity | discriminate].
  - exists wit_ks, (wit_msg Service), [0%N; 1%N], [wit_good Service 1%N].
    split; [apply (one_of_two_signatures_accepted Service) | simpl; lia].
  - eexists _, _, _, _. apply (more_signatures_panic Service).
Qed.
Print Assumptions C06_service_iff_refuted.

(* ---- the rule on the complement of the failing class *)

(* PARTIAL: restricted by [length sigs = length signers]; without it the statement is false
   (refutations above). For every hash-tree-root function, keyper set of fewer than 2^31
   members, message, signer list and signature list of the same length: the Gnosis validator
   accepts iff the identity list fits the signature data (at most 1024 entries) and there are
   exactly threshold signers, strictly increasing, inside the keyper set, one signature per
   signer, each the signature of the listed keyper over the message's own (instance, eon,
   slot, tx pointer, identities); and it does not panic. *)
Theorem C06_gnosis_iff_partial :
  forall (H : Type) (H_eqb : H -> H -> bool) (hash : tuple -> H),
    (forall a b, H_eqb a b = true <-> a = b) ->
    forall ks m signers sigs,
      (Z.of_nat (length (ks_keypers ks)) < 2 ^ 31)%Z ->
      length sigs = length signers ->
      (validate_sigs H H_eqb hash Gnosis ks m signers sigs = Accept <->
       (length (m_ids m) <= 1024)%nat /\ sig_rule H hash Gnosis ks m signers sigs)
      /\ validate_sigs H H_eqb hash Gnosis ks m signers sigs <> Panic.
Proof. exact gnosis_iff_equal_lengths. Qed.
Print Assumptions C06_gnosis_iff_partial.

(* PARTIAL (same restriction): the service validator accepts iff both lists are empty or the
   same rule holds over (instance, eon, identities). *)
Theorem C06_service_iff_partial :
  forall (H : Type) (H_eqb : H -> H -> bool) (hash : tuple -> H),
    (forall a b, H_eqb a b = true <-> a = b) ->
    forall ks m signers sigs,
      (Z.of_nat (length (ks_keypers ks)) < 2 ^ 31)%Z ->
      length sigs = length signers ->
      (validate_sigs H H_eqb hash Service ks m signers sigs = Accept <->
       (signers = [] /\ sigs = []) \/
       ((length (m_ids m) <= 1024)%nat /\ sig_rule H hash Service ks m signers sigs))
      /\ validate_sigs H H_eqb hash Service ks m signers sigs <> Panic.
Proof. exact service_iff_equal_lengths. Qed.
Print Assumptions C06_service_iff_partial.

(* PARTIAL (same restriction, and no statement yet about changing a signature): with a
   hash-tree-root injective on the tuples it is defined on, an accepted message with at least
   one signer is rejected after any change of a signed field - instance, eon, any identity or
   their order or number, and for Gnosis slot and tx pointer. *)
Theorem C06_field_binding_partial :
  forall (H : Type) (H_eqb : H -> H -> bool) (hash : tuple -> H),
    (forall a b, H_eqb a b = true <-> a = b) ->
    (forall t t', hashable t = true -> hashable t' = true -> hash t = hash t' -> t = t') ->
    forall fl ks m m' signers sigs,
      (Z.of_nat (length (ks_keypers ks)) < 2 ^ 31)%Z ->
      length sigs = length signers -> signers <> [] ->
      validate_sigs H H_eqb hash fl ks m signers sigs = Accept ->
      differs_in_signed_field fl m m' ->
      exists r, validate_sigs H H_eqb hash fl ks m' signers sigs = Reject r.
Proof.
  intros H H_eqb hash Hs Hi fl ks m m' signers sigs. apply accept_binds_tuple_equal_lengths; assumption.
Qed.
Print Assumptions C06_field_binding_partial.

(* The access node accepts exactly when its own common checks and ValidateDecryptionKeysBasic
   pass and the very same signature function accepts for the keyper set it stores for the
   message's eon; the keyper's ValidateMessage is the same composition over the database's
   keyper set. Neither adds a panic of its own. *)
Theorem C06_accessnode_same_rule :
  forall (H : Type) (H_eqb : H -> H -> bool) (hash : tuple -> H) st lookup m signers sigs,
    (an_validate H H_eqb hash st m signers sigs = Accept <->
     an_validate_common st m = Accept /\ validate_basic m = Accept /\
     exists ks, lookup_ks (an_keypersets st) (m_eon m) = Some ks /\
                validate_sigs H H_eqb hash Gnosis ks m signers sigs = Accept) /\
    (keyper_validate_gnosis H H_eqb hash lookup m signers sigs = Accept <->
     validate_basic m = Accept /\
     exists ks, lookup = Some ks /\ validate_sigs H H_eqb hash Gnosis ks m signers sigs = Accept).
Proof.
  intros. split; [apply an_validate_accept | apply keyper_validate_accept].
Qed.
Print Assumptions C06_accessnode_same_rule.

(* ---- the hypotheses are satisfiable on concrete, non-trivial states *)

(* keyper set {1, 4}, threshold 2, both sign the message's own tuple: the executable instance
   meets the premises on H_eqb and hash, the validators accept, and the theorem then yields the
   rule for that message *)
Example C06_iff_partial_nonvacuous :
  (forall a b, tuple_eqb a b = true <-> a = b) /\
  forall fl,
    let sigs := [wit_good fl 1%N; wit_good fl 4%N] in
    c_validate_sigs fl wit_ks (wit_msg fl) [0%N; 1%N] sigs = Accept /\
    length sigs = length [0%N; 1%N] /\
    (Z.of_nat (length (ks_keypers wit_ks)) < 2 ^ 31)%Z /\
    hashable (signed_tuple fl (wit_msg fl)) = true /\
    sig_rule tuple (fun t => t) fl wit_ks (wit_msg fl) [0%N; 1%N] sigs.
Proof.
  split; [exact tuple_eqb_spec|]. intros fl sigs.
  assert (A : c_validate_sigs fl wit_ks (wit_msg fl) [0%N; 1%N] sigs = Accept)
    by (destruct fl; vm_compute; reflexivity).
  assert (L : length sigs = length [0%N; 1%N]) by reflexivity.
  assert (B : (Z.of_nat (length (ks_keypers wit_ks)) < 2 ^ 31)%Z) by (vm_compute; reflexivity).
  split; [exact A|]. split; [exact L|]. split; [exact B|]. split.
  - destruct fl; vm_compute; reflexivity.
  - destruct fl.
    + apply (C06_gnosis_iff_partial tuple tuple_eqb (fun t => t) tuple_eqb_spec _ _ _ _ B L) in A. apply A.
    + apply (C06_service_iff_partial tuple tuple_eqb (fun t => t) tuple_eqb_spec _ _ _ _ B L) in A.
      destruct A as [[E _]|A]; [discriminate | apply A].
Qed.

(* a changed slot (Gnosis) / a swapped identity order (service) is a change of a signed field,
   and the validators then reject the same signatures *)
Example C06_field_binding_nonvacuous :
  let m' := Build_keysmsg 42 7 ExGnosis 1001 3 (m_keys (wit_msg Gnosis)) in
  let s' := Build_keysmsg 42 7 ExService 0 0 (rev (m_keys (wit_msg Service))) in
  differs_in_signed_field Gnosis (wit_msg Gnosis) m' /\
  c_validate_sigs Gnosis wit_ks m' [0%N; 1%N] [wit_good Gnosis 1%N; wit_good Gnosis 4%N]
  = Reject RInvalidSig /\
  differs_in_signed_field Service (wit_msg Service) s' /\
  c_validate_sigs Service wit_ks s' [0%N; 1%N] [wit_good Service 1%N; wit_good Service 4%N]
  = Reject RInvalidSig.
Proof.
  repeat split.
  - right. right. right. split; [reflexivity|]. left. vm_compute. discriminate.
  - right. right. left. vm_compute. discriminate.
Qed.

(* an access node state holding the keyper set for eon 7 accepts the witness message *)
Example C06_accessnode_nonvacuous :
  let st := Build_an_state 42 500 [7%N] [(7%N, wit_ks)] in
  c_an_validate st (wit_msg Gnosis) [0%N; 1%N] [wit_good Gnosis 1%N; wit_good Gnosis 4%N] = Accept /\
  c_an_validate st (wit_msg Gnosis) [0%N; 1%N] [wit_good Gnosis 1%N; wit_good Gnosis 2%N]
  = Reject RInvalidSig.
Proof. vm_compute. split; reflexivity. Qed.
