(* C06 - released keys carry a genuine threshold of keyper signatures.
   This file only states the theorems; proofs are in Proofs/KeysSig.v.

   The model follows the validators after the repairs committed in /repo ("fix: gnosis keys
   validation requires one signature per signer", "fix: shutter service keys validation
   requires one signature per signer", "fix: shutter service admits unsigned keys only when
   signers and signatures are both empty"). The defective functions of the pinned tree are
   kept as legacy_validate_sigs and the rule is refuted for them at the end of this file.

   Premises common to the theorems (Section variables of the model, no axioms):
   [H], [H_eqb], [hash] - the hash-tree-root values, their equality test, the root of a tuple;
   an ECDSA signature is the label [SigBy a h] (signed by address a over root h) or garbage;
   the keyper set has fewer than 2^31 members (the code casts the signer count to int32). *)
From Coq Require Import List NArith ZArith Bool Lia.
From Verif Require Import Lib.Bytes Model.KeysSig Proofs.KeysSig.
Import ListNotations.

(* For every hash-tree-root function, keyper set, message, signer list and signature list: the
   Gnosis validator accepts iff the identity list fits the signature data (at most 1024
   entries) and there are exactly threshold signers, strictly increasing, inside the keyper
   set, exactly one signature per signer, each the signature of the listed keyper over the
   message's own (instance, eon, slot, tx pointer, identities); and it never panics. *)
Theorem C06_gnosis_iff :
  forall (H : Type) (H_eqb : H -> H -> bool) (hash : tuple -> H),
    (forall a b, H_eqb a b = true <-> a = b) ->
    forall ks m signers sigs,
      (Z.of_nat (length (ks_keypers ks)) < 2 ^ 31)%Z ->
      (validate_sigs H H_eqb hash Gnosis ks m signers sigs = Accept <->
       (length (m_ids m) <= 1024)%nat /\
       Z.of_nat (length signers) = ks_threshold ks /\
       strictly_increasing signers /\
       Forall (in_keyper_set (ks_keypers ks)) signers /\
       length sigs = length signers /\
       Forall2 (valid_sig_by H hash (ks_keypers ks)
                             (TGnosis (m_inst m) (m_eon m) (m_slot m) (m_txp m) (m_ids m)))
               signers sigs)
      /\ validate_sigs H H_eqb hash Gnosis ks m signers sigs <> Panic.
Proof. exact gnosis_iff. Qed.
Print Assumptions C06_gnosis_iff.

(* The service validator: the same rule over (instance, eon, identities), with exactly one
   further accepted case - neither signers nor signatures. *)
Theorem C06_service_iff :
  forall (H : Type) (H_eqb : H -> H -> bool) (hash : tuple -> H),
    (forall a b, H_eqb a b = true <-> a = b) ->
    forall ks m signers sigs,
      (Z.of_nat (length (ks_keypers ks)) < 2 ^ 31)%Z ->
      (validate_sigs H H_eqb hash Service ks m signers sigs = Accept <->
       (signers = [] /\ sigs = []) \/
       ((length (m_ids m) <= 1024)%nat /\
        Z.of_nat (length signers) = ks_threshold ks /\
        strictly_increasing signers /\
        Forall (in_keyper_set (ks_keypers ks)) signers /\
        length sigs = length signers /\
        Forall2 (valid_sig_by H hash (ks_keypers ks) (TService (m_inst m) (m_eon m) (m_ids m)))
                signers sigs))
      /\ validate_sigs H H_eqb hash Service ks m signers sigs <> Panic.
Proof. exact service_iff. Qed.
Print Assumptions C06_service_iff.

(* With a hash-tree-root injective on the tuples it is defined on: an accepted message with at
   least one signer is rejected after any change of a signed field - instance, eon, any
   identity or their order or number, and for Gnosis slot and tx pointer; and an accepted
   message (either flavour) is rejected after any change whatsoever of its signature list. *)
Theorem C06_field_binding :
  forall (H : Type) (H_eqb : H -> H -> bool) (hash : tuple -> H),
    (forall a b, H_eqb a b = true <-> a = b) ->
    (forall t t', hashable t = true -> hashable t' = true -> hash t = hash t' -> t = t') ->
    forall fl ks m signers sigs,
      (Z.of_nat (length (ks_keypers ks)) < 2 ^ 31)%Z ->
      validate_sigs H H_eqb hash fl ks m signers sigs = Accept ->
      (forall m',
          signers <> [] ->
          (m_inst m' <> m_inst m \/ m_eon m' <> m_eon m \/ m_ids m' <> m_ids m \/
           (fl = Gnosis /\ (m_slot m' <> m_slot m \/ m_txp m' <> m_txp m))) ->
          exists r, validate_sigs H H_eqb hash fl ks m' signers sigs = Reject r) /\
      (forall sigs',
          sigs' <> sigs ->
          exists r, validate_sigs H H_eqb hash fl ks m signers sigs' = Reject r).
Proof.
  intros H H_eqb hash Hs Hi fl ks m signers sigs Hn Ha. split.
  - intros m' Hne Hd. eapply accept_binds_tuple; eassumption.
  - intros sigs' Hd. eapply accept_binds_signatures; eassumption.
Qed.
Print Assumptions C06_field_binding.

(* The access node accepts exactly when its own common checks and ValidateDecryptionKeysBasic
   pass and the very same signature function accepts for the keyper set it stores for the
   message's eon; the keyper's ValidateMessage is the same composition over the database's
   keyper set (the lookup is abstracted to its result). Hence both accept only under the
   Gnosis rule, and neither panics. *)
Theorem C06_accessnode_same_rule :
  forall (H : Type) (H_eqb : H -> H -> bool) (hash : tuple -> H),
    (forall a b, H_eqb a b = true <-> a = b) ->
    forall st lookup m signers sigs,
      (forall ks, lookup_ks (an_keypersets st) (m_eon m) = Some ks \/ lookup = Some ks ->
                  (Z.of_nat (length (ks_keypers ks)) < 2 ^ 31)%Z) ->
      (an_validate H H_eqb hash st m signers sigs = Accept <->
       an_validate_common st m = Accept /\ validate_basic m = Accept /\
       exists ks, lookup_ks (an_keypersets st) (m_eon m) = Some ks /\
                  validate_sigs H H_eqb hash Gnosis ks m signers sigs = Accept) /\
      (keyper_validate_gnosis H H_eqb hash lookup m signers sigs = Accept <->
       validate_basic m = Accept /\
       exists ks, lookup = Some ks /\ validate_sigs H H_eqb hash Gnosis ks m signers sigs = Accept) /\
      (an_validate H H_eqb hash st m signers sigs = Accept ->
       exists ks, lookup_ks (an_keypersets st) (m_eon m) = Some ks /\
                  sig_rule H hash Gnosis ks m signers sigs) /\
      (keyper_validate_gnosis H H_eqb hash lookup m signers sigs = Accept ->
       exists ks, lookup = Some ks /\ sig_rule H hash Gnosis ks m signers sigs) /\
      an_validate H H_eqb hash st m signers sigs <> Panic /\
      keyper_validate_gnosis H H_eqb hash lookup m signers sigs <> Panic.
Proof.
  intros H H_eqb hash Hs st lookup m signers sigs Hn.
  split; [apply an_validate_accept|]. split; [apply keyper_validate_accept|].
  pose proof (an_accept_only_if H H_eqb hash Hs st m signers sigs (fun ks E => Hn ks (or_introl E))) as [A1 A2].
  pose proof (keyper_accept_only_if H H_eqb hash Hs lookup m signers sigs (fun ks E => Hn ks (or_intror E))) as [K1 K2].
  repeat split; assumption.
Qed.
Print Assumptions C06_accessnode_same_rule.

(* ---- the validators of the pinned tree (before the repairs), on the executable instance
   ([c_legacy_validate_sigs]: root of a tuple = the tuple) *)

(* "exactly one signature per signer" failed: a message naming threshold signers, strictly
   increasing and inside the set, was accepted with fewer signatures than signers *)
Theorem C06_legacy_gnosis_iff_refuted :
  exists ks m signers sigs,
    c_legacy_validate_sigs Gnosis ks m signers sigs = Accept /\
    (length sigs < length signers)%nat /\
    ~ sig_rule tuple (fun t => t) Gnosis ks m signers sigs.
Proof.
  exists wit_ks, (wit_msg Gnosis), [0%N; 1%N], []. split; [apply fewer_signatures_accepted|].
  split; [simpl; lia|]. intros [_ [_ [_ [Hl _]]]]. discriminate.
Qed.
Print Assumptions C06_legacy_gnosis_iff_refuted.

(* "never Panic" failed: one entry more than there are signers *)
Theorem C06_legacy_gnosis_never_panics_refuted :
  exists ks m signers sigs, c_legacy_validate_sigs Gnosis ks m signers sigs = Panic.
Proof. eexists _, _, _, _. apply (more_signatures_panic Gnosis). Qed.
Print Assumptions C06_legacy_gnosis_never_panics_refuted.

(* the service flavour had both failures, and admitted a message in which exactly one of the
   two lists is empty, whatever the other held *)
Theorem C06_legacy_service_iff_refuted :
  (exists ks m signers sigs,
      c_legacy_validate_sigs Service ks m signers sigs = Accept /\ signers <> [] /\ sigs = [] /\
      ~ sig_rule tuple (fun t => t) Service ks m signers sigs) /\
  (exists ks m signers sigs,
      c_legacy_validate_sigs Service ks m signers sigs = Accept /\ signers = [] /\ sigs <> []) /\
  (exists ks m signers sigs,
      c_legacy_validate_sigs Service ks m signers sigs = Accept /\
      (0 < length sigs < length signers)%nat) /\
  (exists ks m signers sigs, c_legacy_validate_sigs Service ks m signers sigs = Panic).
Proof.
  repeat split.
  - exists wit_ks, (wit_msg Service), [7%N; 7%N; 7%N], [].
    split; [apply service_signers_without_signatures_accepted|].
    split; [discriminate|]. split; [reflexivity|]. intros [Hc _]. discriminate.
  - exists wit_ks, (wit_msg Service), [], [SigMalformed].
    split; [apply service_signatures_without_signers_accepted|]. split; [reflexivity | discriminate].
  - exists wit_ks, (wit_msg Service), [0%N; 1%N], [wit_good Service 1%N].
    split; [apply (one_of_two_signatures_accepted Service) | simpl; lia].
  - eexists _, _, _, _. apply (more_signatures_panic Service).
Qed.
Print Assumptions C06_legacy_service_iff_refuted.

(* ---- the hypotheses are satisfiable on concrete, non-trivial states *)

(* keyper set {1, 4}, threshold 2, both sign the message's own tuple: the executable instance
   meets the premises on H_eqb and hash, the validators accept, and the theorems then yield
   the rule for that message *)
Example C06_iff_nonvacuous :
  (forall a b, tuple_eqb a b = true <-> a = b) /\
  forall fl,
    let sigs := [wit_good fl 1%N; wit_good fl 4%N] in
    c_validate_sigs fl wit_ks (wit_msg fl) [0%N; 1%N] sigs = Accept /\
    (Z.of_nat (length (ks_keypers wit_ks)) < 2 ^ 31)%Z /\
    hashable (signed_tuple fl (wit_msg fl)) = true /\
    sig_rule tuple (fun t => t) fl wit_ks (wit_msg fl) [0%N; 1%N] sigs.
Proof.
  split; [exact tuple_eqb_spec|]. intros fl sigs.
  assert (A : c_validate_sigs fl wit_ks (wit_msg fl) [0%N; 1%N] sigs = Accept)
    by (destruct fl; vm_compute; reflexivity).
  assert (B : (Z.of_nat (length (ks_keypers wit_ks)) < 2 ^ 31)%Z) by (vm_compute; reflexivity).
  split; [exact A|]. split; [exact B|]. split.
  - destruct fl; vm_compute; reflexivity.
  - destruct fl.
    + apply (C06_gnosis_iff tuple tuple_eqb (fun t => t) tuple_eqb_spec _ _ _ _ B) in A. apply A.
    + apply (C06_service_iff tuple tuple_eqb (fun t => t) tuple_eqb_spec _ _ _ _ B) in A.
      destruct A as [[E _]|A]; [discriminate | apply A].
Qed.

(* the service flavour's extra case, and its two neighbours that are now rejected *)
Example C06_service_empty_case :
  c_validate_sigs Service wit_ks (wit_msg Service) [] [] = Accept /\
  c_validate_sigs Service wit_ks (wit_msg Service) [0%N; 1%N] [] = Reject RSigCount /\
  c_validate_sigs Service wit_ks (wit_msg Service) [] [SigMalformed] = Reject RSignerCount /\
  c_validate_sigs Gnosis wit_ks (wit_msg Gnosis) [] [] = Reject RSignerCount.
Proof. vm_compute. repeat split; reflexivity. Qed.

(* a changed slot (Gnosis) / a swapped identity order (service) is a change of a signed field,
   a replaced second signature is a change of the signature list; all are rejected *)
Example C06_field_binding_nonvacuous :
  let m' := Build_keysmsg 42 7 ExGnosis 1001 3 (m_keys (wit_msg Gnosis)) in
  let s' := Build_keysmsg 42 7 ExService 0 0 (rev (m_keys (wit_msg Service))) in
  m_slot m' <> m_slot (wit_msg Gnosis) /\
  c_validate_sigs Gnosis wit_ks m' [0%N; 1%N] [wit_good Gnosis 1%N; wit_good Gnosis 4%N]
  = Reject RInvalidSig /\
  m_ids s' <> m_ids (wit_msg Service) /\
  c_validate_sigs Service wit_ks s' [0%N; 1%N] [wit_good Service 1%N; wit_good Service 4%N]
  = Reject RInvalidSig /\
  c_validate_sigs Gnosis wit_ks (wit_msg Gnosis) [0%N; 1%N] [wit_good Gnosis 1%N; wit_good Gnosis 1%N]
  = Reject RInvalidSig.
Proof. vm_compute. repeat split; try reflexivity; discriminate. Qed.

(* an access node state holding the keyper set for eon 7 accepts the witness message, rejects
   it with a foreign second signature, and without the stored set *)
Example C06_accessnode_nonvacuous :
  let st := Build_an_state 42 500 [7%N] [(7%N, wit_ks)] in
  c_an_validate st (wit_msg Gnosis) [0%N; 1%N] [wit_good Gnosis 1%N; wit_good Gnosis 4%N] = Accept /\
  c_an_validate st (wit_msg Gnosis) [0%N; 1%N] [wit_good Gnosis 1%N; wit_good Gnosis 2%N]
  = Reject RInvalidSig /\
  c_an_validate (Build_an_state 42 500 [7%N] []) (wit_msg Gnosis) [0%N; 1%N]
                [wit_good Gnosis 1%N; wit_good Gnosis 4%N] = Reject RNoKeyperSet.
Proof. vm_compute. repeat split; reflexivity. Qed.

(* the inputs that refute the legacy validators are rejected by the repaired ones *)
Example C06_legacy_witnesses_now_rejected :
  forall fl,
    c_validate_sigs fl wit_ks (wit_msg fl) [0%N; 1%N] [] = Reject RSigCount /\
    c_validate_sigs fl wit_ks (wit_msg fl) [0%N; 1%N]
                    [wit_good fl 1%N; wit_good fl 4%N; SigMalformed] = Reject RSigCount.
Proof. intros fl. pose proof (repaired_rejects_witnesses fl) as [A [_ [B _]]]. split; assumption. Qed.

(* ---- second tie: the decision logic regenerated from the source ---------------------------
   Generated/KeysSigFuns.v is rewritten from the repository on every run of this check
   (harness/cmd/translate/gen_keyssigfuns.go): validateSignerIndices and
   ValidateDecryptionKeysSignatures of both flavours, KeyperSet.GetSubset, the two
   New...SignatureData constructors, ValidateDecryptionKeysBasic, the keyper's ValidateMessage
   and the access node's ValidateMessage / validateGnosisFields, statement by statement, with
   CheckSignature, shdb.DecodeAddress, the keyper-set lookup and validateCommonFields as
   parameters. For every hash-tree-root function, keyper set (Go-representable length),
   message, signer list and signature list, the translated functions - with the ideal
   CheckSignature as the crypto parameter - return exactly the model's verdict, rejection class
   included. A source change in a guard, a cast, the strictness of the order test, an index, a
   loop bound, the pairing of signatures with signers or the fields handed to the signature
   data breaks this obligation before any case is generated. *)
From Verif Require Import Generated.KeysSigFuns Proofs.KeysSigFuns.
Theorem C06_translated_validators_agree :
  forall (H : Type) (H_eqb : H -> H -> bool) (hash : tuple -> H),
    (forall ks m signers sigs,
        (Z.of_nat (length (ks_keypers ks)) < 2 ^ 63)%Z ->
        gen_gnosis_validate_sigs (fun k => k) (check_signature H H_eqb hash)
                                 (ks_threshold ks) (ks_keypers ks)
                                 (m_inst m) (m_eon m) (m_slot m) (m_txp m) (m_ids m)
                                 (map Z.of_N signers) sigs
        = validate_sigs H H_eqb hash Gnosis ks m signers sigs) /\
    (forall ks m signers sigs,
        (Z.of_nat (length (ks_keypers ks)) < 2 ^ 63)%Z ->
        gen_service_validate_sigs (fun k => k) (check_signature H H_eqb hash)
                                  (ks_threshold ks) (ks_keypers ks)
                                  (m_inst m) (m_eon m) (m_slot m) (m_txp m) (m_ids m)
                                  (map Z.of_N signers) sigs
        = validate_sigs H H_eqb hash Service ks m signers sigs) /\
    (forall st m signers sigs,
        (forall ks, lookup_ks (an_keypersets st) (m_eon m) = Some ks ->
                    (Z.of_nat (length (ks_keypers ks)) < 2 ^ 63)%Z) ->
        gen_an_validate_message (fun k => k) (check_signature H H_eqb hash) (an_validate_common st m)
          (option_map set_pair (lookup_ks (an_keypersets st) (m_eon m)))
          (extra_is_gnosis (m_extra m)) (extra_gnosis_nil (m_extra m))
          (m_inst m) (m_eon m) (m_slot m) (m_txp m) (m_ids m) (map Z.of_N signers) sigs
        = an_validate H H_eqb hash st m signers sigs) /\
    (forall lookup m signers sigs,
        (forall ks, lookup = Some ks -> (Z.of_nat (length (ks_keypers ks)) < 2 ^ 63)%Z) ->
        gen_keyper_validate_message (fun k => k) (check_signature H H_eqb hash) (option_map set_pair lookup)
          (extra_is_gnosis (m_extra m)) (extra_gnosis_nil (m_extra m))
          (m_inst m) (m_eon m) (m_slot m) (m_txp m) (m_ids m) (map Z.of_N signers) sigs
        = keyper_validate_gnosis H H_eqb hash lookup m signers sigs).
Proof.
  intros H H_eqb hash.
  exact (conj (gnosis_validate_sigs_agrees H H_eqb hash)
        (conj (service_validate_sigs_agrees H H_eqb hash)
        (conj (an_validate_message_agrees H H_eqb hash)
              (keyper_validate_message_agrees H H_eqb hash)))).
Qed.
Print Assumptions C06_translated_validators_agree.

(* the translated Gnosis validator, run on the witness message: accepts the two genuine
   signatures, rejects a repeated signer index (the order test is strict) and one signature
   too few *)
Example C06_translated_nonvacuous :
  let run signers sigs :=
    gen_gnosis_validate_sigs (fun k => k) (check_signature tuple tuple_eqb (fun t => t))
      (ks_threshold wit_ks) (ks_keypers wit_ks) 42%N 7%N 1000%N 3%N (m_ids (wit_msg Gnosis))
      signers sigs in
  run [0; 1]%Z [wit_good Gnosis 1%N; wit_good Gnosis 4%N] = Accept /\
  run [0; 0]%Z [wit_good Gnosis 1%N; wit_good Gnosis 1%N] = Reject RDuplicate /\
  run [1; 0]%Z [wit_good Gnosis 4%N; wit_good Gnosis 1%N] = Reject RUnordered /\
  run [0; 1]%Z [wit_good Gnosis 1%N] = Reject RSigCount.
Proof. vm_compute. repeat split; reflexivity. Qed.
