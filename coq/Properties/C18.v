(* C18 - read-only mode blocks every state-changing HTTP endpoint.
   This file only states the theorems; proofs are in Proofs/HttpGuard.v (any table passing
   the computed checks) and Proofs/HttpGuardTable.v (the checks evaluated on the table
   regenerated from oapi.yaml / oapi.gen.go / middleware.go / kprapi).

   [serve table validator enable_write e1 e2 method raw] is the answer of the keyper's HTTP
   stack (Model/HttpGuard.v) to a request with that method whose request-target path is the
   byte string [raw]: net/url parsing, chi root router with the /v1 mount and
   http.StripPrefix, OapiRequestValidator (an arbitrary function [validator] that may reject
   anything), the guard kproapi.ConfigMiddleware, chi routing of the generated routes.
   [e1], [e2] are the orders in which the guard's two `range spec.Paths` loops enumerate the
   Go map. *)
From Coq Require Import List NArith Bool Permutation String.
From Verif Require Import Lib.Bytes Model.HttpGuard Generated.OapiTable Proofs.HttpGuard Proofs.HttpGuardTable.
Import ListNotations.
Open Scope string_scope.

(* With write operations disabled: for every validator, every enumeration order (not even
   required to be a permutation of the spec's paths), every method and every request path
   (any byte string: parameters, trailing or duplicate slashes, dot segments, escapes, ...),
   if the request is dispatched to a generated route at all, that route's operation is
   marked x-read-only: true in oapi.yaml and its handler is neither Shutdown nor
   SubmitDecryptionTrigger nor any function that sends on Server.shutdownSig / Server.trigger. *)
Theorem C18_guard_sound : forall validator e1 e2 method raw r,
  serve table validator false e1 e2 method raw = VDispatch r ->
  route_marked_read_only table r = true /\ ~ In (r_handler r) (critical_handlers table).
Proof. exact table_guard_sound. Qed.
Print Assumptions C18_guard_sound.

(* With write operations disabled, the canonical request of every operation marked read-only
   (mount prefix + template, every {parameter} replaced by "7") is dispatched to the route
   and handler of exactly that operation, for every enumeration order of the map; the only
   other possible answer is a rejection by the request validator. *)
Theorem C18_readonly_reachable : forall o validator e1 e2,
  In o (t_yaml_ops table) -> is_read_only (op_ro o) = true ->
  Permutation e1 spec_templates -> Permutation e2 spec_templates ->
  exists raw r,
    canonical_path table (op_template o) canonical_value = Some raw /\
    r_method r = op_method o /\ r_pattern r = op_template o /\ r_handler r = ucfirst (op_id o) /\
    (serve table validator false e1 e2 (op_method o) raw = VDispatch r \/
     serve table validator false e1 e2 (op_method o) raw = VValidatorReject).
Proof. exact table_read_only_reachable. Qed.
Print Assumptions C18_readonly_reachable.

(* The answer for a given method and path does not depend on the order in which Go
   enumerates spec.Paths in either loop of the guard (write operations enabled or not). *)
Theorem C18_deterministic : forall validator enable_write e1 e1' e2 e2' method raw,
  Permutation e1 spec_templates -> Permutation e1' spec_templates ->
  Permutation e2 spec_templates -> Permutation e2' spec_templates ->
  serve table validator enable_write e1 e2 method raw = serve table validator enable_write e1' e2' method raw.
Proof. exact table_deterministic. Qed.
Print Assumptions C18_deterministic.

(* With write operations enabled the canonical request of every operation of oapi.yaml is
   dispatched to its route and handler (unless the validator rejects it). *)
Theorem C18_write_enabled_passes_all : forall o validator e1 e2,
  In o (t_yaml_ops table) ->
  Permutation e1 spec_templates -> Permutation e2 spec_templates ->
  exists raw r,
    canonical_path table (op_template o) canonical_value = Some raw /\
    r_method r = op_method o /\ r_pattern r = op_template o /\ r_handler r = ucfirst (op_id o) /\
    (serve table validator true e1 e2 (op_method o) raw = VDispatch r \/
     serve table validator true e1 e2 (op_method o) raw = VValidatorReject).
Proof. exact table_write_enabled_passes_all. Qed.
Print Assumptions C18_write_enabled_passes_all.

(* ---- the hypotheses are satisfiable, the conclusions are not empty -------------------- *)

(* dispatch does happen with write operations disabled (so C18_guard_sound is not vacuous),
   shutdown and the trigger are refused in several spellings, and both are critical handlers
   that exist as routes *)
Example C18_guard_sound_nonvacuous :
  serve table accept_all false spec_templates spec_templates (bs "GET") (bs "/v1/ping")
    = VDispatch (mk_route (bs "GET") (bs "/ping") (bs "Ping")) /\
  serve table accept_all false spec_templates spec_templates (bs "GET") (bs "/v1/decryptionKey/7/0xab")
    = VDispatch (mk_route (bs "GET") (bs "/decryptionKey/{eon}/{epochID}") (bs "GetDecryptionKey")) /\
  serve table accept_all false spec_templates spec_templates (bs "POST") (bs "/v1/shutdown") = VGuardForbidden /\
  serve table accept_all false spec_templates spec_templates (bs "POST") (bs "/v1/%73hutdown") = VGuardForbidden /\
  serve table accept_all false spec_templates spec_templates (bs "POST") (bs "/v1/decryptionTrigger") = VGuardForbidden /\
  serve table accept_all false spec_templates spec_templates (bs "POST") (bs "/v1//shutdown") = VGuardNotFound /\
  serve table accept_all false spec_templates spec_templates (bs "POST") (bs "/v1/shutdown/") = VGuardNotFound /\
  serve table accept_all false spec_templates spec_templates (bs "GET") (bs "/v1/decryptionKey/7%2F8/0xab") = VGuardNotFound /\
  In (bs "Shutdown") (critical_handlers table) /\ In (bs "SubmitDecryptionTrigger") (critical_handlers table) /\
  In (mk_route (bs "POST") (bs "/shutdown") (bs "Shutdown")) (t_routes table) /\
  In (mk_route (bs "POST") (bs "/decryptionTrigger") (bs "SubmitDecryptionTrigger")) (t_routes table).
Proof. vm_compute. repeat split; auto 10. Qed.

Example C18_readonly_reachable_nonvacuous :
  In (mk_op (bs "GET") (bs "/decryptionKey/{eon}/{epochID}") RoTrue (bs "getDecryptionKey")) (t_yaml_ops table) /\
  is_read_only RoTrue = true /\
  Permutation (rev spec_templates) spec_templates /\
  canonical_path table (bs "/decryptionKey/{eon}/{epochID}") canonical_value = Some (bs "/v1/decryptionKey/7/7").
Proof.
  repeat split; try (vm_compute; auto 10; fail).
  apply Permutation_sym, Permutation_rev.
Qed.

Example C18_deterministic_nonvacuous :
  Permutation (rev spec_templates) spec_templates /\ rev spec_templates <> spec_templates /\
  serve table accept_all false (rev spec_templates) spec_templates (bs "GET") (bs "/v1/decryptionKey/{a/b}/{c}")
  = serve table accept_all false spec_templates (rev spec_templates) (bs "GET") (bs "/v1/decryptionKey/{a/b}/{c}") /\
  serve table accept_all false spec_templates spec_templates (bs "GET") (bs "/v1/decryptionKey/{a/b}/{c}") = VInnerNotFound.
Proof.
  split; [apply Permutation_sym, Permutation_rev|].
  split; [vm_compute; discriminate|]. split; vm_compute; reflexivity.
Qed.

Example C18_write_enabled_passes_all_nonvacuous :
  In (mk_op (bs "POST") (bs "/shutdown") RoFalse (bs "shutdown")) (t_yaml_ops table) /\
  serve table accept_all true spec_templates spec_templates (bs "POST") (bs "/v1/shutdown")
    = VDispatch (mk_route (bs "POST") (bs "/shutdown") (bs "Shutdown")) /\
  serve table accept_all true spec_templates spec_templates (bs "POST") (bs "/v1/decryptionTrigger")
    = VDispatch (mk_route (bs "POST") (bs "/decryptionTrigger") (bs "SubmitDecryptionTrigger")).
Proof. vm_compute. repeat split; auto 10. Qed.
