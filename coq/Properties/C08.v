(* C08 - a keyper survives a crash at any instant.
   This file only states the theorems; proofs are in Proofs/OutboxEvolve.v, Proofs/OutboxCoh.v,
   Proofs/Outbox.v, Proofs/OutboxRun.v, Proofs/OutboxApp.v; the concrete run of the examples is
   Proofs/OutboxExamples.v.

   Model: Model/Outbox.v on top of Model/DKGDriver.v.  An execution of the keyper's shuttermint
   loop is a list of operations: OBlock (one block transaction, committed or not), OOnChain
   (the on-chain transaction), OSend (a broadcast of the outbox head: answered, applied with the
   reply lost, or never sent), ODelete (the deletion of the sent row), OCrash (all volatile
   state lost).  A crash schedule is just where the OCrash / "not committed" / "reply lost"
   entries sit in the list; the theorems hold for every list, i.e. every crash schedule of any
   length, every block content, every randomness (the polynomial an attempt draws is a field of
   its OBlock).

   Vocabulary:
     run w ops = Some w'       the operations are possible for the model and lead from w to w'
     enum_entries_ok enum      Go's enumeration of the cache map yields exactly its entries
     from_chain chain o        a block operation carries the block of its height of one chain
     fifo_inv w                outbox ids strictly increase and are below the sequence value; every
                               id shuttermint has seen is below the sequence and not above any queued
                               id; the ids shuttermint has seen, in order of receipt, never decrease
     survives o                o is neither a crash nor an attempt that did not commit / was not sent
     canon w                   a synchronised cache's isKeyper flag says "some batch config is stored" *)
From Coq Require Import List NArith ZArith Bool Sorted.
From Verif Require Import Lib.Bytes Lib.Assoc Model.App Model.DKGPure Model.DKGDriver Model.Outbox.
From Verif Require Import Proofs.DKGChain Proofs.DKGExamples Proofs.OutboxEvolve Proofs.OutboxCoh Proofs.Outbox
     Proofs.OutboxRun Proofs.OutboxFlag Proofs.OutboxRun2 Proofs.OutboxMsgs Proofs.OutboxMsgs2 Proofs.OutboxApp Proofs.OutboxExamples.
From Verif Require Import Generated.DkgPhase Proofs.DkgPhase.
Import ListNotations.
Open Scope Z_scope.

(* ------------------------------------------------------------------------------------------ *)
(* After every execution, whenever the cache is synchronised: the map of active DKG instances is
   - as a list - exactly what Load builds from the puredkg, eons and batch-config tables, and no
   entry is dirty.  Discarding the cache therefore loses nothing.  (The isKeyper flag is not
   covered: Load sets it to "some batch config is stored", the running cache to "I was a member
   of a config I saw"; see C08_same_outcome_partial.) *)
Theorem C08_cache_is_load_of_db :
  forall (C E P : Type) (commit_of : P -> C) (eval_of : P -> nat -> E) (verify : nat -> E -> C -> bool)
         (deg_ok : N -> C -> bool) (valid_eval : E -> bool) (me : addr) (L : Z)
         (enum : list (N * active C E P) -> list (N * active C E P)) (delta : Z),
  enum_entries_ok C E P enum ->
  forall (ops : list (op C E P)) (w : world C E P),
  run C E P commit_of eval_of verify deg_ok valid_eval me L enum delta (world_init C E P) ops = Some w ->
  sm_sync (w_sm w) = true ->
  load_dkgs C E P (o_db (w_o w)) (db_pure C E P (o_db (w_o w))) = TOk (sm_dkg (w_sm w)) /\
  (forall k a, nget (sm_dkg (w_sm w)) k = Some a -> a_dirty a = false).
Proof. intros. eapply cache_is_load_of_db; eassumption. Qed.
Print Assumptions C08_cache_is_load_of_db.

Example C08_cache_is_load_of_db_nonvacuous :
  enum_entries_ok DkgEx.C DkgEx.E DkgEx.P (fun m => m) /\
  exists w, ObEx.run_ops ObEx.ops = Some w /\ sm_sync (w_sm w) = true /\ db_sync _ _ _ (o_db (w_o w)) = 8 /\
            map (fun e => fst (fst e)) (w_log w) = [1%N; 2%N; 2%N] /\
            map (fun r => (fst r, rs_success _ _ (snd r))) (db_results _ _ _ (o_db (w_o w))) = [(1%N, true)].
Proof. split; [exact ObEx.enum_id_entries|exact ObEx.run_exists]. Qed.

(* The blocks whose transaction committed are, in order, exactly the first db_sync blocks of the
   chain - each once, none skipped, whatever crashes and repeated attempts the execution
   contains; the position and the applied log only change together, inside a committed block
   transaction (handle_block_sa). *)
Theorem C08_blocks_exactly_once :
  forall (C E P : Type) (commit_of : P -> C) (eval_of : P -> nat -> E) (verify : nat -> E -> C -> bool)
         (deg_ok : N -> C -> bool) (valid_eval : E -> bool) (me : addr) (L : Z)
         (enum : list (N * active C E P) -> list (N * active C E P)) (delta : Z)
         (chain : list (Z * list (dev C E))) (ops : list (op C E P)) (w : world C E P),
  Forall (from_chain C E P chain) ops ->
  run C E P commit_of eval_of verify deg_ok valid_eval me L enum delta (world_init C E P) ops = Some w ->
  0 <= db_sync C E P (o_db (w_o w)) /\
  db_applied C E P (o_db (w_o w)) = firstn (Z.to_nat (db_sync C E P (o_db (w_o w)))) chain.
Proof.
  intros C E P commit_of eval_of verify deg_ok valid_eval me L enum delta chain ops w Hf Hr.
  exact (blocks_exactly_once C E P commit_of eval_of verify deg_ok valid_eval me L enum delta chain ops _ _ Hf Hr
           (init_exactly_once C E P chain)).
Qed.
Print Assumptions C08_blocks_exactly_once.

Example C08_blocks_exactly_once_nonvacuous :
  Forall (from_chain DkgEx.C DkgEx.E DkgEx.P DkgEx.blocks) ObEx.ops /\
  exists w, ObEx.run_ops ObEx.ops = Some w /\ db_sync _ _ _ (o_db (w_o w)) = 8.
Proof.
  split; [exact ObEx.ops_from_chain|]. destruct ObEx.run_exists as [w [H1 [_ [H2 _]]]]. exists w. split; assumption.
Qed.

(* FIFO delivery, partial.  Proved for every execution: what shuttermint receives is always the
   row with the smallest id of the durable outbox; the ids it receives never decrease (a re-send
   after a crash repeats the same id); ids are never reused.  And a send loop in which
   shuttermint answers no message with Error empties the outbox, delivering the queued messages
   in queue order.  Missing: that shuttermint never answers a queued message with Error for
   ever - false for a re-sent batch-config vote (C08_resent_vote_is_error, known finding
   C08:config-vote-resent-after-crash-blocks-outbox). *)
Theorem C08_fifo_delivery_partial :
  forall (C E P : Type) (commit_of : P -> C) (eval_of : P -> nat -> E) (verify : nat -> E -> C -> bool)
         (deg_ok : N -> C -> bool) (valid_eval : E -> bool) (me : addr) (L : Z)
         (enum : list (N * active C E P) -> list (N * active C E P)) (delta : Z)
         (ops : list (op C E P)) (w : world C E P),
  run C E P commit_of eval_of verify deg_ok valid_eval me L enum delta (world_init C E P) ops = Some w ->
  fifo_inv C E P w /\
  forall answers : list resp,
    length answers = length (db_outbox C E P (o_db (w_o w))) ->
    exists w', run C E P commit_of eval_of verify deg_ok valid_eval me L enum delta w
                   (send_rounds C E P answers) = Some w' /\
               db_outbox C E P (o_db (w_o w')) = [] /\
               map (fun e => snd (fst e)) (w_log w') =
               map (fun e => snd (fst e)) (w_log w) ++ map (fun r => snd (snd r)) (db_outbox C E P (o_db (w_o w))).
Proof.
  intros C E P commit_of eval_of verify deg_ok valid_eval me L enum delta ops w Hr.
  assert (Hi : fifo_inv C E P w)
    by exact (fifo_delivery C E P commit_of eval_of verify deg_ok valid_eval me L enum delta ops _ _ Hr (init_fifo C E P)).
  split; [exact Hi|]. intros answers Hlen. apply send_drains; [exact Hlen|exact (proj1 Hi)].
Qed.
Print Assumptions C08_fifo_delivery_partial.

Example C08_fifo_delivery_partial_nonvacuous :
  exists w, ObEx.run_ops ObEx.ops = Some w /\ map (fun e => fst (fst e)) (w_log w) = [1%N; 2%N; 2%N].
Proof. destruct ObEx.run_exists as [w [H1 [_ [_ [H2 _]]]]]. exists w. split; assumption. Qed.

(* What the proved model of shuttermint (Model/App.v) answers to a message sent again after a
   crash between "applied" and "row deleted": Seen for a commitment, an accusation, an apology
   and a DKG-result vote (the keyper then deletes the row) ... *)
Theorem C08_resent_dkg_message_is_seen :
  (forall s sender eon gs s' evs,
     App.handle_poly_commitment s sender eon gs = (s', (code_ok, evs)) ->
     App.handle_poly_commitment s' sender eon gs = (s', seen)) /\
  (forall s sender eon accused s' evs,
     App.handle_accusation s sender eon accused = (s', (code_ok, evs)) ->
     App.handle_accusation s' sender eon accused = (s', seen)) /\
  (forall s sender eon accusers evals s' evs,
     App.handle_apology s sender eon accusers evals = (s', (code_ok, evs)) ->
     App.handle_apology s' sender eon accusers evals = (s', seen)) /\
  (forall enum s sender success eon s' evs,
     App.deliver_dkg_result enum s sender success eon = Some (s', (code_ok, evs)) ->
     eon_counter s' = eon_counter s ->
     App.deliver_dkg_result enum s' sender success eon = Some (s', seen)).
Proof.
  split; [exact resend_commitment_seen|]. split; [exact resend_accusation_seen|].
  split; [exact resend_apology_seen|exact resend_result_seen].
Qed.
Print Assumptions C08_resent_dkg_message_is_seen.

(* ... but Error for a batch-config vote that was applied and has not completed the threshold:
   the keyper keeps the row at the head of its outbox (SendShutterMessages stops at an Error) and
   nothing behind it is sent until the config is accepted by others. *)
Theorem C08_resent_vote_is_error :
  forall enum s sender act keypers threshold idx s',
  App.deliver_batch_config enum s sender act keypers threshold idx = Some (s', (code_ok, [])) ->
  App.deliver_batch_config enum s' sender act keypers threshold idx = Some (s', err).
Proof. exact resend_vote_is_error. Qed.
Print Assumptions C08_resent_vote_is_error.

Example C08_resent_vote_is_error_nonvacuous :
  exists s', App.deliver_batch_config enum_id VoteEx.s0 VoteEx.k1 5%N [VoteEx.k1; VoteEx.k2] 2%N 1%N = Some (s', (code_ok, [])).
Proof. exact VoteEx.first_vote_ok. Qed.

(* Same outcome, partial.  Proved for every execution of every keyper (member of the stored
   configs or not): the execution consisting of its surviving operations alone (no crash, no
   attempt that did not commit, no broadcast that was not sent) is possible too and ends with the
   same database and the same sequence of messages received by shuttermint - crashes are invisible
   in the durable state and to shuttermint.  (The reloaded cache of a keyper that is in no stored
   config says isKeyper where the running cache does not; Proofs/OutboxFlag.v shows that a
   committed block transaction does the same to the database and the DKG map either way.)
   Missing, and the only thing missing: the surviving operations still contain the re-sends that
   follow a lost broadcast reply or a deletion that did not commit.  That shuttermint answers
   them Seen, so that they change nothing, is C08_resent_dkg_message_is_seen for DKG messages and
   result votes; for a batch-config vote it is false (C08_resent_vote_is_error, known finding
   C08:config-vote-resent-after-crash-blocks-outbox), and then the run with the crash and the run
   without it do differ. *)
Theorem C08_same_outcome_partial :
  forall (C E P : Type) (commit_of : P -> C) (eval_of : P -> nat -> E) (verify : nat -> E -> C -> bool)
         (deg_ok : N -> C -> bool) (valid_eval : E -> bool) (me : addr) (L : Z)
         (enum : list (N * active C E P) -> list (N * active C E P)) (delta : Z),
  enum_entries_ok C E P enum ->
  forall (ops : list (op C E P)) (w : world C E P),
  run C E P commit_of eval_of verify deg_ok valid_eval me L enum delta (world_init C E P) ops = Some w ->
  exists w', run C E P commit_of eval_of verify deg_ok valid_eval me L enum delta (world_init C E P)
                 (filter (survives C E P) ops) = Some w' /\
             w_o w = w_o w' /\ w_log w = w_log w'.
Proof. intros. eapply same_outcome; eassumption. Qed.
Print Assumptions C08_same_outcome_partial.

Example C08_same_outcome_partial_nonvacuous :
  exists w w', ObEx.run_ops ObEx.ops = Some w /\ ObEx.run_ops (filter (survives DkgEx.C DkgEx.E DkgEx.P) ObEx.ops) = Some w' /\
               w_o w = w_o w' /\ w_log w = w_log w'.
Proof. exact ObEx.survivors_same. Qed.

(* Single commitment.  For every execution (any crash schedule, any attempts that did not
   commit, any randomness): all polynomial commitments of one eon that shuttermint has received
   from this keyper or that are queued in its outbox are equal - a second dealing for an eon never
   commits - and whenever the keyper stores a DKG instance with a polynomial for the eon (in the
   puredkg table, or in a synchronised cache) every such commitment is the commitment of that
   polynomial. *)
Theorem C08_single_commitment :
  forall (C E P : Type) (commit_of : P -> C) (eval_of : P -> nat -> E) (verify : nat -> E -> C -> bool)
         (deg_ok : N -> C -> bool) (valid_eval : E -> bool) (me : addr) (L : Z)
         (enum : list (N * active C E P) -> list (N * active C E P)) (delta : Z),
  enum_entries_ok C E P enum ->
  forall (ops : list (op C E P)) (w : world C E P),
  run C E P commit_of eval_of verify deg_ok valid_eval me L enum delta (world_init C E P) ops = Some w ->
  (forall eon c1 c2, committed C E P (w_log w) (o_db (w_o w)) eon c1 ->
                     committed C E P (w_log w) (o_db (w_o w)) eon c2 -> c1 = c2) /\
  (forall eon pu p c, nget (db_pure C E P (o_db (w_o w))) eon = Some pu -> p_poly pu = Some p ->
                      committed C E P (w_log w) (o_db (w_o w)) eon c -> c = commit_of p) /\
  (forall eon a p c, sm_sync (w_sm w) = true -> nget (sm_dkg (w_sm w)) eon = Some a -> p_poly (a_pure a) = Some p ->
                     committed C E P (w_log w) (o_db (w_o w)) eon c -> c = commit_of p).
Proof. intros. eapply single_commitment; eassumption. Qed.
Print Assumptions C08_single_commitment.

Example C08_single_commitment_nonvacuous :
  exists w pu, ObEx.run_ops (firstn 6 ObEx.ops) = Some w /\
            committed DkgEx.C DkgEx.E DkgEx.P (w_log w) (o_db (w_o w)) 1%N 10%N /\
            nget (db_pure _ _ _ (o_db (w_o w))) 1%N = Some pu /\ p_poly pu = Some 10%N.
Proof.
  vm_compute. do 2 eexists. split; [reflexivity|]. split; [|split; reflexivity].
  repeat (first [left; reflexivity | right]).
Qed.

(* Outbox consistency.  For every execution: every row of poly_evals, every evaluation in a
   poly-eval message queued or received by shuttermint, every apology value and every DKG-result
   vote is consistent with the keyper's durable state:
     ev_ok  .. eon adr v      v = eval_of p i for the index i of adr in the eon's keyper list (eons and
                              batch-config tables) and a polynomial p such that every commitment of the
                              eon received or queued is commit_of p  (C08_single_commitment: there is
                              at most one)
     apo_ok .. eon accs vals  vals = map (eval_of p) idxs, accs the addresses of idxs, same p
     res_ok d eon ok          the dkg_result row of the eon exists and says ok. *)
Theorem C08_outbox_consistent :
  forall (C E P : Type) (commit_of : P -> C) (eval_of : P -> nat -> E) (verify : nat -> E -> C -> bool)
         (deg_ok : N -> C -> bool) (valid_eval : E -> bool) (me : addr) (L : Z)
         (enum : list (N * active C E P) -> list (N * active C E P)) (delta : Z),
  enum_entries_ok C E P enum ->
  forall (ops : list (op C E P)) (w : world C E P),
  run C E P commit_of eval_of verify deg_ok valid_eval me L enum delta (world_init C E P) ops = Some w ->
  let lg := w_log w in let d := o_db (w_o w) in
  (forall eon adr v, In (eon, (adr, v)) (db_evals C E P d) -> ev_ok C E P commit_of eval_of lg d eon adr v) /\
  (forall eon rs vs r v, In (MEvals eon rs vs) (allmsgs C E P lg d) -> In (r, v) (combine rs vs) ->
                         ev_ok C E P commit_of eval_of lg d eon r v) /\
  (forall eon accs vals, In (MApology eon accs vals) (allmsgs C E P lg d) -> apo_ok C E P commit_of eval_of lg d eon accs vals) /\
  (forall eon ok, In (MResult eon ok) (allmsgs C E P lg d) -> res_ok C E P d eon ok).
Proof.
  intros C E P commit_of eval_of verify deg_ok valid_eval me L enum delta Henum ops w Hr lg d.
  destruct (outbox_consistent C E P commit_of eval_of verify deg_ok valid_eval me L enum delta Henum ops w Hr) as [A B Cc D].
  repeat split; assumption.
Qed.
Print Assumptions C08_outbox_consistent.

Example C08_outbox_consistent_nonvacuous :
  (exists w, ObEx.run_ops (firstn 6 ObEx.ops) = Some w /\ In (1%N, (DkgEx.B, 10%N)) (db_evals _ _ _ (o_db (w_o w)))) /\
  (exists w, ObEx.run_ops ObEx.ops = Some w /\ In (MResult 1%N true) (allmsgs DkgEx.C DkgEx.E DkgEx.P (w_log w) (o_db (w_o w)))).
Proof.
  split; vm_compute; eexists; (split; [reflexivity|]); repeat (first [left; reflexivity | right]).
Qed.

(* Whatever shuttermint receives is, at that moment, the head row of the durable outbox - never a
   value from the volatile cache, never a row of a transaction that did not commit. *)
Theorem C08_sent_is_outbox_head :
  forall (C E P : Type) (commit_of : P -> C) (eval_of : P -> nat -> E) (verify : nat -> E -> C -> bool)
         (deg_ok : N -> C -> bool) (valid_eval : E -> bool) (me : addr) (L : Z)
         (enum : list (N * active C E P) -> list (N * active C E P)) (delta : Z)
         (w : world C E P) (o : op C E P) (w' : world C E P),
  step C E P commit_of eval_of verify deg_ok valid_eval me L enum delta w o = Some w' ->
  w_log w' = w_log w \/
  exists id ds m a, head C E P (o_db (w_o w)) = Some (id, (ds, m)) /\ w_log w' = w_log w ++ [(id, m, a)] /\ w_o w' = w_o w.
Proof. exact step_sends_head. Qed.
Print Assumptions C08_sent_is_outbox_head.

Example C08_sent_is_outbox_head_nonvacuous :
  exists w w', ObEx.run_ops (firstn 2 ObEx.ops) = Some w /\
    step DkgEx.C DkgEx.E DkgEx.P DkgEx.commit_of DkgEx.eval_of DkgEx.verify DkgEx.deg_ok DkgEx.valid_eval DkgEx.A DkgEx.L
         (fun m => m) 1000 w (OSend (SAnswer ROk)) = Some w' /\ length (w_log w') = 1%nat.
Proof. vm_compute. do 2 eexists. repeat split. Qed.

(* The phase function the block transaction uses is the one generated from
   keyper/dkgphase/phase.go on every check (see C07_phase_function_agrees_with_source). *)
Theorem C08_phase_function_agrees_with_source :
  forall L height start : Z, phase_at L height start = gen_phase_at L height start.
Proof. exact phase_at_is_generated. Qed.
Print Assumptions C08_phase_function_agrees_with_source.

Example C08_phase_function_agrees_with_source_nonvacuous :
  gen_phase_at 7 9 9 = Dealing /\ gen_phase_at 7 30 9 = Finalized.
Proof. split; reflexivity. Qed.
