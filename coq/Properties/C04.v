(* C04 - gossip validation accepts exactly the well-formed, cryptographically valid messages.
   This file only states the theorems; proofs are in Proofs/Gossip.v and Proofs/GossipTotal.v.

   The model (Model/Gossip.v, Model/GossipMisc.v) follows the code after the repair committed in
   /repo ("fix: key shares validation rejects a keyper index outside the DKG result", 2767adb0877f).
   The key-share validator of the pinned tree is kept as legacy_validate_shares and the
   property is refuted for it below (defect D1).

   Idealisation: the group element of a share / key is a label (share of keyper i of eon key
   set e for identity x; epoch key of e for x; anything else) next to its raw bytes;
   verify_share / verify_key state what the pairing checks decide about such values. The
   envelope / protobuf layer is an oracle ([wire]). *)
From Coq Require Import List NArith ZArith Bool Lia.
From Verif Require Import Lib.Bytes Model.EpochKGLabels Model.Gossip Model.GossipMisc
     Proofs.Gossip Proofs.GossipTotal.
Import ListNotations.

(* For every receiver database whose eon rows name keyper config indices of the integer range
   (the batch config table cannot hold others) and every configured maximum below 2^63, and for
   every decoded key-shares message: the validator accepts iff the instance id matches, the eon
   is at most MaxInt64, the batch config of that index exists and lists the receiver, the DKG
   result of the latest eon of that index exists, succeeded and decodes (ks: its key set, n: its
   number of public key shares), there are between 1 and max shares, identities do not decrease,
   the sender index is below n, and every share decodes and verifies against public key share
   [sender index] for its identity. It never panics. *)
Theorem C04_shares_iff : forall st m,
  eons_fit st -> max_fits st ->
  (validate_shares st m = GAccept <-> wf_shares st m) /\ validate_shares st m <> GPanic.
Proof. exact shares_iff. Qed.
Print Assumptions C04_shares_iff.

Definition ex_state : cstate :=
  mkCState 7 3 0 [(1%Z, [0; 1; 2]%N)] [(5%Z, 1%Z); (4%Z, 1%Z)] [(5%Z, DkgOk 0 3 2); (4%Z, DkgBad)]
           [(1%Z, [162%N], [9%N])] [].
Definition ex_shares : shares_msg :=
  mkSharesMsg 7 1 2 [([161%N], mkKV [1%N] (Some (LShare 0 2 [161%N])));
                     ([162%N], mkKV [2%N] (Some (LShare 0 2 [162%N])))] SxNone.

Example C04_shares_iff_nonvacuous :
  eons_fit ex_state /\ max_fits ex_state /\ wf_shares ex_state ex_shares /\
  validate_shares ex_state ex_shares = GAccept /\
  validate_shares ex_state (mkSharesMsg 7 1 2 (rev (s_shares ex_shares)) SxNone) = GReject (GS RKeysUnordered).
Proof.
  assert (Hf : eons_fit ex_state).
  { intros e k [H|[H|[]]]; injection H as <- <-; lia. }
  assert (Hm : max_fits ex_state) by (unfold max_fits, max_int64; simpl; lia).
  split; [exact Hf|]. split; [exact Hm|]. split.
  - apply (shares_iff ex_state ex_shares Hf Hm). vm_compute. reflexivity.
  - split; vm_compute; reflexivity.
Qed.

(* The keys validator: the same structural rule; each key decodes and either verifies as the
   epoch secret key of its identity under the eon public key of that DKG result, or its bytes
   equal the key stored for (eon, identity). *)
Theorem C04_keys_iff : forall st m,
  eons_fit st -> max_fits st ->
  (validate_keys st m = GAccept <-> wf_keys st m) /\ validate_keys st m <> GPanic.
Proof. exact keys_iff. Qed.
Print Assumptions C04_keys_iff.

(* a message whose second key is not the epoch key but byte-equal to the stored one is accepted;
   the same bytes for an identity with nothing stored are refused *)
Example C04_keys_iff_nonvacuous :
  let m := mkKeysMsg 7 1 [([161%N], mkKV [1%N] (Some (LKey 0 [161%N]))); ([162%N], mkKV [9%N] (Some LOther))] KxNone in
  wf_keys ex_state m /\ validate_keys ex_state m = GAccept /\
  validate_keys ex_state (mkKeysMsg 7 1 [([161%N], mkKV [9%N] (Some LOther))] KxNone) = GReject (GS RKeyInvalid).
Proof.
  assert (Hf : eons_fit ex_state).
  { intros e k [H|[H|[]]]; injection H as <- <-; lia. }
  assert (Hm : max_fits ex_state) by (unfold max_fits, max_int64; simpl; lia).
  cbv zeta. split.
  - apply (keys_iff ex_state _ Hf Hm). vm_compute. reflexivity.
  - split; vm_compute; reflexivity.
Qed.

(* The pipeline libp2p-pubsub + runHandleMessages runs the handlers only for a message the
   combined validator accepted: for every validator, every handler (any state transformer, any
   outgoing messages) and every state, a verdict other than Accept leaves the state unchanged
   and emits nothing. (That the real validators themselves write nothing is checked on every
   executed case: database dump before = after.) *)
Theorem C04_reject_is_inert :
  forall (S O : Type) (validate : S -> vres) (handle_st : S -> S * list O) (st : S),
    validate st <> VAccept -> receive S O validate handle_st st = (st, []).
Proof.
  intros S O validate handle_st st H. unfold receive. destruct (validate st); try reflexivity. contradiction.
Qed.
Print Assumptions C04_reject_is_inert.

Example C04_reject_is_inert_nonvacuous :
  let st := mkGState (mkFState ex_state []) [] {| an_instance := 7; an_maxkeys := 3; an_eonkeys := []; an_keypersets := [] |} [] in
  let bad := WEnv envelope_version (PMsg (MShares (mkSharesMsg 8 1 2 (s_shares ex_shares) SxNone))) in
  combined NCore st TpShares TpShares bad = VReject /\
  receive gstate nat (fun s => combined NCore s TpShares TpShares bad) (fun s => (s, [1%nat])) st = (st, []).
Proof. cbv zeta. split; vm_compute; reflexivity. Qed.

(* The combined validator of a subscribed topic, on every node flavour: it accepts iff the
   pubsub topic is that topic, the envelope decodes (exact version, a registered message type,
   Validate) to a message of the topic's type, and every validator registered for the topic
   accepts; it rejects iff at least one of them rejects (wherever it stands in the list); there
   is no third verdict. *)
Theorem C04_combined_reject_dominates : forall nd st tp mt w,
  validators_for nd tp <> [] ->
  (combined nd st tp mt w = VAccept <->
   mt = tp /\ exists m, unmarshal_pubsub w = Some m /\ topic_of_type (type_of m) = tp /\
                        Forall (fun v => snd v st m = GAccept) (validators_for nd tp)) /\
  (combined nd st tp mt w = VReject <->
   exists v, In v (validators_for nd tp) /\ wrapped (fst v) (snd v st) mt w = VReject) /\
  (combined nd st tp mt w = VAccept \/ combined nd st tp mt w = VReject).
Proof.
  intros nd st tp mt w Hne. split; [|split].
  - apply combined_accept_iff; [exact Hne | apply validators_of_topic].
  - apply combined_reject_iff.
  - apply combined_verdicts.
Qed.
Print Assumptions C04_combined_reject_dominates.

(* a Gnosis node runs two validators on the key-shares topic: a message the core validator
   accepts is rejected because the Gnosis one refuses its missing Extra *)
Example C04_combined_reject_dominates_nonvacuous :
  let st := mkGState (mkFState ex_state []) [] {| an_instance := 7; an_maxkeys := 3; an_eonkeys := []; an_keypersets := [] |} [] in
  let w := WEnv envelope_version (PMsg (MShares ex_shares)) in
  length (validators_for NGnosis TpShares) = 2%nat /\
  combined NCore st TpShares TpShares w = VAccept /\
  combined NGnosis st TpShares TpShares w = VReject /\
  combined NCore st TpShares TpKeys w = VReject.
Proof. cbv zeta. split; [|split; [|split]]; vm_compute; reflexivity. Qed.

(* ---- the key-share validator of the pinned tree (before the repair) ---- *)

(* "the claimed sender index exists ... every other message is rejected" failed: a one-share
   message with keyper index 3 against a DKG result with three public key shares is not
   well-formed, and the validator panics instead of rejecting (D1). The repaired validator
   rejects it. *)
Theorem C04_legacy_shares_refuted :
  exists st m, eons_fit st /\ max_fits st /\ ~ wf_shares st m /\
               legacy_validate_shares st m = GPanic /\ validate_shares st m = GReject GSenderRange.
Proof.
  exists d1_state, d1_msg. destruct d1_state_fits as [Hf Hm].
  split; [exact Hf|]. split; [exact Hm|]. split.
  - intros Hwf. apply (shares_iff d1_state d1_msg Hf Hm) in Hwf. rewrite repaired_shares_rejects_d1 in Hwf. discriminate.
  - split; [exact legacy_shares_panics | exact repaired_shares_rejects_d1].
Qed.
Print Assumptions C04_legacy_shares_refuted.

(* partial: what did hold for the pinned tree - the same iff, on the messages whose sender index
   lies inside the DKG result whenever the checks in front of the loop pass *)
Theorem C04_legacy_shares_iff_partial : forall st m,
  eons_fit st -> max_fits st ->
  (forall ks n, validate_prelude st (s_inst m) (s_eon m) (length (s_shares m)) = PreOk ks n -> (s_kidx m < n)%N) ->
  (legacy_validate_shares st m = GAccept <-> wf_shares st m) /\ legacy_validate_shares st m <> GPanic.
Proof. exact legacy_shares_iff_in_range. Qed.
Print Assumptions C04_legacy_shares_iff_partial.

Example C04_legacy_shares_iff_partial_nonvacuous :
  (forall ks n, validate_prelude ex_state (s_inst ex_shares) (s_eon ex_shares) (length (s_shares ex_shares)) = PreOk ks n ->
                (s_kidx ex_shares < n)%N) /\ legacy_validate_shares ex_state ex_shares = GAccept.
Proof.
  split; [|vm_compute; reflexivity]. intros ks n H. vm_compute in H. injection H as <- <-. vm_compute. reflexivity.
Qed.

(* The premise eons_fit is needed: GetKeyperIndex looks the batch config up under int32(eon),
   the DKG result under the full int64. In a database with an eon row for keyper config index
   2^32 + 1 a message naming that index is accepted against batch config 1. Such a row cannot
   arise (eons are started for batch configs, whose index column is a 32-bit integer). *)
Theorem C04_int32_cast_matters :
  exists st m, ~ eons_fit st /\ validate_shares st m = GAccept /\ ~ wf_shares st m.
Proof. exists cast_state, cast_msg. exact cast_matters. Qed.
Print Assumptions C04_int32_cast_matters.

(* ------------------------------------------------------------------------------------- *)
(* Second tie to the source. Generated/GossipValidateFuns.v is rewritten from the repository on
   every run of this check: medley.Uint64ToInt64Safe, Queries.GetKeyperIndex, checkKeyShares,
   checkKeysErrors and the ValidateMessage of the key-share, key and eon-public-key handlers,
   statement by statement (guards in source order, integer casts as wrap-arounds, slice indices
   with a panic outside the slice, which error class of which lookup is tested where); the
   translator refuses any statement it does not understand. With the queries, decoders and
   pairing checks instantiated from the model state ([mo st]), and for DKG results with fewer
   than 2^63 public key shares (a Go slice), the translated validators decide what the model's
   validators decide - the same class of verdict (accept / reject / panic) for every state and
   message; hence the characterisation above holds for the translated function itself. *)
From Verif Require Import Generated.GossipValidateFuns Proofs.GossipValidateFuns.
Theorem C04_translated_validators_agree : forall st,
  dkg_small st ->
  (forall m, same_class (gen_validate_shares (mo st) m) (validate_shares st m)) /\
  (forall m, same_class (gen_validate_keys (mo st) m) (validate_keys st m)) /\
  (forall gst m, same_class (gen_validate_eonpk (mo (g_core gst)) m) (validate_eonpk gst m)).
Proof.
  intros st H. split; [|split].
  - intros m. apply gen_validate_shares_agrees. exact H.
  - intros m. apply gen_validate_keys_agrees. exact H.
  - intros gst m. apply gen_validate_eonpk_agrees.
Qed.
Print Assumptions C04_translated_validators_agree.

Theorem C04_translated_shares_iff : forall st m,
  eons_fit st -> max_fits st -> dkg_small st ->
  (gen_validate_shares (mo st) m = GAccept <-> wf_shares st m) /\
  gen_validate_shares (mo st) m <> GPanic.
Proof.
  intros st m Hf Hm Hs. destruct (C04_shares_iff st m Hf Hm) as [Hiff Hnp].
  pose proof (gen_validate_shares_agrees st m Hs) as Hc. split.
  - rewrite (same_class_accept _ _ Hc). exact Hiff.
  - intros E. apply Hnp. apply (same_class_panic _ _ Hc). exact E.
Qed.
Print Assumptions C04_translated_shares_iff.

(* the translated validator, run on the witness message and on its reversal *)
Example C04_translated_nonvacuous :
  dkg_small ex_state /\
  gen_validate_shares (mo ex_state) ex_shares = GAccept /\
  gen_validate_shares (mo ex_state) (mkSharesMsg 7 1 2 (rev (s_shares ex_shares)) SxNone)
  = GReject (GS RKeysUnordered).
Proof.
  split; [|split; vm_compute; reflexivity].
  intros z e n t H. unfold dkg_for_config in H. cbn [ex_state c_eons c_dkg] in H.
  destruct (max_eon _ z) as [e'|]; [|discriminate].
  cbn [zlookup] in H.
  repeat match type of H with
         | (if ?c then _ else _) = _ => destruct c
         end; try discriminate; inversion H; subst; vm_compute; reflexivity.
Qed.
