(* C17 - trigger definitions round-trip, match totally, are never hidden by the filter.
   The model (Model/TriggerDef.v) follows eventtrigger.go after the two repairs made by this
   development (commits 2ce1f88 and 9dbf1bd in /repo, see known_findings/C17.json); the
   refutations of the unrepaired functions are kept against their legacy_ copies.
   This file only states the theorems; proofs are in Proofs/TriggerDef*.v. *)
From Coq Require Import List NArith ZArith Bool String Lia.
From Verif Require Import Lib.Bytes Lib.Rlp Model.TriggerDef.
From Verif Require Import Proofs.TriggerDefRlp Proofs.TriggerDefMatch Proofs.TriggerDefCodec Proofs.TriggerDefLegacy.
Import ListNotations.
Open Scope string_scope.
Open Scope list_scope.

(* Every definition that passes Validate (and whose contract is an address, which the Go type
   guarantees) is turned into an RLP item by the encoder, and the decoder's reading of that
   item is the same definition. *)
Theorem C17_item_roundtrip : forall d,
  wf_def d -> validate d = true ->
  exists it, to_item d = Some it /\ of_item it = Some d.
Proof. exact item_roundtrip. Qed.
Print Assumptions C17_item_roundtrip.

(* Byte level: MarshalBytes does not panic and UnmarshalBytes of its output returns the same
   definition.  The only side condition is that the encoding is at most 2^64 bytes long (RLP
   cannot express longer payloads; no Go slice is that long). *)
Theorem C17_bytes_roundtrip : forall d,
  wf_def d -> validate d = true ->
  exists b, marshal d = Some b /\ ((blen b <= 18446744073709551616)%N -> unmarshal b = UOk d).
Proof. exact bytes_roundtrip. Qed.
Print Assumptions C17_bytes_roundtrip.

(* the byte-level RLP fact used above, for every item *)
Theorem C17_rlp_roundtrip : forall it,
  (blen (encode it) < 18446744073709551616)%N -> decode (encode it) = DOk it.
Proof. exact decode_encode. Qed.
Print Assumptions C17_rlp_roundtrip.

(* Whatever bytes UnmarshalBytes accepts, the result is a valid definition; and the model's
   decoder never runs out of its fuel, for any input. *)
Theorem C17_decoded_is_valid : forall b d,
  unmarshal b = UOk d -> wf_def d /\ validate d = true.
Proof. exact decoded_is_valid. Qed.
Print Assumptions C17_decoded_is_valid.

Theorem C17_decoder_fuel_suffices : forall b, unmarshal b <> UFuel.
Proof. exact unmarshal_never_out_of_fuel. Qed.
Print Assumptions C17_decoder_fuel_suffices.

(* Match on a valid definition and ANY log (any topics, any data, any embedded offsets and
   lengths): the result is yes or no, never a panic or an error; and every value GetValue
   materialises is a topic of the log or at most max(32, |data|) bytes long (the only
   allocation that depends on the log). wf_log: |data| <= 2^48, the Go runtime's maxAlloc. *)
Theorem C17_match_total : forall d lg,
  validate d = true -> wf_log lg ->
  (exists b, match_def d lg = MOk b) /\
  (forall p, In p (d_preds d) -> exists v, get_value p lg = VOk v /\
       (zlen v <= Z.max 32 (zlen (l_data lg)) \/ In v (l_topics lg)))%Z.
Proof. exact match_total. Qed.
Print Assumptions C17_match_total.

(* On well-formed data (every reference of the definition resolves inside the log as
   docs/event.md describes: ref_value) Match is exactly the documented predicate:
   same contract and every operator holds on its referenced value (matches_spec). *)
Theorem C17_match_semantics : forall d lg,
  validate d = true -> wf_log lg -> well_formed_for d lg ->
  exists b, match_def d lg = MOk b /\ (b = true <-> matches_spec d lg).
Proof. exact match_semantics. Qed.
Print Assumptions C17_match_semantics.

(* For every valid definition ToFilterQuery succeeds. *)
Theorem C17_filter_exists : forall d,
  validate d = true -> exists q, to_filter d = FOk q.
Proof. exact filter_exists. Qed.
Print Assumptions C17_filter_exists.

(* Every log that matches passes the derived filter query under go-ethereum's filter rule
   (for any definition for which a query exists, valid or not). *)
Theorem C17_filter_sound : forall d lg q,
  to_filter d = FOk q -> match_def d lg = MOk true ->
  passes_filter (d_contract d) q lg = true.
Proof. exact filter_sound. Qed.
Print Assumptions C17_filter_sound.

(* ---- the code as it was on the pinned tree ------------------------------------------------ *)

(* D11: Match panicked on a valid definition (short data; also a pointer beyond the data and
   a length that makeslice refuses, see Proofs/TriggerDefLegacy.v). *)
Theorem C17_legacy_match_total_refuted :
  exists d lg, wf_def d /\ legacy_validate d = true /\ wf_log lg /\ legacy_match d lg = MPanic.
Proof.
  exists d11_def, d11_log_short. pose proof legacy_match_panics.
  repeat split; try tauto. unfold wf_log. vm_compute. discriminate.
Qed.
Print Assumptions C17_legacy_match_total_refuted.

(* D12: a definition that passed Validate (and round-tripped through the codec) for which
   ToFilterQuery fails. *)
Theorem C17_legacy_filter_exists_refuted :
  exists d, wf_def d /\ legacy_validate d = true /\ to_filter d = FErr.
Proof. exists d12_def. pose proof legacy_valid_without_filter. tauto. Qed.
Print Assumptions C17_legacy_filter_exists_refuted.

(* ---- the hypotheses are satisfiable: one definition with a topic, a static and a dynamic
   predicate, and a log that matches it ---------------------------------------------------- *)

Definition ex_topic : bytes := hx "ddf252ad1be2c89b69c2b068fc378daa952ba7f163c4a11628f55a4df523b3ef".
Definition ex_def : def :=
  mkDef addrA [mkPred false 0 5 [] [ex_topic];          (* topic 0 == Transfer signature *)
               mkPred false 4 4 [Some 100%Z] [];         (* first data word >= 100 *)
               mkPred true 5 5 [] [hx "68656c6c6f"]].    (* second argument == "hello" *)
Definition ex_log : log :=
  mkLog addrA [ex_topic]
    (hx "0000000000000000000000000000000000000000000000000000000000000064" ++
     hx "0000000000000000000000000000000000000000000000000000000000000040" ++
     hx "0000000000000000000000000000000000000000000000000000000000000005" ++
     hx "68656c6c6f000000000000000000000000000000000000000000000000000000").

Example C17_roundtrip_nonvacuous :
  wf_def ex_def /\ validate ex_def = true /\
  (exists b, marshal ex_def = Some b /\ unmarshal b = UOk ex_def /\ (blen b <= 18446744073709551616)%N).
Proof.
  split; [reflexivity|]. split; [vm_compute; reflexivity|].
  eexists. split; [vm_compute; reflexivity|]. split; vm_compute; [reflexivity|discriminate].
Qed.

Example C17_match_nonvacuous :
  validate ex_def = true /\ wf_log ex_log /\ well_formed_for ex_def ex_log /\
  match_def ex_def ex_log = MOk true /\
  match_def ex_def (mkLog addrA [ex_topic] (repeat 0%N 40)) = MOk false /\
  to_filter ex_def = FOk [[ex_topic]] /\
  passes_filter addrA [[ex_topic]] ex_log = true.
Proof.
  split; [vm_compute; reflexivity|]. split; [unfold wf_log; vm_compute; discriminate|].
  split.
  - intros p [<-|[<-|[<-|[]]]].
    + eexists. apply RV_topic; reflexivity.
    + eexists. apply RV_static; [reflexivity|reflexivity|].
      unfold word_at. split; [vm_compute; discriminate|]. split; [vm_compute; discriminate|reflexivity].
    + eexists. eapply RV_dynamic; try reflexivity.
      * unfold word_at. split; [vm_compute; discriminate|]. split; [vm_compute; discriminate|reflexivity].
      * unfold word_at. split; [vm_compute; discriminate|]. split; [vm_compute; discriminate|reflexivity].
      * vm_compute. discriminate.
  - repeat split; vm_compute; reflexivity.
Qed.

Example C17_legacy_refutations_concrete :
  legacy_match d11_def d11_log_pointer = MPanic /\ legacy_match d11_def d11_log_length = MPanic /\
  legacy_match d12_def_empty (mkLog addrA [] []) = MOk true /\ to_filter d12_def_empty = FErr /\
  (* the repaired functions on the same inputs *)
  match_def d11_def d11_log_short = MOk false /\ match_def d11_def d11_log_pointer = MOk false /\
  match_def d11_def d11_log_length = MOk false /\ validate d12_def = false /\ validate d12_def_empty = false.
Proof. repeat split; vm_compute; reflexivity. Qed.

(* ---- second tie: the decision logic as the translator reads it off the source ------------------
   Generated/TriggerDefFuns.v is rewritten from keyperimpl/shutterservice/eventtrigger.go on every
   check (harness/cmd/translate/gen_triggerdeffuns.go); the model's functions are proved equal to
   the translated ones, so a change of a comparison, a constant, a cast or an op code in the
   source breaks this obligation before any case is generated. Translated: the constants Word,
   Version and the Op numbering; Op.Validate / NumIntArgs / NumByteArgs; LogValueRef.Validate and
   IsTopic; ValuePredicate.Validate with validateArgNums / validateArgValues; LogPredicate.Validate
   (32-byte rule of fix 2ce1f88); the dispatch of ValuePredicate.Match; the `continue` guards of
   the loops of ToFilterQuery and of the duplicate check; readWordAsUint64, getOffsetDataValue
   (fix 9dbf1bd) and GetValue with their uint64 arithmetic. *)
From Verif Require Import Generated.TriggerDefFuns Proofs.TriggerDefFuns.
Theorem C17_translated_trigger_logic_agrees :
  (gen_word = 32 /\ Z.to_N gen_version = version /\ gen_ops = [0; 1; 2; 3; 4; 5])%Z /\
  (forall op, gen_op_valid (Z.of_N op) = op_valid op) /\
  (forall op, gen_num_int_args (Z.of_N op) = Z.of_nat (num_int_args op)) /\
  (forall op, gen_num_byte_args (Z.of_N op) = Z.of_nat (num_byte_args op)) /\
  (forall p, gen_is_topic (Z.of_N (p_off p)) = is_topic p) /\
  (forall p, gen_ref_validate (p_dyn p) (Z.of_N (p_off p)) = ref_validate p) /\
  (forall p, gen_vp_validate (Z.of_N (p_op p)) (Z.of_nat (List.length (p_ints p))) (Z.of_nat (List.length (p_bytes p)))
                             (map arg_view (p_ints p)) = vp_validate p) /\
  (forall p, gen_lp_validate (p_dyn p) (Z.of_N (p_off p)) (Z.of_N (p_op p)) (vp_validate p)
                             (Z.of_nat (List.length (hd [] (p_bytes p)))) = lp_validate p) /\
  (forall p v a b,
     ((p_op p <= 4)%N -> exists r, p_ints p = Some a :: r) ->
     (p_op p = 5%N -> exists r, p_bytes p = b :: r) ->
     vp_match p v = gen_vp_match (Z.of_N (p_op p)) (cmp3 (Z.of_N (be v)) a) (bytes_eqb v b)) /\
  (forall p, gen_filter_selects (Z.of_N (p_off p)) (Z.of_N (p_op p)) = is_topic p && (p_op p =? 5)%N) /\
  (forall p, gen_dup_check_selects (Z.of_N (p_off p)) (Z.of_N (p_op p)) = is_topic_eq p) /\
  (forall data start, gen_read_word_as_uint64 data start = read_word_u64 data start) /\
  (forall p lg, gen_get_offset_data_value (Z.of_N (p_off p)) (l_data lg) = get_offset_data_value p lg) /\
  (forall p lg, gen_get_value (p_dyn p) (Z.of_N (p_off p)) (l_topics lg) (l_data lg) = get_value p lg).
Proof.
  exact (conj consts_agree (conj op_valid_agrees (conj num_int_args_agrees (conj num_byte_args_agrees
    (conj is_topic_agrees (conj ref_validate_agrees (conj vp_validate_agrees (conj lp_validate_agrees
    (conj vp_match_agrees (conj filter_selects_agrees (conj dup_check_selects_agrees (conj read_word_agrees
    (conj get_offset_data_value_agrees get_value_agrees))))))))))))).
Qed.
Print Assumptions C17_translated_trigger_logic_agrees.

(* the translated functions on the running example: the dynamic reference resolves to "hello",
   and on truncated data to nil *)
Example C17_translated_nonvacuous :
  gen_get_value true 5 (l_topics ex_log) (l_data ex_log) = VOk (hx "68656c6c6f") /\
  gen_get_value true 5 [] (repeat 0%N 40) = VOk [] /\
  gen_lp_validate false 1 5 true 31 = false /\ gen_lp_validate false 1 5 true 32 = true /\
  gen_vp_match 1 0 false = MOk true /\ gen_vp_match 6 0 false = MErr.
Proof. repeat split; vm_compute; reflexivity. Qed.
