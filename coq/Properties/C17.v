(* C17 - trigger definitions round-trip, match totally, are never hidden by the filter.
   The model (Model/TriggerDef.v) follows eventtrigger.go after the two repairs made by this
   development (commits 2ce1f88 and 9dbf1bd in /repo, see known_findings/C17.json); the
   refutations of the unrepaired functions are kept against their legacy_ copies.
   This file only states the theorems; proofs are in Proofs/TriggerDef*.v. *)
From Coq Require Import List NArith ZArith Bool String Lia.
From Verif Require Import Lib.Bytes Lib.Rlp Model.TriggerDef.
From Verif Require Import Proofs.TriggerDefRlp Proofs.TriggerDefMatch Proofs.TriggerDefCodec Proofs.TriggerDefLegacy.
Import ListNotations.
Open Scope string_scope.
Open Scope list_scope.

(* Every definition that passes Validate (and whose contract is an address, which the Go type
   guarantees) is turned into an RLP item by the encoder, and the decoder's reading of that
   item is the same definition. *)
Theorem C17_item_roundtrip : forall d,
  wf_def d -> validate d = true ->
  exists it, to_item d = Some it /\ of_item it = Some d.
Proof. exact item_roundtrip. Qed.
Print Assumptions C17_item_roundtrip.

(* Byte level: MarshalBytes does not panic and UnmarshalBytes of its output returns the same
   definition.  The only side condition is that the encoding is at most 2^64 bytes long (RLP
   cannot express longer payloads; no Go slice is that long). *)
Theorem C17_bytes_roundtrip : forall d,
  wf_def d -> validate d = true ->
  exists b, marshal d = Some b /\ ((blen b <= 18446744073709551616)%N -> unmarshal b = UOk d).
Proof. exact bytes_roundtrip. Qed.
Print Assumptions C17_bytes_roundtrip.

(* the byte-level RLP fact used above, for every item *)
Theorem C17_rlp_roundtrip : forall it,
  (blen (encode it) < 18446744073709551616)%N -> decode (encode it) = DOk it.
Proof. exact decode_encode. Qed.
Print Assumptions C17_rlp_roundtrip.

(* Whatever bytes UnmarshalBytes accepts, the result is a valid definition; and the model's
   decoder never runs out of its fuel, for any input. *)
Theorem C17_decoded_is_valid : forall b d,
  unmarshal b = UOk d -> wf_def d /\ validate d = true.
Proof. exact decoded_is_valid. Qed.
Print Assumptions C17_decoded_is_valid.

Theorem C17_decoder_fuel_suffices : forall b, unmarshal b <> UFuel.
Proof. exact unmarshal_never_out_of_fuel. Qed.
Print Assumptions C17_decoder_fuel_suffices.

(* Match on a valid definition and ANY log (any topics, any data, any embedded offsets and
   lengths): the result is yes or no, never a panic or an error; and every value GetValue
   materialises is a topic of the log or at most max(32, |data|) bytes long (the only
   allocation that depends on the log). wf_log: |data| <= 2^48, the Go runtime's maxAlloc. *)
Theorem C17_match_total : forall d lg,
  validate d = true -> wf_log lg ->
  (exists b, match_def d lg = MOk b) /\
  (forall p, In p (d_preds d) -> exists v, get_value p lg = VOk v /\
       (zlen v <= Z.max 32 (zlen (l_data lg)) \/ In v (l_topics lg)))%Z.
Proof. exact match_total. Qed.
Print Assumptions C17_match_total.

(* On well-formed data (every reference of the definition resolves inside the log as
   docs/event.md describes: ref_value) Match is exactly the documented predicate:
   same contract and every operator holds on its referenced value (matches_spec). *)
Theorem C17_match_semantics : forall d lg,
  validate d = true -> wf_log lg -> well_formed_for d lg ->
  exists b, match_def d lg = MOk b /\ (b = true <-> matches_spec d lg).
Proof. exact match_semantics. Qed.
Print Assumptions C17_match_semantics.

(* For every valid definition ToFilterQuery succeeds. *)
Theorem C17_filter_exists : forall d,
  validate d = true -> exists q, to_filter d = FOk q.
Proof. exact filter_exists. Qed.
Print Assumptions C17_filter_exists.

(* Every log that matches passes the derived filter query under go-ethereum's filter rule
   (for any definition for which a query exists, valid or not). *)
Theorem C17_filter_sound : forall d lg q,
  to_filter d = FOk q -> match_def d lg = MOk true ->
  passes_filter (d_contract d) q lg = true.
Proof. exact filter_sound. Qed.
Print Assumptions C17_filter_sound.

(* ---- the code as it was on the pinned tree ------------------------------------------------ *)

(* D11: Match panicked on a valid definition (short data; also a pointer beyond the data and
   a length that makeslice refuses, see Proofs/TriggerDefLegacy.v). *)
Theorem C17_legacy_match_total_refuted :
  exists d lg, wf_def d /\ legacy_validate d = true /\ wf_log lg /\ legacy_match d lg = MPanic.
Proof.
  exists d11_def, d11_log_short. pose proof legacy_match_panics.
  repeat split; try tauto. unfold wf_log. vm_compute. discriminate.
Qed.
Print Assumptions C17_legacy_match_total_refuted.

(* D12: a definition that passed Validate (and round-tripped through the codec) for which
   ToFilterQuery fails. *)
Theorem C17_legacy_filter_exists_refuted :
  exists d, wf_def d /\ legacy_validate d = true /\ to_filter d = FErr.
Proof. exists d12_def. pose proof legacy_valid_without_filter. tauto. Qed.
Print Assumptions C17_legacy_filter_exists_refuted.

(* ---- the hypotheses are satisfiable: one definition with a topic, a static and a dynamic
   predicate, and a log that matches it ---------------------------------------------------- *)

Definition ex_topic : bytes := hx "ddf252ad1be2c89b69c2b068fc378daa952ba7f163c4a11628f55a4df523b3ef".
Definition ex_def : def :=
  mkDef addrA [mkPred false 0 5 [] [ex_topic];          (* topic 0 == Transfer signature *)
               mkPred false 4 4 [Some 100%Z] [];         (* first data word >= 100 *)
               mkPred true 5 5 [] [hx "68656c6c6f"]].    (* second argument == "hello" *)
Definition ex_log : log :=
  mkLog addrA [ex_topic]
    (hx "0000000000000000000000000000000000000000000000000000000000000064" ++
     hx "0000000000000000000000000000000000000000000000000000000000000040" ++
     hx "0000000000000000000000000000000000000000000000000000000000000005" ++
     hx "68656c6c6f000000000000000000000000000000000000000000000000000000").

Example C17_roundtrip_nonvacuous :
  wf_def ex_def /\ validate ex_def = true /\
  (exists b, marshal ex_def = Some b /\ unmarshal b = UOk ex_def /\ (blen b <= 18446744073709551616)%N).
Proof.
  split; [reflexivity|]. split; [vm_compute; reflexivity|].
  eexists. split; [vm_compute; reflexivity|]. split; vm_compute; [reflexivity|discriminate].
Qed.

Example C17_match_nonvacuous :
  validate ex_def = true /\ wf_log ex_log /\ well_formed_for ex_def ex_log /\
  match_def ex_def ex_log = MOk true /\
  match_def ex_def (mkLog addrA [ex_topic] (repeat 0%N 40)) = MOk false /\
  to_filter ex_def = FOk [[ex_topic]] /\
  passes_filter addrA [[ex_topic]] ex_log = true.
Proof.
  split; [vm_compute; reflexivity|]. split; [unfold wf_log; vm_compute; discriminate|].
  split.
  - intros p [<-|[<-|[<-|[]]]].
    + eexists. apply RV_topic; reflexivity.
    + eexists. apply RV_static; [reflexivity|reflexivity|].
      unfold word_at. split; [vm_compute; discriminate|]. split; [vm_compute; discriminate|reflexivity].
    + eexists. eapply RV_dynamic; try reflexivity.
      * unfold word_at. split; [vm_compute; discriminate|]. split; [vm_compute; discriminate|reflexivity].
      * unfold word_at. split; [vm_compute; discriminate|]. split; [vm_compute; discriminate|reflexivity].
      * vm_compute. discriminate.
  - repeat split; vm_compute; reflexivity.
Qed.

Example C17_legacy_refutations_concrete :
  legacy_match d11_def d11_log_pointer = MPanic /\ legacy_match d11_def d11_log_length = MPanic /\
  legacy_match d12_def_empty (mkLog addrA [] []) = MOk true /\ to_filter d12_def_empty = FErr /\
  (* the repaired functions on the same inputs *)
  match_def d11_def d11_log_short = MOk false /\ match_def d11_def d11_log_pointer = MOk false /\
  match_def d11_def d11_log_length = MOk false /\ validate d12_def = false /\ validate d12_def_empty = false.
Proof. repeat split; vm_compute; reflexivity. Qed.
