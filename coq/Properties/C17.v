(* C17 - trigger definitions round-trip, match totally, are never hidden by the filter.
   STATE ON THE PINNED TREE: the model is faithful to eventtrigger.go as it is; two of the
   theorems of DESIGN.md section 5 (C17_match_total, C17_filter_exists) are refuted on it.
   This file only states theorems; proofs are in Proofs/. *)
From Coq Require Import List NArith ZArith Bool String.
From Verif Require Import Lib.Bytes Lib.Rlp Model.TriggerDef Proofs.TriggerDefLegacy.
Import ListNotations.
Open Scope string_scope.
Open Scope list_scope.

(* D11: Match panics on a valid definition (short data / pointer beyond the data / length
   that makeslice refuses). *)
Theorem C17_match_total_refuted :
  exists d lg, wf_def d /\ legacy_validate d = true /\ legacy_match d lg = MPanic.
Proof. exists d11_def, d11_log_short. pose proof legacy_match_panics. tauto. Qed.
Print Assumptions C17_match_total_refuted.

(* D12: a definition that passes Validate (and round-trips through the codec) for which
   ToFilterQuery fails. *)
Theorem C17_filter_exists_refuted :
  exists d, wf_def d /\ legacy_validate d = true /\ to_filter d = FErr.
Proof. exists d12_def. pose proof legacy_valid_without_filter. tauto. Qed.
Print Assumptions C17_filter_exists_refuted.

Example C17_refutations_concrete :
  legacy_match d11_def d11_log_pointer = MPanic /\ legacy_match d11_def d11_log_length = MPanic /\
  legacy_match d12_def_empty (mkLog addrA [] []) = MOk true /\ to_filter d12_def_empty = FErr.
Proof. repeat split; vm_compute; reflexivity. Qed.
