(* C03 - every honest keyper obtains the correct key under any gossip delivery order.
   This file only states the theorems; proofs are in Proofs/GossipNet*.v. They use C01's
   theorems about the key-share handler (Proofs/EpochKGHandler.v) and C06's about the signature
   rule (Proofs/KeysSig.v).

   Model: Model/GossipNet.v - nodes (core / Gnosis / Shutter-service keypers, Gnosis access node)
   with the validators and handlers of Model/Gossip.v, the producers (ConstructDecryptionKeyShares,
   the flavours' messaging middleware) and a network step (trigger | deliver; publish = own
   validator first; handlers only on Accept; own messages are not handled). A network of honest
   keypers of one eon is described by [cfg] (instance, keyper set, threshold, config index) and
   the per-node premise [knows]: configured for the instance, batch config known, member, the
   successful DKG result stored (key set 0, one public key share per keyper).
   Idealisations as in C04 (labels for group elements, ideal signatures); in addition the
   identities hash is the identity list, and [sb] / [kb] / [classify] are the tables of share and
   key bytes of the run (Section variables; [classify_ok]: they agree). *)
From Coq Require Import List NArith ZArith Bool Lia Permutation.
From Verif Require Import Lib.Bytes Model.EpochKG Model.EpochKGLabels Model.EpochKGHandler Model.KeysSig
     Model.Gossip Model.GossipMisc Model.GossipNet
     Proofs.EpochKGHandler Proofs.KeysSig Proofs.Gossip Proofs.GossipNet Proofs.GossipNetNode Proofs.GossipNetRun Proofs.GossipNetKeys Proofs.GossipNetExample.
Import ListNotations.

(* For every flavour (core, Gnosis, Shutter service): the key-shares message a keyper hands to
   the p2p layer when it is triggered for a non-empty, bytewise non-decreasing list of at most
   `max` identities (Gnosis: 52 bytes each, service: 32 bytes, at most 1024; Gnosis slot and tx
   pointer non-negative int64) is accepted by the combined validator of every keyper of the same
   flavour that knows the eon (and, for the flavours, the observer's keyper set) - whatever
   else the receiver's tables hold, i.e. in every reachable receiver state. *)
Theorem C03_honest_shares_accepted :
  forall (sb : N -> N -> bytes -> bytes) fl c sender receiver slot txp ids nd2 m',
    keyper_flavour fl -> kn_fl sender = fl -> kn_fl receiver = fl ->
    knows c (kn_core sender) -> knows c (kn_core receiver) ->
    (fl <> NCore -> knows_set c (g_f (kn_g receiver))) ->
    nondecreasing None ids -> ids_fit fl c slot txp ids ->
    trigger_message sb sender c slot txp ids = Some (nd2, m') ->
    validate_at receiver (MShares m') = VAccept.
Proof. exact honest_shares_accepted. Qed.
Print Assumptions C03_honest_shares_accepted.

(* ... and by the sender's own validator (libp2p validates local publishes; a reject would mean
   the message is never sent) *)
Theorem C03_own_publish_passes :
  forall (sb : N -> N -> bytes -> bytes) c sender slot txp ids nd2 m',
    keyper_flavour (kn_fl sender) -> knows c (kn_core sender) ->
    (kn_fl sender <> NCore -> knows_set c (g_f (kn_g sender))) ->
    nondecreasing None ids -> ids_fit (kn_fl sender) c slot txp ids ->
    trigger_message sb sender c slot txp ids = Some (nd2, m') ->
    validate_at nd2 (MShares m') = VAccept.
Proof. exact own_publish_passes. Qed.
Print Assumptions C03_own_publish_passes.

Example C03_honest_shares_accepted_nonvacuous :
  exists nd2 m', trigger_message Ex.sb (Ex.node NService 1) Ex.c 0 0 [Ex.A] = Some (nd2, m') /\
                 s_extra m' = SxService (SigBy 1%N (TService 7 1 [Ex.A])) /\
                 validate_at (Ex.node NService 2) (MShares m') = VAccept /\ validate_at nd2 (MShares m') = VAccept /\
                 ids_fit NService Ex.c 0 0 [Ex.A] /\ nondecreasing None [Ex.A].
Proof.
  eexists _, _. split; [vm_compute; reflexivity|]. split; [reflexivity|].
  split; [vm_compute; reflexivity|]. split; [vm_compute; reflexivity|].
  split; [vm_compute; reflexivity | simpl; auto].
Qed.

(* One node, any flavour (the flavour handlers never touch the two core tables: see
   C03_convergence). For every run of node-level events (its own trigger, accepted key-shares
   messages, accepted keys messages, in any order, with any duplicates) from a state satisfying
   the table invariant: (1) whenever a key-shares message is handled while - after its rows are
   inserted - the table holds valid shares of t distinct keypers for every identity of the
   message (the node's own share counts), the correct key of each of these identities is stored
   at the end of the run; (2) after key-shares messages for ids from t distinct keypers were
   handled, the correct key of every identity of ids is stored; (3) an accepted keys message
   leaves the correct key of each of its identities stored. "Correct" = the bytes of the epoch
   secret key of the eon's key set for that identity. *)
Theorem C03_single_node_progress :
  forall (sb : N -> N -> bytes -> bytes) (kb : N -> bytes -> bytes) (classify : bytes -> lbl) (c : cfg),
    (1 <= cf_t c)%N -> (cf_n c < 2 ^ 63)%N ->
    (forall st evs1 o m evs2,
        Inv kb c st -> ok_run sb kb classify c st (evs1 ++ NevShares o m :: evs2) ->
        complete c (node_run sb kb classify st (evs1 ++ [NevShares o m])) (sh_ids m) ->
        forall x, In x (sh_ids m) -> key_ok kb c (node_run sb kb classify st (evs1 ++ NevShares o m :: evs2)) x) /\
    (forall ids evs st,
        Inv kb c st -> ok_run sb kb classify c st evs ->
        (cf_t c <= N.of_nat (length (handled_senders ids evs [])))%N ->
        forall x, In x ids -> key_ok kb c (node_run sb kb classify st evs) x) /\
    (forall st m,
        Inv kb c st -> validate_keys st m = GAccept -> keys_consistent kb m -> km_eon m = Z.to_N (cf_kci c) ->
        forall x, In x (k_ids m) -> key_ok kb c (core_handle_keys st m) x).
Proof.
  intros sb kb classify c Ht Hn. split; [|split].
  - intros st evs1 o m evs2. apply (node_progress sb kb classify c Ht Hn).
  - intros ids evs st HI Hok Hlen. apply (node_counting sb kb classify c Ht Hn ids evs st []); try assumption.
    + constructor.
    + intros x s _ [].
    + simpl. intros Hl. lia.
  - intros st m HI Ha Hc He. destruct (keys_step kb c Ht Hn st m HI Ha Hc He) as [_ [_ [_ H]]]. exact H.
Qed.
Print Assumptions C03_single_node_progress.

(* The keys message. Its core part - the correct key of every identity of a non-empty,
   non-decreasing list within the limit - is accepted by the core validator of every keyper
   that knows the eon, whatever its key table holds. With signer and signature lists that obey
   C06's rule (exactly t signers, strictly increasing, of the keyper set, one valid signature
   each over the message's own data) the Gnosis and the service validators accept it as well.
   PARTIAL: what is missing is the proof that the lists the emitter builds (the first t rows by
   keyper index of its signature table for that data) obey the rule - that needs the
   uniqueness of the table's primary key and the sortedness of the query. The driver checks it
   on every emitted message (exactly t signers, ascending, and the replay compares the emitted
   signers and signatures with the model's), and that every emitted keys message is accepted by
   all other keypers and by the access node. *)
Theorem C03_keys_accepted_everywhere_partial :
  forall (kb : N -> bytes -> bytes) c,
    (forall sr ids ex,
        knows c sr -> ids <> [] -> (N.of_nat (length ids) <= cf_max c)%N -> nondecreasing None ids ->
        validate_keys sr (mkKeysMsg (cf_inst c) (Z.to_N (cf_kci c)) (honest_keys kb ids) ex) = GAccept) /\
    (forall (f : fstate) ids slot txp signers sigs,
        knows_set c f -> (0 <= cf_kci c < 2 ^ 31)%Z -> (Z.of_nat (length (cf_keypers c)) < 2 ^ 31)%Z ->
        ids <> [] -> (length ids <= 1024)%nat -> (slot <= max_int64)%N -> (txp <= max_int32)%N ->
        let km := mkKeysMsg (cf_inst c) (Z.to_N (cf_kci c)) (honest_keys kb ids) (KxGnosis slot txp signers sigs) in
        sig_rule tuple (fun t => t) Gnosis (net_ks c) (to_keysmsg no_label km) signers sigs ->
        validate_keys_gnosis f km = GAccept) /\
    (forall (f : fstate) ids signers sigs,
        knows_set c f -> (0 <= cf_kci c < 2 ^ 31)%Z -> (Z.of_nat (length (cf_keypers c)) < 2 ^ 31)%Z ->
        (length ids <= 1024)%nat ->
        let km := mkKeysMsg (cf_inst c) (Z.to_N (cf_kci c)) (honest_keys kb ids) (KxService signers sigs) in
        sig_rule tuple (fun t => t) Service (net_ks c) (to_keysmsg no_label km) signers sigs ->
        validate_keys_service f km = GAccept).
Proof.
  intros kb c. split; [|split].
  - intros. apply core_accepts_honest_keys; assumption.
  - intros f ids slot txp signers sigs. apply gnosis_accepts_honest_keys.
  - intros f ids signers sigs. apply service_accepts_honest_keys.
Qed.
Print Assumptions C03_keys_accepted_everywhere_partial.

(* Convergence. A network whose nodes are honest keypers of one eon (each satisfies the table
   invariant; access nodes allowed) and in which every message published so far names that eon;
   every schedule of triggers for that eon and deliveries (any order, duplicates, losses - a
   lost message is simply never delivered; the database may return rows in any order):
   - the core tables of node j after the schedule are exactly its node-level events applied in
     order (so C03_single_node_progress applies to every node of the network, whatever its
     flavour), and every such event is a trigger or an ACCEPTED message of the eon;
   - every keyper that handled the key-shares messages for ids of t distinct keypers stores the
     correct key of every identity of ids at the end - hence all such keypers store the same.
   Together with C03_honest_shares_accepted (every delivery of an honest key-shares message is
   handled) this is: up to n - t of the share messages may be lost per receiver. A keyper that
   holds t shares only together with its own (it was triggered after the others' messages
   arrived) obtains the key from the next key-shares message or from a keys message (clause 3 of
   C03_single_node_progress); that some node emits one in every complete schedule is checked
   by the driver's oracle on every executed schedule, not proved. *)
Theorem C03_convergence :
  forall (sb : N -> N -> bytes -> bytes) (kb : N -> bytes -> bytes) (classify : bytes -> lbl) (c : cfg),
    (1 <= cf_t c)%N -> (cf_n c < 2 ^ 63)%N ->
    (forall b e y, classify b = LKey e y -> b = kb e y) ->
    forall ops nt j nd ids,
      NetInv kb c nt -> Forall (op_ok c) ops -> nth_error (nodes nt) j = Some nd -> kn_fl nd <> NAccess ->
      (option_map kn_core (nth_error (nodes (fst (run_net sb kb classify nt ops))) j) =
       Some (node_run sb kb classify (kn_core nd) (run_events sb kb classify nt ops j))) /\
      ok_run sb kb classify c (kn_core nd) (run_events sb kb classify nt ops j) /\
      ((cf_t c <= N.of_nat (length (handled_senders ids (run_events sb kb classify nt ops j) [])))%N ->
       exists nd', nth_error (nodes (fst (run_net sb kb classify nt ops))) j = Some nd' /\
                   forall x, In x ids -> key_ok kb c (kn_core nd') x).
Proof.
  intros sb kb classify c Ht Hn Hcl ops nt j nd ids HN Hops Hj Hna. split; [|split].
  - rewrite (run_core sb kb classify ops nt j), Hj. reflexivity.
  - apply (run_events_ok sb kb classify c Ht Hn Hcl); assumption.
  - intros Hlen. apply (net_convergence sb kb classify c Ht Hn Hcl ops nt j nd ids); assumption.
Qed.
Print Assumptions C03_convergence.

(* three core keypers; keypers 0 and 1 are triggered, keyper 2 receives both share messages
   (the second completes the threshold), then keyper 0 receives keyper 1's: keypers 2 and 0
   hold the key, keyper 2 by counting (two handled senders), and keyper 2 has published a keys
   message *)
Example C03_convergence_nonvacuous :
  let nt := mkNet [Ex.node NCore 0; Ex.node NCore 1; Ex.node NCore 2] [] in
  let ops := [OpTrigger 0 5 1 0 0 [Ex.A]; OpTrigger 1 5 1 0 0 [Ex.A];
              OpDeliver 0 2 [[0%nat]]; OpDeliver 1 2 [[1%nat; 0%nat]]; OpDeliver 1 0 [[0%nat; 1%nat]]] in
  NetInv Ex.kb Ex.c nt /\ Forall (op_ok Ex.c) ops /\
  (forall b e y, Ex.classify b = LKey e y -> b = Ex.kb e y) /\
  length (handled_senders [Ex.A] (run_events Ex.sb Ex.kb Ex.classify nt ops 2) []) = 2%nat /\
  map (fun nd => c_keys (kn_core nd)) (nodes (fst (run_net Ex.sb Ex.kb Ex.classify nt ops))) =
    [[(1%Z, Ex.A, [0; 2]%N)]; []; [(1%Z, Ex.A, [0; 2]%N)]] /\
  length (sent (fst (run_net Ex.sb Ex.kb Ex.classify nt ops))) = 4%nat.
Proof.
  cbv zeta. split; [|split; [|split; [|split; [|split]]]].
  - split; [|constructor].
    assert (H : forall i, In i [0; 1; 2]%N -> node_ok Ex.kb Ex.c (Ex.node NCore i)).
    { intros i Hi. right. split; [left; reflexivity | exact (Ex.inv_core i Hi)]. }
    constructor; [apply H; simpl; auto|]. constructor; [apply H; simpl; auto|].
    constructor; [apply H; simpl; auto | constructor].
  - repeat constructor; try reflexivity; unfold valid_perm; simpl; try apply Permutation_refl; try apply perm_swap.
  - intros b e y H. unfold Ex.classify in H.
    destruct (bytes_eqb b [0; 2]%N) eqn:E; [|discriminate]. apply bytes_eqb_eq in E. subst b.
    injection H as <- <-. reflexivity.
  - vm_compute. reflexivity.
  - vm_compute. reflexivity.
  - vm_compute. reflexivity.
Qed.
