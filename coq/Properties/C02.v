(* C02 - the Shutter-service keyper never triggers decryption before the release condition.
   This file only states the theorems; proofs are in Proofs/ServiceTrigger*.v, the predicates
   (servable, time_registered, fired_provenance, all_marked, registers_identity,
   time_ids_distinct, shares_justified, time_triggers, event_triggers) in
   Proofs/ServiceTriggerSpec.v and Proofs/ServiceTrigger.v.

   All theorems are over arbitrary operation histories [ops] from the empty database (blocks
   with arbitrary numbers and times - non-monotone included -, registrations, eon / DKG changes,
   fired and unfired triggers, rollbacks, released keys, restarts, key share requests) and over
   arbitrary enumeration orders of the two Go maps (the functions [et], [ee], also inside the
   NewBlock operations of the history; no hypothesis on them, they need not even be
   permutations).  One call of maybeTriggerDecryption is atomic in the model. *)
From Coq Require Import List NArith ZArith Bool Permutation Sorted String Lia.
From Verif Require Import Lib.Bytes Lib.Assoc Lib.Sorting Model.ServiceTrigger
  Proofs.ServiceTriggerSpec Proofs.ServiceTrigger Proofs.ServiceTriggerHist.
Import ListNotations.
Open Scope Z_scope.
Open Scope string_scope.

(* What is sent on the trigger channel while a block is processed is exactly the time based
   triggers followed by the event based triggers. *)
Theorem C02_step_output : forall c s number time et ee,
  snd (step c s (OpNewBlock number time et ee))
  = OutTriggers (time_triggers c s number time et ++ event_triggers c s ee).
Proof. exact step_new_block_output. Qed.
Print Assumptions C02_step_output.

(* Time based: every identity of every trigger sent while block (number, time) is processed
   belongs to a registration row r that some RegisterTime operation of the history wrote
   (same key, identity, release time), is not marked decrypted, has a release time strictly
   earlier than the block time (as the int64 the code compares with; for block times below
   2^63 that is the block time itself), and its keyper set has a latest started eon e that the
   keyper may serve (member of the set's batch config, key generation of e succeeded) whose
   activation block the block number has reached; the trigger carries that activation block. *)
Theorem C02_time_never_early : forall c ops number time et tr id,
  In tr (time_triggers c (run c ops) number time et) -> In id (tg_ids tr) ->
  exists r, time_registered ops r /\
  exists e,
    In r (irs (st_db (run c ops))) /\ ir_identity r = id /\ ir_eon r = tg_cfg tr /\
    ir_decrypted r = false /\
    ir_timestamp r < to_i64 time /\ (0 <= time < 2^63 -> ir_timestamp r < time) /\
    servable c (st_db (run c ops)) (tg_cfg tr) e /\
    eo_activation e <= to_i64 number /\
    tg_block tr = u64 (eo_activation e).
Proof. exact time_never_early. Qed.
Print Assumptions C02_time_never_early.

(* The same in the registry contract's reading of the release time.  The contract's release time is
   a uint64 and the table holds int64(release time): a release time >= 2^63 ("never") is stored
   as a negative number, which the signed comparison in shouldTriggerDecryption would take for
   long released.  For every history and every block (no hypothesis on block times; the block
   time is the header's uint64, u64 time): the stored value is an int64, and the contract's value
   u64 (stored) is strictly below the block time; for block times below 2^63 the stored value
   is non-negative.  (What excludes the negative rows is the lower bound of the query window.) *)
Theorem C02_time_never_early_unsigned : forall c ops number time et tr id,
  In tr (time_triggers c (run c ops) number time et) -> In id (tg_ids tr) ->
  exists r, time_registered ops r /\
            In r (irs (st_db (run c ops))) /\ ir_identity r = id /\ ir_eon r = tg_cfg tr /\
            ir_decrypted r = false /\
            - 2^63 <= ir_timestamp r < 2^63 /\
            u64 (ir_timestamp r) < u64 time /\
            (u64 time < 2^63 -> 0 <= ir_timestamp r).
Proof. exact time_never_early_unsigned. Qed.
Print Assumptions C02_time_never_early_unsigned.

(* Event based: every identity of every event based trigger has a fired row f and an
   undecrypted registration x for (keyper set, identity), the set is servable, and f got into
   the table either by a raw Fire operation (standing for the event syncer, C16) or because the
   trigger processor found a log for the trigger in the synced range, in a block not later than
   the expiry block the registration had at that moment, while the trigger was not decrypted. *)
Theorem C02_event_only_fired : forall c ops ee tr id,
  In tr (event_triggers c (run c ops) ee) -> In id (tg_ids tr) ->
  exists f, fired_provenance c ops f /\
  exists x e,
    In f (fts (st_db (run c ops))) /\ ft_eon f = tg_cfg tr /\ ft_identity f = id /\
    In x (ets (st_db (run c ops))) /\ et_eon x = tg_cfg tr /\ et_identity x = id /\
    et_decrypted x = false /\
    (forall x', In x' (ets (st_db (run c ops))) -> et_eon x' = tg_cfg tr -> et_identity x' = id ->
                et_decrypted x' = false) /\
    servable c (st_db (run c ops)) (tg_cfg tr) e /\
    tg_block tr = u64 (eo_activation e).
Proof. exact event_only_fired. Qed.
Print Assumptions C02_event_only_fired.

(* Once released keys covered identity id for keyper set eon, no later trigger for that set
   contains id - whatever happens in between (restarts, rollbacks, eon changes, firing) - as
   long as no later operation registers the identity anew. *)
Theorem C02_no_retrigger_after_decrypted : forall c ops1 eon ids ops2 id number time et ee tr,
  In id ids -> (forall o, In o ops2 -> ~ registers_identity id o) ->
  let s := run c (ops1 ++ OpKeysReleased eon ids :: ops2) in
  In tr (time_triggers c s number time et ++ event_triggers c s ee) ->
  tg_cfg tr = eon -> ~ In id (tg_ids tr).
Proof. exact no_retrigger_after_decrypted. Qed.
Print Assumptions C02_no_retrigger_after_decrypted.

(* The identities of one trigger are strictly increasing in byte order (hence distinct), in
   every reachable state in which no two time registrations of one keyper set carry the same
   identity.  Event based triggers need no such hypothesis. *)
Theorem C02_trigger_sorted_distinct : forall c ops number time et ee tr,
  let s := run c ops in
  time_ids_distinct (st_db s) ->
  In tr (time_triggers c s number time et ++ event_triggers c s ee) ->
  Sorted bytes_lt (tg_ids tr) /\ NoDup (tg_ids tr).
Proof. exact trigger_sorted_distinct. Qed.
Print Assumptions C02_trigger_sorted_distinct.

Theorem C02_event_trigger_sorted_distinct : forall c ops ee tr,
  In tr (event_triggers c (run c ops) ee) -> Sorted bytes_lt (tg_ids tr) /\ NoDup (tg_ids tr).
Proof. exact event_trigger_sorted_distinct. Qed.
Print Assumptions C02_event_trigger_sorted_distinct.

(* The hypothesis of C02_trigger_sorted_distinct holds whenever every RegisterTime of the
   history derives the identity from the primary key by an injective function H (the registry
   syncer computes it as a hash of prefix and sender; collision resistance is the assumption,
   visible here as the premise that H is injective). *)
Theorem C02_hashed_identities_distinct : forall (H : bytes -> bytes),
  (forall a b, H a = H b -> a = b) ->
  forall c ops, identities_hashed H ops -> time_ids_distinct (st_db (run c ops)).
Proof. exact hashed_identities_distinct. Qed.
Print Assumptions C02_hashed_identities_distinct.

(* Key shares: the handler produces a message only for the eon e it selects by the trigger's
   block number (greatest activation block not above it, then greatest height), only if the
   keyper is listed in the batch config of e's keyper set - at the index the message carries -
   and the key generation of e succeeded (and its result decodes); the message names that
   keyper set and exactly the requested, non-empty identity list. *)
Theorem C02_shares_only_member_success : forall c ops blk ids s' m,
  step c (run c ops) (OpHandleTrigger blk ids) = (s', OutShares (ShOk m)) ->
  exists e, In e (eons (st_db (run c ops))) /\ eo_activation e <= u64 blk /\
            (forall e', In e' (eons (st_db (run c ops))) -> eo_activation e' <= u64 blk -> eon_le e' e) /\
            shares_justified c (st_db (run c ops)) e ids m.
Proof. exact shares_only_member_success. Qed.
Print Assumptions C02_shares_only_member_success.

(* ... and for whatever eon ConstructDecryptionKeyShares is called with, on any database. *)
Theorem C02_construct_shares_any_eon : forall c d e ids m d',
  construct_shares c d e ids = (ShOk m, d') -> shares_justified c d e ids m.
Proof. exact construct_shares_sound. Qed.
Print Assumptions C02_construct_shares_any_eon.

(* From trigger to key shares.  A trigger carries only the activation block of its keyper set's
   latest eon; the key share handler selects the eon again by that block number.
   PARTIAL: proved under the hypothesis that started eons of different keyper sets have different
   activation blocks (and that activation blocks are int64 values, as the column is).  What is
   missing: without the first hypothesis the statement is false on the faithful model, see
   C02_shares_follow_trigger_refuted below (known finding
   C02:share-for-other-set-with-equal-activation-block; the keyper set manager contract admits
   equal activation blocks). *)
Theorem C02_shares_follow_trigger_partial : forall c ops number time et ee tr s' m,
  let s := run c ops in
  activation_blocks_distinct (st_db s) -> activation_blocks_int64 (st_db s) ->
  In tr (time_triggers c s number time et ++ event_triggers c s ee) ->
  step c s (OpHandleTrigger (tg_block tr) (tg_ids tr)) = (s', OutShares (ShOk m)) ->
  sm_eon m = tg_cfg tr.
Proof. exact shares_follow_trigger_run. Qed.
Print Assumptions C02_shares_follow_trigger_partial.

(* Two keyper sets (1 and 2) with the same activation block, the keyper a member of both, both
   key generations succeeded.  The same identity is registered as an event trigger under both;
   the trigger of set 1 fires, the one of set 2 has expired before the log.  The trigger sent
   for set 1 makes the handler produce key shares for set 2, where the identity is registered,
   not decrypted and has not fired. *)
Definition refute_ops : list op :=
  [ OpAddConfig 1 [hx "aa"] 100; OpEonStarted 1 10 100 1; OpDKGResult 1 true true;
    OpAddConfig 2 [hx "aa"] 100; OpEonStarted 2 11 100 2; OpDKGResult 2 true true;
    OpRegisterEvent 1 (hx "77") 500 90; OpRegisterEvent 2 (hx "77") 105 91;
    OpFetch 100 120 [(1, hx "77", 110); (2, hx "77", 110)] ].

Theorem C02_shares_follow_trigger_refuted :
  exists c ops ee tr m id,
    let s := run c ops in
    In tr (event_triggers c s ee) /\ In id (tg_ids tr) /\
    snd (step c s (OpHandleTrigger (tg_block tr) (tg_ids tr))) = OutShares (ShOk m) /\
    sm_eon m <> tg_cfg tr /\
    (exists x, In x (ets (st_db s)) /\ et_eon x = sm_eon m /\ et_identity x = id /\ et_decrypted x = false) /\
    (forall f, In f (fts (st_db s)) -> ~ (ft_eon f = sm_eon m /\ ft_identity f = id)).
Proof.
  exists (mkConfig (hx "aa") true 8), refute_ops, (fun ks => ks),
         (mkTrig 1 100 [hx "77"]), (mkMsg 2 0 [hx "77"]), (hx "77").
  cbv zeta. split; [vm_compute; left; reflexivity|]. split; [left; reflexivity|].
  split; [vm_compute; reflexivity|]. split; [simpl; discriminate|]. split.
  - exists (mkEt 2 (hx "77") 105 false 91). vm_compute. intuition.
  - vm_compute. intros f [<-|[]]. simpl. intros [H _]. discriminate.
Qed.
Print Assumptions C02_shares_follow_trigger_refuted.

(* The enumeration order of the Go maps only permutes what is sent (this is what allows the
   correspondence run to compare the trigger lists as multisets). *)
Theorem C02_enumeration_irrelevant : forall c d latest number time et ee,
  (forall ks, Permutation (et ks) ks) -> (forall ks, Permutation (ee ks) ks) ->
  fst (new_block c d latest number time et ee)
  = fst (new_block c d latest number time (fun ks => ks) (fun ks => ks)) /\
  Permutation (snd (new_block c d latest number time et ee))
              (snd (new_block c d latest number time (fun ks => ks) (fun ks => ks))).
Proof. exact new_block_enum_perm. Qed.
Print Assumptions C02_enumeration_irrelevant.

(* Second tie to the source.  Generated/ServiceTriggerFuns.v is rewritten from the repository on
   every check (harness/cmd/translate/gen_servicetriggerfuns.go): shouldTriggerDecryption and
   resolveDecryptableEon statement by statement, the early return / query parameters / row
   selection loop of prepareTimeBasedTriggers, the expiry test and query argument of
   TriggerProcessor.FetchEvents, the int32 cast of GetKeyperIndex, the sortIdentityPreimages
   comparator, and the WHERE / ORDER BY clauses of the six queries named below.  The model's
   functions are exactly those: a changed comparison (>= for >, a dropped activation or membership
   or success test, an ORDER BY direction, a cast) breaks this obligation before any history is
   generated. *)
From Verif Require Import Generated.ServiceTriggerFuns Proofs.ServiceTriggerFuns.
Theorem C02_translated_trigger_decision_agrees :
  (forall c d r number time,
     should_trigger c d r number time =
     match resolve_decryptable_eon c d (ir_eon r) with
     | Some e => gen_should_trigger true (eo_activation e) (to_i64 number) (ir_timestamp r) time
     | None => gen_should_trigger false 0 (to_i64 number) (ir_timestamp r) time
     end) /\
  (forall c d idx,
     resolve_decryptable_eon c d idx =
     if gen_resolve_decryptable (found (latest_eon d idx)) (config_found c d idx) (is_keyper c d idx)
                                (found (dkg_for_config d idx)) (dkg_success_of d idx)
     then latest_eon d idx else None) /\
  (forall c d latest number time enum,
     prepare_time_based c d latest number time enum =
     if gen_early_return latest time then (latest, [])
     else
       let rows := window_rows d (gen_window_p1 (gen_last_triggered latest)) (gen_window_p2 time) in
       let chosen := gen_select_rows (fun r => should_trigger c d r number time) rows in
       let groups := time_groups c d chosen in
       (gen_new_latest time, emit_time groups (enum (map fst groups)))) /\
  (forall d lo hi,
     window_rows d lo hi =
     sort_by (fun a b => gen_q_window_before (ir_timestamp a) (ir_timestamp b))
             (filter (fun r => gen_q_window_where (ir_timestamp r) (ir_decrypted r) lo hi) (irs d))) /\
  (forall d start,
     active_triggers d start =
     filter (fun e => gen_q_active_where (et_expiration e) (et_decrypted e)
                        (existsb (ft_match (et_eon e) (et_identity e)) (fts d)) start) (ets d)) /\
  (forall start end_ e leon lid lblk, 0 <= et_expiration e < 2^63 ->
     log_hits start end_ e (leon, lid, lblk) =
     et_match leon lid e && (start <=? lblk) && (lblk <=? end_) && negb (gen_log_expired lblk (et_expiration e))) /\
  (forall start, 0 <= start < 2^63 -> gen_active_param start = start) /\
  (forall best e rest idx,
     latest_eon_from best (e :: rest) idx =
     if gen_q_latest_eon_where (eo_cfg e) idx
     then match best with
          | Some b => if gen_q_latest_eon_before (eo_eon e) (eo_eon b)
                      then latest_eon_from (Some e) rest idx else latest_eon_from best rest idx
          | None => latest_eon_from (Some e) rest idx
          end
     else latest_eon_from best rest idx) /\
  (forall best e rest blk,
     eon_for_block_from best (e :: rest) blk =
     if gen_q_eon_for_block_where (eo_activation e) blk
     then match best with
          | Some b => if gen_q_eon_for_block_before (eo_activation e) (eo_activation b) (eo_height e) (eo_height b)
                      then eon_for_block_from (Some e) rest blk else eon_for_block_from best rest blk
          | None => eon_for_block_from (Some e) rest blk
          end
     else eon_for_block_from best rest blk) /\
  (forall d eon, get_dkg d eon = find (fun k => gen_q_dkg_result_where (dk_eon k) eon) (dkgs d)) /\
  (forall d idx addr,
     get_keyper_index d idx addr =
     match find (fun c => gen_q_batch_config_where (cf_index c) (gen_batch_config_param idx)) (cfgs d) with
     | None => KINoConfig
     | Some c => match index_of (cf_keypers c) addr 0 with Some i => KIMember i | None => KINotMember end
     end) /\
  (forall a b, gen_identity_less a b = bytes_ltb a b).
Proof. exact translated_trigger_decision_agrees. Qed.
Print Assumptions C02_translated_trigger_decision_agrees.

(* ------------------------------------------------------------------------------------- *)
(* Non-vacuity: concrete histories on which the hypotheses hold and triggers are sent. *)

Definition ex_cfg : config := mkConfig (hx "aa") true 8.
Definition ex_id (s : string) : bytes := hx s.
Definition idf : list Z -> list Z := fun ks => ks.

(* keyper set 1 (the keyper is its second member), activation block 100, eon 1 succeeded;
   three registrations with release times 999, 1000, 1001 *)
Definition ex_ops : list op :=
  [ OpAddConfig 1 [hx "bb"; hx "aa"] 100; OpEonStarted 1 10 100 1; OpDKGResult 1 true true;
    OpRegisterTime (hx "01") 1 (ex_id "1101") 999 90;
    OpRegisterTime (hx "02") 1 (ex_id "1100") 1000 90;
    OpRegisterTime (hx "03") 1 (ex_id "10") 1001 90;
    OpRegisterTime (hx "04") 1 (ex_id "0f") 998 90 ].

Example C02_step_output_nonvacuous :
  snd (step ex_cfg (run ex_cfg ex_ops) (OpNewBlock 100 1000 idf idf))
  = OutTriggers [mkTrig 1 100 [ex_id "0f"; ex_id "1101"]].
Proof. vm_compute. reflexivity. Qed.

(* block time 1000 at the activation block: 998 and 999 are triggered (sorted), 1000 and 1001 are not *)
Example C02_time_never_early_nonvacuous :
  time_triggers ex_cfg (run ex_cfg ex_ops) 100 1000 idf = [mkTrig 1 100 [ex_id "0f"; ex_id "1101"]] /\
  time_triggers ex_cfg (run ex_cfg ex_ops) 99 1000 idf = [] /\
  time_triggers ex_cfg (run ex_cfg (ex_ops ++ [OpNewBlock 100 1000 idf idf])) 101 1001 idf
  = [mkTrig 1 100 [ex_id "1100"]].
Proof. vm_compute. repeat split; reflexivity. Qed.

(* an event trigger with expiry block 200: a log in block 201 does not fire it, a log in block
   200 does *)
Definition ex_ev_ops (logblock : Z) : list op :=
  [ OpAddConfig 1 [hx "aa"] 100; OpEonStarted 1 10 100 1; OpDKGResult 1 true true;
    OpRegisterEvent 1 (ex_id "77") 200 90; OpFetch 150 210 [(1, ex_id "77", logblock)] ].

Example C02_event_only_fired_nonvacuous :
  event_triggers ex_cfg (run ex_cfg (ex_ev_ops 200)) idf = [mkTrig 1 100 [ex_id "77"]] /\
  event_triggers ex_cfg (run ex_cfg (ex_ev_ops 201)) idf = [].
Proof. vm_compute. split; reflexivity. Qed.

(* the identity is triggered, then released, then (after a restart, which reopens the whole
   window) not triggered again while the other one still is *)
Example C02_no_retrigger_after_decrypted_nonvacuous :
  let ops2 := [OpRestart] in
  In (ex_id "0f") [ex_id "0f"] /\
  (forall o, In o ops2 -> ~ registers_identity (ex_id "0f") o) /\
  time_triggers ex_cfg (run ex_cfg (ex_ops ++ [OpRestart])) 100 1000 idf
  = [mkTrig 1 100 [ex_id "0f"; ex_id "1101"]] /\
  time_triggers ex_cfg (run ex_cfg (ex_ops ++ OpKeysReleased 1 [ex_id "0f"] :: ops2)) 100 1000 idf
  = [mkTrig 1 100 [ex_id "1101"]].
Proof.
  simpl. split; [left; reflexivity|]. split.
  - intros o [<-|[]]. simpl. auto.
  - vm_compute. split; reflexivity.
Qed.

Example C02_trigger_sorted_distinct_nonvacuous :
  time_ids_distinct (st_db (run ex_cfg ex_ops)) /\
  Sorted bytes_lt [ex_id "0f"; ex_id "1101"].
Proof.
  split.
  - unfold time_ids_distinct. vm_compute.
    repeat constructor; simpl; intuition discriminate.
  - repeat constructor.
Qed.

Example C02_event_trigger_sorted_distinct_nonvacuous :
  event_triggers ex_cfg
    (run ex_cfg (ex_ev_ops 200 ++ [OpRegisterEvent 1 (ex_id "76ff") 300 91; OpFire 1 (ex_id "76ff") 120])) idf
  = [mkTrig 1 100 [ex_id "76ff"; ex_id "77"]].
Proof. vm_compute. reflexivity. Qed.

Example C02_hashed_identities_distinct_nonvacuous :
  identities_hashed (fun k => (k ++ hx "ff")%list)
    [OpRegisterTime (hx "01") 1 (hx "01ff") 5 1; OpRegisterTime (hx "02") 1 (hx "02ff") 5 1; OpRestart] /\
  (forall a b : bytes, (a ++ hx "ff")%list = (b ++ hx "ff")%list -> a = b).
Proof.
  split.
  - intros k e i t b [H|[H|[H|[]]]]; try discriminate; injection H as <- _ <- _ _; reflexivity.
  - intros a b H. eapply app_inv_tail. exact H.
Qed.

Example C02_shares_only_member_success_nonvacuous :
  snd (step ex_cfg (run ex_cfg ex_ops) (OpHandleTrigger 100 [ex_id "0f"; ex_id "1101"]))
  = OutShares (ShOk (mkMsg 1 1 [ex_id "0f"; ex_id "1101"])) /\
  snd (step ex_cfg (run ex_cfg ex_ops) (OpHandleTrigger 99 [ex_id "0f"])) = OutShares (ShErr ENoEon).
Proof. vm_compute. split; reflexivity. Qed.

Example C02_construct_shares_any_eon_nonvacuous :
  fst (construct_shares ex_cfg (st_db (run ex_cfg ex_ops)) (mkEon 1 10 100 1) [ex_id "0f"])
  = ShOk (mkMsg 1 1 [ex_id "0f"]) /\
  fst (construct_shares ex_cfg (st_db (run ex_cfg ex_ops)) (mkEon 2 11 100 2) [ex_id "0f"]) = ShErr ENoConfig.
Proof. vm_compute. split; reflexivity. Qed.

(* two keyper sets in one block: enumerating the map in the other order swaps the triggers *)
Example C02_enumeration_irrelevant_nonvacuous :
  let ops := (ex_ops ++ [OpAddConfig 2 [hx "aa"] 100; OpEonStarted 2 11 100 2; OpDKGResult 2 true true;
                         OpRegisterTime (hx "05") 2 (ex_id "33") 997 90])%list in
  time_triggers ex_cfg (run ex_cfg ops) 100 1000 idf
  = [mkTrig 2 100 [ex_id "33"]; mkTrig 1 100 [ex_id "0f"; ex_id "1101"]] /\
  time_triggers ex_cfg (run ex_cfg ops) 100 1000 (@rev Z)
  = [mkTrig 1 100 [ex_id "0f"; ex_id "1101"]; mkTrig 2 100 [ex_id "33"]].
Proof. vm_compute. split; reflexivity. Qed.

(* the hypotheses of the partial theorem hold on the standard history and shares follow *)
Example C02_shares_follow_trigger_partial_nonvacuous :
  activation_blocks_distinct (st_db (run ex_cfg ex_ops)) /\
  activation_blocks_int64 (st_db (run ex_cfg ex_ops)) /\
  snd (step ex_cfg (run ex_cfg ex_ops) (OpHandleTrigger 100 [ex_id "0f"; ex_id "1101"]))
  = OutShares (ShOk (mkMsg 1 1 [ex_id "0f"; ex_id "1101"])).
Proof.
  split; [|split].
  - unfold activation_blocks_distinct. vm_compute. intros e1 e2 [<-|[]] [<-|[]] _. reflexivity.
  - unfold activation_blocks_int64.
    replace (eons (st_db (run ex_cfg ex_ops))) with [mkEon 1 10 100 1] by (vm_compute; reflexivity).
    intros e [<-|[]]. simpl. lia.
  - vm_compute. reflexivity.
Qed.

(* the refuting history violates exactly the hypothesis of the partial theorem *)
Example C02_shares_follow_trigger_refuted_nonvacuous :
  ~ activation_blocks_distinct (st_db (run ex_cfg refute_ops)).
Proof.
  intros H. specialize (H (mkEon 1 10 100 1) (mkEon 2 11 100 2)).
  assert (1 = 2) by (apply H; vm_compute; auto). discriminate.
Qed.

(* the translated decision at the boundaries: release time one below / equal to the block time,
   activation block equal to / one above the block number, log at / one after the expiry block *)
Example C02_translated_trigger_decision_agrees_nonvacuous :
  gen_should_trigger true 100 100 999 1000 = true /\
  gen_should_trigger true 100 100 1000 1000 = false /\
  gen_should_trigger true 100 99 999 1000 = false /\
  gen_should_trigger false 100 100 999 1000 = false /\
  gen_resolve_decryptable true true true true true = true /\
  gen_resolve_decryptable true true false true true = false /\
  gen_resolve_decryptable true true true true false = false /\
  gen_log_expired 200 200 = false /\ gen_log_expired 201 200 = true /\
  gen_early_return (Some 1000) 1000 = true /\ gen_early_return (Some 1000) 1001 = false.
Proof. vm_compute. repeat split; reflexivity. Qed.

(* release time 2^64-1 ("never") is stored as -1: not triggered at the first block after a start,
   nor after a restart, while the ordinary registration is *)
Example C02_time_never_early_unsigned_nonvacuous :
  let ops := (ex_ops ++ [OpRegisterTime (hx "09") 1 (ex_id "99") (-1) 90;
                         OpRegisterTime (hx "0a") 1 (ex_id "98") (-9223372036854775808) 90])%list in
  time_triggers ex_cfg (run ex_cfg ops) 100 1000 idf = [mkTrig 1 100 [ex_id "0f"; ex_id "1101"]] /\
  time_triggers ex_cfg (run ex_cfg (ops ++ [OpNewBlock 100 1000 idf idf; OpRestart])) 101 1001 idf
  = [mkTrig 1 100 [ex_id "0f"; ex_id "1100"; ex_id "1101"]].
Proof. vm_compute. split; reflexivity. Qed.
