(* C16 - an event trigger fires iff a matching log occurs in time, whatever the batching.
   This file only states the theorems; proofs are in Proofs/TriggerSync*.v.

   Vocabulary (Model/TriggerSync.v, on top of Model/Syncer.v): a view is the node's canonical
   branch; its blocks carry items in log order, registrations [IReg u] and plain logs [ILog l].
   [match_log definition log] is a parameter of every theorem: "the log passes the filter query of
   the definition and Match returns true" (C17 models it).  [tsync fl nd st orders] is one Sync of
   the multi-event syncer with the registration and the trigger processor, [orders] being the
   iteration orders of the processor map; [tgrun fl ops] runs a history of Syncs and updates of
   the decrypted flag from the empty database.  [first_fire v k r] is the earliest log of the
   view up to block k that lies after the registration block of r, not after its expiry, and
   matches; [should_fire v a k f] says f is the fired row of a registration of blocks [a, k]
   whose first_fire exists.  [tuniverse_ok] is the C15 well-formedness of the views (since the D9
   fixes no exclusion of registrations below the sync start is needed: the flavour clamps the start
   of a sync, fl_unclamped = false).  The D10 exclusion is exactly the
   D10 shape: [td10_free fl tginit history] says that no Sync of the history goes through a range
   [s, e] (the ranges GetSyncRanges gives it from its start position, after a possible rollback)
   in which a trigger is registered and a matching log of its window lies later in the same range
   ([range_clear]).  Every Sync takes two fault streams (one entry per RPC call, one per database
   operation), as in C15. *)
From Coq Require Import List NArith ZArith Bool Lia String.
From Verif Require Import Lib.Bytes Model.Syncer Model.TriggerSync
     Proofs.SyncerLemmas Proofs.Syncer Proofs.SyncerInstances
     Proofs.TriggerSyncLemmas Proofs.TriggerSync Proofs.TriggerSyncInstances.
Import ListNotations.
Open Scope string_scope.
Open Scope list_scope.
Open Scope Z_scope.

(* The specification is what the property says: the recorded log of a trigger is a plain log
   after the registration block, not after the expiry block, matching the definition, and no
   earlier log of the canonical chain (in block / log-index order) has these three properties. *)
Theorem C16_spec :
  forall (LogT : Type) (match_log : bytes -> LogT -> bool) (v : view (titem LogT)) (k : Z)
         (r : pev (titem LogT)) (u : uev),
    pe_ev r = IReg u ->
    forall l, first_fire match_log v k r = Some l <->
      exists pre post, logs_of v 0 k = pre ++ l :: post /\
                       window_match match_log u (pe_block r) l = true /\
                       forall x, In x pre -> window_match match_log u (pe_block r) x = false.
Proof. exact first_fire_spec. Qed.
Print Assumptions C16_spec.

Theorem C16_spec_window :
  forall (LogT : Type) (match_log : bytes -> LogT -> bool) (u : uev) (b : Z) (p : pev (titem LogT)),
    window_match match_log u b p = true <->
    exists lg, pe_ev p = ILog lg /\ b < pe_block p /\ pe_block p <= ev_expiry u /\ match_log (ev_definition u) lg = true.
Proof. exact window_match_spec. Qed.
Print Assumptions C16_spec_window.

Example C16_spec_nonvacuous :
  first_fire tag_match d10_view 5 (mkpev 3 (hx "03") 0 0 (IReg reg1)) = Some (mkpev 4 (hx "04") 0 0 (ILog (hx "d1"))) /\
  first_fire tag_match d10_view 3 (mkpev 3 (hx "03") 0 0 (IReg reg1)) = None.
Proof. vm_compute. split; reflexivity. Qed.

(* Exactness, for every range limit.  For all matchers, all histories of Syncs (any head sequences
   with repeats, gaps, steps back and forks that respect the assumption on heads, any iteration
   orders of the processor map, any RPC / database failures) and flag updates: whenever the
   recorded position (k, h) lies on the current view, (0) the registration table is exactly the
   view's admissible registrations of [first synced block, k] (the C15 statement, here with both
   processors running), (1) every key has at most one fired row, (2) every fired row is the
   chain-derived one: its trigger is registered on the view in that stretch and the row records
   the earliest matching log of its window, and (3) every registered trigger that is not marked
   decrypted and has a matching log in its window up to k has its fired row.
   _partial: the hypothesis [td10_free] excludes exactly the D10 shape (a registration and a later
   matching log of its window inside one processed range); without td10_free the statement is
   false (C16_batching_refuted). *)
Theorem C16_fired_exact_partial :
  forall (LogT : Type) (match_log : bytes -> LogT -> bool) (fl : flavour),
    0 < fl_range fl -> 0 <= fl_depth fl -> 0 <= fl_first_start fl -> fl_unclamped fl = false ->
  forall (ops : list (top LogT)) (v : view (titem LogT)) (orders : list bool) (rpc db : list fault),
    let history := ops ++ [TSync v orders rpc db] in
    tuniverse_ok fl (top_views history) -> theads_ok match_log fl tginit history ->
    td10_free match_log fl tginit history ->
    let st := tg_st (tgrun match_log fl history) in
    forall k h b, st_status (ts_core st) = Some (k, h) -> block_at v k = Some b -> bk_hash b = h ->
      st_rows (ts_core st) = rows_of t_admissible v (fl_first_start fl) k /\
      NoDup (map f_key (ts_fired st)) /\
      (forall f, In f (ts_fired st) -> should_fire match_log v (fl_first_start fl) k f) /\
      (forall r l, In r (rows_of t_admissible v (fl_first_start fl) k) ->
                   has_key (t_key (pe_ev r)) (ts_decrypted st) = false ->
                   first_fire match_log v k r = Some l -> In (fire_row r l) (ts_fired st)).
Proof. exact trigger_exact. Qed.
Print Assumptions C16_fired_exact_partial.

(* A condition on the chains alone that implies td10_free for every history over them: no trigger
   has a matching log within (range limit - 1) blocks after its registration block. *)
Theorem C16_d10_free_from_chains :
  forall (LogT : Type) (match_log : bytes -> LogT -> bool) (fl : flavour),
    0 < fl_range fl -> 0 <= fl_depth fl -> 0 <= fl_first_start fl -> fl_unclamped fl = false ->
  forall ops : list (top LogT),
    tuniverse_ok fl (top_views ops) ->
    (forall u, In u (top_views ops) -> no_early_match match_log (fl_range fl) u) ->
    theads_ok match_log fl tginit ops -> td10_free match_log fl tginit ops.
Proof. exact no_early_history. Qed.
Print Assumptions C16_d10_free_from_chains.

Example C16_fired_exact_nonvacuous :
  (* the hypotheses hold for a history with a reorganisation (fork_history, range limit 1) *)
  tuniverse_ok fork_flavour (top_views fork_history) /\
  theads_ok tag_match fork_flavour tginit fork_history /\
  td10_free tag_match fork_flavour tginit fork_history /\
  no_decrypt bytes fork_history /\
  st_status (ts_core (tg_st (tgrun tag_match fork_flavour fork_history))) = Some (6, hx "b6").
Proof. destruct fork_hypotheses as (H1 & H2 & H3 & H4). repeat (split; [assumption|]). vm_compute. reflexivity. Qed.

(* Block by block (range limit 1: every range is one block, whatever the heads and failures): the
   same statement without any D10 exclusion. *)
Theorem C16_block_by_block_exact :
  forall (LogT : Type) (match_log : bytes -> LogT -> bool) (sync_start depth : Z),
    0 <= sync_start -> 0 <= depth ->
  forall (ops : list (top LogT)) (v : view (titem LogT)) (orders : list bool) (rpc db : list fault),
    let fl := multi_flavour sync_start depth 1 in
    let history := ops ++ [TSync v orders rpc db] in
    tuniverse_ok fl (top_views history) ->
    theads_ok match_log fl tginit history ->
    let st := tg_st (tgrun match_log fl history) in
    forall k h b, st_status (ts_core st) = Some (k, h) -> block_at v k = Some b -> bk_hash b = h ->
      st_rows (ts_core st) = rows_of t_admissible v (sync_start + 1) k /\
      NoDup (map f_key (ts_fired st)) /\
      (forall f, In f (ts_fired st) -> should_fire match_log v (sync_start + 1) k f) /\
      (forall r l, In r (rows_of t_admissible v (sync_start + 1) k) ->
                   has_key (t_key (pe_ev r)) (ts_decrypted st) = false ->
                   first_fire match_log v k r = Some l -> In (fire_row r l) (ts_fired st)).
Proof.
  intros LogT match_log sync_start depth Hs Hd ops v orders rpc db fl history HU Hok.
  apply (trigger_exact LogT match_log fl); simpl; try lia; try assumption.
  apply (no_early_history LogT match_log fl); simpl; try lia; try assumption.
  intros u _. apply no_early_match_one.
Qed.
Print Assumptions C16_block_by_block_exact.

Example C16_block_by_block_nonvacuous :
  (* fork_history: fires on branch a, is un-fired by the reorganisation, fires again on branch b *)
  ts_fired (tg_st (tgrun tag_match fork_flavour fork_history)) = [mkfired (trigger_key reg1) 6 (hx "b6") 0 0] /\
  should_fire tag_match fork_b' 1 6 (mkfired (trigger_key reg1) 6 (hx "b6") 0 0).
Proof.
  split; [vm_compute; reflexivity|].
  exists (mkpev 1 (hx "01") 0 0 (IReg reg1)), (mkpev 6 (hx "b6") 0 0 (ILog (hx "d1"))).
  split; [vm_compute; left; reflexivity|]. split; vm_compute; reflexivity.
Qed.

(* Batching independence.  Two histories over possibly different head sequences, partitions,
   range limits, reorg depths, map iteration orders and failures, without flag updates, both
   ending on the view v with the same canonical position: the fired tables contain the same rows.
   _partial: neither history may go through a range of the D10 shape (td10_free);
   C16_batching_refuted shows the statement fails without that. *)
Theorem C16_batching_independent_partial :
  forall (LogT : Type) (match_log : bytes -> LogT -> bool) (fl1 fl2 : flavour)
         (ops1 ops2 : list (top LogT)) (v : view (titem LogT)) (o1 o2 : list bool) (rpc1 db1 rpc2 db2 : list fault),
    0 < fl_range fl1 -> 0 <= fl_depth fl1 -> 0 <= fl_first_start fl1 -> fl_unclamped fl1 = false ->
    0 < fl_range fl2 -> 0 <= fl_depth fl2 -> fl_first_start fl2 = fl_first_start fl1 -> fl_unclamped fl2 = false ->
    let h1 := ops1 ++ [TSync v o1 rpc1 db1] in
    let h2 := ops2 ++ [TSync v o2 rpc2 db2] in
    tuniverse_ok fl1 (top_views h1) -> theads_ok match_log fl1 tginit h1 -> td10_free match_log fl1 tginit h1 -> no_decrypt LogT h1 ->
    tuniverse_ok fl2 (top_views h2) -> theads_ok match_log fl2 tginit h2 -> td10_free match_log fl2 tginit h2 -> no_decrypt LogT h2 ->
    forall k h b,
      st_status (ts_core (tg_st (tgrun match_log fl1 h1))) = Some (k, h) ->
      st_status (ts_core (tg_st (tgrun match_log fl2 h2))) = Some (k, h) ->
      block_at v k = Some b -> bk_hash b = h ->
      forall f, In f (ts_fired (tg_st (tgrun match_log fl1 h1))) <-> In f (ts_fired (tg_st (tgrun match_log fl2 h2))).
Proof. exact batching_independent_partial. Qed.
Print Assumptions C16_batching_independent_partial.

(* D10 on the model: one chain (registration in block 3, matching log in block 4), one Sync to
   head 5, once with range limit 1 and once with range limit 10.  All hypotheses other than the
   D10 exclusion hold for both (the limit-10 Sync goes through the range [1, 5], which has the
   D10 shape), both end at the canonical position (5, hash 5); with limit 1 the trigger has
   fired (the chain-derived row), with limit 10 the fired table is empty. *)
Theorem C16_batching_refuted :
  d10_hyps 1 /\ d10_hyps 10 /\ ~ td10_free tag_match (d10_flavour 10) tginit d10_history /\
  st_status (ts_core (tg_st (tgrun tag_match (d10_flavour 1) d10_history))) = Some (5, hx "05") /\
  st_status (ts_core (tg_st (tgrun tag_match (d10_flavour 10) d10_history))) = Some (5, hx "05") /\
  block_at d10_view 5 = Some (mkblk (hx "05") []) /\
  List.length (ts_fired (tg_st (tgrun tag_match (d10_flavour 1) d10_history))) = 1%nat /\
  ts_fired (tg_st (tgrun tag_match (d10_flavour 10) d10_history)) = [] /\
  should_fire tag_match d10_view 1 5 (mkfired (trigger_key reg1) 4 (hx "04") 0 0).
Proof. destruct batching_refuted as (H1 & H2 & H3). split; [exact H1|]. split; [exact H2|]. split; [exact d10_shape_present|exact H3]. Qed.
Print Assumptions C16_batching_refuted.

(* At most once: in every reachable state, whatever the chain, the heads, the orders and the
   flag updates (no assumption at all), no key has two fired rows. *)
Theorem C16_at_most_once :
  forall (LogT : Type) (match_log : bytes -> LogT -> bool) (fl : flavour) (ops : list (top LogT)),
    NoDup (map f_key (ts_fired (tg_st (tgrun match_log fl ops)))).
Proof. exact at_most_once. Qed.
Print Assumptions C16_at_most_once.

(* A rollback to block [to] keeps exactly the registrations of blocks <= to and exactly the
   fired rows whose log is in a block <= to and whose registration is kept: rows of abandoned
   blocks are gone, so the trigger is active again on the new branch. *)
Theorem C16_rollback_unfires :
  forall (LogT : Type) (o : bool) (st : tstate LogT) (to : Z),
    let st' := trollback o st to in
    (forall p, In p (st_rows (ts_core st')) <-> In p (st_rows (ts_core st)) /\ pe_block p <= to) /\
    (forall f, In f (ts_fired st') <->
               In f (ts_fired st) /\ f_block f <= to /\ In (f_key f) (reg_keys (st_rows (ts_core st')))).
Proof. exact rollback_unfires. Qed.
Print Assumptions C16_rollback_unfires.

Example C16_rollback_unfires_nonvacuous :
  ts_fired (tg_st (tgrun tag_match fork_flavour [TSync fork_a [] [] []])) = [mkfired (trigger_key reg1) 4 (hx "a4") 0 0] /\
  ts_fired (tg_st (tgrun tag_match fork_flavour [TSync fork_a [] [] []; TSync fork_b [] [] []])) = [] /\
  ts_fired (tg_st (tgrun tag_match fork_flavour fork_history)) = [mkfired (trigger_key reg1) 6 (hx "b6") 0 0].
Proof. exact fork_unfires_and_refires. Qed.

(* The iteration order of the processor map (one order per iteration, any stream) does not
   influence the result of a Sync: state, result and everything else are equal. *)
Theorem C16_oracle_independent :
  forall (LogT : Type) (match_log : bytes -> LogT -> bool) (fl : flavour) (nd : node (titem LogT))
         (st : tstate LogT) (o1 o2 : list bool) (rpc db : list fault),
    tsync match_log fl nd st o1 rpc db = tsync match_log fl nd st o2 rpc db.
Proof. exact oracle_independent. Qed.
Print Assumptions C16_oracle_independent.

Example C16_oracle_independent_nonvacuous :
  tsync tag_match (d10_flavour 1) (node_of_view d10_view) tinit [true; false; true; true; false] [] []
  = tsync tag_match (d10_flavour 1) (node_of_view d10_view) tinit [] [] [] /\
  List.length (ts_fired (fst (fst (tsync tag_match (d10_flavour 1) (node_of_view d10_view) tinit [] [] [])))) = 1%nat.
Proof. vm_compute. split; reflexivity. Qed.
