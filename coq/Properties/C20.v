(* C20 - every generated eon key is handed to publication, even several per interval.
   This file only states the theorems; proofs are in Proofs/EonPK.v.

   [run] is the model of keyper/eonpkhandler.go as it is now (after commit dbdf6df in /repo,
   which repaired D13); [legacy_run] is the loop of the pinned tree, kept for the refutation. *)
From Coq Require Import String List NArith ZArith Bool Permutation Lia.
From Verif Require Import Lib.Bytes Model.EonPK Proofs.EonPK.
Import ListNotations.
Open Scope string_scope.
Open Scope list_scope.
Open Scope Z_scope.

(* For every history - keyper sets and eons becoming known, successful key generations being
   recorded (for known eons of sets the keyper is in, as finalizeDKG does), polling ticks at any
   points, ticks whose query fails - with any number of key generations between two ticks,
   every order in which a tick's query delivers the pending rows ([wf_from] only asks that a
   tick enumerates exactly the pending rows), broadcast, callback or both, and mechanisms that
   accept what they are handed:
   - no tick returns an error;
   - what each configured mechanism was handed and accepted, together with what is still
     pending, is as a multiset exactly [expected]: one entry per recorded key generation of a
     set the keyper belongs to, carrying the key, its eon's activation block, the keyper-set
     index and the eon number - each exactly once, with the right four fields;
   - after a final tick nothing is pending, so handed = generated;
   - every broadcast message carries the configured instance id. *)
Theorem C20_each_exactly_once : forall h ops,
  wf_from h empty_db ops -> accepting ops ->
  let d := fst (run h empty_db ops) in
  let outs := snd (run h empty_db ops) in
  Forall (fun e => e = ENone) (tick_errors outs) /\
  (h_bcast h = true -> Permutation (handed_to MBroadcast outs ++ pending_pks h d) (expected h ops)) /\
  (h_cb h = true -> Permutation (handed_to MCallback outs ++ pending_pks h d) (expected h ops)) /\
  (forall ops' enum answers, ops = ops' ++ [OpTick enum answers] -> pending_pks h d = []) /\
  (forall i pk a, In (CBroadcast i pk, a) (calls_of outs) -> i = h_instance h).
Proof. exact each_exactly_once. Qed.
Print Assumptions C20_each_exactly_once.

Definition ex_h : hcfg := mkH (hx "aa") 7 true true.
Definition ex_ops : list op :=
  [OpCfg 0 [hx "bb"; hx "aa"]; OpCfg 1 [hx "cc"]; OpCfg 2 [hx "aa"];
   OpEon 1 100 0; OpEon 2 150 1; OpEon 3 200 0; OpEon 4 300 2;
   OpGen (hx "10") 1; OpGen (hx "11") 3; OpGen (hx "12") 4;
   OpTickFails;
   OpTick [mkOut (hx "12") 4; mkOut (hx "10") 1; mkOut (hx "11") 3] [true];
   OpGen (hx "13") 1; OpTick [mkOut (hx "13") 1] []].

(* the hypotheses hold on a history with three sets (the keyper in two), four eons, three key
   generations before one tick delivered in another order, and the handed lists are not empty *)
Example C20_each_exactly_once_nonvacuous :
  wf_from ex_h empty_db ex_ops /\ accepting ex_ops /\
  handed_to MBroadcast (snd (run ex_h empty_db ex_ops))
  = [mkPK (hx "12") 300 2 4; mkPK (hx "10") 100 0 1; mkPK (hx "11") 200 0 3; mkPK (hx "13") 100 0 1] /\
  handed_to MCallback (snd (run ex_h empty_db ex_ops)) = handed_to MBroadcast (snd (run ex_h empty_db ex_ops)) /\
  expected ex_h ex_ops
  = [mkPK (hx "10") 100 0 1; mkPK (hx "11") 200 0 3; mkPK (hx "12") 300 2 4; mkPK (hx "13") 100 0 1].
Proof.
  assert (Permutation [mkOut (hx "12") 4; mkOut (hx "10") 1; mkOut (hx "11") 3]
                      [mkOut (hx "10") 1; mkOut (hx "11") 3; mkOut (hx "12") 4]) as P.
  { apply perm_trans with [mkOut (hx "10") 1; mkOut (hx "12") 4; mkOut (hx "11") 3].
    - apply perm_swap.
    - apply perm_skip. apply perm_swap. }
  split; [cbn; repeat split; try (apply good_rowb_sound; reflexivity); try exact P; apply Permutation_refl|].
  split; [intros enum answers Hin; simpl in Hin;
          repeat (destruct Hin as [Hin|Hin]; [try discriminate; inversion Hin; reflexivity|]); contradiction|].
  repeat split; reflexivity.
Qed.

(* Nothing else is ever handed over.  For EVERY history whose ticks enumerate the pending rows
   - no assumption on what was recorded (keys of eons of foreign sets, of unknown eons, negative
   numbers, refused inserts), on the answers of the mechanisms or on the mode: every call made
   to a mechanism, accepted or refused, carries a recorded key generation of a set the keyper
   belongs to, with that eon's activation block, keyper-set index and eon number. *)
Theorem C20_nothing_else_is_handed : forall h ops c a,
  ticks_enumerate empty_db ops ->
  In (c, a) (calls_of (snd (run h empty_db ops))) ->
  In (call_pk c) (expected h ops).
Proof. exact nothing_else_is_handed. Qed.
Print Assumptions C20_nothing_else_is_handed.

(* a history in which a key of an eon of a set the keyper is not in got into the table: the
   member key polled before it is handed over, the foreign one is not (the tick reports it) *)
Definition ex_foreign_ops : list op :=
  [OpCfg 0 [hx "bb"; hx "aa"]; OpCfg 1 [hx "cc"]; OpEon 1 100 0; OpEon 2 150 1;
   OpGen (hx "10") 1; OpGen (hx "66") 2;
   OpTick [mkOut (hx "10") 1; mkOut (hx "66") 2] []].

Example C20_nothing_else_is_handed_nonvacuous :
  ticks_enumerate empty_db ex_foreign_ops /\
  snd (run ex_h empty_db ex_foreign_ops)
  = [OIns true; OIns true; OIns true; OIns true; OIns true; OIns true;
     OTick [(CBroadcast 7 (mkPK (hx "10") 100 0 1), true); (CCallback (mkPK (hx "10") 100 0 1), true)]
           ENotMember] /\
  expected ex_h ex_foreign_ops = [mkPK (hx "10") 100 0 1].
Proof.
  split; [cbn; repeat split; apply Permutation_refl|]. split; reflexivity.
Qed.

(* PARTIAL with respect to the property: the property exempts only the keys a mechanism
   refuses; here a refusal also costs the keys polled behind the refused one.  What is proved
   is that this is never silent and exactly how far it goes.  One tick in any state that
   well-formed histories produce, any row order, any answers of the mechanisms: the pending
   rows are deleted, and either every configured mechanism accepted every key and no error is
   returned, or the keys polled before the refused key [r] went through, [r] was handed and
   refused, the error of that mechanism is returned (the caller logs it), and the keys [rest]
   polled behind [r] were handed to nothing - they are lost, because the query had already
   deleted them.  (Not deleting before the hand-over would need the poll and the hand-over in
   one transaction; that is a redesign, not a repair of D13.) *)
Theorem C20_failure_is_not_silent_partial : forall h d enum answers,
  wf_db h d -> Permutation enum (outgoing d) ->
  exists calls e,
    step h d (OpTick enum answers) = (mkDb [] (eons d) (cfgs d), OTick calls e) /\
    let pks := stamp_all h (eons d) (cfgs d) enum in
    Permutation pks (pending_pks h d) /\
    ((e = ENone /\ calls = flat_map (calls_ok h) pks) \/
     (exists done r rest pre c,
         pks = done ++ r :: rest /\
         calls = flat_map (calls_ok h) done ++ pre ++ [(c, false)] /\
         call_pk c = r /\
         Forall (fun ca => call_pk (fst ca) = r /\ snd ca = true) pre /\
         e = err_of_call c /\ e <> ENone /\
         (forall x, In x rest -> ~ In x (map (fun ca => call_pk (fst ca)) calls)))).
Proof. exact failure_is_not_silent. Qed.
Print Assumptions C20_failure_is_not_silent_partial.

Definition ex_db : db :=
  mkDb [mkOut (hx "10") 1; mkOut (hx "11") 3; mkOut (hx "12") 4]
       [mkEon 1 100 0; mkEon 3 200 0; mkEon 4 300 2]
       [mkCfg 0 [hx "bb"; hx "aa"]; mkCfg 2 [hx "aa"]].

(* a state with three pending keys; the callback refuses the second key: the first went to
   both mechanisms, the second was broadcast and then refused by the callback, the third was
   handed to nothing and is gone *)
Example C20_failure_is_not_silent_partial_nonvacuous :
  wf_db ex_h ex_db /\
  step ex_h ex_db (OpTick (outgoing ex_db) [true; true; true; false])
  = (mkDb [] (eons ex_db) (cfgs ex_db),
     OTick [(CBroadcast 7 (mkPK (hx "10") 100 0 1), true); (CCallback (mkPK (hx "10") 100 0 1), true);
            (CBroadcast 7 (mkPK (hx "11") 200 0 3), true); (CCallback (mkPK (hx "11") 200 0 3), false)]
           ECallback).
Proof.
  split; [|reflexivity]. split.
  - repeat constructor; apply good_rowb_sound; reflexivity.
  - simpl. repeat constructor; simpl; intuition discriminate.
Qed.

(* The property failed on the pinned tree (D13): a well-formed history (two eons of a set the
   keyper is in, both key generations recorded before one tick, broadcasting, a mechanism that
   accepts everything) after whose final tick no error was returned and nothing is pending,
   but the multiset handed to the mechanism is not the multiset of generated keys. *)
Theorem C20_each_exactly_once_refuted :
  exists h ops,
    wf_from h empty_db ops /\ accepting ops /\ h_bcast h = true /\ h_cb h = false /\
    (exists ops' enum answers, ops = ops' ++ [OpTick enum answers]) /\
    tick_errors (snd (legacy_run h empty_db ops)) = [ENone] /\
    outgoing (fst (legacy_run h empty_db ops)) = [] /\
    ~ Permutation (handed_to MBroadcast (snd (legacy_run h empty_db ops))
                   ++ pending_pks h (fst (legacy_run h empty_db ops)))
                  (expected h ops).
Proof. exact legacy_each_exactly_once_refuted. Qed.
Print Assumptions C20_each_exactly_once_refuted.

(* the same history on the repaired loop hands both keys *)
Example C20_each_exactly_once_refuted_repaired :
  handed_to MBroadcast (snd (legacy_run d13_h empty_db d13_ops)) = [mkPK (hx "10") 100 0 1] /\
  handed_to MBroadcast (snd (run d13_h empty_db d13_ops)) = expected d13_h d13_ops /\
  expected d13_h d13_ops = [mkPK (hx "10") 100 0 1; mkPK (hx "11") 200 0 2].
Proof. repeat split; reflexivity. Qed.

(* The property from the key generation on.  The producer model (Model/EonPK.v: what the
   shuttermint observer writes to the three tables; the key generation itself is an input, its
   outcomes arrive as lists [rs] of (eon, success, key) per Sync, any number per Sync and in any
   order): one Sync of the model is the run of its operations, and for every history of Syncs
   and polling ticks that is well-formed (a successful key generation is of a known eon of a
   known set containing the keyper, and - dkg_result has the eon as primary key - no eon
   finishes twice while its key is pending) and whose mechanisms accept: what each configured
   mechanism was handed, together with what is still pending, is as a multiset exactly the
   successful key generations [all_successes], stamped with the activation block and index of
   their eon's keyper set; after a final tick nothing is pending. *)
Theorem C20_from_the_key_generation_on :
  (forall h d nc ne rs, sync_blocks d nc ne rs = fst (run h d (ops_of_sync nc ne rs))) /\
  (forall h ps,
      wf_from h empty_db (ops_of_pops ps) -> accepting (ops_of_pops ps) ->
      let d := fst (run h empty_db (ops_of_pops ps)) in
      let outs := snd (run h empty_db (ops_of_pops ps)) in
      let tbl := tables_of (ops_of_pops ps) in
      let successful := stamp_all h (eons tbl) (cfgs tbl) (all_successes ps) in
      Forall (fun e => e = ENone) (tick_errors outs) /\
      (h_bcast h = true -> Permutation (handed_to MBroadcast outs ++ pending_pks h d) successful) /\
      (h_cb h = true -> Permutation (handed_to MCallback outs ++ pending_pks h d) successful) /\
      (forall ps' enum answers, ps = ps' ++ [PTick enum answers] -> pending_pks h d = [])).
Proof. split; [exact sync_blocks_is_run|exact from_the_key_generation_on]. Qed.
Print Assumptions C20_from_the_key_generation_on.

(* two keyper sets accepted in one block, their eons finish in one Sync together with a failed
   one; one tick afterwards hands both successful keys over *)
Definition ex_pops : list pop :=
  [PSync [mkCfg 1 [hx "aa"; hx "bb"]; mkCfg 2 [hx "bb"; hx "aa"]] [mkEon 1 50 1; mkEon 2 60 2; mkEon 3 60 2] [];
   PSync [] [] [mkRes 2 true (hx "22"); mkRes 3 false []; mkRes 1 true (hx "11")];
   PTick [mkOut (hx "11") 1; mkOut (hx "22") 2] []].

Example C20_from_the_key_generation_on_nonvacuous :
  wf_from ex_h empty_db (ops_of_pops ex_pops) /\ accepting (ops_of_pops ex_pops) /\
  all_successes ex_pops = [mkOut (hx "22") 2; mkOut (hx "11") 1] /\
  handed_to MCallback (snd (run ex_h empty_db (ops_of_pops ex_pops)))
  = [mkPK (hx "11") 50 1 1; mkPK (hx "22") 60 2 2].
Proof.
  split; [cbn; repeat split; try (apply good_rowb_sound; reflexivity); apply perm_swap|].
  split; [intros enum answers Hin; simpl in Hin;
          repeat (destruct Hin as [Hin|Hin]; [try discriminate; inversion Hin; reflexivity|]); contradiction|].
  split; reflexivity.
Qed.

(* The second tie to the source: queryAndHandleNewEonPubKeys (the query first, then the loop
   with every guard and every return), broadcastEonPublicKey, database.GetKeyperIndex, the two
   medley casts and the field order of p2pmsg.NewSignedEonPublicKey, translated statement by
   statement from the Go source on this run (Generated/EonPKLoop.v; the loop is a fold whose
   accumulator records an early return - a `continue` only ends the iteration -, the database
   result and the mechanisms are explicit parameters), compute what the model computes: a polling tick of the model is the query
   followed by the translated function - same calls in the same order with the same fields,
   same returned error class - for every configuration, every row list and all answers.  The
   last conjunct is the shape of eonPubKeyHandler.loop as read on this run (ticker, poll, error
   branch that does not skip the wait): with stopOnErrors = false a failed polling run is
   followed by the next poll like a successful one, so the loop is a sequence of ticks. *)
From Verif Require Import Generated.EonPKLoop Proofs.EonPKLoop.
Theorem C20_translated_loop_agrees :
  (forall h rows answers,
      gen_query_and_handle h (Some rows) answers =
      (fst (handle_rows h rows answers), ret_of_err (snd (handle_rows h rows answers)))) /\
  (forall h answers, gen_query_and_handle h None answers = ([], RQuery)) /\
  (forall h d enum answers,
      step h d (OpTick enum answers) =
      (fst (get_and_delete d enum),
       outcome_of_gen (gen_query_and_handle h (Some (snd (get_and_delete d enum))) answers))) /\
  (forall h d answers,
      step h d OpTickFails = (d, outcome_of_gen (gen_query_and_handle h None answers))) /\
  (forall h j cs0 answers,
      gen_end_iter (gen_loop_body h j (cs0, answers)) =
      let '(cs, ans', e) := handle_row h j answers in ((cs0 ++ cs, ans'), flow_of_err e)) /\
  (forall h pk st, gen_broadcast_eon_public_key h pk st = gen_env_call (CBroadcast (h_instance h) pk) st) /\
  (forall self ks, snd (gen_get_keyper_index self ks) = is_member self ks) /\
  (forall x, gen_int64_to_uint64_safe x = safe_cast x /\ gen_int32_to_uint64_safe x = safe_cast x) /\
  (forall failed, gen_loop_polls_again_after failed false = true).
Proof.
  split; [exact gen_query_and_handle_rows|]. split; [exact gen_query_and_handle_fails|].
  split; [exact step_tick_is_translated|]. split; [exact step_tick_fails_is_translated|].
  split; [exact gen_loop_body_agrees|]. split; [exact gen_broadcast_agrees|].
  split; [exact gen_get_keyper_index_agrees|].
  split; [exact (fun x => conj (gen_int64_cast_agrees x) (gen_int32_cast_agrees x))|].
  exact gen_loop_keeps_polling.
Qed.
Print Assumptions C20_translated_loop_agrees.

(* the translated function on the D13 rows: both keys are broadcast and nil is returned *)
Example C20_translated_loop_agrees_nonvacuous :
  gen_query_and_handle d13_h (Some [mkJ (hx "10") 1 100 [hx "aa"; hx "bb"] 0; mkJ (hx "11") 2 200 [hx "aa"; hx "bb"] 0]) []
  = ([(CBroadcast 42 (mkPK (hx "10") 100 0 1), true); (CBroadcast 42 (mkPK (hx "11") 200 0 2), true)], RNil).
Proof. reflexivity. Qed.
