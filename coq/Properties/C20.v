(* C20 - every generated eon key is handed to publication, even several per interval.
   This file only states the theorems; proofs are in Proofs/EonPK.v.

   State on the pinned tree: the loop of queryAndHandleNewEonPubKeys returns after the first
   key of a batch (D13).  [legacy_run] is the model of the tree as it is; the full statement is
   refuted on it, and proved for histories in which at most one key generation finishes per
   polling interval and one mechanism is configured. *)
From Coq Require Import String List NArith ZArith Bool Permutation Lia.
From Verif Require Import Lib.Bytes Model.EonPK Proofs.EonPK.
Import ListNotations.
Open Scope string_scope.
Open Scope list_scope.
Open Scope Z_scope.

(* The property fails on the tree as it is: a well-formed history (two eons of a set the
   keyper is in, both key generations recorded before one tick, broadcasting, a mechanism that
   accepts everything) after whose final tick no error was returned and nothing is pending,
   but the multiset handed to the mechanism is not the multiset of generated keys. *)
Theorem C20_each_exactly_once_refuted :
  exists h ops,
    wf_from h empty_db ops /\ accepting ops /\ h_bcast h = true /\ h_cb h = false /\
    (exists ops' enum answers, ops = ops' ++ [OpTick enum answers]) /\
    tick_errors (snd (legacy_run h empty_db ops)) = [ENone] /\
    outgoing (fst (legacy_run h empty_db ops)) = [] /\
    ~ Permutation (handed_to MBroadcast (snd (legacy_run h empty_db ops))
                   ++ pending_pks h (fst (legacy_run h empty_db ops)))
                  (expected h ops).
Proof. exact legacy_each_exactly_once_refuted. Qed.
Print Assumptions C20_each_exactly_once_refuted.

(* What holds on the tree as it is - PARTIAL: only for histories in which every tick polls at
   most one pending key ([small_ticks]) and only one of broadcast / callback is configured.
   Missing with respect to the property: any number of key generations within one polling
   interval (refuted above), and the callback when broadcasting is enabled as well.
   For such histories, every sequence of operations, every row order and an accepting
   mechanism: no tick returns an error; what the mechanism was handed and accepted, together
   with what is still pending, is as a multiset exactly the successful key generations of sets
   the keyper belongs to, each with its eon's activation block, keyper-set index and eon
   number; after a final tick nothing is pending. *)
Theorem C20_each_exactly_once_single_partial : forall h ops,
  wf_from h empty_db ops -> accepting ops -> small_ticks ops -> h_bcast h && h_cb h = false ->
  let d := fst (legacy_run h empty_db ops) in
  let outs := snd (legacy_run h empty_db ops) in
  Forall (fun e => e = ENone) (tick_errors outs) /\
  (h_bcast h = true -> Permutation (handed_to MBroadcast outs ++ pending_pks h d) (expected h ops)) /\
  (h_cb h = true -> Permutation (handed_to MCallback outs ++ pending_pks h d) (expected h ops)) /\
  (forall ops' enum answers, ops = ops' ++ [OpTick enum answers] -> pending_pks h d = []).
Proof. exact legacy_each_exactly_once_single. Qed.
Print Assumptions C20_each_exactly_once_single_partial.

(* the hypotheses are satisfiable on a history with two sets (the keyper in one of them), two
   eons, one key per tick, and the conclusion is not empty *)
Definition ex_h : hcfg := mkH (hx "aa") 7 false true.
Definition ex_ops : list op :=
  [OpCfg 0 [hx "bb"; hx "aa"]; OpCfg 1 [hx "cc"]; OpEon 1 100 0; OpEon 2 150 1; OpEon 3 200 0;
   OpGen (hx "10") 1; OpTick [mkOut (hx "10") 1] [true];
   OpGen (hx "11") 3; OpTickFails; OpTick [mkOut (hx "11") 3] []].

Example C20_each_exactly_once_single_partial_nonvacuous :
  wf_from ex_h empty_db ex_ops /\ accepting ex_ops /\ small_ticks ex_ops /\
  h_bcast ex_h && h_cb ex_h = false /\
  handed_to MCallback (snd (legacy_run ex_h empty_db ex_ops))
  = [mkPK (hx "10") 100 0 1; mkPK (hx "11") 200 0 3] /\
  expected ex_h ex_ops = [mkPK (hx "10") 100 0 1; mkPK (hx "11") 200 0 3].
Proof.
  split; [cbn; repeat split; try apply Permutation_refl; apply good_rowb_sound; reflexivity|].
  split; [intros enum answers Hin; simpl in Hin;
          repeat (destruct Hin as [Hin|Hin]; [try discriminate; inversion Hin; reflexivity|]); contradiction|].
  split; [intros enum answers Hin; simpl in Hin;
          repeat (destruct Hin as [Hin|Hin]; [try discriminate; inversion Hin; simpl; lia|]); contradiction|].
  repeat split; reflexivity.
Qed.
