(* C13 - shuttermint restarted from its saved state continues identically.
   (statements only; proofs in Proofs/AppPersist.v)

   gob is a dependency: [enc]/[dec] are an abstract codec with the round-trip law as a
   hypothesis. That the real gob encoding of the real ShutterApp satisfies it - every field
   persisted, maps and slices restored with the same meaning - is exactly what the
   differential restarts of the driver check (every save height x every stop height). *)
From Coq Require Import String.
From Coq Require Import List NArith ZArith Bool.
From Verif Require Import Lib.Bytes Lib.Assoc Model.Powermap Model.App Model.AppPersist
     Proofs.AppDet Proofs.AppPersist.
Import ListNotations.

Section C13.
  Variable enc : image -> bytes.
  Variable dec : bytes -> option image.
  Hypothesis codec : forall i, dec (enc i) = Some i.

  (* A node that saved its state at a commit and restarts from the file: the file loads, to
     exactly the state after that commit; Info reports the height of the last executed block,
     so Tendermint replays exactly the blocks after it; and replaying any continuation [cs]
     - under any map enumeration - yields the responses and the states of the node that never
     stopped.  This holds for every state [s] in which Commit is called, every block height
     [h] whose EndBlock preceded it, and every earlier content of the file system. *)
  Theorem C13_replay_equivalence : forall e s h f cs es k,
    let s_end := fst (end_block e s h) in
    let '(s1, f1) := commit_persist enc true s_end f in
    load_from_disk dec f1 = Some (Some s1) /\
    info_height s1 = h /\
    forall s_restarted, load_from_disk dec f1 = Some (Some s_restarted) ->
      run_enums es k s_restarted cs = run_enums es k s1 cs.
  Proof.
    intros e s h f cs es k s_end. unfold commit_persist.
    assert (Hl : load_from_disk dec (run_fs f (persist_ops [enc (snapshot (commit s_end))])) = Some (Some (commit s_end))).
    { unfold load_from_disk. rewrite persist_complete. simpl. rewrite app_nil_r, codec, load_snapshot. reflexivity. }
    split; [exact Hl|]. split.
    - unfold s_end, end_block. destruct (end_block_configs s None (configs s)) as [cs' evs]. reflexivity.
    - intros sr Hr. rewrite Hl in Hr. injection Hr as <-. reflexivity.
  Qed.

  (* When the throttle skips the save, the file system is untouched: a later restart still
     starts from the previous save. *)
  Theorem C13_skipped_save_keeps_file : forall s f,
    snd (commit_persist enc false s f) = f.
  Proof. reflexivity. Qed.

  (* A crash at any point while the state file is being written - after any proper prefix of
     create-tmp, the partial writes (for every way the encoder splits the bytes into chunks),
     sync, rename - leaves the main file exactly as it was: the node loads the previous state
     (or starts fresh if there was none), never a partial one.  Once the rename has happened
     the new state loads. *)
  Theorem C13_crash_keeps_previous : forall f chunks ops rest,
    persist_ops chunks = ops ++ rest -> rest <> [] ->
    load_from_disk dec (run_fs f ops) = load_from_disk dec f.
  Proof.
    intros f chunks ops rest H Hne. unfold load_from_disk.
    rewrite (prefix_keeps_main chunks f ops rest H Hne). reflexivity.
  Qed.

  Theorem C13_complete_persist_loads_new : forall f chunks i,
    concat chunks = enc i ->
    load_from_disk dec (run_fs f (persist_ops chunks)) = Some (Some (load i)).
  Proof.
    intros f chunks i H. unfold load_from_disk. rewrite persist_complete, H, codec. reflexivity.
  Qed.
End C13.
Print Assumptions C13_replay_equivalence.
Print Assumptions C13_skipped_save_keeps_file.
Print Assumptions C13_crash_keeps_previous.
Print Assumptions C13_complete_persist_loads_new.

(* every field of the model state is in the image: loading a snapshot gives the state back *)
Theorem C13_image_is_complete : forall s, load (snapshot s) = s.
Proof. exact load_snapshot. Qed.
Print Assumptions C13_image_is_complete.

(* Non-vacuity: a codec satisfying the law exists (here the trivial one over a one-entry
   table), and a crash prefix exists with a non-empty rest. *)
Example C13_crash_prefix_nonvacuous :
  persist_ops [hx "0102"%string; hx "03"%string] =
  [OCreateTmp; OWrite (hx "0102"%string)] ++ [OWrite (hx "03"%string); OSync; ORename] /\
  f_main (run_fs (mkFs (Some (hx "ff"%string)) None) [OCreateTmp; OWrite (hx "0102"%string)]) = Some (hx "ff"%string) /\
  f_main (run_fs (mkFs (Some (hx "ff"%string)) None) (persist_ops [hx "0102"%string; hx "03"%string])) = Some (hx "010203"%string).
Proof. repeat split. Qed.

(* The tie of the gob premise to the source: the struct fields gob persists, regenerated with
   go/types from app.ShutterApp on this run (Generated/AppSchema.v), are exactly the fields the
   image of the model has a component for, none of them is unexported (gob drops unexported
   fields silently - a restarted node would continue from a different state), and the only
   foreign leaf types are ones that carry their own encoding. *)
From Verif Require Import Generated.AppSchema Proofs.AppSchema.
Theorem C13_translated_schema_is_the_models :
  map struct_field gen_persisted_fields = map fst model_schema /\
  forallb (fun f => snd f) gen_persisted_fields = true /\
  gen_leaf_types = ["common.Address"; "time.Time"]%string.
Proof.
  split; [exact schema_is_the_models|]. split; [exact no_unexported_field|exact leaves_carry_their_own_encoding].
Qed.
Print Assumptions C13_translated_schema_is_the_models.

(* On the source as read on this run (Generated/AppFrame.v): writing the state file changes
   nothing of the application but the node-local LastSaved (the gob encoder only reads it), and
   Commit nothing but that and the CheckTx bookkeeping - when a node saves is its own business
   and cannot show in the replicated state. *)
From Verif Require Import Generated.AppFrame Proofs.AppFrame.
Theorem C13_translated_saving_changes_nothing :
  In ("PersistToDisk"%string,
      ["ShutterApp.LastSaved"; "ext:gob.Encode:*ShutterApp"]%string) gen_entry_writes /\
  In ("Commit"%string,
      ["CheckTxState.NonceTracker"; "CheckTxState.TxCounts"; "ShutterApp.LastSaved";
       "ext:gob.Encode:*ShutterApp"]%string) gen_entry_writes /\
  (forall s, eqc (App.commit s) s).
Proof.
  destruct frame_tables_agree as [-> _]. unfold model_entry_writes.
  split; [|split]; [simpl; tauto | simpl; tauto | exact commit_frame].
Qed.
Print Assumptions C13_translated_saving_changes_nothing.
