(* Combinators the statement translators emit for Go loops and small integer-keyed maps.

   find_first_idx f l     a `for i, x := range l { ... return ... }` loop whose body either
                          returns (Some r) or falls through to the next element (None)
   nmap / nget0 / nmem / nset   a Go map[int]int that is local to a function: association list
                          keyed by nat, reads of a missing key give 0 *)
From Coq Require Import List Arith ZArith Bool Lia.
Import ListNotations.

Section FindFirst.
  Context {A R : Type}.
  Fixpoint find_first_from (f : nat -> A -> option R) (i : nat) (l : list A) : option R :=
    match l with
    | [] => None
    | x :: r => match f i x with Some y => Some y | None => find_first_from f (S i) r end
    end.
  Definition find_first_idx (f : nat -> A -> option R) (l : list A) : option R := find_first_from f 0 l.

  Lemma find_first_from_ext f g i l :
    (forall j x, f j x = g j x) -> find_first_from f i l = find_first_from g i l.
  Proof. intros H. revert i. induction l as [|x r IH]; intros i; simpl; [reflexivity|]. rewrite H, IH. reflexivity. Qed.
End FindFirst.

Definition nmap := list (nat * Z).

Fixpoint nget (m : nmap) (k : nat) : option Z :=
  match m with
  | [] => None
  | (k', v) :: r => if Nat.eqb k' k then Some v else nget r k
  end.
Definition nget0 (m : nmap) (k : nat) : Z := match nget m k with Some v => v | None => 0%Z end.
Definition nmem (m : nmap) (k : nat) : bool := match nget m k with Some _ => true | None => false end.
Fixpoint nset (m : nmap) (k : nat) (v : Z) : nmap :=
  match m with
  | [] => [(k, v)]
  | (k', v') :: r => if Nat.eqb k' k then (k', v) :: r else (k', v') :: nset r k v
  end.

Lemma nget_nset_same m k v : nget (nset m k v) k = Some v.
Proof.
  induction m as [|[k' v'] r IH]; simpl.
  - rewrite Nat.eqb_refl. reflexivity.
  - destruct (Nat.eqb k' k) eqn:E; simpl; rewrite E; auto.
Qed.

Lemma nget_nset_other m k k' v : k <> k' -> nget (nset m k v) k' = nget m k'.
Proof.
  intros Hne. induction m as [|[k0 v0] r IH]; simpl.
  - destruct (Nat.eqb_spec k k'); [contradiction|reflexivity].
  - destruct (Nat.eqb_spec k0 k); simpl.
    + subst k0. destruct (Nat.eqb_spec k k'); [contradiction|reflexivity].
    + destruct (Nat.eqb k0 k'); auto.
Qed.

(* a set kept as a list: insertion of an element that may be present already (the Go code
   writes m[k] = struct{}{}) *)
Section SetAdd.
  Context {A : Type}.
  Variable mem : A -> list A -> bool.
  Definition set_add (l : list A) (x : A) : list A := if mem x l then l else l ++ [x].
End SetAdd.
