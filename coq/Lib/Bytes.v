(* Byte strings as lists of N (each element < 256 by convention), hex literals, and the
   lexicographic order that Go's bytes.Compare implements. *)
From Coq Require Import List NArith Ascii String Bool Lia.
Import ListNotations.

Definition bytes := list N.

Definition hexval (c : ascii) : N :=
  let n := N_of_ascii c in
  if (48 <=? n)%N && (n <=? 57)%N then n - 48
  else if (97 <=? n)%N && (n <=? 102)%N then n - 87
  else if (65 <=? n)%N && (n <=? 70)%N then n - 55
  else 0.

(* hx "00ff" = [0; 255]; an odd trailing digit is dropped (the harness never emits one) *)
Fixpoint hx (s : string) : bytes :=
  match s with
  | String a (String b r) => (hexval a * 16 + hexval b)%N :: hx r
  | _ => []
  end.

Fixpoint bytes_eqb (a b : bytes) : bool :=
  match a, b with
  | [], [] => true
  | x :: a', y :: b' => N.eqb x y && bytes_eqb a' b'
  | _, _ => false
  end.

Fixpoint bytes_cmp (a b : bytes) : comparison :=
  match a, b with
  | [], [] => Eq
  | [], _ :: _ => Lt
  | _ :: _, [] => Gt
  | x :: a', y :: b' =>
      match N.compare x y with
      | Eq => bytes_cmp a' b'
      | c => c
      end
  end.

Definition bytes_ltb (a b : bytes) : bool :=
  match bytes_cmp a b with Lt => true | _ => false end.
Definition bytes_leb (a b : bytes) : bool :=
  match bytes_cmp a b with Gt => false | _ => true end.

Lemma bytes_eqb_eq a b : bytes_eqb a b = true <-> a = b.
Proof.
  revert b; induction a as [|x a IH]; intros [|y b]; simpl; split; intros H;
    try reflexivity; try discriminate.
  - apply andb_true_iff in H as [H1 H2]. apply N.eqb_eq in H1. apply IH in H2. congruence.
  - injection H as -> ->. rewrite N.eqb_refl. simpl. apply IH. reflexivity.
Qed.

Lemma bytes_eqb_refl a : bytes_eqb a a = true.
Proof. apply bytes_eqb_eq. reflexivity. Qed.

Lemma bytes_eqb_neq a b : bytes_eqb a b = false <-> a <> b.
Proof.
  split; intros H.
  - intros E. apply bytes_eqb_eq in E. congruence.
  - destruct (bytes_eqb a b) eqn:E; [|reflexivity]. apply bytes_eqb_eq in E. contradiction.
Qed.

Lemma bytes_cmp_eq a b : bytes_cmp a b = Eq <-> a = b.
Proof.
  revert b; induction a as [|x a IH]; intros [|y b]; simpl; split; intros H;
    try reflexivity; try discriminate.
  - destruct (N.compare x y) eqn:E; try discriminate.
    apply N.compare_eq in E. apply IH in H. congruence.
  - injection H as -> ->. rewrite N.compare_refl. apply IH. reflexivity.
Qed.

Lemma bytes_cmp_antisym a b : bytes_cmp b a = CompOpp (bytes_cmp a b).
Proof.
  revert b; induction a as [|x a IH]; intros [|y b]; simpl; try reflexivity.
  rewrite (N.compare_antisym x y). destruct (N.compare x y); simpl; auto.
Qed.

Lemma bytes_cmp_lt_trans a b c :
  bytes_cmp a b = Lt -> bytes_cmp b c = Lt -> bytes_cmp a c = Lt.
Proof.
  revert b c; induction a as [|x a IH]; intros [|y b] [|z c]; simpl; intros H1 H2;
    try reflexivity; try discriminate.
  destruct (N.compare x y) eqn:E1; try discriminate;
    destruct (N.compare y z) eqn:E2; try discriminate.
  - apply N.compare_eq in E1, E2. subst. rewrite N.compare_refl. eapply IH; eauto.
  - apply N.compare_eq in E1. subst. rewrite E2. reflexivity.
  - apply N.compare_eq in E2. subst. rewrite E1. reflexivity.
  - apply N.compare_lt_iff in E1. apply N.compare_lt_iff in E2.
    assert (H : (x < z)%N) by (eapply N.lt_trans; eauto).
    apply N.compare_lt_iff in H. rewrite H. reflexivity.
Qed.

Lemma bytes_ltb_irrefl a : bytes_ltb a a = false.
Proof. unfold bytes_ltb. replace (bytes_cmp a a) with Eq; [reflexivity|]. symmetry. apply bytes_cmp_eq. reflexivity. Qed.

Lemma bytes_ltb_trans a b c : bytes_ltb a b = true -> bytes_ltb b c = true -> bytes_ltb a c = true.
Proof.
  unfold bytes_ltb. destruct (bytes_cmp a b) eqn:E1; try discriminate.
  destruct (bytes_cmp b c) eqn:E2; try discriminate. intros _ _.
  rewrite (bytes_cmp_lt_trans _ _ _ E1 E2). reflexivity.
Qed.

Lemma bytes_ltb_total a b : a <> b -> bytes_ltb a b = true \/ bytes_ltb b a = true.
Proof.
  intros H. unfold bytes_ltb. rewrite (bytes_cmp_antisym a b).
  destruct (bytes_cmp a b) eqn:E; simpl; auto.
  apply bytes_cmp_eq in E. contradiction.
Qed.

Lemma bytes_ltb_asym a b : bytes_ltb a b = true -> bytes_ltb b a = false.
Proof.
  unfold bytes_ltb. rewrite (bytes_cmp_antisym a b). destruct (bytes_cmp a b); simpl; congruence.
Qed.
