(* Association lists keyed by byte strings: the model of a Go map.  Keys are unique by
   construction (set replaces in place or appends). *)
From Coq Require Import List NArith ZArith Bool Lia.
From Verif Require Import Lib.Bytes.
Import ListNotations.

Section Assoc.
  Context {V : Type}.
  Definition amap := list (bytes * V).

  Fixpoint aget (m : amap) (k : bytes) : option V :=
    match m with
    | [] => None
    | (k', v) :: r => if bytes_eqb k' k then Some v else aget r k
    end.

  Fixpoint aset (m : amap) (k : bytes) (v : V) : amap :=
    match m with
    | [] => [(k, v)]
    | (k', v') :: r => if bytes_eqb k' k then (k', v) :: r else (k', v') :: aset r k v
    end.

  Fixpoint adel (m : amap) (k : bytes) : amap :=
    match m with
    | [] => []
    | (k', v') :: r => if bytes_eqb k' k then r else (k', v') :: adel r k
    end.

  Definition amem (m : amap) (k : bytes) : bool :=
    match aget m k with Some _ => true | None => false end.

  Lemma aget_aset_same m k v : aget (aset m k v) k = Some v.
  Proof.
    induction m as [|[k' v'] r IH]; simpl.
    - rewrite bytes_eqb_refl. reflexivity.
    - destruct (bytes_eqb k' k) eqn:E; simpl; rewrite E; auto.
  Qed.

  Lemma aget_aset_other m k k' v : k <> k' -> aget (aset m k v) k' = aget m k'.
  Proof.
    intros Hne. induction m as [|[k0 v0] r IH]; simpl.
    - apply bytes_eqb_neq in Hne. rewrite Hne. reflexivity.
    - destruct (bytes_eqb k0 k) eqn:E; simpl.
      + apply bytes_eqb_eq in E. subst k0. apply bytes_eqb_neq in Hne. rewrite Hne. reflexivity.
      + destruct (bytes_eqb k0 k'); auto.
  Qed.

  Lemma aset_keys_in m k v x : In x (map fst (aset m k v)) <-> x = k \/ In x (map fst m).
  Proof.
    induction m as [|[k0 v0] r IH]; simpl.
    - intuition.
    - destruct (bytes_eqb k0 k) eqn:E; simpl.
      + apply bytes_eqb_eq in E. subst. intuition.
      + rewrite IH. intuition.
  Qed.

  Lemma aset_nodup m k v : NoDup (map fst m) -> NoDup (map fst (aset m k v)).
  Proof.
    induction m as [|[k0 v0] r IH]; simpl; intros H.
    - constructor; [intros []|constructor].
    - inversion H as [|? ? Hn Hd]; subst.
      destruct (bytes_eqb k0 k) eqn:E; simpl.
      + constructor; assumption.
      + constructor; [|apply IH; exact Hd].
        rewrite aset_keys_in. intros [->|Hin]; [|contradiction].
        rewrite bytes_eqb_refl in E. discriminate.
  Qed.

  Lemma aget_in m k v : aget m k = Some v -> In (k, v) m.
  Proof.
    induction m as [|[k0 v0] r IH]; simpl; [discriminate|].
    destruct (bytes_eqb k0 k) eqn:E.
    - apply bytes_eqb_eq in E. intros [= ->]. left. congruence.
    - intros H. right. apply IH. exact H.
  Qed.

  Lemma aget_none_notin m k : aget m k = None <-> ~ In k (map fst m).
  Proof.
    induction m as [|[k0 v0] r IH]; simpl; [intuition|].
    destruct (bytes_eqb k0 k) eqn:E.
    - apply bytes_eqb_eq in E. subst. split; [discriminate|]. intros H. exfalso. apply H. left. reflexivity.
    - rewrite IH. apply bytes_eqb_neq in E. intuition.
  Qed.

  Lemma in_nodup_aget m k v : NoDup (map fst m) -> In (k, v) m -> aget m k = Some v.
  Proof.
    induction m as [|[k0 v0] r IH]; simpl; intros Hnd Hin; [contradiction|].
    inversion Hnd as [|? ? Hn Hd]; subst.
    destruct Hin as [Heq|Hin].
    - injection Heq as -> ->. rewrite bytes_eqb_refl. reflexivity.
    - destruct (bytes_eqb k0 k) eqn:E.
      + apply bytes_eqb_eq in E. subst. exfalso. apply Hn. apply in_map_iff. exists (k, v). auto.
      + apply IH; assumption.
  Qed.
End Assoc.
Arguments amap : clear implicits.
