(* Lagrange interpolation at 0 over an arbitrary field (MathComp / ssreflect style; the only
   file of the development written in that style together with Proofs/EpochKGAlgebra.v).
   [lam xs i] is exactly what shlib/shcrypto lagrangeCoefficient computes for the keyper
   with x-coordinate i among the x-coordinates xs (x = keyperIndex + 1):
       prod_{k in xs, k <> i}  k / (k - i)
   [lagrange_at0]: for pairwise distinct nodes xs and a polynomial f with size f <= size xs
   (degree < number of nodes), sum_i lam xs i * f(i) = f(0). *)
From mathcomp Require Import all_ssreflect all_algebra.
Set Implicit Arguments. Unset Strict Implicit. Unset Printing Implicit Defensive.
Import GRing.Theory.
Local Open Scope ring_scope.

Section Lagrange.
Variable F : fieldType.

(* basis polynomial for node i among nodes xs *)
Definition ell (xs : seq F) (i : F) : {poly F} :=
  \prod_(k <- xs | k != i) ((i - k)^-1 *: ('X - k%:P)).

Definition lam (xs : seq F) (i : F) : F :=
  \prod_(k <- xs | k != i) (k / (k - i)).

Lemma ell_at0 xs i : (ell xs i).[0] = lam xs i.
Proof.
rewrite /ell /lam horner_prod; apply: eq_bigr => k kni.
rewrite hornerZ hornerXsubC sub0r mulrN -mulNr -invrN opprB mulrC.
by [].
Qed.

Lemma ell_self xs i : (ell xs i).[i] = 1.
Proof.
rewrite /ell horner_prod big1 // => k kni.
rewrite hornerZ hornerXsubC mulVf // subr_eq0 eq_sym. exact: kni.
Qed.

Lemma ell_other xs i j : j \in xs -> j != i -> (ell xs i).[j] = 0.
Proof.
move=> jxs jni; rewrite /ell horner_prod.
apply/eqP; rewrite prodf_seq_eq0; apply/hasP; exists j => //.
by rewrite jni /= hornerZ hornerXsubC subrr mulr0.
Qed.

Lemma size_ell_count xs i :
  (size (ell xs i) <= (count (fun k => k != i) xs).+1)%N.
Proof.
rewrite /ell.
elim: xs => [|k xs IH]; first by rewrite big_nil size_poly1.
rewrite big_cons /=; case: ifP => kni; last by rewrite add0n.
rewrite add1n.
case E: (\prod_(j <- xs | j != i) ((i - j)^-1 *: ('X - j%:P)) == 0).
  by rewrite (eqP E) mulr0 size_poly0.
have nz : (i - k)^-1 != 0 by rewrite invr_eq0 subr_eq0 eq_sym kni.
rewrite size_mul ?E // ?scaler_eq0 ?negb_or ?nz ?polyXsubC_eq0 //.
by rewrite size_scale // size_XsubC /= ltnS.
Qed.

Lemma size_ell xs i : i \in xs -> (size (ell xs i) <= size xs)%N.
Proof.
move=> ixs; apply: leq_trans (size_ell_count xs i) _.
rewrite -(count_predC (fun k => k != i) xs) -addn1 leq_add2l.
rewrite -has_count; apply/hasP; exists i => //=.
by rewrite negbK.
Qed.

Definition interp (xs : seq F) (f : {poly F}) : {poly F} :=
  \sum_(i <- xs) f.[i] *: ell xs i.

Lemma interp_at xs f j : uniq xs -> j \in xs -> (interp xs f).[j] = f.[j].
Proof.
move=> uxs jxs; rewrite /interp horner_sum.
rewrite (bigD1_seq j) //= hornerZ ell_self mulr1 big1 ?addr0 // => i inj.
by rewrite hornerZ ell_other ?mulr0 // eq_sym.
Qed.

Lemma size_interp xs f : (size (interp xs f) <= size xs)%N.
Proof.
rewrite /interp big_seq_cond; elim/big_ind: _ => [|p q Hp Hq|i].
- by rewrite size_poly0.
- by apply: leq_trans (size_add p q) _; rewrite geq_max Hp Hq.
- rewrite andbT => ixs.
  case: (f.[i] =P 0) => [->|/eqP nz]; first by rewrite scale0r size_poly0.
  by rewrite size_scale // size_ell.
Qed.

Theorem lagrange_at0 (xs : seq F) (f : {poly F}) :
  uniq xs -> (size f <= size xs)%N ->
  \sum_(i <- xs) lam xs i * f.[i] = f.[0].
Proof.
move=> uxs szf.
have -> : \sum_(i <- xs) lam xs i * f.[i] = (interp xs f).[0].
  rewrite /interp horner_sum; apply: eq_bigr => i _.
  by rewrite hornerZ ell_at0 mulrC.
suff -> : interp xs f = f by [].
apply/eqP; rewrite -subr_eq0; apply/negPn/negP => nz.
have roots : all (root (interp xs f - f)) xs.
  apply/allP => j jxs.
  by rewrite /root hornerD hornerN interp_at // subrr.
have := max_poly_roots nz roots uxs.
have : (size (interp xs f - f)%R <= size xs)%N.
  apply: leq_trans (size_add _ _) _.
  by rewrite size_opp geq_max size_interp szf.
by move=> le lt; move: (leq_ltn_trans le lt); rewrite ltnn.
Qed.

End Lagrange.
