(* Insertion sort of key/value lists by the bytewise order on keys, and the fact the
   determinism arguments rest on: two permutations of a list with pairwise distinct keys
   sort to the same list (so an unstable sort such as Go's sort.Slice, and any map
   enumeration order, give one result). *)
From Coq Require Import List NArith ZArith Bool Lia Permutation Sorted.
From Verif Require Import Lib.Bytes.
Import ListNotations.

Section KeyedSort.
  Context {V : Type}.

  Definition klt (a b : bytes * V) : Prop := bytes_ltb (fst a) (fst b) = true.

  Fixpoint kinsert (x : bytes * V) (l : list (bytes * V)) : list (bytes * V) :=
    match l with
    | [] => [x]
    | y :: r => if bytes_ltb (fst y) (fst x) then y :: kinsert x r else x :: l
    end.

  Fixpoint ksort (l : list (bytes * V)) : list (bytes * V) :=
    match l with
    | [] => []
    | x :: r => kinsert x (ksort r)
    end.

  Lemma kinsert_perm x l : Permutation (kinsert x l) (x :: l).
  Proof.
    induction l as [|y r IH]; simpl; [reflexivity|].
    destruct (bytes_ltb (fst y) (fst x)); [|reflexivity].
    rewrite IH. apply perm_swap.
  Qed.

  Lemma ksort_perm l : Permutation (ksort l) l.
  Proof.
    induction l as [|x r IH]; simpl; [reflexivity|].
    rewrite kinsert_perm. apply perm_skip. exact IH.
  Qed.

  Lemma kinsert_hdrel a x l :
    HdRel klt a l -> klt a x -> HdRel klt a (kinsert x l).
  Proof.
    intros H Hax. destruct l as [|y r]; simpl.
    - constructor. exact Hax.
    - inversion H; subst. destruct (bytes_ltb (fst y) (fst x)); constructor; assumption.
  Qed.

  (* sorted for distinct keys: strictly increasing *)
  Lemma kinsert_sorted x l :
    Sorted klt l -> ~ In (fst x) (map fst l) -> Sorted klt (kinsert x l).
  Proof.
    induction l as [|y r IH]; simpl; intros Hs Hn.
    - repeat constructor.
    - inversion Hs as [|? ? Hs' Hh]; subst.
      destruct (bytes_ltb (fst y) (fst x)) eqn:E.
      + constructor.
        * apply IH; [exact Hs'|]. intros Hin. apply Hn. right. exact Hin.
        * apply kinsert_hdrel; [exact Hh|exact E].
      + constructor; [exact Hs|]. constructor. unfold klt.
        assert (Hne : fst x <> fst y) by (intros Heq; apply Hn; left; symmetry; exact Heq).
        destruct (bytes_ltb_total _ _ Hne) as [H|H]; [exact H|congruence].
  Qed.

  Lemma ksort_sorted l : NoDup (map fst l) -> Sorted klt (ksort l).
  Proof.
    induction l as [|x r IH]; simpl; intros Hnd; [constructor|].
    inversion Hnd as [|? ? Hnin Hnd']; subst.
    apply kinsert_sorted; [apply IH; exact Hnd'|].
    intros Hin. apply Hnin.
    eapply Permutation_in; [|exact Hin]. apply Permutation_map. apply ksort_perm.
  Qed.

  Lemma klt_trans : forall a b c, klt a b -> klt b c -> klt a c.
  Proof. unfold klt. intros a b c. apply bytes_ltb_trans. Qed.

  Lemma sorted_strong l : Sorted klt l -> StronglySorted klt l.
  Proof. apply Sorted_StronglySorted. unfold Relations_1.Transitive. apply klt_trans. Qed.

  (* a strictly sorted list is determined by its set of elements *)
  Lemma strongly_sorted_unique l1 l2 :
    StronglySorted klt l1 -> StronglySorted klt l2 -> Permutation l1 l2 -> l1 = l2.
  Proof.
    revert l2. induction l1 as [|a r1 IH]; intros l2 H1 H2 Hp.
    - apply Permutation_nil in Hp. congruence.
    - destruct l2 as [|b r2]; [apply Permutation_sym, Permutation_nil in Hp; discriminate|].
      inversion H1 as [|? ? Hs1 Hf1]; subst. inversion H2 as [|? ? Hs2 Hf2]; subst.
      assert (Hab : a = b).
      { assert (Ia : In a (b :: r2)) by (eapply Permutation_in; [exact Hp|left; reflexivity]).
        assert (Ib : In b (a :: r1)) by (eapply Permutation_in; [apply Permutation_sym; exact Hp|left; reflexivity]).
        destruct Ia as [Ia|Ia]; [congruence|]. destruct Ib as [Ib|Ib]; [congruence|].
        rewrite Forall_forall in Hf1, Hf2. specialize (Hf1 _ Ib). specialize (Hf2 _ Ia).
        unfold klt in *. apply bytes_ltb_asym in Hf1. congruence. }
      subst b. f_equal. apply IH; try assumption. eapply Permutation_cons_inv. exact Hp.
  Qed.

  Theorem ksort_unique l1 l2 :
    NoDup (map fst l1) -> Permutation l1 l2 -> ksort l1 = ksort l2.
  Proof.
    intros Hnd Hp.
    assert (Hnd2 : NoDup (map fst l2)).
    { eapply Permutation_NoDup; [|exact Hnd]. apply Permutation_map. exact Hp. }
    apply strongly_sorted_unique.
    - apply sorted_strong, ksort_sorted, Hnd.
    - apply sorted_strong, ksort_sorted, Hnd2.
    - rewrite ksort_perm, ksort_perm. exact Hp.
  Qed.
End KeyedSort.
