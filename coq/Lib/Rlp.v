(* RLP at the level of items: big-endian integers, the byte-level encoder, and a decoder that
   accepts exactly the canonical form that go-ethereum's rlp.Stream accepts (v1.15.11
   rlp/decode.go readKind/readUint/Kind/Bytes): a single byte below 0x80 is its own encoding
   (so 0x81 0x05 is refused), long forms need a length of at least 56 and no leading zero
   byte in the length, the length of a length is at most 8 bytes, an element may not be
   larger than what is left of its list / of the input, trailing bytes are refused.
   Definitions only; the proofs are in Proofs/TriggerDefRlp.v. *)
From Coq Require Import List NArith Bool.
From Verif Require Import Lib.Bytes.
Import ListNotations.
Open Scope N_scope.

Inductive item := Str (b : bytes) | Lst (l : list item).

(* ---- integers ------------------------------------------------------------------------ *)

(* value of a little-endian byte string *)
Fixpoint le (b : bytes) : N :=
  match b with [] => 0 | x :: r => x + 256 * le r end.

(* value of a big-endian byte string (big.Int.SetBytes, binary.BigEndian) *)
Definition be (b : bytes) : N := le (rev b).

(* minimal little-endian bytes of n; the fuel is the bit size of n, which is enough *)
Fixpoint le_bytes_fuel (f : nat) (n : N) : bytes :=
  match f with
  | O => []
  | S f' => if n =? 0 then [] else (n mod 256) :: le_bytes_fuel f' (n / 256)
  end.

Definition le_bytes (n : N) : bytes := le_bytes_fuel (N.to_nat (N.size n)) n.

(* minimal big-endian bytes (big.Int.Bytes, the rlp integer encoding); [] for 0 *)
Definition be_bytes (n : N) : bytes := rev (le_bytes n).

Definition blen (b : bytes) : N := N.of_nat (length b).

(* ---- encoder ------------------------------------------------------------------------- *)

Definition enc_hdr (base len : N) : bytes :=
  if len <? 56 then [base + len]
  else let lb := be_bytes len in (base + 55 + blen lb) :: lb.

Fixpoint encode (it : item) : bytes :=
  match it with
  | Str b =>
      match b with
      | [x] => if x <? 128 then [x] else enc_hdr 128 1 ++ b
      | _ => enc_hdr 128 (blen b) ++ b
      end
  | Lst l =>
      let p := (fix encs (l : list item) : bytes :=
                  match l with [] => [] | x :: r => encode x ++ encs r end) l in
      enc_hdr 192 (blen p) ++ p
  end.

Fixpoint encode_list (l : list item) : bytes :=
  match l with [] => [] | x :: r => encode x ++ encode_list r end.

(* ---- decoder ------------------------------------------------------------------------- *)

Inductive dres (A : Type) := DOk (a : A) | DErr | DFuel.
Arguments DOk {A} a.
Arguments DErr {A}.
Arguments DFuel {A}.

(* the first n bytes and the rest; None when fewer than n bytes are left *)
Definition take (n : N) (b : bytes) : option (bytes * bytes) :=
  if n <=? blen b then Some (firstn (N.to_nat n) b, skipn (N.to_nat n) b) else None.

Inductive hdr := HByte (x : N) | HStr (n : N) | HLst (n : N).

(* a long-form length of ll bytes (1..8): no leading zero byte, value at least 56 *)
Definition read_len (ll : N) (r : bytes) : option (N * bytes) :=
  match take ll r with
  | None => None
  | Some (lb, r') =>
      match lb with
      | 0 :: _ => None
      | _ => let n := be lb in if n <? 56 then None else Some (n, r')
      end
  end.

Definition read_hdr (b : bytes) : option (hdr * bytes) :=
  match b with
  | [] => None
  | p :: r =>
      if p <? 128 then Some (HByte p, r)
      else if p <? 184 then Some (HStr (p - 128), r)
      else if p <? 192 then
        match read_len (p - 183) r with Some (n, r') => Some (HStr n, r') | None => None end
      else if p <? 248 then Some (HLst (p - 192), r)
      else if p <? 256 then
        match read_len (p - 247) r with Some (n, r') => Some (HLst n, r') | None => None end
      else None
  end.

(* one item from the front of b, and the rest *)
Fixpoint dec1 (fuel : nat) (b : bytes) : dres (item * bytes) :=
  match fuel with
  | O => DFuel
  | S f =>
      match read_hdr b with
      | None => DErr
      | Some (HByte x, r) => DOk (Str [x], r)
      | Some (HStr n, r) =>
          match take n r with
          | None => DErr
          | Some (s, r') =>
              match s with
              | [x] => if x <? 128 then DErr else DOk (Str s, r')
              | _ => DOk (Str s, r')
              end
          end
      | Some (HLst n, r) =>
          match take n r with
          | None => DErr
          | Some (p, r') =>
              match dec_list f p with
              | DOk l => DOk (Lst l, r')
              | DErr => DErr
              | DFuel => DFuel
              end
          end
      end
  end
with dec_list (fuel : nat) (b : bytes) : dres (list item) :=
  match fuel with
  | O => DFuel
  | S f =>
      match b with
      | [] => DOk []
      | _ =>
          match dec1 f b with
          | DOk (it, r) =>
              match dec_list f r with
              | DOk l => DOk (it :: l)
              | DErr => DErr
              | DFuel => DFuel
              end
          | DErr => DErr
          | DFuel => DFuel
          end
      end
  end.

(* the whole input is exactly one item (rlp.DecodeBytes: ErrMoreThanOneValue otherwise).
   The fuel 2*|b|+1 always suffices (Proofs/TriggerDefRlp.v decode_never_out_of_fuel). *)
Definition decode (b : bytes) : dres item :=
  match dec1 (2 * length b + 1) b with
  | DOk (it, []) => DOk it
  | DOk (_, _ :: _) => DErr
  | DErr => DErr
  | DFuel => DFuel
  end.
