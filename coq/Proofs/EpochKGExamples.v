(* The label instance (Model/EpochKGLabels.v) satisfies the law the exponent model proves -
   combine does not depend on which t valid shares it is given - and a concrete history
   (n = 3, t = 2, junk and duplicates interleaved) used by the Examples of Properties/C01.v. *)
From Coq Require Import List NArith ZArith Bool Lia Permutation String.
From Verif Require Import Lib.Bytes Lib.Assoc Model.EpochKG Model.EpochKGLabels Model.EpochKGHandler
  Proofs.EpochKG Proofs.EpochKGHandler.
Import ListNotations.
Open Scope N_scope.

Lemma verify_l_spec s x v : verify_l s x v = true -> v = LShare 0 s x.
Proof.
  destruct v as [e i y| |]; simpl; try discriminate.
  rewrite !andb_true_iff. intros [[He Hi] Hy].
  apply N.eqb_eq in He. apply N.eqb_eq in Hi. apply bytes_eqb_eq in Hy. subst. reflexivity.
Qed.

Lemma nodupb_NoDup l : NoDup l -> nodupb l = true.
Proof.
  induction 1 as [|a l Hn Hd IH]; simpl; [reflexivity|]. rewrite IH, andb_true_r.
  apply negb_true_iff. destruct (existsb (N.eqb a) l) eqn:E; [|reflexivity].
  apply existsb_exists in E. destruct E as [b [Hin Hb]]. apply N.eqb_eq in Hb. subst. contradiction.
Qed.

Lemma good_combine_l n t x A : 1 <= t -> good_shares verify_l n t x A -> combine_l A = LKey 0 x.
Proof.
  intros Ht [Hlen [Hnd Hall]].
  assert (Hsh : forallb (share_of 0 x) A = true).
  { apply forallb_forall. intros [s v] Hin. rewrite Forall_forall in Hall.
    destruct (Hall _ Hin) as [_ Hv]. simpl in Hv. apply verify_l_spec in Hv. subst v.
    unfold share_of. simpl. rewrite N.eqb_refl, bytes_eqb_refl. reflexivity. }
  destruct A as [|[s v] A']; [simpl in Hlen; lia|].
  inversion Hall as [|? ? [_ Hv] _]; subst. simpl in Hv. apply verify_l_spec in Hv. subst v.
  unfold combine_l. rewrite Hsh, (nodupb_NoDup _ Hnd). reflexivity.
Qed.

Theorem labels_subset_independent n t : 1 <= t -> subset_independent verify_l combine_l n t.
Proof.
  intros Ht x A B HA HB. rewrite (good_combine_l n t x A Ht HA), (good_combine_l n t x B Ht HB). reflexivity.
Qed.

(* ---- a concrete history: n = 3, t = 2 ---- *)
Module Ex.
  Open Scope string_scope.
  Definition n : N := 3.
  Definition t : N := 2.
  Definition A : bytes := hx "aa".
  Definition B : bytes := hx "bb".
  Definition s0 : N := 0.
  Definition s1 : N := 1.
  Definition s2 : N := 2.
  Definition sh (x : bytes) (s : N) (v : lbl) : share lbl := mkShare x s v.

  Definition before : list (share lbl) :=
    [ sh A 0 (LShare 0 0 A);        (* valid share of keyper 0 for A *)
      sh A 1 LOther;                (* junk: keyper 1 sends some other group element *)
      sh B 2 (LShare 0 2 B);        (* valid share for the other identity *)
      sh A 0 (LShare 0 0 A);        (* byte-identical repeat *)
      sh A 1 (LShare 0 1 B);        (* junk: keyper 1's share computed for identity B *)
      sh A 2 (LShare 1 2 A) ].      (* junk: made with another eon's secret *)
  Definition threshold_share : share lbl := sh A 2 (LShare 0 2 A).
  Definition late : share lbl := sh A 1 (LShare 0 1 A).
  Definition l : list (share lbl) := before ++ [threshold_share; late].

  Definition run := EpochKG.run lbl verify_l combine_l n t.

  Lemma below : senders_below n l.
  Proof. repeat constructor. Qed.

  Lemma enough_A : has_valid_from verify_l A l t.
  Proof.
    exists [0; 2]. split; [|split].
    - repeat constructor; simpl; intuition discriminate.
    - vm_compute. discriminate.
    - intros s [<-|[<-|[]]].
      + exists (sh A 0 (LShare 0 0 A)). vm_compute. intuition.
      + exists threshold_share. vm_compute. intuition.
  Qed.

  Lemma not_enough_before : ~ has_valid_from verify_l A before t.
  Proof. rewrite has_valid_from_dv. vm_compute. intros H. apply H. reflexivity. Qed.

  Lemma key_A : key_of (run l) A = Some (Some (LKey 0 A)).
  Proof. vm_compute. reflexivity. Qed.

  Lemma no_key_before : key_of (run before) A = None.
  Proof. vm_compute. reflexivity. Qed.

  Lemma effective_l : effective verify_l t l = [sh A 0 (LShare 0 0 A); sh B 2 (LShare 0 2 B); threshold_share].
  Proof. vm_compute. reflexivity. Qed.

  Lemma junk_count : List.length (List.filter (fun o => match o with Ok => false | _ => true end)
                                   (outcomes lbl verify_l combine_l n t l)) = 4%nat.
  Proof. vm_compute. reflexivity. Qed.

  Lemma first_t : firstn (N.to_nat t) (dv verify_l A l) = [(0, LShare 0 0 A); (2, LShare 0 2 A)].
  Proof. vm_compute. reflexivity. Qed.

  (* handler layer: the share table holds the three valid rows for A and one undecodable row;
     the message of keyper 2 for A arrives; rows are returned in reverse order *)
  Definition decode (r : option lbl) : option lbl := r.
  Definition row (x : bytes) (k : Z) (v : option lbl) : share_row (option lbl) := mkShareRow 7%Z x k v.
  Definition d : db lbl (option lbl) :=
    mkDb [row A 0 (Some (LShare 0 0 A)); row A 1 None; row B 1 (Some (LShare 0 1 B))] []
         [(7%Z, DkgResult 3 2)].
  Definition m : msg (option lbl) := mkMsg 7 2 [(A, Some (LShare 0 2 A))].
  Definition rev_oracle : oracle (option lbl) := fun _ rows => rev rows.
  Definition id_oracle : oracle (option lbl) := fun _ rows => rows.

  Lemma rev_oracle_perm : perm_oracle rev_oracle.
  Proof. intros i rows. apply Permutation_sym. apply Permutation_rev. Qed.
  Lemma id_oracle_perm : perm_oracle id_oracle.
  Proof. intros i rows. apply Permutation_refl. Qed.

  Lemma d_wf : stored_shares_wf d m.
  Proof.
    intros n0 t0 H. vm_compute in H. injection H as <- <-. split; [lia|].
    let r := eval vm_compute in (insert_share_rows d m) in change (rows_below 3 r).
    repeat (constructor; [reflexivity|]). constructor.
  Qed.

  Lemma d_reaches : reaches_aggregation d m 3 2.
  Proof. vm_compute. auto. Qed.

  Lemma d_out : snd (handle_message lbl (option lbl) verify_l combine_l decode rev_oracle d m)
                = HKeys [(A, LKey 0 A)].
  Proof. vm_compute. reflexivity. Qed.
End Ex.
