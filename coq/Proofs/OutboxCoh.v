(* C08_cache_is_load_of_db: coherence of the ShuttermintState cache with the database.
   [coh] is checked per primitive update (Proofs/OutboxEvolve.v); Save writes exactly the dirty
   entries; a committed block transaction therefore ends in a state whose cache is, as a list,
   what Load builds from the database. *)
From Coq Require Import List NArith ZArith Bool Lia Sorted.
From Verif Require Import Lib.Bytes Model.DKGPure Model.DKGDriver Proofs.DKGChain Proofs.OutboxEvolve.
Import ListNotations.
Open Scope Z_scope.

Section SortedMaps.
  Context {V : Type}.
  Implicit Types m : list (N * V).

  Definition keys m : list N := map fst m.

  Lemma nget_none_notin m k : nget m k = None -> ~ In k (keys m).
  Proof.
    induction m as [|[k0 v0] r IH]; simpl; intros H; [tauto|].
    destruct (N.eqb k0 k) eqn:E; [discriminate|]. apply N.eqb_neq in E. intros [H1|H1]; [contradiction|].
    apply IH; assumption.
  Qed.

  Lemma nins_keys m k v x : In x (keys (nins m k v)) -> x = k \/ In x (keys m).
  Proof.
    induction m as [|[k0 v0] r IH]; simpl.
    - intros [<-|[]]. left. reflexivity.
    - destruct (N.eqb k0 k) eqn:E; simpl.
      + apply N.eqb_eq in E. subst k0. intros [<-|H]; [left; reflexivity|right; right; exact H].
      + destruct (N.ltb k k0); simpl.
        * intros [<-|[<-|H]]; [left; reflexivity|right; left; reflexivity|right; right; exact H].
        * intros [<-|H]; [right; left; reflexivity|]. destruct (IH H) as [->|H']; [left; reflexivity|right; right; exact H'].
  Qed.

  Lemma nins_sorted m k v : StronglySorted N.lt (keys m) -> StronglySorted N.lt (keys (nins m k v)).
  Proof.
    induction m as [|[k0 v0] r IH]; simpl; intros Hs.
    - constructor; constructor.
    - inversion Hs as [|? ? Hr Hall]; subst.
      destruct (N.eqb k0 k) eqn:E; simpl.
      + apply N.eqb_eq in E. subst k0. constructor; assumption.
      + destruct (N.ltb k k0) eqn:Hlt; simpl.
        * apply N.ltb_lt in Hlt. constructor; [exact Hs|]. constructor; [exact Hlt|].
          eapply Forall_impl; [|exact Hall]. intros a Ha. simpl in Ha. lia.
        * apply N.ltb_ge in Hlt. apply N.eqb_neq in E.
          constructor; [apply IH; exact Hr|].
          apply Forall_forall. intros x Hx. apply nins_keys in Hx. destruct Hx as [->|Hx]; [lia|].
          rewrite Forall_forall in Hall. apply Hall. exact Hx.
  Qed.

  Lemma ndel_keys m k x : In x (keys (ndel m k)) -> In x (keys m).
  Proof.
    induction m as [|[k0 v0] r IH]; simpl; [tauto|].
    destruct (N.eqb k0 k); simpl; [intros H; right; apply IH; exact H|].
    intros [<-|H]; [left; reflexivity|right; apply IH; exact H].
  Qed.

  Lemma ndel_sorted m k : StronglySorted N.lt (keys m) -> StronglySorted N.lt (keys (ndel m k)).
  Proof.
    induction m as [|[k0 v0] r IH]; simpl; intros Hs; [constructor|].
    inversion Hs as [|? ? Hr Hall]; subst.
    destruct (N.eqb k0 k); simpl; [apply IH; exact Hr|].
    constructor; [apply IH; exact Hr|].
    apply Forall_forall. intros x Hx. apply ndel_keys in Hx. rewrite Forall_forall in Hall. apply Hall. exact Hx.
  Qed.

  (* two strictly sorted maps with the same lookups are the same list *)
  Lemma sorted_ext_eq m1 : forall m2,
    StronglySorted N.lt (keys m1) -> StronglySorted N.lt (keys m2) ->
    (forall k, nget m1 k = nget m2 k) -> m1 = m2.
  Proof.
    induction m1 as [|[k1 v1] r1 IH]; intros m2 H1 H2 Hext.
    - destruct m2 as [|[k2 v2] r2]; [reflexivity|].
      specialize (Hext k2). simpl in Hext. rewrite N.eqb_refl in Hext. discriminate.
    - destruct m2 as [|[k2 v2] r2].
      + specialize (Hext k1). simpl in Hext. rewrite N.eqb_refl in Hext. discriminate.
      + inversion H1 as [|? ? Hr1 Ha1]; subst. inversion H2 as [|? ? Hr2 Ha2]; subst.
        assert (Hk : k1 = k2).
        { destruct (N.lt_trichotomy k1 k2) as [Hlt|[Heq|Hgt]]; [|exact Heq|].
          - pose proof (Hext k1) as Hx. simpl in Hx. rewrite N.eqb_refl in Hx.
            destruct (N.eqb k2 k1) eqn:Q; [apply N.eqb_eq in Q; lia|].
            symmetry in Hx. apply nget_in in Hx. rewrite Forall_forall in Ha2. specialize (Ha2 _ Hx). lia.
          - pose proof (Hext k2) as Hx. simpl in Hx. rewrite N.eqb_refl in Hx.
            destruct (N.eqb k1 k2) eqn:Q; [apply N.eqb_eq in Q; lia|].
            apply nget_in in Hx. rewrite Forall_forall in Ha1. specialize (Ha1 _ Hx). lia. }
        subst k2. pose proof (Hext k1) as Hx. simpl in Hx. rewrite N.eqb_refl in Hx. injection Hx as ->.
        f_equal. apply IH; [exact Hr1|exact Hr2|].
        intros k. specialize (Hext k). simpl in Hext. destruct (N.eqb k1 k) eqn:Q; [|exact Hext].
        apply N.eqb_eq in Q. subst k.
        assert (N1 : nget r1 k1 = None).
        { destruct (nget r1 k1) eqn:G; [|reflexivity]. apply nget_in in G. rewrite Forall_forall in Ha1. specialize (Ha1 _ G). lia. }
        assert (N2 : nget r2 k1 = None).
        { destruct (nget r2 k1) eqn:G; [|reflexivity]. apply nget_in in G. rewrite Forall_forall in Ha2. specialize (Ha2 _ G). lia. }
        congruence.
  Qed.
End SortedMaps.

Section Coh.
Variables C E P : Type.
Variable commit_of : P -> C.
Variable eval_of : P -> nat -> E.
Variable verify : nat -> E -> C -> bool.
Variable deg_ok : N -> C -> bool.
Variable valid_eval : E -> bool.
Variable me : addr.
Variable L : Z.
Variable enum : list (N * @active C E P) -> list (N * @active C E P).

Notation pure := (@DKGPure.pure C E P).
Notation active := (@active C E P).
Notation sm := (@sm C E P).
Notation db := (db C E P).
Notation st := (st C E P).
Notation prim := (prim C E P commit_of eval_of).
Notation evolves := (evolves C E P commit_of eval_of).

Definition rows_of (d : db) (k : N) (a : active) : Prop :=
  exists er cr, nget (db_eons _ _ _ d) k = Some er /\ nget (db_cfgs _ _ _ d) (eo_cfg er) = Some cr /\
                a_start a = eo_height er /\ a_keypers a = cf_keypers cr.

Record coh (x : st) : Prop := {
  c_clean : forall k a, nget (sm_dkg (snd x)) k = Some a -> a_dirty a = false ->
                        nget (db_pure _ _ _ (fst x)) k = Some (a_pure a);
  c_absent : forall k, nget (sm_dkg (snd x)) k = None -> nget (db_pure _ _ _ (fst x)) k = None;
  c_rows : forall k a, nget (sm_dkg (snd x)) k = Some a -> rows_of (fst x) k a;
  c_sorted : StronglySorted N.lt (keys (sm_dkg (snd x)))
}.

Lemma rows_cfg_add (d : db) l idx c k a :
  l = db_cfgs _ _ _ d -> nget l idx = None -> rows_of d k a ->
  rows_of (upd_db_cfgs C E P d (l ++ [(idx, c)])) k a.
Proof.
  intros -> Hn [er [cr [H1 [H2 [H3 H4]]]]]. exists er, cr. simpl. split; [exact H1|]. split; [|split; assumption].
  rewrite (nget_app_none _ _ _ _ Hn). destruct (N.eqb idx (eo_cfg er)) eqn:Q; [|exact H2].
  apply N.eqb_eq in Q. subst idx. congruence.
Qed.

Lemma rows_cfg_started (d : db) l idx c k a :
  l = db_cfgs _ _ _ d -> nget l idx = Some c -> rows_of d k a ->
  rows_of (upd_db_cfgs C E P d (nset l idx (mkCfg (cf_height c) (cf_keypers c) (cf_threshold c) true (cf_act c)))) k a.
Proof.
  intros -> Hn [er [cr [H1 [H2 [H3 H4]]]]]. simpl.
  destruct (N.eq_dec idx (eo_cfg er)) as [Heq|Hne].
  - exists er. eexists. simpl. split; [exact H1|]. split; [rewrite Heq; apply nget_nset_same|]. split; [exact H3|].
    simpl. rewrite H4. subst idx. congruence.
  - exists er, cr. simpl. split; [exact H1|]. split; [|split; assumption].
    rewrite nget_nset_other by exact Hne. exact H2.
Qed.

Lemma rows_eon_add (d : db) l eon er0 k a :
  l = db_eons _ _ _ d -> nget l eon = None -> rows_of d k a ->
  rows_of (upd_db_eons C E P d (l ++ [(eon, er0)])) k a.
Proof.
  intros -> Hn [er [cr [H1 [H2 [H3 H4]]]]]. exists er, cr. simpl. split; [|split; [exact H2|split; assumption]].
  rewrite (nget_app_none _ _ _ _ Hn). destruct (N.eqb eon k) eqn:Q; [|exact H1].
  apply N.eqb_eq in Q. subst eon. congruence.
Qed.

Lemma coh_set_dirty (d : db) (s : sm) eon a a' :
  coh (d, s) -> nget (sm_dkg s) eon = Some a -> a_dirty a' = true ->
  a_start a' = a_start a -> a_keypers a' = a_keypers a ->
  coh (d, set_dkg C E P s eon a').
Proof.
  intros [Hc Ha Hr Hs] Hg Hd Hst Hk. simpl in *. constructor; simpl.
  - intros k a0. destruct (N.eq_dec eon k) as [<-|Hne].
    + rewrite nget_nins_same. intros [= <-]. congruence.
    + rewrite nget_nins_other by exact Hne. apply Hc.
  - intros k. destruct (N.eq_dec eon k) as [<-|Hne]; [rewrite nget_nins_same; discriminate|].
    rewrite nget_nins_other by exact Hne. apply Ha.
  - intros k a0. destruct (N.eq_dec eon k) as [<-|Hne].
    + rewrite nget_nins_same. intros [= <-]. destruct (Hr _ _ Hg) as [er [cr [H1 [H2 [H3 H4]]]]].
      exists er, cr. repeat split; congruence.
    + rewrite nget_nins_other by exact Hne. apply Hr.
  - apply nins_sorted. exact Hs.
Qed.

Lemma coh_db_frame (d d' : db) (s : sm) :
  db_pure _ _ _ d' = db_pure _ _ _ d -> db_eons _ _ _ d' = db_eons _ _ _ d -> db_cfgs _ _ _ d' = db_cfgs _ _ _ d ->
  coh (d, s) -> coh (d', s).
Proof.
  intros H1 H2 H3 [Hc Ha Hr Hs]. constructor; simpl in *.
  - intros k a. rewrite H1. apply Hc.
  - intros k. rewrite H1. apply Ha.
  - intros k a Hk. destruct (Hr _ _ Hk) as [er [cr Hx]]. exists er, cr. rewrite H2, H3. exact Hx.
  - exact Hs.
Qed.

Lemma prim_coh x y : prim x y -> coh x -> coh y.
Proof.
  destruct 1; intros Hcoh.
  - eapply coh_db_frame; [| | |exact Hcoh]; reflexivity.
  - (* dealing starts: schedule + entry update *)
    eapply coh_db_frame with (d := d); [reflexivity|reflexivity|reflexivity|].
    eapply coh_set_dirty; [exact Hcoh|eassumption|reflexivity|reflexivity|reflexivity].
  - eapply coh_db_frame; [| | |exact Hcoh]; reflexivity.
  - eapply coh_db_frame; [| | |exact Hcoh]; reflexivity.
  - eapply coh_db_frame; [| | |exact Hcoh]; reflexivity.
  - eapply coh_db_frame; [| | |exact Hcoh]; reflexivity.
  - eapply coh_db_frame; [| | |exact Hcoh]; reflexivity.
  - eapply coh_db_frame; [| | |exact Hcoh]; reflexivity.
  - eapply coh_db_frame; [| | |exact Hcoh]; reflexivity.
  - eapply coh_db_frame; [| | |exact Hcoh]; reflexivity.
  - destruct Hcoh as [Hc Ha Hr Hs]. constructor; simpl in *; try assumption.
    intros k a Hk. eapply rows_cfg_add; [eassumption|eassumption|]. apply Hr. exact Hk.
  - destruct Hcoh as [Hc Ha Hr Hs]. constructor; simpl in *; try assumption.
    intros k a Hk. eapply rows_cfg_started; [eassumption|eassumption|]. apply Hr. exact Hk.
  - destruct Hcoh as [Hc Ha Hr Hs]. constructor; simpl in *; try assumption.
    intros k a Hk. eapply rows_eon_add; [eassumption|eassumption|]. apply Hr. exact Hk.
  - (* a new eon with an instance *)
    destruct Hcoh as [Hc Ha Hr Hs]. subst l. constructor; simpl in *.
    + intros k a0. destruct (N.eq_dec eon k) as [<-|Hne].
      * rewrite nget_nins_same. intros [= <-]. congruence.
      * rewrite nget_nins_other by exact Hne. apply Hc.
    + intros k. destruct (N.eq_dec eon k) as [<-|Hne]; [rewrite nget_nins_same; discriminate|].
      rewrite nget_nins_other by exact Hne. apply Ha.
    + intros k a0. destruct (N.eq_dec eon k) as [<-|Hne].
      * rewrite nget_nins_same. intros [= <-]. exists er, cr. simpl.
        rewrite (nget_app_none _ _ _ _ H0), N.eqb_refl. repeat split; assumption.
      * rewrite nget_nins_other by exact Hne. intros Hk.
        eapply (rows_eon_add d _ eon er k a0 eq_refl H0). apply Hr. exact Hk.
    + apply nins_sorted. exact Hs.
  - destruct Hcoh as [Hc Ha Hr Hs]. constructor; simpl in *; assumption.
  - eapply coh_set_dirty; [exact Hcoh|eassumption|reflexivity|reflexivity|reflexivity].
  - (* finalisation: the entry and the stored instance go together *)
    destruct Hcoh as [Hc Ha Hr Hs]. constructor; simpl in *.
    + intros k a0. destruct (N.eq_dec eon k) as [<-|Hne]; [rewrite nget_ndel_same; discriminate|].
      rewrite !nget_ndel_other by exact Hne. apply Hc.
    + intros k. destruct (N.eq_dec eon k) as [<-|Hne]; [intros _; apply nget_ndel_same|].
      rewrite !nget_ndel_other by exact Hne. apply Ha.
    + intros k a0. destruct (N.eq_dec eon k) as [<-|Hne]; [rewrite nget_ndel_same; discriminate|].
      rewrite nget_ndel_other by exact Hne. intros Hk. destruct (Hr _ _ Hk) as [er [cr Hx]]. exists er, cr. exact Hx.
    + apply ndel_sorted. exact Hs.
Qed.

Lemma evolves_coh x y : evolves x y -> coh x -> coh y.
Proof. induction 1; intros Hc; [exact Hc|]. apply IHevolves. eapply prim_coh; eassumption. Qed.

(* ---- Load ---- *)
Definition loaded (d : db) (k : N) (p : pure) : option active :=
  match nget (db_eons _ _ _ d) k with
  | None => None
  | Some er => match nget (db_cfgs _ _ _ d) (eo_cfg er) with
               | None => None
               | Some cr => Some (mkActive p (eo_height er) false (cf_keypers cr))
               end
  end.

Lemma load_dkgs_spec (d : db) rows : forall m,
  load_dkgs C E P d rows = TOk m ->
  StronglySorted N.lt (keys m) /\
  forall k, nget m k = match nget rows k with Some p => loaded d k p | None => None end.
Proof.
  induction rows as [|[eon p] r IH]; simpl; intros m H.
  - injection H as <-. split; [constructor|]. intros k. reflexivity.
  - destruct (nget (db_eons C E P d) eon) as [er|] eqn:He; [|discriminate].
    destruct (nget (db_cfgs C E P d) (eo_cfg er)) as [cr|] eqn:Hc; [|discriminate].
    destruct (load_dkgs C E P d r) as [rest| |] eqn:Hr; simpl in H; try discriminate.
    injection H as <-. destruct (IH _ eq_refl) as [Hs Hl]. split; [apply nins_sorted; exact Hs|].
    intros k. destruct (N.eqb eon k) eqn:Q.
    + apply N.eqb_eq in Q. subst k. rewrite nget_nins_same. unfold loaded. rewrite He, Hc. reflexivity.
    + apply N.eqb_neq in Q. rewrite nget_nins_other by exact Q. apply Hl.
Qed.

Lemma load_dkgs_total (d : db) rows :
  (forall k p, nget rows k = Some p -> loaded d k p <> None) ->
  (forall k, In k (keys rows) -> exists p, nget rows k = Some p) ->
  exists m, load_dkgs C E P d rows = TOk m.
Proof.
  induction rows as [|[eon p] r IH]; simpl; intros H1 H2; [eauto|].
  assert (Hl : loaded d eon p <> None) by (apply H1; rewrite N.eqb_refl; reflexivity).
  unfold loaded in Hl. destruct (nget (db_eons C E P d) eon) as [er|]; [|congruence].
  destruct (nget (db_cfgs C E P d) (eo_cfg er)) as [cr|]; [|congruence].
  destruct IH as [m Hm].
  - intros k p0 Hk. destruct (N.eqb eon k) eqn:Q.
    + apply N.eqb_eq in Q. subst k. specialize (H1 eon p). rewrite N.eqb_refl in H1. specialize (H1 eq_refl).
      unfold loaded in *. destruct (nget (db_eons C E P d) eon); [|congruence]. destruct (nget (db_cfgs C E P d) _); congruence.
    + specialize (H1 k p0). rewrite Q in H1. apply H1. exact Hk.
  - intros k Hk. destruct (nget r k) eqn:G; [eauto|]. apply nget_none_notin in G. contradiction.
  - rewrite Hm. simpl. eauto.
Qed.

(* ---- Save ---- *)
Lemma save_all_pure l : forall (d : db) (m : list (N * active)),
  (forall k a, In (k, a) l -> nget m k = Some a) ->
  forall k,
    (exists a, In (k, a) l /\ a_dirty a = true /\ nget (db_pure _ _ _ (save_all C E P d l)) k = Some (a_pure a)) \/
    ((forall a, In (k, a) l -> a_dirty a = false) /\ nget (db_pure _ _ _ (save_all C E P d l)) k = nget (db_pure _ _ _ d) k).
Proof.
  induction l as [|[eon a] r IH]; simpl; intros d m Hgen k.
  - right. split; [intros a []|reflexivity].
  - assert (Hgen' : forall k0 a0, In (k0, a0) r -> nget m k0 = Some a0) by (intros; apply Hgen; right; assumption).
    destruct (a_dirty a) eqn:Hd.
    + destruct (IH (upd_db_pure C E P d (nset (db_pure C E P d) eon (a_pure a))) m Hgen' k) as [[a1 [Hin [Hd1 Hg]]]|[Hall Hg]].
      * left. exists a1. split; [right; exact Hin|]. split; assumption.
      * simpl in Hg. destruct (N.eq_dec eon k) as [<-|Hne].
        -- left. exists a. split; [left; reflexivity|]. split; [exact Hd|]. rewrite Hg. apply nget_nset_same.
        -- right. split.
           ++ intros a0 [Heq|Hin]; [injection Heq as Hk _; contradiction|apply Hall; exact Hin].
           ++ rewrite Hg. apply nget_nset_other. exact Hne.
    + destruct (IH d m Hgen' k) as [[a1 [Hin [Hd1 Hg]]]|[Hall Hg]].
      * left. exists a1. split; [right; exact Hin|]. split; assumption.
      * right. split; [|exact Hg]. intros a0 [Heq|Hin]; [injection Heq as _ <-; exact Hd|apply Hall; exact Hin].
Qed.

Lemma save_all_frame_coh l : forall d : db,
  db_eons _ _ _ (save_all C E P d l) = db_eons _ _ _ d /\ db_cfgs _ _ _ (save_all C E P d l) = db_cfgs _ _ _ d.
Proof.
  induction l as [|[eon a] r IH]; simpl; intros d; [split; reflexivity|].
  destruct (a_dirty a); [|apply IH].
  destruct (IH (upd_db_pure C E P d (nset (db_pure C E P d) eon (a_pure a)))) as [A1 A2]. split; assumption.
Qed.

(* Go's enumeration of the cache map yields exactly its entries *)
Definition enum_entries_ok : Prop :=
  forall m : list (N * active), StronglySorted N.lt (keys m) ->
  forall k a, In (k, a) (enum m) <-> nget m k = Some a.

Definition all_clean (s : sm) : Prop := forall k a, nget (sm_dkg s) k = Some a -> a_dirty a = false.

Lemma save_coh (x : st) :
  enum_entries_ok -> coh x -> coh (save C E P enum x) /\ all_clean (snd (save C E P enum x)).
Proof.
  intros Henum [Hc Ha Hr Hs]. destruct x as [d s]. simpl in *.
  assert (Hgen : forall k a, In (k, a) (enum (sm_dkg s)) -> nget (sm_dkg s) k = Some a)
    by (intros k a Hin; apply (Henum _ Hs); exact Hin).
  destruct (save_all_frame_coh (enum (sm_dkg s)) d) as [F1 F2].
  split.
  - constructor; simpl.
    + intros k a'. rewrite nget_clean. destruct (nget (sm_dkg s) k) as [a|] eqn:Hk; simpl; [|discriminate].
      intros [= <-] _. simpl.
      destruct (save_all_pure (enum (sm_dkg s)) d (sm_dkg s) Hgen k) as [[a1 [Hin [Hd1 Hg]]]|[Hall Hg]].
      * apply Hgen in Hin. rewrite Hk in Hin. injection Hin as <-. exact Hg.
      * rewrite Hg. apply Hc; [exact Hk|]. apply Hall. apply (Henum _ Hs). exact Hk.
    + intros k. rewrite nget_clean. destruct (nget (sm_dkg s) k) as [a|] eqn:Hk; simpl; [discriminate|]. intros _.
      destruct (save_all_pure (enum (sm_dkg s)) d (sm_dkg s) Hgen k) as [[a1 [Hin [Hd1 Hg]]]|[Hall Hg]].
      * apply Hgen in Hin. congruence.
      * rewrite Hg. apply Ha. exact Hk.
    + intros k a'. rewrite nget_clean. destruct (nget (sm_dkg s) k) as [a|] eqn:Hk; simpl; [|discriminate].
      intros [= <-]. destruct (Hr _ _ Hk) as [er [cr [H1 [H2 [H3 H4]]]]]. exists er, cr. simpl.
      rewrite F1, F2. repeat split; assumption.
    + unfold keys, clean. rewrite map_map. simpl. exact Hs.
  - intros k a'. simpl. rewrite nget_clean. destruct (nget (sm_dkg s) k); simpl; [|discriminate].
    intros [= <-]. reflexivity.
Qed.

(* a coherent, clean cache is what Load builds *)
Theorem cache_is_load (d : db) (s : sm) :
  coh (d, s) -> all_clean s ->
  load_dkgs C E P d (db_pure _ _ _ d) = TOk (sm_dkg s).
Proof.
  intros [Hc Ha Hr Hs] Hcl. simpl in *.
  assert (Hld : forall k p, nget (db_pure C E P d) k = Some p ->
                exists a, nget (sm_dkg s) k = Some a /\ a_pure a = p /\ loaded d k p = Some a).
  { intros k p Hk. destruct (nget (sm_dkg s) k) as [a|] eqn:G.
    - pose proof (Hc _ _ G (Hcl _ _ G)) as Hp. rewrite Hk in Hp. injection Hp as ->.
      exists a. split; [reflexivity|]. split; [reflexivity|].
      destruct (Hr _ _ G) as [er [cr [H1 [H2 [H3 H4]]]]]. unfold loaded. rewrite H1, H2.
      pose proof (Hcl _ _ G) as Hdirty. clear - H3 H4 Hdirty.
      destruct a as [ap ast ad ak]. simpl in *. subst. reflexivity.
    - rewrite (Ha _ G) in Hk. discriminate. }
  destruct (load_dkgs_total d (db_pure C E P d)) as [m Hm].
  - intros k p Hk. destruct (Hld _ _ Hk) as [a [_ [_ Hl]]]. congruence.
  - intros k Hk. destruct (nget (db_pure C E P d) k) eqn:G; [eauto|]. apply nget_none_notin in G. contradiction.
  - rewrite Hm. f_equal. destruct (load_dkgs_spec _ _ _ Hm) as [Hsm Hl].
    apply sorted_ext_eq; [exact Hsm|exact Hs|].
    intros k. rewrite Hl. destruct (nget (db_pure C E P d) k) as [p|] eqn:G.
    + destruct (Hld _ _ G) as [a [Hk [_ Hlo]]]. congruence.
    + destruct (nget (sm_dkg s) k) as [a|] eqn:G2; [|reflexivity].
      pose proof (Hc _ _ G2 (Hcl _ _ G2)). congruence.
Qed.

End Coh.
