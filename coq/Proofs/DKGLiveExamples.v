(* The hypotheses of honest_run_succeeds hold in the concrete run of Proofs/DKGExamples.v: keyper
   A (index 0 of [A; B], threshold 2, phase length 2) after the block in which eon 1 started
   (height 2), reading blocks 3..8. *)
From Coq Require Import List NArith ZArith Bool Lia.
From Verif Require Import Lib.Bytes Model.DKGPure Model.DKGDriver Proofs.DKGPure Proofs.DKGChain
  Proofs.DKGLive Proofs.DKGLiveRun Proofs.DKGExamples.
Import ListNotations.
Open Scope Z_scope.

Module LiveEx.
Import DkgEx.

Definition st0 : st C E P := (db_init, sm_fresh).
Definition pick (o : option (st C E P)) : st C E P := match o with Some x => x | None => st0 end.
Definition x2 : st C E P := Eval vm_compute in pick (run A 10%N (firstn 2 blocks)).
Definition a_dummy : @active C E P := mkActive (new_pure 0%N 0 0%N 0) 0 false [].
Definition a2 : @active C E P :=
  Eval vm_compute in match nget (sm_dkg (snd x2)) 1%N with Some a => a | None => a_dummy end.
Definition rest : list (Z * list (@dev C E)) := skipn 2 blocks.
Definition lchf (h : Z) : Z := h + 1.
Definition t2 : N := 2%N.
Definition h2 : Z := 2.
Notation runA := (run_blocks C E P commit_of eval_of verify deg_ok valid_eval A L (fun m => m) (fun _ => 10%N) lchf).
Definition x8 : st C E P := Eval vm_compute in pick (runA x2 rest).
Definition allev : list (@dev C E) := concat (map snd rest).
Definition cj (j : nat) : C := match j with O => 10%N | _ => 20%N end.
Definition vj (j : nat) : E := match j with O => 10%N | _ => 20%N end.

Lemma x2_is_reached : run A 10%N (firstn 2 blocks) = Some x2.
Proof. vm_compute. reflexivity. Qed.

Lemma ex_live : live C E P 1%N a2 Dealing x2 a2.
Proof.
  constructor; try (vm_compute; reflexivity).
  - vm_compute. discriminate.
  - apply keepsA_refl.
Qed.

Lemma ex_deal : deal C E P deg_ok valid_eval A 1%N [A; B] 2 2%N 0 allev [] a2.
Proof.
  constructor; try (vm_compute; reflexivity).
  - intros j c. destruct j as [|[|[|j]]]; vm_compute; discriminate.
  - intros j v. destruct j as [|[|[|j]]]; [left; reflexivity| | |]; vm_compute; discriminate.
  - intros s c j [].
  - intros s rs vs j mi v [].
Qed.

Lemma ex_run : runA x2 rest = Some x8.
Proof. vm_compute. reflexivity. Qed.

Lemma ex_heights : forall k b, nth_error rest k = Some b -> fst b = 2 + 1 + Z.of_nat k.
Proof. intros k b. do 7 (destruct k as [|k]; [intros [= <-]; reflexivity|]). destruct k; discriminate. Qed.

Lemma ex_quiet : quiet C E 1%N allev.
Proof.
  intros ev Hin. vm_compute in Hin. repeat (destruct Hin as [<-|Hin]; [split; intros; discriminate|]). destruct Hin.
Qed.

Ltac cases_in := repeat match goal with H : _ \/ _ |- _ => destruct H as [H|H] | H : False |- _ => destruct H end.

Lemma ex_uc : forall s s' c c', In (DCommit s 1%N c) allev -> In (DCommit s' 1%N c') allev ->
  find_index [A; B] s 0 = find_index [A; B] s' 0 -> find_index [A; B] s 0 <> None -> c = c'.
Proof.
  intros s s' c c' H1 H2 Hq _. vm_compute in H1, H2.
  cases_in; try discriminate H1; try discriminate H2;
  injection H1 as <- <-; injection H2 as <- <-; vm_compute in Hq; try reflexivity; discriminate Hq.
Qed.

Lemma ex_uv : forall s rs vs mi v s' rs' vs' mi' v',
  In (DEval s 1%N rs vs) allev -> find_index rs A 0 = Some mi -> nth_error vs mi = Some (Some v) ->
  In (DEval s' 1%N rs' vs') allev -> find_index rs' A 0 = Some mi' -> nth_error vs' mi' = Some (Some v') ->
  find_index [A; B] s 0 = find_index [A; B] s' 0 -> find_index [A; B] s 0 <> None -> v = v'.
Proof.
  intros s rs vs mi v s' rs' vs' mi' v' H1 M1 N1 H2 M2 N2 Hq _. vm_compute in H1, H2.
  cases_in. all: try discriminate H1. all: try discriminate H2.
  all: injection H1 as <- <- <-. all: injection H2 as <- <- <-. all: vm_compute in Hq. all: try discriminate Hq.
  all: vm_compute in M1, M2. all: try discriminate M1.
  injection M1 as <-. injection M2 as <-. simpl in N1, N2. congruence.
Qed.

Lemma ex_lc : forall j, (j < length [A; B])%nat -> exists k b s,
  nth_error rest k = Some b /\ 2 + 1 + Z.of_nat k < 2 + L /\ In (DCommit s 1%N (cj j)) (snd b) /\
  find_index [A; B] s 0 = Some j /\ deg_ok 2%N (cj j) = true.
Proof.
  intros j Hj. destruct j as [|[|j]]; [| |simpl in Hj; lia].
  - exists 0%nat, (3, snd (nth 2 blocks (0, []))), A. vm_compute. repeat split; auto.
  - exists 0%nat, (3, snd (nth 2 blocks (0, []))), B. vm_compute. repeat split; auto.
Qed.

Lemma ex_lv : forall j, (j < length [A; B])%nat -> j <> 0%nat -> exists k b s rs vs mi,
  nth_error rest k = Some b /\ 2 + 1 + Z.of_nat k < 2 + L /\ In (DEval s 1%N rs vs) (snd b) /\
  bytes_eqb s A = false /\ find_index [A; B] s 0 = Some j /\ find_index rs A 0 = Some mi /\
  nth_error vs mi = Some (Some (vj j)) /\ valid_eval (vj j) = true.
Proof.
  intros j Hj Hne. destruct j as [|[|j]]; [contradiction| |simpl in Hj; lia].
  exists 0%nat, (3, snd (nth 2 blocks (0, []))), B, [A], [Some 20%N], 0%nat. vm_compute. repeat split; auto.
Qed.

Lemma ex_ver : forall j, (j < length [A; B])%nat -> verify 0 (vj j) (cj j) = true.
Proof. intros j Hj. destruct j as [|[|j]]; [reflexivity|reflexivity|simpl in Hj; lia]. Qed.

(* all hypotheses together, and the conclusion the theorem draws from them *)
Lemma ex_success : success C E P 1%N x8.
Proof.
  eapply (honest_run_succeeds C E P commit_of eval_of verify deg_ok valid_eval A L eq_refl (fun m => m) enum_id_ok
            (fun _ => 10%N) 1%N [A; B] 2 2%N 0%nat allev a2 x2 2 lchf rest x8 cj vj).
  - intros ev H; exact H.
  - exact ex_live.
  - exact ex_deal.
  - reflexivity.
  - reflexivity.
  - vm_compute. discriminate.
  - unfold L. lia.
  - exact ex_heights.
  - vm_compute. discriminate.
  - exact ex_run.
  - exact ex_quiet.
  - exact ex_uc.
  - exact ex_uv.
  - exact ex_lc.
  - exact ex_lv.
  - exact ex_ver.
Qed.
End LiveEx.
