(* The persisted state of the application as gob sees it (Generated/AppSchema.v, regenerated
   from the source with go/types on every run) against the schema the persistence model
   (Model/AppPersist.v [image], Model/App.v [state] [config] [dkg] [voting]) was written for.

   gob encodes exactly the exported fields of the structs reachable from ShutterApp. The
   model's round-trip premise [dec (enc i) = Some i] can only hold for the real encoder if
   (1) no reachable field is unexported (gob would drop it silently),
   (2) the image has a component for every field listed here, and
   (3) the leaves are types that carry their own encoding.
   (1) and (3) are checked on the regenerated table below; (2) is the comparison with
   [model_schema], whose third column names the model component that carries the field. *)
From Coq Require Import String List Bool.
From Verif Require Import Generated.AppSchema.
Import ListNotations.
Open Scope string_scope.

(* struct, field, where the model keeps it *)
Definition model_schema : list (string * string * string) := [
  ("ShutterApp", "Configs", "image.i_configs");
  ("ShutterApp", "DKGMap", "image.i_dkgs");
  ("ShutterApp", "ConfigVoting", "image.i_cfg_voting");
  ("ShutterApp", "Gobpath", "not state: overwritten by LoadShutterAppFromFile");
  ("ShutterApp", "LastSaved", "not state: overwritten by LoadShutterAppFromFile");
  ("ShutterApp", "LastBlockHeight", "image.i_last_height");
  ("ShutterApp", "Identities", "image.i_identities");
  ("ShutterApp", "BlocksSeen", "image.i_blocks_seen");
  ("ShutterApp", "Validators", "image.i_validators");
  ("ShutterApp", "EONCounter", "image.i_eon_counter");
  ("ShutterApp", "DevMode", "image.i_dev_mode");
  ("ShutterApp", "CheckTxState", "image.i_chk_members / i_chk_counts / i_chk_nonces");
  ("ShutterApp", "NonceTracker", "image.i_nonces");
  ("ShutterApp", "ChainID", "image.i_chain_id");
  ("ShutterApp", "ForkHeights", "image.i_fork_enabled / i_fork_height");
  ("shutterevents.BatchConfig", "Height", "always 0 inside the application (set only by the event decoder)");
  ("shutterevents.BatchConfig", "Keypers", "config.c_keypers");
  ("shutterevents.BatchConfig", "ActivationBlockNumber", "config.c_act");
  ("shutterevents.BatchConfig", "Threshold", "config.c_threshold");
  ("shutterevents.BatchConfig", "KeyperConfigIndex", "config.c_index");
  ("shutterevents.BatchConfig", "Started", "config.c_started");
  ("shutterevents.BatchConfig", "ValidatorsUpdated", "config.c_valupd");
  ("DKGInstance", "Config", "dkg.d_config");
  ("DKGInstance", "Eon", "key of image.i_dkgs / dkg.d_eon");
  ("DKGInstance", "SuccessVoting", "dkg.d_success");
  ("DKGInstance", "PolyEvalsSeen", "dkg.d_evals");
  ("DKGInstance", "PolyCommitmentsSeen", "dkg.d_commits");
  ("DKGInstance", "AccusationsSeen", "dkg.d_accs");
  ("DKGInstance", "ApologiesSeen", "dkg.d_apos");
  ("Voting[bool, ComparableEquals[bool]]", "Votes", "voting.v_votes");
  ("Voting[bool, ComparableEquals[bool]]", "Candidates", "voting.v_cands");
  ("SenderReceiverPair", "Sender", "fst of a dkg.d_evals element");
  ("SenderReceiverPair", "Receiver", "snd of a dkg.d_evals element");
  ("Voting[BatchConfig, BatchConfigEquals]", "Votes", "voting.v_votes");
  ("Voting[BatchConfig, BatchConfigEquals]", "Candidates", "voting.v_cands");
  ("ValidatorPubkey", "Ed25519pubkey", "the bytes of an image.i_identities value / powermap key");
  ("CheckTxState", "Members", "image.i_chk_members");
  ("CheckTxState", "TxCounts", "image.i_chk_counts");
  ("CheckTxState", "NonceTracker", "image.i_chk_nonces");
  ("NonceTracker", "RandomNonces", "list of (sender, nonce) pairs");
  ("ForkHeights", "CheckInUpdate", "legacy pointer: nil after InitChain and after every load (migrateForkHeights)");
  ("ForkHeights", "CheckInUpdateNew", "image.i_fork_enabled / i_fork_height");
  ("ForkHeight", "Enabled", "image.i_fork_enabled");
  ("ForkHeight", "Height", "image.i_fork_height")
].

Definition struct_field (f : string * string * string * bool) : string * string :=
  (fst (fst (fst f)), snd (fst (fst f))).

Lemma schema_is_the_models :
  map struct_field gen_persisted_fields = map fst model_schema.
Proof. vm_compute. reflexivity. Qed.

Lemma no_unexported_field : forallb (fun f => snd f) gen_persisted_fields = true.
Proof. vm_compute. reflexivity. Qed.

Lemma leaves_carry_their_own_encoding : gen_leaf_types = ["common.Address"; "time.Time"].
Proof. reflexivity. Qed.
