(* Lemmas about the fired table (lookup by key, InsertFiredTrigger, the fetch list) used by
   Proofs/TriggerSync.v. *)
From Coq Require Import List NArith ZArith Bool Lia.
From Verif Require Import Lib.Bytes Model.Syncer Model.TriggerSync Proofs.SyncerLemmas Proofs.SyncerInstances.
Import ListNotations.
Open Scope Z_scope.

(* --------------------------------------------------------------------------------------- *)
(* generic facts about find *)

Lemma find_app {A} (p : A -> bool) a b :
  find p (a ++ b) = match find p a with Some x => Some x | None => find p b end.
Proof. induction a as [|x a IH]; simpl; [reflexivity|]. destruct (p x); [reflexivity|exact IH]. Qed.

Lemma find_filter_hd {A} (p : A -> bool) l : find p l = hd_error (filter p l).
Proof. induction l as [|x l IH]; simpl; [reflexivity|]. destruct (p x); [reflexivity|exact IH]. Qed.

Lemma find_ext_in {A} (p q : A -> bool) l : (forall x, In x l -> p x = q x) -> find p l = find q l.
Proof.
  induction l as [|x l IH]; simpl; intros H; [reflexivity|].
  rewrite <- (H x) by (left; reflexivity). destruct (p x); [reflexivity|]. apply IH. intros y Hy. apply H. right. exact Hy.
Qed.

Lemma find_none_iff {A} (p : A -> bool) l : find p l = None <-> forall x, In x l -> p x = false.
Proof.
  split; [apply find_none|]. induction l as [|x l IH]; simpl; intros H; [reflexivity|].
  rewrite (H x) by (left; reflexivity). apply IH. intros y Hy. apply H. right. exact Hy.
Qed.

Lemma NoDup_snoc {A} (l : list A) a : NoDup l -> ~ In a l -> NoDup (l ++ [a]).
Proof.
  induction l as [|x l IH]; simpl; intros Hnd Hn; [constructor; [intros []|constructor]|].
  inversion Hnd; subst. constructor.
  - intros Hin. apply in_app_or in Hin. destruct Hin as [Hin|[<-|[]]]; [contradiction|]. apply Hn. left. reflexivity.
  - apply IH; [assumption|]. intros Hin. apply Hn. right. exact Hin.
Qed.

(* --------------------------------------------------------------------------------------- *)
(* keys *)

Lemma ukey_eqb_refl k : ukey_eqb k k = true.
Proof. apply ukey_eqb_spec. reflexivity. Qed.

Lemma ukey_eqb_neq a b : ukey_eqb a b = false <-> a <> b.
Proof.
  split.
  - intros H E. subst. rewrite ukey_eqb_refl in H. discriminate.
  - intros H. destruct (ukey_eqb a b) eqn:E; [apply ukey_eqb_spec in E; contradiction|reflexivity].
Qed.

Lemma ukey_eqb_sym a b : ukey_eqb a b = ukey_eqb b a.
Proof.
  destruct (ukey_eqb a b) eqn:E.
  - apply ukey_eqb_spec in E. subst. symmetry. apply ukey_eqb_refl.
  - symmetry. apply ukey_eqb_neq. apply ukey_eqb_neq in E. congruence.
Qed.

Lemma has_key_In k l : has_key k l = true <-> In k l.
Proof.
  unfold has_key. rewrite existsb_exists. split.
  - intros (x & Hx & E). apply ukey_eqb_spec in E. subst. exact Hx.
  - intros H. exists k. split; [exact H|apply ukey_eqb_refl].
Qed.

Lemma has_key_false k l : has_key k l = false <-> ~ In k l.
Proof.
  split.
  - intros H Hin. apply has_key_In in Hin. congruence.
  - intros H. destruct (has_key k l) eqn:E; [apply has_key_In in E; contradiction|reflexivity].
Qed.

(* --------------------------------------------------------------------------------------- *)
(* the fired table as a map from keys *)

Definition flookup (k : ukey) (l : list fired) : option fired := find (fun f => ukey_eqb (f_key f) k) l.

Lemma flookup_some k l f : flookup k l = Some f -> In f l /\ f_key f = k.
Proof. unfold flookup. intros H. apply find_some in H. destruct H as [H1 H2]. apply ukey_eqb_spec in H2. auto. Qed.

Lemma flookup_none k l : flookup k l = None <-> ~ In k (map f_key l).
Proof.
  unfold flookup. rewrite find_none_iff. split.
  - intros H Hin. apply in_map_iff in Hin. destruct Hin as (f & <- & Hf). specialize (H f Hf). rewrite ukey_eqb_refl in H. discriminate.
  - intros H f Hf. apply ukey_eqb_neq. intros E. apply H. apply in_map_iff. exists f. auto.
Qed.

Lemma flookup_app k a b : flookup k (a ++ b) = match flookup k a with Some f => Some f | None => flookup k b end.
Proof. apply find_app. Qed.

Lemma flookup_In_nodup l f : NoDup (map f_key l) -> In f l -> flookup (f_key f) l = Some f.
Proof.
  induction l as [|x l IH]; simpl; intros Hnd Hin; [contradiction|].
  inversion Hnd as [|? ? Hn Hd]; subst. unfold flookup. simpl.
  destruct Hin as [->|Hin]; [rewrite ukey_eqb_refl; reflexivity|].
  destruct (ukey_eqb (f_key x) (f_key f)) eqn:E.
  - apply ukey_eqb_spec in E. exfalso. apply Hn. rewrite E. apply in_map. exact Hin.
  - apply IH; assumption.
Qed.

Lemma flookup_filter (P : fired -> bool) k l : NoDup (map f_key l) ->
  flookup k (filter P l) = match flookup k l with Some f => if P f then Some f else None | None => None end.
Proof.
  induction l as [|x l IH]; simpl; intros Hnd; [reflexivity|].
  inversion Hnd as [|? ? Hn Hd]; subst. unfold flookup in *. simpl.
  destruct (ukey_eqb (f_key x) k) eqn:E.
  - destruct (P x) eqn:HP; simpl; [rewrite E; reflexivity|].
    (* x is dropped; no other element has this key *)
    apply ukey_eqb_spec in E. subst k.
    apply find_none_iff. intros y Hy. apply filter_In in Hy. destruct Hy as [Hy _].
    apply ukey_eqb_neq. intros E. apply Hn. rewrite <- E. apply in_map. exact Hy.
  - destruct (P x); simpl; [rewrite E|]; apply IH; exact Hd.
Qed.

Lemma NoDup_map_filter {A B} (g : A -> B) (P : A -> bool) l : NoDup (map g l) -> NoDup (map g (filter P l)).
Proof.
  induction l as [|x l IH]; simpl; intros H; [constructor|].
  inversion H as [|? ? Hn Hd]; subst. destruct (P x); simpl; [|apply IH; exact Hd].
  constructor; [|apply IH; exact Hd]. intros Hin. apply Hn. apply in_map_iff in Hin.
  destruct Hin as (y & <- & Hy). apply filter_In in Hy. apply in_map. apply Hy.
Qed.

(* --------------------------------------------------------------------------------------- *)
(* InsertFiredTrigger *)

Section Insert.
  Variable LogT : Type.
  Notation titem := (titem LogT).

  Lemma insert_fired_ok (regs : list (pev titem)) fi f :
    has_key (f_key f) (reg_keys regs) = true ->
    exists fi', insert_fired regs fi f = Some fi' /\
      (forall k, flookup k fi' = match flookup k fi with
                                 | Some x => Some x
                                 | None => if ukey_eqb (f_key f) k then Some f else None end) /\
      (NoDup (map f_key fi) -> NoDup (map f_key fi')) /\
      (forall x, In x fi' -> In x fi \/ x = f).
  Proof.
    intros Hfk. unfold insert_fired. destruct (has_key (f_key f) (map f_key fi)) eqn:Hh.
    - exists fi. split; [reflexivity|]. split; [|split; auto].
      intros k. destruct (flookup k fi) eqn:E; [reflexivity|].
      destruct (ukey_eqb (f_key f) k) eqn:E2; [|reflexivity].
      apply ukey_eqb_spec in E2. subst k. apply flookup_none in E. apply has_key_In in Hh. contradiction.
    - rewrite Hfk. exists (fi ++ [f]). split; [reflexivity|]. split; [|split].
      + intros k. rewrite flookup_app. destruct (flookup k fi); [reflexivity|].
        unfold flookup. simpl. destruct (ukey_eqb (f_key f) k); reflexivity.
      + intros Hnd. rewrite map_app. simpl. apply has_key_false in Hh. apply NoDup_snoc; assumption.
      + intros x Hx. apply in_app_or in Hx. destruct Hx as [Hx|[<-|[]]]; auto.
  Qed.

  Lemma insert_all_ok (regs : list (pev titem)) fs : forall fi,
    (forall f, In f fs -> has_key (f_key f) (reg_keys regs) = true) ->
    exists fi', insert_all regs fi fs = Some fi' /\
      (forall k, flookup k fi' = match flookup k fi with Some x => Some x | None => flookup k fs end) /\
      (NoDup (map f_key fi) -> NoDup (map f_key fi')) /\
      (forall x, In x fi' -> In x fi \/ In x fs).
  Proof.
    unfold insert_all. induction fs as [|f fs IH]; intros fi Hfk; simpl.
    - exists fi. split; [reflexivity|]. split; [|split; auto].
      intros k. destruct (flookup k fi); reflexivity.
    - destruct (insert_fired_ok regs fi f (Hfk f (or_introl eq_refl))) as (fi1 & H1 & Hl1 & Hn1 & Hi1).
      rewrite H1.
      destruct (IH fi1 (fun x Hx => Hfk x (or_intror Hx))) as (fi' & H2 & Hl2 & Hn2 & Hi2).
      exists fi'. split; [exact H2|]. split; [|split].
      + intros k. rewrite Hl2, Hl1. unfold flookup; simpl.
        destruct (find (fun f0 : fired => ukey_eqb (f_key f0) k) fi); [reflexivity|].
        destruct (ukey_eqb (f_key f) k); reflexivity.
      + auto.
      + intros x Hx. destruct (Hi2 x Hx) as [Hx1|Hx2]; [|right; right; exact Hx2].
        destruct (Hi1 x Hx1) as [Hx3| ->]; [left; exact Hx3|right; left; reflexivity].
  Qed.

  Lemma insert_fired_regs_indep (regs1 regs2 : list (pev titem)) fi f :
    has_key (f_key f) (reg_keys regs1) = true -> has_key (f_key f) (reg_keys regs2) = true ->
    insert_fired regs1 fi f = insert_fired regs2 fi f.
  Proof. intros H1 H2. unfold insert_fired. rewrite H1, H2. reflexivity. Qed.

  Lemma insert_all_regs_indep (regs1 regs2 : list (pev titem)) fs : forall fi,
    (forall f, In f fs -> has_key (f_key f) (reg_keys regs1) = true) ->
    (forall f, In f fs -> has_key (f_key f) (reg_keys regs2) = true) ->
    insert_all regs1 fi fs = insert_all regs2 fi fs.
  Proof.
    unfold insert_all. induction fs as [|f fs IH]; intros fi H1 H2; simpl; [reflexivity|].
    rewrite (insert_fired_regs_indep regs1 regs2 fi f) by (try apply H1; try apply H2; left; reflexivity).
    destruct (insert_fired regs2 fi f) as [fi1|].
    - apply IH; intros x Hx; [apply H1|apply H2]; right; exact Hx.
    - clear. induction fs as [|x fs IH]; simpl; [reflexivity|exact IH].
  Qed.

End Insert.

(* --------------------------------------------------------------------------------------- *)
(* lookup by key in any list *)

Section ByKey.
  Context {A : Type} (g : A -> ukey).

  Definition klookup (k : ukey) (l : list A) : option A := find (fun x => ukey_eqb (g x) k) l.

  Lemma klookup_some k l x : klookup k l = Some x -> In x l /\ g x = k.
  Proof. unfold klookup. intros H. apply find_some in H. destruct H as [H1 H2]. apply ukey_eqb_spec in H2. auto. Qed.

  Lemma klookup_none k l : klookup k l = None <-> ~ In k (map g l).
  Proof.
    unfold klookup. rewrite find_none_iff. split.
    - intros H Hin. apply in_map_iff in Hin. destruct Hin as (x & <- & Hx). specialize (H x Hx). rewrite ukey_eqb_refl in H. discriminate.
    - intros H x Hx. apply ukey_eqb_neq. intros E. apply H. apply in_map_iff. exists x. auto.
  Qed.

  Lemma klookup_In_nodup l x : NoDup (map g l) -> In x l -> klookup (g x) l = Some x.
  Proof.
    induction l as [|y l IH]; simpl; intros Hnd Hin; [contradiction|].
    inversion Hnd as [|? ? Hn Hd]; subst. unfold klookup. simpl.
    destruct Hin as [->|Hin]; [rewrite ukey_eqb_refl; reflexivity|].
    destruct (ukey_eqb (g y) (g x)) eqn:E.
    - apply ukey_eqb_spec in E. exfalso. apply Hn. rewrite E. apply in_map. exact Hin.
    - apply IH; assumption.
  Qed.

  Lemma klookup_filter (P : A -> bool) k l : NoDup (map g l) ->
    klookup k (filter P l) = match klookup k l with Some x => if P x then Some x else None | None => None end.
  Proof.
    induction l as [|x l IH]; simpl; intros Hnd; [reflexivity|].
    inversion Hnd as [|? ? Hn Hd]; subst. unfold klookup in *. simpl.
    destruct (ukey_eqb (g x) k) eqn:E.
    - destruct (P x) eqn:HP; simpl; [rewrite E; reflexivity|].
      apply ukey_eqb_spec in E. subst k.
      apply find_none_iff. intros y Hy. apply filter_In in Hy. destruct Hy as [Hy _].
      apply ukey_eqb_neq. intros E. apply Hn. rewrite <- E. apply in_map. exact Hy.
    - destruct (P x); simpl; [rewrite E|]; apply IH; exact Hd.
  Qed.

  Lemma klookup_app k a b : klookup k (a ++ b) = match klookup k a with Some x => Some x | None => klookup k b end.
  Proof. apply find_app. Qed.
End ByKey.

Lemma has_key_filter (keep : ukey -> bool) k l : keep k = true -> has_key k (filter keep l) = has_key k l.
Proof.
  intros Hk. destruct (has_key k l) eqn:E.
  - apply has_key_In. apply has_key_In in E. apply filter_In. auto.
  - apply has_key_false. apply has_key_false in E. intros Hin. apply E. apply filter_In in Hin. apply Hin.
Qed.
