(* Every change the block transaction of Model/DKGDriver.v makes to (db, sm) is a sequence of a
   few primitive updates [prim], each carrying the facts under which the code performs it (a
   commitment is queued only together with the transition of the eon's instance out of phase
   Off and for the polynomial stored in that very step; an evaluation row / an apology value is
   computed from the polynomial the instance holds; a result vote is queued together with the
   result row; ...).  Proved once here ([handle_*_evolves]); the invariants of C08 (sync position
   untouched, outbox discipline, cache coherence, message consistency) are then checked per
   primitive in Proofs/Outbox*.v instead of per handler. *)
From Coq Require Import List NArith ZArith Bool Lia.
From Verif Require Import Lib.Bytes Model.DKGPure Model.DKGDriver Proofs.DKGChain.
Import ListNotations.
Open Scope Z_scope.

Section Evolve.
Variables C E P : Type.
Variable commit_of : P -> C.
Variable eval_of : P -> nat -> E.
Variable verify : nat -> E -> C -> bool.
Variable deg_ok : N -> C -> bool.
Variable valid_eval : E -> bool.
Variable me : addr.
Variable L : Z.
Variable poly_for : N -> P.

Notation pure := (@DKGPure.pure C E P).
Notation active := (@active C E P).
Notation sm := (@sm C E P).
Notation db := (db C E P).
Notation st := (st C E P).
Notation msg := (msg C E).

(* messages without content that has to be consistent with the DKG state *)
Definition plain (m : msg) : Prop :=
  match m with
  | MCheckIn | MVote _ _ | MBlockSeen _ | MAccusation _ _ => True
  | _ => False
  end.

Inductive prim : st -> st -> Prop :=
| pr_sched_plain (d : db) (s : sm) desc (m : msg) : plain m -> prim (d, s) (schedule C E P d desc m, s)
| pr_deal (d : db) (s : sm) eon a p' poly :
    nget (sm_dkg s) eon = Some a -> p_phase (a_pure a) = Off -> p_phase p' = Dealing -> p_poly p' = Some poly ->
    prim (d, s) (schedule C E P d None (MCommit eon (commit_of poly)), set_dkg C E P s eon (mark C E P a p'))
| pr_sched_evals (d : db) (s : sm) eon rs vs :
    length rs = length vs ->
    (forall r v, In (r, v) (combine rs vs) -> In (eon, (r, v)) (db_evals _ _ _ d)) ->
    prim (d, s) (schedule C E P d None (MEvals eon rs vs), s)
| pr_sched_apology (d : db) (s : sm) eon a poly idxs accs :
    nget (sm_dkg s) eon = Some a -> p_poly (a_pure a) = Some poly ->
    idx_addrs (a_keypers a) idxs = Some accs ->
    prim (d, s) (schedule C E P d None (MApology eon accs (map (eval_of poly) idxs)), s)
| pr_result (d : db) (s : sm) l eon r :
    l = db_results _ _ _ d -> nget l eon = None ->
    prim (d, s) (upd_db_results C E P (schedule C E P d None (MResult eon (rs_success _ _ r))) (l ++ [(eon, r)]), s)
| pr_filter (d : db) (s : sm) f :
    prim (d, s) (upd_db_outbox C E P d (filter f (db_outbox _ _ _ d)) (db_nextid _ _ _ d), s)
| pr_eval_add (d : db) (s : sm) l eon a poly idx adr :
    l = db_evals _ _ _ d ->
    nget (sm_dkg s) eon = Some a -> p_poly (a_pure a) = Some poly -> nth_error (a_keypers a) idx = Some adr ->
    prim (d, s) (upd_db_evals C E P d (l ++ [(eon, (adr, eval_of poly idx))]), s)
| pr_evals_filter (d : db) (s : sm) l f :
    l = db_evals _ _ _ d -> prim (d, s) (upd_db_evals C E P d (filter f l), s)
| pr_keys (d : db) (s : sm) x : prim (d, s) (upd_db_keys C E P d x, s)
| pr_eonkeys (d : db) (s : sm) x : prim (d, s) (upd_db_eonkeys C E P d x, s)
| pr_cfg_add (d : db) (s : sm) l idx c :
    l = db_cfgs _ _ _ d -> nget l idx = None ->
    prim (d, s) (upd_db_cfgs C E P d (l ++ [(idx, c)]), s)
| pr_cfg_started (d : db) (s : sm) l idx c :
    l = db_cfgs _ _ _ d -> nget l idx = Some c ->
    prim (d, s) (upd_db_cfgs C E P d (nset l idx
                   (mkCfg (cf_height c) (cf_keypers c) (cf_threshold c) true (cf_act c))), s)
| pr_eon_add (d : db) (s : sm) l eon er :
    l = db_eons _ _ _ d -> nget l eon = None ->
    prim (d, s) (upd_db_eons C E P d (l ++ [(eon, er)]), s)
| pr_eon_create (d : db) (s : sm) l eon er cr a :
    l = db_eons _ _ _ d -> nget l eon = None ->
    nget (db_cfgs _ _ _ d) (eo_cfg er) = Some cr ->
    a_start a = eo_height er -> a_keypers a = cf_keypers cr -> a_dirty a = true ->
    sm_iskeyper s = true -> p_poly (a_pure a) = None ->
    prim (d, s) (upd_db_eons C E P d (l ++ [(eon, er)]), set_dkg C E P s eon a)
| pr_iskeyper (d : db) (s : sm) : prim (d, s) (d, mkSm (sm_sync s) true (sm_dkg s))
| pr_update (d : db) (s : sm) eon a p' :
    nget (sm_dkg s) eon = Some a -> p_poly p' = p_poly (a_pure a) ->
    phase_leb (p_phase (a_pure a)) (p_phase p') = true ->
    prim (d, s) (d, set_dkg C E P s eon (mark C E P a p'))
| pr_finalize (d : db) (s : sm) eon :
    prim (d, s) (upd_db_pure C E P d (ndel (db_pure _ _ _ d) eon), del_dkg C E P s eon).

Inductive evolves : st -> st -> Prop :=
| ev_refl x : evolves x x
| ev_step x y z : prim x y -> evolves y z -> evolves x z.

Lemma ev_trans x y z : evolves x y -> evolves y z -> evolves x z.
Proof. induction 1; intros H2; [exact H2|]. eapply ev_step; [eassumption|]. apply IHevolves. exact H2. Qed.

Lemma ev_one x y : prim x y -> evolves x y.
Proof. intros H. eapply ev_step; [exact H|apply ev_refl]. Qed.

Notation start1 := (start1 C E P commit_of eval_of valid_eval poly_for).
Notation start2 := (start2 C E P verify).
Notation start3 := (start3 C E P eval_of).
Notation finalize_dkg := (finalize_dkg C E P verify).
Notation shift_loop := (shift_loop C E P commit_of eval_of verify valid_eval L poly_for).
Notation shift_all := (shift_all C E P commit_of eval_of verify valid_eval L poly_for).
Notation handle_event := (handle_event C E P commit_of eval_of verify deg_ok valid_eval me L poly_for).
Notation handle_events := (handle_events C E P commit_of eval_of verify deg_ok valid_eval me L poly_for).

Lemma phase_leb_refl p : phase_leb p p = true.
Proof. unfold phase_leb. apply Nat.leb_refl. Qed.

(* ---- what the puredkg steps do to the polynomial and the phase ---- *)
Lemma handle_eval_poly (d : pure) eon s r v d' :
  handle_eval C E P valid_eval d eon s r v = HOk d' -> p_poly d' = p_poly d /\ p_phase d' = p_phase d.
Proof.
  unfold handle_eval. destruct (negb _); [discriminate|]. destruct (negb _); [discriminate|].
  destruct (nth_error _ _) as [[?|]|]; try discriminate. destruct (negb _); [discriminate|].
  destruct (set_nth _ _ _); [|discriminate]. intros [= <-]. split; reflexivity.
Qed.

Lemma handle_commit_poly (d : pure) eon s c d' :
  handle_commit C E P deg_ok d eon s c = HOk d' -> p_poly d' = p_poly d /\ p_phase d' = p_phase d.
Proof.
  unfold handle_commit. destruct (negb _); [discriminate|].
  destruct (nth_error _ _) as [[?|]|]; try discriminate. destruct (negb _); [discriminate|].
  destruct (set_nth _ _ _); [|discriminate]. intros [= <-]. split; reflexivity.
Qed.

Lemma accuse_all_poly (d : pure) keypers eon si accused :
  p_poly (accuse_all C E P d keypers eon si accused) = p_poly d /\
  p_phase (accuse_all C E P d keypers eon si accused) = p_phase d.
Proof.
  revert d. induction accused as [|a r IH]; simpl; intros d; [split; reflexivity|].
  destruct (find_index keypers a 0) as [ai|]; [|apply IH].
  unfold handle_accusation. destruct (negb _); [apply IH|]. destruct (mem_pair _ _); [apply IH|].
  destruct (IH (set_accs d (p_accs d ++ [(si, ai)]))) as [A B]. split; [rewrite A|rewrite B]; reflexivity.
Qed.

Lemma apologise_all_poly (d : pure) keypers eon si accusers vals d' :
  apologise_all C E P valid_eval d keypers eon si accusers vals = Some d' ->
  p_poly d' = p_poly d /\ p_phase d' = p_phase d.
Proof.
  revert d vals. induction accusers as [|a r IH]; simpl; intros d vals H.
  - injection H as <-. split; reflexivity.
  - destruct vals as [|v vr].
    + destruct (find_index keypers a 0); [discriminate|]. eapply IH. exact H.
    + destruct (find_index keypers a 0) as [ai|]; [|eapply IH; exact H].
      unfold handle_apology in H. destruct (negb _); [eapply IH; exact H|].
      destruct (apo_mem _ _); [eapply IH; exact H|]. destruct (negb _); [eapply IH; exact H|].
      apply IH in H. simpl in H. exact H.
Qed.

Lemma start_phase1_poly (d : pure) poly d' c evs :
  start_phase1 C E P commit_of eval_of valid_eval d poly = Some (d', c, evs) ->
  p_poly d' = Some poly /\ c = commit_of poly /\
  evs = map (fun r => (r, eval_of poly r)) (filter (fun r => negb (Nat.eqb r (p_me d))) (seq 0 (p_n d))).
Proof.
  unfold start_phase1. destruct (advance d Off) as [q|]; [|discriminate].
  destruct (Nat.ltb _ _).
  - destruct (handle_eval _ _ _ _ _ _ _ _ _) as [d3| |] eqn:He; try discriminate.
    intros [= <- <- <-]. apply handle_eval_poly in He. destruct He as [Hp _]. simpl in Hp.
    repeat split. exact Hp.
  - intros [= <- <- <-]. repeat split.
Qed.

Lemma insert_evals_evolves (s : sm) eon a poly keypers l :
  nget (sm_dkg s) eon = Some a -> p_poly (a_pure a) = Some poly -> a_keypers a = keypers ->
  (forall r v, In (r, v) l -> v = eval_of poly r) ->
  forall (d d' : db), insert_evals C E P d eon keypers l = TOk d' -> evolves (d, s) (d', s).
Proof.
  intros Hg Hp Hk. induction l as [|[r v] rest IH]; simpl; intros Hl d d' H.
  - injection H as <-. apply ev_refl.
  - destruct (nth_error keypers r) as [adr|] eqn:Hn; [|discriminate]. destruct (existsb _ _); [discriminate|].
    rewrite (Hl r v (or_introl eq_refl)) in H.
    eapply ev_step; [eapply (pr_eval_add d s _ eon a poly r adr); [reflexivity|exact Hg|exact Hp|rewrite Hk; exact Hn]|].
    apply IH; [|exact H]. intros r0 v0 Hin. apply Hl. right. exact Hin.
Qed.

(* the stored entry of the eon is the one the loop holds *)
Lemma start1_evolves x eon a x1 a1 :
  nget (sm_dkg (snd x)) eon = Some a -> start1 x eon a = TOk (x1, a1) ->
  evolves x x1 /\ nget (sm_dkg (snd x1)) eon = Some a1.
Proof.
  destruct x as [d s]. simpl. intros Hg. unfold DKGDriver.start1.
  destruct (start_phase1 _ _ _ _ _ _ _ _) as [[[p' c] evals]|] eqn:Hs; [|discriminate].
  destruct (insert_evals _ _ _ _ _ _ _) as [d2| |] eqn:Hi; simpl; try discriminate.
  intros [= <- <-]. split; [|simpl; apply nget_nins_same].
  destruct (start_phase1_poly _ _ _ _ _ Hs) as [Hp [-> Hev]].
  destruct (start_phase1_spec C E P commit_of eval_of valid_eval _ _ _ _ _ Hs) as [_ [Hoff Hdeal]].
  eapply ev_step; [apply (pr_deal d s eon a p' (poly_for eon) Hg Hoff Hdeal Hp)|].
  eapply (insert_evals_evolves _ eon (mark C E P a p') (poly_for eon)); [simpl; apply nget_nins_same|exact Hp|reflexivity| |exact Hi].
  intros r v Hin. rewrite Hev in Hin. apply in_map_iff in Hin. destruct Hin as [r0 [Heq _]]. injection Heq as <- <-. reflexivity.
Qed.

Lemma start2_evolves x eon a x1 a1 :
  nget (sm_dkg (snd x)) eon = Some a -> start2 x eon a = TOk (x1, a1) ->
  evolves x x1 /\ nget (sm_dkg (snd x1)) eon = Some a1.
Proof.
  destruct x as [d s]. simpl. intros Hg. unfold DKGDriver.start2.
  destruct (start_phase2 _ _ _ _ _) as [[p' accs]|] eqn:Hs; [|discriminate].
  assert (Hup : prim (d, s) (d, set_dkg C E P s eon (mark C E P a p'))).
  { apply pr_update; [exact Hg| |].
    - unfold start_phase2 in Hs. destruct (advance (a_pure a) Dealing) as [q|] eqn:Ha; [|discriminate].
      apply advance_same in Ha. destruct Ha as [-> _]. injection Hs as <- _. reflexivity.
    - destruct (start_phase2_spec C E P verify _ _ _ Hs) as [_ [H1 H2]]. rewrite H1, H2. reflexivity. }
  destruct accs as [|ac accs].
  - intros [= <- <-]. split; [|simpl; apply nget_nins_same]. apply ev_one. exact Hup.
  - destruct (idx_addrs _ _); [|discriminate]. intros [= <- <-]. split; [|simpl; apply nget_nins_same].
    eapply ev_step; [apply (pr_sched_plain d s None (MAccusation eon l)); exact I|]. apply ev_one.
    apply pr_update; [exact Hg| |].
    + unfold start_phase2 in Hs. destruct (advance (a_pure a) Dealing) as [q|] eqn:Ha; [|discriminate].
      apply advance_same in Ha. destruct Ha as [-> _]. injection Hs as <- _. reflexivity.
    + destruct (start_phase2_spec C E P verify _ _ _ Hs) as [_ [H1 H2]]. rewrite H1, H2. reflexivity.
Qed.

Lemma start3_evolves x eon a x1 a1 :
  nget (sm_dkg (snd x)) eon = Some a -> start3 x eon a = TOk (x1, a1) ->
  evolves x x1 /\ nget (sm_dkg (snd x1)) eon = Some a1.
Proof.
  destruct x as [d s]. simpl. intros Hg. unfold DKGDriver.start3.
  destruct (start_phase3 _ _ _ _ _) as [[p' apos]|] eqn:Hs; [|discriminate].
  assert (Hpp : p_poly p' = p_poly (a_pure a) /\ phase_leb (p_phase (a_pure a)) (p_phase p') = true).
  { destruct (start_phase3_spec C E P eval_of _ _ _ Hs) as [_ [H1 H2]]. rewrite H1, H2. split; [|reflexivity].
    assert (Hp' : p' = set_phase (a_pure a) Apologizing).
    { unfold start_phase3 in Hs. destruct (advance (a_pure a) Accusing) as [q|] eqn:Ha; [|discriminate].
      apply advance_same in Ha. destruct Ha as [-> _].
      destruct (filter _ _); [|destruct (p_poly (a_pure a)) eqn:Q; [|discriminate]]; injection Hs as <- _; reflexivity. }
    rewrite Hp'. reflexivity. }
  destruct Hpp as [Hpoly Hph].
  destruct apos as [|ap apos].
  - intros [= <- <-]. split; [|simpl; apply nget_nins_same]. apply ev_one. apply pr_update; assumption.
  - destruct (idx_addrs (a_keypers a) (map fst (ap :: apos))) as [accs|] eqn:Hi; [|discriminate].
    intros [= <- <-]. split; [|simpl; apply nget_nins_same].
    (* the values are evaluations of the stored polynomial *)
    assert (Hv : exists poly, p_poly (a_pure a) = Some poly /\
                 map snd (ap :: apos) = map (eval_of poly) (map fst (ap :: apos))).
    { unfold start_phase3 in Hs. destruct (advance (a_pure a) Accusing) as [q|]; [|discriminate].
      destruct (filter _ _) as [|k ks]; [discriminate|].
      destruct (p_poly (a_pure a)) as [poly|] eqn:Q; [|discriminate]. injection Hs as _ <- <-.
      exists poly. split; [reflexivity|]. simpl. f_equal. rewrite !map_map. reflexivity. }
    destruct Hv as [poly [Hp Hvals]].
    eapply ev_step; [|apply ev_one; apply pr_update; assumption].
    pose proof (pr_sched_apology d s eon a poly (map fst (ap :: apos)) accs Hg Hp Hi) as Hpr.
    rewrite <- Hvals in Hpr. exact Hpr.
Qed.

Lemma finalize_evolves x eon a x1 a1 :
  finalize_dkg x eon a = TOk (x1, a1) -> evolves x x1 /\ p_phase (a_pure a1) = Finalized.
Proof.
  destruct x as [d s]. unfold DKGDriver.finalize_dkg.
  destruct (finalize (a_pure a)) as [p'|] eqn:Hf; [|discriminate].
  apply finalize_spec in Hf. destruct Hf as [-> _].
  set (res := compute_result C E P verify (set_phase (a_pure a) Finalized)).
  destruct (is_result C E res) eqn:Hok.
  - destruct (existsb _ _); simpl; [discriminate|].
    destruct (nget (db_results C E P d) eon) eqn:Hr; simpl; [discriminate|].
    intros [= <- <-]. split; [|reflexivity].
    eapply ev_step; [apply pr_finalize|]. eapply ev_step; [eapply pr_evals_filter; reflexivity|].
    eapply ev_step; [apply pr_eonkeys|].
    apply ev_one. eapply (pr_result _ _ _ eon (mkRes C E true res)); [reflexivity|exact Hr].
  - destruct (nget (db_eons C E P _) eon); simpl; [|discriminate].
    destruct (nget (db_results C E P d) eon) eqn:Hr; simpl; [discriminate|].
    intros [= <- <-]. split; [|reflexivity].
    eapply ev_step; [apply pr_finalize|]. eapply ev_step; [eapply pr_evals_filter; reflexivity|].
    apply ev_one. eapply (pr_result _ _ _ eon (mkRes C E false res)); [reflexivity|exact Hr].
Qed.

Lemma shift_loop_evolves fuel : forall x h eon a x',
  nget (sm_dkg (snd x)) eon = Some a -> shift_loop fuel x h eon a = TOk x' -> evolves x x'.
Proof.
  induction fuel as [|f IH]; intros x h eon a x' Hg Hrun.
  - simpl in Hrun. injection Hrun as <-. apply ev_refl.
  - simpl in Hrun. destruct (phase_ltb _ _); [|injection Hrun as <-; apply ev_refl].
    destruct (p_phase (a_pure a)).
    + destruct (start1 x eon a) as [[x1 a1]| |] eqn:Hs; simpl in Hrun; try discriminate.
      destruct (start1_evolves _ _ _ _ _ Hg Hs) as [He Hg1]. eapply ev_trans; [exact He|]. eapply IH; eassumption.
    + destruct (start2 x eon a) as [[x1 a1]| |] eqn:Hs; simpl in Hrun; try discriminate.
      destruct (start2_evolves _ _ _ _ _ Hg Hs) as [He Hg1]. eapply ev_trans; [exact He|]. eapply IH; eassumption.
    + destruct (start3 x eon a) as [[x1 a1]| |] eqn:Hs; simpl in Hrun; try discriminate.
      destruct (start3_evolves _ _ _ _ _ Hg Hs) as [He Hg1]. eapply ev_trans; [exact He|]. eapply IH; eassumption.
    + destruct (finalize_dkg x eon a) as [[x1 a1]| |] eqn:Hs; simpl in Hrun; try discriminate.
      destruct (finalize_evolves _ _ _ _ _ Hs) as [He Hp]. eapply ev_trans; [exact He|].
      (* the entry is finalised: the loop stops *)
      destruct f as [|f']; simpl in Hrun.
      * injection Hrun as <-. apply ev_refl.
      * rewrite Hp in Hrun. replace (phase_ltb Finalized _) with false in Hrun.
        -- injection Hrun as <-. apply ev_refl.
        -- symmetry. apply phase_ltb_false. destruct (phase_at _ _ _); simpl; lia.
    + discriminate.
Qed.

Lemma shift_all_evolves h l : forall x x', shift_all x h l = TOk x' -> evolves x x'.
Proof.
  induction l as [|[eon a0] r IH]; simpl; intros x x' Hrun.
  - injection Hrun as <-. apply ev_refl.
  - destruct (nget (sm_dkg (snd x)) eon) as [a|] eqn:Hg; [|apply IH; exact Hrun].
    unfold shift_phase in Hrun.
    destruct (shift_loop 5 x h eon a) as [x1| |] eqn:Hs; simpl in Hrun; try discriminate.
    eapply ev_trans; [eapply shift_loop_evolves; eassumption|]. apply IH. exact Hrun.
Qed.

Lemma handle_event_evolves x h ev x' : handle_event x h ev = TOk x' -> evolves x x'.
Proof.
  destruct x as [d s]. destruct ev; simpl.
  - (* check-in *)
    intros [= <-]. destruct (existsb _ _); [apply ev_refl|apply ev_one; apply pr_keys].
  - (* batch config *)
    unfold handle_batch_config. destruct (is_member keypers me) eqn:Hm.
    + destruct (nget (db_cfgs C E P (schedule C E P d None MCheckIn)) idx) eqn:Hn; [discriminate|].
      intros [= <-].
      eapply ev_step; [apply pr_iskeyper|]. eapply ev_step; [apply (pr_sched_plain d _ None MCheckIn); exact I|].
      eapply ev_step; [eapply pr_cfg_add; [reflexivity|exact Hn]|]. apply ev_one. apply pr_filter.
    + destruct (nget (db_cfgs C E P d) idx) eqn:Hn; [discriminate|]. intros [= <-].
      eapply ev_step; [eapply pr_cfg_add; [reflexivity|exact Hn]|]. apply ev_one. apply pr_filter.
  - (* batch config started *)
    destruct (nget (db_cfgs C E P d) idx) as [c|] eqn:Hn; intros [= <-]; [|apply ev_refl].
    apply ev_one. eapply pr_cfg_started; [reflexivity|exact Hn].
  - (* eon started *)
    destruct (9223372036854775807 <? Z.of_N act); [discriminate|].
    destruct (nget (db_eons C E P d) eon) eqn:Hn; [discriminate|].
    set (d1 := upd_db_eons C E P d (db_eons C E P d ++ [(eon, mkEon h act idx)])).
    assert (H1 : evolves (d, s) (d1, s)) by (apply ev_one; eapply pr_eon_add; [reflexivity|exact Hn]).
    destruct (negb (sm_iskeyper s)) eqn:Hk; [intros [= <-]; exact H1|].
    destruct (nget (db_cfgs C E P d) idx) as [c|] eqn:Hc; [|discriminate].
    destruct (find_index (cf_keypers c) me 0) as [ki|]; [|intros [= <-]; exact H1].
    destruct (phase_eqb _ Off); [discriminate|].
    set (a := mkActive (new_pure eon (length (cf_keypers c)) (cf_threshold c) ki) h true (cf_keypers c)).
    intros Hrun.
    eapply ev_step.
    + eapply (pr_eon_create d s _ eon (mkEon h act idx) c a); try reflexivity.
      * exact Hn.
      * exact Hc.
      * apply negb_false_iff in Hk. exact Hk.
    + eapply shift_loop_evolves; [|exact Hrun]. simpl. apply nget_nins_same.
  - (* commitment *)
    destruct (nget (sm_dkg s) eon) as [a|] eqn:Hg; [|intros [= <-]; apply ev_refl].
    destruct (find_index _ _ _); [|intros [= <-]; apply ev_refl].
    destruct (handle_commit _ _ _ _ _ _ _ _) as [p'| |] eqn:Hh; intros [= <-]; try apply ev_refl.
    apply handle_commit_poly in Hh. destruct Hh as [A B].
    apply ev_one. apply pr_update; [exact Hg|exact A|rewrite B; apply phase_leb_refl].
  - (* evaluation *)
    destruct (bytes_eqb sender me); [intros [= <-]; apply ev_refl|].
    destruct (nget (sm_dkg s) eon) as [a|] eqn:Hg; [|intros [= <-]; apply ev_refl].
    destruct (find_index (a_keypers a) sender 0); [|intros [= <-]; apply ev_refl].
    destruct (find_index (a_keypers a) me 0); [|discriminate].
    destruct (find_index receivers me 0); [|intros [= <-]; apply ev_refl].
    destruct (nth_error vals _) as [[v|]|]; try discriminate; [|intros [= <-]; apply ev_refl].
    destruct (handle_eval _ _ _ _ _ _ _ _ _) as [p'| |] eqn:Hh; intros [= <-]; try apply ev_refl.
    apply handle_eval_poly in Hh. destruct Hh as [A B].
    apply ev_one. apply pr_update; [exact Hg|exact A|rewrite B; apply phase_leb_refl].
  - (* accusation *)
    destruct (nget (sm_dkg s) eon) as [a|] eqn:Hg; [|intros [= <-]; apply ev_refl].
    destruct (negb _); [intros [= <-]; apply ev_refl|].
    destruct (find_index _ _ _) as [si|]; intros [= <-]; [|apply ev_refl].
    destruct (accuse_all_poly (a_pure a) (a_keypers a) eon si accused) as [A B].
    apply ev_one. apply pr_update; [exact Hg|exact A|rewrite B; apply phase_leb_refl].
  - (* apology *)
    destruct (nget (sm_dkg s) eon) as [a|] eqn:Hg; [|intros [= <-]; apply ev_refl].
    destruct (negb _); [intros [= <-]; apply ev_refl|].
    destruct (find_index _ _ _); [|intros [= <-]; apply ev_refl].
    destruct (apologise_all _ _ _ _ _ _ _ _ _ _) as [p'|] eqn:Hh; [|discriminate]. intros [= <-].
    apply apologise_all_poly in Hh. destruct Hh as [A B].
    apply ev_one. apply pr_update; [exact Hg|exact A|rewrite B; apply phase_leb_refl].
Qed.

Lemma handle_events_evolves es : forall x h x', handle_events x h es = TOk x' -> evolves x x'.
Proof.
  induction es as [|ev r IH]; simpl; intros x h x' Hrun.
  - injection Hrun as <-. apply ev_refl.
  - destruct (handle_event x h ev) as [x1| |] eqn:H1; simpl in Hrun; try discriminate.
    eapply ev_trans; [eapply handle_event_evolves; exact H1|]. eapply IH. exact Hrun.
Qed.

(* sendPolyEvals: one message per eon from rows of the table, then the rows go *)
Lemma send_poly_evals_evolves (d : db) (s : sm) : evolves (d, s) (send_poly_evals C E P d, s).
Proof.
  unfold send_poly_evals. cbv zeta.
  set (ready := filter (fun row => has_key C E P d (fst (snd row))) (db_evals C E P d)).
  assert (Hfold : forall (eons : list N) (acc : db), db_evals C E P acc = db_evals C E P d ->
            evolves (acc, s)
              (fold_left (fun acc0 eon =>
                            schedule C E P acc0 None
                              (MEvals eon (map (fun row => fst (snd row)) (filter (fun row => N.eqb (fst row) eon) ready))
                                          (map (fun row => snd (snd row)) (filter (fun row => N.eqb (fst row) eon) ready))))
                         eons acc, s) /\
            db_evals C E P (fold_left (fun acc0 eon =>
                            schedule C E P acc0 None
                              (MEvals eon (map (fun row => fst (snd row)) (filter (fun row => N.eqb (fst row) eon) ready))
                                          (map (fun row => snd (snd row)) (filter (fun row => N.eqb (fst row) eon) ready))))
                         eons acc) = db_evals C E P d).
  { induction eons as [|eon r IH]; simpl; intros acc Hacc; [split; [apply ev_refl|exact Hacc]|].
    destruct (IH (schedule C E P acc None
               (MEvals eon (map (fun row => fst (snd row)) (filter (fun row => N.eqb (fst row) eon) ready))
                           (map (fun row => snd (snd row)) (filter (fun row => N.eqb (fst row) eon) ready))))) as [He Hd].
    - simpl. exact Hacc.
    - split; [|exact Hd]. eapply ev_step; [|exact He].
      apply pr_sched_evals.
      + rewrite !map_length. reflexivity.
      + intros r0 v0 Hin. rewrite Hacc.
        assert (Hrow : exists row, In row (filter (fun row => N.eqb (fst row) eon) ready) /\ fst (snd row) = r0 /\ snd (snd row) = v0).
        { clear - Hin. induction (filter (fun row => N.eqb (fst row) eon) ready) as [|x l IHl]; simpl in Hin; [contradiction|].
          destruct Hin as [Heq|Hin]; [injection Heq as <- <-; exists x; repeat split; left; reflexivity|].
          destruct (IHl Hin) as [row [A B]]. exists row. split; [right; exact A|exact B]. }
        destruct Hrow as [[e0 [a0 w0]] [Hf [<- <-]]]. apply filter_In in Hf. destruct Hf as [Hr He0].
        simpl in He0. apply N.eqb_eq in He0. subst e0. unfold ready in Hr. apply filter_In in Hr. destruct Hr as [Hr _]. exact Hr. }
  destruct (Hfold (fold_right insert_sorted [] (map fst ready)) d eq_refl) as [He Hd].
  eapply ev_trans; [exact He|]. apply ev_one.
  eapply pr_evals_filter. reflexivity.
Qed.

End Evolve.
