(* Every change the block transaction of Model/DKGDriver.v makes to (db, sm) is a sequence of a
   few primitive updates [prim].  Proved once here ([handle_*_evolves]); the invariants of C08
   (sync position untouched, outbox discipline, cache coherence) are then checked per primitive
   in Proofs/Outbox.v instead of per handler. *)
From Coq Require Import List NArith ZArith Bool Lia.
From Verif Require Import Lib.Bytes Model.DKGPure Model.DKGDriver Proofs.DKGChain.
Import ListNotations.
Open Scope Z_scope.

Section Evolve.
Variables C E P : Type.
Variable commit_of : P -> C.
Variable eval_of : P -> nat -> E.
Variable verify : nat -> E -> C -> bool.
Variable deg_ok : N -> C -> bool.
Variable valid_eval : E -> bool.
Variable me : addr.
Variable L : Z.
Variable poly_for : N -> P.

Notation pure := (@DKGPure.pure C E P).
Notation active := (@active C E P).
Notation sm := (@sm C E P).
Notation db := (db C E P).
Notation st := (st C E P).
Notation msg := (msg C E).

Inductive prim : st -> st -> Prop :=
| pr_sched (d : db) (s : sm) desc (m : msg) : prim (d, s) (schedule C E P d desc m, s)
| pr_filter (d : db) (s : sm) f :
    prim (d, s) (upd_db_outbox C E P d (filter f (db_outbox _ _ _ d)) (db_nextid _ _ _ d), s)
| pr_evals (d : db) (s : sm) x : prim (d, s) (upd_db_evals C E P d x, s)
| pr_keys (d : db) (s : sm) x : prim (d, s) (upd_db_keys C E P d x, s)
| pr_eonkeys (d : db) (s : sm) x : prim (d, s) (upd_db_eonkeys C E P d x, s)
| pr_result_add (d : db) (s : sm) l eon r :
    l = db_results _ _ _ d -> nget l eon = None ->
    prim (d, s) (upd_db_results C E P d (l ++ [(eon, r)]), s)
| pr_cfg_add (d : db) (s : sm) l idx c :
    l = db_cfgs _ _ _ d -> nget l idx = None ->
    prim (d, s) (upd_db_cfgs C E P d (l ++ [(idx, c)]), s)
| pr_cfg_started (d : db) (s : sm) l idx c :
    l = db_cfgs _ _ _ d -> nget l idx = Some c ->
    prim (d, s) (upd_db_cfgs C E P d (nset l idx
                   (mkCfg (cf_height c) (cf_keypers c) (cf_threshold c) true (cf_act c))), s)
| pr_eon_add (d : db) (s : sm) l eon er :
    l = db_eons _ _ _ d -> nget l eon = None ->
    prim (d, s) (upd_db_eons C E P d (l ++ [(eon, er)]), s)
| pr_iskeyper (d : db) (s : sm) : prim (d, s) (d, mkSm (sm_sync s) true (sm_dkg s))
| pr_update (d : db) (s : sm) eon a p' :
    nget (sm_dkg s) eon = Some a -> prim (d, s) (d, set_dkg C E P s eon (mark C E P a p'))
| pr_create (d : db) (s : sm) eon er cr a :
    nget (db_eons _ _ _ d) eon = Some er -> nget (db_cfgs _ _ _ d) (eo_cfg er) = Some cr ->
    a_start a = eo_height er -> a_keypers a = cf_keypers cr -> a_dirty a = true ->
    sm_iskeyper s = true ->
    prim (d, s) (d, set_dkg C E P s eon a)
| pr_finalize (d : db) (s : sm) eon :
    prim (d, s) (upd_db_pure C E P d (ndel (db_pure _ _ _ d) eon), del_dkg C E P s eon).

Inductive evolves : st -> st -> Prop :=
| ev_refl x : evolves x x
| ev_step x y z : prim x y -> evolves y z -> evolves x z.

Lemma ev_trans x y z : evolves x y -> evolves y z -> evolves x z.
Proof. induction 1; intros H2; [exact H2|]. eapply ev_step; [eassumption|]. apply IHevolves. exact H2. Qed.

Lemma ev_one x y : prim x y -> evolves x y.
Proof. intros H. eapply ev_step; [exact H|apply ev_refl]. Qed.

Notation start1 := (start1 C E P commit_of eval_of valid_eval poly_for).
Notation start2 := (start2 C E P verify).
Notation start3 := (start3 C E P eval_of).
Notation finalize_dkg := (finalize_dkg C E P verify).
Notation shift_loop := (shift_loop C E P commit_of eval_of verify valid_eval L poly_for).
Notation shift_all := (shift_all C E P commit_of eval_of verify valid_eval L poly_for).
Notation handle_event := (handle_event C E P commit_of eval_of verify deg_ok valid_eval me L poly_for).
Notation handle_events := (handle_events C E P commit_of eval_of verify deg_ok valid_eval me L poly_for).

Lemma insert_evals_evolves (s : sm) eon keypers l : forall (d d' : db),
  insert_evals C E P d eon keypers l = TOk d' -> evolves (d, s) (d', s).
Proof.
  induction l as [|[r v] rest IH]; simpl; intros d d' H.
  - injection H as <-. apply ev_refl.
  - destruct (nth_error keypers r); [|discriminate]. destruct (existsb _ _); [discriminate|].
    eapply ev_step; [apply pr_evals|]. apply IH. exact H.
Qed.

(* the stored entry of the eon is the one the loop holds *)
Lemma start1_evolves x eon a x1 a1 :
  nget (sm_dkg (snd x)) eon = Some a -> start1 x eon a = TOk (x1, a1) ->
  evolves x x1 /\ nget (sm_dkg (snd x1)) eon = Some a1.
Proof.
  destruct x as [d s]. simpl. intros Hg. unfold DKGDriver.start1.
  destruct (start_phase1 _ _ _ _ _ _ _ _) as [[[p' c] evals]|]; [|discriminate].
  destruct (insert_evals _ _ _ _ _ _ _) as [d2| |] eqn:Hi; simpl; try discriminate.
  intros [= <- <-]. split; [|simpl; apply nget_nins_same].
  eapply ev_step; [apply pr_sched|].
  eapply ev_trans; [eapply insert_evals_evolves; exact Hi|].
  apply ev_one. apply pr_update. exact Hg.
Qed.

Lemma start2_evolves x eon a x1 a1 :
  nget (sm_dkg (snd x)) eon = Some a -> start2 x eon a = TOk (x1, a1) ->
  evolves x x1 /\ nget (sm_dkg (snd x1)) eon = Some a1.
Proof.
  destruct x as [d s]. simpl. intros Hg. unfold DKGDriver.start2.
  destruct (start_phase2 _ _ _ _ _) as [[p' accs]|]; [|discriminate].
  destruct accs as [|ac accs].
  - intros [= <- <-]. split; [|simpl; apply nget_nins_same]. apply ev_one. apply pr_update. exact Hg.
  - destruct (idx_addrs _ _); [|discriminate]. intros [= <- <-]. split; [|simpl; apply nget_nins_same].
    eapply ev_step; [apply pr_sched|]. apply ev_one. apply pr_update. exact Hg.
Qed.

Lemma start3_evolves x eon a x1 a1 :
  nget (sm_dkg (snd x)) eon = Some a -> start3 x eon a = TOk (x1, a1) ->
  evolves x x1 /\ nget (sm_dkg (snd x1)) eon = Some a1.
Proof.
  destruct x as [d s]. simpl. intros Hg. unfold DKGDriver.start3.
  destruct (start_phase3 _ _ _ _ _) as [[p' apos]|]; [|discriminate].
  destruct apos as [|ap apos].
  - intros [= <- <-]. split; [|simpl; apply nget_nins_same]. apply ev_one. apply pr_update. exact Hg.
  - destruct (idx_addrs _ _); [|discriminate]. intros [= <- <-]. split; [|simpl; apply nget_nins_same].
    eapply ev_step; [apply pr_sched|]. apply ev_one. apply pr_update. exact Hg.
Qed.

Lemma finalize_evolves x eon a x1 a1 :
  finalize_dkg x eon a = TOk (x1, a1) -> evolves x x1 /\ p_phase (a_pure a1) = Finalized.
Proof.
  destruct x as [d s]. unfold DKGDriver.finalize_dkg.
  destruct (finalize (a_pure a)) as [p'|] eqn:Hf; [|discriminate].
  apply finalize_spec in Hf. destruct Hf as [-> _].
  set (res := compute_result C E P verify (set_phase (a_pure a) Finalized)).
  destruct (is_result C E res).
  - destruct (existsb _ _); simpl; [discriminate|].
    destruct (nget (db_results C E P d) eon) eqn:Hr; simpl; [discriminate|].
    intros [= <- <-]. split; [|reflexivity].
    eapply ev_step; [apply pr_finalize|]. eapply ev_step; [apply pr_evals|].
    eapply ev_step; [apply pr_eonkeys|]. eapply ev_step; [apply pr_sched|].
    apply ev_one. eapply pr_result_add; [reflexivity|exact Hr].
  - destruct (nget (db_eons C E P _) eon); simpl; [|discriminate].
    destruct (nget (db_results C E P d) eon) eqn:Hr; simpl; [discriminate|].
    intros [= <- <-]. split; [|reflexivity].
    eapply ev_step; [apply pr_finalize|]. eapply ev_step; [apply pr_evals|].
    eapply ev_step; [apply pr_sched|].
    apply ev_one. eapply pr_result_add; [reflexivity|exact Hr].
Qed.

Lemma shift_loop_evolves fuel : forall x h eon a x',
  nget (sm_dkg (snd x)) eon = Some a -> shift_loop fuel x h eon a = TOk x' -> evolves x x'.
Proof.
  induction fuel as [|f IH]; intros x h eon a x' Hg Hrun.
  - simpl in Hrun. injection Hrun as <-. apply ev_refl.
  - simpl in Hrun. destruct (phase_ltb _ _); [|injection Hrun as <-; apply ev_refl].
    destruct (p_phase (a_pure a)).
    + destruct (start1 x eon a) as [[x1 a1]| |] eqn:Hs; simpl in Hrun; try discriminate.
      destruct (start1_evolves _ _ _ _ _ Hg Hs) as [He Hg1]. eapply ev_trans; [exact He|]. eapply IH; eassumption.
    + destruct (start2 x eon a) as [[x1 a1]| |] eqn:Hs; simpl in Hrun; try discriminate.
      destruct (start2_evolves _ _ _ _ _ Hg Hs) as [He Hg1]. eapply ev_trans; [exact He|]. eapply IH; eassumption.
    + destruct (start3 x eon a) as [[x1 a1]| |] eqn:Hs; simpl in Hrun; try discriminate.
      destruct (start3_evolves _ _ _ _ _ Hg Hs) as [He Hg1]. eapply ev_trans; [exact He|]. eapply IH; eassumption.
    + destruct (finalize_dkg x eon a) as [[x1 a1]| |] eqn:Hs; simpl in Hrun; try discriminate.
      destruct (finalize_evolves _ _ _ _ _ Hs) as [He Hp]. eapply ev_trans; [exact He|].
      (* the entry is finalised: the loop stops *)
      destruct f as [|f']; simpl in Hrun.
      * injection Hrun as <-. apply ev_refl.
      * rewrite Hp in Hrun. replace (phase_ltb Finalized _) with false in Hrun.
        -- injection Hrun as <-. apply ev_refl.
        -- symmetry. apply phase_ltb_false. destruct (phase_at _ _ _); simpl; lia.
    + discriminate.
Qed.

Lemma shift_all_evolves h l : forall x x', shift_all x h l = TOk x' -> evolves x x'.
Proof.
  induction l as [|[eon a0] r IH]; simpl; intros x x' Hrun.
  - injection Hrun as <-. apply ev_refl.
  - destruct (nget (sm_dkg (snd x)) eon) as [a|] eqn:Hg; [|apply IH; exact Hrun].
    unfold shift_phase in Hrun.
    destruct (shift_loop 5 x h eon a) as [x1| |] eqn:Hs; simpl in Hrun; try discriminate.
    eapply ev_trans; [eapply shift_loop_evolves; eassumption|]. apply IH. exact Hrun.
Qed.

Lemma handle_event_evolves x h ev x' : handle_event x h ev = TOk x' -> evolves x x'.
Proof.
  destruct x as [d s]. destruct ev; simpl.
  - (* check-in *)
    intros [= <-]. destruct (existsb _ _); [apply ev_refl|apply ev_one; apply pr_keys].
  - (* batch config *)
    unfold handle_batch_config. destruct (is_member keypers me) eqn:Hm.
    + destruct (nget (db_cfgs C E P (schedule C E P d None MCheckIn)) idx) eqn:Hn; [discriminate|].
      intros [= <-].
      eapply ev_step; [apply pr_iskeyper|]. eapply ev_step; [apply (pr_sched d _ None MCheckIn)|].
      eapply ev_step; [eapply pr_cfg_add; [reflexivity|exact Hn]|]. apply ev_one. apply pr_filter.
    + destruct (nget (db_cfgs C E P d) idx) eqn:Hn; [discriminate|]. intros [= <-].
      eapply ev_step; [eapply pr_cfg_add; [reflexivity|exact Hn]|]. apply ev_one. apply pr_filter.
  - (* batch config started *)
    destruct (nget (db_cfgs C E P d) idx) as [c|] eqn:Hn; intros [= <-]; [|apply ev_refl].
    apply ev_one. eapply pr_cfg_started; [reflexivity|exact Hn].
  - (* eon started *)
    destruct (9223372036854775807 <? Z.of_N act); [discriminate|].
    destruct (nget (db_eons C E P d) eon) eqn:Hn; [discriminate|].
    set (d1 := upd_db_eons C E P d (db_eons C E P d ++ [(eon, mkEon h act idx)])).
    assert (H1 : evolves (d, s) (d1, s)) by (apply ev_one; eapply pr_eon_add; [reflexivity|exact Hn]).
    destruct (negb (sm_iskeyper s)) eqn:Hk; [intros [= <-]; exact H1|].
    destruct (nget (db_cfgs C E P d) idx) as [c|] eqn:Hc; [|discriminate].
    destruct (find_index (cf_keypers c) me 0) as [ki|]; [|intros [= <-]; exact H1].
    destruct (phase_eqb _ Off); [discriminate|].
    set (a := mkActive (new_pure eon (length (cf_keypers c)) (cf_threshold c) ki) h true (cf_keypers c)).
    intros Hrun. eapply ev_trans; [exact H1|].
    eapply ev_step.
    + apply (pr_create d1 s eon (mkEon h act idx) c a); try reflexivity.
      * unfold d1. simpl. rewrite (nget_app_none _ _ _ _ Hn), N.eqb_refl. reflexivity.
      * simpl. exact Hc.
      * apply negb_false_iff in Hk. exact Hk.
    + eapply shift_loop_evolves; [|exact Hrun]. simpl. apply nget_nins_same.
  - (* commitment *)
    destruct (nget (sm_dkg s) eon) as [a|] eqn:Hg; [|intros [= <-]; apply ev_refl].
    destruct (find_index _ _ _); [|intros [= <-]; apply ev_refl].
    destruct (handle_commit _ _ _ _ _ _ _ _); intros [= <-]; try apply ev_refl.
    apply ev_one. apply pr_update. exact Hg.
  - (* evaluation *)
    destruct (bytes_eqb sender me); [intros [= <-]; apply ev_refl|].
    destruct (nget (sm_dkg s) eon) as [a|] eqn:Hg; [|intros [= <-]; apply ev_refl].
    destruct (find_index (a_keypers a) sender 0); [|intros [= <-]; apply ev_refl].
    destruct (find_index (a_keypers a) me 0); [|discriminate].
    destruct (find_index receivers me 0); [|intros [= <-]; apply ev_refl].
    destruct (nth_error vals _) as [[v|]|]; try discriminate; [|intros [= <-]; apply ev_refl].
    destruct (handle_eval _ _ _ _ _ _ _ _ _); intros [= <-]; try apply ev_refl.
    apply ev_one. apply pr_update. exact Hg.
  - (* accusation *)
    destruct (nget (sm_dkg s) eon) as [a|] eqn:Hg; [|intros [= <-]; apply ev_refl].
    destruct (negb _); [intros [= <-]; apply ev_refl|].
    destruct (find_index _ _ _); intros [= <-]; [|apply ev_refl].
    apply ev_one. apply pr_update. exact Hg.
  - (* apology *)
    destruct (nget (sm_dkg s) eon) as [a|] eqn:Hg; [|intros [= <-]; apply ev_refl].
    destruct (negb _); [intros [= <-]; apply ev_refl|].
    destruct (find_index _ _ _); [|intros [= <-]; apply ev_refl].
    destruct (apologise_all _ _ _ _ _ _ _ _ _ _); [|discriminate]. intros [= <-].
    apply ev_one. apply pr_update. exact Hg.
Qed.

Lemma handle_events_evolves es : forall x h x', handle_events x h es = TOk x' -> evolves x x'.
Proof.
  induction es as [|ev r IH]; simpl; intros x h x' Hrun.
  - injection Hrun as <-. apply ev_refl.
  - destruct (handle_event x h ev) as [x1| |] eqn:H1; simpl in Hrun; try discriminate.
    eapply ev_trans; [eapply handle_event_evolves; exact H1|]. eapply IH. exact Hrun.
Qed.

Lemma fold_evolves {A} (g : db -> A -> db) (s : sm) l :
  (forall acc x, evolves (acc, s) (g acc x, s)) -> forall d, evolves (d, s) (fold_left g l d, s).
Proof.
  intros Hg. induction l as [|x r IH]; simpl; intros d; [apply ev_refl|].
  eapply ev_trans; [apply Hg|]. apply IH.
Qed.

Lemma send_poly_evals_evolves (d : db) (s : sm) : evolves (d, s) (send_poly_evals C E P d, s).
Proof.
  unfold send_poly_evals. cbv zeta.
  match goal with |- evolves _ (upd_db_evals _ _ _ (fold_left ?g ?l ?d0) _, _) =>
    apply (ev_trans _ (fold_left g l d0, s));
      [apply fold_evolves; intros acc x; apply ev_one; apply pr_sched|apply ev_one; apply pr_evals]
  end.
Qed.

End Evolve.
