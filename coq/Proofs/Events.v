(* Event-level proofs for C14: schema agreement (on the generated tables), round trip of every
   event, totality of MakeEvent, stability of decoded values, makeEvents. *)
From Coq Require Import String Ascii List NArith ZArith Bool Lia.
From Verif Require Import Lib.Bytes Generated.EventSchema Model.Events Proofs.EventsCodec.
Import ListNotations.
Open Scope N_scope.

(* ------------------------------------------------------------------------------------ *)
(* what it means for makeXxx to read what MakeABCIEvent wrote *)

(* the decoder of a codec (fmt.Sprintf("%d") is read back by decodeUint64) *)
Definition dec_codec_of (c : codec) : codec :=
  match c with
  | CSprintfD => CUint64
  | c => c
  end.

(* attribute i is read from position i with the matching decoder into the same field *)
Fixpoint mirror_reads (i : nat) (eas : list enc_attr) : list dec_read :=
  match eas with
  | [] => []
  | ea :: r =>
      mk_dec_read i (dec_codec_of (ea_codec ea)) (ea_field ea) (ea_via ea) :: mirror_reads (S i) r
  end.

Definition mirrors (e : enc_schema) (d : dec_schema) : Prop :=
  de_struct d = en_struct e /\
  de_names d = map ea_key (en_attrs e) /\
  de_reads d = mirror_reads 0 (en_attrs e) /\
  de_height d = true.

Lemma schema_agreement :
  Forall (fun e => exists d, find_decoder (bs (en_type e)) = Some d /\ mirrors e d) encoders /\
  length encoders = 8%nat /\ length decoders = 8%nat /\
  expect_attributes_length_guard = true.
Proof.
  split; [|repeat split].
  repeat constructor; (eexists; split; [vm_compute; reflexivity|repeat split]).
Qed.

(* static facts about the generated decoder table used for totality *)
Inductive shape := SUint | SAddr | SAddrs | SBytesList | SBigInts | SGammas | SKey.

Definition shape_eqb (a b : shape) : bool :=
  match a, b with
  | SUint, SUint | SAddr, SAddr | SAddrs, SAddrs | SBytesList, SBytesList
  | SBigInts, SBigInts | SGammas, SGammas | SKey, SKey => true
  | _, _ => false
  end.

Lemma shape_eqb_eq a b : shape_eqb a b = true -> a = b.
Proof. destruct a, b; simpl; congruence. Qed.

Definition shape_of (c : codec) (v : via) : option shape :=
  match c, v with
  | CUint64, VDirect => Some SUint
  | CAddress, VDirect => Some SAddr
  | CAddresses, VDirect => Some SAddrs
  | CByteSequence, VDirect => Some SBytesList
  | CByteSequence, VBigIntBytes => Some SBigInts
  | CGammas, VDirect => Some SGammas
  | CECIESPublicKey, VDirect => Some SKey
  | _, _ => None
  end.

Definition ok_opt (name : string) (s : shape) (sh : list (string * shape)) : bool :=
  match lookup name sh with
  | None => true
  | Some s' => shape_eqb s s'
  end.
Definition ok_req (name : string) (s : shape) (sh : list (string * shape)) : bool :=
  match lookup name sh with
  | None => false
  | Some s' => shape_eqb s s'
  end.

(* of_fields on shapes: does the result literal of makeXxx type-check and set the pointers *)
Definition of_fields_ok (st : string) (sh : list (string * shape)) : bool :=
  (if String.eqb st "CheckIn" then ok_opt "Sender" SAddr sh && ok_req "EncryptionPublicKey" SKey sh
   else if String.eqb st "BatchConfig" then
     ok_opt "Keypers" SAddrs sh && ok_opt "ActivationBlockNumber" SUint sh && ok_opt "Threshold" SUint sh
     && ok_opt "KeyperConfigIndex" SUint sh
   else if String.eqb st "BatchConfigStarted" then ok_opt "KeyperConfigIndex" SUint sh
   else if String.eqb st "EonStarted" then
     ok_opt "Eon" SUint sh && ok_opt "ActivationBlockNumber" SUint sh && ok_opt "KeyperConfigIndex" SUint sh
   else if String.eqb st "PolyCommitment" then
     ok_opt "Eon" SUint sh && ok_opt "Sender" SAddr sh && ok_req "Gammas" SGammas sh
   else if String.eqb st "PolyEval" then
     ok_opt "Sender" SAddr sh && ok_opt "Eon" SUint sh && ok_opt "Receivers" SAddrs sh
     && ok_opt "EncryptedEvals" SBytesList sh
   else if String.eqb st "Accusation" then
     ok_opt "Eon" SUint sh && ok_opt "Sender" SAddr sh && ok_opt "Accused" SAddrs sh
   else if String.eqb st "Apology" then
     ok_opt "Eon" SUint sh && ok_opt "Sender" SAddr sh && ok_opt "Accusers" SAddrs sh
     && ok_opt "PolyEval" SBigInts sh
   else false)%string.

Definition read_shape (r : dec_read) : option (string * shape) :=
  option_map (pair (dr_field r)) (shape_of (dr_codec r) (dr_via r)).

Definition dec_ok (d : dec_schema) : bool :=
  forallb (fun r => Nat.ltb (dr_pos r) (length (de_names d))) (de_reads d) &&
  match map_opt read_shape (de_reads d) with
  | Some sh => of_fields_ok (de_struct d) sh
  | None => false
  end &&
  de_height d.

Lemma decoders_ok : forallb dec_ok decoders = true.
Proof. vm_compute. reflexivity. Qed.

Lemma lookup_In {V : Type} name (fs : list (string * V)) v :
  lookup name fs = Some v -> In (name, v) fs.
Proof.
  unfold lookup. destruct (find _ fs) as [[n x]|] eqn:E; [|discriminate].
  simpl. intros H. injection H as ->. apply find_some in E as [Hin He].
  simpl in He. apply String.eqb_eq in He. subst. exact Hin.
Qed.

Lemma lookup_map_snd {V W : Type} (f : V -> W) name (fs : list (string * V)) :
  lookup name (map (fun p => (fst p, f (snd p))) fs) = option_map f (lookup name fs).
Proof.
  unfold lookup. induction fs as [|[n x] fs IH]; [reflexivity|]. simpl.
  destruct (String.eqb n name); [reflexivity|exact IH].
Qed.

Lemma map_opt_length {A B : Type} (f : A -> option B) l r :
  map_opt f l = Some r -> length r = length l.
Proof.
  revert r; induction l as [|x l IH]; intros r; simpl.
  - intros H. injection H as <-. reflexivity.
  - destruct (f x); [|discriminate]. destruct (map_opt f l); [|discriminate].
    intros H. injection H as <-. simpl. f_equal. apply IH. reflexivity.
Qed.

Section EventProofs.

Variable point : Type.
Variable key : Type.
Variable cs : bytes -> list bool.
Variable enc_pt : point -> bytes.
Variable dec_pt : bytes -> option point.
Variable enc_key : key -> bytes.
Variable dec_key : bytes -> option key.

Local Notation value := (value point key).
Local Notation event := (event point key).
Local Notation encode_value := (encode_value point key cs enc_pt enc_key).
Local Notation decode_value := (decode_value point key cs dec_pt dec_key).
Local Notation encode_attr := (encode_attr point key cs enc_pt enc_key).
Local Notation make_abci_event := (make_abci_event point key cs enc_pt enc_key).
Local Notation decode_reads := (decode_reads point key cs dec_pt dec_key).
Local Notation decode_with := (decode_with point key cs dec_pt dec_key).
Local Notation make_event := (make_event point key cs dec_pt dec_key).
Local Notation make_events := (make_events point key cs dec_pt dec_key).
Local Notation to_fields := (to_fields point key).
Local Notation of_fields := (of_fields point key).
Local Notation ev_struct := (ev_struct point key).
Local Notation encode_with := (encode_with point key cs enc_pt enc_key).

Definition wf_value (x : value) : Prop :=
  match x with
  | VUint _ _ n => n <= u64_max
  | VAddr _ _ a => addr_ok a
  | VAddrs _ _ l => Forall addr_ok l
  | VBytesList _ _ l => Forall bytes_ok l
  | VBigInts _ _ _ => True
  | VGammas _ _ _ => True
  | VKey _ _ _ => True
  end.

Definition wf_fields (fs : list (string * value)) : Prop := Forall (fun p => wf_value (snd p)) fs.

(* the fields that are not serialised have the value the application emits *)
Definition unserialised_default (e : event) : Prop :=
  match e with
  | EvBatchConfig _ _ _ _ _ _ _ started vu => started = false /\ vu = false
  | _ => True
  end.

(* integers fit uint64, addresses are 20 bytes, bytes are < 256 *)
Definition wf_event (e : event) : Prop := wf_fields (to_fields e) /\ unserialised_default e.

Definition set_height (e : event) (h : Z) : event :=
  match e with
  | EvCheckIn _ _ _ s k => EvCheckIn _ _ h s k
  | EvBatchConfig _ _ _ ks a t i st vu => EvBatchConfig _ _ h ks a t i st vu
  | EvBatchConfigStarted _ _ _ i => EvBatchConfigStarted _ _ h i
  | EvEonStarted _ _ _ e a i => EvEonStarted _ _ h e a i
  | EvPolyCommitment _ _ _ e s g => EvPolyCommitment _ _ h e s g
  | EvPolyEval _ _ _ s e rs evs => EvPolyEval _ _ h s e rs evs
  | EvAccusation _ _ _ e s acc => EvAccusation _ _ h e s acc
  | EvApology _ _ _ e s acc pe => EvApology _ _ h e s acc pe
  end.

Definition shape_of_value (x : value) : shape :=
  match x with
  | VUint _ _ _ => SUint
  | VAddr _ _ _ => SAddr
  | VAddrs _ _ _ => SAddrs
  | VBytesList _ _ _ => SBytesList
  | VBigInts _ _ _ => SBigInts
  | VGammas _ _ _ => SGammas
  | VKey _ _ _ => SKey
  end.

Definition field_shapes (fs : list (string * value)) : list (string * shape) :=
  map (fun p => (fst p, shape_of_value (snd p))) fs.

(* ---------------------------------------------------------------------------------- *)
(* decode_value: shapes, well-formedness of what it returns; independent of the codec laws *)

Lemma decode_value_cases c v s :
  match shape_of c v with
  | Some sh => (exists x, decode_value c v s = Ok x /\ shape_of_value x = sh)
               \/ decode_value c v s = Error (EDecode c)
  | None => True
  end.
Proof.
  destruct c, v; simpl; try exact I; unfold lift_dec;
    match goal with |- context [option_map _ ?o] => destruct o end; simpl; eauto.
Qed.

Lemma decode_addresses_ok s l : decode_addresses s = Some l -> Forall addr_ok l.
Proof.
  unfold decode_addresses. destruct s as [|c r].
  - intros H. injection H as <-. constructor.
  - intros H. apply map_opt_Forall2 in H. induction H as [|p a ps l Hp _ IH]; constructor; [|exact IH].
    destruct (is_hex_address p); [|discriminate]. injection Hp as <-. apply hex_to_address_ok.
Qed.

Lemma hexutil_decode_ok s b : hexutil_decode s = Some b -> bytes_ok b.
Proof.
  unfold hexutil_decode. destruct s; [discriminate|]. destruct (has0x _); [|discriminate].
  unfold hex_decode_strict. pose proof (hex_decode_ok (skipn 2 (n :: s))) as H.
  destruct (hex_decode _) as [t ok]. destruct ok; [|discriminate]. intros E. injection E as <-. exact H.
Qed.

Lemma decode_byteseq_ok s l : decode_byteseq s = Some l -> Forall bytes_ok l.
Proof.
  unfold decode_byteseq. destruct s as [|c r].
  - intros H. injection H as <-. constructor.
  - intros H. apply map_opt_Forall2 in H. induction H as [|p a ps l Hp _ IH]; constructor; [|exact IH].
    eapply hexutil_decode_ok; eauto.
Qed.

Lemma decode_value_wf c v s x : decode_value c v s = Ok x -> wf_value x.
Proof.
  destruct c, v; simpl; try discriminate; unfold lift_dec.
  - destruct (parse_uint s) as [n|] eqn:E; simpl; [|discriminate]. intros H. injection H as <-.
    apply parse_uint_spec in E. simpl. tauto.
  - destruct (decode_address cs s) as [a|] eqn:E; simpl; [|discriminate]. intros H. injection H as <-.
    apply decode_address_spec in E. simpl. tauto.
  - destruct (decode_addresses s) as [l|] eqn:E; simpl; [|discriminate]. intros H. injection H as <-.
    simpl. eapply decode_addresses_ok; eauto.
  - destruct (decode_byteseq s) as [l|] eqn:E; simpl; [|discriminate]. intros H. injection H as <-.
    simpl. eapply decode_byteseq_ok; eauto.
  - destruct (decode_byteseq s) as [l|] eqn:E; simpl; [|discriminate]. intros H. injection H as <-.
    exact I.
  - destruct (decode_gammas point dec_pt s); simpl; [|discriminate]. intros H. injection H as <-. exact I.
  - destruct (decode_key key dec_key s); simpl; [|discriminate]. intros H. injection H as <-. exact I.
Qed.

(* ---------------------------------------------------------------------------------- *)
(* of_fields *)

Lemma lookup_shapes name (fs : list (string * value)) :
  lookup name (field_shapes fs) = option_map shape_of_value (lookup name fs).
Proof. apply lookup_map_snd. Qed.

Ltac getter_ok :=
  intros H; unfold ok_opt, ok_req in H; rewrite lookup_shapes in H;
  match goal with |- context [lookup ?n ?fs] => destruct (lookup n fs) as [[]|] end;
  simpl in H; try discriminate; eauto.

Lemma get_uint_ok fs name : ok_opt name SUint (field_shapes fs) = true ->
  exists x, get_uint point key fs name = Some x.
Proof. unfold get_uint. getter_ok. Qed.
Lemma get_addr_ok fs name : ok_opt name SAddr (field_shapes fs) = true ->
  exists x, get_addr point key fs name = Some x.
Proof. unfold get_addr. getter_ok. Qed.
Lemma get_addrs_ok fs name : ok_opt name SAddrs (field_shapes fs) = true ->
  exists x, get_addrs point key fs name = Some x.
Proof. unfold get_addrs. getter_ok. Qed.
Lemma get_byteslist_ok fs name : ok_opt name SBytesList (field_shapes fs) = true ->
  exists x, get_byteslist point key fs name = Some x.
Proof. unfold get_byteslist. getter_ok. Qed.
Lemma get_bigints_ok fs name : ok_opt name SBigInts (field_shapes fs) = true ->
  exists x, get_bigints point key fs name = Some x.
Proof. unfold get_bigints. getter_ok. Qed.
Lemma get_gammas_ok fs name : ok_req name SGammas (field_shapes fs) = true ->
  exists x, get_gammas point key fs name = Some x.
Proof. unfold get_gammas. getter_ok. Qed.
Lemma get_key_ok fs name : ok_req name SKey (field_shapes fs) = true ->
  exists x, get_key point key fs name = Some x.
Proof. unfold get_key. getter_ok. Qed.

Ltac use_getters :=
  repeat match goal with
         | H : (_ && _)%bool = true |- _ => apply andb_true_iff in H; destruct H
         end;
  repeat match goal with
         | H : ok_opt _ SUint _ = true |- _ => apply get_uint_ok in H; destruct H as [? H]; rewrite H
         | H : ok_opt _ SAddr _ = true |- _ => apply get_addr_ok in H; destruct H as [? H]; rewrite H
         | H : ok_opt _ SAddrs _ = true |- _ => apply get_addrs_ok in H; destruct H as [? H]; rewrite H
         | H : ok_opt _ SBytesList _ = true |- _ => apply get_byteslist_ok in H; destruct H as [? H]; rewrite H
         | H : ok_opt _ SBigInts _ = true |- _ => apply get_bigints_ok in H; destruct H as [? H]; rewrite H
         | H : ok_req _ SGammas _ = true |- _ => apply get_gammas_ok in H; destruct H as [? H]; rewrite H
         | H : ok_req _ SKey _ = true |- _ => apply get_key_ok in H; destruct H as [? H]; rewrite H
         end.

Lemma of_fields_total st h fs :
  of_fields_ok st (field_shapes fs) = true -> exists e, of_fields st h fs = Some e.
Proof.
  unfold of_fields_ok, of_fields.
  repeat match goal with
         | |- context [String.eqb st ?n] => destruct (String.eqb st n)
         end; intros H; try discriminate; use_getters; eauto.
Qed.

(* what of_fields builds has the given height, the default unserialised fields, and fields
   that are either defaults or taken from fs *)
Lemma wf_default_addr : addr_ok (repeat 0 20).
Proof. split; [reflexivity|]. repeat constructor. Qed.

Ltac getter_wf :=
  intros Hfs H;
  let E := fresh "E" in
  match type of H with context [lookup ?n ?fs] => destruct (lookup n fs) as [[]|] eqn:E end;
  try discriminate; injection H as <-;
  try (apply lookup_In in E; eapply Forall_forall in Hfs; [|exact E]; exact Hfs);
  simpl; auto.

Lemma get_uint_wf fs name x : wf_fields fs -> get_uint point key fs name = Some x -> wf_value (VUint _ _ x).
Proof. unfold get_uint. getter_wf. unfold u64_max. lia. Qed.
Lemma get_addr_wf fs name x : wf_fields fs -> get_addr point key fs name = Some x -> wf_value (VAddr _ _ x).
Proof. unfold get_addr. getter_wf. apply wf_default_addr. Qed.
Lemma get_addrs_wf fs name x : wf_fields fs -> get_addrs point key fs name = Some x -> wf_value (VAddrs _ _ x).
Proof. unfold get_addrs. getter_wf. Qed.
Lemma get_byteslist_wf fs name x : wf_fields fs -> get_byteslist point key fs name = Some x -> wf_value (VBytesList _ _ x).
Proof. unfold get_byteslist. getter_wf. Qed.

Lemma of_fields_wf st h fs e : wf_fields fs -> of_fields st h fs = Some e ->
  wf_event e /\ set_height e h = e.
Proof.
  intros Hfs. unfold of_fields.
  repeat match goal with
         | |- context [String.eqb st ?n] => destruct (String.eqb st n)
         end; try discriminate;
  repeat match goal with
         | |- context [get_uint point key fs ?n] =>
             let E := fresh "E" in destruct (get_uint point key fs n) eqn:E; [apply (get_uint_wf _ _ _ Hfs) in E|]
         | |- context [get_addr point key fs ?n] =>
             let E := fresh "E" in destruct (get_addr point key fs n) eqn:E; [apply (get_addr_wf _ _ _ Hfs) in E|]
         | |- context [get_addrs point key fs ?n] =>
             let E := fresh "E" in destruct (get_addrs point key fs n) eqn:E; [apply (get_addrs_wf _ _ _ Hfs) in E|]
         | |- context [get_byteslist point key fs ?n] =>
             let E := fresh "E" in destruct (get_byteslist point key fs n) eqn:E; [apply (get_byteslist_wf _ _ _ Hfs) in E|]
         | |- context [get_bigints point key fs ?n] => destruct (get_bigints point key fs n)
         | |- context [get_gammas point key fs ?n] => destruct (get_gammas point key fs n)
         | |- context [get_key point key fs ?n] => destruct (get_key point key fs n)
         end; try discriminate;
  intros H; injection H as <-;
  (split; [split; [unfold wf_fields; cbn [Events.to_fields];
                   repeat (apply Forall_cons; [cbn [snd]; first [assumption|exact I]|]); apply Forall_nil
                  |simpl; auto]
          |reflexivity]).
Qed.

(* ---------------------------------------------------------------------------------- *)
(* expectAttributes and the positional reads never go out of range *)

Lemma expect_names_total attrs names : forall i, (i + length names <= length attrs)%nat ->
  expect_names attrs i names = Ok tt \/ exists e, expect_names attrs i names = Error e.
Proof.
  induction names as [|n r IH]; intros i Hi; simpl; [left; reflexivity|].
  destruct (nth_error attrs i) as [a|] eqn:E.
  - destruct (bytes_eqb (a_key a) (bs n)); [|right; eauto]. apply IH. simpl in Hi. lia.
  - apply nth_error_None in E. simpl in Hi. lia.
Qed.

Lemma expect_attributes_total attrs names :
  (expect_attributes attrs names = Ok tt /\ (length names <= length attrs)%nat)
  \/ exists e, expect_attributes attrs names = Error e.
Proof.
  unfold expect_attributes. destruct schema_agreement as (_ & _ & _ & ->). cbn [andb].
  destruct (Nat.ltb_spec (length attrs) (length names)) as [H|H]; [right; eauto|].
  destruct (expect_names_total attrs names 0) as [E|E]; [simpl; lia|left; auto|right; exact E].
Qed.

Lemma decode_reads_total attrs : forall reads acc sh,
  Forall (fun r => (dr_pos r < length attrs)%nat) reads ->
  map_opt read_shape reads = Some sh ->
  (exists fs, decode_reads attrs reads acc = Ok (acc ++ fs) /\ field_shapes fs = sh /\
              Forall (fun p => wf_value (snd p)) fs)
  \/ exists e, decode_reads attrs reads acc = Error e.
Proof.
  induction reads as [|r reads IH]; intros acc sh Hpos Hsh.
  - simpl in Hsh. injection Hsh as <-. left. exists []. rewrite app_nil_r. repeat split. constructor.
  - inversion Hpos as [|? ? Hr Hrest]; subst. cbn [map_opt] in Hsh.
    destruct (read_shape r) as [[f s]|] eqn:Er; [|discriminate].
    destruct (map_opt read_shape reads) as [sh'|] eqn:Es; [|discriminate]. injection Hsh as <-.
    cbn [Events.decode_reads].
    destruct (nth_error attrs (dr_pos r)) as [a|] eqn:En; [|apply nth_error_None in En; lia].
    unfold read_shape in Er.
    pose proof (decode_value_cases (dr_codec r) (dr_via r) (a_value a)) as Hc.
    destruct (shape_of (dr_codec r) (dr_via r)) as [s0|]; [|discriminate].
    simpl in Er. injection Er as <- <-.
    destruct Hc as [(x & Hx & Hsx)|Hx]; rewrite Hx; [|right; eauto].
    destruct (IH (acc ++ [(dr_field r, x)]) sh' Hrest eq_refl) as [(fs & Hfs & Hshape & Hwf)|[e He]].
    + left. exists ((dr_field r, x) :: fs). rewrite Hfs, <- app_assoc. repeat split.
      * simpl. rewrite Hsx, Hshape. reflexivity.
      * constructor; [simpl; eapply decode_value_wf; eauto|exact Hwf].
    + right. eauto.
Qed.

Lemma decode_with_total d attrs h : dec_ok d = true ->
  (exists x, decode_with d attrs h = Ok x /\ wf_event x /\ set_height x h = x)
  \/ exists e, decode_with d attrs h = Error e.
Proof.
  unfold dec_ok. intros H. apply andb_true_iff in H as [H Hh]. apply andb_true_iff in H as [Hpos Hsh].
  destruct (map_opt read_shape (de_reads d)) as [sh|] eqn:Es; [|discriminate].
  unfold Events.decode_with.
  destruct (expect_attributes_total attrs (de_names d)) as [[-> Hlen]|[e ->]]; [|right; eauto].
  assert (Hp : Forall (fun r => (dr_pos r < length attrs)%nat) (de_reads d)).
  { apply Forall_forall. intros r Hr. eapply forallb_forall in Hpos; [|exact Hr].
    apply Nat.ltb_lt in Hpos. lia. }
  destruct (decode_reads_total attrs (de_reads d) [] sh Hp Es) as [(fs & -> & Hshape & Hwf)|[e ->]];
    [|right; eauto].
  simpl app. rewrite Hh. subst sh.
  destruct (of_fields_total (de_struct d) h fs Hsh) as [x Hx]. rewrite Hx.
  left. exists x. split; [reflexivity|]. eapply of_fields_wf; eauto.
Qed.

Lemma find_decoder_ok t d : find_decoder t = Some d -> dec_ok d = true.
Proof.
  unfold find_decoder. intros H. apply find_some in H as [Hin _].
  pose proof decoders_ok as Hall. eapply forallb_forall in Hall; eauto.
Qed.

(* MakeEvent returns a value or an error on every input *)
Lemma make_event_total ev h :
  (exists x, make_event ev h = Ok x /\ wf_event x /\ set_height x h = x)
  \/ exists e, make_event ev h = Error e.
Proof.
  unfold Events.make_event. destruct (find_decoder (fst ev)) as [d|] eqn:E; [|right; eauto].
  apply decode_with_total. eapply find_decoder_ok; eauto.
Qed.

Lemma make_event_no_panic ev h : make_event ev h <> Panic /\ make_event ev h <> Unmodelled.
Proof.
  destruct (make_event_total ev h) as [(x & -> & _)|[e ->]]; split; discriminate.
Qed.

(* makeEvents keeps exactly the events that decode, in order *)
Definition decoded (h : Z) (ev : abci_event) : list event :=
  match make_event ev h with
  | Ok x => [x]
  | _ => []
  end.

Lemma make_events_spec h evs : make_events h evs = Ok (flat_map (decoded h) evs).
Proof.
  induction evs as [|ev r IH]; [reflexivity|]. cbn [Events.make_events flat_map]. unfold decoded at 1.
  destruct (make_event_total ev h) as [(x & -> & _)|[e ->]]; rewrite IH; reflexivity.
Qed.

(* ---------------------------------------------------------------------------------- *)
(* round trip, given the laws of the dependencies' codecs *)

Hypothesis pt_roundtrip : forall p, dec_pt (enc_pt p) = Some p.
Hypothesis pt_length : forall p, length (enc_pt p) = pt_len.
Hypothesis pt_bytes : forall p, bytes_ok (enc_pt p).
Hypothesis key_roundtrip : forall k, dec_key (enc_key k) = Some k.
Hypothesis key_bytes : forall k, bytes_ok (enc_key k).

Lemma value_roundtrip c v x s :
  encode_value c v x = Some s -> wf_value x -> decode_value (dec_codec_of c) v s = Ok x.
Proof.
  destruct c, v, x; simpl; try discriminate; intros H; injection H as <-; intros Hwf; unfold lift_dec.
  - rewrite uint_roundtrip by exact Hwf. reflexivity.
  - rewrite uint_roundtrip by exact Hwf. reflexivity.
  - rewrite address_roundtrip by exact Hwf. reflexivity.
  - rewrite addresses_roundtrip by exact Hwf. reflexivity.
  - rewrite byteseq_roundtrip by exact Hwf. reflexivity.
  - pose proof (bigints_roundtrip l) as Hb.
    destruct (decode_byteseq (encode_byteseq (map be_bytes l))) as [bl|]; [|discriminate].
    simpl in Hb |- *. injection Hb as Hb. rewrite Hb. reflexivity.
  - rewrite (gammas_roundtrip point enc_pt dec_pt pt_roundtrip pt_length pt_bytes). reflexivity.
  - rewrite (key_attr_roundtrip key enc_key dec_key key_roundtrip key_bytes). reflexivity.
Qed.

Definition enc_field (fs : list (string * value)) (ea : enc_attr) : option (string * value) :=
  option_map (pair (ea_field ea)) (lookup (ea_field ea) fs).

Lemma nth_error_middle {A} (pre : list A) a t : nth_error (pre ++ a :: t) (length pre) = Some a.
Proof. rewrite nth_error_app2 by lia. rewrite Nat.sub_diag. reflexivity. Qed.

Lemma expect_names_encoded fs : forall eas attrs pre,
  map_opt (encode_attr fs) eas = Some attrs ->
  expect_names (pre ++ attrs) (length pre) (map ea_key eas) = Ok tt.
Proof.
  induction eas as [|ea r IH]; intros attrs pre H; [reflexivity|].
  cbn [map_opt] in H. destruct (encode_attr fs ea) as [a|] eqn:Ea; [|discriminate].
  destruct (map_opt (encode_attr fs) r) as [t|] eqn:Et; [|discriminate]. injection H as <-.
  cbn [map expect_names]. rewrite nth_error_middle.
  assert (Hk : a_key a = bs (ea_key ea)).
  { unfold Events.encode_attr in Ea. destruct (lookup _ fs); [|discriminate].
    destruct (encode_value _ _ _); [|discriminate]. injection Ea as <-. reflexivity. }
  rewrite Hk, bytes_eqb_refl.
  replace (pre ++ a :: t) with ((pre ++ [a]) ++ t) by (rewrite <- app_assoc; reflexivity).
  replace (S (length pre)) with (length (pre ++ [a])) by (rewrite app_length; simpl; lia).
  apply IH. reflexivity.
Qed.

Lemma decode_reads_encoded fs : wf_fields fs -> forall eas attrs pre acc,
  map_opt (encode_attr fs) eas = Some attrs ->
  exists fl, map_opt (enc_field fs) eas = Some fl /\
             decode_reads (pre ++ attrs) (mirror_reads (length pre) eas) acc = Ok (acc ++ fl).
Proof.
  intros Hwf. induction eas as [|ea r IH]; intros attrs pre acc H.
  - exists []. rewrite app_nil_r. split; reflexivity.
  - cbn [map_opt] in H. destruct (encode_attr fs ea) as [a|] eqn:Ea; [|discriminate].
    destruct (map_opt (encode_attr fs) r) as [t|] eqn:Et; [|discriminate]. injection H as <-.
    unfold Events.encode_attr in Ea. cbn [map_opt]. unfold enc_field at 1.
    destruct (lookup (ea_field ea) fs) as [v|] eqn:El; [|discriminate].
    destruct (encode_value (ea_codec ea) (ea_via ea) v) as [s|] eqn:Es; [|discriminate].
    injection Ea as <-.
    assert (Hv : wf_value v).
    { apply lookup_In in El. eapply Forall_forall in Hwf; [|exact El]. exact Hwf. }
    specialize (IH t (pre ++ [mk_attr (bs (ea_key ea)) s (ea_index ea)]) (acc ++ [(ea_field ea, v)]) eq_refl).
    destruct IH as (fl & Hfl & Hdec).
    exists ((ea_field ea, v) :: fl). split.
    { unfold enc_field in Hfl |- *. simpl option_map. rewrite Hfl. reflexivity. }
    cbn [mirror_reads Events.decode_reads dr_pos dr_codec dr_via dr_field].
    rewrite nth_error_middle. cbn [a_value].
    rewrite (value_roundtrip _ _ _ _ Es Hv).
    rewrite app_length in Hdec. simpl length in Hdec. rewrite Nat.add_1_r in Hdec.
    rewrite <- app_assoc in Hdec. simpl app in Hdec. rewrite Hdec, <- app_assoc. reflexivity.
Qed.

Lemma decode_with_encoded e d fs attrs h :
  mirrors e d -> wf_fields fs ->
  map_opt (encode_attr fs) (en_attrs e) = Some attrs ->
  exists fl, map_opt (enc_field fs) (en_attrs e) = Some fl /\
    decode_with d attrs h =
    match of_fields (en_struct e) h fl with Some x => Ok x | None => Unmodelled end.
Proof.
  intros (Hst & Hnames & Hreads & Hh) Hwf Henc.
  destruct (decode_reads_encoded fs Hwf (en_attrs e) attrs [] [] Henc) as (fl & Hfl & Hdec).
  exists fl. split; [exact Hfl|].
  unfold Events.decode_with, expect_attributes. rewrite Hnames, map_length.
  rewrite (map_opt_length _ _ _ Henc), Nat.ltb_irrefl, andb_false_r.
  pose proof (expect_names_encoded fs (en_attrs e) attrs [] Henc) as Hn. simpl in Hn. rewrite Hn.
  rewrite Hreads. simpl in Hdec. rewrite Hdec, Hh, Hst. reflexivity.
Qed.

(* encoding succeeds when every attribute's field exists and has the type its codec takes *)
Definition enc_attr_ok (sh : list (string * shape)) (ea : enc_attr) : bool :=
  match lookup (ea_field ea) sh, shape_of (dec_codec_of (ea_codec ea)) (ea_via ea) with
  | Some s, Some s' => shape_eqb s s'
  | _, _ => false
  end.

Lemma encode_value_some c v x :
  shape_of (dec_codec_of c) v = Some (shape_of_value x) -> exists s, encode_value c v x = Some s.
Proof. destruct c, v, x; simpl; try discriminate; eauto. Qed.

Lemma encode_attrs_total fs eas :
  forallb (enc_attr_ok (field_shapes fs)) eas = true ->
  exists attrs, map_opt (encode_attr fs) eas = Some attrs.
Proof.
  induction eas as [|ea r IH]; intros H; [exists []; reflexivity|].
  cbn [forallb] in H. apply andb_true_iff in H as [Ha Hr]. destruct (IH Hr) as [t Ht].
  unfold enc_attr_ok in Ha. rewrite lookup_shapes in Ha.
  cbn [map_opt]. unfold Events.encode_attr at 1.
  destruct (lookup (ea_field ea) fs) as [x|]; [|discriminate]. simpl in Ha.
  destruct (shape_of (dec_codec_of (ea_codec ea)) (ea_via ea)) as [s'|] eqn:Es; [|discriminate].
  apply shape_eqb_eq in Ha. subst s'.
  destruct (encode_value_some _ _ _ Es) as [s Hs]. rewrite Hs, Ht. eauto.
Qed.

Lemma find_encoder_agrees st sc : find_encoder st = Some sc ->
  en_struct sc = st /\ exists d, find_decoder (bs (en_type sc)) = Some d /\ mirrors sc d.
Proof.
  unfold find_encoder. intros H. apply find_some in H as [Hin He]. apply String.eqb_eq in He.
  split; [exact He|]. destruct schema_agreement as (Hall & _).
  eapply Forall_forall in Hall; eauto.
Qed.

Theorem event_roundtrip (e : event) h : wf_event e ->
  exists a, make_abci_event e = Ok a /\ make_event a h = Ok (set_height e h).
Proof.
  intros [Hwf Hdef]. unfold Events.make_abci_event.
  destruct (find_encoder (ev_struct e)) as [sc|] eqn:Hsc; [|destruct e; vm_compute in Hsc; discriminate].
  destruct (find_encoder_agrees _ _ Hsc) as (Hst & d & Hd & Hm).
  unfold encode_with.
  destruct (map_opt (encode_attr (to_fields e)) (en_attrs sc)) as [attrs|] eqn:Henc.
  - eexists. split; [reflexivity|]. unfold Events.make_event. cbn [fst snd]. rewrite Hd.
    destruct (decode_with_encoded sc d (to_fields e) attrs h Hm Hwf Henc) as (fl & Hfl & ->).
    rewrite Hst. clear - Hfl Hsc Hdef.
    destruct e; vm_compute in Hsc; injection Hsc as <-; vm_compute in Hfl; injection Hfl as <-;
      try reflexivity.
    destruct Hdef as [-> ->]. reflexivity.
  - exfalso. clear - Henc Hsc.
    destruct (encode_attrs_total (to_fields e) (en_attrs sc)) as [attrs Ha]; [|congruence].
    clear Henc. destruct e; vm_compute in Hsc; injection Hsc as <-; vm_compute; reflexivity.
Qed.

(* what MakeEvent returns is stable: written again and read again it is the same value *)
Theorem decoded_is_stable ev h x : make_event ev h = Ok x ->
  wf_event x /\ set_height x h = x /\
  exists a, make_abci_event x = Ok a /\ make_event a h = Ok x.
Proof.
  intros H. destruct (make_event_total ev h) as [(x' & Hx & Hwf & Hh)|[e He]]; [|congruence].
  assert (x' = x) by congruence. subst x'. split; [exact Hwf|]. split; [exact Hh|].
  destruct (event_roundtrip x h Hwf) as (a & Ha & Hb). exists a. split; [exact Ha|].
  rewrite Hh in Hb. exact Hb.
Qed.

End EventProofs.
