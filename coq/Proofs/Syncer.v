(* Proofs about the syncer model (C15): every database transition of a Sync pairs the status
   with the events of the range it covers; in every reachable state whose position lies on
   the canonical chain the table is exactly the canonical chain's admissible events. *)
From Coq Require Import List NArith ZArith Bool Lia.
From Verif Require Import Lib.Bytes Model.Syncer Proofs.SyncerRanges Proofs.SyncerLemmas.
Import ListNotations.
Open Scope Z_scope.

Lemma last_cons {A} (x : A) l d : last (x :: l) d = last l x.
Proof. revert x d. induction l as [|y l IH]; intros x d; [reflexivity|]. change (last (x :: y :: l) d) with (last (y :: l) d). rewrite !IH. reflexivity. Qed.

Lemma last_app_default {A} (a b : list A) d : last (a ++ b) d = last b (last a d).
Proof.
  revert d. induction a as [|x a IH]; intros d; [reflexivity|].
  rewrite <- app_comm_cons. rewrite !last_cons. apply IH.
Qed.

Section Proofs.
  Variable E : Type.
  Variable K : Type.
  Variable key : E -> K.
  Variable key_eqb : K -> K -> bool.
  Variable admissible : E -> bool.
  Variable merge : pev E -> pev E -> pev E.
  Hypothesis key_eqb_spec : forall a b, key_eqb a b = true <-> a = b.

  Notation view := (view E).
  Notation state := (state E).
  Notation kf := (fun p : pev E => key (pe_ev p)).
  Notation rows_of := (rows_of admissible).
  Notation upsert := (upsert key key_eqb merge).
  Notation commit_range := (commit_range key key_eqb admissible merge).
  Notation range_loop := (range_loop key key_eqb admissible merge).
  Notation sync := (sync key key_eqb admissible merge).
  Notation justified := (justified key key_eqb admissible merge).
  Notation chain_justified := (chain_justified key key_eqb admissible merge).
  Notation gstep := (gstep key key_eqb admissible merge).
  Notation grun := (grun key key_eqb admissible merge).
  Notation heads_ok := (heads_ok key key_eqb admissible merge).
  Notation view_ok := (view_ok key admissible).
  Notation universe_ok := (universe_ok key admissible).

  (* ------------------------------------------------------------------------------------- *)
  (* C15_atomic_pair *)

  Fixpoint ranges_contig (s : Z) (rs : list (Z * Z)) : Prop :=
    match rs with [] => True | (a, b) :: rest => a = s /\ s <= b /\ ranges_contig (b + 1) rest end.

  Lemma ranges_cover_contig s e r rs : ranges_cover s e r rs -> ranges_contig s rs.
  Proof.
    revert s. induction rs as [|[a b] rest IH]; intros s; simpl; [trivial|].
    intros (Ha & Hsb & _ & _ & _ & _ & Hrest). split; [exact Ha|]. split; [exact Hsb|].
    destruct rest as [|p rest']; [exact I|]. apply IH. exact Hrest.
  Qed.

  Lemma range_loop_justified fl (nd : node E) : forall rs s st rpc db,
    ranges_contig s rs -> (fl_swallow fl = false -> next_start fl st = s) ->
    (fl_unclamped fl = false -> fl_first_start fl <= s) ->
    chain_justified fl nd st (snd (range_loop fl nd st rs rpc db)) /\
    fst (fst (range_loop fl nd st rs rpc db)) = last (snd (range_loop fl nd st rs rpc db)) st.
  Proof.
    induction rs as [|[a b] rest IH]; intros s st rpc db Hc Hs Hfs; simpl; [split; [exact I|reflexivity]|].
    destruct Hc as (-> & Hsb & Hc).
    destruct (pop rpc) as [fa rpc1]. destruct (is_fail fa); [simpl; split; [exact I|reflexivity]|].
    destruct (pop rpc1) as [fb rpc2]. destruct (is_fail fb); [simpl; split; [exact I|reflexivity]|].
    destruct (n_hash nd b) as [h|] eqn:Hh; [|simpl; split; [exact I|reflexivity]].
    destruct (pop db) as [fc db1].
    assert (Hj : justified fl nd st (commit_range nd st s b h)).
    { left. exists s, b, h. split; [exact Hh|]. split; [reflexivity|]. intros Hf. symmetry. apply Hs. exact Hf. }
    assert (Hnext : fl_swallow fl = false -> next_start fl (commit_range nd st s b h) = b + 1).
    { intros _. unfold next_start, start_after, Syncer.commit_range. cbn [st_status].
      destruct (fl_unclamped fl) eqn:Hu; [reflexivity|]. specialize (Hfs eq_refl). lia. }
    assert (Hfs' : fl_unclamped fl = false -> fl_first_start fl <= b + 1) by (intros Hu; specialize (Hfs Hu); lia).
    destruct fc.
    - specialize (IH (b + 1) (commit_range nd st s b h) rpc2 db1 Hc Hnext Hfs').
      destruct (range_loop fl nd (commit_range nd st s b h) rest rpc2 db1) as [[st2 r] tr]. simpl in *.
      destruct IH as [IH1 IH2]. split; [split; assumption|].
      change (st2 = last (commit_range nd st s b h :: tr) st). rewrite last_cons. exact IH2.
    - destruct (fl_swallow fl) eqn:Hsw; [|simpl; split; [exact I|reflexivity]].
      apply (IH (b + 1)); [exact Hc|intros; discriminate|exact Hfs'].
    - destruct (fl_swallow fl) eqn:Hsw.
      + specialize (IH (b + 1) (commit_range nd st s b h) rpc2 db1 Hc ltac:(intros; discriminate) Hfs').
        destruct (range_loop fl nd (commit_range nd st s b h) rest rpc2 db1) as [[st2 r] tr]. simpl in *.
        destruct IH as [IH1 IH2]. split; [split; assumption|].
        change (st2 = last (commit_range nd st s b h :: tr) st). rewrite last_cons. exact IH2.
      + simpl. split; [split; [exact Hj|exact I]|reflexivity].
  Qed.

  Lemma chain_justified_app fl nd a tr1 tr2 :
    chain_justified fl nd a tr1 -> chain_justified fl nd (last tr1 a) tr2 -> chain_justified fl nd a (tr1 ++ tr2).
  Proof.
    revert a. induction tr1 as [|b tr1 IH]; intros a H1 H2; [exact H2|].
    destruct H1 as [Hj Hc]. rewrite last_cons in H2.
    rewrite <- app_comm_cons. split; [exact Hj|]. apply IH; assumption.
  Qed.

  Lemma reorg_phase_justified fl (nd : node E) st db :
    let '(st1, _, _, tr1) := reorg_phase fl nd st db in
    chain_justified fl nd st tr1 /\ st1 = last tr1 st.
  Proof.
    unfold reorg_phase. destruct (pop db) as [f1 db1].
    destruct (is_fail f1); [split; [exact I|reflexivity]|].
    destruct (st_status st) as [[k h]|] eqn:Hst; [|split; [exact I|reflexivity]].
    destruct (num_reorged fl k h nd <=? 0) eqn:Hn; [split; [exact I|reflexivity]|].
    apply Z.leb_gt in Hn.
    destruct (if fl_multi fl then pop db1 else (NoFault, db1)) as [f2 db2].
    destruct (is_fail f2); [split; [exact I|reflexivity]|].
    destruct (pop db2) as [f3 db3].
    assert (Hj : justified fl nd st (rollback_to st (k - num_reorged fl k h nd))).
    { right. exists k, h, (num_reorged fl k h nd). auto. }
    destruct f3; simpl.
    - split; [split; [exact Hj|exact I]|reflexivity].
    - split; [exact I|reflexivity].
    - split; [split; [exact Hj|exact I]|reflexivity].
  Qed.

  Lemma num_reorged_le fl k h (nd : node E) : 0 <= k -> num_reorged fl k h nd <= k.
  Proof.
    intros Hk. unfold num_reorged. destruct (_ && _); [|lia].
    destruct (k <? fl_depth fl) eqn:Hd; [lia|]. apply Z.ltb_ge in Hd. lia.
  Qed.

  Lemma reorg_phase_cases fl (nd : node E) st db :
    fst (fst (fst (reorg_phase fl nd st db))) = st \/
    exists k h, st_status st = Some (k, h) /\ 0 < num_reorged fl k h nd /\
                fst (fst (fst (reorg_phase fl nd st db))) = rollback_to st (k - num_reorged fl k h nd).
  Proof.
    unfold reorg_phase. destruct (pop db) as [f1 db1].
    destruct (is_fail f1); [left; reflexivity|].
    destruct (st_status st) as [[k h]|] eqn:Hst; [|left; reflexivity].
    destruct (num_reorged fl k h nd <=? 0) eqn:Hn; [left; reflexivity|].
    apply Z.leb_gt in Hn.
    destruct (if fl_multi fl then pop db1 else (NoFault, db1)) as [f2 db2].
    destruct (is_fail f2); [left; reflexivity|].
    destruct (pop db2) as [f3 db3].
    destruct f3; simpl; [right|left; reflexivity|right]; exists k, h; auto.
  Qed.

  Lemma reorg_phase_nonneg fl (nd : node E) st db :
    (forall k h, st_status st = Some (k, h) -> 0 <= k) ->
    forall k h, st_status (fst (fst (fst (reorg_phase fl nd st db)))) = Some (k, h) -> 0 <= k.
  Proof.
    intros Hk. destruct (reorg_phase_cases fl nd st db) as [->|(k0 & h0 & Hst & Hn & ->)]; [exact Hk|].
    simpl. intros k h [= <- _]. assert (0 <= k0) by (eapply Hk; eauto).
    assert (H1 := num_reorged_le fl k0 h0 nd H). lia.
  Qed.

  Theorem atomic_pair fl (nd : node E) st rpc db :
    0 < fl_range fl -> 0 <= fl_first_start fl -> n_number nd + fl_range fl < two64 ->
    (forall k h, st_status st = Some (k, h) -> 0 <= k) ->
    let '(st', _, tr) := sync fl nd st rpc db in
    chain_justified fl nd st tr /\ st' = last tr st.
  Proof.
    intros HR Hfs Hb Hk. unfold sync.
    assert (H1 := reorg_phase_justified fl nd st db).
    assert (Hk1 := reorg_phase_nonneg fl nd st db Hk).
    destruct (reorg_phase fl nd st db) as [[[st1 db1] failed] tr1].
    simpl in Hk1. destruct H1 as [Hc1 Hl1].
    destruct failed; [split; assumption|].
    destruct (pop db1) as [f db2]. destruct (is_fail f); [split; assumption|].
    set (start := start_after fl (st_status st1)).
    destruct (fl_multi fl && (start >? n_number nd)); [split; assumption|].
    assert (Hstart : 0 <= start /\ (fl_unclamped fl = false -> fl_first_start fl <= start)).
    { unfold start, start_after. destruct (st_status st1) as [[k h]|] eqn:Hs1; [|split; [exact Hfs|intros; lia]].
      specialize (Hk1 k h eq_refl). destruct (fl_unclamped fl); split; try lia; intros; try discriminate; lia. }
    destruct Hstart as [Hstart Hfsstart].
    destruct (sync_ranges_cover start (n_number nd) (fl_range fl) Hstart HR Hb) as (rs & Hrs & Hcov).
    rewrite Hrs.
    assert (H2 := range_loop_justified fl nd rs start st1 rpc db2 (ranges_cover_contig _ _ _ _ Hcov) ltac:(intros; reflexivity) Hfsstart).
    destruct (range_loop fl nd st1 rs rpc db2) as [[st2 r] tr2]. simpl in H2. destruct H2 as [Hc2 Hl2].
    split.
    - apply chain_justified_app; [exact Hc1|]. rewrite <- Hl1. exact Hc2.
    - rewrite Hl2, Hl1. rewrite last_app_default. reflexivity.
  Qed.

  (* ------------------------------------------------------------------------------------- *)
  (* C15_exact_when_canonical *)

  Section Exact.
  Variable fl : flavour.
  Hypothesis Hns : fl_swallow fl = false.
  Hypothesis Hcl : fl_unclamped fl = false.
  Hypothesis HR : 0 < fl_range fl.
  Hypothesis HD : 0 <= fl_depth fl.
  Hypothesis Hfs : 0 <= fl_first_start fl.
  Notation fs := (fl_first_start fl).

  (* the table is the admissible events of the ghost view w from the sync start to the position *)
  Definition inv (st : state) (w : view) : Prop :=
    match st_status st with
    | None => st_rows st = []
    | Some (k, h) => 0 <= k <= head_number w /\ st_rows st = rows_of w fs k /\ (h = [] \/ hash_at w k = Some h)
    end.

  (* the table can be extended with ranges of v *)
  Definition ready (st : state) (v : view) : Prop :=
    match st_status st with
    | None => st_rows st = []
    | Some (k, _) => 0 <= k /\ (k + 1 <= head_number v -> st_rows st = rows_of v fs k)
    end.

  Lemma node_number (v : view) : n_number (node_of_view v) = head_number v. Proof. reflexivity. Qed.
  Lemma node_hash (v : view) k : n_hash (node_of_view v) k = hash_at v k. Proof. reflexivity. Qed.
  Lemma node_logs (v : view) s e : n_logs (node_of_view v) s e = logs_of v s e. Proof. reflexivity. Qed.

  Lemma hash_at_in_range (v : view) n : 0 <= n <= head_number v -> exists h, hash_at v n = Some h.
  Proof. intros H. destruct (block_at_in_range E v n H) as [b Hb]. unfold hash_at. rewrite Hb. simpl. eauto. Qed.

  Lemma hash_at_nonempty (v : view) n h : hashes_nonempty v -> hash_at v n = Some h -> h <> [].
  Proof.
    unfold hash_at. intros Hne. destruct (block_at v n) as [b|] eqn:Hb; [|discriminate].
    simpl. intros [= <-]. apply Hne. eapply block_at_In; eauto.
  Qed.

  Lemma hash_at_determines (v w : view) n h :
    hash_determines v w -> hash_at v n = Some h -> hash_at w n = Some h -> agree_upto v w n.
  Proof.
    unfold hash_at. intros Hd. destruct (block_at v n) as [bv|] eqn:Hv; [|discriminate].
    destruct (block_at w n) as [bw|] eqn:Hw; [|discriminate]. simpl. intros [= <-] [= Hh].
    eapply Hd; eauto.
  Qed.

  (* one range loop over a cover of [s, head v] *)
  Lemma range_loop_exact (v : view) : view_ok fl v ->
    forall rs s st rpc db,
      ranges_cover s (head_number v) (fl_range fl) rs -> 0 <= s -> fs <= s -> st_rows st = rows_of v fs (s - 1) ->
      let '(st2, _, tr) := range_loop fl (node_of_view v) st rs rpc db in
      (tr = [] /\ st2 = st) \/
      (tr <> [] /\ exists k h, s <= k <= head_number v /\ hash_at v k = Some h /\
                               st2 = mkstate (Some (k, h)) (rows_of v fs k)).
  Proof.
    intros (Hne & Hhn & Hku & Hbound).
    induction rs as [|[a b] rest IH]; intros s st rpc db Hcov Hs Hfss Hrows; simpl; [left; auto|].
    simpl in Hcov. destruct Hcov as (-> & Hsb & Hbe & Hlen & Hlast & Hfull & Hrest).
    destruct (pop rpc) as [fa rpc1]. destruct (is_fail fa); [left; auto|].
    destruct (pop rpc1) as [fb rpc2]. destruct (is_fail fb); [left; auto|].
    try rewrite node_hash. destruct (hash_at_in_range v b ltac:(lia)) as [hb Hhb]. rewrite Hhb.
    assert (Hcommit : commit_range (node_of_view v) st s b hb = mkstate (Some (b, hb)) (rows_of v fs b)).
    { unfold Syncer.commit_range. f_equal. rewrite node_logs.
      change (filter (fun p : pev E => admissible (pe_ev p)) (logs_of v s b)) with (rows_of v s b).
      rewrite Hrows. rewrite (fold_upsert_fresh E K key key_eqb merge key_eqb_spec).
      - rewrite <- (rows_of_app E admissible v fs (s - 1) b) by lia. do 2 f_equal. lia.
      - assert (Hx : rows_of v fs (s - 1) ++ rows_of v s b = rows_of v fs b).
        { rewrite <- (rows_of_app E admissible v fs (s - 1) b) by lia. do 2 f_equal. lia. }
        rewrite Hx.
        apply keys_unique_stretch; [exact Hku|exact Hfs|exact Hbe]. }
    rewrite Hcommit.
    assert (Hcov' : ranges_cover (b + 1) (head_number v) (fl_range fl) rest).
    { destruct rest as [|p rest']; [simpl; specialize (Hlast eq_refl); lia|exact Hrest]. }
    assert (Hhere : exists k h, s <= k <= head_number v /\ hash_at v k = Some h /\
              mkstate (Some (b, hb)) (rows_of v fs b) = mkstate (Some (k, h)) (rows_of v fs k)).
    { exists b, hb. repeat split; auto; lia. }
    destruct (pop db) as [fc db1]. destruct fc.
    - specialize (IH (b + 1) (mkstate (Some (b, hb)) (rows_of v fs b)) rpc2 db1 Hcov' ltac:(lia) ltac:(lia)).
      replace (b + 1 - 1) with b in IH by lia. specialize (IH eq_refl).
      destruct (range_loop fl (node_of_view v) (mkstate (Some (b, hb)) (rows_of v fs b)) rest rpc2 db1) as [[st2 r] tr].
      right. split; [discriminate|].
      destruct IH as [[_ ->]|[_ (k & h & Hk & Hh & ->)]]; [exact Hhere|].
      exists k, h. repeat split; auto; lia.
    - rewrite Hns. left. auto.
    - rewrite Hns. right. split; [discriminate|exact Hhere].
  Qed.

  Lemma num_reorged_pos k h (nd : node E) : 0 < num_reorged fl k h nd ->
    n_number nd = k + 1 /\ bytes_eqb (n_parent nd) h = false /\
    num_reorged fl k h nd = (if k <? fl_depth fl then k else fl_depth fl).
  Proof.
    unfold num_reorged. destruct (n_number nd =? k + 1) eqn:H1; simpl; [|lia].
    destruct (bytes_eqb (n_parent nd) h) eqn:H2; simpl; [lia|].
    intros _. apply Z.eqb_eq in H1. auto.
  Qed.

  Lemma node_parent (v : view) k hv : head_number v = k + 1 -> hash_at v k = Some hv -> n_parent (node_of_view v) = hv.
  Proof. intros Hh Hk. simpl. replace (head_number v - 1) with k by lia. rewrite Hk. reflexivity. Qed.

  (* what the reorg test decides, given the assumption on the head: either no rollback and (if
     the head is past the position) the view extends the synced chain, or a rollback to a block
     on which both chains agree *)
  Lemma reorg_decision (v w : view) st k h :
    view_ok fl v -> inv st w -> hash_determines w v -> head_ok fl (mkg st w) v ->
    st_status st = Some (k, h) ->
    let n := num_reorged fl k h (node_of_view v) in
    (n <= 0 -> k + 1 <= head_number v -> agree_upto w v k) /\
    (0 < n -> 0 <= k - n < k /\ head_number v = k + 1 /\ agree_upto w v (k - n)).
  Proof.
    intros (Hne & Hhn & Hku & Hbound) Hinv Hdet Hok Hst n.
    unfold inv in Hinv. unfold head_ok in Hok. simpl in Hok. rewrite Hst in Hinv, Hok.
    destruct Hinv as (Hk & Hrows & Hh). destruct Hok as (Hag & Hhead).
    split.
    - intros Hn Hkv.
      destruct Hhead as [Hhead|Hagk]; [|exact Hagk].
      assert (Hhv : head_number v = k + 1) by lia.
      destruct (hash_at_in_range v k ltac:(lia)) as [hv Hhvk].
      unfold n, num_reorged in Hn. rewrite (node_parent v k hv Hhv Hhvk) in Hn.
      rewrite node_number, Hhv, Z.eqb_refl in Hn.
      destruct (bytes_eqb hv h) eqn:Heq; simpl in Hn.
      + apply bytes_eqb_eq in Heq. subst hv.
        assert (h <> []) by (eapply hash_at_nonempty; eauto).
        destruct Hh as [Hh|Hh]; [contradiction|]. eapply hash_at_determines; eauto.
      + destruct (k <? fl_depth fl) eqn:Hd.
        * assert (k = 0) by lia. subst k.
          apply Z.ltb_lt in Hd. replace (Z.max 0 (0 - fl_depth fl)) with 0 in Hag by lia. exact Hag.
        * apply Z.ltb_ge in Hd. assert (fl_depth fl = 0) by lia.
          replace (Z.max 0 (k - fl_depth fl)) with k in Hag by lia. exact Hag.
    - intros Hn. destruct (num_reorged_pos k h _ Hn) as (Hnum & Hpar & Hval).
      rewrite node_number in Hnum. fold n in Hval.
      assert (Hk' : k - n = Z.max 0 (k - fl_depth fl) /\ k - n < k).
      { rewrite Hval. destruct (k <? fl_depth fl) eqn:Hd; [apply Z.ltb_lt in Hd|apply Z.ltb_ge in Hd]; unfold n in *; lia. }
      destruct Hk' as [Hk'eq Hk'lt].
      split; [lia|]. split; [exact Hnum|].
      rewrite Hk'eq. exact Hag.
  Qed.

  Lemma reorg_phase_exact (v w : view) st db :
    view_ok fl v -> inv st w -> (st_status st <> None -> hash_determines w v) ->
    head_ok fl (mkg st w) v ->
    let '(st1, _, failed, tr1) := reorg_phase fl (node_of_view v) st db in
    (tr1 = [] /\ st1 = st /\ (failed = false -> ready st v)) \/
    (tr1 <> [] /\ inv st1 v /\ ready st1 v).
  Proof.
    intros (Hne & Hhn & Hku & Hbound) Hinv Hdet Hok.
    unfold reorg_phase. destruct (pop db) as [f1 db1].
    destruct (is_fail f1); [left; split; [reflexivity|]; split; [reflexivity|]; intros Hf; discriminate Hf|].
    unfold inv in Hinv. unfold head_ok in Hok. simpl in Hok. unfold ready.
    destruct (st_status st) as [[k h]|] eqn:Hst; [|left; repeat split; auto].
    destruct Hinv as (Hk & Hrows & Hh). destruct Hok as (Hag & Hhead).
    specialize (Hdet ltac:(discriminate)).
    destruct (num_reorged fl k h (node_of_view v) <=? 0) eqn:Hn.
    - (* no reorganisation detected *)
      apply Z.leb_le in Hn. left. split; [reflexivity|]. split; [reflexivity|]. intros _.
      split; [lia|]. intros Hkv.
      assert (Hagk : agree_upto w v k).
      { destruct Hhead as [Hhead|Hagk]; [|exact Hagk].
        assert (Hhv : head_number v = k + 1) by lia.
        destruct (hash_at_in_range v k ltac:(lia)) as [hv Hhvk].
        unfold num_reorged in Hn. rewrite (node_parent v k hv Hhv Hhvk) in Hn.
        rewrite node_number, Hhv, Z.eqb_refl in Hn.
        destruct (bytes_eqb hv h) eqn:Heq; simpl in Hn.
        - apply bytes_eqb_eq in Heq. subst hv.
          assert (h <> []) by (eapply hash_at_nonempty; eauto).
          destruct Hh as [Hh|Hh]; [contradiction|]. eapply hash_at_determines; eauto.
        - destruct (k <? fl_depth fl) eqn:Hd.
          + assert (k = 0) by lia. subst k.
            apply Z.ltb_lt in Hd. replace (Z.max 0 (0 - fl_depth fl)) with 0 in Hag by lia. exact Hag.
          + apply Z.ltb_ge in Hd. assert (fl_depth fl = 0) by lia.
            replace (Z.max 0 (k - fl_depth fl)) with k in Hag by lia. exact Hag. }
      rewrite Hrows. apply (rows_of_agree E admissible w v k); [exact Hagk|exact Hfs|lia].
    - (* rollback *)
      apply Z.leb_gt in Hn. destruct (num_reorged_pos k h _ Hn) as (Hnum & Hpar & Hval).
      rewrite node_number in Hnum.
      set (n := num_reorged fl k h (node_of_view v)) in *.
      assert (Hk' : k - n = Z.max 0 (k - fl_depth fl) /\ k - n < k).
      { rewrite Hval. destruct (k <? fl_depth fl) eqn:Hd; [apply Z.ltb_lt in Hd|apply Z.ltb_ge in Hd]; lia. }
      destruct Hk' as [Hk'eq Hk'lt].
      assert (Hagk' : agree_upto w v (k - n)).
      { rewrite Hk'eq. exact Hag. }
      assert (Hst' : rollback_to st (k - n) = mkstate (Some (k - n, [])) (rows_of v fs (k - n))).
      { unfold rollback_to. f_equal. rewrite Hrows. rewrite rows_of_rollback by lia.
        apply (rows_of_agree E admissible w v (k - n)); [exact Hagk'|exact Hfs|lia]. }
      assert (Hgood : inv (rollback_to st (k - n)) v /\ ready (rollback_to st (k - n)) v).
      { rewrite Hst'. unfold inv, ready. simpl. repeat split; auto; lia. }
      destruct (if fl_multi fl then pop db1 else (NoFault, db1)) as [f2 db2].
      destruct (is_fail f2).
      { left. split; [reflexivity|]. split; [reflexivity|]. intros Hf; discriminate Hf. }
      destruct (pop db2) as [f3 db3].
      destruct f3.
      + right. split; [discriminate|exact Hgood].
      + left. split; [reflexivity|]. split; [reflexivity|]. intros Hf; discriminate Hf.
      + right. split; [discriminate|exact Hgood].
  Qed.

  Lemma sync_exact (v w : view) st rpc db :
    view_ok fl v -> inv st w ->
    (st_status st <> None -> hash_determines w v) -> head_ok fl (mkg st w) v ->
    let '(st', _, tr) := sync fl (node_of_view v) st rpc db in
    (tr = [] /\ st' = st) \/ (tr <> [] /\ inv st' v).
  Proof.
    intros Hvo Hinv Hdet Hok. unfold sync.
    assert (H1 := reorg_phase_exact v w st db Hvo Hinv Hdet Hok).
    destruct (reorg_phase fl (node_of_view v) st db) as [[[st1 db1] failed] tr1].
    assert (Hstop : (tr1 = [] /\ st1 = st) \/ (tr1 <> [] /\ inv st1 v)).
    { destruct H1 as [(H & H' & _)|(H & H' & _)]; [left|right]; auto. }
    destruct failed; [exact Hstop|].
    destruct (pop db1) as [f db2]. destruct (is_fail f); [exact Hstop|].
    set (start := start_after fl (st_status st1)).
    destruct (fl_multi fl && (start >? n_number (node_of_view v))); [exact Hstop|].
    assert (Hready : ready st1 v).
    { destruct H1 as [(_ & -> & H)|(_ & _ & H)]; [apply H; reflexivity|exact H]. }
    assert (Hstart : 0 <= start /\ fs <= start).
    { unfold start, start_after. rewrite Hcl. unfold ready in Hready. destruct (st_status st1) as [[k h]|]; lia. }
    destruct Hstart as [Hstart Hfsstart].
    destruct Hvo as (Hne & Hhn & Hku & Hbound).
    rewrite node_number.
    destruct (sync_ranges_cover start (head_number v) (fl_range fl) Hstart HR) as (rs & Hrs & Hcov).
    { unfold two64. lia. }
    rewrite Hrs.
    assert (H2 : let '(st2, _, tr) := range_loop fl (node_of_view v) st1 rs rpc db2 in
                 (tr = [] /\ st2 = st1) \/
                 (tr <> [] /\ exists k h, start <= k <= head_number v /\ hash_at v k = Some h /\
                                          st2 = mkstate (Some (k, h)) (rows_of v fs k))).
    { destruct rs as [|[a b] rest]; [simpl; left; auto|].
      apply range_loop_exact; [repeat split; assumption|exact Hcov|exact Hstart|exact Hfsstart|].
      simpl in Hcov. destruct Hcov as (_ & Hsb & Hbe & _).
      unfold ready in Hready. unfold start, start_after in *. rewrite Hcl in *. destruct (st_status st1) as [[k h]|].
      - destruct Hready as [Hk0 Hready]. rewrite Hready by lia.
        destruct (Z_le_gt_dec fs (k + 1)) as [Hle|Hgt].
        + f_equal. lia.
        + rewrite (rows_of_empty E admissible v fs k) by lia. symmetry. apply rows_of_empty. lia.
      - rewrite Hready. symmetry. apply rows_of_empty. lia. }
    destruct (range_loop fl (node_of_view v) st1 rs rpc db2) as [[st2 r] tr2].
    destruct H2 as [[-> ->]|(Htr2 & k & h & Hk & Hh & ->)].
    - rewrite app_nil_r. exact Hstop.
    - right. split; [destruct tr1; [exact Htr2|discriminate]|].
      unfold inv. simpl. repeat split; auto; lia.
  Qed.

  Definition ginv (U : list view) (g : gstate E) : Prop :=
    inv (g_st g) (g_view g) /\ (st_status (g_st g) <> None -> In (g_view g) U).

  Lemma gstep_inv (U : list view) g inp :
    universe_ok fl U ->
    In (fst inp) U -> ginv U g -> head_ok fl g (fst inp) -> ginv U (gstep fl g inp).
  Proof.
    intros [Hvo Hdet] Hin [Hinv Hghost] Hok. unfold Syncer.gstep.
    destruct g as [st w]. simpl in *.
    assert (H := sync_exact (fst inp) w st (fst (snd inp)) (snd (snd inp)) (Hvo _ Hin) Hinv
                            (fun Hs => Hdet _ _ (Hghost Hs) Hin) Hok).
    destruct (sync fl (node_of_view (fst inp)) st (fst (snd inp)) (snd (snd inp))) as [[st' r] tr].
    destruct H as [[-> ->]|[Htr Hinv']].
    - split; assumption.
    - destruct tr; [contradiction|]. split; [exact Hinv'|]. intros _. exact Hin.
  Qed.

  Lemma grun_inv (U : list view) :
    universe_ok fl U ->
    forall inputs g, (forall inp, In inp inputs -> In (fst inp) U) -> ginv U g -> heads_ok fl g inputs ->
                     ginv U (fold_left (gstep fl) inputs g).
  Proof.
    intros HU. induction inputs as [|inp rest IH]; intros g Hin Hg Hok; simpl; [exact Hg|].
    simpl in Hok. destruct Hok as [Hok1 Hok2].
    apply IH; [intros i Hi; apply Hin; right; exact Hi| |exact Hok2].
    apply gstep_inv; auto. apply Hin. left. reflexivity.
  Qed.

  Theorem exact_when_canonical (inputs : list (sync_input E)) (v : view) (faults : list fault * list fault) :
    let history := inputs ++ [(v, faults)] in
    universe_ok fl (map fst history) ->
    heads_ok fl ginit history ->
    forall k h b,
      st_status (g_st (grun fl history)) = Some (k, h) -> block_at v k = Some b -> bk_hash b = h ->
      st_rows (g_st (grun fl history)) = rows_of v fs k.
  Proof.
    intros history HU Hok k h b Hst Hb Hh.
    assert (Hg : ginv (map fst history) (grun fl history)).
    { unfold Syncer.grun. apply grun_inv; auto.
      - intros inp Hin. apply in_map. exact Hin.
      - split; [reflexivity|]. intros H. exfalso. apply H. reflexivity. }
    destruct Hg as [Hinv Hghost]. unfold inv in Hinv. rewrite Hst in Hinv.
    destruct Hinv as (Hk & Hrows & Hhash).
    assert (Hv : In v (map fst history)).
    { unfold history. rewrite map_app. apply in_or_app. right. left. reflexivity. }
    destruct HU as [Hvo Hdet].
    destruct (Hvo v Hv) as (_ & Hhn & _).
    assert (Hne : h <> []) by (rewrite <- Hh; apply Hhn; eapply block_at_In; eauto).
    destruct Hhash as [Hhash|Hhash]; [contradiction|].
    assert (Hw : In (g_view (grun fl history)) (map fst history)) by (apply Hghost; rewrite Hst; discriminate).
    assert (Hag : agree_upto (g_view (grun fl history)) v k).
    { eapply hash_at_determines; [apply Hdet; assumption|exact Hhash|]. unfold hash_at. rewrite Hb. simpl. congruence. }
    rewrite Hrows. apply (rows_of_agree E admissible _ v k); [exact Hag|exact Hfs|lia].
  Qed.

  End Exact.

End Proofs.
