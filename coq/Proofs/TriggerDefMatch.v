(* Proofs about Match, GetValue, ToFilterQuery and the filter rule (Model/TriggerDef.v). *)
From Coq Require Import List NArith ZArith Bool Lia.
From Verif Require Import Lib.Bytes Lib.Rlp Model.TriggerDef.
Import ListNotations.

Local Open Scope Z_scope.

(* ---- small facts ---------------------------------------------------------------------- *)

Lemma u64_range x : 0 <= u64 x < 18446744073709551616.
Proof. unfold u64. apply Z.mod_pos_bound. lia. Qed.

Lemma u64_small x : 0 <= x < 18446744073709551616 -> u64 x = x.
Proof. intros H. unfold u64. apply Z.mod_small. exact H. Qed.

Lemma word_u64_range w : 0 <= word_u64 w < 18446744073709551616.
Proof. apply u64_range. Qed.

Lemma zlen_nonneg b : 0 <= zlen b.
Proof. unfold zlen. lia. Qed.

Lemma slice_ok s lo hi :
  0 <= lo -> lo <= hi -> hi <= zlen s ->
  slice s lo hi = Some (firstn (Z.to_nat (hi - lo)) (skipn (Z.to_nat lo) s)).
Proof.
  intros H1 H2 H3. unfold slice.
  destruct (0 <=? lo) eqn:E1; [|lia]. destruct (lo <=? hi) eqn:E2; [|lia].
  destruct (hi <=? zlen s) eqn:E3; [|lia]. reflexivity.
Qed.

Lemma slice_length s lo hi r : slice s lo hi = Some r -> zlen r = hi - lo.
Proof.
  unfold slice. destruct (0 <=? lo) eqn:E1; simpl; [|discriminate].
  destruct (lo <=? hi) eqn:E2; simpl; [|discriminate].
  destruct (hi <=? zlen s) eqn:E3; simpl; [|discriminate].
  intros H. injection H as <-. unfold zlen in *.
  rewrite firstn_length, skipn_length. lia.
Qed.

Lemma copy_into_exact n s : length s = n -> copy_into n s = s.
Proof.
  intros H. unfold copy_into. subst n. rewrite firstn_all, Nat.sub_diag. simpl.
  apply app_nil_r.
Qed.

Lemma copy_into_length n s : length (copy_into n s) = n.
Proof.
  unfold copy_into. rewrite app_length, firstn_length, repeat_length. lia.
Qed.

(* ---- GetValue never panics; its result is no longer than max(32, |data|) --------------- *)

Lemma read_word_spec data start :
  0 <= start -> zlen data <= max_alloc ->
  match read_word_u64 data start with
  | RPanic => False
  | RNo => zlen data < start + 32
  | RWord w => start + 32 <= zlen data /\ 0 <= w < 18446744073709551616 /\
               w = word_u64 (firstn 32 (skipn (Z.to_nat start) data))
  end.
Proof.
  intros Hs Hl. unfold read_word_u64, max_alloc in *.
  destruct (zlen data <? 32) eqn:E1; simpl; [lia|].
  rewrite u64_small by lia.
  destruct (zlen data - 32 <? start) eqn:E2; [lia|].
  rewrite u64_small by lia.
  rewrite slice_ok by lia. replace (start + 32 - start) with 32 by lia.
  split; [lia|]. split; [apply word_u64_range|reflexivity].
Qed.

Lemma static_value_spec p lg :
  wf_log lg ->
  exists v, get_static_value p lg = VOk v /\ length v = 32%nat.
Proof.
  intros Hl. unfold wf_log, max_alloc in Hl. unfold get_static_value.
  set (data := l_data lg) in *.
  set (dofs := u64 (Z.of_N (p_off p) - 4)).
  set (sb := u64 (dofs * 32)).
  assert (Hsb : 0 <= sb < 18446744073709551616) by apply u64_range.
  destruct (sb <? zlen data) eqn:E1.
  - assert (Heb : u64 ((dofs + 1) * 32) = sb + 32).
    { unfold sb, u64. replace ((dofs + 1) * 32) with (dofs * 32 + 32) by lia.
      rewrite <- Zplus_mod_idemp_l. apply Z.mod_small.
      fold (u64 (dofs * 32)). fold sb. lia. }
    rewrite Heb.
    destruct (sb + 32 <? zlen data) eqn:E2.
    + rewrite slice_ok by lia. eexists. split; [reflexivity|]. apply copy_into_length.
    + rewrite slice_ok by lia. eexists. split; [reflexivity|]. apply copy_into_length.
  - eexists. split; [reflexivity|]. apply repeat_length.
Qed.

Lemma dyn_value_spec p lg :
  wf_log lg ->
  exists v, get_offset_data_value p lg = VOk v /\ zlen v <= zlen (l_data lg).
Proof.
  intros Hl. unfold wf_log in Hl. unfold get_offset_data_value.
  set (data := l_data lg) in *.
  set (osb := u64 (u64 (Z.of_N (p_off p) - 4) * 32)).
  assert (Hosb : 0 <= osb) by apply u64_range.
  pose proof (read_word_spec data osb Hosb Hl) as R1.
  pose proof (zlen_nonneg data) as Hn.
  destruct (read_word_u64 data osb) as [lbo| |]; [|exists []; split; [reflexivity|apply Hn]|contradiction].
  destruct R1 as (R1a & R1b & _).
  assert (Hlbo : 0 <= lbo) by lia.
  pose proof (read_word_spec data lbo Hlbo Hl) as R2.
  destruct (read_word_u64 data lbo) as [len| |]; [|exists []; split; [reflexivity|apply Hn]|contradiction].
  destruct R2 as (R2a & R2b & _).
  unfold max_alloc in *.
  rewrite (u64_small (lbo + 32)) by lia.
  rewrite (u64_small (zlen data - (lbo + 32))) by lia.
  destruct (zlen data - (lbo + 32) <? len) eqn:E1; [exists []; split; [reflexivity|apply Hn]|].
  destruct (281474976710656 <? len) eqn:E2; [lia|].
  rewrite (u64_small (lbo + 32 + len)) by lia.
  rewrite slice_ok by lia. eexists. split; [reflexivity|].
  unfold zlen at 1. rewrite copy_into_length. lia.
Qed.

Lemma get_value_spec p lg :
  wf_log lg ->
  exists v, get_value p lg = VOk v /\
            (zlen v <= Z.max 32 (zlen (l_data lg)) \/ In v (l_topics lg)).
Proof.
  intros Hl. unfold get_value, get_value_with.
  destruct (is_topic p).
  - destruct (nth_error (l_topics lg) (N.to_nat (p_off p))) eqn:E.
    + eexists. split; [reflexivity|]. right. eapply nth_error_In; eauto.
    + eexists. split; [reflexivity|]. left. unfold zlen. simpl. pose proof (zlen_nonneg (l_data lg)). lia.
  - destruct (p_dyn p).
    + destruct (dyn_value_spec p lg Hl) as (v & E & B). exists v. split; [exact E|]. left. lia.
    + destruct (static_value_spec p lg Hl) as (v & E & B). exists v. split; [exact E|]. left.
      unfold zlen at 1. rewrite B. pose proof (zlen_nonneg (l_data lg)). lia.
Qed.

(* ---- ValuePredicate.Match on a valid predicate ----------------------------------------- *)

Lemma op_cases op : op_valid op = true ->
  (op = 0 \/ op = 1 \/ op = 2 \/ op = 3 \/ op = 4 \/ op = 5)%N.
Proof. unfold op_valid. intros H. apply N.leb_le in H. lia. Qed.

(* the shape vp_validate forces *)
Lemma vp_validate_shape p : vp_validate p = true ->
  ((p_op p <= 4)%N /\ exists a, p_ints p = [Some a] /\ 0 <= a /\ p_bytes p = []) \/
  (p_op p = 5%N /\ p_ints p = [] /\ exists b, p_bytes p = [b]).
Proof.
  unfold vp_validate. intros H.
  apply andb_true_iff in H as [H Hv]. apply andb_true_iff in H as [H Hb].
  apply andb_true_iff in H as [Ho Hi].
  apply Nat.eqb_eq in Hi. apply Nat.eqb_eq in Hb.
  destruct (op_cases _ Ho) as [E|[E|[E|[E|[E|E]]]]]; rewrite E in *; simpl in *.
  1-5: left; split; [lia|];
    destruct (p_ints p) as [|[a|] [|? ?]]; simpl in *; try discriminate;
    destruct (p_bytes p); simpl in *; try discriminate;
    exists a; repeat split; auto; apply andb_true_iff in Hv as [Hv _]; apply Z.leb_le in Hv; exact Hv.
  right. split; [reflexivity|].
  destruct (p_ints p); simpl in *; try discriminate. split; [reflexivity|].
  destruct (p_bytes p) as [|b [|? ?]]; simpl in *; try discriminate. exists b. reflexivity.
Qed.

Lemma vp_match_total p v : vp_validate p = true -> exists b, vp_match p v = MOk b.
Proof.
  intros H. destruct (vp_validate_shape p H) as [(Ho & a & Hi & _ & _)|(Ho & _ & b & Hb)].
  - unfold vp_match. rewrite Hi.
    assert (C : (p_op p = 0 \/ p_op p = 1 \/ p_op p = 2 \/ p_op p = 3 \/ p_op p = 4)%N) by lia.
    destruct C as [E|[E|[E|[E|E]]]]; rewrite E; eexists; reflexivity.
  - unfold vp_match. rewrite Ho, Hb. eexists. reflexivity.
Qed.

Lemma lp_validate_parts p : lp_validate p = true ->
  ref_validate p = true /\ vp_validate p = true /\
  (is_topic_eq p = true -> exists a, p_bytes p = [a] /\ length a = 32%nat).
Proof.
  unfold lp_validate. intros H. apply andb_true_iff in H as [H H3].
  apply andb_true_iff in H as [H1 H2]. repeat split; auto.
  intros E. rewrite E in H3.
  destruct (vp_validate_shape p H2) as [(Ho & _)|(_ & _ & b & Hb)].
  - unfold is_topic_eq in E. apply andb_true_iff in E as [_ E]. apply N.eqb_eq in E. lia.
  - rewrite Hb in *. exists b. split; [reflexivity|]. apply Nat.eqb_eq. exact H3.
Qed.

Lemma validate_parts d : validate d = true ->
  forallb lp_validate (d_preds d) = true /\ no_dup_topics (d_preds d) [] = true.
Proof. unfold validate, validate_with. intros H. apply andb_true_iff in H. exact H. Qed.

(* ---- C17_match_total ------------------------------------------------------------------- *)

Lemma lp_match_total p lg :
  lp_validate p = true -> wf_log lg -> exists b, lp_match p lg = MOk b.
Proof.
  intros Hv Hl. destruct (lp_validate_parts p Hv) as (_ & Hvp & _).
  unfold lp_match, lp_match_with. fold (get_value p lg).
  destruct (get_value_spec p lg Hl) as (v & E & _). rewrite E.
  apply vp_match_total. exact Hvp.
Qed.

Lemma match_preds_total ps lg :
  forallb lp_validate ps = true -> wf_log lg -> exists b, match_preds ps lg = MOk b.
Proof.
  intros Hv Hl. induction ps as [|p r IH]; simpl.
  - exists true. reflexivity.
  - simpl in Hv. apply andb_true_iff in Hv as [Hp Hr].
    unfold match_preds in *. simpl. fold (lp_match p lg).
    destruct (lp_match_total p lg Hp Hl) as (b & E). rewrite E.
    destruct b; [apply IH; exact Hr|exists false; reflexivity].
Qed.

Theorem match_total d lg :
  validate d = true -> wf_log lg ->
  (exists b, match_def d lg = MOk b) /\
  (forall p, In p (d_preds d) -> exists v, get_value p lg = VOk v /\
       (zlen v <= Z.max 32 (zlen (l_data lg)) \/ In v (l_topics lg))).
Proof.
  intros Hv Hl. split.
  - unfold match_def, match_with.
    destruct (negb (bytes_eqb (l_addr lg) (d_contract d))); [exists false; reflexivity|].
    apply match_preds_total; [apply validate_parts; exact Hv|exact Hl].
  - intros p _. apply get_value_spec. exact Hl.
Qed.

(* ---- documented semantics (docs/event.md) ---------------------------------------------- *)

(* the 32-byte word of the data that starts at byte [start], entirely inside the data *)
Definition word_at (data : bytes) (start : Z) (w : bytes) : Prop :=
  0 <= start /\ start + 32 <= zlen data /\ w = firstn 32 (skipn (Z.to_nat start) data).

(* "LogValueRef": the referenced value of a log, where the reference is well formed:
   topic present / word inside the data / dynamic: IOIB = uint64(WORD@Offset),
   length = uint64(WORD@IOIB), dataslice = data[IOIB+32 : IOIB+32+length], all inside. *)
Inductive ref_value (p : pred) (lg : log) : bytes -> Prop :=
| RV_topic t :
    is_topic p = true -> nth_error (l_topics lg) (N.to_nat (p_off p)) = Some t ->
    ref_value p lg t
| RV_static w :
    is_topic p = false -> p_dyn p = false ->
    word_at (l_data lg) ((Z.of_N (p_off p) - 4) * 32) w ->
    ref_value p lg w
| RV_dynamic w lw :
    is_topic p = false -> p_dyn p = true ->
    word_at (l_data lg) ((Z.of_N (p_off p) - 4) * 32) w ->
    let ioib := Z.of_N (be w) mod 2 ^ 64 in
    word_at (l_data lg) ioib lw ->
    let len := Z.of_N (be lw) mod 2 ^ 64 in
    ioib + 32 + len <= zlen (l_data lg) ->
    ref_value p lg (firstn (Z.to_nat len) (skipn (Z.to_nat (ioib + 32)) (l_data lg))).

(* "Operators": unsigned big-endian comparison with the integer argument, byte equality *)
Definition pred_holds (p : pred) (v : bytes) : Prop :=
  match p_op p, p_ints p, p_bytes p with
  | 0%N, [Some a], _ => Z.of_N (be v) < a
  | 1%N, [Some a], _ => Z.of_N (be v) <= a
  | 2%N, [Some a], _ => Z.of_N (be v) = a
  | 3%N, [Some a], _ => Z.of_N (be v) > a
  | 4%N, [Some a], _ => Z.of_N (be v) >= a
  | 5%N, _, [a] => v = a
  | _, _, _ => False
  end.

(* "Matching": same contract and all predicates hold on their referenced values *)
Definition matches_spec (d : def) (lg : log) : Prop :=
  l_addr lg = d_contract d /\
  forall p, In p (d_preds d) -> exists v, ref_value p lg v /\ pred_holds p v.

Definition well_formed_for (d : def) (lg : log) : Prop :=
  forall p, In p (d_preds d) -> exists v, ref_value p lg v.

Lemma two64_Z : 2 ^ 64 = 18446744073709551616.
Proof. reflexivity. Qed.

Lemma ref_validate_off p : ref_validate p = true -> (p_off p <= 4294967295)%N.
Proof. unfold ref_validate. intros H. apply andb_true_iff in H as [H _]. apply N.leb_le. exact H. Qed.

Lemma get_value_ref p lg v :
  ref_validate p = true -> wf_log lg -> ref_value p lg v -> get_value p lg = VOk v.
Proof.
  intros Hr Hl HV. pose proof (ref_validate_off p Hr) as Hoff.
  unfold wf_log, max_alloc in Hl.
  unfold get_value, get_value_with.
  destruct HV as [t Ht Hn | w Ht Hd (W1 & W2 & W3) | w lw Ht Hd (W1 & W2 & W3) ioib (X1 & X2 & X3) len Hlen].
  - rewrite Ht, Hn. reflexivity.
  - rewrite Ht, Hd. unfold get_static_value.
    assert (Hge : (4 <= p_off p)%N) by (unfold is_topic in Ht; apply N.ltb_ge in Ht; exact Ht).
    rewrite (u64_small (Z.of_N (p_off p) - 4)) by lia.
    set (k := Z.of_N (p_off p) - 4) in *.
    rewrite (u64_small (k * 32)) by lia.
    rewrite (u64_small ((k + 1) * 32)) by lia.
    destruct (k * 32 <? zlen (l_data lg)) eqn:E1; [|lia].
    assert (Hs : forall hi, hi = k * 32 + 32 -> hi <= zlen (l_data lg) ->
                 slice (l_data lg) (k * 32) hi = Some w).
    { intros hi -> Hhi. rewrite slice_ok by lia.
      replace (k * 32 + 32 - k * 32) with 32 by lia. rewrite W3. reflexivity. }
    assert (Hw : length w = 32%nat).
    { rewrite W3, firstn_length, skipn_length. unfold zlen in *. lia. }
    destruct ((k + 1) * 32 <? zlen (l_data lg)) eqn:E2.
    + rewrite (Hs ((k + 1) * 32)) by lia. rewrite copy_into_exact by exact Hw. reflexivity.
    + rewrite (Hs (zlen (l_data lg))) by lia. rewrite copy_into_exact by exact Hw. reflexivity.
  - rewrite Ht, Hd. unfold get_offset_data_value.
    assert (Hge : (4 <= p_off p)%N) by (unfold is_topic in Ht; apply N.ltb_ge in Ht; exact Ht).
    rewrite (u64_small (Z.of_N (p_off p) - 4)) by lia.
    set (k := Z.of_N (p_off p) - 4) in *.
    rewrite (u64_small (k * 32)) by lia.
    set (data := l_data lg) in *.
    assert (Hk : 0 <= k * 32) by lia.
    pose proof (read_word_spec data (k * 32) Hk) as R1.
    unfold max_alloc in R1. specialize (R1 Hl).
    destruct (read_word_u64 data (k * 32)) as [lbo| |]; [|lia|contradiction].
    destruct R1 as (_ & R1b & R1c). rewrite <- W3 in R1c.
    assert (Elbo : lbo = ioib).
    { rewrite R1c. unfold word_u64, u64, ioib. rewrite two64_Z. reflexivity. }
    clear R1c. subst lbo.
    pose proof (read_word_spec data ioib X1) as R2.
    unfold max_alloc in R2. specialize (R2 Hl).
    destruct (read_word_u64 data ioib) as [len'| |]; [|lia|contradiction].
    destruct R2 as (_ & R2b & R2c). rewrite <- X3 in R2c.
    assert (Elen : len' = len).
    { rewrite R2c. unfold word_u64, u64, len. rewrite two64_Z. reflexivity. }
    clear R2c. subst len'.
    rewrite (u64_small (ioib + 32)) by lia.
    rewrite (u64_small (zlen data - (ioib + 32))) by lia.
    destruct (zlen data - (ioib + 32) <? len) eqn:E1; [lia|].
    unfold max_alloc. destruct (281474976710656 <? len) eqn:E2; [lia|].
    rewrite (u64_small (ioib + 32 + len)) by lia.
    rewrite slice_ok by lia.
    replace (ioib + 32 + len - (ioib + 32)) with len by lia.
    rewrite copy_into_exact; [reflexivity|].
    rewrite firstn_length, skipn_length. unfold zlen in *. lia.
Qed.

Lemma ref_value_fun p lg v v' :
  ref_validate p = true -> wf_log lg -> ref_value p lg v -> ref_value p lg v' -> v = v'.
Proof.
  intros Hr Hl H1 H2.
  pose proof (get_value_ref p lg v Hr Hl H1) as E1.
  pose proof (get_value_ref p lg v' Hr Hl H2) as E2. congruence.
Qed.

Lemma vp_match_holds p v :
  vp_validate p = true -> exists b, vp_match p v = MOk b /\ (b = true <-> pred_holds p v).
Proof.
  intros H. destruct (vp_validate_shape p H) as [(Ho & a & Hi & _ & Hb)|(Ho & Hi & b & Hb)].
  - unfold vp_match, pred_holds. rewrite Hi.
    assert (C : (p_op p = 0 \/ p_op p = 1 \/ p_op p = 2 \/ p_op p = 3 \/ p_op p = 4)%N) by lia.
    destruct C as [E|[E|[E|[E|E]]]]; rewrite E; eexists; (split; [reflexivity|]).
    + apply Z.ltb_lt.
    + apply Z.leb_le.
    + apply Z.eqb_eq.
    + rewrite Z.gtb_ltb, Z.ltb_lt. lia.
    + rewrite Z.geb_leb, Z.leb_le. lia.
  - unfold vp_match, pred_holds. rewrite Ho, Hb. eexists. split; [reflexivity|].
    apply bytes_eqb_eq.
Qed.

Lemma lp_match_semantics p lg v :
  lp_validate p = true -> wf_log lg -> ref_value p lg v ->
  exists b, lp_match p lg = MOk b /\ (b = true <-> pred_holds p v).
Proof.
  intros Hv Hl HV. destruct (lp_validate_parts p Hv) as (Hr & Hvp & _).
  unfold lp_match, lp_match_with. fold (get_value p lg).
  rewrite (get_value_ref p lg v Hr Hl HV). apply vp_match_holds. exact Hvp.
Qed.

Lemma match_preds_semantics ps lg :
  forallb lp_validate ps = true -> wf_log lg ->
  (forall p, In p ps -> exists v, ref_value p lg v) ->
  exists b, match_preds ps lg = MOk b /\
            (b = true <-> forall p, In p ps -> exists v, ref_value p lg v /\ pred_holds p v).
Proof.
  intros Hv Hl. induction ps as [|p r IH]; intros Hwf.
  - exists true. split; [reflexivity|]. split; [intros _ p []|reflexivity].
  - simpl in Hv. apply andb_true_iff in Hv as [Hp Hr].
    destruct (Hwf p (or_introl eq_refl)) as (v & HV).
    destruct (lp_match_semantics p lg v Hp Hl HV) as (b & Eb & Sb).
    unfold match_preds in *. simpl. fold (lp_match p lg). rewrite Eb.
    destruct (lp_validate_parts p Hp) as (Hrv & _ & _).
    destruct b.
    + destruct (IH Hr (fun q Hq => Hwf q (or_intror Hq))) as (b' & Eb' & Sb').
      exists b'. split; [exact Eb'|]. rewrite Sb'. split.
      * intros A q [<-|Hq]; [exists v; split; [exact HV|apply Sb; reflexivity]|apply A; exact Hq].
      * intros A q Hq. apply A. right. exact Hq.
    + exists false. split; [reflexivity|]. split; [discriminate|].
      intros A. destruct (A p (or_introl eq_refl)) as (v' & HV' & Hh).
      rewrite (ref_value_fun p lg v' v Hrv Hl HV' HV) in Hh. apply Sb in Hh. discriminate.
Qed.

Theorem match_semantics d lg :
  validate d = true -> wf_log lg -> well_formed_for d lg ->
  exists b, match_def d lg = MOk b /\ (b = true <-> matches_spec d lg).
Proof.
  intros Hv Hl Hwf. unfold match_def, match_with, matches_spec.
  destruct (bytes_eqb (l_addr lg) (d_contract d)) eqn:Ea; simpl.
  - apply bytes_eqb_eq in Ea.
    destruct (match_preds_semantics (d_preds d) lg (proj1 (validate_parts d Hv)) Hl Hwf) as (b & Eb & Sb).
    exists b. split; [exact Eb|]. rewrite Sb. tauto.
  - exists false. split; [reflexivity|]. split; [discriminate|].
    intros [A _]. apply bytes_eqb_neq in Ea. contradiction.
Qed.

(* ---- ToFilterQuery --------------------------------------------------------------------- *)

Local Arguments Nat.sub : simpl never.

Lemma nth_error_app_repeat {A} (l : list A) (x : A) k i y :
  nth_error (l ++ repeat x k) i = Some y -> nth_error l i = Some y \/ y = x.
Proof.
  intros H. destruct (Nat.lt_ge_cases i (length l)) as [Hlt|Hge].
  - rewrite nth_error_app1 in H by exact Hlt. left. exact H.
  - rewrite nth_error_app2 in H by exact Hge. right.
    apply nth_error_In in H. apply repeat_spec in H. exact H.
Qed.

Lemma nth_error_set_nth {A} i j (x : A) l y :
  nth_error (set_nth i x l) j = Some y ->
  (j = i /\ y = x) \/ nth_error l j = Some y.
Proof.
  revert i j. induction l as [|a l IH]; intros i j H; simpl in *.
  - destruct i; simpl in H; right; exact H.
  - destruct i, j; simpl in *.
    + injection H as <-. left. auto.
    + right. exact H.
    + right. exact H.
    + destruct (IH i j H) as [[-> ->]|E]; [left; auto|right; exact E].
Qed.

Lemma existsb_Neqb_false x l : existsb (N.eqb x) l = false -> ~ In x l.
Proof.
  intros H Hin. assert (E : existsb (N.eqb x) l = true).
  { apply existsb_exists. exists x. split; [exact Hin|apply N.eqb_refl]. }
  congruence.
Qed.

Lemma to_filter_loop_exists ps : forall topics seen,
  forallb lp_validate ps = true -> no_dup_topics ps seen = true ->
  (forall i sub, nth_error topics i = Some sub -> sub <> [] -> In (N.of_nat i) seen) ->
  exists q, to_filter_loop ps topics = FOk q.
Proof.
  induction ps as [|p r IH]; intros topics seen Hv Hd Hinv; simpl.
  - eexists. reflexivity.
  - simpl in Hv. apply andb_true_iff in Hv as [Hp Hr]. simpl in Hd.
    destruct (lp_validate_parts p Hp) as (_ & _ & H32).
    unfold is_topic_eq in *.
    destruct (is_topic p) eqn:Et; simpl in *; [|apply (IH topics seen Hr Hd Hinv)].
    destruct (p_op p =? 5)%N eqn:Eo; simpl in *; [|apply (IH topics seen Hr Hd Hinv)].
    destruct (existsb (N.eqb (p_off p)) seen) eqn:Es; [discriminate|].
    apply existsb_Neqb_false in Es.
    destruct (H32 eq_refl) as (a & Ha & Hlen). rewrite Ha.
    set (idx := N.to_nat (p_off p)).
    set (topics' := topics ++ repeat [] (S idx - length topics)).
    assert (Hlen' : (idx < length topics')%nat).
    { unfold topics'. rewrite app_length, repeat_length. lia. }
    destruct (nth_error topics' idx) as [cur|] eqn:En;
      [|apply nth_error_None in En; lia].
    assert (Hcur : cur = []).
    { destruct (nth_error_app_repeat _ _ _ _ _ En) as [E|E]; [|exact E].
      destruct cur as [|c cs]; [reflexivity|].
      exfalso. apply Es. replace (p_off p) with (N.of_nat idx) by (unfold idx; lia).
      eapply Hinv; [exact E|discriminate]. }
    subst cur. rewrite Hlen. simpl.
    apply (IH _ (p_off p :: seen) Hr Hd).
    intros i sub Hn Hne.
    destruct (nth_error_set_nth _ _ _ _ _ Hn) as [[-> _]|E].
    + left. unfold idx. lia.
    + right. destruct (nth_error_app_repeat _ _ _ _ _ E) as [E'|E'].
      * eapply Hinv; eauto.
      * contradiction.
Qed.

Theorem filter_exists d : validate d = true -> exists q, to_filter d = FOk q.
Proof.
  intros Hv. destruct (validate_parts d Hv) as (H1 & H2). unfold to_filter.
  apply (to_filter_loop_exists (d_preds d) [] [] H1 H2).
  intros i sub Hn. destruct i; discriminate.
Qed.

(* ---- the filter never hides a matching log --------------------------------------------- *)

Lemma topics_pass_pad q ts k :
  topics_pass q ts = true -> (length q + k <= length ts)%nat ->
  topics_pass (q ++ repeat [] k) ts = true.
Proof.
  revert ts. induction q as [|sub q IH]; intros ts H Hl; simpl in *.
  - revert ts Hl. induction k as [|k IHk]; intros ts Hl; simpl; [reflexivity|].
    destruct ts as [|t ts]; simpl in *; [lia|]. apply IHk. lia.
  - destruct ts as [|t ts]; [discriminate|]. simpl in Hl.
    apply andb_true_iff in H as [H1 H2]. rewrite H1. simpl. apply IH; [exact H2|lia].
Qed.

Lemma topics_pass_set q : forall ts i t,
  topics_pass q ts = true -> nth_error ts i = Some t ->
  topics_pass (set_nth i [t] q) ts = true.
Proof.
  induction q as [|sub q IH]; intros ts i t H Hn; simpl in *.
  - destruct i; reflexivity.
  - destruct ts as [|t0 ts]; [discriminate|].
    apply andb_true_iff in H as [H1 H2].
    destruct i; simpl in *.
    + injection Hn as ->. rewrite bytes_eqb_refl. simpl. exact H2.
    + rewrite H1. simpl. apply IH; assumption.
Qed.

Lemma to_filter_loop_sound godv lg ps : forall topics q,
  to_filter_loop ps topics = FOk q ->
  match_preds_with godv ps lg = MOk true ->
  topics_pass topics (l_topics lg) = true ->
  topics_pass q (l_topics lg) = true.
Proof.
  induction ps as [|p r IH]; intros topics q Hf Hm Hp; simpl in *.
  - injection Hf as <-. exact Hp.
  - destruct (lp_match_with godv p lg) as [[|]| |] eqn:Em; try discriminate.
    destruct (is_topic p) eqn:Et; simpl in Hf; [|eapply IH; eauto].
    destruct (p_op p =? 5)%N eqn:Eo; simpl in Hf; [|eapply IH; eauto].
    apply N.eqb_eq in Eo.
    set (idx := N.to_nat (p_off p)) in *.
    destruct (nth_error (topics ++ repeat [] (S idx - length topics)) idx) as [cur|]; [|discriminate].
    destruct cur; [|discriminate].
    destruct (p_bytes p) as [|a rest] eqn:Eb; [discriminate|].
    destruct (Nat.eqb (length a) 32) eqn:El; [|discriminate].
    apply Nat.eqb_eq in El.
    (* the predicate matched, so the topic is present and equals the argument *)
    unfold lp_match_with, get_value_with in Em. rewrite Et in Em. fold idx in Em.
    assert (Hn : nth_error (l_topics lg) idx = Some a).
    { destruct (nth_error (l_topics lg) idx) as [t|] eqn:En;
        unfold vp_match in Em; rewrite Eo, Eb in Em; injection Em as Em.
      - apply bytes_eqb_eq in Em. subst a. reflexivity.
      - destruct a; [discriminate El|discriminate Em]. }
    eapply IH; [exact Hf|exact Hm|].
    apply topics_pass_set; [|exact Hn].
    apply topics_pass_pad; [exact Hp|].
    assert (idx < length (l_topics lg))%nat by (apply nth_error_Some; congruence).
    assert (length topics <= length (l_topics lg))%nat.
    { clear - Hp. revert Hp. generalize (l_topics lg). induction topics as [|s tp IHt]; intros ts H; simpl in *; [lia|].
      destruct ts; [discriminate|]. apply andb_true_iff in H as [_ H]. simpl. apply IHt in H. lia. }
    lia.
Qed.

Theorem filter_sound d lg q :
  to_filter d = FOk q -> match_def d lg = MOk true -> passes_filter (d_contract d) q lg = true.
Proof.
  unfold to_filter, match_def, match_with, passes_filter. intros Hf Hm.
  destruct (bytes_eqb (l_addr lg) (d_contract d)); simpl in *; [|discriminate].
  eapply to_filter_loop_sound; eauto.
Qed.
