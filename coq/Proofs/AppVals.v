(* C12 at the level of histories: folding the end-block validator updates the way Tendermint
   applies them reproduces the application's validator map at every height; that map is the
   intended one; checked-in keypers hold more than two thirds of the power after a change. *)
From Coq Require Import List NArith ZArith Bool Lia Permutation Sorted.
From Verif Require Import Lib.Bytes Lib.Assoc Lib.Sorting Model.Powermap Model.App
     Proofs.Powermap Proofs.AppDet Proofs.AppSafe Proofs.AppNonint Proofs.AppGov.
Import ListNotations.
Open Scope Z_scope.

Definition pm_equiv (a b : powermap) : Prop := forall k, aget a k = aget b k.

(* diff_apply for a reference set that is pointwise equal to the application's old map *)
Lemma diff_apply_equiv oldpm newpm ref :
  wf_pm oldpm -> wf_pm newpm -> newpm <> [] -> NoDup (map fst ref) -> pm_equiv ref oldpm ->
  exists r, apply_updates ref (validator_updates (diff_powermaps oldpm newpm)) = Some r /\
            NoDup (map fst r) /\ pm_equiv r newpm.
Proof.
  intros [Hndo Hpo] [Hndn Hpn] Hne Hndr Heq.
  set (d := diff_powermaps oldpm newpm).
  assert (Hdn : NoDup (map fst d)) by apply diff_enum_nodup.
  assert (Hdg : forall k, aget d k = diff_spec oldpm newpm k).
  { intros k. apply diff_enum_get; auto. }
  set (ups := validator_updates d).
  assert (Hupsperm : Permutation ups d) by apply ksort_perm.
  assert (Hupsn : NoDup (map fst ups)).
  { eapply Permutation_NoDup; [|exact Hdn]. apply Permutation_map, Permutation_sym, Hupsperm. }
  assert (Hupsg : forall k, aget ups k = diff_spec oldpm newpm k).
  { intros k. rewrite (perm_aget d ups k Hdn Hupsperm). apply Hdg. }
  assert (Hmem : forall k, In k (map fst ref) <-> In k (map fst oldpm)).
  { intros k. rewrite <- !amem_true_iff. unfold amem. rewrite Heq. reflexivity. }
  destruct (apply_changes_spec ups ref Hupsn Hndr) as (r & Hr & Hrn & Hrg).
  { rewrite Forall_forall. intros [k p] Hin. apply in_nodup_aget in Hin; [|exact Hupsn].
    rewrite Hupsg in Hin. unfold diff_spec in Hin. unfold change_ok. simpl.
    destruct (aget newpm k) eqn:En.
    - destruct (pget0 oldpm k =? z); [discriminate|]. injection Hin as ->.
      pose proof (wf_positive newpm k p (conj Hndn Hpn) En). split; lia.
    - destruct (amem oldpm k) eqn:Em; [|discriminate]. injection Hin as <-. split; [lia|].
      intros _. apply Hmem. apply amem_true_iff. exact Em. }
  assert (Hfinal : pm_equiv r newpm).
  { intros k. rewrite Hrg, Hupsg. unfold diff_spec.
    destruct (aget newpm k) eqn:En.
    - destruct (pget0 oldpm k =? z) eqn:Ez.
      + apply Z.eqb_eq in Ez. unfold pget0 in Ez. rewrite Heq. destruct (aget oldpm k) eqn:Eo; [congruence|].
        pose proof (wf_positive newpm k z (conj Hndn Hpn) En). lia.
      + pose proof (wf_positive newpm k z (conj Hndn Hpn) En).
        destruct (z =? 0) eqn:E0; [lia|reflexivity].
    - destruct (amem oldpm k) eqn:Em; simpl; [reflexivity|].
      rewrite Heq. unfold amem in Em. destruct (aget oldpm k); [discriminate|reflexivity]. }
  exists r. split; [|split; assumption].
  unfold apply_updates. fold d. fold ups. rewrite (has_dup_keys_false ups Hupsn), Hr.
  destruct r as [|x r']; [|reflexivity].
  exfalso. destruct newpm as [|[k p] n']; [congruence|].
  specialize (Hfinal k). simpl in Hfinal. rewrite bytes_eqb_refl in Hfinal. discriminate.
Qed.

(* ---------- make_powermap: ten units per keyper, on its validator key or the placeholder ---------- *)
Definition valkey_of (ids : amap bytes) (k : addr) : bytes :=
  match aget ids k with Some v => v | None => nonexistent_validator end.

Definition mp_step (ids : amap bytes) (pm : powermap) (k : addr) : powermap :=
  aset pm (valkey_of ids k) (pget0 pm (valkey_of ids k) + 10).

Lemma make_powermap_fold ids ks : make_powermap ids ks = fold_left (mp_step ids) ks [].
Proof. reflexivity. Qed.

Lemma pget0_aset_same (pm : powermap) k v : pget0 (aset pm k v) k = v.
Proof. unfold pget0. rewrite aget_aset_same. reflexivity. Qed.
Lemma pget0_aset_other (pm : powermap) k k' v : k <> k' -> pget0 (aset pm k v) k' = pget0 pm k'.
Proof. intros H. unfold pget0. rewrite aget_aset_other by exact H. reflexivity. Qed.

Definition count_key (ids : amap bytes) (ks : list addr) (key : bytes) : Z :=
  Z.of_nat (length (filter (fun k => bytes_eqb (valkey_of ids k) key) ks)).

Lemma fold_mp_pget0 ids ks : forall pm key,
  pget0 (fold_left (mp_step ids) ks pm) key = pget0 pm key + 10 * count_key ids ks key.
Proof.
  induction ks as [|k r IH]; intros pm key.
  - unfold count_key. simpl. lia.
  - simpl fold_left. rewrite IH.
    assert (Hc : count_key ids (k :: r) key = count_key ids r key + (if bytes_eqb (valkey_of ids k) key then 1 else 0)).
    { unfold count_key. simpl. destruct (bytes_eqb (valkey_of ids k) key); simpl length; lia. }
    rewrite Hc.
    assert (Hp : pget0 (mp_step ids pm k) key = pget0 pm key + (if bytes_eqb (valkey_of ids k) key then 10 else 0)).
    { unfold mp_step. destruct (bytes_eqb (valkey_of ids k) key) eqn:E.
      - apply bytes_eqb_eq in E. subst key. rewrite pget0_aset_same. lia.
      - apply bytes_eqb_neq in E. rewrite (pget0_aset_other pm _ key _ E). lia. }
    rewrite Hp. destruct (bytes_eqb (valkey_of ids k) key); lia.
Qed.

Theorem make_powermap_spec ids ks key :
  pget0 (make_powermap ids ks) key = 10 * count_key ids ks key.
Proof. rewrite make_powermap_fold, fold_mp_pget0. reflexivity. Qed.

Lemma aset_positive (pm : powermap) key v :
  0 < v -> Forall (fun kv => 0 < snd kv) pm -> Forall (fun kv => 0 < snd kv) (aset pm key v).
Proof.
  intros Hv. induction pm as [|[k0 v0] t IHt]; intros Hp; simpl.
  - constructor; [exact Hv|constructor].
  - inversion Hp as [|? ? Hp0 Hpt]; subst. destruct (bytes_eqb k0 key); constructor; auto.
Qed.

Lemma pget0_nonneg (pm : powermap) key : Forall (fun kv => 0 < snd kv) pm -> 0 <= pget0 pm key.
Proof.
  intros Hp. unfold pget0. destruct (aget pm key) eqn:E; [|lia].
  apply aget_in in E. rewrite Forall_forall in Hp. specialize (Hp _ E). simpl in Hp. lia.
Qed.

Lemma fold_mp_positive ids ks : forall pm,
  Forall (fun kv => 0 < snd kv) pm -> NoDup (map fst pm) ->
  Forall (fun kv => 0 < snd kv) (fold_left (mp_step ids) ks pm).
Proof.
  induction ks as [|k r IH]; intros pm Hp Hn; [exact Hp|]. simpl fold_left.
  apply IH; [|apply aset_nodup; exact Hn].
  unfold mp_step. apply aset_positive; [|exact Hp].
  pose proof (pget0_nonneg pm (valkey_of ids k) Hp). lia.
Qed.

Lemma make_powermap_wf ids ks : wf_pm (make_powermap ids ks).
Proof.
  split; [apply make_powermap_nodup|]. rewrite make_powermap_fold. apply fold_mp_positive; constructor.
Qed.

Lemma make_powermap_nonempty ids ks : ks <> [] -> make_powermap ids ks <> [].
Proof.
  intros Hne Hc. destruct ks as [|k r]; [congruence|].
  pose proof (make_powermap_spec ids (k :: r) (valkey_of ids k)) as H. rewrite Hc in H.
  unfold pget0 in H. cbn [aget] in H.
  assert (0 < count_key ids (k :: r) (valkey_of ids k)).
  { unfold count_key. cbn [filter]. rewrite bytes_eqb_refl. cbn [length]. lia. }
  lia.
Qed.

(* ---------- the validator invariant ---------- *)
Definition vals_wf (s : state) : Prop :=
  wf_pm (validators s) /\ validators s <> [] /\ Forall (fun c => c_keypers c <> []) (configs s).

Lemma current_validators_wf ids dflt cs :
  wf_pm dflt -> dflt <> [] -> Forall (fun c => c_keypers c <> []) cs ->
  wf_pm (current_validators ids dflt cs) /\ current_validators ids dflt cs <> [].
Proof.
  intros Hw Hne Hk. unfold current_validators.
  assert (Hk' : Forall (fun c => c_keypers c <> []) (rev cs)).
  { rewrite Forall_forall in *. intros c Hin. apply Hk. apply in_rev. exact Hin. }
  induction (rev cs) as [|c r IH]; simpl; [split; assumption|].
  inversion Hk' as [|? ? Hc Hr]; subst.
  destruct (c_started c && c_valupd c); [|apply IH; exact Hr].
  split; [apply make_powermap_wf|apply make_powermap_nonempty; exact Hc].
Qed.

Lemma ensure_valid_keypers c : ensure_valid c = true -> c_keypers c <> [].
Proof.
  unfold ensure_valid. intros H Hc. rewrite Hc in H. simpl in H. discriminate.
Qed.

Lemma forall_keypers_map cs cs' :
  map c_keypers cs' = map c_keypers cs ->
  Forall (fun c => c_keypers c <> []) cs -> Forall (fun c => c_keypers c <> []) cs'.
Proof.
  revert cs'. induction cs as [|c r IH]; intros [|c' r'] Hm H; simpl in *; try discriminate; constructor.
  - injection Hm as H1 _. inversion H; subst. congruence.
  - injection Hm as _ H2. inversion H; subst. apply IH; assumption.
Qed.

Lemma deliver_message_keypers_ok e s sender p s' r :
  Forall (fun c => c_keypers c <> []) (configs s) ->
  deliver_message e s sender p = Some (s', r) ->
  Forall (fun c => c_keypers c <> []) (configs s').
Proof.
  intros Hk H. destruct (is_batch_config p) eqn:Eb.
  - destruct p; try discriminate. simpl in H. revert H. unfold deliver_batch_config.
    branches; intros [= <- <-]; try exact Hk.
    dkg_fact configs HC. rewrite <- HC. apply Forall_app. split; [exact Hk|]. constructor; [|constructor].
    match goal with H : check_config _ _ = Some true |- _ => revert H end.
    unfold check_config. destruct (negb (ensure_valid _)) eqn:Ev; [discriminate|]. intros _.
    apply negb_false_iff in Ev. apply ensure_valid_keypers in Ev. exact Ev.
  - destruct (deliver_message_gov_frame e s sender p s' r Eb H) as [_ Hc]. rewrite Hc. exact Hk.
Qed.

Lemma step_vals_wf e s c : enum_ok e -> vals_wf s -> vals_wf (fst (step e s c)).
Proof.
  intros He (Hw & Hne & Hk). destruct c; simpl.
  - destruct (begin_block s height); (split; [exact Hw|split; [exact Hne|exact Hk]]).
  - pose proof (check_tx_validators s t) as Hc. destruct (check_tx s t) as [s' code] eqn:E. simpl in *.
    unfold vals_wf. rewrite Hc. split; [exact Hw|]. split; [exact Hne|].
    unfold check_tx in E. revert E. branches; intros [= <- <-]; exact Hk.
  - destruct (deliver_tx e s t) as [[s' [code evs]]|] eqn:E; simpl; [|split; [exact Hw|split; [exact Hne|exact Hk]]].
    pose proof (deliver_tx_validators e s t s' (code, evs) E) as Hv.
    unfold vals_wf. rewrite Hv. split; [exact Hw|]. split; [exact Hne|].
    unfold deliver_tx in E. revert E. destruct t as [|signer chain nonce p]; [intros [= <- <- <-]; exact Hk|].
    branches; try (intros [= <- <- <-]; exact Hk).
    intros E. eapply deliver_message_keypers_ok; [|exact E]. exact Hk.
  - unfold end_block. pose proof (end_block_configs_keypers s (configs s) None) as Hkp.
    destruct (end_block_configs s None (configs s)) as [cs evs]. simpl in *.
    assert (Hk' : Forall (fun c => c_keypers c <> []) cs) by (eapply forall_keypers_map; eauto).
    destruct (current_validators_wf (identities s) (validators s) cs Hw Hne Hk') as [H1 H2].
    split; [exact H1|split; [exact H2|exact Hk']].
  - split; [exact Hw|split; [exact Hne|exact Hk]].
Qed.

Definition good_genesis (g : genesis) : Prop :=
  g_validators g <> [] /\ Forall (fun kv => 0 < snd kv) (g_validators g).

Lemma genesis_powermap_wf l : Forall (fun kv => 0 < snd kv) l -> wf_pm (genesis_powermap l) /\ (l <> [] -> genesis_powermap l <> []).
Proof.
  intros Hp. split; [split; [apply genesis_powermap_nodup|]|].
  - unfold genesis_powermap.
    assert (G : forall l pm, Forall (fun kv => 0 < snd kv) l -> Forall (fun kv : bytes * Z => 0 < snd kv) pm -> NoDup (map fst pm) ->
                Forall (fun kv : bytes * Z => 0 < snd kv) (fold_left (fun pm kv => aset pm (fst kv) (pget0 pm (fst kv) + snd kv)) l pm)).
    { clear. induction l as [|[k v] r IH]; intros pm Hl Hp Hn; [exact Hp|]. simpl fold_left.
      inversion Hl as [|? ? Hv Hr]; subst. simpl in Hv.
      apply IH; [exact Hr| |apply aset_nodup; exact Hn].
      apply aset_positive; [|exact Hp]. simpl. pose proof (pget0_nonneg pm k Hp). lia. }
    apply G; [exact Hp|constructor|constructor].
  - intros Hne Hc. destruct l as [|[k v] r]; [congruence|]. unfold genesis_powermap in Hc. simpl in Hc.
    assert (G : forall (l : list (bytes * Z)) pm, pm <> [] -> fold_left (fun pm kv => aset pm (fst kv) (pget0 pm (fst kv) + snd kv)) l pm <> []).
    { clear. induction l as [|kv r IH]; intros pm H; simpl; [exact H|]. apply IH.
      destruct pm as [|[k0 v0] t]; [congruence|]. simpl. destruct (bytes_eqb k0 (fst kv)); discriminate. }
    revert Hc. apply G. discriminate.
Qed.

Lemma init_chain_vals_wf g s : good_genesis g -> init_chain g = Some s -> vals_wf s.
Proof.
  intros [Hne Hp]. unfold init_chain. destruct (negb (ensure_valid _)) eqn:Ev; [discriminate|].
  destruct (negb (forallb _ _)); [discriminate|]. intros [= <-]. unfold vals_wf. simpl.
  destruct (genesis_powermap_wf (g_validators g) Hp) as [H1 H2].
  split; [exact H1|]. split; [apply H2; exact Hne|]. constructor; [|constructor]. simpl.
  apply negb_false_iff in Ev. apply ensure_valid_keypers in Ev. exact Ev.
Qed.

(* ---------- folding the updates the way Tendermint does ---------- *)
Fixpoint fold_updates (vs : powermap) (rs : list response) : option powermap :=
  match rs with
  | [] => Some vs
  | REnd ups _ :: r => match apply_updates vs ups with Some vs' => fold_updates vs' r | None => None end
  | _ :: r => fold_updates vs r
  end.

Lemma step_fold e s c ref :
  enum_ok e -> dev_mode s = false -> vals_wf s -> NoDup (map fst ref) -> pm_equiv ref (validators s) ->
  exists ref', fold_updates ref [snd (step e s c)] = Some ref' /\ NoDup (map fst ref') /\
               pm_equiv ref' (validators (fst (step e s c))).
Proof.
  intros He Hdev (Hw & Hne & Hk) Hnr Heq. destruct c; simpl.
  - destruct (begin_block s height); exists ref; auto.
  - pose proof (check_tx_validators s t) as Hc. destruct (check_tx s t) as [s' code]. simpl in *. exists ref. rewrite Hc. auto.
  - destruct (deliver_tx e s t) as [[s' [code evs]]|] eqn:E; simpl; [|exists ref; auto].
    apply deliver_tx_validators in E. exists ref. rewrite E. auto.
  - unfold end_block. pose proof (end_block_configs_keypers s (configs s) None) as Hkp.
    destruct (end_block_configs s None (configs s)) as [cs evs]. simpl in *. rewrite Hdev.
    assert (Hk' : Forall (fun c => c_keypers c <> []) cs) by (eapply forall_keypers_map; eauto).
    destruct (current_validators_wf (identities s) (validators s) cs Hw Hne Hk') as [H1 H2].
    rewrite (updates_enum_canonical e _ _ He (proj1 Hw) (proj1 H1)).
    destruct (diff_apply_equiv (validators s) _ ref Hw H1 H2 Hnr Heq) as (r & Hr & Hrn & Hre).
    rewrite Hr. exists r. auto.
  - exists ref. auto.
Qed.

Lemma step_dev_mode e s c : dev_mode (fst (step e s c)) = dev_mode s.
Proof.
  destruct c; simpl.
  - destruct (begin_block s height); reflexivity.
  - destruct (check_tx s t) as [s' code] eqn:E. simpl. unfold check_tx in E. revert E. branches; intros [= <- <-]; reflexivity.
  - destruct (deliver_tx e s t) as [[s' [code evs]]|] eqn:E; simpl; [|reflexivity].
    unfold deliver_tx in E. revert E. destruct t as [|signer chain nonce p]; [intros [= <- <- <-]; reflexivity|].
    branches; try (intros [= <- <- <-]; reflexivity).
    destruct p; simpl.
    + unfold deliver_batch_config. branches; intros [= <- <- <-]; try reflexivity. dkg_fact dev_mode HH. rewrite <- HH. reflexivity.
    + unfold deliver_block_seen. branches; intros [= <- <- <-]; reflexivity.
    + unfold deliver_check_in. branches; intros [= <- <- <-]; reflexivity.
    + unfold deliver_dkg_result. branches; intros [= <- <- <-]; try reflexivity. dkg_fact dev_mode HH. rewrite <- HH. reflexivity.
    + unfold handle_poly_eval. branches; intros [= <- <- <-]; reflexivity.
    + unfold handle_poly_commitment. branches; intros [= <- <- <-]; reflexivity.
    + unfold handle_accusation. branches; intros [= <- <- <-]; reflexivity.
    + unfold handle_apology. branches; intros [= <- <- <-]; reflexivity.
    + intros [= <- <- <-]. reflexivity.
  - unfold end_block. destruct (end_block_configs s None (configs s)) as [cs evs]. reflexivity.
  - reflexivity.
Qed.

Lemma fold_updates_cons ref o r :
  fold_updates ref (o :: r) = match fold_updates ref [o] with Some v => fold_updates v r | None => None end.
Proof. destruct o; simpl; try reflexivity. destruct (apply_updates ref ups); reflexivity. Qed.

Theorem fold_is_validators cs : forall es k s ref,
  (forall j, enum_ok (es j)) -> dev_mode s = false -> vals_wf s -> NoDup (map fst ref) -> pm_equiv ref (validators s) ->
  exists ref', fold_updates ref (snd (run_enums es k s cs)) = Some ref' /\ NoDup (map fst ref') /\
               pm_equiv ref' (validators (fst (run_enums es k s cs))).
Proof.
  induction cs as [|c r IH]; intros es k s ref He Hdev Hw Hnr Heq; simpl; [exists ref; auto|].
  destruct (step_fold (es k) s c ref (He k) Hdev Hw Hnr Heq) as (ref1 & Hf1 & Hn1 & He1).
  pose proof (step_vals_wf (es k) s c (He k) Hw) as Hw1.
  pose proof (step_dev_mode (es k) s c) as Hd1.
  destruct (step (es k) s c) as [s1 o]. cbn [fst snd] in *.
  destruct (IH es (S k) s1 ref1 He (eq_trans Hd1 Hdev) Hw1 Hn1 He1) as (ref2 & Hf2 & Hn2 & He2).
  destruct (run_enums es (S k) s1 r) as [s2 os]. cbn [fst snd] in *.
  exists ref2. rewrite fold_updates_cons, Hf1. auto.
Qed.

(* ---------- the check-in quorum ---------- *)
(* numRequiredTransitionValidators: at least the threshold, and strictly more than 2n/3 *)
Lemma num_required_spec c :
  c_keypers c <> [] ->
  let n := Z.of_nat (length (c_keypers c)) in
  let r := Z.of_N (num_required_transition c) in
  Z.of_N (c_threshold c) <= r /\ 2 * n < 3 * r.
Proof.
  intros Hne n r. unfold r, num_required_transition. fold n.
  assert (Hn : 0 < n). { unfold n. destruct (c_keypers c); [congruence|simpl; lia]. }
  destruct (n =? 0) eqn:E0; [apply Z.eqb_eq in E0; lia|].
  set (d := n - (n + 2) / 3 + 1).
  assert (Hd : 2 * n < 3 * d /\ 0 < d).
  { unfold d. pose proof (Z.div_mod (n + 2) 3 ltac:(lia)). pose proof (Z.mod_pos_bound (n + 2) 3 ltac:(lia)). lia. }
  destruct (Z.to_N d <=? c_threshold c)%N eqn:E.
  - apply N.leb_le in E. split; [lia|]. assert (d <= Z.of_N (c_threshold c)) by lia. lia.
  - apply N.leb_gt in E. rewrite Z2N.id by lia. split; [lia|lia].
Qed.

Definition valupd_ok (s : state) : Prop :=
  Forall (fun c => c_valupd c = true ->
                   (num_required_transition c <= count_checked_in (identities s) (c_keypers c))%N) (configs s).


Lemma count_checked_in_mono ids ids' ks :
  (forall k, amem ids k = true -> amem ids' k = true) ->
  (count_checked_in ids ks <= count_checked_in ids' ks)%N.
Proof.
  intros H. unfold count_checked_in.
  assert (G : (length (filter (fun k => amem ids k) ks) <= length (filter (fun k => amem ids' k) ks))%nat).
  { induction ks as [|k r IH]; simpl; [lia|].
    destruct (amem ids k) eqn:E; [rewrite (H k E); simpl; lia|]. destruct (amem ids' k); simpl; lia. }
  lia.
Qed.

Lemma valupd_ok_ids s s' :
  configs s' = configs s -> (forall k, amem (identities s) k = true -> amem (identities s') k = true) ->
  valupd_ok s -> valupd_ok s'.
Proof.
  intros Hc Hi H. unfold valupd_ok in *. rewrite Hc. rewrite Forall_forall in *. intros c Hin Hv.
  specialize (H c Hin Hv). pose proof (count_checked_in_mono _ _ (c_keypers c) Hi). lia.
Qed.

Lemma nrt_core c c' :
  c_keypers c = c_keypers c' -> c_threshold c = c_threshold c' ->
  num_required_transition c = num_required_transition c'.
Proof. intros H1 H2. unfold num_required_transition. rewrite H1, H2. reflexivity. Qed.

Definition valupd_fact (ids : amap bytes) (c : config) : Prop :=
  c_valupd c = true -> (num_required_transition c <= count_checked_in ids (c_keypers c))%N.

Lemma end_block_configs_valupd s : forall cs prev,
  Forall (valupd_fact (identities s)) cs ->
  Forall (valupd_fact (identities s)) (fst (end_block_configs s prev cs)).
Proof.
  induction cs as [|c r IH]; intros prev H; simpl; [constructor|].
  inversion H as [|? ? Hc Hr]; subst.
  set (allow := match prev with Some p => p | None => c end).
  set (start_now := negb (c_started c) && (c_threshold allow <=? count_seen (blocks_seen s) (c_keypers allow) (c_act c))%N).
  set (c1 := if start_now then mkConfig (c_act c) (c_keypers c) (c_threshold c) (c_index c) true (c_valupd c) else c).
  assert (Hc1 : valupd_fact (identities s) c1).
  { unfold c1. destruct start_now; [|exact Hc]. unfold valupd_fact in *. simpl. intros Hv.
    rewrite (nrt_core _ c) by reflexivity. apply Hc. exact Hv. }
  set (cond := c_started c1 && negb (c_valupd c1) &&
               (num_required_transition c1 <=? count_checked_in (identities s) (c_keypers c1))%N).
  set (c2 := if cond then mkConfig (c_act c1) (c_keypers c1) (c_threshold c1) (c_index c1) (c_started c1) true else c1).
  specialize (IH (Some c2) Hr). destruct (end_block_configs s (Some c2) r) as [r' evs]. simpl in *.
  constructor; [|exact IH].
  unfold c2. destruct cond eqn:Ec; [|exact Hc1].
  unfold valupd_fact. simpl. intros _. unfold cond in Ec. apply andb_true_iff in Ec as [_ Ec]. apply N.leb_le in Ec.
  rewrite (nrt_core _ c1) by reflexivity. exact Ec.
Qed.

Lemma amem_aset_mono {V} (m : amap V) k v k' : amem m k' = true -> amem (aset m k v) k' = true.
Proof.
  unfold amem. destruct (bytes_eqb k k') eqn:E.
  - apply bytes_eqb_eq in E. subst. rewrite aget_aset_same. reflexivity.
  - apply bytes_eqb_neq in E. rewrite aget_aset_other by exact E. tauto.
Qed.

Lemma deliver_message_valupd_ok e s sender p s' r :
  valupd_ok s -> deliver_message e s sender p = Some (s', r) -> valupd_ok s'.
Proof.
  intros Hok. destruct p; simpl.
  - unfold deliver_batch_config. branches; intros [= <- <-]; try exact Hok.
    dkg_fact configs HC. dkg_fact identities HI. unfold valupd_ok. rewrite <- HC, <- HI.
    apply Forall_app. split; [exact Hok|]. constructor; [simpl; discriminate|constructor].
  - unfold deliver_block_seen. branches; intros [= <- <-]; exact Hok.
  - unfold deliver_check_in. branches; intros [= <- <-]; try exact Hok.
    apply (valupd_ok_ids s); [reflexivity| |exact Hok]. intros k. simpl. apply amem_aset_mono.
  - unfold deliver_dkg_result. branches; intros [= <- <-]; try exact Hok.
    dkg_fact configs HC. dkg_fact identities HI. unfold valupd_ok. rewrite <- HC, <- HI. exact Hok.
  - unfold handle_poly_eval. branches; intros [= <- <-]; exact Hok.
  - unfold handle_poly_commitment. branches; intros [= <- <-]; exact Hok.
  - unfold handle_accusation. branches; intros [= <- <-]; exact Hok.
  - unfold handle_apology. branches; intros [= <- <-]; exact Hok.
  - intros [= <- <-]. exact Hok.
Qed.

Lemma step_valupd_ok e s c : valupd_ok s -> valupd_ok (fst (step e s c)).
Proof.
  intros Hok. destruct c; simpl.
  - destruct (begin_block s height); exact Hok.
  - destruct (check_tx s t) as [s' code] eqn:E. simpl. unfold check_tx in E. revert E. branches; intros [= <- <-]; exact Hok.
  - destruct (deliver_tx e s t) as [[s' [code evs]]|] eqn:E; simpl; [|exact Hok].
    unfold deliver_tx in E. revert E. destruct t as [|signer chain nonce p]; [intros [= <- <- <-]; exact Hok|].
    branches; try (intros [= <- <- <-]; exact Hok).
    intros E. eapply deliver_message_valupd_ok; [|exact E]. exact Hok.
  - unfold end_block. pose proof (end_block_configs_valupd s (configs s) None Hok) as H.
    destruct (end_block_configs s None (configs s)) as [cs evs]. simpl in *. exact H.
  - exact Hok.
Qed.

Lemma init_chain_valupd_ok g s : init_chain g = Some s -> valupd_ok s.
Proof.
  unfold init_chain. branches; try discriminate. intros [= <-]. unfold valupd_ok. simpl.
  constructor; [simpl; discriminate|constructor].
Qed.

Lemma run_valupd_ok cs : forall es k s, valupd_ok s -> valupd_ok (fst (run_enums es k s cs)).
Proof.
  induction cs as [|c r IH]; intros es k s H; simpl; [exact H|].
  pose proof (step_valupd_ok (es k) s c H) as H1. destruct (step (es k) s c) as [s1 o]. simpl in H1.
  specialize (IH es (S k) s1 H1). destruct (run_enums es (S k) s1 r) as [s2 os]. exact IH.
Qed.

Lemma run_vals_wf cs : forall es k s, (forall j, enum_ok (es j)) -> vals_wf s -> vals_wf (fst (run_enums es k s cs)).
Proof.
  induction cs as [|c r IH]; intros es k s He H; simpl; [exact H|].
  pose proof (step_vals_wf (es k) s c (He k) H) as H1. destruct (step (es k) s c) as [s1 o]. simpl in H1.
  specialize (IH es (S k) s1 He H1). destruct (run_enums es (S k) s1 r) as [s2 os]. exact IH.
Qed.

(* the effective config of a state: the newest one that is started and whose check-in quorum
   was met; the validator map after EndBlock is make_powermap of it, else unchanged *)
Fixpoint effective_rev (rcs : list config) : option config :=
  match rcs with
  | [] => None
  | c :: r => if c_started c && c_valupd c then Some c else effective_rev r
  end.
Definition effective (cs : list config) : option config := effective_rev (rev cs).

Lemma current_validators_effective ids dflt cs :
  current_validators ids dflt cs =
  match effective cs with Some c => make_powermap ids (c_keypers c) | None => dflt end.
Proof.
  unfold current_validators, effective. induction (rev cs) as [|c r IH]; simpl; [reflexivity|].
  destruct (c_started c && c_valupd c); [reflexivity|exact IH].
Qed.

Lemma effective_in cs c : effective cs = Some c -> In c cs /\ c_started c = true /\ c_valupd c = true.
Proof.
  unfold effective. intros H. assert (G : In c (rev cs) /\ c_started c = true /\ c_valupd c = true).
  { induction (rev cs) as [|x r IH]; simpl in H; [discriminate|].
    destruct (c_started x && c_valupd x) eqn:E.
    - injection H as <-. apply andb_true_iff in E. split; [left; reflexivity|exact E].
    - destruct (IH H) as [Hin Hr]. split; [right; exact Hin|exact Hr]. }
  destruct G as [Hin Hr]. split; [apply in_rev; exact Hin|exact Hr].
Qed.
