(* A concrete matcher for examples, and D10 on the model: the same chain gives different fired
   sets with range limit 1 and range limit 10. *)
From Coq Require Import List NArith ZArith Bool Lia String.
From Verif Require Import Lib.Bytes Model.Syncer Model.TriggerSync
     Proofs.SyncerLemmas Proofs.Syncer Proofs.SyncerInstances Proofs.TriggerSyncLemmas Proofs.TriggerSync.
Import ListNotations.
Open Scope string_scope.
Open Scope list_scope.
Open Scope Z_scope.

(* logs are tagged with the definition they match *)
Definition tag_match (d : bytes) (l : bytes) : bool := bytes_eqb d l.
Definition xitem := titem bytes.

Definition reg1 : uev := mkuev 1 (hx "aa") (hx "bb") 0 (hx "d1") true 100 0 0.
Definition d10_view : view xitem :=
  [ mkblk (hx "00") []; mkblk (hx "01") []; mkblk (hx "02") [];
    mkblk (hx "03") [(0, 0, IReg reg1)];          (* the trigger is registered in block 3 *)
    mkblk (hx "04") [(0, 0, ILog (hx "d1"))];     (* a matching log in block 4 *)
    mkblk (hx "05") [] ].

Definition d10_flavour (range : Z) : flavour := multi_flavour 0 10 range.
Definition d10_history : list (top bytes) := [TSync d10_view [] [] []].

Lemma d10_view_ok range : 0 < range < 1000 -> view_ok (@t_key bytes) (@t_admissible bytes) (d10_flavour range) d10_view.
Proof.
  intros Hr. split; [discriminate|]. split; [|split].
  - intros b Hb. simpl in Hb. repeat (destruct Hb as [<-|Hb]; [discriminate|]). destruct Hb.
  - unfold keys_unique. concrete_nodup.
  - change (5 + range < 9223372036854775808). lia.
Qed.

(* every hypothesis of the exactness theorem except the D10 exclusion *)
Definition d10_hyps (range : Z) : Prop :=
  view_ok (@t_key bytes) (@t_admissible bytes) (d10_flavour range) d10_view /\
  hash_determines d10_view d10_view /\
  theads_ok tag_match (d10_flavour range) tginit d10_history /\
  no_decrypt bytes d10_history.

Lemma d10_hyps_hold range : 0 < range < 1000 -> d10_hyps range.
Proof.
  intros Hr. split; [apply d10_view_ok; exact Hr|].
  split; [intros n bv bw _ _ _; apply agree_upto_refl|]. split; [split; exact I|].
  intros k [H|[]]. discriminate.
Qed.

Theorem batching_refuted :
  d10_hyps 1 /\ d10_hyps 10 /\
  st_status (ts_core (tg_st (tgrun tag_match (d10_flavour 1) d10_history))) = Some (5, hx "05") /\
  st_status (ts_core (tg_st (tgrun tag_match (d10_flavour 10) d10_history))) = Some (5, hx "05") /\
  block_at d10_view 5 = Some (mkblk (hx "05") []) /\
  List.length (ts_fired (tg_st (tgrun tag_match (d10_flavour 1) d10_history))) = 1%nat /\
  ts_fired (tg_st (tgrun tag_match (d10_flavour 10) d10_history)) = [] /\
  should_fire tag_match d10_view 1 5 (mkfired (trigger_key reg1) 4 (hx "04") 0 0).
Proof.
  split; [apply d10_hyps_hold; lia|]. split; [apply d10_hyps_hold; lia|].
  split; [vm_compute; reflexivity|]. split; [vm_compute; reflexivity|]. split; [reflexivity|].
  split; [vm_compute; reflexivity|]. split; [vm_compute; reflexivity|].
  exists (mkpev 3 (hx "03") 0 0 (IReg reg1)), (mkpev 4 (hx "04") 0 0 (ILog (hx "d1"))).
  split; [vm_compute; left; reflexivity|]. split; vm_compute; reflexivity.
Qed.

(* the chain violates the exclusion for range limit 10 and satisfies it for 1 *)
Lemma d10_not_excluded : ~ no_early_match tag_match 10 d10_view.
Proof.
  intros H.
  specialize (H (mkpev 3 (hx "03") 0 0 (IReg reg1)) reg1 (mkpev 4 (hx "04") 0 0 (ILog (hx "d1")))).
  assert (3 + 10 <= 4); [|lia]. apply H.
  - vm_compute. left. reflexivity.
  - reflexivity.
  - vm_compute. right. left. reflexivity.
  - vm_compute. reflexivity.
Qed.

(* in the exact form: the one range [1, 5] of the Sync with limit 10 has the D10 shape, the five
   one-block ranges of the Sync with limit 1 do not *)
Lemma d10_shape_present : ~ td10_free tag_match (d10_flavour 10) tginit d10_history.
Proof.
  intros [H _]. specialize (H 1 5). cbv beta in H.
  assert (Hin : In (1, 5) (sync_ranges_of (d10_flavour 10) d10_view (tg_st tginit))) by (vm_compute; left; reflexivity).
  specialize (H Hin (mkpev 3 (hx "03") 0 0 (IReg reg1))).
  assert (Hp : In (mkpev 3 (hx "03") 0 0 (IReg reg1)) (rows_of (@t_admissible bytes) d10_view 1 5)) by (vm_compute; left; reflexivity).
  specialize (H Hp). vm_compute in H. discriminate.
Qed.

(* a fork: the trigger fires on branch a at block 4; the log is absent on branch b and appears
   again at block 6: after the reorganisation the fired row is the one of the new branch *)
Definition fork_a : view xitem :=
  [ mkblk (hx "00") []; mkblk (hx "01") [(0, 0, IReg reg1)]; mkblk (hx "02") []; mkblk (hx "03") [];
    mkblk (hx "a4") [(0, 0, ILog (hx "d1"))] ].
Definition fork_b : view xitem :=
  [ mkblk (hx "00") []; mkblk (hx "01") [(0, 0, IReg reg1)]; mkblk (hx "02") []; mkblk (hx "03") [];
    mkblk (hx "b4") []; mkblk (hx "b5") [] ].
Definition fork_b' : view xitem := fork_b ++ [ mkblk (hx "b6") [(0, 0, ILog (hx "d1"))] ].
Definition fork_flavour : flavour := multi_flavour 0 2 1.
Definition fork_history : list (top bytes) := [TSync fork_a [] [] []; TSync fork_b [] [] []; TSync fork_b' [] [] []].

Example fork_unfires_and_refires :
  ts_fired (tg_st (tgrun tag_match fork_flavour [TSync fork_a [] [] []])) = [mkfired (trigger_key reg1) 4 (hx "a4") 0 0] /\
  ts_fired (tg_st (tgrun tag_match fork_flavour [TSync fork_a [] [] []; TSync fork_b [] [] []])) = [] /\
  ts_fired (tg_st (tgrun tag_match fork_flavour fork_history)) = [mkfired (trigger_key reg1) 6 (hx "b6") 0 0].
Proof. vm_compute. repeat split. Qed.

(* the hypotheses of the exactness theorem hold for the fork history (range limit 1) *)
Lemma fork_view_ok v : In v [fork_a; fork_b; fork_b'] -> view_ok (@t_key bytes) (@t_admissible bytes) fork_flavour v.
Proof.
  intros [<-|[<-|[<-|[]]]]; (split; [discriminate|]; split; [|split]);
    try (intros b Hb; simpl in Hb; repeat (destruct Hb as [<-|Hb]; [discriminate|]); destruct Hb);
    try (unfold keys_unique; concrete_nodup); vm_compute; reflexivity.
Qed.

Lemma fork_hypotheses :
  tuniverse_ok fork_flavour (top_views fork_history) /\
  theads_ok tag_match fork_flavour tginit fork_history /\
  td10_free tag_match fork_flavour tginit fork_history /\
  no_decrypt bytes fork_history.
Proof.
  assert (HU : tuniverse_ok fork_flavour (top_views fork_history)).
  { split.
    + intros u Hu. apply fork_view_ok; exact Hu.
    + intros u w [<-|[<-|[<-|[]]]] [<-|[<-|[<-|[]]]]; concrete_hash_determines. }
  assert (Hok : theads_ok tag_match fork_flavour tginit fork_history).
  { split; [exact I|].
    assert (Hg1 : tgstep tag_match fork_flavour tginit (TSync fork_a [] [] [])
                  = mktg (mktstate (mkstate (Some (4, hx "a4")) [mkpev 1 (hx "01") 0 0 (IReg reg1)]) []
                                   [mkfired (trigger_key reg1) 4 (hx "a4") 0 0]) fork_a) by (vm_compute; reflexivity).
    rewrite Hg1. split; [unfold head_ok; cbn [g_st g_view ts_core tg_st tg_view st_status]; split; [concrete_agree|left; vm_compute; discriminate]|].
    assert (Hg2 : tgstep tag_match fork_flavour
                    (mktg (mktstate (mkstate (Some (4, hx "a4")) [mkpev 1 (hx "01") 0 0 (IReg reg1)]) []
                                    [mkfired (trigger_key reg1) 4 (hx "a4") 0 0]) fork_a) (TSync fork_b [] [] [])
                  = mktg (mktstate (mkstate (Some (5, hx "b5")) [mkpev 1 (hx "01") 0 0 (IReg reg1)]) [] []) fork_b) by (vm_compute; reflexivity).
    rewrite Hg2. split; [|exact I].
    unfold head_ok; cbn [g_st g_view ts_core tg_st tg_view st_status]. split; [concrete_agree|right; concrete_agree]. }
  split; [exact HU|]. split; [exact Hok|]. split.
  - apply (no_early_history bytes tag_match fork_flavour ltac:(reflexivity) ltac:(discriminate) ltac:(discriminate) eq_refl fork_history HU);
      [intros u _; apply no_early_match_one|exact Hok].
  - intros k [H|[H|[H|[]]]]; discriminate.
Qed.

(* the same history with failures: the second Sync loses its connection after the rollback's commit,
   the retry resyncs; the result is the same *)
Example fork_history_with_faults :
  ts_fired (tg_st (tgrun tag_match fork_flavour
     [TSync fork_a [] [] []; TSync fork_b [] [] [NoFault; NoFault; FailApplied]; TSync fork_b [] [Fail] []; TSync fork_b [] [] []; TSync fork_b' [] [] []]))
  = [mkfired (trigger_key reg1) 6 (hx "b6") 0 0].
Proof. vm_compute. reflexivity. Qed.
