(* C03 - from the network to its nodes: the core tables of node j after a run of the network are
   the node-level events addressed to j, applied in order; in a network of honest keypers of one
   eon every such event is one the node theorems of Proofs/GossipNetNode.v apply to. *)
From Coq Require Import List NArith ZArith Bool Lia Permutation.
From Verif Require Import Lib.Bytes Lib.Assoc Model.EpochKG Model.EpochKGLabels Model.EpochKGHandler Model.KeysSig
     Model.Gossip Model.GossipMisc Model.GossipNet
     Proofs.EpochKG Proofs.EpochKGHandler Proofs.Gossip Proofs.GossipTotal Proofs.GossipNet Proofs.GossipNetNode.
Import ListNotations.

Section Run.
  Variable sb : N -> N -> bytes -> bytes.
  Variable kb : N -> bytes -> bytes.
  Variable classify : bytes -> lbl.

  Notation step := (step sb kb classify).
  Notation run_net := (run_net sb kb classify).
  Notation handle_msg := (handle_msg kb classify).
  Notation apply_nev := (apply_nev sb kb classify).
  Notation node_run := (node_run sb kb classify).

  (* ----------------------------------------------------------------------------------- *)
  (* lists *)

  Lemma nth_error_set_nth {A} (l : list A) i a : forall j,
    nth_error (set_nth l i a) j =
    if (i =? j)%nat then match nth_error l i with Some _ => Some a | None => None end else nth_error l j.
  Proof.
    revert i. induction l as [|x r IH]; intros i j; simpl.
    - destruct (i =? j)%nat; destruct i, j; reflexivity.
    - destruct i as [|i]; destruct j as [|j]; simpl; try reflexivity. apply IH.
  Qed.

  (* ----------------------------------------------------------------------------------- *)
  (* what the flavour parts leave alone *)

  Lemma core_set_sigs nd s : kn_core (set_sigs nd s) = kn_core nd. Proof. reflexivity. Qed.
  Lemma fl_set_sigs nd s : kn_fl (set_sigs nd s) = kn_fl nd. Proof. reflexivity. Qed.
  Lemma fl_set_core nd c' : kn_fl (set_core nd c') = kn_fl nd. Proof. reflexivity. Qed.

  Lemma flavour_handle_shares_core nd s :
    kn_core (fst (flavour_handle_shares classify nd s)) = kn_core nd /\ kn_fl (fst (flavour_handle_shares classify nd s)) = kn_fl nd.
  Proof.
    unfold flavour_handle_shares. destruct (kn_fl nd) eqn:Ef; destruct (s_extra s); try (split; [reflexivity | exact Ef]).
    - destruct (threshold_of _ _); [|split; [reflexivity | exact Ef]].
      destruct (_ <? _)%Z; [split; [reflexivity | exact Ef]|]. destruct (keys_from_table _ _ _ _); split; try reflexivity; exact Ef.
    - destruct (threshold_of _ _); [|split; [reflexivity | exact Ef]].
      destruct (_ <? _)%Z; [split; [reflexivity | exact Ef]|]. destruct (keys_from_table _ _ _ _); split; try reflexivity; exact Ef.
  Qed.

  Lemma flavour_handle_keys_core nd k :
    kn_core (flavour_handle_keys nd k) = kn_core nd /\ kn_fl (flavour_handle_keys nd k) = kn_fl nd.
  Proof.
    unfold flavour_handle_keys. destruct (kn_fl nd) eqn:Ef; destruct (km_extra k); split; try reflexivity; exact Ef.
  Qed.

  Lemma intercept_shares_core nd m : kn_core (fst (intercept_shares nd m)) = kn_core nd.
  Proof.
    unfold intercept_shares. destruct (kn_fl nd); try reflexivity.
    destruct (zlookup _ _) as [[[slot txp] tids]|]; [|reflexivity]. destruct (negb _); reflexivity.
  Qed.

  (* the core tables after handling, as node events *)
  Lemma handle_msg_core o nd m :
    kn_core (fst (handle_msg o nd m)) =
    match kn_fl nd, m with
    | NAccess, _ => kn_core nd
    | _, MShares s => apply_nev (kn_core nd) (NevShares o s)
    | _, MKeys k => apply_nev (kn_core nd) (NevKeys k)
    | _, _ => kn_core nd
    end.
  Proof.
    unfold handle_msg.
    destruct (kn_fl nd) eqn:Ef; destruct m as [s|k|e|tr|cm]; try reflexivity;
      try (destruct (flavour_handle_shares classify nd s) as [nd1 out1] eqn:E1;
           pose proof (flavour_handle_shares_core nd s) as [Hc _]; rewrite E1 in Hc; simpl in Hc;
           destruct (core_handle_shares kb classify o (kn_core nd1) s) as [c' ks] eqn:E2;
           simpl; rewrite Hc in E2; rewrite E2; reflexivity);
      try (simpl; destruct (flavour_handle_keys_core nd k) as [Hc _]; rewrite Hc; reflexivity).
  Qed.

  (* ----------------------------------------------------------------------------------- *)
  (* one step *)

  Theorem step_core nt o j :
    option_map kn_core (nth_error (nodes (fst (step nt o))) j) =
    option_map (fun nd => node_run (kn_core nd) (step_events nt o j)) (nth_error (nodes nt) j).
  Proof.
    destruct o as [i eon_id kci slot txp ids | mi j' perms]; simpl.
    - destruct (nth_error (nodes nt) i) as [nd|] eqn:Ei.
      2: { simpl. destruct (i =? j)%nat; simpl; destruct (nth_error (nodes nt) j); reflexivity. }
      set (nd0 := match kn_fl nd with
                  | NGnosis => mkKNode (kn_fl nd) (kn_g nd) (kn_sigs nd) (upsert_trig (kn_trig nd) kci (slot, txp, ids))
                  | _ => nd end).
      assert (H0 : kn_core nd0 = kn_core nd) by (unfold nd0; destruct (kn_fl nd); reflexivity).
      destruct (construct sb (kn_core nd0) eon_id kci ids) as [[c' m]|] eqn:Ec.
      + destruct (intercept_shares (set_core nd0 c') m) as [nd2 om] eqn:Ei2.
        assert (H2 : kn_core nd2 = c').
        { pose proof (intercept_shares_core (set_core nd0 c') m) as H. rewrite Ei2 in H. exact H. }
        destruct om as [m'|].
        * destruct (publish i nd2 [MShares m'] (sent nt)) as [snt pubs]. simpl. rewrite nth_error_set_nth, Ei.
          destruct (i =? j)%nat eqn:Eij.
          -- apply Nat.eqb_eq in Eij. subst j. rewrite Ei. simpl. rewrite <- H0, Ec, H2. reflexivity.
          -- destruct (nth_error (nodes nt) j); reflexivity.
        * simpl. rewrite nth_error_set_nth, Ei.
          destruct (i =? j)%nat eqn:Eij.
          -- apply Nat.eqb_eq in Eij. subst j. rewrite Ei. simpl. rewrite <- H0, Ec, H2. reflexivity.
          -- destruct (nth_error (nodes nt) j); reflexivity.
      + simpl. rewrite nth_error_set_nth, Ei.
        destruct (i =? j)%nat eqn:Eij.
        * apply Nat.eqb_eq in Eij. subst j. rewrite Ei. simpl. rewrite <- H0, Ec. rewrite H0. reflexivity.
        * destruct (nth_error (nodes nt) j); reflexivity.
    - destruct (nth_error (sent nt) mi) as [[from m]|] eqn:Em.
      2: { simpl. destruct (negb (j' =? j)%nat); simpl; destruct (nth_error (nodes nt) j); reflexivity. }
      destruct (nth_error (nodes nt) j') as [nd|] eqn:Ej.
      2: { simpl. destruct (j' =? j)%nat eqn:E; simpl; [apply Nat.eqb_eq in E; subst; rewrite Ej; reflexivity|].
           destruct (nth_error (nodes nt) j); reflexivity. }
      destruct (from =? j')%nat eqn:Efrom.
      { simpl. destruct (j' =? j)%nat eqn:E; simpl.
        - apply Nat.eqb_eq in E. subst j'. rewrite Ej, Efrom. reflexivity.
        - destruct (nth_error (nodes nt) j); reflexivity. }
      destruct (negb (existsb (fun v => mtype_eqb (fst v) (type_of m)) (registered (kn_fl nd)))) eqn:Esub.
      { simpl. destruct (j' =? j)%nat eqn:E; simpl.
        - apply Nat.eqb_eq in E. subst j'. rewrite Ej, Efrom, Esub. reflexivity.
        - destruct (nth_error (nodes nt) j); reflexivity. }
      destruct (validate_at nd m) eqn:Ev;
        try (simpl; destruct (j' =? j)%nat eqn:E; simpl;
             [apply Nat.eqb_eq in E; subst j'; rewrite Ej, Efrom, Esub, Ev; reflexivity
             | destruct (nth_error (nodes nt) j); reflexivity]).
      destruct (handle_msg (oracle_of_perms perms) nd m) as [nd' outs] eqn:Eh.
      destruct (publish j' nd' outs (sent nt)) as [snt pubs]. simpl. rewrite nth_error_set_nth, Ej.
      destruct (j' =? j)%nat eqn:E; simpl.
      + apply Nat.eqb_eq in E. subst j'. rewrite Ej, Efrom, Esub, Ev. simpl.
        pose proof (handle_msg_core (oracle_of_perms perms) nd m) as Hc. rewrite Eh in Hc. simpl in Hc. rewrite Hc.
        destruct (kn_fl nd); destruct m; reflexivity.
      + destruct (nth_error (nodes nt) j); reflexivity.
  Qed.

  (* the events of a whole run at node j *)
  Fixpoint run_events (nt : net) (ops : list op) (j : nat) : list nev :=
    match ops with
    | [] => []
    | o :: r => step_events nt o j ++ run_events (fst (step nt o)) r j
    end.

  Lemma run_net_fst nt o r : fst (run_net nt (o :: r)) = fst (run_net (fst (step nt o)) r).
  Proof. simpl. destruct (step nt o) as [nt' ob]. simpl. destruct (run_net nt' r). reflexivity. Qed.

  (* the core tables of node j after the run = its events applied in order *)
  Theorem run_core ops : forall nt j,
    option_map kn_core (nth_error (nodes (fst (run_net nt ops))) j) =
    option_map (fun nd => node_run (kn_core nd) (run_events nt ops j)) (nth_error (nodes nt) j).
  Proof.
    induction ops as [|o r IH]; intros nt j.
    - simpl. destruct (nth_error (nodes nt) j); reflexivity.
    - rewrite run_net_fst, IH. simpl run_events.
      pose proof (step_core nt o j) as Hs.
      destruct (nth_error (nodes (fst (step nt o))) j) as [nd'|]; destruct (nth_error (nodes nt) j) as [nd|]; simpl in *; try discriminate; [|reflexivity].
      injection Hs as Hs. rewrite Hs. unfold GossipNet.node_run. rewrite fold_left_app. reflexivity.
  Qed.

  (* ----------------------------------------------------------------------------------- *)
  (* A network of honest keypers of one eon *)

  Variable c : cfg.
  Hypothesis t_pos : (1 <= cf_t c)%N.
  Hypothesis n_small : (cf_n c < 2 ^ 63)%N.
  (* the table of key bytes and its inverse agree *)
  Hypothesis classify_ok : forall b e y, classify b = LKey e y -> b = kb e y.

  Notation Inv := (Inv kb c).
  Notation ok_event := (ok_event kb c).
  Notation ok_run := (ok_run sb kb classify c).

  (* every published message names the network's eon; keys messages carry consistent keys *)
  Definition msg_ok (m : gmsg) : Prop :=
    match m with
    | MShares s => s_eon s = Z.to_N (cf_kci c)
    | MKeys k => km_eon k = Z.to_N (cf_kci c) /\ keys_consistent kb k
    | _ => True
    end.

  Definition valid_perm (p : list nat) : Prop := Permutation p (seq 0 (length p)).

  Definition op_ok (o : op) : Prop :=
    match o with
    | OpTrigger _ eon_id kci _ _ _ => eon_id = cf_eon c /\ kci = cf_kci c
    | OpDeliver _ _ perms => Forall valid_perm perms
    end.

  Definition node_ok (nd : knode) : Prop :=
    kn_fl nd = NAccess \/ (keyper_flavour (kn_fl nd) /\ Inv (kn_core nd)).

  Definition NetInv (nt : net) : Prop :=
    Forall node_ok (nodes nt) /\ Forall (fun im => msg_ok (snd im)) (sent nt).

  (* ---- the row order oracle built from recorded permutations permutes ---- *)

  Lemma flat_nth_seq {A} (l : list A) :
    flat_map (fun j => match nth_error l j with Some r => [r] | None => [] end) (seq 0 (length l)) = l.
  Proof.
    induction l as [|a r IH]; [reflexivity|]. simpl. f_equal.
    rewrite <- seq_shift, flat_map_concat_map, map_map, <- flat_map_concat_map. exact IH.
  Qed.

  Lemma oracle_of_perms_perm perms : Forall valid_perm perms -> perm_oracle (oracle_of_perms perms).
  Proof.
    intros Hv i rows. unfold oracle_of_perms.
    destruct (nth_error perms i) as [p|] eqn:E; [|apply Permutation_refl].
    destruct (length p =? length rows)%nat eqn:El; [|apply Permutation_refl].
    apply Nat.eqb_eq in El. rewrite Forall_forall in Hv. specialize (Hv p (nth_error_In _ _ E)).
    unfold valid_perm in Hv. rewrite El in Hv.
    eapply Permutation_trans; [apply Permutation_flat_map; exact Hv|].
    rewrite flat_nth_seq. apply Permutation_refl.
  Qed.

  (* ---- acceptance by the combined validator implies acceptance by the core validator ---- *)

  Lemma combined_shares_core nd s :
    keyper_flavour (kn_fl nd) -> validate_at nd (MShares s) = VAccept -> validate_shares (kn_core nd) s = GAccept.
  Proof.
    intros Hfl Hv. unfold validate_at in Hv. change (topic_of_msg (MShares s)) with TpShares in Hv.
    apply (combined_accept_iff (validators_for (kn_fl nd) TpShares) (kn_g nd) TpShares TpShares) in Hv.
    2: { destruct Hfl as [-> | [-> | ->]]; unfold validators_for, validators_of, registered, registered_with; simpl; discriminate. }
    2: { apply validators_of_topic. }
    destruct Hv as [_ [m [Hu [_ Hall]]]].
    unfold unmarshal_pubsub in Hu. destruct (bytes_eqb _ _ && _); [|discriminate]. injection Hu as <-.
    rewrite Forall_forall in Hall.
    assert (Hin : In v_core_shares (validators_for (kn_fl nd) TpShares)).
    { destruct Hfl as [-> | [-> | ->]]; unfold validators_for, validators_of, registered, registered_with; simpl; auto. }
    specialize (Hall _ Hin). simpl in Hall. exact Hall.
  Qed.

  Lemma combined_keys_core nd k :
    keyper_flavour (kn_fl nd) -> validate_at nd (MKeys k) = VAccept -> validate_keys (kn_core nd) k = GAccept.
  Proof.
    intros Hfl Hv. unfold validate_at in Hv. change (topic_of_msg (MKeys k)) with TpKeys in Hv.
    apply (combined_accept_iff (validators_for (kn_fl nd) TpKeys) (kn_g nd) TpKeys TpKeys) in Hv.
    2: { destruct Hfl as [-> | [-> | ->]]; unfold validators_for, validators_of, registered, registered_with; simpl; discriminate. }
    2: { apply validators_of_topic. }
    destruct Hv as [_ [m [Hu [_ Hall]]]].
    unfold unmarshal_pubsub in Hu. destruct (bytes_eqb _ _ && _); [|discriminate]. injection Hu as <-.
    rewrite Forall_forall in Hall.
    assert (Hin : In v_core_keys (validators_for (kn_fl nd) TpKeys)).
    { destruct Hfl as [-> | [-> | ->]]; unfold validators_for, validators_of, registered, registered_with; simpl; auto. }
    specialize (Hall _ Hin). simpl in Hall. exact Hall.
  Qed.

  (* ---- what gets published is well-formed ---- *)

  Lemma construct_eon st eon_id kci ids st' m : construct sb st eon_id kci ids = Some (st', m) -> s_eon m = Z.to_N kci.
  Proof.
    unfold construct. destruct ids; [discriminate|]. destruct (_ <? _)%Z; [discriminate|].
    destruct (zlookup _ _); [|discriminate]. destruct (index_of _ _ _); [|discriminate].
    destruct (kci <? 0)%Z; [discriminate|]. destruct (forallb _ _); [discriminate|].
    destruct (zlookup (c_dkg st) eon_id) as [[| |ks n0 t0]|]; try discriminate. intros [= _ <-]. reflexivity.
  Qed.

  Lemma intercept_shares_eon nd m nd' m' : intercept_shares nd m = (nd', Some m') -> s_eon m' = s_eon m.
  Proof.
    unfold intercept_shares. destruct (kn_fl nd); try (intros [= _ <-]; reflexivity).
    destruct (zlookup _ _) as [[[sl tp] tids]|]; [|discriminate]. destruct (negb _); [discriminate|]. intros [= _ <-]. reflexivity.
  Qed.

  Lemma keys_from_table_consistent tbl eon ids l :
    keys_from_table classify tbl eon ids = Some l ->
    Forall (fun p : bytes * kv => forall e y, kv_lbl (snd p) = Some (LKey e y) -> kv_bytes (snd p) = kb e y) l.
  Proof.
    revert l. induction ids as [|x r IH]; intros l; simpl.
    - intros [= <-]. constructor.
    - destruct (stored_key tbl eon x) as [k|]; [|discriminate].
      destruct (keys_from_table classify tbl eon r) as [l'|]; [|discriminate]. intros [= <-].
      constructor; [|apply IH; reflexivity]. simpl. intros e y [= H]. apply classify_ok. exact H.
  Qed.

  Lemma intercept_keys_ok nd km km' :
    intercept_keys nd km = Some km' -> km_eon km' = km_eon km /\ km_keys km' = km_keys km.
  Proof.
    unfold intercept_keys. destruct (kn_fl nd); try (intros [= <-]; split; reflexivity).
    - destruct (zlookup _ _) as [[[sl tp] tids]|]; [|discriminate]. destruct (threshold_of _ _); [|discriminate].
      destruct (_ <? _)%Z; [discriminate|]. intros [= <-]. split; reflexivity.
    - destruct (threshold_of _ _); [|discriminate]. destruct (_ <? _)%Z; [discriminate|]. intros [= <-]. split; reflexivity.
  Qed.

  Lemma flavour_out_ok nd s :
    s_eon s = Z.to_N (cf_kci c) -> Forall (fun k => msg_ok (MKeys k)) (snd (flavour_handle_shares classify nd s)).
  Proof.
    intros He. unfold flavour_handle_shares.
    destruct (kn_fl nd); destruct (s_extra s); try constructor.
    - destruct (threshold_of _ _); [|constructor]. destruct (_ <? _)%Z; [constructor|].
      destruct (keys_from_table _ _ _ _) as [l|] eqn:E; [|constructor].
      constructor; [|constructor]. simpl. split; [exact He|]. apply (keys_from_table_consistent _ _ _ _ E).
    - destruct (threshold_of _ _); [|constructor]. destruct (_ <? _)%Z; [constructor|].
      destruct (keys_from_table _ _ _ _) as [l|] eqn:E; [|constructor].
      constructor; [|constructor]. simpl. split; [exact He|]. apply (keys_from_table_consistent _ _ _ _ E).
  Qed.

  Lemma handle_out_ok o nd m : msg_ok m -> Forall msg_ok (snd (handle_msg o nd m)).
  Proof.
    intros Hm. unfold handle_msg.
    destruct m as [s|k|e|tr|cm]; simpl in Hm.
    2-5: destruct (kn_fl nd); simpl; constructor.
    assert (Hgoal : forall nd1 out1, flavour_handle_shares classify nd s = (nd1, out1) ->
              Forall msg_ok (snd (let '(c', ks) := core_handle_shares kb classify o (kn_core nd1) s in
                                  let nd2 := set_core nd1 c' in
                                  let out2 := match ks with
                                              | None => []
                                              | Some l =>
                                                  let km := mkKeysMsg (c_instance c') (s_eon s)
                                                              (map (fun p => (fst p, mkKV (bytes_of_key kb (snd p)) (Some (snd p)))) l) KxNone in
                                                  match intercept_keys nd2 km with Some km' => [km'] | None => [] end
                                              end in
                                  (nd2, map MKeys out1 ++ map MKeys out2)))).
    { intros nd1 out1 E1. pose proof (flavour_out_ok nd s Hm) as H1. rewrite E1 in H1. simpl in H1.
      destruct (core_handle_shares kb classify o (kn_core nd1) s) as [c' ks]. simpl.
      apply Forall_app. split.
      - rewrite Forall_forall in *. intros m Hin. apply in_map_iff in Hin. destruct Hin as [k [<- Hk]]. apply H1. exact Hk.
      - destruct ks as [l|]; [|constructor].
        destruct (intercept_keys _ _) as [km'|] eqn:Ei; [|constructor].
        apply intercept_keys_ok in Ei. destruct Ei as [E2 E3]. constructor; [|constructor]. simpl.
        rewrite E2. simpl. split; [exact Hm|]. unfold keys_consistent. rewrite E3. simpl.
        apply Forall_forall. intros p Hp. apply in_map_iff in Hp. destruct Hp as [q [<- _]]. simpl.
        intros e y [= ->]. reflexivity. }
    destruct (kn_fl nd); try (destruct (flavour_handle_shares classify nd s) as [nd1 out1] eqn:E1; apply (Hgoal nd1 out1 eq_refl)).
    simpl. constructor.
  Qed.

  Lemma publish_sent_ok i nd ms : forall snt pubs0,
    Forall (fun im => msg_ok (snd im)) snt -> Forall msg_ok ms ->
    Forall (fun im : nat * gmsg => msg_ok (snd im))
      (fst (fold_left (fun acc m =>
                 let v := validate_at nd m in
                 (match v with VAccept => fst acc ++ [(i, m)] | _ => fst acc end, snd acc ++ [Pub m v]))
              ms (snt, pubs0))).
  Proof.
    induction ms as [|m r IH]; intros snt pubs0 Hs Hm; simpl; [exact Hs|].
    inversion Hm; subst. apply IH; [|assumption].
    destruct (validate_at nd m); simpl; try exact Hs.
    apply Forall_app. split; [exact Hs | constructor; [assumption | constructor]].
  Qed.

  Lemma publish_ok i nd ms snt :
    Forall (fun im => msg_ok (snd im)) snt -> Forall msg_ok ms -> Forall (fun im : nat * gmsg => msg_ok (snd im)) (fst (publish i nd ms snt)).
  Proof. intros Hs Hm. unfold publish. apply publish_sent_ok; assumption. Qed.

  (* ---- one step keeps the network well-formed, and its events are ones the node theorems cover ---- *)

  Lemma Forall_set_nth {A} (P : A -> Prop) l i a : Forall P l -> P a -> Forall P (set_nth l i a).
  Proof.
    revert i. induction l as [|x r IH]; intros i Hl Ha; simpl; [constructor|].
    inversion Hl; subst. destruct i; constructor; auto.
  Qed.

  Lemma node_ok_at nt j nd : NetInv nt -> nth_error (nodes nt) j = Some nd -> node_ok nd.
  Proof. intros [Hn _] H. rewrite Forall_forall in Hn. apply Hn. eapply nth_error_In. exact H. Qed.

  Lemma sent_ok_at nt mi from m : NetInv nt -> nth_error (sent nt) mi = Some (from, m) -> msg_ok m.
  Proof. intros [_ Hs] H. rewrite Forall_forall in Hs. apply (Hs (from, m)). eapply nth_error_In. exact H. Qed.

  Theorem step_events_ok nt o j nd :
    NetInv nt -> op_ok o -> nth_error (nodes nt) j = Some nd -> kn_fl nd <> NAccess ->
    ok_run (kn_core nd) (step_events nt o j).
  Proof.
    intros HN Ho Hj Hna.
    destruct (node_ok_at nt j nd HN Hj) as [E|[Hfl HI]]; [contradiction|].
    destruct o as [i eon_id kci slot txp ids | mi j' perms]; unfold step_events.
    - destruct (i =? j)%nat eqn:Eij; [|exact I]. apply Nat.eqb_eq in Eij. subst i. rewrite Hj. simpl. split; [exact Ho | exact I].
    - destruct (negb (j' =? j)%nat) eqn:Ejj; [exact I|]. rewrite Hj.
      destruct (nth_error (sent nt) mi) as [[from m]|] eqn:Em; [|exact I].
      destruct (from =? j)%nat; [exact I|].
      destruct (negb (existsb _ _)); [exact I|].
      destruct (validate_at nd m) eqn:Ev; try exact I.
      pose proof (sent_ok_at nt mi from m HN Em) as Hm. simpl in Ho.
      assert (Hs : forall s, m = MShares s -> ok_run (kn_core nd) [NevShares (oracle_of_perms perms) s]).
      { intros s ->. simpl. split; [|exact I]. split; [apply combined_shares_core; assumption|].
        split; [apply oracle_of_perms_perm; exact Ho | exact Hm]. }
      assert (Hk : forall k, m = MKeys k -> ok_run (kn_core nd) [NevKeys k]).
      { intros k ->. simpl. destruct Hm as [Hm1 Hm2]. split; [|exact I]. split; [apply combined_keys_core; assumption|].
        split; [exact Hm2 | exact Hm1]. }
      destruct (kn_fl nd); try contradiction; destruct m as [s|k|e|tr|cm]; try exact I;
        try (apply Hs; reflexivity); try (apply Hk; reflexivity).
  Qed.

  (* ---- flavours never change ---- *)

  Lemma intercept_shares_fl nd m : kn_fl (fst (intercept_shares nd m)) = kn_fl nd.
  Proof.
    unfold intercept_shares. destruct (kn_fl nd) eqn:E; try exact E; try (simpl; exact E).
    destruct (zlookup _ _) as [[[sl tp] tids]|]; [|exact E]. destruct (negb _); [exact E|]. simpl. exact E.
  Qed.

  Lemma handle_msg_fl o nd m : kn_fl (fst (handle_msg o nd m)) = kn_fl nd.
  Proof.
    unfold handle_msg.
    destruct (kn_fl nd) eqn:Ef; destruct m as [s|k|e|tr|cm]; try exact Ef;
      try (destruct (flavour_handle_shares classify nd s) as [nd1 out1] eqn:E1;
           pose proof (flavour_handle_shares_core nd s) as [_ Hf]; rewrite E1 in Hf; simpl in Hf;
           destruct (core_handle_shares kb classify o (kn_core nd1) s) as [c' ks]; simpl; rewrite Hf; exact Ef);
      try (simpl; destruct (flavour_handle_keys_core nd k) as [_ Hf]; rewrite Hf; exact Ef).
  Qed.

  Theorem step_fl nt o j :
    option_map kn_fl (nth_error (nodes (fst (step nt o))) j) = option_map kn_fl (nth_error (nodes nt) j).
  Proof.
    destruct o as [i eon_id kci slot txp ids | mi j' perms]; simpl.
    - destruct (nth_error (nodes nt) i) as [nd|] eqn:Ei; [|reflexivity].
      set (nd0 := match kn_fl nd with
                  | NGnosis => mkKNode (kn_fl nd) (kn_g nd) (kn_sigs nd) (upsert_trig (kn_trig nd) kci (slot, txp, ids))
                  | _ => nd end).
      assert (H0 : kn_fl nd0 = kn_fl nd) by (unfold nd0; destruct (kn_fl nd) eqn:E; try exact E; reflexivity).
      assert (Hset : forall ndx snt, kn_fl ndx = kn_fl nd ->
                option_map kn_fl (nth_error (nodes (mkNet (set_nth (nodes nt) i ndx) snt)) j) = option_map kn_fl (nth_error (nodes nt) j)).
      { intros ndx snt Hx. simpl. rewrite nth_error_set_nth, Ei. destruct (i =? j)%nat eqn:Eij; [|reflexivity].
        apply Nat.eqb_eq in Eij. subst j. rewrite Ei. simpl. rewrite Hx. reflexivity. }
      destruct (construct sb (kn_core nd0) eon_id kci ids) as [[c' m]|].
      + destruct (intercept_shares (set_core nd0 c') m) as [nd2 om] eqn:Ei2.
        assert (H2 : kn_fl nd2 = kn_fl nd).
        { pose proof (intercept_shares_fl (set_core nd0 c') m) as H. rewrite Ei2 in H. simpl in H. rewrite H. exact H0. }
        destruct om as [m'|].
        * destruct (publish i nd2 [MShares m'] (sent nt)) as [snt pubs]. apply Hset. exact H2.
        * apply Hset. exact H2.
      + apply Hset. exact H0.
    - destruct (nth_error (sent nt) mi) as [[from m]|]; [|reflexivity].
      destruct (nth_error (nodes nt) j') as [nd|] eqn:Ej; [|reflexivity].
      destruct (from =? j')%nat; [reflexivity|]. destruct (negb _); [reflexivity|].
      destruct (validate_at nd m); try reflexivity.
      destruct (handle_msg (oracle_of_perms perms) nd m) as [nd' outs] eqn:Eh.
      destruct (publish j' nd' outs (sent nt)) as [snt pubs]. simpl. rewrite nth_error_set_nth, Ej.
      destruct (j' =? j)%nat eqn:E; [|reflexivity]. apply Nat.eqb_eq in E. subst j'. rewrite Ej. simpl.
      pose proof (handle_msg_fl (oracle_of_perms perms) nd m) as Hf. rewrite Eh in Hf. simpl in Hf. rewrite Hf. reflexivity.
  Qed.

  Lemma Forall_nth {A} (P : A -> Prop) l : Forall P l <-> forall j x, nth_error l j = Some x -> P x.
  Proof.
    split.
    - intros H j x Hj. rewrite Forall_forall in H. apply H. eapply nth_error_In. exact Hj.
    - intros H. apply Forall_forall. intros x Hx. apply In_nth_error in Hx. destruct Hx as [j Hj]. eapply H. exact Hj.
  Qed.

  (* what the step hands to publication *)
  Lemma step_sent_ok nt o : NetInv nt -> op_ok o -> Forall (fun im : nat * gmsg => msg_ok (snd im)) (sent (fst (step nt o))).
  Proof.
    intros HN Ho. destruct HN as [Hn Hs].
    destruct o as [i eon_id kci slot txp ids | mi j' perms]; simpl.
    - destruct (nth_error (nodes nt) i) as [nd|]; [|exact Hs].
      set (nd0 := match kn_fl nd with
                  | NGnosis => mkKNode (kn_fl nd) (kn_g nd) (kn_sigs nd) (upsert_trig (kn_trig nd) kci (slot, txp, ids))
                  | _ => nd end).
      destruct (construct sb (kn_core nd0) eon_id kci ids) as [[c' m]|] eqn:Ec; [|exact Hs].
      destruct (intercept_shares (set_core nd0 c') m) as [nd2 om] eqn:Ei2.
      destruct om as [m'|]; [|exact Hs].
      assert (Hm' : msg_ok (MShares m')).
      { simpl. rewrite (intercept_shares_eon _ _ _ _ Ei2). destruct Ho as [_ ->]. apply (construct_eon _ _ _ _ _ _ Ec). }
      unfold publish. simpl. destruct (validate_at nd2 (MShares m')); simpl; try exact Hs.
      apply Forall_app. split; [exact Hs | constructor; [exact Hm' | constructor]].
    - destruct (nth_error (sent nt) mi) as [[from m]|] eqn:Em; [|exact Hs].
      destruct (nth_error (nodes nt) j') as [nd|]; [|exact Hs].
      destruct (from =? j')%nat; [exact Hs|]. destruct (negb _); [exact Hs|].
      destruct (validate_at nd m); try exact Hs.
      destruct (handle_msg (oracle_of_perms perms) nd m) as [nd' outs] eqn:Eh.
      pose proof (publish_ok j' nd' outs (sent nt) Hs) as Hp.
      destruct (publish j' nd' outs (sent nt)) as [snt pubs] eqn:Ef. simpl. simpl in Hp. apply Hp.
      pose proof (handle_out_ok (oracle_of_perms perms) nd m) as Ho'. rewrite Eh in Ho'. apply Ho'.
      rewrite Forall_forall in Hs. apply (Hs (from, m)). eapply nth_error_In. exact Em.
  Qed.

  Theorem step_inv nt o : NetInv nt -> op_ok o -> NetInv (fst (step nt o)).
  Proof.
    intros HN Ho. split; [|apply step_sent_ok; assumption].
    apply Forall_nth. intros j nd' Hj'.
    pose proof (step_core nt o j) as Hc. pose proof (step_fl nt o j) as Hf. rewrite Hj' in Hc, Hf. simpl in Hc, Hf.
    destruct (nth_error (nodes nt) j) as [nd|] eqn:Hj; [|discriminate]. simpl in Hc, Hf.
    injection Hc as Hc. injection Hf as Hf.
    destruct (node_ok_at nt j nd HN Hj) as [E|[Hfl HI]].
    - left. rewrite Hf. exact E.
    - right. rewrite Hf. split; [exact Hfl|]. rewrite Hc.
      assert (Hna : kn_fl nd <> NAccess) by (destruct Hfl as [-> | [-> | ->]]; discriminate).
      apply (run_step sb kb classify c t_pos n_small (kn_core nd) _ HI (step_events_ok nt o j nd HN Ho Hj Hna)).
  Qed.

  (* every event of a run at a keyper node is one the node theorems apply to *)
  Theorem run_events_ok ops : forall nt j nd,
    NetInv nt -> Forall op_ok ops -> nth_error (nodes nt) j = Some nd -> kn_fl nd <> NAccess ->
    ok_run (kn_core nd) (run_events nt ops j).
  Proof.
    induction ops as [|o r IH]; intros nt j nd HN Hops Hj Hna; [exact I|].
    inversion Hops as [|? ? Ho Hr]; subst. simpl run_events.
    apply (ok_run_app sb kb classify c). split; [apply step_events_ok; assumption|].
    pose proof (step_core nt o j) as Hc. pose proof (step_fl nt o j) as Hf. rewrite Hj in Hc, Hf. simpl in Hc, Hf.
    destruct (nth_error (nodes (fst (step nt o))) j) as [nd'|] eqn:Hj'; [|discriminate].
    injection Hc as Hc. injection Hf as Hf. rewrite <- Hc.
    apply (IH (fst (step nt o)) j nd'); [apply step_inv; assumption | exact Hr | exact Hj' | rewrite Hf; exact Hna].
  Qed.

  (* Convergence. In a network of honest keypers of one eon, for every schedule: a keyper that
     handled the key-shares messages for ids of t distinct keypers stores, at the end, the
     correct key of every identity of ids. (Which deliveries that takes is a property of the
     schedule: handled = delivered and accepted; C03_honest_shares_accepted says every honest
     delivery is.) *)
  Theorem net_convergence ops nt j nd ids :
    NetInv nt -> Forall op_ok ops -> nth_error (nodes nt) j = Some nd -> kn_fl nd <> NAccess ->
    (cf_t c <= N.of_nat (length (handled_senders ids (run_events nt ops j) [])))%N ->
    exists nd', nth_error (nodes (fst (run_net nt ops))) j = Some nd' /\
                forall x, In x ids -> key_ok kb c (kn_core nd') x.
  Proof.
    intros HN Hops Hj Hna Hlen.
    pose proof (run_core ops nt j) as Hc. rewrite Hj in Hc. simpl in Hc.
    destruct (nth_error (nodes (fst (run_net nt ops))) j) as [nd'|]; [|discriminate].
    injection Hc as Hc. exists nd'. split; [reflexivity|]. rewrite Hc.
    destruct (node_ok_at nt j nd HN Hj) as [E|[_ HI]]; [contradiction|].
    apply (node_counting sb kb classify c t_pos n_small ids (run_events nt ops j) (kn_core nd) []); try assumption.
    - apply run_events_ok; assumption.
    - constructor.
    - intros x s _ [].
    - simpl. intros Hl. lia.
  Qed.
End Run.
