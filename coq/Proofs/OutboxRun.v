(* Run-level consequences of cache coherence (Proofs/OutboxCoh.v) for the crash-prone loop of
   Model/Outbox.v: whenever the cache is synchronised it is what Load builds from the
   database; crashes and transactions that did not commit change neither the database nor what
   shuttermint receives. *)
From Coq Require Import List NArith ZArith Bool Lia Sorted.
From Verif Require Import Lib.Bytes Model.DKGPure Model.DKGDriver Model.Outbox
     Proofs.DKGChain Proofs.OutboxEvolve Proofs.OutboxCoh.
Import ListNotations.
Open Scope Z_scope.

Section OutboxRun.
Variables C E P : Type.
Variable commit_of : P -> C.
Variable eval_of : P -> nat -> E.
Variable verify : nat -> E -> C -> bool.
Variable deg_ok : N -> C -> bool.
Variable valid_eval : E -> bool.
Variable me : addr.
Variable L : Z.
Variable enum : list (N * @active C E P) -> list (N * @active C E P).
Variable delta : Z.
Hypothesis Henum : enum_entries_ok C E P enum.

Notation active := (@active C E P).
Notation sm := (@sm C E P).
Notation db := (db C E P).
Notation st := (st C E P).
Notation world := (@world C E P).
Notation op := (@op C E P).
Notation evolves := (evolves C E P commit_of eval_of).
Notation coh := (coh C E P).
Notation all_clean := (all_clean C E P).
Notation step := (step C E P commit_of eval_of verify deg_ok valid_eval me L enum delta).
Notation run := (run C E P commit_of eval_of verify deg_ok valid_eval me L enum delta).
Notation handle_block := (handle_block C E P commit_of eval_of verify deg_ok valid_eval me L enum).

(* coherence only looks at puredkg, eons, batch configs and the cache *)
Lemma coh_frame (d d' : db) (s : sm) :
  db_pure _ _ _ d' = db_pure _ _ _ d -> db_eons _ _ _ d' = db_eons _ _ _ d -> db_cfgs _ _ _ d' = db_cfgs _ _ _ d ->
  coh (d, s) -> coh (d', s).
Proof.
  intros H1 H2 H3 [Hc Ha Hr Hs]. constructor; simpl in *.
  - intros k a. rewrite H1. apply Hc.
  - intros k. rewrite H1. apply Ha.
  - intros k a Hk. destruct (Hr _ _ Hk) as [er [cr Hx]]. exists er, cr. rewrite H2, H3. exact Hx.
  - exact Hs.
Qed.

Lemma load_dkgs_resolves (d : db) rows : forall m,
  load_dkgs C E P d rows = TOk m -> forall k p, nget rows k = Some p -> loaded C E P d k p <> None.
Proof.
  induction rows as [|[eon p0] r IH]; simpl; intros m Hm k p Hk; [discriminate|].
  destruct (nget (db_eons C E P d) eon) as [er|] eqn:He; [|discriminate].
  destruct (nget (db_cfgs C E P d) (eo_cfg er)) as [cr|] eqn:Hc; [|discriminate].
  destruct (load_dkgs C E P d r) as [rest| |] eqn:Hr; simpl in Hm; try discriminate.
  destruct (N.eqb eon k) eqn:Q.
  - apply N.eqb_eq in Q. subst k. unfold loaded. rewrite He, Hc. discriminate.
  - eapply IH; [reflexivity|exact Hk].
Qed.

Lemma load_coh (d : db) (s s1 : sm) :
  sm_sync s = false -> load C E P d s = TOk s1 -> coh (d, s1) /\ all_clean s1 /\ sm_sync s1 = true.
Proof.
  intros Hs. unfold load. rewrite Hs.
  destruct (load_dkgs C E P d (db_pure C E P d)) as [m| |] eqn:Hm; simpl; try discriminate.
  intros [= <-]. destruct (load_dkgs_spec C E P d _ _ Hm) as [Hsrt Hl].
  assert (Hent : forall k a, nget m k = Some a ->
            exists p, nget (db_pure C E P d) k = Some p /\ loaded C E P d k p = Some a).
  { intros k a Hk. rewrite Hl in Hk. destruct (nget (db_pure C E P d) k) as [p|]; [|discriminate]. eauto. }
  split; [|split; [|reflexivity]].
  - constructor; simpl.
    + intros k a Hk _. destruct (Hent _ _ Hk) as [p [Hp Hlo]]. rewrite Hp. f_equal.
      unfold loaded in Hlo. destruct (nget (db_eons C E P d) k); [|discriminate].
      destruct (nget (db_cfgs C E P d) _); [|discriminate]. injection Hlo as <-. reflexivity.
    + intros k Hk. rewrite Hl in Hk. destruct (nget (db_pure C E P d) k) as [p|] eqn:G; [|reflexivity].
      exfalso. apply (load_dkgs_resolves d _ _ Hm k p G). exact Hk.
    + intros k a Hk. destruct (Hent _ _ Hk) as [p [Hp Hlo]]. unfold loaded in Hlo.
      destruct (nget (db_eons C E P d) k) as [er|] eqn:He; [|discriminate].
      destruct (nget (db_cfgs C E P d) (eo_cfg er)) as [cr|] eqn:Hc; [|discriminate].
      injection Hlo as <-. exists er, cr. repeat split; assumption.
    + exact Hsrt.
  - intros k a Hk. simpl in Hk. destruct (Hent _ _ Hk) as [p [Hp Hlo]]. unfold loaded in Hlo.
    destruct (nget (db_eons C E P d) k); [|discriminate]. destruct (nget (db_cfgs C E P d) _); [|discriminate].
    injection Hlo as <-. reflexivity.
Qed.

(* what the cache is when it is synchronised *)
Definition good (x : st) : Prop := sm_sync (snd x) = true -> coh x /\ all_clean (snd x).

Lemma handle_block_good poly (x : st) blk lch x' :
  handle_block poly x blk lch = TOk x' -> good x -> coh x' /\ all_clean (snd x') /\ sm_sync (snd x') = true.
Proof.
  destruct x as [d s]. intros Hrun Hg. unfold DKGDriver.handle_block in Hrun.
  destruct (load C E P d s) as [s1| |] eqn:Hload; simpl in Hrun; try discriminate.
  assert (H1 : coh (d, s1) /\ all_clean s1 /\ sm_sync s1 = true).
  { destruct (sm_sync s) eqn:Hs.
    - unfold load in Hload. rewrite Hs in Hload. injection Hload as <-. destruct (Hg Hs) as [A B]. split; [exact A|split; [exact B|exact Hs]].
    - eapply load_coh; eassumption. }
  destruct H1 as [Hc1 [Hcl1 Hs1]].
  destruct (negb _); [discriminate|].
  destruct (shift_phases _ _ _ _ _ _ _ _ _ _ _ _) as [x2| |] eqn:Hsh; simpl in Hrun; try discriminate.
  destruct (handle_events _ _ _ _ _ _ _ _ _ _ _ _ _ _) as [x3| |] eqn:He; simpl in Hrun; try discriminate.
  injection Hrun as <-.
  unfold shift_phases in Hsh. apply shift_all_evolves in Hsh. apply handle_events_evolves in He.
  pose proof (send_poly_evals_evolves C E P commit_of eval_of (fst x3) (snd x3)) as Hp.
  assert (Hc0 : coh (upd_db_sync C E P d (fst blk) lch blk, s1)) by (eapply coh_frame; [| | |exact Hc1]; reflexivity).
  assert (Hc3 : coh (send_poly_evals C E P (fst x3), snd x3)).
  { eapply evolves_coh; [exact Hp|]. destruct x3. eapply evolves_coh; [exact He|]. eapply evolves_coh; eassumption. }
  destruct (save_coh C E P enum _ Henum Hc3) as [Hc4 Hcl4]. split; [exact Hc4|]. split; [exact Hcl4|].
  (* the synchronised flag is never cleared inside the transaction *)
  assert (Hsync : forall a b, evolves a b -> sm_sync (snd a) = true -> sm_sync (snd b) = true).
  { induction 1 as [|a b c Hpr _ IH]; intros Ha; [exact Ha|]. apply IH. destruct Hpr; simpl in *; exact Ha. }
  simpl. exact (Hsync _ _ He (Hsync _ _ Hsh Hs1)).
Qed.

Lemma on_chain_frame ksets o l1 o' :
  on_chain C E P me delta ksets o l1 = TOk o' ->
  db_pure _ _ _ (o_db o') = db_pure _ _ _ (o_db o) /\ db_eons _ _ _ (o_db o') = db_eons _ _ _ (o_db o) /\
  db_cfgs _ _ _ (o_db o') = db_cfgs _ _ _ (o_db o).
Proof.
  unfold on_chain, keyper_set_changes.
  destruct (latest_cfg _) as [latest|]; simpl.
  - destruct (zget ksets _) as [ks|]; simpl.
    + destruct (invalid_set _ _ _); simpl.
      * intros [= <-]. unfold block_seen. simpl. destruct (Nat.eqb _ 0); repeat split.
      * destruct (ks_act ks <? 0); simpl; [discriminate|].
        destruct (_ && _); simpl; intros [= <-]; unfold block_seen; simpl; destruct (Nat.eqb _ 0); repeat split.
    + intros [= <-]. unfold block_seen. destruct (Nat.eqb _ 0); repeat split.
  - intros [= <-]. unfold block_seen. destruct (Nat.eqb _ 0); repeat split.
Qed.

Definition wgood (w : world) : Prop := good (o_db (w_o w), w_sm w).

Lemma step_good w o w' : step w o = Some w' -> wgood w -> wgood w'.
Proof.
  intros Hs Hg. destruct o as [blk lch poly commit|ksets l1 commit|r|commit|]; unfold Outbox.step in Hs.
  - destruct commit.
    + destruct (handle_block poly (o_db (w_o w), w_sm w) blk lch) as [[d' s']| |] eqn:Hb; try discriminate.
      injection Hs as <-. destruct (handle_block_good _ _ _ _ _ Hb Hg) as [A [B _]]. intros _. split; assumption.
    + injection Hs as <-. intros Hx. discriminate.
  - destruct commit; [|injection Hs as <-; exact Hg].
    destruct (on_chain _ _ _ _ _ _ _ _) as [o'| |] eqn:Ho; try discriminate. injection Hs as <-.
    destruct (on_chain_frame _ _ _ _ Ho) as [F1 [F2 F3]].
    intros Hx. destruct (Hg Hx) as [A B]. split; [|exact B]. eapply coh_frame; eassumption.
  - destruct (head _ _ _ _) as [[id [ds m]]|]; [|injection Hs as <-; exact Hg].
    destruct r; injection Hs as <-; exact Hg.
  - destruct commit; [|injection Hs as <-; exact Hg].
    destruct (head _ _ _ _) as [[id x]|]; injection Hs as <-; [|exact Hg].
    intros Hx. destruct (Hg Hx) as [A B]. split; [|exact B]. eapply coh_frame; [| | |exact A]; reflexivity.
  - injection Hs as <-. intros Hx. discriminate.
Qed.

Lemma run_good ops : forall w w', run w ops = Some w' -> wgood w -> wgood w'.
Proof.
  induction ops as [|o r IH]; simpl; intros w w' Hr Hg.
  - injection Hr as <-. exact Hg.
  - destruct (step w o) as [w1|] eqn:Hs; [|discriminate]. eapply IH; [exact Hr|]. eapply step_good; eassumption.
Qed.

Lemma init_good : wgood (world_init C E P).
Proof. intros H. discriminate. Qed.

(* C08_cache_is_load_of_db *)
Theorem cache_is_load_of_db ops w :
  run (world_init C E P) ops = Some w -> sm_sync (w_sm w) = true ->
  load_dkgs C E P (o_db (w_o w)) (db_pure _ _ _ (o_db (w_o w))) = TOk (sm_dkg (w_sm w)) /\
  (forall k a, nget (sm_dkg (w_sm w)) k = Some a -> a_dirty a = false).
Proof.
  intros Hr Hs. destruct (run_good _ _ _ Hr init_good Hs) as [A B].
  split; [apply cache_is_load; assumption|exact B].
Qed.

(* ---- crashes and uncommitted attempts are invisible ---- *)

(* the cache's isKeyper flag says "some batch config is stored" (what Load computes) *)
Definition canon (w : world) : Prop :=
  sm_sync (w_sm w) = true ->
  sm_iskeyper (w_sm w) = negb (Nat.eqb (length (db_cfgs _ _ _ (o_db (w_o w)))) 0).

Fixpoint along (Q : world -> Prop) (w : world) (ops : list op) : Prop :=
  Q w /\ match ops with
         | [] => True
         | o :: r => match step w o with Some w1 => along Q w1 r | None => True end
         end.

(* the crashed run's volatile state is either the twin's or nothing *)
Definition sim (w w' : world) : Prop :=
  w_o w = w_o w' /\ w_log w = w_log w' /\ (w_sm w = w_sm w' \/ sm_sync (w_sm w) = false).

Lemma handle_block_fresh poly (d : db) (s s0 : sm) blk lch :
  sm_sync s0 = false -> sm_sync s = true -> coh (d, s) -> all_clean s ->
  sm_iskeyper s = negb (Nat.eqb (length (db_cfgs _ _ _ d)) 0) ->
  handle_block poly (d, s0) blk lch = handle_block poly (d, s) blk lch.
Proof.
  intros H0 Hs Hc Hcl Hk. unfold DKGDriver.handle_block, load. rewrite H0, Hs.
  rewrite (cache_is_load C E P d s Hc Hcl). simpl.
  replace (mkSm true (negb (Nat.eqb (length (db_cfgs C E P d)) 0)) (sm_dkg s)) with s; [reflexivity|].
  destruct s as [sy ik dk]. simpl in *. subst. reflexivity.
Qed.

Theorem crashes_invisible ops : forall w w',
  sim w w' -> wgood w' ->
  along canon w' (filter (survives C E P) ops) ->
  forall w1, run w ops = Some w1 ->
  exists w1', run w' (filter (survives C E P) ops) = Some w1' /\ sim w1 w1'.
Proof.
  induction ops as [|o r IH]; intros w w' Hsim Hg Hal w1 Hrun.
  - simpl in *. injection Hrun as <-. exists w'. split; [reflexivity|exact Hsim].
  - simpl in Hrun. destruct (step w o) as [w2|] eqn:Hst; [|discriminate].
    destruct Hsim as [Ho [Hl Hsm]].
    destruct (survives C E P o) eqn:Hsv.
    + (* the operation takes effect in both runs *)
      assert (Hx : exists w2', step w' o = Some w2' /\ sim w2 w2').
      { destruct o as [blk lch poly commit|ksets l1 commit|rr|commit|]; simpl in Hsv; unfold Outbox.step in Hst |- *.
        - subst commit. rewrite <- Ho.
          destruct (handle_block poly (o_db (w_o w), w_sm w) blk lch) as [[d' s']| |] eqn:Hb; try discriminate.
          injection Hst as <-.
          assert (Hb' : handle_block poly (o_db (w_o w), w_sm w') blk lch = TOk (d', s')).
          { destruct Hsm as [Heq|Hfr]; [rewrite <- Heq; exact Hb|].
            destruct (sm_sync (w_sm w')) eqn:Hs'.
            - etransitivity; [|exact Hb]. symmetry. rewrite Ho. simpl in Hal. destruct Hal as [Hcan _].
              destruct (Hg Hs') as [Hc Hcl]. apply handle_block_fresh; try assumption. apply Hcan. exact Hs'.
            - (* both caches unsynchronised: Load ignores them *)
              etransitivity; [|exact Hb]. unfold DKGDriver.handle_block, load. rewrite Hfr, Hs'. reflexivity. }
          rewrite Hb'. eexists. split; [reflexivity|]. repeat split; simpl; try congruence. left. reflexivity.
        - subst commit. rewrite <- Ho.
          destruct (on_chain _ _ _ _ _ _ _ _) as [o'| |]; try discriminate. injection Hst as <-.
          eexists. split; [reflexivity|]. repeat split; simpl; try assumption.
        - rewrite <- Ho. destruct (head _ _ _ _) as [[id [ds m]]|].
          + destruct rr; try discriminate; injection Hst as <-; eexists; (split; [reflexivity|]);
              repeat split; simpl; try assumption; congruence.
          + injection Hst as <-. eexists. split; [reflexivity|]. repeat split; assumption.
        - subst commit. rewrite <- Ho. destruct (head _ _ _ _) as [[id x]|]; injection Hst as <-;
            eexists; (split; [reflexivity|]); repeat split; simpl; try assumption; congruence.
        - discriminate. }
      destruct Hx as [w2' [Hst' Hsim2]].
      simpl. rewrite Hsv. simpl. rewrite Hst'.
      simpl in Hal. rewrite Hsv in Hal. simpl in Hal. rewrite Hst' in Hal. destruct Hal as [_ Hal].
      eapply IH; [exact Hsim2|eapply step_good; eassumption|exact Hal|exact Hrun].
    + (* a crash or an attempt that did not commit: only the cache is lost *)
      assert (Hsim2 : sim w2 w').
      { destruct o as [blk lch poly commit|ksets l1 commit|rr|commit|]; simpl in Hsv; unfold Outbox.step in Hst.
        - subst commit. injection Hst as <-. repeat split; simpl; try assumption. right. reflexivity.
        - subst commit. injection Hst as <-. repeat split; assumption.
        - destruct rr; try discriminate. destruct (head _ _ _ _) as [[id [ds m]]|]; injection Hst as <-; repeat split; assumption.
        - subst commit. injection Hst as <-. repeat split; assumption.
        - injection Hst as <-. repeat split; simpl; try assumption. right. reflexivity. }
      simpl. rewrite Hsv. simpl in Hal. rewrite Hsv in Hal.
      eapply IH; [exact Hsim2|exact Hg|exact Hal|exact Hrun].
Qed.

End OutboxRun.
