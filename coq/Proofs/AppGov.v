(* C11: governance of the application model - quorum for config changes, fresh eons,
   restarts, config start. *)
From Coq Require Import String.
From Coq Require Import List NArith ZArith Bool Lia Permutation.
From Verif Require Import Lib.Bytes Lib.Assoc Lib.Sorting Model.Powermap Model.App
     Proofs.AppDet Proofs.AppSafe Proofs.AppNonint.
Import ListNotations.
Open Scope Z_scope.

(* ---------- config_eqb is equality ---------- *)
Lemma addrs_eqb_eq a b : addrs_eqb a b = true <-> a = b.
Proof.
  revert b. induction a as [|x r IH]; intros [|y t]; simpl; split; intros H; try reflexivity; try discriminate.
  - apply andb_true_iff in H as [H1 H2]. apply bytes_eqb_eq in H1. apply IH in H2. congruence.
  - injection H as -> ->. rewrite bytes_eqb_refl. simpl. apply IH. reflexivity.
Qed.

Lemma config_eqb_eq a b : config_eqb a b = true <-> a = b.
Proof.
  destruct a as [a1 a2 a3 a4 a5 a6], b as [b1 b2 b3 b4 b5 b6]. unfold config_eqb. simpl. split.
  - intros H. repeat (apply andb_true_iff in H as [H ?]).
    apply N.eqb_eq in H. apply addrs_eqb_eq in H4. apply N.eqb_eq in H3, H2.
    apply Bool.eqb_prop in H1, H0. subst. reflexivity.
  - intros [= -> -> -> -> -> ->]. rewrite !N.eqb_refl, !Bool.eqb_reflx.
    assert (addrs_eqb b2 b2 = true) by (apply addrs_eqb_eq; reflexivity). rewrite H. reflexivity.
Qed.

(* ---------- eon numbers ---------- *)
Definition next_eon (c : N) : N := ((c + 1) mod 18446744073709551616)%N.

Definition eon_of_event (ev : event) : list N :=
  match ev with EvEonStarted e _ _ => [e] | _ => [] end.
Definition events_of (r : response) : list event :=
  match r with RBegin e => e | RDeliver _ e => e | REnd _ e => e | _ => [] end.
Definition eons_started (r : response) : list N := flat_map eon_of_event (events_of r).

Definition eon_step (c : N) (evs : list event) (c' : N) : Prop :=
  (flat_map eon_of_event evs = [] /\ c' = c) \/
  (flat_map eon_of_event evs = [next_eon c] /\ c' = next_eon c).

Lemma deliver_message_eons e s sender p s' code evs :
  deliver_message e s sender p = Some (s', (code, evs)) ->
  eon_step (eon_counter s) evs (eon_counter s').
Proof.
  unfold eon_step. destruct p; simpl.
  - unfold deliver_batch_config. branches; intros [= <- <- <-]; try (left; split; reflexivity).
    dkg_fact eon_counter HC. dkg_fact (fun _ : state => 0%N) HX. clear HX.
    match goal with H : start_dkg _ _ = (_, ?d) |- _ =>
      pose proof (f_equal (fun x => d_eon (snd x)) H) as HD; simpl in HD end.
    right. simpl. rewrite <- HD, <- HC. split; reflexivity.
  - unfold deliver_block_seen. branches; intros [= <- <- <-]; left; split; reflexivity.
  - unfold deliver_check_in. branches; intros [= <- <- <-]; left; split; reflexivity.
  - unfold deliver_dkg_result. branches; intros [= <- <- <-]; try (left; split; reflexivity).
    dkg_fact eon_counter HC.
    match goal with H : start_dkg _ _ = (_, ?d) |- _ =>
      pose proof (f_equal (fun x => d_eon (snd x)) H) as HD; simpl in HD end.
    right. simpl. rewrite <- HD, <- HC. split; reflexivity.
  - unfold handle_poly_eval. branches; intros [= <- <- <-]; left; split; reflexivity.
  - unfold handle_poly_commitment. branches; intros [= <- <- <-]; left; split; reflexivity.
  - unfold handle_accusation. branches; intros [= <- <- <-]; left; split; reflexivity.
  - unfold handle_apology. branches; intros [= <- <- <-]; left; split; reflexivity.
  - intros [= <- <- <-]. left; split; reflexivity.
Qed.

Lemma end_block_configs_no_eons s : forall cs prev,
  flat_map eon_of_event (snd (end_block_configs s prev cs)) = [].
Proof.
  induction cs as [|c r IH]; intros prev; simpl; [reflexivity|].
  match goal with |- context [end_block_configs s ?p r] => specialize (IH p); destruct (end_block_configs s p r) as [r' evs] end.
  simpl in *. rewrite flat_map_app, IH, app_nil_r.
  match goal with |- context [if ?b then _ else _] => destruct b end; reflexivity.
Qed.

Lemma step_eons e s c :
  eon_step (eon_counter s) (events_of (snd (step e s c))) (eon_counter (fst (step e s c))).
Proof.
  destruct c; simpl.
  - unfold begin_block. destruct (height =? 1); [destruct (configs s)|]; simpl; left; split; reflexivity.
  - destruct (check_tx s t) as [s' code] eqn:E. simpl. left. split; [reflexivity|].
    unfold check_tx in E. revert E. branches; intros [= <- <-]; reflexivity.
  - destruct (deliver_tx e s t) as [[s' [code evs]]|] eqn:E; simpl; [|left; split; reflexivity].
    unfold deliver_tx in E. revert E. destruct t as [|signer chain nonce p]; [intros [= <- <- <-]; left; split; reflexivity|].
    branches; try (intros [= <- <- <-]; left; split; reflexivity).
    intros E. apply deliver_message_eons in E. exact E.
  - unfold end_block. pose proof (end_block_configs_no_eons s (configs s) None) as H.
    destruct (end_block_configs s None (configs s)) as [cs evs]. simpl in *. left. split; [exact H|reflexivity].
  - left. split; reflexivity.
Qed.

Fixpoint eons_from (c : N) (m : nat) : list N :=
  match m with O => [] | S m' => next_eon c :: eons_from (next_eon c) m' end.
Fixpoint iter_next (c : N) (m : nat) : N :=
  match m with O => c | S m' => iter_next (next_eon c) m' end.

(* every eon started along a run gets the next number: the stream of started eons is
   c+1, c+2, ... (mod 2^64) and the counter ends at the last one *)
Theorem eons_fresh cs : forall es k s,
  exists m, flat_map eons_started (snd (run_enums es k s cs)) = eons_from (eon_counter s) m /\
            eon_counter (fst (run_enums es k s cs)) = iter_next (eon_counter s) m.
Proof.
  induction cs as [|c r IH]; intros es k s; simpl; [exists 0%nat; split; reflexivity|].
  pose proof (step_eons (es k) s c) as Hs. destruct (step (es k) s c) as [s1 o]. simpl in Hs.
  destruct (IH es (S k) s1) as [m [Hm1 Hm2]]. destruct (run_enums es (S k) s1 r) as [s2 os]. simpl in *.
  unfold eons_started at 1. destruct Hs as [[He Hc]|[He Hc]]; rewrite He, Hc in *.
  - exists m. split; [exact Hm1|exact Hm2].
  - exists (S m). simpl. split; [f_equal; exact Hm1|exact Hm2].
Qed.

Lemma eons_from_no_wrap c m :
  (Z.of_N c + Z.of_nat m < two64)%Z ->
  eons_from c m = map (fun i => (c + 1 + N.of_nat i)%N) (seq 0 m).
Proof.
  revert c. induction m as [|m IH]; intros c H; simpl; [reflexivity|].
  assert (Hn : next_eon c = (c + 1)%N).
  { unfold next_eon. apply N.mod_small. unfold two64 in H. lia. }
  rewrite Hn. f_equal; [lia|].
  rewrite IH by (unfold two64 in *; lia). rewrite <- seq_shift, map_map.
  apply map_ext. intros i. lia.
Qed.

(* ---------- config voting ---------- *)
Lemma last_opt_snoc {A} (l : list A) x : last_opt (l ++ [x]) = Some x.
Proof.
  induction l as [|a r IH]; simpl; [reflexivity|].
  destruct (r ++ [x]) eqn:E; [destruct r; discriminate|]. exact IH.
Qed.

Lemma aset_notin {V} (m : amap V) k v : aget m k = None -> aset m k v = m ++ [(k, v)].
Proof.
  induction m as [|[k0 v0] r IH]; simpl; [reflexivity|].
  destruct (bytes_eqb k0 k); [discriminate|]. intros H. rewrite (IH H). reflexivity.
Qed.

Lemma tally_app votes a i j : tally (votes ++ [(a, i)]) j = (tally votes j + (if Nat.eqb i j then 1 else 0))%nat.
Proof.
  unfold tally. rewrite filter_app, app_length. simpl. destruct (Nat.eqb i j); reflexivity.
Qed.

Definition meets (votes : amap nat) (req : Z) (i : nat) : bool :=
  negb (Nat.eqb (tally votes i) 0) && (req <=? Z.of_nat (tally votes i)).

Lemma first_index_meeting_none votes req n : forall i,
  first_index_meeting votes req i n = None <-> (forall j, (i <= j < i + n)%nat -> meets votes req j = false).
Proof.
  induction n as [|n IH]; intros i; simpl.
  - split; [intros _ j Hj; lia|reflexivity].
  - fold (meets votes req i). destruct (meets votes req i) eqn:E.
    + split; [discriminate|]. intros H. specialize (H i). rewrite E in H. assert (i <= i < i + S n)%nat by lia. intuition discriminate.
    + rewrite IH. split; intros H j Hj.
      * destruct (Nat.eq_dec j i) as [->|Hne]; [exact E|]. apply H. lia.
      * apply H. lia.
Qed.

Lemma first_index_meeting_some votes req n : forall i j,
  first_index_meeting votes req i n = Some j -> meets votes req j = true /\ (i <= j < i + n)%nat.
Proof.
  induction n as [|n IH]; intros i j; simpl; [discriminate|].
  fold (meets votes req i). destruct (meets votes req i) eqn:E.
  - intros [= <-]. split; [exact E|lia].
  - intros H. apply IH in H. destruct H. split; [assumption|lia].
Qed.

Lemma find_cand_spec {T} (teqb : T -> T -> bool) c l : forall i j,
  find_cand teqb c l i = Some j -> (i <= j)%nat /\ exists x, nth_error l (j - i) = Some x /\ teqb c x = true.
Proof.
  induction l as [|x r IH]; intros i j; simpl; [discriminate|].
  destruct (teqb c x) eqn:E.
  - intros [= <-]. split; [lia|]. exists x. rewrite Nat.sub_diag. simpl. auto.
  - intros H. apply IH in H. destruct H as [Hle [y [Hy Hc]]]. split; [lia|].
    exists y. replace (j - i)%nat with (S (j - S i)) by lia. simpl. auto.
Qed.

Lemma find_cand_bound {T} (teqb : T -> T -> bool) c l i j :
  find_cand teqb c l i = Some j -> (j < i + length l)%nat.
Proof.
  revert i j. induction l as [|x r IH]; intros i j; simpl; [discriminate|].
  destruct (teqb c x); [intros [= <-]; lia|]. intros H. apply IH in H. lia.
Qed.

Lemma nodup_filter_keys {V} (f : bytes * V -> bool) (m : amap V) :
  NoDup (map fst m) -> NoDup (map fst (filter f m)).
Proof.
  induction m as [|kv r IH]; simpl; intros H; [constructor|].
  inversion H as [|? ? Hn Hd]; subst. destruct (f kv); simpl; [|apply IH; exact Hd].
  constructor; [|apply IH; exact Hd]. intros Hin. apply Hn.
  apply in_map_iff in Hin as [x [Hx Hin]]. apply filter_In in Hin as [Hin _].
  apply in_map_iff. exists x. auto.
Qed.

Record gov_inv (s : state) : Prop := {
  gi_nodup : NoDup (map fst (v_votes (cfg_voting s)));
  gi_members : forall lc a i, last_opt (configs s) = Some lc ->
                              In (a, i) (v_votes (cfg_voting s)) -> is_keyper lc a = true;
  gi_quiet : forall lc, last_opt (configs s) = Some lc ->
                        outcome_index enum_id (cfg_voting s) (int_of_u64 (c_threshold lc)) = None;
  gi_bound : forall a i, In (a, i) (v_votes (cfg_voting s)) -> (i < length (v_cands (cfg_voting s)))%nat;
  gi_valid : forall lc, last_opt (configs s) = Some lc -> ensure_valid lc = true
}.

Lemma valid_threshold_int c : ensure_valid c = true -> int_of_u64 (c_threshold c) = Z.of_N (c_threshold c).
Proof.
  unfold ensure_valid, int_of_u64. intros H.
  apply andb_true_iff in H as [H H4]. apply andb_true_iff in H as [H H3].
  apply negb_true_iff in H3. apply Z.ltb_ge in H3. apply Z.ltb_lt in H4.
  destruct (Z.of_N (c_threshold c) <? two63) eqn:E; [reflexivity|]. apply Z.ltb_ge in E. lia.
Qed.

(* what an accepted config vote establishes *)
Theorem config_quorum e s sender act ks t i s' code evs :
  enum_ok e -> gov_inv s ->
  deliver_batch_config e s sender act ks t i = Some (s', (code, evs)) -> evs <> [] ->
  let bc := mkConfig act ks t i false false in
  exists lc v' i0 voters,
    last_opt (configs s) = Some lc /\
    add_vote config_eqb (cfg_voting s) sender bc = Some v' /\
    nth_error (v_cands v') i0 = Some bc /\
    NoDup voters /\ In sender voters /\
    (forall a, In a voters -> is_keyper lc a = true /\ aget (v_votes v') a = Some i0) /\
    Z.of_N (c_threshold lc) <= Z.of_nat (length voters) /\
    (c_index lc < i)%N /\ (c_act lc <= act)%N /\ ensure_valid bc = true /\
    configs s' = configs s ++ [bc] /\
    evs = [EvBatchConfig act t ks i; EvEonStarted (next_eon (eon_counter s)) act i].
Proof.
  intros He Hinv. unfold deliver_batch_config.
  destruct (negb (all_len20 ks)); [intros [= <- <- <-]; congruence|].
  destruct (negb (addrs_unique ks)); [intros [= <- <- <-]; congruence|].
  destruct (last_opt (configs s)) as [lc|] eqn:El; [|discriminate].
  destruct (config_eqb lc _); [intros [= <- <- <-]; congruence|].
  destruct (check_config s _) as [[|]|] eqn:Ec; try discriminate; [|intros [= <- <- <-]; congruence].
  destruct (is_keyper lc sender) eqn:Ek; simpl; [|intros [= <- <- <-]; congruence].
  destruct (add_vote config_eqb (cfg_voting s) sender _) as [v'|] eqn:Ev; [|intros [= <- <- <-]; congruence].
  destruct (outcome e v' _) as [[w|]|] eqn:Eo; try discriminate; [|intros [= <- <- <-]; congruence].
  set (bc := mkConfig act ks t i false false) in *.
  set (s2 := set_cfg_voting (set_cfg_voting s v') new_voting).
  assert (Ec2 : check_config s2 bc = Some true) by exact Ec. rewrite Ec2.
  intros [= <- <- <-] _.
  (* the winning index *)
  rewrite (outcome_enum e enum_id v' _ He enum_id_ok) in Eo.
  unfold outcome in Eo. destruct (outcome_index enum_id v' _) as [iw|] eqn:Ei; [|discriminate].
  unfold outcome_index, enum_id in Ei. apply first_index_meeting_some in Ei as [Hmeets Hrange].
  (* shape of v' *)
  unfold add_vote in Ev. destruct (amem (v_votes (cfg_voting s)) sender) eqn:Em; [discriminate|].
  injection Ev as Ev. unfold amem in Em. destruct (aget (v_votes (cfg_voting s)) sender) eqn:Eg; [discriminate|].
  pose proof (gi_quiet s Hinv lc El) as Hq. unfold outcome_index, enum_id in Hq.
  rewrite first_index_meeting_none in Hq.
  pose proof (valid_threshold_int lc (gi_valid s Hinv lc El)) as Hthr.
  unfold set_vote in Ev.
  assert (Hcore : exists i0, v_votes v' = v_votes (cfg_voting s) ++ [(sender, i0)] /\
                             nth_error (v_cands v') i0 = Some bc /\
                             (length (v_cands (cfg_voting s)) <= length (v_cands v') <= S (length (v_cands (cfg_voting s))))%nat /\
                             (i0 < length (v_cands v'))%nat /\
                             (length (v_cands v') = S (length (v_cands (cfg_voting s))) -> i0 = length (v_cands (cfg_voting s)))).
  { destruct (find_cand config_eqb bc (v_cands (cfg_voting s)) 0) as [j|] eqn:Ef.
    - exists j. subst v'. simpl. rewrite (aset_notin _ _ _ Eg). split; [reflexivity|].
      pose proof (find_cand_bound _ _ _ _ _ Ef) as Hb.
      apply find_cand_spec in Ef as [_ [x [Hx Hc]]]. rewrite Nat.sub_0_r in Hx.
      apply config_eqb_eq in Hc. subst x. repeat split; try lia; try exact Hx.
    - exists (length (v_cands (cfg_voting s))). subst v'. simpl. rewrite (aset_notin _ _ _ Eg).
      split; [reflexivity|]. rewrite app_length. simpl.
      split; [rewrite nth_error_app2 by lia; rewrite Nat.sub_diag; reflexivity|]. repeat split; lia. }
  destruct Hcore as (i0 & Hvotes & Hnth & Hlen & Hi0 & Hnew).
  assert (Hiw : iw = i0).
  { destruct (Nat.eq_dec iw i0) as [|Hne]; [assumption|exfalso].
    unfold meets in Hmeets. rewrite Hvotes, tally_app in Hmeets.
    assert (Hf : Nat.eqb i0 iw = false) by (apply Nat.eqb_neq; congruence). rewrite Hf, Nat.add_0_r in Hmeets.
    destruct (Nat.lt_ge_cases iw (length (v_cands (cfg_voting s)))) as [Hlt|Hge].
    - specialize (Hq iw). unfold meets in Hq. rewrite Hq in Hmeets; [discriminate|lia].
    - assert (length (v_cands v') = S (length (v_cands (cfg_voting s)))) by lia.
      specialize (Hnew H). lia. }
  subst iw.
  set (voters := map fst (filter (fun kv => Nat.eqb (snd kv) i0) (v_votes v'))).
  assert (Hnd' : NoDup (map fst (v_votes v'))).
  { rewrite Hvotes. rewrite <- (aset_notin _ _ _ Eg). apply aset_nodup. apply (gi_nodup s Hinv). }
  exists lc, v', i0, voters. split; [reflexivity|]. split; [subst v'; reflexivity|]. split; [exact Hnth|].
  split; [apply nodup_filter_keys; exact Hnd'|].
  split.
  { unfold voters. apply in_map_iff. exists (sender, i0). split; [reflexivity|].
    apply filter_In. split; [rewrite Hvotes; apply in_or_app; right; left; reflexivity|simpl; apply Nat.eqb_refl]. }
  split.
  { intros a Ha. unfold voters in Ha. apply in_map_iff in Ha as [[a' j] [Hfst Hin]]. simpl in Hfst. subst a'.
    apply filter_In in Hin as [Hin Hj]. simpl in Hj. apply Nat.eqb_eq in Hj. subst j. split.
    - rewrite Hvotes in Hin. apply in_app_or in Hin as [Hin|[Hin|[]]].
      + eapply (gi_members s Hinv); eauto.
      + assert (a = sender) by congruence. subst a. exact Ek.
    - apply in_nodup_aget; assumption. }
  split.
  { unfold meets in Hmeets. apply andb_true_iff in Hmeets as [_ Hm]. apply Z.leb_le in Hm.
    rewrite Hthr in Hm. subst voters. rewrite (map_length fst). exact Hm. }
  revert Ec. unfold check_config. rewrite El. destruct (negb (ensure_valid bc)) eqn:Evb; [discriminate|].
  destruct (c_act bc <? c_act lc)%N eqn:Ea; [discriminate|].
  destruct (c_index bc <=? c_index lc)%N eqn:Eix; [discriminate|]. intros _.
  unfold bc in Ea, Eix. simpl in Ea, Eix.
  apply N.ltb_ge in Ea. apply N.leb_gt in Eix. apply negb_false_iff in Evb.
  split; [exact Eix|]. split; [exact Ea|]. split; [exact Evb|].
  split; reflexivity.
Qed.

(* ---------- gov_inv is an invariant ---------- *)
Definition core_eq (c c' : config) : Prop :=
  c_keypers c = c_keypers c' /\ c_threshold c = c_threshold c' /\ c_act c = c_act c' /\ c_index c = c_index c'.

Lemma core_eq_refl c : core_eq c c.
Proof. repeat split. Qed.

Lemma ensure_valid_core c c' : core_eq c c' -> ensure_valid c = ensure_valid c'.
Proof. intros (H1 & H2 & _). unfold ensure_valid. rewrite H1, H2. reflexivity. Qed.

Lemma gov_inv_transfer s s' :
  cfg_voting s' = cfg_voting s ->
  (forall lc', last_opt (configs s') = Some lc' -> exists lc, last_opt (configs s) = Some lc /\ core_eq lc lc') ->
  gov_inv s -> gov_inv s'.
Proof.
  intros Hv Hl H. constructor; rewrite ?Hv.
  - apply (gi_nodup s H).
  - intros lc' a i El Hin. destruct (Hl lc' El) as [lc [El0 (Hk & _)]].
    unfold is_keyper. rewrite <- Hk. eapply (gi_members s H); eauto.
  - intros lc' El. destruct (Hl lc' El) as [lc [El0 (_ & Ht & _)]]. rewrite <- Ht. apply (gi_quiet s H). exact El0.
  - apply (gi_bound s H).
  - intros lc' El. destruct (Hl lc' El) as [lc [El0 Hc]]. rewrite <- (ensure_valid_core lc lc' Hc). apply (gi_valid s H). exact El0.
Qed.

Lemma gov_inv_same s s' :
  cfg_voting s' = cfg_voting s -> configs s' = configs s -> gov_inv s -> gov_inv s'.
Proof.
  intros Hv Hc. apply gov_inv_transfer; [exact Hv|]. intros lc' El. rewrite Hc in El. exists lc'. split; [exact El|apply core_eq_refl].
Qed.

Definition is_batch_config (p : payload) : bool := match p with PBatchConfig _ _ _ _ => true | _ => false end.

Lemma deliver_message_gov_frame e s sender p s' r :
  is_batch_config p = false -> deliver_message e s sender p = Some (s', r) ->
  cfg_voting s' = cfg_voting s /\ configs s' = configs s.
Proof.
  destruct p; simpl; intros Hb; try discriminate.
  - unfold deliver_block_seen. branches; intros [= <- <-]; split; reflexivity.
  - unfold deliver_check_in. branches; intros [= <- <-]; split; reflexivity.
  - unfold deliver_dkg_result. branches; intros [= <- <-]; try (split; reflexivity).
    dkg_fact cfg_voting H1. dkg_fact configs H2. rewrite <- H1, <- H2. split; reflexivity.
  - unfold handle_poly_eval. branches; intros [= <- <-]; split; reflexivity.
  - unfold handle_poly_commitment. branches; intros [= <- <-]; split; reflexivity.
  - unfold handle_accusation. branches; intros [= <- <-]; split; reflexivity.
  - unfold handle_apology. branches; intros [= <- <-]; split; reflexivity.
  - intros [= <- <-]. split; reflexivity.
Qed.

Lemma new_voting_quiet {T} req : outcome_index enum_id (@new_voting T) req = None.
Proof. reflexivity. Qed.

Lemma batch_config_gov_inv e s sender act ks t i s' r :
  enum_ok e -> gov_inv s -> deliver_batch_config e s sender act ks t i = Some (s', r) -> gov_inv s'.
Proof.
  intros He Hinv. unfold deliver_batch_config.
  destruct (negb (all_len20 ks)); [intros [= <- <-]; exact Hinv|].
  destruct (negb (addrs_unique ks)); [intros [= <- <-]; exact Hinv|].
  destruct (last_opt (configs s)) as [lc|] eqn:El; [|discriminate].
  destruct (config_eqb lc _); [intros [= <- <-]; exact Hinv|].
  destruct (check_config s _) as [[|]|] eqn:Ec; try discriminate; [|intros [= <- <-]; exact Hinv].
  destruct (is_keyper lc sender) eqn:Ek; simpl; [|intros [= <- <-]; exact Hinv].
  set (bc := mkConfig act ks t i false false) in *.
  destruct (add_vote config_eqb (cfg_voting s) sender bc) as [v'|] eqn:Ev; [|intros [= <- <-]; exact Hinv].
  assert (Hv' : NoDup (map fst (v_votes v')) /\
                (forall a j, In (a, j) (v_votes v') -> is_keyper lc a = true) /\
                (forall a j, In (a, j) (v_votes v') -> (j < length (v_cands v'))%nat)).
  { unfold add_vote in Ev. destruct (amem (v_votes (cfg_voting s)) sender) eqn:Em; [discriminate|].
    injection Ev as <-. unfold amem in Em. destruct (aget (v_votes (cfg_voting s)) sender) eqn:Eg; [discriminate|].
    unfold set_vote. destruct (find_cand config_eqb bc (v_cands (cfg_voting s)) 0) as [j|] eqn:Ef; simpl.
    - rewrite (aset_notin _ _ _ Eg). split; [|split].
      + rewrite <- (aset_notin _ _ _ Eg). apply aset_nodup, (gi_nodup s Hinv).
      + intros a j' Hin. apply in_app_or in Hin as [Hin|[Hin|[]]]; [eapply (gi_members s Hinv); eauto|].
        assert (a = sender) by congruence. subst. exact Ek.
      + intros a j' Hin. apply in_app_or in Hin as [Hin|[Hin|[]]]; [eapply (gi_bound s Hinv); eauto|].
        assert (j' = j) by congruence. subst. apply find_cand_bound in Ef. lia.
    - rewrite (aset_notin _ _ _ Eg). split; [|split].
      + rewrite <- (aset_notin _ _ _ Eg). apply aset_nodup, (gi_nodup s Hinv).
      + intros a j' Hin. apply in_app_or in Hin as [Hin|[Hin|[]]]; [eapply (gi_members s Hinv); eauto|].
        assert (a = sender) by congruence. subst. exact Ek.
      + intros a j' Hin. rewrite app_length. simpl.
        apply in_app_or in Hin as [Hin|[Hin|[]]]; [pose proof (gi_bound s Hinv a j' Hin); lia|].
        assert (j' = length (v_cands (cfg_voting s))) by congruence. lia. }
  destruct Hv' as (Hn' & Hm' & Hb').
  destruct (outcome e v' _) as [[w|]|] eqn:Eo; try discriminate.
  - (* accepted *)
    set (s2 := set_cfg_voting (set_cfg_voting s v') new_voting).
    assert (Ec2 : check_config s2 bc = Some true) by exact Ec. rewrite Ec2.
    intros [= <- <-]. constructor; simpl.
    + constructor.
    + intros lc' a j _ [].
    + intros lc' _. reflexivity.
    + intros a j [].
    + intros lc'. rewrite last_opt_snoc. intros [= <-].
      revert Ec. unfold check_config. destruct (negb (ensure_valid bc)) eqn:Evb; [discriminate|].
      intros _. apply negb_false_iff in Evb. exact Evb.
  - (* vote recorded, no outcome *)
    intros [= <- <-]. constructor; simpl.
    + exact Hn'.
    + intros lc' a j El'. rewrite El in El'. injection El' as <-. apply Hm'.
    + intros lc' El'. rewrite El in El'. injection El' as <-.
      rewrite (outcome_enum e enum_id v' _ He enum_id_ok) in Eo. unfold outcome in Eo.
      destruct (outcome_index enum_id v' _); [discriminate|reflexivity].
    + exact Hb'.
    + apply (gi_valid s Hinv).
Qed.

Lemma end_block_configs_core s : forall cs prev,
  Forall2 core_eq cs (fst (end_block_configs s prev cs)).
Proof.
  induction cs as [|c r IH]; intros prev; simpl; [constructor|].
  match goal with |- context [end_block_configs s ?p r] => specialize (IH p); destruct (end_block_configs s p r) as [r' evs] end.
  simpl in *. constructor; [|exact IH].
  repeat match goal with |- context [if ?b then _ else _] => destruct b end; repeat split.
Qed.

Lemma last_opt_cons {A} (a b : A) l : last_opt (a :: b :: l) = last_opt (b :: l).
Proof. reflexivity. Qed.

Lemma forall2_last_opt {A B} (R : A -> B -> Prop) l l' y :
  Forall2 R l l' -> last_opt l' = Some y -> exists x, last_opt l = Some x /\ R x y.
Proof.
  induction 1 as [|a b r r' Hab Hr IH]; [simpl; discriminate|].
  destruct Hr as [|a2 b2 r2 r2' Hab2 Hr2].
  - simpl. intros [= <-]. exists a. auto.
  - rewrite !last_opt_cons. exact IH.
Qed.

Lemma step_gov_inv e s c : enum_ok e -> gov_inv s -> gov_inv (fst (step e s c)).
Proof.
  intros He Hinv. destruct c; simpl.
  - destruct (begin_block s height); exact Hinv.
  - destruct (check_tx s t) as [s' code] eqn:E. simpl. unfold check_tx in E. revert E.
    branches; intros [= <- <-]; try exact Hinv. all: try (eapply gov_inv_same; [| |exact Hinv]; reflexivity).
  - destruct (deliver_tx e s t) as [[s' [code evs]]|] eqn:E; simpl; [|exact Hinv].
    unfold deliver_tx in E. revert E. destruct t as [|signer chain nonce p]; [intros [= <- <- <-]; exact Hinv|].
    branches; try (intros [= <- <- <-]; exact Hinv).
    intros E.
    assert (Hinv1 : gov_inv (set_nonces s ((signer, nonce) :: nonces s))) by (eapply gov_inv_same; [| |exact Hinv]; reflexivity).
    destruct (is_batch_config p) eqn:Eb.
    + destruct p; try discriminate. simpl in E. eapply batch_config_gov_inv; eauto.
    + destruct (deliver_message_gov_frame e _ signer p s' (code, evs) Eb E) as [H1 H2].
      eapply gov_inv_same; [exact H1|exact H2|exact Hinv1].
  - unfold end_block. pose proof (end_block_configs_core s (configs s) None) as Hc.
    destruct (end_block_configs s None (configs s)) as [cs evs]. simpl in *.
    apply (gov_inv_transfer s); [reflexivity| |exact Hinv].
    intros lc' El. simpl in El. eapply forall2_last_opt; eauto.
  - eapply gov_inv_same; [| |exact Hinv]; reflexivity.
Qed.

Lemma init_chain_gov_inv g s : init_chain g = Some s -> gov_inv s.
Proof.
  unfold init_chain. destruct (negb (ensure_valid _)) eqn:Ev; [discriminate|].
  destruct (negb (forallb _ _)); [discriminate|]. intros [= <-]. constructor; simpl.
  - constructor.
  - intros lc a i _ [].
  - intros lc _. reflexivity.
  - intros a i [].
  - intros lc [= <-]. apply negb_false_iff in Ev. exact Ev.
Qed.

Lemma run_gov_inv cs : forall es k s, (forall j, enum_ok (es j)) -> gov_inv s -> gov_inv (fst (run_enums es k s cs)).
Proof.
  induction cs as [|c r IH]; intros es k s He H; simpl; [exact H|].
  pose proof (step_gov_inv (es k) s c (He k) H) as H1. destruct (step (es k) s c) as [s1 o]. simpl in H1.
  specialize (IH es (S k) s1 He H1). destruct (run_enums es (S k) s1 r) as [s2 os]. exact IH.
Qed.

(* ---------- one vote per sender and round ---------- *)
Theorem second_vote_refused e s sender act ks t i :
  amem (v_votes (cfg_voting s)) sender = true -> configs s <> [] ->
  exists code, deliver_batch_config e s sender act ks t i = Some (s, (code, [])) /\ code <> code_ok.
Proof.
  intros Hm Hne. unfold deliver_batch_config.
  destruct (negb (all_len20 ks)); [exists code_error; split; [reflexivity|discriminate]|].
  destruct (negb (addrs_unique ks)); [exists code_error; split; [reflexivity|discriminate]|].
  destruct (last_opt_some (configs s) Hne) as [lc El]. rewrite El.
  destruct (config_eqb lc _); [exists code_seen; split; [reflexivity|discriminate]|].
  unfold check_config. rewrite El.
  destruct (negb (ensure_valid _)); [exists code_error; split; [reflexivity|discriminate]|].
  destruct (_ <? _)%N; [exists code_error; split; [reflexivity|discriminate]|].
  destruct (_ <=? _)%N; [exists code_error; split; [reflexivity|discriminate]|].
  destruct (negb (is_keyper lc sender)); [exists code_error; split; [reflexivity|discriminate]|].
  unfold add_vote. rewrite Hm. exists code_error. split; [reflexivity|discriminate].
Qed.

(* a vote enters the voting state only through an accepted config-vote transaction of that
   very sender, carrying that very config *)
Definition voted_for (s : state) (a : addr) (c : config) : Prop :=
  exists j, aget (v_votes (cfg_voting s)) a = Some j /\ nth_error (v_cands (cfg_voting s)) j = Some c.

Lemma nth_error_app_some {A} (l l' : list A) j x : nth_error l j = Some x -> nth_error (l ++ l') j = Some x.
Proof. intros H. rewrite nth_error_app1; [exact H|]. apply nth_error_Some. congruence. Qed.

Theorem vote_provenance e s c a cfg :
  gov_inv s -> voted_for (fst (step e s c)) a cfg -> ~ voted_for s a cfg ->
  exists chain nonce, c = CDeliver (Tx a chain nonce (PBatchConfig (c_act cfg) (c_keypers cfg) (c_threshold cfg) (c_index cfg))) /\
                      c_started cfg = false /\ c_valupd cfg = false /\
                      exists evs, snd (step e s c) = RDeliver code_ok evs.
Proof.
  intros Hinv Hv Hn.
  assert (Hsame : forall s', cfg_voting s' = cfg_voting s -> voted_for s' a cfg -> False).
  { intros s' E [j [H1 H2]]. apply Hn. exists j. rewrite <- E. auto. }
  destruct c; simpl in *.
  - exfalso. destruct (begin_block s height); eapply Hsame; eauto.
  - exfalso. destruct (check_tx s t) as [s' code] eqn:E. simpl in Hv. eapply Hsame; [|exact Hv].
    unfold check_tx in E. revert E. branches; intros [= <- <-]; reflexivity.
  - destruct (deliver_tx e s t) as [[s' [code evs]]|] eqn:E; simpl in *; [|exfalso; eapply Hsame; eauto].
    unfold deliver_tx in E. destruct t as [|signer chain nonce p]; [injection E as <- <- <-; exfalso; eapply Hsame; eauto|].
    destruct (negb (bytes_eqb chain (chain_id s))); [injection E as <- <- <-; exfalso; eapply Hsame; eauto|].
    destruct (nonce_used (nonces s) signer nonce); [injection E as <- <- <-; exfalso; eapply Hsame; eauto|].
    destruct (is_batch_config p) eqn:Eb.
    2:{ exfalso. destruct (deliver_message_gov_frame e _ signer p s' (code, evs) Eb E) as [H1 _].
        eapply Hsame; [|exact Hv]. rewrite H1. reflexivity. }
    destruct p; try discriminate. simpl in E. unfold deliver_batch_config in E.
    set (s1 := set_nonces s ((signer, nonce) :: nonces s)) in *.
    destruct (negb (all_len20 keypers)); [injection E as <- <- <-; exfalso; eapply Hsame; [|exact Hv]; reflexivity|].
    destruct (negb (addrs_unique keypers)); [injection E as <- <- <-; exfalso; eapply Hsame; [|exact Hv]; reflexivity|].
    destruct (last_opt (configs s1)) as [lc|] eqn:El; [|discriminate].
    destruct (config_eqb lc _); [injection E as <- <- <-; exfalso; eapply Hsame; [|exact Hv]; reflexivity|].
    destruct (check_config s1 _) as [[|]|] eqn:Ec; try discriminate; [|injection E as <- <- <-; exfalso; eapply Hsame; [|exact Hv]; reflexivity].
    destruct (negb (is_keyper lc signer)); [injection E as <- <- <-; exfalso; eapply Hsame; [|exact Hv]; reflexivity|].
    set (bc := mkConfig act keypers threshold idx false false) in *.
    destruct (add_vote config_eqb (cfg_voting s1) signer bc) as [v'|] eqn:Ev; [|injection E as <- <- <-; exfalso; eapply Hsame; [|exact Hv]; reflexivity].
    destruct (outcome e v' _) as [[w|]|] eqn:Eo; try discriminate.
    + (* accepted: the voting state is reset, nobody has voted for anything *)
      exfalso. revert E. set (s2 := set_cfg_voting (set_cfg_voting s1 v') new_voting).
      assert (Ec2 : check_config s2 bc = Some true) by exact Ec. rewrite Ec2. intros [= <- <- <-].
      destruct Hv as [j [H1 _]]. simpl in H1. discriminate.
    + injection E as <- <- <-. destruct Hv as [j [H1 H2]]. simpl in H1, H2.
      unfold add_vote in Ev. destruct (amem (v_votes (cfg_voting s1)) signer) eqn:Em; [discriminate|].
      injection Ev as <-. unfold amem in Em. destruct (aget (v_votes (cfg_voting s1)) signer) eqn:Eg; [discriminate|].
      change (cfg_voting s1) with (cfg_voting s) in *.
      destruct (bytes_eqb signer a) eqn:Esa.
      * apply bytes_eqb_eq in Esa. subst signer.
        assert (Hcfg : cfg = bc).
        { unfold set_vote in H1, H2. destruct (find_cand config_eqb bc (v_cands (cfg_voting s)) 0) as [j0|] eqn:Ef; simpl in H1, H2.
          - rewrite aget_aset_same in H1. injection H1 as <-.
            apply find_cand_spec in Ef as [_ [x [Hx Hc]]]. rewrite Nat.sub_0_r in Hx. apply config_eqb_eq in Hc. congruence.
          - rewrite aget_aset_same in H1. injection H1 as <-.
            rewrite nth_error_app2 in H2 by lia. rewrite Nat.sub_diag in H2. simpl in H2. congruence. }
        subst cfg. exists chain, nonce. simpl. repeat split. eexists. reflexivity.
      * exfalso. apply Hn. exists j. apply bytes_eqb_neq in Esa.
        unfold set_vote in H1, H2. destruct (find_cand config_eqb bc (v_cands (cfg_voting s)) 0) as [j0|] eqn:Ef; simpl in H1, H2.
        -- rewrite aget_aset_other in H1 by exact Esa. auto.
        -- rewrite aget_aset_other in H1 by exact Esa. split; [exact H1|].
           assert (Hin : In (a, j) (v_votes (cfg_voting s))) by (apply aget_in; exact H1).
           pose proof (gi_bound s Hinv a j Hin) as Hb. rewrite nth_error_app1 in H2 by exact Hb. exact H2.
  - exfalso. unfold end_block in Hv. destruct (end_block_configs s None (configs s)) as [cs evs]. simpl in Hv.
    eapply Hsame; [|exact Hv]. reflexivity.
  - exfalso. eapply Hsame; [|exact Hv]. reflexivity.
Qed.

(* votes are cleared only by an acceptance *)
Theorem votes_persist e s c a cfg :
  gov_inv s -> voted_for s a cfg -> ~ voted_for (fst (step e s c)) a cfg ->
  exists act t ks i, In (EvBatchConfig act t ks i) (events_of (snd (step e s c))) /\
                     exists code evs, snd (step e s c) = RDeliver code evs.
Proof.
  intros Hinv Hv Hn.
  assert (Hsame : forall s', cfg_voting s' = cfg_voting s -> ~ voted_for s' a cfg -> False).
  { intros s' E H. apply H. destruct Hv as [j [H1 H2]]. exists j. rewrite E. auto. }
  destruct c; simpl in *.
  - exfalso. destruct (begin_block s height); eapply Hsame; eauto.
  - exfalso. destruct (check_tx s t) as [s' code] eqn:E. simpl in Hn. eapply Hsame; [|exact Hn].
    unfold check_tx in E. revert E. branches; intros [= <- <-]; reflexivity.
  - destruct (deliver_tx e s t) as [[s' [code evs]]|] eqn:E; simpl in *; [|exfalso; eapply Hsame; eauto].
    unfold deliver_tx in E. destruct t as [|signer chain nonce p]; [injection E as <- <- <-; exfalso; eapply Hsame; eauto|].
    destruct (negb (bytes_eqb chain (chain_id s))); [injection E as <- <- <-; exfalso; eapply Hsame; eauto|].
    destruct (nonce_used (nonces s) signer nonce); [injection E as <- <- <-; exfalso; eapply Hsame; eauto|].
    destruct (is_batch_config p) eqn:Eb.
    2:{ exfalso. destruct (deliver_message_gov_frame e _ signer p s' (code, evs) Eb E) as [H1 _].
        eapply Hsame; [|exact Hn]. rewrite H1. reflexivity. }
    destruct p; try discriminate. simpl in E. unfold deliver_batch_config in E.
    set (s1 := set_nonces s ((signer, nonce) :: nonces s)) in *.
    destruct (negb (all_len20 keypers)); [injection E as <- <- <-; exfalso; eapply Hsame; [|exact Hn]; reflexivity|].
    destruct (negb (addrs_unique keypers)); [injection E as <- <- <-; exfalso; eapply Hsame; [|exact Hn]; reflexivity|].
    destruct (last_opt (configs s1)) as [lc|] eqn:El; [|discriminate].
    destruct (config_eqb lc _); [injection E as <- <- <-; exfalso; eapply Hsame; [|exact Hn]; reflexivity|].
    destruct (check_config s1 _) as [[|]|] eqn:Ec; try discriminate; [|injection E as <- <- <-; exfalso; eapply Hsame; [|exact Hn]; reflexivity].
    destruct (negb (is_keyper lc signer)); [injection E as <- <- <-; exfalso; eapply Hsame; [|exact Hn]; reflexivity|].
    set (bc := mkConfig act keypers threshold idx false false) in *.
    destruct (add_vote config_eqb (cfg_voting s1) signer bc) as [v'|] eqn:Ev; [|injection E as <- <- <-; exfalso; eapply Hsame; [|exact Hn]; reflexivity].
    destruct (outcome e v' _) as [[w|]|] eqn:Eo; try discriminate.
    + revert E. set (s2 := set_cfg_voting (set_cfg_voting s1 v') new_voting).
      assert (Ec2 : check_config s2 bc = Some true) by exact Ec. rewrite Ec2. intros [= <- <- <-].
      exists act, threshold, keypers, idx. split; [left; reflexivity|]. eexists. eexists. reflexivity.
    + exfalso. injection E as <- <- <-. apply Hn. destruct Hv as [j [H1 H2]].
      unfold add_vote in Ev. destruct (amem (v_votes (cfg_voting s1)) signer) eqn:Em; [discriminate|].
      injection Ev as <-. unfold amem in Em. destruct (aget (v_votes (cfg_voting s1)) signer) eqn:Eg; [discriminate|].
      change (cfg_voting s1) with (cfg_voting s) in *.
      assert (Hne : signer <> a) by (intros ->; congruence).
      exists j. simpl. unfold set_vote.
      destruct (find_cand config_eqb bc (v_cands (cfg_voting s)) 0) as [j0|]; simpl;
        rewrite aget_aset_other by exact Hne; split; auto.
      apply nth_error_app_some. exact H2.
  - exfalso. unfold end_block in Hn. destruct (end_block_configs s None (configs s)) as [cs evs]. simpl in Hn.
    eapply Hsame; [|exact Hn]. reflexivity.
  - exfalso. eapply Hsame; [|exact Hn]. reflexivity.
Qed.

(* ---------- DKG restarts ---------- *)
Definition dkg_gov_ok (s : state) : Prop :=
  forall eon d, dkg_get (dkgs s) eon = Some d ->
    ensure_valid (d_config d) = true /\
    NoDup (map fst (v_votes (d_success d))) /\
    (forall a i, In (a, i) (v_votes (d_success d)) -> is_keyper (d_config d) a = true).

Lemma dkg_gov_ok_frame s s' : dkgs s' = dkgs s -> dkg_gov_ok s -> dkg_gov_ok s'.
Proof. intros Hd H eon d. rewrite Hd. apply H. Qed.

Lemma dkg_gov_ok_upd s eon d d' :
  dkg_gov_ok s -> dkg_get (dkgs s) eon = Some d -> d_config d' = d_config d -> d_success d' = d_success d ->
  dkg_gov_ok (upd_dkg s eon d').
Proof.
  intros Hok Hg Hc Hs eon' dd. unfold upd_dkg. simpl. rewrite dkg_get_set.
  destruct (N.eqb eon eon'); [|apply Hok]. intros [= <-]. rewrite Hc, Hs. eapply Hok. exact Hg.
Qed.

Lemma dkg_gov_ok_start s c : dkg_gov_ok s -> ensure_valid c = true -> dkg_gov_ok (fst (start_dkg s c)).
Proof.
  intros Hok Hv eon d. unfold start_dkg. simpl. rewrite dkg_get_set.
  destruct (N.eqb _ eon); [|apply Hok]. intros [= <-]. simpl. split; [exact Hv|]. split; [constructor|intros a i []].
Qed.

Lemma add_vote_shape {T} (teqb : T -> T -> bool) v sender c v' :
  add_vote teqb v sender c = Some v' ->
  aget (v_votes v) sender = None /\
  exists j, v_votes v' = v_votes v ++ [(sender, j)] /\ (j < length (v_cands v'))%nat /\
            (exists x, nth_error (v_cands v') j = Some x /\ teqb c x = true \/ (x = c /\ j = length (v_cands v))) /\
            (forall k x, nth_error (v_cands v) k = Some x -> nth_error (v_cands v') k = Some x).
Proof.
  unfold add_vote. destruct (amem (v_votes v) sender) eqn:Em; [discriminate|]. intros [= <-].
  unfold amem in Em. destruct (aget (v_votes v) sender) eqn:Eg; [discriminate|]. split; [reflexivity|].
  unfold set_vote. destruct (find_cand teqb c (v_cands v) 0) as [j|] eqn:Ef; simpl.
  - exists j. rewrite (aset_notin _ _ _ Eg). split; [reflexivity|].
    pose proof (find_cand_bound _ _ _ _ _ Ef) as Hb. split; [lia|].
    apply find_cand_spec in Ef as [_ [x [Hx Hc]]]. rewrite Nat.sub_0_r in Hx. split; [exists x; left; auto|auto].
  - exists (length (v_cands v)). rewrite (aset_notin _ _ _ Eg). split; [reflexivity|]. rewrite app_length. simpl.
    split; [lia|]. split.
    + exists c. right. auto.
    + intros k x Hk. apply nth_error_app_some. exact Hk.
Qed.

Lemma deliver_message_dkg_gov_ok e s sender p s' r :
  gov_inv s -> dkg_gov_ok s -> deliver_message e s sender p = Some (s', r) -> dkg_gov_ok s'.
Proof.
  intros Hg Hok. destruct p; simpl.
  - unfold deliver_batch_config. branches; intros [= <- <-]; try exact Hok.
    match goal with H : start_dkg ?s0 ?c0 = _ |- _ =>
      pose proof (dkg_gov_ok_start s0 c0) as HS; rewrite H in HS; simpl in HS end.
    apply HS; [exact Hok|].
    match goal with H : check_config _ _ = Some true |- _ => revert H end.
    unfold check_config. destruct (negb (ensure_valid _)) eqn:Ev; [discriminate|]. intros _.
    apply negb_false_iff in Ev. exact Ev.
  - unfold deliver_block_seen. branches; intros [= <- <-]; exact Hok.
  - unfold deliver_check_in. branches; intros [= <- <-]; exact Hok.
  - unfold deliver_dkg_result. destruct (dkg_get (dkgs s) eon) as [d|] eqn:Eg; [|intros [= <- <-]; exact Hok].
    destruct (negb (is_keyper (d_config d) sender)) eqn:Ek; [intros [= <- <-]; exact Hok|].
    destruct (add_vote Bool.eqb (d_success d) sender success) as [v'|] eqn:Ev; [|intros [= <- <-]; exact Hok].
    apply negb_false_iff in Ek.
    destruct (Hok eon d Eg) as (Hvalid & Hnd & Hmem).
    destruct (add_vote_shape _ _ _ _ _ Ev) as (Hnone & j & Hvotes & _).
    set (d' := mkDkg (d_config d) (d_eon d) v' (d_evals d) (d_commits d) (d_accs d) (d_apos d)).
    assert (Hok1 : dkg_gov_ok (set_dkgs s (dkg_set (dkgs s) eon d'))).
    { intros eon' dd. simpl. rewrite dkg_get_set. destruct (N.eqb eon eon'); [|apply Hok].
      intros [= <-]. simpl. split; [exact Hvalid|]. split.
      - rewrite Hvotes. rewrite <- (aset_notin _ _ _ Hnone). apply aset_nodup. exact Hnd.
      - intros a i Hin. rewrite Hvotes in Hin. apply in_app_or in Hin as [Hin|[Hin|[]]]; [eapply Hmem; eauto|].
        assert (a = sender) by congruence. subst. exact Ek. }
    branches; intros [= <- <-]; try exact Hok1.
    match goal with H : start_dkg ?s0 ?c0 = _ |- _ =>
      pose proof (dkg_gov_ok_start s0 c0) as HS; rewrite H in HS; simpl in HS end.
    apply HS; [exact Hok1|exact Hvalid].
  - unfold handle_poly_eval. destruct (dkg_get (dkgs s) eon) as [d|] eqn:Eg; branches; intros [= <- <-]; try exact Hok.
    all: try (apply (dkg_gov_ok_upd s eon d); [exact Hok|exact Eg|reflexivity|reflexivity]).
  - unfold handle_poly_commitment. destruct (dkg_get (dkgs s) eon) as [d|] eqn:Eg; branches; intros [= <- <-]; try exact Hok.
    all: try (apply (dkg_gov_ok_upd s eon d); [exact Hok|exact Eg|reflexivity|reflexivity]).
  - unfold handle_accusation. destruct (dkg_get (dkgs s) eon) as [d|] eqn:Eg; branches; intros [= <- <-]; try exact Hok.
    all: try (apply (dkg_gov_ok_upd s eon d); [exact Hok|exact Eg|reflexivity|reflexivity]).
  - unfold handle_apology. destruct (dkg_get (dkgs s) eon) as [d|] eqn:Eg; branches; intros [= <- <-]; try exact Hok.
    all: try (apply (dkg_gov_ok_upd s eon d); [exact Hok|exact Eg|reflexivity|reflexivity]).
  - intros [= <- <-]. exact Hok.
Qed.

Lemma step_dkg_gov_ok e s c : gov_inv s -> dkg_gov_ok s -> dkg_gov_ok (fst (step e s c)).
Proof.
  intros Hg Hok. destruct c; simpl.
  - destruct (begin_block s height); exact Hok.
  - destruct (check_tx s t) as [s' code] eqn:E. simpl. unfold check_tx in E. revert E.
    branches; intros [= <- <-]; exact Hok.
  - destruct (deliver_tx e s t) as [[s' [code evs]]|] eqn:E; simpl; [|exact Hok].
    unfold deliver_tx in E. revert E. destruct t as [|signer chain nonce p]; [intros [= <- <- <-]; exact Hok|].
    branches; try (intros [= <- <- <-]; exact Hok).
    intros E. eapply deliver_message_dkg_gov_ok; [| |exact E].
    + eapply gov_inv_same; [| |exact Hg]; reflexivity.
    + exact Hok.
  - unfold end_block. destruct (end_block_configs s None (configs s)) as [cs evs]. simpl. exact Hok.
  - exact Hok.
Qed.

Lemma init_chain_dkg_gov_ok g s : init_chain g = Some s -> dkg_gov_ok s.
Proof. unfold init_chain. branches; try discriminate. intros [= <-] eon d. simpl. discriminate. Qed.

(* what a restart establishes *)
Theorem restart_quorum e s sender succ eon s' code evs :
  enum_ok e -> dkg_gov_ok s ->
  deliver_dkg_result e s sender succ eon = Some (s', (code, evs)) -> evs <> [] ->
  exists d v' j voters,
    dkg_get (dkgs s) eon = Some d /\
    add_vote Bool.eqb (d_success d) sender succ = Some v' /\
    nth_error (v_cands v') j = Some false /\
    NoDup voters /\
    (forall a, In a voters -> is_keyper (d_config d) a = true /\ aget (v_votes v') a = Some j) /\
    Z.of_N (c_threshold (d_config d)) <= Z.of_nat (length voters) /\
    (eon_counter s <= eon)%N /\
    evs = [EvEonStarted (next_eon (eon_counter s)) (c_act (d_config d)) (c_index (d_config d))].
Proof.
  intros He Hok. unfold deliver_dkg_result.
  destruct (dkg_get (dkgs s) eon) as [d|] eqn:Eg; [|intros [= <- <- <-]; congruence].
  destruct (negb (is_keyper (d_config d) sender)) eqn:Ek; [intros [= <- <- <-]; congruence|].
  destruct (add_vote Bool.eqb (d_success d) sender succ) as [v'|] eqn:Ev; [|intros [= <- <- <-]; congruence].
  apply negb_false_iff in Ek.
  destruct (Hok eon d Eg) as (Hvalid & Hnd & Hmem).
  destruct (add_vote_shape _ _ _ _ _ Ev) as (Hnone & jv & Hvotes & _).
  destruct (outcome e v' _) as [[w|]|] eqn:Eo; try discriminate; [|intros [= <- <- <-]; congruence].
  destruct w; simpl; [intros [= <- <- <-]; congruence|].
  destruct (eon <? eon_counter _)%N eqn:Eout; [intros [= <- <- <-]; congruence|].
  simpl in Eout. apply N.ltb_ge in Eout.
  intros [= <- <- <-] _.
  rewrite (outcome_enum e enum_id v' _ He enum_id_ok) in Eo. unfold outcome in Eo.
  destruct (outcome_index enum_id v' _) as [j|] eqn:Ei; [|discriminate].
  injection Eo as Hj. unfold outcome_index, enum_id in Ei. apply first_index_meeting_some in Ei as [Hmeets _].
  set (voters := map fst (filter (fun kv => Nat.eqb (snd kv) j) (v_votes v'))).
  assert (Hnd' : NoDup (map fst (v_votes v'))).
  { rewrite Hvotes. rewrite <- (aset_notin _ _ _ Hnone). apply aset_nodup. exact Hnd. }
  exists d, v', j, voters. split; [reflexivity|]. split; [exact Ev|]. split; [exact Hj|].
  split; [apply nodup_filter_keys; exact Hnd'|]. split.
  { intros a Ha. unfold voters in Ha. apply in_map_iff in Ha as [[a' j'] [Hfst Hin]]. simpl in Hfst. subst a'.
    apply filter_In in Hin as [Hin Hj']. simpl in Hj'. apply Nat.eqb_eq in Hj'. subst j'. split.
    - rewrite Hvotes in Hin. apply in_app_or in Hin as [Hin|[Hin|[]]]; [eapply Hmem; eauto|].
      assert (a = sender) by congruence. subst. exact Ek.
    - apply in_nodup_aget; assumption. }
  split.
  { unfold meets in Hmeets. apply andb_true_iff in Hmeets as [_ Hm]. apply Z.leb_le in Hm.
    rewrite (valid_threshold_int _ Hvalid) in Hm. subst voters. rewrite (map_length fst). exact Hm. }
  split; [exact Eout|reflexivity].
Qed.

(* ---------- a config is marked started only with a quorum of block-seen reports ---------- *)
Definition pred_of (prev : option config) (l1 : list config) (c : config) : config :=
  match last_opt l1 with Some p => p | None => match prev with Some p => p | None => c end end.

Lemma started_quorum s : forall cs prev idx,
  In (EvBatchConfigStarted idx) (snd (end_block_configs s prev cs)) ->
  exists l1 c l2 allow,
    cs = l1 ++ c :: l2 /\ c_index c = idx /\ c_started c = false /\
    core_eq (pred_of prev l1 c) allow /\
    (c_threshold allow <= count_seen (blocks_seen s) (c_keypers allow) (c_act c))%N.
Proof.
  induction cs as [|c r IH]; intros prev idx; simpl; [tauto|].
  set (allow := match prev with Some p => p | None => c end).
  set (start_now := negb (c_started c) && (c_threshold allow <=? count_seen (blocks_seen s) (c_keypers allow) (c_act c))%N).
  match goal with |- context [end_block_configs s (Some ?cc) r] => set (c2 := cc) end.
  specialize (IH (Some c2) idx). destruct (end_block_configs s (Some c2) r) as [r' evs].
  simpl in *. intros Hin. apply in_app_or in Hin as [Hin|Hin].
  - destruct start_now eqn:Es; [|contradiction]. destruct Hin as [Hin|[]]. injection Hin as <-.
    unfold start_now in Es. apply andb_true_iff in Es as [E1 E2]. apply negb_true_iff in E1. apply N.leb_le in E2.
    exists [], c, r, allow. split; [reflexivity|]. split; [reflexivity|]. split; [exact E1|].
    split; [unfold pred_of; simpl; apply core_eq_refl|exact E2].
  - destruct (IH Hin) as (l1 & c' & l2 & al & Hcs & Hidx & Hst & Hcore & Hq).
    exists (c :: l1), c', l2, al. split; [rewrite Hcs; reflexivity|]. split; [exact Hidx|]. split; [exact Hst|].
    split; [|exact Hq].
    assert (Hc2 : core_eq c c2).
    { unfold c2. repeat match goal with |- context [if ?b then _ else _] => destruct b end; repeat split. }
    unfold pred_of in *. destruct l1 as [|x l1']; simpl in *.
    + destruct Hcore as (H1 & H2 & H3 & H4). destruct Hc2 as (G1 & G2 & G3 & G4). repeat split; congruence.
    + destruct (last_opt_some (x :: l1')) as [z Hz]; [discriminate|]. simpl in Hz. rewrite Hz in *. exact Hcore.
Qed.

(* ---------- reachable states (with enumerators that are permutations) ---------- *)
Definition reachable_ok (s : state) : Prop :=
  exists g s0 cs es k, (forall j, enum_ok (es j)) /\ init_chain g = Some s0 /\ fst (run_enums es k s0 cs) = s.

Lemma run_dkg_gov_ok cs : forall es k s, (forall j, enum_ok (es j)) -> gov_inv s -> dkg_gov_ok s ->
  dkg_gov_ok (fst (run_enums es k s cs)).
Proof.
  induction cs as [|c r IH]; intros es k s He Hg H; simpl; [exact H|].
  pose proof (step_dkg_gov_ok (es k) s c Hg H) as H1.
  pose proof (step_gov_inv (es k) s c (He k) Hg) as Hg1.
  destruct (step (es k) s c) as [s1 o]. simpl in *.
  specialize (IH es (S k) s1 He Hg1 H1). destruct (run_enums es (S k) s1 r) as [s2 os]. exact IH.
Qed.

Lemma reachable_ok_gov s : reachable_ok s -> gov_inv s /\ dkg_gov_ok s /\ configs s <> [].
Proof.
  intros (g & s0 & cs & es & k & He & Hi & <-). split; [|split].
  - apply run_gov_inv; [exact He|]. eapply init_chain_gov_inv; eauto.
  - apply run_dkg_gov_ok; [exact He| |]; [eapply init_chain_gov_inv|eapply init_chain_dkg_gov_ok]; eauto.
  - assert (H : cfg_ok s0) by (eapply init_chain_cfg_ok; eauto).
    clear Hi He. revert es k s0 H. induction cs as [|c r IH]; intros es k s0 H; simpl; [exact H|].
    destruct (step_cfg_ok (es k) s0 c H) as [H1 _]. destruct (step (es k) s0 c) as [s1 o]. simpl in H1.
    specialize (IH es (S k) s1 H1). destruct (run_enums es (S k) s1 r) as [s2 os]. exact IH.
Qed.

(* the defect before the repair: a config whose threshold is 2^63 passes the legacy validity
   test, and against it a single vote is an outcome *)
Lemma legacy_threshold_refuted :
  exists c : config, legacy_ensure_valid c = true /\ ensure_valid c = false /\
    (2 <= c_threshold c)%N /\
    outcome_index enum_id (mkVoting [(hx "aa"%string, 0%nat)] [true]) (int_of_u64 (c_threshold c)) = Some 0%nat.
Proof.
  exists (mkConfig 0 [hx "01"%string; hx "02"%string] 9223372036854775808 1 false false).
  vm_compute. repeat split; congruence.
Qed.

(* ---------- every DKG instance has an eon number at most the counter (while it does not wrap) ---------- *)
Definition eon_inv (s : state) : Prop :=
  forall eon d, dkg_get (dkgs s) eon = Some d -> (eon <= eon_counter s)%N.

Definition max_eon : N := 18446744073709551615%N.

Lemma eon_inv_frame s s' : dkgs s' = dkgs s -> eon_counter s' = eon_counter s -> eon_inv s -> eon_inv s'.
Proof. intros Hd Hc H eon d. rewrite Hd, Hc. apply H. Qed.

Lemma eon_inv_upd s eon d d' : eon_inv s -> dkg_get (dkgs s) eon = Some d -> eon_inv (upd_dkg s eon d').
Proof.
  intros H Hg eon' dd. unfold upd_dkg. simpl. rewrite dkg_get_set.
  destruct (N.eqb eon eon') eqn:E; [|apply H]. apply N.eqb_eq in E. subst eon'. intros _. eapply H. exact Hg.
Qed.

Lemma eon_inv_start s c : eon_inv s -> (eon_counter s < max_eon)%N -> eon_inv (fst (start_dkg s c)).
Proof.
  intros H Hlt eon d. unfold start_dkg. simpl. rewrite dkg_get_set.
  assert (Hn : ((eon_counter s + 1) mod 18446744073709551616 = eon_counter s + 1)%N).
  { apply N.mod_small. unfold max_eon in Hlt. lia. }
  rewrite Hn. destruct (N.eqb (eon_counter s + 1) eon) eqn:E.
  - apply N.eqb_eq in E. subst eon. intros _. lia.
  - intros Hg. specialize (H eon d Hg). lia.
Qed.

Lemma step_counter_le e s c :
  (eon_counter s < max_eon)%N -> (eon_counter (fst (step e s c)) <= eon_counter s + 1)%N /\ (eon_counter s <= eon_counter (fst (step e s c)))%N.
Proof.
  intros Hlt. pose proof (step_eons e s c) as H. unfold eon_step, next_eon in H.
  assert (Hn : ((eon_counter s + 1) mod 18446744073709551616 = eon_counter s + 1)%N).
  { apply N.mod_small. unfold max_eon in Hlt. lia. }
  destruct H as [[_ ->]|[_ ->]]; [lia|]. rewrite Hn. lia.
Qed.

Lemma deliver_message_eon_inv e s sender p s' r :
  eon_inv s -> (eon_counter s < max_eon)%N -> deliver_message e s sender p = Some (s', r) -> eon_inv s'.
Proof.
  intros Hi Hlt. destruct p; simpl.
  - unfold deliver_batch_config. branches; intros [= <- <-]; try exact Hi.
    match goal with H : start_dkg ?s0 ?c0 = _ |- _ =>
      pose proof (eon_inv_start s0 c0) as HS; rewrite H in HS; simpl in HS end.
    apply HS; [exact Hi|exact Hlt].
  - unfold deliver_block_seen. branches; intros [= <- <-]; exact Hi.
  - unfold deliver_check_in. branches; intros [= <- <-]; exact Hi.
  - unfold deliver_dkg_result. destruct (dkg_get (dkgs s) eon) as [d|] eqn:Eg; [|intros [= <- <-]; exact Hi].
    branches; intros [= <- <-]; try exact Hi.
    all: try (apply (eon_inv_upd s eon d); [exact Hi|exact Eg]).
    match goal with H : start_dkg ?s0 ?c0 = _ |- _ =>
      pose proof (eon_inv_start s0 c0) as HS; rewrite H in HS; simpl in HS end.
    apply HS; [|exact Hlt]. apply (eon_inv_upd s eon d); [exact Hi|exact Eg].
  - unfold handle_poly_eval. destruct (dkg_get (dkgs s) eon) as [d|] eqn:Eg; branches; intros [= <- <-]; try exact Hi.
    all: try (apply (eon_inv_upd s eon d); [exact Hi|exact Eg]).
  - unfold handle_poly_commitment. destruct (dkg_get (dkgs s) eon) as [d|] eqn:Eg; branches; intros [= <- <-]; try exact Hi.
    all: try (apply (eon_inv_upd s eon d); [exact Hi|exact Eg]).
  - unfold handle_accusation. destruct (dkg_get (dkgs s) eon) as [d|] eqn:Eg; branches; intros [= <- <-]; try exact Hi.
    all: try (apply (eon_inv_upd s eon d); [exact Hi|exact Eg]).
  - unfold handle_apology. destruct (dkg_get (dkgs s) eon) as [d|] eqn:Eg; branches; intros [= <- <-]; try exact Hi.
    all: try (apply (eon_inv_upd s eon d); [exact Hi|exact Eg]).
  - intros [= <- <-]. exact Hi.
Qed.

Lemma step_eon_inv e s c : eon_inv s -> (eon_counter s < max_eon)%N -> eon_inv (fst (step e s c)).
Proof.
  intros Hi Hlt. destruct c; simpl.
  - destruct (begin_block s height); exact Hi.
  - destruct (check_tx s t) as [s' code] eqn:E. simpl. unfold check_tx in E. revert E. branches; intros [= <- <-]; exact Hi.
  - destruct (deliver_tx e s t) as [[s' [code evs]]|] eqn:E; simpl; [|exact Hi].
    unfold deliver_tx in E. revert E. destruct t as [|signer chain nonce p]; [intros [= <- <- <-]; exact Hi|].
    branches; try (intros [= <- <- <-]; exact Hi).
    intros E. eapply deliver_message_eon_inv; [| |exact E]; [exact Hi|exact Hlt].
  - unfold end_block. destruct (end_block_configs s None (configs s)) as [cs evs]. simpl. exact Hi.
  - exact Hi.
Qed.

Lemma run_eon_inv cs : forall es k s,
  eon_inv s -> (Z.of_N (eon_counter s) + Z.of_nat (length cs) < Z.of_N max_eon)%Z ->
  eon_inv (fst (run_enums es k s cs)).
Proof.
  induction cs as [|c r IH]; intros es k s Hi Hb; [exact Hi|].
  change (length (c :: r)) with (S (length r)) in Hb. rewrite Nat2Z.inj_succ in Hb.
  assert (Hlt : (eon_counter s < max_eon)%N) by lia.
  pose proof (step_eon_inv (es k) s c Hi Hlt) as H1.
  pose proof (step_counter_le (es k) s c Hlt) as [Hc _].
  cbn [run_enums]. destruct (step (es k) s c) as [s1 o]. cbn [fst snd] in *.
  assert (Hb1 : (Z.of_N (eon_counter s1) + Z.of_nat (length r) < Z.of_N max_eon)%Z) by lia.
  specialize (IH es (S k) s1 H1 Hb1). destruct (run_enums es (S k) s1 r) as [s2 os]. exact IH.
Qed.

Lemma init_chain_eon_inv g s : init_chain g = Some s -> eon_inv s.
Proof. unfold init_chain. branches; try discriminate. intros [= <-] eon d. simpl. discriminate. Qed.
