(* Round-trip and grammar lemmas for the attribute codecs of Model/Events.v. *)
From Coq Require Import String Ascii List NArith ZArith Bool Lia.
From Verif Require Import Lib.Bytes Generated.EventSchema Model.Events.
Import ListNotations.
Open Scope N_scope.

(* lia on N with division and remainder by constants *)
Ltac Zify.zify_post_hook ::= Z.to_euclidean_division_equations.

Ltac bool_to_prop :=
  repeat match goal with
         | H : (_ && _)%bool = true |- _ => apply andb_true_iff in H; destruct H
         | H : (_ || _)%bool = false |- _ => apply orb_false_iff in H; destruct H
         | H : (_ <=? _) = true |- _ => apply N.leb_le in H
         | H : (_ <=? _) = false |- _ => apply N.leb_gt in H
         | H : (_ <? _) = true |- _ => apply N.ltb_lt in H
         | H : (_ <? _) = false |- _ => apply N.ltb_ge in H
         | H : (_ =? _) = true |- _ => apply N.eqb_eq in H
         | H : (_ =? _) = false |- _ => apply N.eqb_neq in H
         end.

(* decide every comparison in the goal, then lia *)
Ltac no_if t := lazymatch t with context [if _ then _ else _] => fail | _ => idtac end.
Ltac cmp_cases :=
  repeat match goal with
         | |- context [?a <=? ?b] => no_if a; no_if b; destruct (N.leb_spec a b)
         | |- context [?a <? ?b] => no_if a; no_if b; destruct (N.ltb_spec a b)
         | |- context [?a =? ?b] => no_if a; no_if b; destruct (N.eqb_spec a b)
         end; cbn [andb orb negb]; try reflexivity; try lia.

Definition byte_ok (b : N) : Prop := b < 256.
Definition bytes_ok (l : bytes) : Prop := Forall byte_ok l.

(* ------------------------------------------------------------------------------------ *)
(* map_opt *)

Lemma map_opt_map {A B C : Type} (f : B -> option C) (g : A -> B) (l : list A) :
  map_opt f (map g l) = map_opt (fun x => f (g x)) l.
Proof. induction l as [|x l IH]; simpl; [reflexivity|]. rewrite IH. reflexivity. Qed.

Lemma map_opt_id_on {A B : Type} (f : A -> option B) (g : A -> B) (l : list A) :
  Forall (fun x => f x = Some (g x)) l -> map_opt f l = Some (map g l).
Proof.
  induction 1 as [|x l Hx _ IH]; simpl; [reflexivity|]. rewrite Hx, IH. reflexivity.
Qed.

Lemma map_opt_Forall2 {A B : Type} (f : A -> option B) (l : list A) (r : list B) :
  map_opt f l = Some r <-> Forall2 (fun x y => f x = Some y) l r.
Proof.
  revert r; induction l as [|x l IH]; intros r; simpl.
  - split; intros H; [injection H as <-; constructor | inversion H; reflexivity].
  - destruct (f x) as [y|] eqn:E.
    + destruct (map_opt f l) as [t|] eqn:E2.
      * split; intros H.
        -- injection H as <-. constructor; [exact E|]. apply IH. reflexivity.
        -- inversion H as [|? y' ? t' Hy Ht]; subst. apply IH in Ht. congruence.
      * split; intros H; [discriminate|].
        inversion H as [|? y' ? t' Hy Ht]; subst. apply IH in Ht. discriminate.
    + split; intros H; [discriminate|]. inversion H; subst. congruence.
Qed.

(* ------------------------------------------------------------------------------------ *)
(* decimal *)

Definition is_digit (c : N) : bool := (48 <=? c) && (c <=? 57).

(* the number a digit string denotes, continuing from n *)
Definition dec_value (s : bytes) (n : N) : N := fold_left (fun a c => a * 10 + (c - 48)) s n.

Lemma dec_value_cons c r n : dec_value (c :: r) n = dec_value r (n * 10 + (c - 48)).
Proof. reflexivity. Qed.

Lemma dec_value_ge s : forall n, n <= dec_value s n.
Proof.
  induction s as [|c r IH]; intros n; simpl; [lia|].
  specialize (IH (n * 10 + (c - 48))). unfold dec_value in *. lia.
Qed.

Lemma parse_uint_loop_spec s : forall n, n <= u64_max ->
  parse_uint_loop s n =
  if forallb is_digit s && (dec_value s n <=? u64_max) then Some (dec_value s n) else None.
Proof.
  induction s as [|c r IH]; intros n Hn.
  - simpl. destruct (N.leb_spec n u64_max); [reflexivity|lia].
  - cbn [parse_uint_loop forallb]. fold (is_digit c). destruct (is_digit c) eqn:Ed; [|reflexivity].
    cbn [andb].
    assert (Hd : dec_value (c :: r) n = dec_value r (n * 10 + (c - 48))) by reflexivity.
    rewrite Hd.
    pose proof (dec_value_ge r (n * 10 + (c - 48))) as Hge.
    unfold is_digit in Ed. bool_to_prop.
    destruct (N.leb_spec cutoff10 n) as [Hc|Hc].
    + unfold cutoff10, u64_max in *.
      destruct (forallb is_digit r); [|reflexivity]. cbn [andb].
      destruct (N.leb_spec (dec_value r (n * 10 + (c - 48))) 18446744073709551615); [lia|reflexivity].
    + destruct (N.ltb_spec u64_max (n * 10 + (c - 48))) as [Ho|Ho].
      * destruct (forallb is_digit r); [|reflexivity]. cbn [andb].
        destruct (N.leb_spec (dec_value r (n * 10 + (c - 48))) u64_max); [lia|reflexivity].
      * apply IH. exact Ho.
Qed.

(* ParseUint(s, 10, 64) accepts exactly the non-empty digit strings whose value fits 64 bits
   (leading zeros included; no sign, no underscore, no blank) *)
Lemma parse_uint_spec s n :
  parse_uint s = Some n <->
  s <> [] /\ forallb is_digit s = true /\ dec_value s 0 = n /\ n <= u64_max.
Proof.
  unfold parse_uint. destruct s as [|c r].
  - split; [discriminate|]. intros [H _]. contradiction.
  - rewrite parse_uint_loop_spec by (unfold u64_max; lia).
    destruct (forallb is_digit (c :: r)) eqn:Ef; cbn [andb].
    + destruct (N.leb_spec (dec_value (c :: r) 0) u64_max) as [Hl|Hl].
      * split.
        -- intros H. injection H as <-. repeat split; [discriminate|exact Hl].
        -- intros (_ & _ & <- & _). reflexivity.
      * split; [discriminate|]. intros (_ & _ & <- & H). lia.
    + split; [discriminate|]. intros (_ & H & _). discriminate.
Qed.

Lemma fmt_digits_value f : forall n acc, n < 10 ^ N.of_nat f ->
  dec_value (fmt_digits f n acc) 0 = dec_value acc n.
Proof.
  induction f as [|f IH]; intros n acc Hn.
  - simpl in *. assert (n = 0) by lia. subst. reflexivity.
  - rewrite Nat2N.inj_succ, N.pow_succ_r' in Hn. cbn [fmt_digits].
    destruct (N.eqb_spec (n / 10) 0) as [E|E].
    + rewrite dec_value_cons. f_equal. lia.
    + rewrite IH by lia. rewrite dec_value_cons. f_equal. lia.
Qed.

Lemma fmt_digits_digits f : forall n acc, forallb is_digit acc = true ->
  forallb is_digit (fmt_digits f n acc) = true.
Proof.
  induction f as [|f IH]; intros n acc Ha; cbn [fmt_digits]; [exact Ha|].
  assert (Hd : forallb is_digit ((48 + n mod 10) :: acc) = true).
  { cbn [forallb]. rewrite Ha. unfold is_digit. cmp_cases. }
  destruct (n / 10 =? 0); [exact Hd|]. apply IH. exact Hd.
Qed.

Lemma fmt_digits_nonempty f : forall n acc, acc <> [] -> fmt_digits f n acc <> [].
Proof.
  induction f as [|f IH]; intros n acc Ha; cbn [fmt_digits]; [exact Ha|].
  destruct (n / 10 =? 0); [discriminate|]. apply IH. discriminate.
Qed.

Lemma fmt_digits_S_nonempty f n acc : fmt_digits (S f) n acc <> [].
Proof.
  cbn [fmt_digits]. destruct (n / 10 =? 0); [discriminate|]. apply fmt_digits_nonempty. discriminate.
Qed.

Lemma format_uint_nonempty n : format_uint n <> [].
Proof. unfold format_uint. apply (fmt_digits_S_nonempty 19). Qed.

Lemma u64_small n : n <= u64_max -> u64 n = n.
Proof. unfold u64, u64_max. intros H. apply N.mod_small. lia. Qed.

Lemma parse_format_uint n : parse_uint (format_uint n) = Some (u64 n).
Proof.
  apply parse_uint_spec. split; [apply format_uint_nonempty|].
  split; [apply fmt_digits_digits; reflexivity|].
  split.
  - unfold format_uint. rewrite fmt_digits_value; [reflexivity|].
    unfold u64. change (10 ^ N.of_nat 20) with 100000000000000000000. lia.
  - unfold u64, u64_max. lia.
Qed.

Lemma uint_roundtrip n : n <= u64_max -> parse_uint (format_uint n) = Some n.
Proof. intros H. rewrite parse_format_uint, u64_small by exact H. reflexivity. Qed.

(* ------------------------------------------------------------------------------------ *)
(* hex *)

Lemma hexdigit_unhex d : d < 16 -> unhex (hexdigit d) = Some d.
Proof. intros H. unfold hexdigit, unhex. cmp_cases; f_equal; lia. Qed.

(* c' is c or, for a lower-case letter, its upper-case form *)
Definition case_variant (c c' : N) : Prop := c' = c \/ (57 < c /\ c' = c - 32).

Lemma hexdigit_variant_unhex d c : d < 16 -> case_variant (hexdigit d) c -> unhex c = Some d.
Proof.
  intros H [->| [Hc ->]]; [apply hexdigit_unhex; exact H|].
  unfold hexdigit in *. unfold unhex. cmp_cases; f_equal; lia.
Qed.

Lemma hexdigit_variant_is_hex d c : d < 16 -> case_variant (hexdigit d) c -> is_hex_char c = true.
Proof.
  intros H [->| [Hc ->]]; unfold hexdigit in *; unfold is_hex_char; cmp_cases.
Qed.

Lemma hexdigit_variant_not_comma d c : d < 16 -> case_variant (hexdigit d) c -> c <> comma.
Proof.
  intros H [->| [Hc ->]]; unfold hexdigit, comma in *; cmp_cases.
Qed.

Lemma byte_nibbles x : byte_ok x -> x / 16 < 16 /\ x mod 16 < 16 /\ x / 16 * 16 + x mod 16 = x.
Proof. unfold byte_ok. intros H. lia. Qed.

Lemma hex_encode_cons x r :
  hex_encode (x :: r) = hexdigit (x / 16) :: hexdigit (x mod 16) :: hex_encode r.
Proof. reflexivity. Qed.

Lemma hex_encode_length b : length (hex_encode b) = (2 * length b)%nat.
Proof. induction b as [|x r IH]; [reflexivity|]. rewrite hex_encode_cons. simpl length. lia. Qed.

(* any re-casing of the hex text of b decodes to b *)
Lemma hex_decode_variant b : bytes_ok b -> forall s,
  Forall2 case_variant (hex_encode b) s -> hex_decode s = (b, true).
Proof.
  induction 1 as [|x r Hx _ IH]; intros s Hs.
  - inversion Hs. reflexivity.
  - rewrite hex_encode_cons in Hs.
    inversion Hs as [|? c1 ? s1 Hc1 Hs1]; subst.
    inversion Hs1 as [|? c2 ? s2 Hc2 Hs2]; subst.
    destruct (byte_nibbles x Hx) as (Ha & Hb & Hab).
    cbn [hex_decode].
    rewrite (hexdigit_variant_unhex _ _ Ha Hc1), (hexdigit_variant_unhex _ _ Hb Hc2).
    rewrite (IH _ Hs2). rewrite Hab. reflexivity.
Qed.

Lemma Forall2_refl_variant s : Forall2 case_variant s s.
Proof. induction s; constructor; [left; reflexivity|assumption]. Qed.

Lemma hex_decode_encode b : bytes_ok b -> hex_decode (hex_encode b) = (b, true).
Proof. intros H. apply hex_decode_variant; [exact H|apply Forall2_refl_variant]. Qed.

Lemma hex_decode_strict_encode b : bytes_ok b -> hex_decode_strict (hex_encode b) = Some b.
Proof. intros H. unfold hex_decode_strict. rewrite hex_decode_encode by exact H. reflexivity. Qed.

Lemma unhex_lt c d : unhex c = Some d -> d < 16.
Proof.
  unfold unhex.
  destruct ((48 <=? c) && (c <=? 57))%bool eqn:E1; [intros H; injection H as <-; bool_to_prop; lia|].
  destruct ((97 <=? c) && (c <=? 102))%bool eqn:E2; [intros H; injection H as <-; bool_to_prop; lia|].
  destruct ((65 <=? c) && (c <=? 70))%bool eqn:E3; [intros H; injection H as <-; bool_to_prop; lia|].
  discriminate.
Qed.

Lemma hex_decode_bytes_ok : forall n s, (length s <= n)%nat -> bytes_ok (fst (hex_decode s)).
Proof.
  induction n as [|n IH]; intros s Hl.
  - destruct s; [constructor|simpl in Hl; lia].
  - destruct s as [|p [|q r]]; try (simpl; constructor).
    cbn [hex_decode]. destruct (unhex p) as [a|] eqn:Ea; [|constructor].
    destruct (unhex q) as [b|] eqn:Eb; [|constructor].
    assert (Hr : (length r <= n)%nat) by (simpl in Hl; lia).
    specialize (IH r Hr). destruct (hex_decode r) as [t ok]. simpl in *.
    constructor; [|exact IH]. apply unhex_lt in Ea, Eb. unfold byte_ok. lia.
Qed.

Lemma hex_decode_ok s : bytes_ok (fst (hex_decode s)).
Proof. apply (hex_decode_bytes_ok (length s)). lia. Qed.

(* ------------------------------------------------------------------------------------ *)
(* split / join *)

Lemma split_on_nosep sep x : Forall (fun c => c <> sep) x -> split_on sep x = [x].
Proof.
  induction 1 as [|c r Hc _ IH]; [reflexivity|]. simpl.
  destruct (N.eqb_spec c sep); [contradiction|]. rewrite IH. reflexivity.
Qed.

Lemma split_on_app sep x t : Forall (fun c => c <> sep) x ->
  split_on sep (x ++ sep :: t) = x :: split_on sep t.
Proof.
  induction 1 as [|c r Hc _ IH]; simpl.
  - rewrite N.eqb_refl. reflexivity.
  - destruct (N.eqb_spec c sep); [contradiction|]. rewrite IH. reflexivity.
Qed.

Lemma split_join sep xs : xs <> [] -> Forall (Forall (fun c => c <> sep)) xs ->
  split_on sep (join sep xs) = xs.
Proof.
  intros Hne H. induction H as [|x r Hx Hr IH]; [contradiction|].
  destruct r as [|y r'].
  - simpl. apply split_on_nosep. exact Hx.
  - change (join sep (x :: y :: r')) with (x ++ sep :: join sep (y :: r')).
    rewrite split_on_app by exact Hx. rewrite IH by discriminate. reflexivity.
Qed.

Lemma join_nonempty sep x r : x <> [] -> join sep (x :: r) <> [].
Proof.
  intros Hx. simpl. destruct r; [exact Hx|]. destruct x; [contradiction|discriminate].
Qed.

(* ------------------------------------------------------------------------------------ *)
(* hexutil and the byte-sequence list *)

Lemma hex_encode_no_comma b : bytes_ok b -> Forall (fun c => c <> comma) (hex_encode b).
Proof.
  induction 1 as [|x r Hx _ IH]; [constructor|]. rewrite hex_encode_cons.
  destruct (byte_nibbles x Hx) as (Ha & Hb & _).
  constructor; [apply (hexdigit_variant_not_comma (x / 16)); [exact Ha|left; reflexivity]|].
  constructor; [apply (hexdigit_variant_not_comma (x mod 16)); [exact Hb|left; reflexivity]|].
  exact IH.
Qed.

Lemma hexutil_roundtrip b : bytes_ok b -> hexutil_decode (hexutil_encode b) = Some b.
Proof.
  intros H. unfold hexutil_decode, hexutil_encode. simpl.
  apply hex_decode_strict_encode. exact H.
Qed.

Lemma hexutil_no_comma b : bytes_ok b -> Forall (fun c => c <> comma) (hexutil_encode b).
Proof.
  intros H. unfold hexutil_encode.
  constructor; [unfold comma; lia|]. constructor; [unfold comma; lia|].
  apply hex_encode_no_comma. exact H.
Qed.

Lemma byteseq_roundtrip l : Forall bytes_ok l -> decode_byteseq (encode_byteseq l) = Some l.
Proof.
  intros H. unfold decode_byteseq, encode_byteseq. destruct l as [|b r]; [reflexivity|].
  destruct (join comma (map hexutil_encode (b :: r))) eqn:E.
  - exfalso. revert E. apply join_nonempty. discriminate.
  - rewrite <- E. rewrite split_join.
    + rewrite map_opt_map. rewrite (map_opt_id_on _ (fun x => x)); [rewrite map_id; reflexivity|].
      eapply Forall_impl; [|exact H]. intros x Hx. apply hexutil_roundtrip. exact Hx.
    + discriminate.
    + apply Forall_forall. intros x Hin. apply in_map_iff in Hin as (y & <- & Hy).
      apply hexutil_no_comma. eapply Forall_forall in H; eauto.
Qed.

(* ------------------------------------------------------------------------------------ *)
(* big integers *)

Lemma pos_size_nat_gt p : N.pos p < 2 ^ N.of_nat (Pos.size_nat p).
Proof.
  induction p as [p IH|p IH|]; cbn [Pos.size_nat];
    rewrite ?Nat2N.inj_succ, ?N.pow_succ_r'; [lia|lia|reflexivity].
Qed.

Lemma size_nat_gt n : n < 2 ^ N.of_nat (N.size_nat n).
Proof. destruct n as [|p]; [reflexivity|apply pos_size_nat_gt]. Qed.

Definition be_step (a x : N) : N := a * 256 + x.

Lemma be_bytes_fuel_value f : forall n acc, n < 2 ^ N.of_nat f ->
  fold_left be_step (be_bytes_fuel f n acc) 0 = fold_left be_step acc n.
Proof.
  induction f as [|f IH]; intros n acc Hn.
  - simpl in *. assert (n = 0) by lia. subst. reflexivity.
  - rewrite Nat2N.inj_succ, N.pow_succ_r' in Hn. cbn [be_bytes_fuel].
    destruct (N.eqb_spec n 0) as [->|E]; [reflexivity|].
    rewrite IH by lia. cbn [fold_left]. f_equal. unfold be_step. lia.
Qed.

Lemma bigint_roundtrip n : of_be_bytes (be_bytes n) = n.
Proof.
  unfold of_be_bytes, be_bytes. change (fun acc x : N => acc * 256 + x) with be_step.
  rewrite be_bytes_fuel_value by apply size_nat_gt. reflexivity.
Qed.

Lemma be_bytes_fuel_ok f : forall n acc, bytes_ok acc -> bytes_ok (be_bytes_fuel f n acc).
Proof.
  induction f as [|f IH]; intros n acc Ha; simpl; [exact Ha|].
  destruct (n =? 0); [exact Ha|]. apply IH. constructor; [unfold byte_ok; lia|exact Ha].
Qed.

Lemma be_bytes_ok n : bytes_ok (be_bytes n).
Proof. apply be_bytes_fuel_ok. constructor. Qed.

Lemma bigints_roundtrip l :
  option_map (map of_be_bytes) (decode_byteseq (encode_byteseq (map be_bytes l))) = Some l.
Proof.
  rewrite byteseq_roundtrip.
  - simpl. rewrite map_map. f_equal. rewrite <- (map_id l) at 2. apply map_ext. apply bigint_roundtrip.
  - apply Forall_forall. intros x Hin. apply in_map_iff in Hin as (n & <- & _). apply be_bytes_ok.
Qed.

(* ------------------------------------------------------------------------------------ *)
(* base64url without padding *)

Lemma b64char_unb64 d : d < 64 -> unb64 (b64char d) = Some d.
Proof. intros H. unfold b64char, unb64. cmp_cases; f_equal; lia. Qed.

Lemma b64char_not_newline d : d < 64 ->
  negb ((b64char d =? 10) || (b64char d =? 13)) = true.
Proof. intros H. unfold b64char. cmp_cases. Qed.

(* the sextets b64_encode writes *)
Fixpoint b64_split (b : bytes) : list N :=
  match b with
  | [] => []
  | [x] => [x / 4; (x mod 4) * 16]
  | [x; y] => [x / 4; (x mod 4) * 16 + y / 16; (y mod 16) * 4]
  | x :: y :: z :: r =>
      x / 4 :: (x mod 4) * 16 + y / 16 :: (y mod 16) * 4 + z / 64 :: z mod 64 :: b64_split r
  end.

Section ListInd3.
  Variable A : Type.
  Variable P : list A -> Prop.
  Hypothesis H0 : P [].
  Hypothesis H1 : forall x, P [x].
  Hypothesis H2 : forall x y, P [x; y].
  Hypothesis H3 : forall x y z r, P r -> P (x :: y :: z :: r).
  Fixpoint list_ind3 (l : list A) : P l :=
    match l with
    | [] => H0
    | [x] => H1 x
    | [x; y] => H2 x y
    | x :: y :: z :: r => H3 x y z r (list_ind3 r)
    end.
End ListInd3.

Lemma b64_encode_split b : b64_encode b = map b64char (b64_split b).
Proof.
  induction b as [| x | x y | x y z r IH] using list_ind3; try reflexivity.
  cbn [b64_encode b64_split map]. rewrite IH. reflexivity.
Qed.

Lemma b64_split_lt b : bytes_ok b -> Forall (fun d => d < 64) (b64_split b).
Proof.
  induction b as [| x | x y | x y z r IH] using list_ind3; intros H.
  - constructor.
  - inversion H as [|? ? Hx _]; subst. unfold byte_ok in Hx. cbn [b64_split].
    repeat constructor; lia.
  - inversion H as [|? ? Hx H']; subst. inversion H' as [|? ? Hy _]; subst.
    unfold byte_ok in *. cbn [b64_split]. repeat constructor; lia.
  - inversion H as [|? ? Hx H']; subst. inversion H' as [|? ? Hy H'']; subst.
    inversion H'' as [|? ? Hz Hr]; subst. unfold byte_ok in *. cbn [b64_split].
    repeat (constructor; [lia|]). apply IH. exact Hr.
Qed.

Lemma b64_join_split b : bytes_ok b -> b64_join (b64_split b) = Some b.
Proof.
  induction b as [| x | x y | x y z r IH] using list_ind3; intros H.
  - reflexivity.
  - inversion H as [|? ? Hx _]; subst. unfold byte_ok in Hx. cbn [b64_split b64_join].
    do 2 f_equal. lia.
  - inversion H as [|? ? Hx H']; subst. inversion H' as [|? ? Hy _]; subst.
    unfold byte_ok in *. cbn [b64_split b64_join]. f_equal. f_equal; [lia|]. f_equal. lia.
  - inversion H as [|? ? Hx H']; subst. inversion H' as [|? ? Hy H'']; subst.
    inversion H'' as [|? ? Hz Hr]; subst. unfold byte_ok in *. cbn [b64_split b64_join].
    rewrite (IH Hr). f_equal. f_equal; [lia|]. f_equal; [lia|]. f_equal. lia.
Qed.

Lemma b64_roundtrip b : bytes_ok b -> b64_decode (b64_encode b) = Some b.
Proof.
  intros H. unfold b64_decode. rewrite b64_encode_split.
  pose proof (b64_split_lt b H) as Hlt.
  assert (Hf : filter (fun c => negb ((c =? 10) || (c =? 13))) (map b64char (b64_split b))
               = map b64char (b64_split b)).
  { induction Hlt as [|d l Hd _ IHl]; [reflexivity|]. simpl.
    rewrite (b64char_not_newline d Hd). rewrite IHl. reflexivity. }
  rewrite Hf. rewrite map_opt_map.
  rewrite (map_opt_id_on _ (fun d => d)).
  - rewrite map_id. apply b64_join_split. exact H.
  - eapply Forall_impl; [|exact Hlt]. intros d Hd. apply b64char_unb64. exact Hd.
Qed.

(* ------------------------------------------------------------------------------------ *)
(* addresses, gammas, keys: relative to the dependency codecs *)

Definition addr_ok (a : bytes) : Prop := length a = 20%nat /\ bytes_ok a.

Lemma bytes_to_address_length b : length (bytes_to_address b) = 20%nat.
Proof.
  unfold bytes_to_address. rewrite app_length, repeat_length.
  destruct (Nat.ltb_spec 20 (length b)) as [H|H].
  - rewrite skipn_length. lia.
  - lia.
Qed.

Lemma Forall_skipn {A} (P : A -> Prop) n (l : list A) : Forall P l -> Forall P (skipn n l).
Proof.
  revert l; induction n as [|n IH]; intros l H; [exact H|].
  destruct l; [constructor|]. simpl. apply IH. inversion H; assumption.
Qed.

Lemma bytes_to_address_ok b : bytes_ok b -> addr_ok (bytes_to_address b).
Proof.
  intros H. split; [apply bytes_to_address_length|].
  unfold bytes_to_address. apply Forall_app. split.
  - apply Forall_forall. intros x Hx. apply repeat_spec in Hx. subst. unfold byte_ok. lia.
  - destruct (Nat.ltb 20 (length b)); [apply Forall_skipn|]; exact H.
Qed.

Lemma hex_to_address_ok s : addr_ok (hex_to_address s).
Proof. apply bytes_to_address_ok. unfold from_hex. apply hex_decode_ok. Qed.

Lemma bytes_to_address_id a : length a = 20%nat -> bytes_to_address a = a.
Proof.
  intros H. unfold bytes_to_address. rewrite H. change (Nat.ltb 20 20) with false. cbv iota.
  rewrite H. reflexivity.
Qed.

Lemma Forall2_length_eq {A B} (R : A -> B -> Prop) l l' : Forall2 R l l' -> length l = length l'.
Proof. induction 1; simpl; congruence. Qed.

Section Address.

Variable cs : bytes -> list bool.

Lemma apply_case_variant m : forall h, Forall2 case_variant h (apply_case m h).
Proof.
  induction m as [|u m IH]; intros h.
  - destruct h; simpl; [constructor|apply Forall2_refl_variant].
  - destruct h as [|c r]; simpl; [constructor|]. constructor; [|apply IH].
    destruct u; simpl; [|left; reflexivity].
    destruct (N.ltb_spec 57 c); [right; split; [assumption|reflexivity]|left; reflexivity].
Qed.

Lemma address_hex_body a :
  address_hex cs a = 48 :: 120 :: apply_case (cs a) (hex_encode a).
Proof. reflexivity. Qed.

Lemma hex_to_address_hex a : addr_ok a -> hex_to_address (address_hex cs a) = a.
Proof.
  intros [Hl Hb]. unfold hex_to_address, from_hex. rewrite address_hex_body.
  unfold strip0x. cbn [has0x N.eqb Pos.eqb orb skipn].
  pose proof (apply_case_variant (cs a) (hex_encode a)) as Hv.
  rewrite <- (Forall2_length_eq _ _ _ Hv), hex_encode_length, Hl. cbn [Nat.odd Nat.mul Nat.add].
  change (Nat.odd 40) with false. cbv iota.
  rewrite (hex_decode_variant a Hb _ Hv). simpl fst. apply bytes_to_address_id. exact Hl.
Qed.

Lemma address_roundtrip a : addr_ok a -> decode_address cs (address_hex cs a) = Some a.
Proof.
  intros H. unfold decode_address. rewrite hex_to_address_hex by exact H.
  rewrite bytes_eqb_refl. reflexivity.
Qed.

(* decodeAddress accepts exactly the text Address.Hex() prints *)
Lemma decode_address_spec s a :
  decode_address cs s = Some a <-> s = address_hex cs a /\ addr_ok a.
Proof.
  split.
  - unfold decode_address. destruct (bytes_eqb _ s) eqn:E; [|discriminate].
    intros H. injection H as <-. apply bytes_eqb_eq in E. split; [congruence|apply hex_to_address_ok].
  - intros [-> H]. apply address_roundtrip. exact H.
Qed.

Lemma apply_case_hex_chars a : bytes_ok a ->
  forall s, Forall2 case_variant (hex_encode a) s ->
  forallb is_hex_char s = true /\ Forall (fun c => c <> comma) s.
Proof.
  induction 1 as [|x r Hx _ IH]; intros s Hs.
  - inversion Hs. split; [reflexivity|constructor].
  - rewrite hex_encode_cons in Hs.
    inversion Hs as [|? c1 ? s1 Hc1 Hs1]; subst.
    inversion Hs1 as [|? c2 ? s2 Hc2 Hs2]; subst.
    destruct (byte_nibbles x Hx) as (Ha & Hb & _).
    destruct (IH _ Hs2) as [I1 I2]. split.
    + simpl. rewrite (hexdigit_variant_is_hex _ _ Ha Hc1), (hexdigit_variant_is_hex _ _ Hb Hc2), I1.
      reflexivity.
    + constructor; [exact (hexdigit_variant_not_comma _ _ Ha Hc1)|].
      constructor; [exact (hexdigit_variant_not_comma _ _ Hb Hc2)|]. exact I2.
Qed.

Lemma is_hex_address_hex a : addr_ok a -> is_hex_address (address_hex cs a) = true.
Proof.
  intros [Hl Hb]. unfold is_hex_address. rewrite address_hex_body.
  unfold strip0x. cbn [has0x N.eqb Pos.eqb orb skipn].
  pose proof (apply_case_variant (cs a) (hex_encode a)) as Hv.
  rewrite <- (Forall2_length_eq _ _ _ Hv), hex_encode_length, Hl.
  destruct (apply_case_hex_chars a Hb _ Hv) as [Hh _]. rewrite Hh. reflexivity.
Qed.

Lemma address_hex_no_comma a : addr_ok a -> Forall (fun c => c <> comma) (address_hex cs a).
Proof.
  intros [Hl Hb]. rewrite address_hex_body.
  constructor; [unfold comma; lia|]. constructor; [unfold comma; lia|].
  apply (apply_case_hex_chars a Hb). apply apply_case_variant.
Qed.

Lemma addresses_roundtrip l : Forall addr_ok l ->
  decode_addresses (encode_addresses cs l) = Some l.
Proof.
  intros H. unfold decode_addresses, encode_addresses. destruct l as [|a r]; [reflexivity|].
  destruct (join comma (map (address_hex cs) (a :: r))) eqn:E.
  - exfalso. revert E. apply join_nonempty. rewrite address_hex_body. discriminate.
  - rewrite <- E. rewrite split_join.
    + rewrite map_opt_map. rewrite (map_opt_id_on _ (fun x => x)); [rewrite map_id; reflexivity|].
      eapply Forall_impl; [|exact H]. intros x Hx. cbv beta.
      rewrite is_hex_address_hex, hex_to_address_hex by exact Hx. reflexivity.
    + discriminate.
    + apply Forall_forall. intros x Hin. apply in_map_iff in Hin as (y & <- & Hy).
      apply address_hex_no_comma. eapply Forall_forall in H; eauto.
Qed.

End Address.

(* the laws assumed of the dependencies' codecs *)
Section Gammas.

Variable point : Type.
Variable enc_pt : point -> bytes.
Variable dec_pt : bytes -> option point.
Hypothesis pt_roundtrip : forall p, dec_pt (enc_pt p) = Some p.
Hypothesis pt_length : forall p, length (enc_pt p) = pt_len.
Hypothesis pt_bytes : forall p, bytes_ok (enc_pt p).

Lemma concat_pts_ok g : bytes_ok (concat (map enc_pt g)).
Proof.
  induction g as [|p g IH]; simpl; [constructor|]. apply Forall_app. split; [apply pt_bytes|exact IH].
Qed.

Lemma concat_pts_length g : length (concat (map enc_pt g)) = (length g * pt_len)%nat.
Proof.
  induction g as [|p g IH]; cbn [map concat length]; [reflexivity|].
  rewrite app_length, pt_length, IH. unfold pt_len. lia.
Qed.

Lemma chunks_roundtrip g : forall pre k, length pre = (k * pt_len)%nat ->
  map_opt (fun i => dec_pt (firstn pt_len (skipn (i * pt_len) (pre ++ concat (map enc_pt g)))))
          (seq k (length g)) = Some g.
Proof.
  induction g as [|p g IH]; intros pre k Hk; [reflexivity|].
  cbn [length seq map_opt map concat].
  rewrite <- Hk. rewrite skipn_app, skipn_all, Nat.sub_diag. cbn [skipn app].
  rewrite <- (pt_length p) at 1. rewrite firstn_app, firstn_all, Nat.sub_diag. cbn [firstn].
  rewrite app_nil_r, pt_roundtrip.
  rewrite app_assoc. rewrite IH; [reflexivity|].
  rewrite app_length, pt_length, Hk. cbn [Nat.mul]. lia.
Qed.

Lemma unmarshal_gammas_roundtrip g :
  unmarshal_gammas point dec_pt (concat (map enc_pt g)) = Some g.
Proof.
  unfold unmarshal_gammas. rewrite concat_pts_length.
  rewrite Nat.mod_mul by (unfold pt_len; lia). cbn [Nat.eqb].
  rewrite Nat.div_mul by (unfold pt_len; lia).
  apply (chunks_roundtrip g [] 0). reflexivity.
Qed.

Lemma gammas_roundtrip g : decode_gammas point dec_pt (encode_gammas point enc_pt g) = Some g.
Proof.
  unfold decode_gammas, encode_gammas.
  rewrite hex_decode_strict_encode by apply concat_pts_ok.
  apply unmarshal_gammas_roundtrip.
Qed.

End Gammas.

Section Key.

Variable key : Type.
Variable enc_key : key -> bytes.
Variable dec_key : bytes -> option key.
Hypothesis key_roundtrip : forall k, dec_key (enc_key k) = Some k.
Hypothesis key_bytes : forall k, bytes_ok (enc_key k).

Lemma key_attr_roundtrip k : decode_key key dec_key (encode_key key enc_key k) = Some k.
Proof.
  unfold decode_key, encode_key. rewrite b64_roundtrip by apply key_bytes. apply key_roundtrip.
Qed.

End Key.

(* ------------------------------------------------------------------------------------ *)
(* the fixed-width key encoding (FromECDSAPub) *)

Lemma pad_be_length w n : length (pad_be w n) = w.
Proof. unfold pad_be. rewrite app_length, repeat_length, skipn_length. lia. Qed.

Lemma pad_be_ok w n : bytes_ok (pad_be w n).
Proof.
  unfold pad_be. apply Forall_app. split.
  - apply Forall_forall. intros x Hx. apply repeat_spec in Hx. subst. unfold byte_ok. lia.
  - apply Forall_skipn. apply be_bytes_ok.
Qed.

Lemma marshal_pubkey_length x y : length (marshal_pubkey x y) = key_len.
Proof. unfold marshal_pubkey. cbn [length]. rewrite app_length, !pad_be_length. reflexivity. Qed.

Lemma marshal_pubkey_ok x y : bytes_ok (marshal_pubkey x y).
Proof.
  unfold marshal_pubkey. constructor; [unfold byte_ok; lia|]. apply Forall_app.
  split; apply pad_be_ok.
Qed.

Lemma be_bytes_fuel_length f : forall n k acc, n < 256 ^ N.of_nat k ->
  (length (be_bytes_fuel f n acc) <= k + length acc)%nat.
Proof.
  induction f as [|f IH]; intros n k acc Hn; cbn [be_bytes_fuel]; [lia|].
  destruct (N.eqb_spec n 0) as [->|Hz]; [lia|].
  destruct k as [|k]; [simpl in Hn; lia|].
  rewrite Nat2N.inj_succ, N.pow_succ_r' in Hn.
  assert (Hd : n / 256 < 256 ^ N.of_nat k) by (apply N.div_lt_upper_bound; lia).
  specialize (IH (n / 256) k (n mod 256 :: acc) Hd). simpl length in IH. lia.
Qed.

Lemma be_bytes_length n k : n < 256 ^ N.of_nat k -> (length (be_bytes n) <= k)%nat.
Proof.
  intros H. unfold be_bytes. pose proof (be_bytes_fuel_length (N.size_nat n) n k [] H) as L.
  simpl in L. lia.
Qed.

Lemma of_be_zeros k b : of_be_bytes (repeat 0 k ++ b) = of_be_bytes b.
Proof.
  unfold of_be_bytes. induction k as [|k IH]; [reflexivity|]. cbn [repeat app fold_left]. exact IH.
Qed.

(* a coordinate below 256^w is recovered from its padded form *)
Lemma of_be_pad_be w n : n < 256 ^ N.of_nat w -> of_be_bytes (pad_be w n) = n.
Proof.
  intros H. unfold pad_be. pose proof (be_bytes_length n w H) as L.
  replace (length (be_bytes n) - w)%nat with 0%nat by lia. cbn [skipn].
  rewrite of_be_zeros. apply bigint_roundtrip.
Qed.

Lemma marshal_pubkey_coords x y :
  x < 256 ^ 32 -> y < 256 ^ 32 ->
  of_be_bytes (firstn 32 (skipn 1 (marshal_pubkey x y))) = x /\
  of_be_bytes (skipn 33 (marshal_pubkey x y)) = y.
Proof.
  intros Hx Hy. unfold marshal_pubkey, coord_len.
  pose proof (pad_be_length 32 x) as Lx.
  change (skipn 1 (4 :: pad_be 32 x ++ pad_be 32 y)) with (pad_be 32 x ++ pad_be 32 y).
  change (skipn 33 (4 :: pad_be 32 x ++ pad_be 32 y)) with (skipn 32 (pad_be 32 x ++ pad_be 32 y)).
  split.
  - rewrite firstn_app, Lx, Nat.sub_diag, firstn_O, app_nil_r.
    rewrite firstn_all2 by lia. apply of_be_pad_be. exact Hx.
  - rewrite skipn_app, Lx, Nat.sub_diag, skipn_O. rewrite skipn_all2 by lia. cbn [app].
    apply of_be_pad_be. exact Hy.
Qed.

Lemma b64_encode_length b : length (b64_encode b) = ((4 * length b + 2) / 3)%nat.
Proof.
  induction b as [| x | x y | x y z r IH] using list_ind3; try reflexivity.
  cbn [b64_encode length]. rewrite IH.
  replace (4 * S (S (S (length r))) + 2)%nat with ((4 * length r + 2) + 4 * 3)%nat by lia.
  rewrite Nat.div_add by lia. lia.
Qed.

(* the check-in key attribute: 87 characters spelling exactly 65 bytes *)
Lemma marshal_pubkey_text_length x y : length (b64_encode (marshal_pubkey x y)) = 87%nat.
Proof. rewrite b64_encode_length, marshal_pubkey_length. reflexivity. Qed.
