(* C10 (second half) and C11_nonce_once: replayed (sender, nonce) pairs never execute twice;
   a transaction of a sender that is in no accepted config has no observable effect. *)
From Coq Require Import List NArith ZArith Bool Lia Permutation.
From Verif Require Import Lib.Bytes Lib.Assoc Lib.Sorting Model.Powermap Model.App Proofs.AppDet Proofs.AppSafe.
Import ListNotations.
Open Scope Z_scope.

(* ---------- frame: deliver_message leaves nonces alone ---------- *)
Lemma deliver_message_nonces e s sender p s' r :
  deliver_message e s sender p = Some (s', r) -> nonces s' = nonces s.
Proof.
  destruct p; simpl.
  - unfold deliver_batch_config. branches; intros [= <- <-]; try reflexivity.
    dkg_fact nonces HH. rewrite <- HH. reflexivity.
  - unfold deliver_block_seen. branches; intros [= <- <-]; reflexivity.
  - unfold deliver_check_in. branches; intros [= <- <-]; reflexivity.
  - unfold deliver_dkg_result. branches; intros [= <- <-]; try reflexivity.
    dkg_fact nonces HH. rewrite <- HH. reflexivity.
  - unfold handle_poly_eval. branches; intros [= <- <-]; reflexivity.
  - unfold handle_poly_commitment. branches; intros [= <- <-]; reflexivity.
  - unfold handle_accusation. branches; intros [= <- <-]; reflexivity.
  - unfold handle_apology. branches; intros [= <- <-]; reflexivity.
  - intros [= <- <-]. reflexivity.
Qed.

Lemma nonce_used_cons l a n a' n' :
  nonce_used ((a', n') :: l) a n = (bytes_eqb a' a && N.eqb n' n) || nonce_used l a n.
Proof. reflexivity. Qed.

(* a transaction that got past the chain and nonce tests has its nonce recorded *)
Lemma deliver_records_nonce e s signer chain nonce p s' r :
  deliver_tx e s (Tx signer chain nonce p) = Some (s', r) ->
  chain = chain_id s -> nonce_used (nonces s) signer nonce = false ->
  nonce_used (nonces s') signer nonce = true.
Proof.
  intros H Hc Hn. simpl in H. subst chain. rewrite bytes_eqb_refl, Hn in H. simpl in H.
  apply deliver_message_nonces in H. rewrite H. simpl. rewrite bytes_eqb_refl, N.eqb_refl. reflexivity.
Qed.

Lemma step_nonces_monotone e s c a n :
  nonce_used (nonces s) a n = true -> nonce_used (nonces (fst (step e s c))) a n = true.
Proof.
  intros H. destruct c; simpl.
  - destruct (begin_block s height); exact H.
  - destruct (check_tx s t) as [s' code] eqn:E. simpl. unfold check_tx in E. revert E.
    branches; intros [= <- <-]; exact H.
  - destruct (deliver_tx e s t) as [[s' [code evs]]|] eqn:E; simpl; [|exact H].
    unfold deliver_tx in E. revert E. destruct t as [|signer chain nonce p]; [intros [= <- <- <-]; exact H|].
    branches; try (intros [= <- <- <-]; exact H).
    intros E. apply deliver_message_nonces in E. rewrite E. simpl. rewrite H. apply orb_true_r.
  - unfold end_block. destruct (end_block_configs s None (configs s)) as [cs evs]. simpl. exact H.
  - exact H.
Qed.

Lemma run_nonces_monotone cs : forall es k s a n,
  nonce_used (nonces s) a n = true -> nonce_used (nonces (fst (run_enums es k s cs))) a n = true.
Proof.
  induction cs as [|c r IH]; intros es k s a n H; simpl; [exact H|].
  pose proof (step_nonces_monotone (es k) s c a n H) as H1.
  destruct (step (es k) s c) as [s1 o]. simpl in H1.
  specialize (IH es (S k) s1 a n H1). destruct (run_enums es (S k) s1 r) as [s2 os]. exact IH.
Qed.

(* C11_nonce_once / C10 "replayed": once (signer, nonce) has been executed, every later
   transaction carrying the same pair - whatever else it carries, after any further calls - is
   refused with the error code, changes nothing and emits nothing. *)
Theorem nonce_executes_once e s signer chain nonce p s1 r1 cs es k :
  deliver_tx e s (Tx signer chain nonce p) = Some (s1, r1) ->
  chain = chain_id s -> nonce_used (nonces s) signer nonce = false ->
  let s2 := fst (run_enums es k s1 cs) in
  forall e' chain' p', deliver_tx e' s2 (Tx signer chain' nonce p') = Some (s2, (code_error, [])).
Proof.
  intros H Hc Hn s2 e' chain' p'. apply deliver_replayed.
  apply run_nonces_monotone. eapply deliver_records_nonce; eauto.
Qed.

(* ---------- hiding one sender's private entries ---------- *)
Definition drop_key {V} (x : bytes) (m : amap V) : amap V :=
  filter (fun kv => negb (bytes_eqb (fst kv) x)) m.
Definition drop_nonces (x : addr) (l : list (addr * N)) : list (addr * N) :=
  filter (fun an => negb (bytes_eqb (fst an) x)) l.

Definition with_bn (s : state) (b : amap N) (n : list (addr * N)) : state :=
  set_nonces (set_blocks_seen s b) n.
Definition hide (x : addr) (s : state) : state :=
  with_bn s (drop_key x (blocks_seen s)) (drop_nonces x (nonces s)).

Lemma aget_drop_key {V} x (m : amap V) k : k <> x -> aget (drop_key x m) k = aget m k.
Proof.
  intros Hne. induction m as [|[k0 v0] r IH]; simpl; [reflexivity|].
  destruct (bytes_eqb k0 x) eqn:Ex; simpl.
  - apply bytes_eqb_eq in Ex. subst k0.
    assert (Hf : bytes_eqb x k = false) by (apply bytes_eqb_neq; congruence). rewrite Hf. exact IH.
  - destruct (bytes_eqb k0 k); [reflexivity|exact IH].
Qed.

Lemma drop_key_aset {V} x (m : amap V) k v : k <> x -> drop_key x (aset m k v) = aset (drop_key x m) k v.
Proof.
  intros Hne. assert (Hf : bytes_eqb k x = false) by (apply bytes_eqb_neq; exact Hne).
  induction m as [|[k0 v0] r IH]; simpl.
  - rewrite Hf. reflexivity.
  - destruct (bytes_eqb k0 k) eqn:Ek; simpl.
    + apply bytes_eqb_eq in Ek. subst k0. rewrite Hf. simpl. rewrite bytes_eqb_refl. reflexivity.
    + destruct (bytes_eqb k0 x) eqn:Ex; simpl; [exact IH|]. rewrite Ek, IH. reflexivity.
Qed.

Lemma drop_key_aset_same {V} x (m : amap V) v : drop_key x (aset m x v) = drop_key x m.
Proof.
  induction m as [|[k0 v0] r IH]; simpl.
  - rewrite bytes_eqb_refl. reflexivity.
  - destruct (bytes_eqb k0 x) eqn:Ex; simpl; rewrite Ex; simpl; [reflexivity|]. rewrite IH. reflexivity.
Qed.

Lemma nonce_used_drop x l a n : a <> x -> nonce_used (drop_nonces x l) a n = nonce_used l a n.
Proof.
  intros Hne. induction l as [|[a0 n0] r IH]; simpl; [reflexivity|].
  destruct (bytes_eqb a0 x) eqn:Ex; simpl.
  - apply bytes_eqb_eq in Ex. subst a0.
    assert (Hf : bytes_eqb x a = false) by (apply bytes_eqb_neq; congruence). rewrite Hf. exact IH.
  - rewrite IH. reflexivity.
Qed.

(* ---------- handlers that read neither blocks_seen nor nonces ---------- *)
Ltac frame_bn :=
  intros * H; revert H; simpl; branches; intros [= <- <-]; try reflexivity.

Lemma start_dkg_bn s c b n :
  start_dkg (with_bn s b n) c = (with_bn (fst (start_dkg s c)) b n, snd (start_dkg s c)).
Proof. reflexivity. Qed.

Lemma batch_config_bn e s sender act ks t i b n s' r :
  deliver_batch_config e s sender act ks t i = Some (s', r) ->
  deliver_batch_config e (with_bn s b n) sender act ks t i = Some (with_bn s' b n, r).
Proof.
  unfold deliver_batch_config, check_config. simpl.
  branches; intros [= <- <-]; try reflexivity; try discriminate.
  all: repeat match goal with H : start_dkg _ _ = _ |- _ => revert H end.
  all: unfold start_dkg; simpl; intros; repeat match goal with H : (_, _) = (_, _) |- _ => inversion H; clear H; subst end; try reflexivity.
Qed.

Lemma check_in_bn s sender vk ek ok b n :
  deliver_check_in (with_bn s b n) sender vk ek ok =
  (with_bn (fst (deliver_check_in s sender vk ek ok)) b n, snd (deliver_check_in s sender vk ek ok)).
Proof.
  unfold deliver_check_in, check_in_fork_active, is_keyper_any. simpl. branches; reflexivity.
Qed.

Lemma dkg_result_bn e s sender succ eon b n s' r :
  deliver_dkg_result e s sender succ eon = Some (s', r) ->
  deliver_dkg_result e (with_bn s b n) sender succ eon = Some (with_bn s' b n, r).
Proof.
  unfold deliver_dkg_result. simpl.
  branches; intros [= <- <-]; try reflexivity; try discriminate.
  all: repeat match goal with H : start_dkg _ _ = _ |- _ => revert H end.
  all: unfold start_dkg; simpl; intros; repeat match goal with H : (_, _) = (_, _) |- _ => inversion H; clear H; subst end; try reflexivity.
Qed.

Lemma poly_eval_bn s sender eon rs es b n :
  handle_poly_eval (with_bn s b n) sender eon rs es =
  (with_bn (fst (handle_poly_eval s sender eon rs es)) b n, snd (handle_poly_eval s sender eon rs es)).
Proof. unfold handle_poly_eval. simpl. branches; reflexivity. Qed.

Lemma poly_commitment_bn s sender eon gs b n :
  handle_poly_commitment (with_bn s b n) sender eon gs =
  (with_bn (fst (handle_poly_commitment s sender eon gs)) b n, snd (handle_poly_commitment s sender eon gs)).
Proof. unfold handle_poly_commitment. simpl. branches; reflexivity. Qed.

Lemma accusation_bn s sender eon a b n :
  handle_accusation (with_bn s b n) sender eon a =
  (with_bn (fst (handle_accusation s sender eon a)) b n, snd (handle_accusation s sender eon a)).
Proof. unfold handle_accusation. simpl. branches; reflexivity. Qed.

Lemma apology_bn s sender eon a es b n :
  handle_apology (with_bn s b n) sender eon a es =
  (with_bn (fst (handle_apology s sender eon a es)) b n, snd (handle_apology s sender eon a es)).
Proof. unfold handle_apology. simpl. branches; reflexivity. Qed.

(* ---------- frame: only BlockSeen touches blocks_seen ---------- *)
Definition is_block_seen (p : payload) : bool := match p with PBlockSeen _ => true | _ => false end.

Lemma deliver_message_blocks_seen e s sender p s' r :
  is_block_seen p = false ->
  deliver_message e s sender p = Some (s', r) -> blocks_seen s' = blocks_seen s.
Proof.
  destruct p; simpl; intros Hb; try discriminate.
  - unfold deliver_batch_config. branches; intros [= <- <-]; try reflexivity.
    dkg_fact blocks_seen HH. rewrite <- HH. reflexivity.
  - unfold deliver_check_in. branches; intros [= <- <-]; reflexivity.
  - unfold deliver_dkg_result. branches; intros [= <- <-]; try reflexivity.
    dkg_fact blocks_seen HH. rewrite <- HH. reflexivity.
  - unfold handle_poly_eval. branches; intros [= <- <-]; reflexivity.
  - unfold handle_poly_commitment. branches; intros [= <- <-]; reflexivity.
  - unfold handle_accusation. branches; intros [= <- <-]; reflexivity.
  - unfold handle_apology. branches; intros [= <- <-]; reflexivity.
  - intros [= <- <-]. reflexivity.
Qed.

(* deliver_message by a sender other than x commutes with hiding x *)
Lemma deliver_message_hide e x s sender p s' r :
  sender <> x ->
  deliver_message e s sender p = Some (s', r) ->
  deliver_message e (hide x s) sender p = Some (hide x s', r).
Proof.
  intros Hne H.
  destruct (is_block_seen p) eqn:Eb.
  - destruct p; try discriminate. simpl in *. unfold deliver_block_seen in *. simpl.
    rewrite (aget_drop_key x (blocks_seen s) sender Hne).
    revert H. branches; intros [= <- <-]; unfold hide, with_bn; simpl; try reflexivity.
    rewrite (drop_key_aset x (blocks_seen s) sender bn Hne). reflexivity.
  - pose proof (deliver_message_blocks_seen e s sender p s' r Eb H) as Hbs.
    pose proof (deliver_message_nonces e s sender p s' r H) as Hns.
    unfold hide. rewrite Hbs, Hns.
    destruct p; simpl in *; try discriminate.
    + apply batch_config_bn. exact H.
    + rewrite check_in_bn. injection H as H. rewrite H. reflexivity.
    + apply dkg_result_bn. exact H.
    + rewrite poly_eval_bn. injection H as H. rewrite H. reflexivity.
    + rewrite poly_commitment_bn. injection H as H. rewrite H. reflexivity.
    + rewrite accusation_bn. injection H as H. rewrite H. reflexivity.
    + rewrite apology_bn. injection H as H. rewrite H. reflexivity.
    + injection H as <- <-. reflexivity.
Qed.

(* ---------- every DKG instance belongs to the keyper set of some accepted config ---------- *)
Definition dkgs_ok (s : state) : Prop :=
  forall eon d, dkg_get (dkgs s) eon = Some d ->
                exists c, In c (configs s) /\ c_keypers c = c_keypers (d_config d).

Lemma dkg_get_set m e d e' :
  dkg_get (dkg_set m e d) e' = if N.eqb e e' then Some d else dkg_get m e'.
Proof.
  induction m as [|[e0 d0] r IH]; simpl.
  - destruct (N.eqb e e'); reflexivity.
  - destruct (N.eqb e0 e) eqn:E0; simpl.
    + apply N.eqb_eq in E0. subst e0. destruct (N.eqb e e'); reflexivity.
    + destruct (N.eqb e0 e') eqn:E1.
      * apply N.eqb_eq in E1. subst e0. rewrite N.eqb_sym, E0. reflexivity.
      * exact IH.
Qed.

Lemma dkgs_ok_upd s eon d d' :
  dkgs_ok s -> dkg_get (dkgs s) eon = Some d -> d_config d' = d_config d ->
  dkgs_ok (upd_dkg s eon d').
Proof.
  intros Hok Hg Hc eon' dd. unfold upd_dkg. simpl. rewrite dkg_get_set.
  destruct (N.eqb eon eon'); [|apply Hok].
  intros [= <-]. rewrite Hc. eapply Hok. exact Hg.
Qed.

Lemma dkgs_ok_start s c c0 :
  dkgs_ok s -> In c0 (configs s) -> c_keypers c0 = c_keypers c ->
  dkgs_ok (fst (start_dkg s c)).
Proof.
  intros Hok Hin Hk eon d. unfold start_dkg. simpl. rewrite dkg_get_set.
  destruct (N.eqb _ eon); [|apply Hok].
  intros [= <-]. simpl. exists c0. split; assumption.
Qed.

Lemma dkgs_ok_frame s s' :
  dkgs s' = dkgs s -> configs s' = configs s -> dkgs_ok s -> dkgs_ok s'.
Proof. intros Hd Hc H eon d. rewrite Hd, Hc. apply H. Qed.

Lemma deliver_message_dkgs_ok e s sender p s' r :
  dkgs_ok s -> deliver_message e s sender p = Some (s', r) -> dkgs_ok s'.
Proof.
  intros Hok. destruct p; simpl.
  - unfold deliver_batch_config. branches; intros [= <- <-]; try exact Hok;
      try (eapply dkgs_ok_frame; [| |exact Hok]; reflexivity).
    match goal with H : start_dkg ?s0 ?c0 = _ |- _ =>
      pose proof (dkgs_ok_start s0 c0 c0) as HS; rewrite H in HS; simpl in HS end.
    apply HS; [|apply in_or_app; right; left; reflexivity|reflexivity].
    intros eon dd. simpl. intros Hg. destruct (Hok eon dd Hg) as [c9 [Hin Hk]].
    exists c9. split; [apply in_or_app; left; exact Hin|exact Hk].
  - unfold deliver_block_seen. branches; intros [= <- <-]; try exact Hok.
    all: try (eapply dkgs_ok_frame; [| |exact Hok]; reflexivity).
  - unfold deliver_check_in. branches; intros [= <- <-]; try exact Hok.
    all: try (eapply dkgs_ok_frame; [| |exact Hok]; reflexivity).
  - unfold deliver_dkg_result. destruct (dkg_get (dkgs s) eon) as [d|] eqn:Eg; [|intros [= <- <-]; exact Hok].
    branches; intros [= <- <-]; try exact Hok.
    all: try (apply (dkgs_ok_upd s eon d); [exact Hok|exact Eg|reflexivity]).
    match goal with H : start_dkg ?s0 ?c0 = _ |- _ =>
      destruct (Hok eon d Eg) as [cc [Hcin Hck]];
      pose proof (dkgs_ok_start s0 c0 cc) as HS; rewrite H in HS; simpl in HS end.
    apply HS; [|exact Hcin|exact Hck].
    all: try (apply (dkgs_ok_upd s eon d); [exact Hok|exact Eg|reflexivity]).
  - unfold handle_poly_eval. destruct (dkg_get (dkgs s) eon) as [d|] eqn:Eg; branches; intros [= <- <-]; try exact Hok.
    all: try (apply (dkgs_ok_upd s eon d); [exact Hok|exact Eg|reflexivity]).
  - unfold handle_poly_commitment. destruct (dkg_get (dkgs s) eon) as [d|] eqn:Eg; branches; intros [= <- <-]; try exact Hok.
    all: try (apply (dkgs_ok_upd s eon d); [exact Hok|exact Eg|reflexivity]).
  - unfold handle_accusation. destruct (dkg_get (dkgs s) eon) as [d|] eqn:Eg; branches; intros [= <- <-]; try exact Hok.
    all: try (apply (dkgs_ok_upd s eon d); [exact Hok|exact Eg|reflexivity]).
  - unfold handle_apology. destruct (dkg_get (dkgs s) eon) as [d|] eqn:Eg; branches; intros [= <- <-]; try exact Hok.
    all: try (apply (dkgs_ok_upd s eon d); [exact Hok|exact Eg|reflexivity]).
  - intros [= <- <-]. exact Hok.
Qed.

Lemma in_map_keypers (c : config) cs cs' :
  map c_keypers cs' = map c_keypers cs -> In c cs -> exists c', In c' cs' /\ c_keypers c' = c_keypers c.
Proof.
  revert cs'. induction cs as [|c0 r IH]; intros [|c1 r'] Hm Hin; simpl in *; try discriminate; [contradiction|].
  injection Hm as H1 H2. destruct Hin as [->|Hin].
  - exists c1. split; [left; reflexivity|exact H1].
  - destruct (IH r' H2 Hin) as [c' [Hc' Hk]]. exists c'. split; [right; exact Hc'|exact Hk].
Qed.

Lemma step_dkgs_ok e s c : dkgs_ok s -> dkgs_ok (fst (step e s c)).
Proof.
  intros Hok. destruct c; simpl.
  - destruct (begin_block s height); exact Hok.
  - destruct (check_tx s t) as [s' code] eqn:E. simpl. unfold check_tx in E. revert E.
    branches; intros [= <- <-]; try exact Hok. all: try (eapply dkgs_ok_frame; [| |exact Hok]; reflexivity).
  - destruct (deliver_tx e s t) as [[s' [code evs]]|] eqn:E; simpl; [|exact Hok].
    unfold deliver_tx in E. revert E. destruct t as [|signer chain nonce p]; [intros [= <- <- <-]; exact Hok|].
    branches; try (intros [= <- <- <-]; exact Hok).
    intros E. eapply deliver_message_dkgs_ok; [|exact E].
    eapply dkgs_ok_frame; [| |exact Hok]; reflexivity.
  - unfold end_block. pose proof (end_block_configs_keypers s (configs s) None) as Hk.
    destruct (end_block_configs s None (configs s)) as [cs evs]. simpl in *.
    intros eon d Hg. simpl in Hg. destruct (Hok eon d Hg) as [c [Hin Hck]].
    destruct (in_map_keypers c (configs s) cs Hk Hin) as [c' [Hin' Hk']].
    exists c'. simpl. split; [exact Hin'|congruence].
  - eapply dkgs_ok_frame; [| |exact Hok]; reflexivity.
Qed.

Lemma init_chain_dkgs_ok g s : init_chain g = Some s -> dkgs_ok s.
Proof. unfold init_chain. branches; try discriminate. intros [= <-] eon d. simpl. discriminate. Qed.

(* ---------- a transaction of an outsider ---------- *)
Lemma is_keyper_any_in s x c : is_keyper_any s x = false -> In c (configs s) -> is_keyper c x = false.
Proof.
  unfold is_keyper_any. intros H Hin.
  destruct (is_keyper c x) eqn:E; [|reflexivity].
  assert (existsb (fun c0 => is_keyper c0 x) (configs s) = true) by (apply existsb_exists; exists c; auto).
  congruence.
Qed.

Lemma last_opt_in {A} (l : list A) x : last_opt l = Some x -> In x l.
Proof.
  induction l as [|a r IH]; simpl; [discriminate|].
  destruct r as [|b r']; [intros [= ->]; left; reflexivity|]. intros H. right. apply IH. exact H.
Qed.

Lemma outsider_dkg s x eon d :
  dkgs_ok s -> is_keyper_any s x = false -> dkg_get (dkgs s) eon = Some d -> is_keyper (d_config d) x = false.
Proof.
  intros Hok Hk Hg. destruct (Hok eon d Hg) as [c [Hin Hck]].
  pose proof (is_keyper_any_in s x c Hk Hin) as H. unfold is_keyper in *. rewrite <- Hck. exact H.
Qed.

(* the message of an outsider changes at most its own blocks-seen entry, and emits nothing *)
Lemma deliver_message_outsider e s x p s' r :
  dkgs_ok s -> is_keyper_any s x = false ->
  deliver_message e s x p = Some (s', r) ->
  snd r = [] /\ nonces s' = nonces s /\
  (s' = s \/ exists bn, s' = set_blocks_seen s (aset (blocks_seen s) x bn)).
Proof.
  intros Hok Hk. destruct p; simpl.
  - unfold deliver_batch_config.
    destruct (negb (all_len20 keypers)); [intros [= <- <-]; auto|].
    destruct (negb (addrs_unique keypers)); [intros [= <- <-]; auto|].
    destruct (last_opt (configs s)) as [lc|] eqn:El; [|discriminate].
    destruct (config_eqb lc _); [intros [= <- <-]; auto|].
    destruct (check_config s _) as [[|]|]; try discriminate; [|intros [= <- <-]; auto].
    rewrite (is_keyper_any_in s x lc Hk (last_opt_in _ _ El)). simpl. intros [= <- <-]. auto.
  - unfold deliver_block_seen. branches; intros [= <- <-]; simpl; repeat split; auto.
    right. eexists. reflexivity.
  - unfold deliver_check_in. destruct (negb (check_in_fork_active s) && amem (identities s) x); [intros [= <- <-]; auto|].
    rewrite Hk. simpl. intros [= <- <-]. auto.
  - unfold deliver_dkg_result. destruct (dkg_get (dkgs s) eon) as [d|] eqn:Eg; [|intros [= <- <-]; auto].
    rewrite (outsider_dkg s x eon d Hok Hk Eg). simpl. intros [= <- <-]. auto.
  - unfold handle_poly_eval. destruct (dkg_get (dkgs s) eon) as [d|] eqn:Eg.
    + rewrite (outsider_dkg s x eon d Hok Hk Eg). simpl. branches; intros [= <- <-]; auto.
    + branches; intros [= <- <-]; auto.
  - unfold handle_poly_commitment. destruct (dkg_get (dkgs s) eon) as [d|] eqn:Eg.
    + rewrite (outsider_dkg s x eon d Hok Hk Eg). simpl. branches; intros [= <- <-]; auto.
    + branches; intros [= <- <-]; auto.
  - unfold handle_accusation. destruct (dkg_get (dkgs s) eon) as [d|] eqn:Eg.
    + rewrite (outsider_dkg s x eon d Hok Hk Eg). simpl. branches; intros [= <- <-]; auto.
    + branches; intros [= <- <-]; auto.
  - unfold handle_apology. destruct (dkg_get (dkgs s) eon) as [d|] eqn:Eg.
    + rewrite (outsider_dkg s x eon d Hok Hk Eg). simpl. branches; intros [= <- <-]; auto.
    + branches; intros [= <- <-]; auto.
  - intros [= <- <-]. auto.
Qed.

Lemma drop_nonces_cons_same x n l : drop_nonces x ((x, n) :: l) = drop_nonces x l.
Proof. simpl. rewrite bytes_eqb_refl. reflexivity. Qed.

Lemma drop_nonces_cons_other x a n l : a <> x -> drop_nonces x ((a, n) :: l) = (a, n) :: drop_nonces x l.
Proof. intros H. simpl. apply bytes_eqb_neq in H. rewrite H. reflexivity. Qed.

(* Theorem A: whatever an outsider x submits, the state with x's private entries hidden does
   not move, and no event is emitted. *)
Theorem outsider_tx_invisible e s x chain nonce p s' r :
  dkgs_ok s -> is_keyper_any s x = false ->
  deliver_tx e s (Tx x chain nonce p) = Some (s', r) ->
  hide x s' = hide x s /\ snd r = [].
Proof.
  intros Hok Hk. simpl.
  destruct (negb (bytes_eqb chain (chain_id s))); [intros [= <- <-]; auto|].
  destruct (nonce_used (nonces s) x nonce); [intros [= <- <-]; auto|].
  intros H. apply deliver_message_outsider in H; [|exact Hok|exact Hk].
  destruct H as [Hev [Hn Hs]]. split; [|exact Hev].
  unfold hide, with_bn. destruct Hs as [->|[bn ->]]; simpl.
  - rewrite bytes_eqb_refl. reflexivity.
  - rewrite bytes_eqb_refl. simpl. rewrite drop_key_aset_same. reflexivity.
Qed.

(* ---------- calls not made by x commute with hiding x ---------- *)
Definition not_by (x : addr) (c : call) : Prop :=
  match c with
  | CCheck (Tx sg _ _ _) | CDeliver (Tx sg _ _ _) => sg <> x
  | _ => True
  end.

Lemma count_seen_drop x bs ks act : mem_addr x ks = false -> count_seen (drop_key x bs) ks act = count_seen bs ks act.
Proof.
  intros H. unfold count_seen. f_equal. f_equal.
  induction ks as [|k r IH]; simpl; [reflexivity|].
  simpl in H. apply orb_false_iff in H as [H1 H2].
  assert (Hne : k <> x) by (apply bytes_eqb_neq; exact H1).
  rewrite (aget_drop_key x bs k Hne). rewrite (IH H2). reflexivity.
Qed.

Lemma end_block_configs_hide x s : forall cs prev,
  (forall c, In c cs -> is_keyper c x = false) ->
  (forall p, prev = Some p -> is_keyper p x = false) ->
  end_block_configs (hide x s) prev cs = end_block_configs s prev cs.
Proof.
  induction cs as [|c r IH]; intros prev Hcs Hprev; simpl; [reflexivity|].
  assert (Hc : is_keyper c x = false) by (apply Hcs; left; reflexivity).
  assert (Hallow : is_keyper (match prev with Some p => p | None => c end) x = false).
  { destruct prev as [p|]; [apply Hprev; reflexivity|exact Hc]. }
  unfold is_keyper in Hallow. rewrite (count_seen_drop x _ _ _ Hallow).
  match goal with |- context [end_block_configs (hide x s) (Some ?c2) r] =>
    rewrite (IH (Some c2)); [reflexivity| |] end.
  - intros c' Hin. apply Hcs. right. exact Hin.
  - intros p [= <-]. unfold is_keyper in *.
    repeat match goal with |- context [if ?b then _ else _] => destruct b end; simpl; exact Hc.
Qed.

Lemma check_tx_hide x s t :
  not_by x (CCheck t) ->
  check_tx (hide x s) t = (hide x (fst (check_tx s t)), snd (check_tx s t)).
Proof.
  destruct t as [|sg chain nonce p]; [reflexivity|]. simpl. intros Hnb.
  rewrite (nonce_used_drop x (nonces s) sg nonce Hnb).
  branches; reflexivity.
Qed.

Lemma deliver_tx_hide e x s sg chain nonce p :
  cfg_ok s -> sg <> x ->
  deliver_tx e (hide x s) (Tx sg chain nonce p) =
  match deliver_tx e s (Tx sg chain nonce p) with
  | Some (s', r) => Some (hide x s', r)
  | None => None
  end.
Proof.
  intros Hcfg Hnb. unfold deliver_tx.
  change (chain_id (hide x s)) with (chain_id s).
  change (nonces (hide x s)) with (drop_nonces x (nonces s)).
  rewrite (nonce_used_drop x (nonces s) sg nonce Hnb).
  destruct (negb (bytes_eqb chain (chain_id s))); [reflexivity|].
  destruct (nonce_used (nonces s) sg nonce); [reflexivity|].
  set (s1 := set_nonces s ((sg, nonce) :: nonces s)).
  assert (Hs1 : set_nonces (hide x s) ((sg, nonce) :: drop_nonces x (nonces s)) = hide x s1).
  { unfold hide, with_bn, s1. simpl. apply bytes_eqb_neq in Hnb. rewrite Hnb. reflexivity. }
  rewrite Hs1.
  destruct (deliver_message e s1 sg p) as [[s' r]|] eqn:E.
  - apply (deliver_message_hide e x s1 sg p s' r Hnb E).
  - exfalso. revert E. apply deliver_message_total. exact Hcfg.
Qed.

(* Theorem B *)
Theorem step_hide e x s c :
  cfg_ok s -> is_keyper_any s x = false -> not_by x c ->
  step e (hide x s) c = (hide x (fst (step e s c)), snd (step e s c)).
Proof.
  intros Hcfg Hk Hnb. destruct c.
  - unfold step, begin_block. change (configs (hide x s)) with (configs s).
    destruct (height =? 1); [|reflexivity]. destruct (configs s); reflexivity.
  - unfold step. rewrite (check_tx_hide x s t Hnb). destruct (check_tx s t) as [s' code]. reflexivity.
  - destruct t as [|sg chain nonce p]; [reflexivity|]. simpl in Hnb.
    unfold step. rewrite (deliver_tx_hide e x s sg chain nonce p Hcfg Hnb).
    destruct (deliver_tx e s (Tx sg chain nonce p)) as [[s' [code evs]]|]; reflexivity.
  - unfold step, end_block. change (configs (hide x s)) with (configs s).
    rewrite (end_block_configs_hide x s (configs s) None).
    + destruct (end_block_configs s None (configs s)) as [cs evs]. reflexivity.
    + intros c Hin. eapply is_keyper_any_in; eauto.
    + discriminate.
  - reflexivity.
Qed.

(* x stays outside every config along the run of cs from s *)
Fixpoint never_keyper (x : addr) (es : nat -> enumerator) (k : nat) (s : state) (cs : list call) : Prop :=
  is_keyper_any s x = false /\
  match cs with
  | [] => True
  | c :: r => never_keyper x es (S k) (fst (step (es k) s c)) r
  end.

Lemma hide_cfg_ok x s : cfg_ok s -> cfg_ok (hide x s).
Proof. intros H. exact H. Qed.

Lemma run_hide x cs : forall es k s,
  cfg_ok s -> Forall (not_by x) cs -> never_keyper x es k s cs ->
  run_enums es k (hide x s) cs =
  (hide x (fst (run_enums es k s cs)), snd (run_enums es k s cs)).
Proof.
  induction cs as [|c r IH]; intros es k s Hcfg Hnb Hnk; simpl; [reflexivity|].
  inversion Hnb as [|? ? Hc Hr]; subst. destruct Hnk as [Hk Hnk'].
  rewrite (step_hide (es k) x s c Hcfg Hk Hc).
  destruct (step_cfg_ok (es k) s c Hcfg) as [Hcfg' _].
  destruct (step (es k) s c) as [s1 o]. simpl in *.
  rewrite (IH es (S k) s1 Hcfg' Hr Hnk').
  destruct (run_enums es (S k) s1 r) as [s2 os]. reflexivity.
Qed.

(* C10_noninterference: an arbitrary transaction of x executed in front of a history in
   which x takes no further part and is never a member of an accepted config changes no later
   response, emits no event itself, and leaves the final state equal up to x's own entries. *)
Theorem noninterference e es k s x chain nonce p s1 r1 cs :
  cfg_ok s -> dkgs_ok s ->
  deliver_tx e s (Tx x chain nonce p) = Some (s1, r1) ->
  Forall (not_by x) cs -> never_keyper x es k s cs ->
  snd r1 = [] /\
  snd (run_enums es k s1 cs) = snd (run_enums es k s cs) /\
  hide x (fst (run_enums es k s1 cs)) = hide x (fst (run_enums es k s cs)).
Proof.
  intros Hcfg Hok Hd Hnb Hnk.
  assert (Hk : is_keyper_any s x = false) by (destruct cs; destruct Hnk as [Hk _]; exact Hk).
  destruct (outsider_tx_invisible e s x chain nonce p s1 r1 Hok Hk Hd) as [Hh Hev].
  split; [exact Hev|].
  assert (Hcfg1 : cfg_ok s1).
  { pose proof (step_cfg_ok e s (CDeliver (Tx x chain nonce p)) Hcfg) as [H _]. unfold step in H. rewrite Hd in H.
    destruct r1. exact H. }
  (* never_keyper transfers from s to s1: the hidden states are equal, and so are the configs *)
  assert (Hnk1 : forall cs es k sa sb, hide x sa = hide x sb -> cfg_ok sa -> cfg_ok sb -> Forall (not_by x) cs ->
                 never_keyper x es k sa cs -> never_keyper x es k sb cs).
  { clear. induction cs as [|c r IH]; intros es k sa sb Hh Ha Hb Hnb [Hk Hrest]; simpl.
    - split; [|exact I]. unfold is_keyper_any in *.
      replace (configs sb) with (configs (hide x sb)) by reflexivity. rewrite <- Hh. exact Hk.
    - assert (Hkb : is_keyper_any sb x = false).
      { unfold is_keyper_any in *. replace (configs sb) with (configs (hide x sb)) by reflexivity. rewrite <- Hh. exact Hk. }
      split; [exact Hkb|]. inversion Hnb as [|? ? Hc Hr]; subst.
      apply (IH es (S k) (fst (step (es k) sa c))); auto.
      + pose proof (step_hide (es k) x sa c Ha Hk Hc) as E1.
        pose proof (step_hide (es k) x sb c Hb Hkb Hc) as E2.
        rewrite Hh in E1. rewrite E1 in E2. apply (f_equal fst) in E2. exact E2.
      + apply step_cfg_ok. exact Ha.
      + apply step_cfg_ok. exact Hb. }
  assert (Hnk' : never_keyper x es k s1 cs) by (apply (Hnk1 cs es k s s1); auto).
  pose proof (run_hide x cs es k s Hcfg Hnb Hnk) as R.
  pose proof (run_hide x cs es k s1 Hcfg1 Hnb Hnk') as R1.
  rewrite Hh in R1. rewrite R in R1.
  split; [symmetry; exact (f_equal snd R1)|symmetry; exact (f_equal fst R1)].
Qed.
