(* keyper/eonpkhandler.go queryAndHandleNewEonPubKeys / broadcastEonPublicKey, database.GetKeyperIndex,
   the two medley casts and p2pmsg.NewSignedEonPublicKey as translated statement by statement on
   this run (Generated/EonPKLoop.v) compute what the hand-written model (Model/EonPK.v) computes:
   the same calls to the mechanisms in the same order with the same fields, the same returned
   error class, for every row list, every configuration and all answers of the mechanisms.  The
   theorems of Proofs/EonPK.v therefore speak about the loop as it is in the source now; an edit
   that changes a guard, an argument order or the control flow of the loop (D13: a return after
   the first row) makes one of these proofs fail. *)
From Coq Require Import List NArith ZArith Bool Lia.
From Verif Require Import Lib.Bytes Model.EonPK Generated.EonPKLoop.
Import ListNotations.
Open Scope Z_scope.

Lemma gen_int64_cast_agrees x : gen_int64_to_uint64_safe x = safe_cast x.
Proof. reflexivity. Qed.

Lemma gen_int32_cast_agrees x : gen_int32_to_uint64_safe x = safe_cast x.
Proof. reflexivity. Qed.

(* database.GetKeyperIndex: the loop with its early return finds exactly the members *)
Definition gki_step (self : bytes) (acc : Z * option (Z * bool)) (v_a : bytes) : Z * option (Z * bool) :=
  match acc with
  | (v_i, Some r) => (v_i, Some r)
  | (v_i, None) => if bytes_eqb v_a self then (v_i, Some (v_i, true)) else (v_i + 1, None)
  end.

Lemma gki_returned self ks : forall i r, fold_left (gki_step self) ks (i, Some r) = (i, Some r).
Proof. induction ks as [|a ks IH]; intros i r; simpl; [reflexivity|apply IH]. Qed.

Lemma gki_fold self ks : forall i,
  match fold_left (gki_step self) ks (i, None) with
  | (_, Some r) => snd r = true /\ is_member self ks = true
  | (_, None) => is_member self ks = false
  end.
Proof.
  induction ks as [|a ks IH]; intros i; [reflexivity|].
  cbn [fold_left]. unfold gki_step at 2. unfold is_member. cbn [existsb].
  destruct (bytes_eqb a self) eqn:E.
  - rewrite gki_returned. simpl. auto.
  - simpl. apply (IH (i + 1)).
Qed.

Lemma gen_get_keyper_index_agrees self ks : snd (gen_get_keyper_index self ks) = is_member self ks.
Proof.
  unfold gen_get_keyper_index.
  change (fold_left _ ks (0, None)) with (fold_left (gki_step self) ks (0, None)).
  pose proof (gki_fold self ks 0) as H.
  destruct (fold_left (gki_step self) ks (0, None)) as [j [r|]].
  - destruct H as [H1 H2]. rewrite H1, H2. reflexivity.
  - rewrite H. reflexivity.
Qed.

(* The agreement lemmas below do not follow the shape of the generated text: they split on the
   atoms both sides are built from (the membership test, the sign tests of the casts, the two
   configuration flags, the mechanisms' answers) and compare the results.  A refactoring of the
   source that leaves the decisions alone (if-with-init, renamed locals, a `continue` instead
   of a trailing block) keeps them valid; a changed guard, argument or return does not. *)
Ltac loop_atoms :=
  repeat (cbn [gen_bind gen_end_iter gen_is_nil fst snd negb andb orb pk_key pk_act pk_kci pk_eon];
          match goal with
          | |- context [is_member ?a ?b] => destruct (is_member a b)
          | |- context [Z.ltb ?a ?b] => destruct (Z.ltb a b)
          | |- context [Z.leb ?a ?b] => destruct (Z.leb a b)
          | |- context [h_bcast ?h] => destruct (h_bcast h)
          | |- context [h_cb ?h] => destruct (h_cb h)
          | |- context [next_answer ?l] =>
              let a := fresh "a" in let r := fresh "ans" in
              destruct (next_answer l) as [a r]; destruct a
          end);
  cbn [gen_bind gen_end_iter gen_is_nil fst snd negb andb orb pk_key pk_act pk_kci pk_eon app];
  rewrite ?app_nil_r, <- ?app_assoc; reflexivity.

(* broadcastEonPublicKey hands exactly one message to Messaging.SendMessage: the configured
   instance id and the four fields, each in its place *)
Lemma gen_broadcast_agrees h pk st :
  gen_broadcast_eon_public_key h pk st = gen_env_call (CBroadcast (h_instance h) pk) st.
Proof.
  unfold gen_broadcast_eon_public_key, gen_new_signed_eon_public_key, gen_env_call.
  destruct pk as [k a c e]. loop_atoms.
Qed.

Definition flow_of_err (e : err) : gen_flow :=
  match e with ENone => Next | _ => Ret (RErr e) end.

Definition ret_of_err (e : err) : gen_ret :=
  match e with ENone => RNil | _ => RErr e end.

(* one iteration of the loop, up to its end (where a `continue` and falling off the body are
   the same thing and a return is not) *)
Lemma gen_loop_body_agrees h j cs0 answers :
  gen_end_iter (gen_loop_body h j (cs0, answers)) =
  let '(cs, ans', e) := handle_row h j answers in ((cs0 ++ cs, ans'), flow_of_err e).
Proof.
  unfold gen_loop_body, handle_row, prepare, safe_cast,
    gen_int64_to_uint64_safe, gen_int32_to_uint64_safe,
    gen_broadcast_eon_public_key, gen_new_signed_eon_public_key, gen_env_call, flow_of_err.
  rewrite ?gen_get_keyper_index_agrees.
  loop_atoms.
Qed.

Lemma gen_fold_ret h rows st x :
  fold_left (fun acc r => gen_bind acc (fun st => gen_end_iter (gen_loop_body h r st))) rows (st, Ret x)
  = (st, Ret x).
Proof. induction rows as [|r rest IH]; simpl; [reflexivity|exact IH]. Qed.

(* the loop: a fold whose accumulator remembers that the function has returned *)
Lemma gen_loop_agrees h rows : forall cs0 answers,
  exists ans',
    fold_left (fun acc r => gen_bind acc (fun st => gen_end_iter (gen_loop_body h r st))) rows
              ((cs0, answers), Next) =
    ((cs0 ++ fst (handle_rows h rows answers), ans'), flow_of_err (snd (handle_rows h rows answers))).
Proof.
  induction rows as [|r rest IH]; intros cs0 answers.
  - exists answers. simpl. rewrite app_nil_r. reflexivity.
  - cbn [fold_left gen_bind]. rewrite gen_loop_body_agrees.
    change (handle_rows h (r :: rest) answers) with
      (let '(cs, ans', e) := handle_row h r answers in
       match e with
       | ENone => let (cs2, e2) := handle_rows h rest ans' in (cs ++ cs2, e2)
       | _ => (cs, e)
       end).
    destruct (handle_row h r answers) as [[cs ans1] e].
    destruct e; try (exists ans1; simpl; apply gen_fold_ret).
    simpl flow_of_err. destruct (IH (cs0 ++ cs) ans1) as (ans' & ->). exists ans'.
    destruct (handle_rows h rest ans1) as [cs2 e2]. simpl. rewrite app_assoc. reflexivity.
Qed.

(* the whole function on the rows the query returned *)
Lemma gen_query_and_handle_rows h rows answers :
  gen_query_and_handle h (Some rows) answers =
  (fst (handle_rows h rows answers), ret_of_err (snd (handle_rows h rows answers))).
Proof.
  unfold gen_query_and_handle. cbv zeta. cbn [negb gen_bind].
  destruct (gen_loop_agrees h rows [] answers) as (ans' & E). unfold gen_state in *. rewrite E.
  simpl app. destruct (handle_rows h rows answers) as [cs e]. destruct e; reflexivity.
Qed.

(* ... and when the query fails: its error is returned, nothing is called *)
Lemma gen_query_and_handle_fails h answers : gen_query_and_handle h None answers = ([], RQuery).
Proof. reflexivity. Qed.

Definition outcome_of_gen (r : list (call * bool) * gen_ret) : outcome :=
  match snd r with
  | RQuery => OQueryFailed
  | RNil => OTick (fst r) ENone
  | RErr e => OTick (fst r) e
  end.

(* a polling tick of the model is the query followed by the translated function *)
Lemma step_tick_is_translated h d enum answers :
  step h d (OpTick enum answers) =
  (fst (get_and_delete d enum),
   outcome_of_gen (gen_query_and_handle h (Some (snd (get_and_delete d enum))) answers)).
Proof.
  unfold step. simpl. rewrite gen_query_and_handle_rows.
  destruct (handle_rows h (flat_map (join_row (eons d) (cfgs d)) enum) answers) as [cs e].
  destruct e; reflexivity.
Qed.

Lemma step_tick_fails_is_translated h d answers :
  step h d OpTickFails = (d, outcome_of_gen (gen_query_and_handle h None answers)).
Proof. reflexivity. Qed.

(* eonPubKeyHandler.loop as read on this run: in the production setting (stopOnErrors = false)
   every polling run, failed or not, is followed by another one *)
Lemma gen_loop_keeps_polling failed : gen_loop_polls_again_after failed false = true.
Proof. destruct failed; reflexivity. Qed.
