From Coq Require Import List NArith ZArith Bool Lia Permutation Sorted.
From Verif Require Import Lib.Bytes Lib.Assoc Lib.Sorting Model.Powermap.
Import ListNotations.
Open Scope Z_scope.

Definition wf_pm (m : powermap) : Prop :=
  NoDup (map fst m) /\ Forall (fun kv => 0 < snd kv) m.

(* ---------- adel ---------- *)
Lemma adel_keys_subset (m : powermap) k x : In x (map fst (adel m k)) -> In x (map fst m).
Proof.
  induction m as [|[k0 v0] r IH]; simpl; [tauto|].
  destruct (bytes_eqb k0 k); simpl; intuition.
Qed.

Lemma adel_nodup (m : powermap) k : NoDup (map fst m) -> NoDup (map fst (adel m k)).
Proof.
  induction m as [|[k0 v0] r IH]; simpl; intros H; [constructor|].
  inversion H as [|? ? Hn Hd]; subst.
  destruct (bytes_eqb k0 k); simpl; [exact Hd|].
  constructor; [|apply IH; exact Hd]. intros Hin. apply Hn. eapply adel_keys_subset. exact Hin.
Qed.

Lemma aget_adel_same (m : powermap) k : NoDup (map fst m) -> aget (adel m k) k = None.
Proof.
  induction m as [|[k0 v0] r IH]; simpl; intros H; [reflexivity|].
  inversion H as [|? ? Hn Hd]; subst.
  destruct (bytes_eqb k0 k) eqn:E; simpl.
  - apply bytes_eqb_eq in E. subst. apply aget_none_notin. exact Hn.
  - rewrite E. apply IH. exact Hd.
Qed.

Lemma aget_adel_other (m : powermap) k k' : k <> k' -> aget (adel m k) k' = aget m k'.
Proof.
  intros Hne. induction m as [|[k0 v0] r IH]; simpl; [reflexivity|].
  destruct (bytes_eqb k0 k) eqn:E; simpl.
  - apply bytes_eqb_eq in E. subst. apply bytes_eqb_neq in Hne. rewrite Hne. reflexivity.
  - destruct (bytes_eqb k0 k'); auto.
Qed.

Lemma amem_true_iff {V} (m : amap V) k : amem m k = true <-> In k (map fst m).
Proof.
  unfold amem. destruct (aget m k) eqn:E.
  - split; [intros _|reflexivity]. apply aget_in in E. apply in_map_iff. exists (k, v). auto.
  - split; [discriminate|]. intros H. apply aget_none_notin in E. contradiction.
Qed.

(* ---------- pointwise meaning of the diff ---------- *)
Definition diff_spec (oldpm newpm : powermap) (k : bytes) : option Z :=
  match aget newpm k with
  | Some p => if Z.eqb (pget0 oldpm k) p then None else Some p
  | None => if amem oldpm k then Some 0 else None
  end.

Lemma amem_cons {V} (k0 : bytes) (v0 : V) r k :
  amem ((k0, v0) :: r) k = if bytes_eqb k0 k then true else amem r k.
Proof. unfold amem. simpl. destruct (bytes_eqb k0 k); reflexivity. Qed.

Lemma diff_remove_get newpm oe res k :
  aget (diff_remove newpm oe res) k =
  if amem oe k && negb (amem newpm k) then Some 0 else aget res k.
Proof.
  unfold diff_remove. revert res. induction oe as [|[k0 v0] r IH]; intros res; simpl.
  - reflexivity.
  - rewrite IH, amem_cons.
    destruct (bytes_eqb k0 k) eqn:E.
    + apply bytes_eqb_eq in E. subst k0. simpl.
      destruct (amem newpm k) eqn:En; simpl.
      * rewrite andb_false_r. reflexivity.
      * rewrite andb_true_r. destruct (amem r k); [reflexivity|]. apply aget_aset_same.
    + destruct (amem r k && negb (amem newpm k)); [reflexivity|].
      destruct (amem newpm k0); [reflexivity|]. apply aget_aset_other.
      apply bytes_eqb_neq. exact E.
Qed.

Lemma diff_remove_nodup newpm oe res :
  NoDup (map fst res) -> NoDup (map fst (diff_remove newpm oe res)).
Proof.
  unfold diff_remove. revert res. induction oe as [|[k0 v0] r IH]; intros res H; simpl; [exact H|].
  apply IH. destruct (amem newpm k0); [exact H|]. apply aset_nodup. exact H.
Qed.

Lemma diff_update_nodup oldpm ne res :
  NoDup (map fst res) -> NoDup (map fst (diff_update oldpm ne res)).
Proof.
  unfold diff_update. revert res. induction ne as [|[k0 v0] r IH]; intros res H; simpl; [exact H|].
  apply IH. destruct (pget0 oldpm k0 =? v0); [exact H|]. apply aset_nodup. exact H.
Qed.

Lemma diff_update_get oldpm ne res k :
  NoDup (map fst ne) ->
  aget (diff_update oldpm ne res) k =
  match aget ne k with
  | Some p => if Z.eqb (pget0 oldpm k) p then aget res k else Some p
  | None => aget res k
  end.
Proof.
  unfold diff_update. revert res. induction ne as [|[k0 v0] r IH]; intros res Hnd; simpl.
  - reflexivity.
  - inversion Hnd as [|? ? Hn Hd]; subst. rewrite IH by exact Hd.
    destruct (bytes_eqb k0 k) eqn:E.
    + apply bytes_eqb_eq in E. subst k0.
      assert (Hr : aget r k = None) by (apply aget_none_notin; exact Hn).
      rewrite Hr. destruct (pget0 oldpm k =? v0); [reflexivity|]. apply aget_aset_same.
    + assert (Hne : k0 <> k) by (apply bytes_eqb_neq; exact E).
      destruct (pget0 oldpm k0 =? v0); [reflexivity|].
      rewrite (aget_aset_other res k0 k 0%Z Hne) || rewrite aget_aset_other by exact Hne.
      reflexivity.
Qed.

Lemma perm_aget {V} (m e : amap V) k :
  NoDup (map fst m) -> Permutation e m -> aget e k = aget m k.
Proof.
  intros Hnd Hp.
  assert (Hnde : NoDup (map fst e)).
  { eapply Permutation_NoDup; [|exact Hnd]. apply Permutation_map. apply Permutation_sym. exact Hp. }
  destruct (aget m k) eqn:E.
  - apply aget_in in E. apply in_nodup_aget; [exact Hnde|].
    eapply Permutation_in; [apply Permutation_sym; exact Hp|exact E].
  - apply aget_none_notin. apply aget_none_notin in E. intros Hin. apply E.
    eapply Permutation_in; [|exact Hin]. apply Permutation_map. exact Hp.
Qed.

Lemma perm_amem {V} (m e : amap V) k :
  NoDup (map fst m) -> Permutation e m -> amem e k = amem m k.
Proof. intros Hnd Hp. unfold amem. rewrite (perm_aget m e k Hnd Hp). reflexivity. Qed.

Lemma diff_enum_get oldpm newpm oe ne k :
  NoDup (map fst oldpm) -> NoDup (map fst newpm) ->
  Permutation oe oldpm -> Permutation ne newpm ->
  aget (diff_powermaps_enum oldpm newpm oe ne) k = diff_spec oldpm newpm k.
Proof.
  intros Ho Hn Hpo Hpn. unfold diff_powermaps_enum, diff_spec.
  assert (Hnne : NoDup (map fst ne)).
  { eapply Permutation_NoDup; [|exact Hn]. apply Permutation_map. apply Permutation_sym. exact Hpn. }
  rewrite diff_update_get by exact Hnne.
  rewrite (perm_aget newpm ne k Hn Hpn).
  rewrite diff_remove_get. rewrite (perm_amem oldpm oe k Ho Hpo). simpl.
  assert (Hm : amem newpm k = match aget newpm k with Some _ => true | None => false end) by reflexivity.
  rewrite Hm. destruct (aget newpm k) eqn:En; simpl.
  - rewrite andb_false_r. reflexivity.
  - rewrite andb_true_r. destruct (amem oldpm k); reflexivity.
Qed.

Lemma diff_enum_nodup oldpm newpm oe ne :
  NoDup (map fst (diff_powermaps_enum oldpm newpm oe ne)).
Proof. unfold diff_powermaps_enum. apply diff_update_nodup, diff_remove_nodup. constructor. Qed.

(* ---------- applying a duplicate-free change set is pointwise ---------- *)
Lemma has_dup_keys_false l : NoDup (map fst l) -> has_dup_keys l = false.
Proof.
  induction l as [|[k v] r IH]; simpl; intros H; [reflexivity|].
  inversion H as [|? ? Hn Hd]; subst. rewrite (IH Hd), orb_false_r.
  destruct (amem r k) eqn:E; [|reflexivity]. apply amem_true_iff in E. contradiction.
Qed.

Definition change_ok (vs : powermap) (kv : bytes * Z) : Prop :=
  0 <= snd kv /\ (snd kv = 0 -> In (fst kv) (map fst vs)).

Lemma apply_changes_spec ups : forall vs,
  NoDup (map fst ups) -> NoDup (map fst vs) -> Forall (change_ok vs) ups ->
  exists r, apply_changes vs ups = Some r /\ NoDup (map fst r) /\
    forall k, aget r k = match aget ups k with
                         | Some p => if p =? 0 then None else Some p
                         | None => aget vs k
                         end.
Proof.
  induction ups as [|[k p] r IH]; intros vs Hu Hv Hok; simpl.
  - exists vs. auto.
  - inversion Hu as [|? ? Hn Hd]; subst. inversion Hok as [|? ? [Hp0 Hpz] Hok']; subst. simpl in *.
    destruct (p <? 0) eqn:Elt; [lia|].
    destruct (p =? 0) eqn:Ez.
    + apply Z.eqb_eq in Ez. subst p. specialize (Hpz eq_refl).
      assert (Hm : amem vs k = true) by (apply amem_true_iff; exact Hpz). rewrite Hm.
      destruct (IH (adel vs k) Hd (adel_nodup vs k Hv)) as (res & Hr & Hnd & Hget).
      { rewrite Forall_forall in *. intros [k' p'] Hin. destruct (Hok' _ Hin) as [H1 H2]. split; [exact H1|].
        simpl in *. intros Hz. specialize (H2 Hz).
        assert (Hne : k <> k'). { intros ->. apply Hn. apply in_map_iff. exists (k', p'). auto. }
        apply amem_true_iff. unfold amem. rewrite aget_adel_other by exact Hne.
        apply amem_true_iff in H2. exact H2. }
      exists res. split; [exact Hr|]. split; [exact Hnd|]. intros k'. rewrite Hget.
      destruct (bytes_eqb k k') eqn:E.
      * apply bytes_eqb_eq in E. subst k'.
        assert (Hr0 : aget r k = None) by (apply aget_none_notin; exact Hn). rewrite Hr0.
        simpl. apply aget_adel_same. exact Hv.
      * destruct (aget r k'); [reflexivity|]. apply aget_adel_other. apply bytes_eqb_neq. exact E.
    + destruct (IH (aset vs k p) Hd (aset_nodup vs k p Hv)) as (res & Hr & Hnd & Hget).
      { rewrite Forall_forall in *. intros [k' p'] Hin. destruct (Hok' _ Hin) as [H1 H2]. split; [exact H1|].
        simpl in *. intros Hz. rewrite aset_keys_in. right. exact (H2 Hz). }
      exists res. split; [exact Hr|]. split; [exact Hnd|]. intros k'. rewrite Hget.
      destruct (bytes_eqb k k') eqn:E.
      * apply bytes_eqb_eq in E. subst k'.
        assert (Hr0 : aget r k = None) by (apply aget_none_notin; exact Hn). rewrite Hr0.
        rewrite Ez. apply aget_aset_same.
      * destruct (aget r k'); [reflexivity|]. apply aget_aset_other. apply bytes_eqb_neq. exact E.
Qed.

Lemma wf_positive (m : powermap) k p : wf_pm m -> aget m k = Some p -> 0 < p.
Proof.
  intros [_ Hf] H. apply aget_in in H. rewrite Forall_forall in Hf. exact (Hf _ H).
Qed.

(* The full statement behind C12_diff_apply. *)
Theorem diff_apply_enum oldpm newpm oe ne :
  wf_pm oldpm -> wf_pm newpm -> newpm <> [] ->
  Permutation oe oldpm -> Permutation ne newpm ->
  let ups := validator_updates_enum (diff_powermaps_enum oldpm newpm oe ne) in
  ups = validator_updates (diff_powermaps oldpm newpm) /\
  Sorted klt ups /\
  (forall k, In (k, 0) ups -> In k (map fst oldpm)) /\
  exists r, apply_updates oldpm ups = Some r /\ NoDup (map fst r) /\
            forall k, aget r k = aget newpm k.
Proof.
  intros [Hndo Hpo] [Hndn Hpn] Hne Hoe Hnn ups.
  set (d := diff_powermaps_enum oldpm newpm oe ne) in *.
  assert (Hdn : NoDup (map fst d)) by apply diff_enum_nodup.
  assert (Hdg : forall k, aget d k = diff_spec oldpm newpm k).
  { intros k. apply diff_enum_get; assumption. }
  set (d0 := diff_powermaps oldpm newpm).
  assert (Hd0n : NoDup (map fst d0)) by apply diff_enum_nodup.
  assert (Hd0g : forall k, aget d0 k = diff_spec oldpm newpm k).
  { intros k. apply diff_enum_get; auto. }
  assert (Hperm : Permutation d d0).
  { apply NoDup_Permutation.
    - eapply NoDup_map_inv. exact Hdn.
    - eapply NoDup_map_inv. exact Hd0n.
    - intros [k v]. split; intros Hin.
      + apply aget_in. rewrite Hd0g, <- Hdg. apply in_nodup_aget; assumption.
      + apply aget_in. rewrite Hdg, <- Hd0g. apply in_nodup_aget; assumption. }
  assert (Hupsperm : Permutation ups d) by apply ksort_perm.
  assert (Hupsn : NoDup (map fst ups)).
  { eapply Permutation_NoDup; [|exact Hdn]. apply Permutation_map, Permutation_sym, Hupsperm. }
  assert (Hupsg : forall k, aget ups k = diff_spec oldpm newpm k).
  { intros k. rewrite (perm_aget d ups k Hdn Hupsperm). apply Hdg. }
  split; [apply ksort_unique; assumption|].
  split; [apply ksort_sorted; exact Hdn|].
  split.
  { intros k Hin. apply in_nodup_aget in Hin; [|exact Hupsn]. rewrite Hupsg in Hin.
    unfold diff_spec in Hin. destruct (aget newpm k) eqn:En.
    - destruct (pget0 oldpm k =? z); [discriminate|]. injection Hin as ->.
      pose proof (wf_positive newpm k 0 (conj Hndn Hpn) En). lia.
    - destruct (amem oldpm k) eqn:Em; [|discriminate]. apply amem_true_iff. exact Em. }
  destruct (apply_changes_spec ups oldpm Hupsn Hndo) as (r & Hr & Hrn & Hrg).
  { rewrite Forall_forall. intros [k p] Hin. apply in_nodup_aget in Hin; [|exact Hupsn].
    rewrite Hupsg in Hin. unfold diff_spec in Hin. unfold change_ok. simpl.
    destruct (aget newpm k) eqn:En.
    - destruct (pget0 oldpm k =? z); [discriminate|]. injection Hin as ->.
      pose proof (wf_positive newpm k p (conj Hndn Hpn) En). split; lia.
    - destruct (amem oldpm k) eqn:Em; [|discriminate]. injection Hin as <-. split; [lia|].
      intros _. apply amem_true_iff. exact Em. }
  assert (Hfinal : forall k, aget r k = aget newpm k).
  { intros k. rewrite Hrg, Hupsg. unfold diff_spec.
    destruct (aget newpm k) eqn:En.
    - destruct (pget0 oldpm k =? z) eqn:Ez.
      + apply Z.eqb_eq in Ez. unfold pget0 in Ez. destruct (aget oldpm k) eqn:Eo; [congruence|].
        pose proof (wf_positive newpm k z (conj Hndn Hpn) En). lia.
      + pose proof (wf_positive newpm k z (conj Hndn Hpn) En).
        destruct (z =? 0) eqn:E0; [lia|reflexivity].
    - destruct (amem oldpm k) eqn:Em; simpl; [reflexivity|].
      unfold amem in Em. destruct (aget oldpm k); [discriminate|reflexivity]. }
  exists r. split; [|split; assumption].
  unfold apply_updates. rewrite (has_dup_keys_false ups Hupsn), Hr.
  destruct r as [|x r']; [|reflexivity].
  exfalso. destruct newpm as [|[k p] n']; [congruence|].
  specialize (Hfinal k). simpl in Hfinal. rewrite bytes_eqb_refl in Hfinal. discriminate.
Qed.
