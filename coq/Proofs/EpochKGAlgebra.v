(* The exponent model of the threshold BLS scheme used by epochkg (ssreflect / MathComp style,
   imports Lib/Lagrange.v) and its bridge to the stdlib-style model Model/EpochKG.v.

   Idealisation (DESIGN.md section 3): group elements are their discrete logarithms in a
   field F (the scalar field of BLS12-381), the pairing is e(a, b) = a * b.
     eon secret polynomial          f            (eon secret key f(0), never materialised)
     keyper s (index s, 0-based)    x-coordinate X s = s + 1, secret share f(X s),
                                    public key share f(X s) * g   (g <> 0: generator of G2)
     eon public key                 f(0) * g
     identity x                     H1(x) has discrete logarithm h x
     epoch secret key share         f(X s) * h x
     VerifyEpochSecretKeyShare      e(g, v) = e(pk_s, H1 x)  <->  g * v = (f(X s) * g) * h x
                                                              <->  v = f(X s) * h x
     ComputeEpochSecretKey          sum_i lambda_i * v_i, lambda_i = prod_{k <> i} X k / (X k - X i)
   [comb] transcribes shcrypto.ComputeEpochSecretKey/lagrangeCoefficient: the coefficient skips
   the factors with k == i compared as integers. *)
From Coq Require Import NArith List.
From mathcomp Require Import all_ssreflect all_algebra.
From Verif Require Import Lib.Bytes Lib.Assoc Lib.Lagrange.
From Verif Require Import Model.EpochKG Proofs.EpochKG Proofs.EpochKGHandler Proofs.EpochKGExamples.
Set Implicit Arguments. Unset Strict Implicit. Unset Printing Implicit Defensive.
Import GRing.Theory.
Local Open Scope ring_scope.

Section Exponent.
Variable F : fieldType.
Variable f : {poly F}.
Variable h : bytes -> F.

(* shcrypto.KeyperX *)
Definition xco (k : nat) : F := k.+1%:R.

(* shcrypto.lagrangeCoefficient(j, idx) *)
Definition lagcoef (idx : seq nat) (j : nat) : F :=
  \prod_(k <- idx | k != j) (xco k / (xco k - xco j)).

(* shcrypto.ComputeEpochSecretKey(indices, shares, _) on the list of (index, share) pairs *)
Definition comb (shares : seq (nat * F)) : F :=
  \sum_(p <- shares) lagcoef [seq q.1 | q <- shares] p.1 * p.2.

Lemma lagcoef_lam (idx : seq nat) (j : nat) :
  {in idx &, injective xco} -> j \in idx ->
  lagcoef idx j = lam [seq xco k | k <- idx] (xco j).
Proof.
move=> inj jin; rewrite /lagcoef /lam big_map.
rewrite big_seq_cond [RHS]big_seq_cond; apply: eq_bigl => k.
case kin: (k \in idx) => //=; congr (~~ _).
by apply/eqP/eqP => [->|e] //; apply: inj.
Qed.

(* any set of shares with pairwise distinct x-coordinates, at least deg f + 1 of them, each
   equal to f(X s) * hx, combines to f(0) * hx *)
Theorem comb_correct (hx : F) (shares : seq (nat * F)) :
  {in [seq q.1 | q <- shares] &, injective xco} -> uniq [seq q.1 | q <- shares] ->
  (size f <= size shares)%N ->
  all (fun p => p.2 == f.[xco p.1] * hx) shares ->
  comb shares = f.[0] * hx.
Proof.
move=> inj uq sz ok; rewrite /comb.
set idx := [seq q.1 | q <- shares]; set xs := [seq xco k | k <- idx].
have -> : \sum_(p <- shares) lagcoef idx p.1 * p.2
        = \sum_(p <- shares) (lam xs (xco p.1) * f.[xco p.1]) * hx.
  rewrite big_seq_cond [RHS]big_seq_cond; apply: eq_bigr => p /andP [pin _].
  rewrite lagcoef_lam //; last by apply: map_f.
  by rewrite (eqP (allP ok p pin)) mulrA.
rewrite -mulr_suml; congr (_ * _).
have uxs : uniq xs by rewrite map_inj_in_uniq.
have szx : (size f <= size xs)%N by rewrite !size_map.
by rewrite -(lagrange_at0 uxs szx) /xs /idx !big_map.
Qed.

(* ---- bridge to the stdlib-style model ---- *)

Definition X (s : N) : F := xco (N.to_nat s).

(* the model's [verify] and [combine] in the exponent model *)
Definition verifyF (s : N) (x : bytes) (v : F) : bool := v == f.[X s] * h x.
Definition combineF (l : list (N * F)) : F := comb [seq (N.to_nat p.1, p.2) | p <- l].

(* the keyper x-coordinates 1..n are pairwise distinct field elements (n is below the
   characteristic; the scalar field of BLS12-381 has a 255-bit characteristic) *)
Definition xco_inj_below (n : N) : Prop :=
  forall i j : nat, (i < N.to_nat n)%N -> (j < N.to_nat n)%N -> xco i = xco j -> i = j.

Lemma list_map_map (A B : Type) (g : A -> B) (l : list A) : List.map g l = map g l.
Proof. by elim: l => //= a l ->. Qed.

Lemma length_size (A : Type) (l : list A) : length l = size l.
Proof. by elim: l => //= a l ->. Qed.

Lemma mem_tonat (s : N) (l : list N) : N.to_nat s \in [seq N.to_nat k | k <- l] -> List.In s l.
Proof.
elim: l => //= a l IH; rewrite inE => /orP [/eqP e|/IH]; last by right.
by left; apply: N2Nat.inj.
Qed.

Lemma good_conv (n : N) (x : bytes) (A : list (N * F)) :
  List.NoDup (List.map fst A) ->
  List.Forall (fun p => N.lt (fst p) n /\ verifyF (fst p) x (snd p) = true) A ->
  uniq [seq N.to_nat p.1 | p <- A] /\
  all (fun p => (N.to_nat p.1 < N.to_nat n)%N && (p.2 == f.[X p.1] * h x)) A.
Proof.
elim: A => //= a A IH nd fa.
have [na ndA] : ~ List.In a.1 (List.map fst A) /\ List.NoDup (List.map fst A).
  by inversion nd.
have [[lt ok] faA] : (N.lt a.1 n /\ verifyF a.1 x a.2 = true) /\
    List.Forall (fun p => N.lt (fst p) n /\ verifyF (fst p) x (snd p) = true) A.
  by inversion fa.
have [uq al] := IH ndA faA; split.
  rewrite uq andbT; apply/negP => mem; apply: na.
  rewrite list_map_map; apply: mem_tonat.
  by rewrite -map_comp.
rewrite al andbT; apply/andP; split; last by [].
by apply/ltP; apply: N_lt_to_nat.
Qed.

(* t valid shares from distinct keypers of the set combine to f(0) * h x *)
Theorem good_combine (n t : N) (x : bytes) (A : list (N * F)) :
  (size f <= N.to_nat t)%N -> xco_inj_below n ->
  good_shares verifyF n t x A -> combineF A = f.[0] * h x.
Proof.
move=> szf inj [len [nd fa]].
have [uq al] := good_conv nd fa.
rewrite /combineF; apply: comb_correct.
- move=> i j; rewrite -!map_comp => /mapP [p pin ->] /mapP [q qin ->] /=.
  by apply: inj; [case/andP: (allP al p pin)|case/andP: (allP al q qin)].
- by rewrite -map_comp.
- by rewrite size_map -(length_size A) -(Nat2N.id (length A)) len.
- rewrite all_map; apply/allP => p pin /=.
  by case/andP: (allP al p pin).
Qed.

(* hence combine does not depend on which t valid shares arrived first *)
Corollary combine_subset_independent (n t : N) :
  (size f <= N.to_nat t)%N -> xco_inj_below n -> subset_independent verifyF combineF n t.
Proof.
by move=> szf inj x A B gA gB; rewrite (good_combine szf inj gA) (good_combine szf inj gB).
Qed.

(* C01_key_correct: every key the model derives is f(0) * h x; it is the only solution k of
   the verification equation e(k, g) = e(H1 x, pk) with pk = f(0) * g, and it decrypts:
   for a ciphertext made with randomness r (C1 = r * g, mask e(H1 x, pk)^r) the decryptor's
   e(k, C1) equals the mask *)
Theorem key_correct (n t : N) (l : list (share F)) (x : bytes) (k : F) :
  (size f <= N.to_nat t)%N -> xco_inj_below n -> N.le 1 t -> senders_below n l ->
  key_of (run F verifyF combineF n t l) x = Some (Some k) ->
  k = f.[0] * h x /\
  (forall g k', g != 0 -> (k' * g == h x * (f.[0] * g)) = (k' == k)) /\
  (forall g r, k * (r * g) = (h x * (f.[0] * g)) * r).
Proof.
move=> szf inj t1 below hk.
have [-> good] := @key_is_combine_of_first_t F verifyF combineF n t l x k t1 below hk.
have e := good_combine szf inj good; split; first by [].
rewrite e; split.
  move=> g k' gnz; rewrite [h x * _]mulrA [h x * _]mulrC.
  by rewrite (inj_eq (mulIf gnz)).
by move=> g r; rewrite [f.[0] * h x]mulrC -!mulrA [g * r]mulrC.
Qed.

End Exponent.

(* ---- the hypotheses of key_correct are satisfiable: F = rat, f = X + 3 (threshold 2),
   n = 3, two valid shares and one junk share ---- *)
Import Num.Theory.
Section ExponentExample.
Definition exf : {poly rat} := 'X + 3%:R%:P.
Definition exh : bytes -> rat := fun _ => 1.
Definition exl : list (share rat) :=
  [:: mkShare Ex.A Ex.s0 (exf.[X _ Ex.s0] * exh Ex.A);
      mkShare Ex.A Ex.s1 0;
      mkShare Ex.A Ex.s2 (exf.[X _ Ex.s2] * exh Ex.A)].

Lemma example_key_correct :
  (size exf <= N.to_nat Ex.t)%N /\ xco_inj_below [fieldType of rat] Ex.n /\ N.le 1 Ex.t /\
  senders_below Ex.n exl /\
  exists k, key_of (run rat (verifyF exf exh) (@combineF _) Ex.n Ex.t exl) Ex.A = Some (Some k).
Proof.
split; first by rewrite /exf size_XaddC.
split; first by move=> i j _ _ /eqP; rewrite /xco eqr_nat => /eqP [].
split; first by [].
have below : senders_below Ex.n exl by repeat constructor.
split; first by [].
have t1 : N.le 1 Ex.t by [].
apply/(proj1 (@exactly_at_threshold rat (verifyF exf exh) (@combineF _) Ex.n Ex.t exl Ex.A t1 below)).
exists [:: Ex.s0; Ex.s2]; split; first by repeat constructor => /=; intuition discriminate.
split; first by [].
move=> s /= [<-|[<-|[]]].
- exists (mkShare Ex.A Ex.s0 (exf.[X _ Ex.s0] * exh Ex.A)); split; first by left.
  by rewrite /verifyF /= eqxx.
- exists (mkShare Ex.A Ex.s2 (exf.[X _ Ex.s2] * exh Ex.A)); split; first by right; right; left.
  by rewrite /verifyF /= eqxx.
Qed.
End ExponentExample.
