(* The exponent model of the DKG outcome (ssreflect / MathComp style, like
   Proofs/EpochKGAlgebra.v, whose [xco], [comb] and [comb_correct] it reuses).

   Idealisation (DESIGN.md section 3): G2 elements are their discrete logarithms in a field F
   times a generator g <> 0.  A commitment (Gammas) is its coefficient vector c : seq F
   (gamma_k = c_k * g), so that
     Gammas.Pi(x)                      = (Poly c).[x] * g
     VerifyPolyEval(i, v, c, t)        = (size c == t) && (v == (Poly c).[X i]),  X i = i + 1
     ComputeEonPublicKeyShare(i, cs)   = sum_j Pi_j(X i)      [pub_share]
     ComputeEonPublicKey(cs)           = sum_j Pi_j(0)        [eon_pk]
     ComputeEonSecretKeyShare(vs)      = sum_j v_j            [sk_of]
   with the zero commitment / zero evaluation standing in for disqualified dealers
   (None in the model's result vectors).  [share_rel] is what Proofs/DKGPure.v proves about a
   successful ComputeResult. *)
From Coq Require Import NArith List.
From mathcomp Require Import all_ssreflect all_algebra.
From Verif Require Import Lib.Bytes Lib.Lagrange Model.DKGPure Proofs.DKGPure Proofs.EpochKGAlgebra.
Set Implicit Arguments. Unset Strict Implicit. Unset Printing Implicit Defensive.
Import GRing.Theory.
Local Open Scope ring_scope.

Section DKGField.
Variable F : fieldType.
Variable t : nat.                       (* threshold *)

Definition f_verify (i : nat) (v : F) (c : seq F) : bool := (size c == t) && (v == (Poly c).[xco F i]).
Definition f_deg_ok (c : seq F) : bool := size c == t.

Definition opoly (o : option (seq F)) : {poly F} := if o is Some c then Poly c else 0.
Definition oval (o : option F) : F := if o is Some v then v else 0.

(* the polynomial the qualified dealers jointly dealt *)
Definition joint (cs : seq (option (seq F))) : {poly F} := \sum_(o <- cs) opoly o.
Definition sk_of (vs : seq (option F)) : F := \sum_(o <- vs) oval o.
Definition pub_share (g : F) (cs : seq (option (seq F))) (i : nat) : F := \sum_(o <- cs) (opoly o).[xco F i] * g.
Definition eon_pk (g : F) (cs : seq (option (seq F))) : F := \sum_(o <- cs) (opoly o).[0] * g.

Lemma pub_share_joint g cs i : pub_share g cs i = (joint cs).[xco F i] * g.
Proof. by rewrite /pub_share /joint horner_sum mulr_suml. Qed.

Lemma eon_pk_joint g cs : eon_pk g cs = (joint cs).[0] * g.
Proof. by rewrite /eon_pk /joint horner_sum mulr_suml. Qed.

Notation srel := (@share_rel (seq F) F f_verify).

Lemma share_rel_sk i cs vs : srel i cs vs -> sk_of vs = (joint cs).[xco F i].
Proof.
elim=> [|cs' vs' _ IH|c v cs' vs' ver _ IH].
- by rewrite /sk_of /joint !big_nil horner0.
- by rewrite /sk_of /joint !big_cons /= hornerD horner0 !add0r.
- rewrite /sk_of /joint !big_cons /= hornerD; congr (_ + _); last exact: IH.
  by case/andP: ver => _ /eqP.
Qed.

Lemma share_rel_size i cs vs : srel i cs vs -> (size (joint cs) <= t)%N.
Proof.
elim=> [|cs' vs' _ IH|c v cs' vs' ver _ IH].
- by rewrite /joint big_nil size_poly0.
- by rewrite /joint big_cons /= add0r.
- rewrite /joint big_cons /=; apply: leq_trans (size_add _ _) _.
  rewrite geq_max IH andbT.
  case/andP: ver => /eqP sz _; rewrite -sz; exact: size_Poly.
Qed.

(* C07_share_matches in the exponent model: sk_i * g is the i-th public key share *)
Theorem share_matches g i cs vs : srel i cs vs -> sk_of vs * g = pub_share g cs i.
Proof. by move=> sr; rewrite pub_share_joint (share_rel_sk sr). Qed.

(* C07_threshold_reconstructs: the epoch shares sk_i * H1(x) of any t successful keypers (same
   qualified vector, pairwise distinct x-coordinates) combine, with the Lagrange coefficients
   shcrypto computes, to the key joint(0) * H1(x); that key satisfies the verification equation
   against the eon public key joint(0) * g and decrypts *)
Theorem threshold_reconstructs (g hx : F) (cs : seq (option (seq F))) (parts : seq (nat * seq (option F))) :
  (0 < t)%N -> size parts = t ->
  {in [seq p.1 | p <- parts] &, injective (xco F)} -> uniq [seq p.1 | p <- parts] ->
  (forall p, p \in parts -> srel p.1 cs p.2) ->
  let key := comb [seq (p.1, sk_of p.2 * hx) | p <- parts] in
  key = (joint cs).[0] * hx /\
  (g != 0 -> forall k', (k' * g == hx * eon_pk g cs) = (k' == key)) /\
  (forall r, key * (r * g) = (hx * eon_pk g cs) * r).
Proof.
move=> t0 sz inj uq rel key.
have idx : [seq q.1 | q <- [seq (p.1, sk_of p.2 * hx) | p <- parts]] = [seq p.1 | p <- parts].
  by rewrite -map_comp; apply: eq_map.
have e : key = (joint cs).[0] * hx.
  apply: comb_correct.
  - by rewrite idx.
  - by rewrite idx.
  - rewrite size_map sz.
    case: parts sz rel {inj uq key idx} => [|p ps] sz rel; first by rewrite -sz in t0.
    by apply: (@share_rel_size p.1 cs p.2); apply: rel; rewrite inE eqxx.
  - rewrite all_map; apply/allP => p pin /=.
    by rewrite (share_rel_sk (rel p pin)).
split; first by [].
rewrite e eon_pk_joint; split.
  move=> gnz k'; rewrite [hx * _]mulrA [hx * _]mulrC.
  by rewrite (inj_eq (mulIf gnz)).
by move=> r; rewrite [(joint cs).[0] * hx]mulrC -!mulrA [g * r]mulrC.
Qed.

End DKGField.

(* ---- the hypotheses are satisfiable: F = rat, threshold 2, three dealers of which the last
   is disqualified, keypers 0 and 2 reconstruct ---- *)
Section DKGFieldExample.
Definition ex_c0 : seq rat := [:: 3%:R; 1].      (* 3 + X *)
Definition ex_c1 : seq rat := [:: 5%:R; 2%:R].   (* 5 + 2X *)
Definition ex_cs : seq (option (seq rat)) := [:: Some ex_c0; Some ex_c1; None].
Definition ex_vs (i : nat) : seq (option rat) :=
  [:: Some (Poly ex_c0).[xco [fieldType of rat] i]; Some (Poly ex_c1).[xco [fieldType of rat] i]; None].

Lemma example_share_rel i : @share_rel (seq rat) rat (@f_verify [fieldType of rat] 2) i ex_cs (ex_vs i).
Proof.
apply: sr_qual; first by rewrite /f_verify /= eqxx.
apply: sr_qual; first by rewrite /f_verify /= eqxx.
apply: sr_zero; exact: sr_nil.
Qed.

Lemma example_threshold_hyps :
  let parts := [:: (0%N, ex_vs 0); (2%N, ex_vs 2)] in
  (0 < 2)%N /\ size parts = 2%N /\
  {in [seq p.1 | p <- parts] &, injective (xco [fieldType of rat])} /\ uniq [seq p.1 | p <- parts] /\
  (forall p, p \in parts -> @share_rel (seq rat) rat (@f_verify [fieldType of rat] 2) p.1 ex_cs p.2).
Proof.
split; first by []. split; first by []. split.
  move=> i j _ _ /eqP. rewrite /xco. by rewrite Num.Theory.eqr_nat => /eqP [].
split; first by [].
move=> p; rewrite !inE => /orP [/eqP ->|/eqP ->]; exact: example_share_rel.
Qed.
End DKGFieldExample.
