(* GetSyncRanges (medley/syncranges.go): for maxRange > 0 and end + maxRange < 2^64 the loop
   terminates within the model's fuel, no uint64 operation wraps, and the result is a
   contiguous, gap-free cover of [start, end] (empty when start > end). *)
From Coq Require Import List NArith ZArith Bool Lia.
From Verif Require Import Lib.Bytes Model.Syncer.
Import ListNotations.
Open Scope Z_scope.

Lemma u64_small x : 0 <= x < two64 -> u64 x = x.
Proof. intros H. unfold u64. apply Z.mod_small. exact H. Qed.

Lemma sync_ranges_loop_spec e r : 0 < r -> e + r < two64 ->
  forall fuel i, 0 <= i ->
    (i <= e -> (Z.to_nat ((e - i) / r) + 2 <= fuel)%nat) -> (1 <= fuel)%nat ->
    exists rs, sync_ranges_loop fuel i e r = RangesDone rs /\ ranges_cover i e r rs.
Proof.
  intros Hr Hb. induction fuel as [|f IH]; intros i Hi Hfuel H1; [lia|].
  simpl. destruct (i <=? e) eqn:Hie.
  - apply Z.leb_le in Hie. specialize (Hfuel Hie).
    rewrite (u64_small (i + r - 1)) by lia.
    destruct (i + r - 1 >? e) eqn:Hen.
    + apply Z.gtb_lt in Hen. exists [(i, e)]. split; [reflexivity|].
      simpl. repeat split; try lia. intros H; congruence.
    + assert (Hle : i + r - 1 <= e) by (destruct (Z.gtb_spec (i + r - 1) e); [discriminate|lia]).
      rewrite (u64_small (i + r)) by lia.
      destruct (IH (i + r)) as (rs' & Heq & Hcov).
      * lia.
      * intros Hle2.
        assert (Hdiv : (e - i) / r = (e - (i + r)) / r + 1).
        { replace (e - i) with ((e - (i + r)) + 1 * r) by lia. rewrite Z.div_add by lia. reflexivity. }
        assert (0 <= (e - (i + r)) / r) by (apply Z.div_pos; lia).
        rewrite Hdiv in Hfuel. rewrite Z2Nat.inj_add in Hfuel by lia. simpl in Hfuel. lia.
      * assert (0 <= (e - i) / r) by (apply Z.div_pos; lia). lia.
      * rewrite Heq. exists ((i, i + r - 1) :: rs'). split; [reflexivity|].
        simpl. split; [reflexivity|]. split; [lia|]. split; [lia|]. split; [lia|].
        split; [|split].
        -- intros ->. simpl in Hcov. lia.
        -- intros _. lia.
        -- destruct rs' as [|p rs'']; [exact I|]. replace (i + r - 1 + 1) with (i + r) by lia. exact Hcov.
  - apply Z.leb_gt in Hie. exists []. split; [reflexivity|]. simpl. lia.
Qed.

Theorem sync_ranges_cover : forall s e r,
  0 <= s -> 0 < r -> e + r < two64 ->
  exists rs, get_sync_ranges s e r = RangesDone rs /\ ranges_cover s e r rs.
Proof.
  intros s e r Hs Hr Hb. unfold get_sync_ranges, sync_ranges_fuel.
  apply sync_ranges_loop_spec; try assumption; lia.
Qed.

(* consequences used by the syncer proofs *)
Lemma ranges_cover_nil_iff s e r rs : ranges_cover s e r rs -> (rs = [] <-> e < s).
Proof.
  destruct rs as [|[a b] rest]; simpl.
  - intros H. split; auto.
  - intros (-> & H1 & H2 & _). split; [discriminate|lia].
Qed.
