(* The decision logic of keyperimpl/gnosis/newslot.go, handlers.go and messagingmiddleware.go as
   translated statement by statement on this run (Generated/GnosisSlotFuns.v) computes what the
   hand-written model (Model/GnosisSlot.v) computes. The theorems of Proofs/GnosisSlot*.v
   therefore speak about the code as it is now; an edit of a comparison, a cast or the order of
   the steps breaks an obligation here before any case is generated.

   Proof style: the model's comparisons are first rewritten into the translator's vocabulary
   (only <? and <=?), then every atom is destructed, so that a harmless reordering of tests in
   the source does not break the proofs. *)
From Coq Require Import String.
From Coq Require Import List NArith ZArith Bool Lia.
From Verif Require Import Lib.Bytes Model.GnosisSlot Proofs.GnosisSlotSort Proofs.GnosisSlot
  Generated.GnosisSlotFuns.
Import ListNotations.
Open Scope Z_scope.

(* Decide an agreement by cases on the comparison atoms rather than by following one shape of
   the source: >? and >=? are rewritten into <? and <=?, every comparison in the goal is replaced
   by its specification, then both sides are concrete - equal unless the hypotheses contradict
   each other. Every step that could search is bounded by a timeout. *)
Ltac gs_norm_cmp := rewrite ?Z.gtb_ltb, ?Z.geb_leb.
Ltac gs_split_atoms :=
  repeat match goal with
         | |- context [Z.eqb ?a ?b] => destruct (Z.eqb_spec a b)
         | |- context [Z.ltb ?a ?b] => destruct (Z.ltb_spec a b)
         | |- context [Z.leb ?a ?b] => destruct (Z.leb_spec a b)
         end;
  cbn [negb andb orb].
Ltac gs_absurd := exfalso; timeout 30 lia.

(* ---------- casts ----------------------------------------------------------------------- *)

Lemma gen_to_int64_is x : gen_to_int64 x = to_i64 x.
Proof. unfold gen_to_int64, to_i64, two64, two63. reflexivity. Qed.

Lemma gen_to_int32_small x : 0 <= x <= max_i32 -> gen_to_int32 x = x.
Proof.
  unfold gen_to_int32, max_i32. intros H. rewrite Z.mod_small by lia.
  destruct (x <? 2147483648) eqn:E; [reflexivity|]. apply Z.ltb_ge in E. lia.
Qed.

Lemma to_i64_mod x : (to_i64 x) mod two64 = x mod two64.
Proof.
  unfold to_i64. cbv zeta. destruct (x mod two64 <? two63).
  - apply Z.mod_mod. unfold two64. lia.
  - replace (x mod two64 - two64) with (x mod two64 + (-1) * two64) by lia.
    rewrite Z_mod_plus_full. apply Z.mod_mod. unfold two64. lia.
Qed.

Lemma to_i64_congr a b : a mod two64 = b mod two64 -> to_i64 a = to_i64 b.
Proof. unfold to_i64. intros ->. reflexivity. Qed.

(* ---------- identities ------------------------------------------------------------------- *)

Lemma be_bytes_zero n : be_bytes n 0 = zeros n.
Proof.
  induction n as [|k IH]; simpl; [reflexivity|].
  rewrite Zdiv_0_l, IH. unfold zeros. symmetry. apply (repeat_cons k 0%N).
Qed.

Lemma be_bytes_app n m x : be_bytes (n + m) x = be_bytes n (x / 256 ^ Z.of_nat m) ++ be_bytes m x.
Proof.
  revert x. induction m as [|m IH]; intros x.
  - rewrite Nat.add_0_r. simpl. rewrite Z.div_1_r, app_nil_r. reflexivity.
  - rewrite Nat.add_succ_r. simpl be_bytes. rewrite IH, <- app_assoc.
    assert (Hp : 0 < 256 ^ Z.of_nat m) by (apply Z.pow_pos_nonneg; lia).
    replace (x / 256 / 256 ^ Z.of_nat m) with (x / 256 ^ Z.of_nat (S m)); [reflexivity|].
    rewrite Nat2Z.inj_succ, Z.pow_succ_r by lia. rewrite Z.div_div by lia. reflexivity.
Qed.

Lemma gen_slot_identity_agrees slot : 0 <= slot < two64 -> gen_slot_identity slot = slot_identity slot.
Proof.
  intros H. unfold gen_slot_identity, slot_identity. cbv zeta. rewrite app_nil_l.
  rewrite be_bytes_zero. f_equal.
  change 32%nat with (24 + 8)%nat. rewrite be_bytes_app.
  replace (slot / 256 ^ Z.of_nat 8) with 0 by (symmetry; apply Z.div_small; unfold two64 in H; simpl; lia).
  rewrite be_bytes_zero. reflexivity.
Qed.

Lemma gen_event_identity_agrees r : gen_event_identity r = event_identity r.
Proof.
  unfold gen_event_identity, event_identity. destruct (decode_address (q_sender r)); reflexivity.
Qed.

(* the comparator: less(y, x) is "not x <= y" in the order of bytes.Compare *)
Lemma gen_identity_less_is a b : gen_identity_less a b = bytes_ltb a b.
Proof. unfold gen_identity_less, bytes_ltb. destruct (bytes_cmp a b); reflexivity. Qed.

Lemma gen_identity_less_leb y x : gen_identity_less y x = negb (bytes_leb x y).
Proof.
  unfold gen_identity_less, bytes_leb. rewrite (bytes_cmp_antisym x y).
  destruct (bytes_cmp x y); reflexivity.
Qed.

Lemma gen_insert_identity_is x l : gen_insert_identity x l = insert_by bytes_leb x l.
Proof.
  induction l as [|y r IH]; simpl; [reflexivity|].
  rewrite gen_identity_less_leb, IH. destruct (bytes_leb x y); reflexivity.
Qed.

Lemma gen_sort_identities_agrees l : gen_sort_identities l = sort_ids l.
Proof.
  unfold gen_sort_identities, sort_ids. induction l as [|x t IH]; simpl; [reflexivity|].
  rewrite IH. apply gen_insert_identity_is.
Qed.

(* the selection loop: the model's boolean [taken] is `len(identityPreimages) > 1`, the model's
   result is what the loop appends *)
Lemma gen_sel_loop_agrees L evs : forall gas pre,
  (1 <= length pre)%nat ->
  gen_sel_loop L gas pre evs =
  option_map (fun l => pre ++ l) (sel_loop L gas (1 <? Z.of_nat (length pre)) evs).
Proof.
  induction evs as [|r t IH]; intros gas pre Hpre; simpl.
  - rewrite app_nil_r. reflexivity.
  - unfold u64, two64. gs_norm_cmp.
    set (acc := (gas + q_gas r mod 18446744073709551616) mod 18446744073709551616).
    rewrite gen_event_identity_agrees.
    assert (Hlen : forall i, (1 <? Z.of_nat (length (pre ++ [i]))) = true).
    { intros i. apply Z.ltb_lt. rewrite app_length. simpl. timeout 30 lia. }
    assert (Hpl : 1 <= Z.of_nat (length pre)) by (timeout 30 lia).
    destruct (event_identity r) as [i|].
    + rewrite IH by (rewrite app_length; simpl; timeout 30 lia). rewrite Hlen.
      destruct (sel_loop L acc true t) as [is|]; gs_split_atoms;
        cbn [option_map]; rewrite ?app_nil_r, <- ?app_assoc; try reflexivity; gs_absurd.
    + gs_split_atoms; cbn [option_map]; rewrite ?app_nil_r; try reflexivity; gs_absurd.
Qed.

Definition result_of (r : ids_result) : gen_result :=
  match r with
  | IdsOk ids => GenOk ids
  | IdsErr EGasLimitTooBig => GenErr 1
  | IdsErr ESelect => GenErr 2
  | IdsErr ESender => GenErr 3
  | IdsErr _ => GenFail
  | IdsPanic => GenFail
  end.

(* getDecryptionIdentityPreimages as a whole; the division by a zero MinGasPerTransaction (a
   panic in Go, IdsPanic in the model) is excluded, Z.quot and Z.div agree on the uint64 range *)
Lemma gen_identities_agrees cfg q slot e p :
  0 <= cfg_gas_limit cfg -> 0 < cfg_min_gas cfg -> 0 <= slot < two64 ->
  gen_identities (cfg_gas_limit cfg) (cfg_min_gas cfg) (select_events q) slot e p =
  result_of (identities cfg q slot e p).
Proof.
  intros HL Hmg Hslot. unfold gen_identities, identities, identities_unsorted. cbv zeta.
  destruct (cfg_min_gas cfg =? 0) eqn:E0; [apply Z.eqb_eq in E0; lia|].
  rewrite (Z.quot_div_nonneg _ _ HL Hmg).
  pose proof (row_limit_nonneg cfg) as Hnn.
  unfold row_limit, u64, two64, max_i32 in *.
  set (lim := (cfg_gas_limit cfg / cfg_min_gas cfg + 1) mod 18446744073709551616) in *.
  gs_norm_cmp.
  (* the model's test first, then whatever comparison the source makes of it *)
  destruct (Z.ltb_spec 2147483647 lim) as [E1|E1];
    [gs_split_atoms; try reflexivity; gs_absurd|].
  assert (Hgo : forall (a b : gen_result) (c : bool), c = false -> (if c then a else b) = b)
    by (intros a b c ->; reflexivity).
  try (rewrite Hgo by (gs_split_atoms; try reflexivity; gs_absurd)).
  rewrite gen_to_int32_small by (unfold max_i32; lia).
  destruct (select_events q e p lim) as [evs|]; [|reflexivity].
  rewrite Zmod_0_l.
  rewrite gen_sel_loop_agrees by (simpl; lia). simpl length.
  replace (1 <? Z.of_nat 1) with false by reflexivity.
  rewrite (gen_slot_identity_agrees slot Hslot).
  destruct (sel_loop (cfg_gas_limit cfg) 0 false evs) as [ids|]; cbn [option_map app result_of]; [|reflexivity].
  rewrite gen_sort_identities_agrees. reflexivity.
Qed.

Lemma gen_identities_errors_ok :
  gen_identities_errors =
  ["gas limit too big"%string; "failed to query transaction submitted events from index %d"%string; ""%string].
Proof. reflexivity. Qed.

(* ---------- getTxPointer ------------------------------------------------------------------ *)

Definition row_value (r : option prow) : Z := match r with Some x => p_value x | None => 0 end.
(* sql.NullInt64: Int64 is 0 when the column is NULL *)
Definition row_age (r : option prow) : Z :=
  match r with Some x => match p_age x with Some a => a | None => 0 end | None => 0 end.
Definition row_age_valid (r : option prow) : bool :=
  match r with Some x => match p_age x with Some _ => true | None => false end | None => false end.
Definition row_missing (r : option prow) : bool := match r with Some _ => false | None => true end.

Lemma gen_get_tx_pointer_agrees maxage q ptrs e :
  let row := get_ptr ptrs e in
  gen_get_tx_pointer e maxage (row_missing row) false (row_value row) (row_age row) (row_age_valid row) false
                     (queue_length q e)
  = match snd (get_tx_pointer maxage q ptrs e) with
    | None => None
    | Some p => Some (p, if row_missing row then [(e, 0, true, 0)] else [])
    end
  /\ fst (get_tx_pointer maxage q ptrs e) = (if row_missing row then set_ptr ptrs e 0 (Some 0) else ptrs).
Proof.
  cbv zeta. unfold gen_get_tx_pointer, get_tx_pointer, outdated.
  destruct (get_ptr ptrs e) as [r|];
    cbn [row_missing row_value row_age row_age_valid];
    [|cbn; split; timeout 30 reflexivity].
  (* by cases on the age column and on every comparison atom of either side; the count query is
     consulted lazily on both sides *)
  destruct (p_age r) as [a|]; cbn [negb]; gs_norm_cmp; gs_split_atoms;
    cbn [fst snd app]; try gs_absurd;
    destruct (queue_length q e); cbn [fst snd]; split; timeout 30 reflexivity.
Qed.

(* a database error of GetTxPointer or SetTxPointer is an error return *)
Lemma gen_get_tx_pointer_db_errors e maxage v a valid cnt :
  gen_get_tx_pointer e maxage false true v a valid false cnt = None /\
  gen_get_tx_pointer e maxage true false v a valid true cnt = None.
Proof. split; reflexivity. Qed.

(* ---------- maybeTriggerDecryption -------------------------------------------------------- *)

Lemma gen_next_block_agrees sb : 0 <= sb -> sb + 1 < two63 -> gen_next_block sb = sb + 1.
Proof. intros H1 H2. unfold gen_next_block. rewrite gen_to_int64_is. apply to_i64_small. lia. Qed.

(* the model's new_slot, written with the translated guards *)
Lemma new_slot_via_generated cfg st slot pr :
  (forall ss sb, st_synced st = Some (ss, sb) -> 0 <= sb /\ sb + 1 < two63) ->
  new_slot cfg st slot pr =
  if gen_slot_seen (st_latest st) slot then (st, ONil)
  else
    let st1 := with_latest st (Some slot) in
    let '(sslot, sblock) := match st_synced st with Some x => x | None => (0, 0) end in
    if gen_slot_already_synced sslot slot then (st1, OErr EAlreadyProcessed)
    else
      let next := gen_next_block sblock in
      match kset_for_block (st_ksets st) next with
      | None => (st1, ONil)
      | Some ks =>
          if negb (k_member ks) then (st1, ONil)
          else match pr with
               | PError => (st1, OErr EProposer)
               | PNotRegistered => (st1, ONil)
               | PRegistered =>
                   match increment_age (st_ptrs st) (k_kci ks) with
                   | None => (st1, OErr EIncrementAge)
                   | Some ptrs => trigger_decryption cfg (with_ptrs st1 ptrs) slot next (k_kci ks)
                   end
               end
      end.
Proof.
  intros Hs. unfold new_slot, gen_slot_seen, gen_slot_already_synced.
  assert (Hseen : match st_latest st with Some l => slot <=? l | None => false end
                  = match st_latest st with Some latest_slot => slot <=? latest_slot | None => false end)
    by reflexivity.
  destruct (match st_latest st with Some l => slot <=? l | None => false end); [reflexivity|].
  simpl st_synced. simpl st_ksets. simpl st_ptrs.
  assert (Hn : forall ss sb, (match st_synced st with Some x => x | None => (0, 0) end) = (ss, sb) ->
                             gen_next_block sb = sb + 1).
  { intros ss sb E. destruct (st_synced st) as [[a b]|] eqn:Ey.
    - injection E as <- <-. destruct (Hs _ _ eq_refl). apply gen_next_block_agrees; assumption.
    - injection E as <- <-. reflexivity. }
  destruct (match st_synced st with Some x => x | None => (0, 0) end) as [sslot sblock] eqn:Ep.
  rewrite (Hn _ _ eq_refl). rewrite Z.geb_leb. unfold gen_to_int64, to_i64, two64, two63. reflexivity.
Qed.

Lemma gen_maybe_trigger_calls_ok :
  gen_maybe_trigger_calls =
  ["GetTransactionSubmittedEventsSyncedUntil()"%string;
   "GetKeyperSet(nextBlock)"%string;
   "Contains(kpr.config.GetAddress())"%string;
   "isProposerRegistered(slot, uint64(nextBlock))"%string;
   "IncrementTxPointerAge(keyperSet.KeyperConfigIndex)"%string;
   "triggerDecryption(slot, nextBlock, &keyperSet)"%string].
Proof. reflexivity. Qed.

(* triggerDecryption: the eon of the block gives the index for getTxPointer and the trigger row,
   the keyper set's index selects the queue; slot and pointer go into the trigger row, the
   block number and the identities into the trigger (as trigger_decryption has it) *)
Lemma gen_trigger_calls_ok :
  gen_trigger_calls =
  ["GetEonForBlockNumber(nextBlock)"%string;
   "getTxPointer(kpr.dbpool, keyperConfigIndex, int64(kpr.config.Gnosis.MaxTxPointerAge))"%string;
   "getDecryptionIdentityPreimages(slot, keyperSet.KeyperConfigIndex, txPointer)"%string;
   "SetCurrentDecryptionTrigger(gnosisdatabase.SetCurrentDecryptionTriggerParams{Eon: keyperConfigIndex, Slot: int64(slot), TxPointer: txPointer, IdentitiesHash: computeIdentitiesHash(identityPreimages)})"%string;
   "computeIdentitiesHash(identityPreimages)"%string] /\
  gen_trigger_kci = "eonStruct.KeyperConfigIndex"%string /\
  gen_trigger_literal =
  "epochkghandler.DecryptionTrigger{BlockNumber: uint64(nextBlock), IdentityPreimages: identityPreimages}"%string.
Proof. repeat split; reflexivity. Qed.

(* ---------- the pointer after a keys message ----------------------------------------------- *)

(* int64 arithmetic wraps at every step in Go, once at the end in the model: the same value *)
Lemma to_i64_eq x : exists k, to_i64 x = x + k * two64.
Proof.
  unfold to_i64, two64, two63. cbv zeta.
  pose proof (Z_div_mod_eq_full x 18446744073709551616) as H.
  destruct (x mod 18446744073709551616 <? 9223372036854775808);
    [exists (- (x / 18446744073709551616))|exists (- (x / 18446744073709551616) - 1)]; lia.
Qed.

Lemma gen_new_pointer_agrees txp nkeys :
  gen_to_int64 (gen_to_int64 (gen_to_int64 txp + gen_to_int64 nkeys) - 1) = new_pointer txp nkeys.
Proof.
  rewrite (gen_to_int64_is (gen_to_int64 (gen_to_int64 txp + gen_to_int64 nkeys) - 1)).
  rewrite (gen_to_int64_is (gen_to_int64 txp + gen_to_int64 nkeys)).
  rewrite (gen_to_int64_is txp), (gen_to_int64_is nkeys).
  unfold new_pointer. apply to_i64_congr.
  destruct (to_i64_eq nkeys) as [k1 E1].
  destruct (to_i64_eq (to_i64 txp + to_i64 nkeys)) as [k2 E2].
  rewrite E2, E1.
  replace (to_i64 txp + (nkeys + k1 * two64) + k2 * two64 - 1)
    with (to_i64 txp + nkeys - 1 + (k1 + k2) * two64) by ring.
  apply Z_mod_plus_full.
Qed.

Lemma gen_handler_set_pointer_agrees eon txp nkeys :
  gen_handler_set_pointer eon txp nkeys = (to_i64 eon, 0, true, new_pointer txp nkeys).
Proof.
  unfold gen_handler_set_pointer. cbv zeta. rewrite gen_new_pointer_agrees.
  unfold gen_to_int64, to_i64, two64, two63. reflexivity.
Qed.

Lemma gen_middleware_set_pointer_agrees eon txp nkeys :
  gen_middleware_set_pointer eon txp nkeys = (to_i64 eon, 0, true, new_pointer txp nkeys).
Proof.
  unfold gen_middleware_set_pointer. cbv zeta. rewrite gen_new_pointer_agrees.
  unfold gen_to_int64, to_i64, two64, two63. reflexivity.
Qed.

(* what the model does with those parameters: HandleMessage ... *)
Lemma keys_received_writes st eon slot txp ids signers nsigs :
  st_ptrs (fst (keys_received st eon slot txp ids signers nsigs)) =
  let '(e, age, valid, v) := gen_handler_set_pointer eon txp (Z.of_nat (length ids)) in
  set_ptr (st_ptrs st) e v (if valid then Some age else None).
Proof.
  rewrite gen_handler_set_pointer_agrees. unfold keys_received.
  destruct (insert_signer_sigs (st_sigs st) (to_i64 eon) (to_i64 slot) (to_i64 txp) (concat ids) signers 0 nsigs) as [sg r].
  destruct r; reflexivity.
Qed.

(* ... and the middleware when the message carries its extra data *)
Lemma keys_sent_writes st eon nkeys slot txp signers :
  st_ptrs (fst (keys_sent st eon nkeys (Some (slot, txp, signers)))) =
  let '(e, age, valid, v) := gen_middleware_set_pointer eon txp nkeys in
  set_ptr (st_ptrs st) e v (if valid then Some age else None).
Proof. rewrite gen_middleware_set_pointer_agrees. reflexivity. Qed.
