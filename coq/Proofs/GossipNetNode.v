(* C03 - one node: its share table only grows, every stored row and key is valid, and whenever an
   accepted key-shares message is handled while the table holds valid shares of t distinct
   keypers for every identity of the message, the correct keys are stored - and stay. Uses the
   theorems of C01 (Proofs/EpochKGHandler.v, Proofs/EpochKG.v). *)
From Coq Require Import List NArith ZArith Bool Lia Permutation.
From Verif Require Import Lib.Bytes Lib.Assoc Model.EpochKG Model.EpochKGLabels Model.EpochKGHandler Model.KeysSig
     Model.Gossip Model.GossipMisc Model.GossipNet
     Proofs.EpochKG Proofs.EpochKGHandler Proofs.EpochKGExamples Proofs.Gossip Proofs.GossipTotal Proofs.GossipHandle Proofs.GossipNet.
Import ListNotations.

Section Node.
  Variable sb : N -> N -> bytes -> bytes.
  Variable kb : N -> bytes -> bytes.
  Variable classify : bytes -> lbl.
  Variable c : cfg.
  Hypothesis t_pos : (1 <= cf_t c)%N.
  Hypothesis n_small : (cf_n c < 2 ^ 63)%N.

  Notation kci := (cf_kci c).
  Notation n := (cf_n c).
  Notation t := (cf_t c).

  (* the table holds a valid share of keyper s for identity x (for the network's eon) *)
  Definition holds (st : cstate) (x : bytes) (s : N) : Prop :=
    exists r, In r (c_shares st) /\ r_eon r = kci /\ r_ident r = x /\ u64_of_i64 (r_kidx r) = s /\
              exists lb, kv_lbl (r_share r) = Some lb /\ verify_share 0 s x lb = true.

  (* valid shares of at least t distinct keypers for every identity of ids *)
  Definition complete (tbl : cstate) (ids : list bytes) : Prop :=
    exists S, NoDup S /\ (t <= N.of_nat (length S))%N /\ forall x s, In x ids -> In s S -> holds tbl x s.

  (* the correct key of x is stored *)
  Definition key_ok (st : cstate) (x : bytes) : Prop := stored_key (c_keys st) kci x = Some (kb 0 x).

  Definition row_valid (r : share_row kv) : Prop :=
    r_eon r = kci -> exists lb, kv_lbl (r_share r) = Some lb /\
                                verify_share 0 (u64_of_i64 (r_kidx r)) (r_ident r) lb = true.

  Definition keyrow_valid (k : Z * bytes * bytes) : Prop :=
    match k with (e, x, b) => e = kci -> b = kb 0 x end.

  Definition Inv (st : cstate) : Prop :=
    knows c st /\ rows_below n (c_shares st) /\ Forall row_valid (c_shares st) /\ Forall keyrow_valid (c_keys st).

  (* a keys message whose key labels and bytes agree (the labels are what the bytes are) *)
  Definition keys_consistent (m : keys_msg) : Prop :=
    Forall (fun p => forall e y, kv_lbl (snd p) = Some (LKey e y) -> kv_bytes (snd p) = kb e y) (km_keys m).

  (* an event the node really performs in state st: a trigger for the network's eon, an accepted
     key-shares / keys message of that eon *)
  Definition ok_event (st : cstate) (e : nev) : Prop :=
    match e with
    | NevOwn eon_id kci' _ => eon_id = cf_eon c /\ kci' = kci
    | NevShares o m => validate_shares st m = GAccept /\ perm_oracle o /\ s_eon m = Z.to_N kci
    | NevKeys m => validate_keys st m = GAccept /\ keys_consistent m /\ km_eon m = Z.to_N kci
    end.

  Fixpoint ok_run (st : cstate) (evs : list nev) : Prop :=
    match evs with
    | [] => True
    | e :: r => ok_event st e /\ ok_run (apply_nev sb kb classify st e) r
    end.

  (* ----------------------------------------------------------------------------------- *)
  (* small facts *)

  Lemma kci_range : knows c = knows c -> True. Proof. trivial. Qed.

  Lemma i64_of_kci st : knows c st -> i64_of_u64 (Z.to_N kci) = kci.
  Proof.
    intros [_ [_ [_ [Hk _]]]]. rewrite i64_small; [lia|]. unfold max_int64. lia.
  Qed.

  Lemma stored_key_in tbl eon x b : stored_key tbl eon x = Some b -> In (eon, x, b) tbl.
  Proof.
    induction tbl as [|[[e y] k] r IH]; simpl; [discriminate|].
    destruct ((e =? eon)%Z && bytes_eqb y x) eqn:E.
    - apply andb_true_iff in E. destruct E as [E1 E2]. apply Z.eqb_eq in E1. apply bytes_eqb_eq in E2. subst.
      intros [= <-]. left. reflexivity.
    - intros H. right. apply IH. exact H.
  Qed.

  Lemma stored_key_app_l tbl tbl' eon x b : stored_key tbl eon x = Some b -> stored_key (tbl ++ tbl') eon x = Some b.
  Proof.
    induction tbl as [|[[e y] k] r IH]; simpl; [discriminate|].
    destruct ((e =? eon)%Z && bytes_eqb y x); [trivial | exact IH].
  Qed.

  Lemma stored_key_app_r tbl tbl' eon x : stored_key tbl eon x = None -> stored_key (tbl ++ tbl') eon x = stored_key tbl' eon x.
  Proof.
    induction tbl as [|[[e y] k] r IH]; simpl; [reflexivity|].
    destruct ((e =? eon)%Z && bytes_eqb y x); [discriminate | exact IH].
  Qed.

  Lemma key_ok_of_valid st x b : Forall keyrow_valid (c_keys st) -> stored_key (c_keys st) kci x = Some b -> key_ok st x.
  Proof.
    intros Hv Hs. unfold key_ok. rewrite Hs. f_equal.
    apply stored_key_in in Hs. rewrite Forall_forall in Hv. apply (Hv _ Hs). reflexivity.
  Qed.

  (* ----------------------------------------------------------------------------------- *)
  (* inserting share rows *)

  Lemma insert_share_incl (tbl : list (share_row kv)) r a : In a tbl -> In a (insert_share tbl r).
  Proof. intros H. unfold insert_share. destruct (existsb _ _); [exact H | apply in_or_app; left; exact H]. Qed.

  Lemma insert_share_forall (P : share_row kv -> Prop) tbl r : Forall P tbl -> P r -> Forall P (insert_share tbl r).
  Proof.
    intros Ht Hr. unfold insert_share. destruct (existsb _ _); [exact Ht|].
    apply Forall_app. split; [exact Ht | constructor; [exact Hr | constructor]].
  Qed.

  (* after inserting (eon, x, k, v) the table has a row with that primary key *)
  Lemma insert_share_has (tbl : list (share_row kv)) r :
    exists a, In a (insert_share tbl r) /\ r_eon a = r_eon r /\ r_ident a = r_ident r /\ r_kidx a = r_kidx r.
  Proof.
    unfold insert_share. destruct (existsb (same_share_pk kv r) tbl) eqn:E.
    - apply existsb_exists in E. destruct E as [a [Ha Hpk]]. exists a. split; [exact Ha|].
      unfold same_share_pk in Hpk. apply andb_true_iff in Hpk. destruct Hpk as [Hpk H3]. apply andb_true_iff in Hpk. destruct Hpk as [H1 H2].
      apply Z.eqb_eq in H1, H3. apply bytes_eqb_eq in H2. repeat split; congruence.
    - exists r. split; [apply in_or_app; right; left; reflexivity | repeat split].
  Qed.

  Definition rows_of (eon kidx : Z) (shares : list (bytes * kv)) (tbl : list (share_row kv)) :=
    fold_left (fun tb s => insert_share tb (mkShareRow eon (fst s) kidx (snd s))) shares tbl.

  Lemma rows_of_incl eon kidx shares : forall tbl a, In a tbl -> In a (rows_of eon kidx shares tbl).
  Proof.
    induction shares as [|s r IH]; intros tbl a H; simpl; [exact H|]. apply IH. apply insert_share_incl. exact H.
  Qed.

  Lemma rows_of_forall (P : share_row kv -> Prop) eon kidx shares : forall tbl,
    Forall P tbl -> Forall (fun s => P (mkShareRow eon (fst s) kidx (snd s))) shares -> Forall P (rows_of eon kidx shares tbl).
  Proof.
    induction shares as [|s r IH]; intros tbl Ht Hs; simpl; [exact Ht|].
    inversion Hs; subst. apply IH; [apply insert_share_forall; assumption | assumption].
  Qed.

  Lemma rows_of_has eon kidx shares : forall tbl s, In s shares ->
    exists a, In a (rows_of eon kidx shares tbl) /\ r_eon a = eon /\ r_ident a = fst s /\ r_kidx a = kidx.
  Proof.
    induction shares as [|s0 r IH]; intros tbl s Hin; [destruct Hin|]. simpl.
    destruct Hin as [->|Hin]; [|apply IH; exact Hin].
    destruct (insert_share_has tbl (mkShareRow eon (fst s) kidx (snd s))) as [a [Ha [H1 [H2 H3]]]].
    exists a. split; [apply rows_of_incl; exact Ha | simpl in *; auto].
  Qed.

  Lemma holds_mono st st' x s :
    (forall a, In a (c_shares st) -> In a (c_shares st')) -> holds st x s -> holds st' x s.
  Proof. intros Hi [r [Hr H]]. exists r. split; [apply Hi; exact Hr | exact H]. Qed.

  Lemma complete_mono st st' ids :
    (forall a, In a (c_shares st) -> In a (c_shares st')) -> complete st ids -> complete st' ids.
  Proof.
    intros Hi [S [Hn [Hl Hh]]]. exists S. split; [exact Hn|]. split; [exact Hl|].
    intros x s Hx Hs. eapply holds_mono; [exact Hi | apply Hh; assumption].
  Qed.

  (* ----------------------------------------------------------------------------------- *)
  (* what acceptance of a key-shares message says *)

  Lemma accepted_shares_facts st m :
    knows c st -> validate_shares st m = GAccept -> s_eon m = Z.to_N kci ->
    (s_kidx m < n)%N /\
    Forall (fun p => exists lb, kv_lbl (snd p) = Some lb /\ verify_share 0 (s_kidx m) (fst p) lb = true) (s_shares m).
  Proof.
    intros Hk Ha He. pose proof Hk as [_ [_ [_ [Hr [_ [_ [Hd _]]]]]]].
    unfold validate_shares in Ha.
    destruct (validate_prelude st (s_inst m) (s_eon m) (length (s_shares m))) as [r|ks n0] eqn:Ep; [discriminate|].
    assert (ks = 0%N /\ n0 = n) as [-> ->].
    { unfold validate_prelude in Ep.
      destruct (negb _); [discriminate|]. destruct (_ <? _)%N; [discriminate|].
      destruct (zlookup _ _); [|discriminate]. destruct (negb _); [discriminate|].
      rewrite He in Ep. replace (Z.of_N (Z.to_N kci)) with kci in Ep by lia. rewrite Hd in Ep.
      destruct (_ =? _)%nat; [discriminate|]. destruct (_ <? _)%Z; [discriminate|]. injection Ep as <- <-. split; reflexivity. }
    unfold check_key_shares in Ha. destruct (n <=? s_kidx m)%N eqn:Er; [discriminate|]. apply N.leb_gt in Er.
    split; [exact Er|]. apply shares_loop_iff in Ha. apply Ha.
  Qed.

  (* the share table after the handler's inserts *)
  Lemma handler_rows st m canon eon :
    insert_share_rows (hdb st canon eon) (hmsg m) =
    rows_of (i64_of_u64 (s_eon m)) (i64_of_u64 (s_kidx m)) (s_shares m) (c_shares st).
  Proof. reflexivity. Qed.

  (* ----------------------------------------------------------------------------------- *)
  (* inserting key rows *)

  Lemma insert_key_rows_spec eon (ks : list (bytes * lbl)) : forall tbl : list (key_row lbl),
    exists news, insert_key_rows tbl eon ks = tbl ++ news /\
                 Forall (fun r => EpochKGHandler.k_eon r = eon /\ In (k_ident r, k_key r) ks) news /\
                 forall x k, In (x, k) ks -> exists_key (tbl ++ news) eon x = true.
  Proof.
    induction ks as [|[x k] r IH]; intros tbl; simpl.
    - exists []. rewrite app_nil_r. split; [reflexivity|]. split; [constructor | intros x k []].
    - unfold insert_key at 1. simpl.
      destruct (exists_key tbl eon x) eqn:E.
      + destruct (IH tbl) as [news [H1 [H2 H3]]]. exists news. split; [exact H1|]. split.
        * eapply Forall_impl; [|exact H2]. intros a [Ha Hb]. split; [exact Ha | right; exact Hb].
        * intros y k' [Hy|Hy]; [|eapply H3; exact Hy]. injection Hy as <- <-.
          unfold exists_key in *. rewrite existsb_app, E. reflexivity.
      + destruct (IH (tbl ++ [mkKeyRow eon x k])) as [news [H1 [H2 H3]]].
        exists (mkKeyRow eon x k :: news). rewrite H1, <- app_assoc. split; [reflexivity|]. split.
        * constructor; [simpl; split; [reflexivity | left; reflexivity]|].
          eapply Forall_impl; [|exact H2]. intros a [Ha Hb]. split; [exact Ha | right; exact Hb].
        * intros y k' [Hy|Hy].
          -- injection Hy as <- <-. unfold exists_key. rewrite !existsb_app. simpl. rewrite Z.eqb_refl, bytes_eqb_refl. simpl.
             rewrite orb_true_r. reflexivity.
          -- specialize (H3 y k' Hy). rewrite <- app_assoc in H3. exact H3.
  Qed.

  (* ----------------------------------------------------------------------------------- *)
  (* the shape of DecryptionKeyShareHandler.HandleMessage's effect *)

  Lemma handle_message_shape verify (o : oracle kv) (d : db lbl kv) (m : msg kv) :
    exists out ktbl,
      handle_message lbl kv verify combine_l kv_lbl o d m = (mkDb (insert_share_rows d m) ktbl (dkg_tbl d), out) /\
      match out with
      | HKeys ks => ktbl = insert_key_rows (key_tbl d) (i64_of_u64 (EpochKGHandler.m_eon m)) ks
      | _ => ktbl = key_tbl d
      end.
  Proof.
    unfold handle_message.
    destruct (_ >? _)%Z; [eexists _, _; split; [reflexivity | reflexivity]|].
    destruct (forallb _ _); [eexists _, _; split; [reflexivity | reflexivity]|].
    destruct (dkg_lookup _ _) as [[| |n0 t0]|]; try (eexists _, _; split; [reflexivity | reflexivity]).
    destruct (aggregate_loop _ _ _ _ _ _ _ _ _ _ _ _ _); eexists _, _; (split; [reflexivity | reflexivity]).
  Qed.

  Lemma skipn_exact {A} (l l' : list A) : skipn (length l) (l ++ l') = l'.
  Proof. induction l as [|a r IH]; simpl; [reflexivity | exact IH]. Qed.

  Lemma hkey_rows_length st canon : length (hkey_rows st canon) = length (c_keys st).
  Proof. unfold hkey_rows. apply map_length. Qed.

  Lemma exists_key_hkey st canon eon x :
    exists_key (hkey_rows st canon) eon x = true -> exists b, stored_key (c_keys st) eon x = Some b.
  Proof.
    unfold exists_key, hkey_rows. induction (c_keys st) as [|[[e y] k] r IH]; simpl; [discriminate|].
    destruct ((e =? eon)%Z && bytes_eqb y x); [intros _; eexists; reflexivity | exact IH].
  Qed.

  Lemma stored_key_none_hkey st canon eon x :
    stored_key (c_keys st) eon x = None -> exists_key (hkey_rows st canon) eon x = false.
  Proof.
    intros H. destruct (exists_key (hkey_rows st canon) eon x) eqn:E; [|reflexivity].
    apply exists_key_hkey in E. destruct E as [b Hb]. congruence.
  Qed.

  Lemma hkeyset_zero st : knows c st -> hkeyset st kci = 0%N.
  Proof. intros [_ [_ [_ [_ [_ [_ [Hd _]]]]]]]. unfold hkeyset. rewrite Hd. reflexivity. Qed.

  Lemma hdkg_rows_known st : knows c st -> hdkg_rows st kci = [(kci, DkgResult n t)].
  Proof. intros [_ [_ [_ [_ [_ [_ [Hd _]]]]]]]. unfold hdkg_rows. rewrite Hd. reflexivity. Qed.

  (* holding valid shares of t distinct keypers, in the vocabulary of C01 *)
  Lemma complete_has_valid (tbl : list (share_row kv)) st ids :
    c_shares st = tbl -> complete st ids ->
    forall x, In x ids -> has_valid_from verify_l x (table_shares kv_lbl tbl kci x) t.
  Proof.
    intros Ht [S [Hn [Hl Hh]]] x Hx. exists S. split; [exact Hn|]. split; [exact Hl|].
    intros s Hs. destruct (Hh x s Hx Hs) as [r [Hr [He [Hi [Hk [lb [Hlb Hv]]]]]]].
    exists (mkShare x s lb). split; [|split; [reflexivity | split; [reflexivity | exact Hv]]].
    unfold table_shares, shares_of. apply in_flat_map. exists r. split.
    - unfold select_shares. apply filter_In. split; [rewrite <- Ht; exact Hr|].
      rewrite He, Hi, Z.eqb_refl, bytes_eqb_refl. reflexivity.
    - unfold row_share. rewrite Hlb, Hi, Hk. left. reflexivity.
  Qed.

  Lemma rows_below_rows_of eon kidx shares (tbl : list (share_row kv)) :
    rows_below n tbl -> (u64_of_i64 kidx < n)%N -> rows_below n (rows_of eon kidx shares tbl).
  Proof.
    intros Hb Hk. unfold rows_below. apply rows_of_forall; [exact Hb|].
    apply Forall_forall. intros s _. simpl. exact Hk.
  Qed.

  Lemma u64_i64_kidx k : (k < n)%N -> u64_of_i64 (i64_of_u64 k) = k.
  Proof. intros H. apply u64_of_i64_of_u64. lia. Qed.

  (* ----------------------------------------------------------------------------------- *)
  (* handling an accepted key-shares message *)

  (* HandleMessage evaluated on a state satisfying the invariant, for an accepted message *)
  Lemma hm_eval st o m :
    knows c st -> rows_below n (c_shares st) -> perm_oracle o -> s_eon m = Z.to_N kci -> (s_kidx m < n)%N ->
    let d := hdb st classify kci in
    let tbl := rows_of kci (i64_of_u64 (s_kidx m)) (s_shares m) (c_shares st) in
    handle_message lbl kv verify_l combine_l kv_lbl o d (hmsg m) =
    if forallb (fun s : bytes * kv => exists_key (key_tbl d) kci (fst s)) (s_shares m)
    then (mkDb tbl (key_tbl d) (dkg_tbl d), HNone)
    else if forallb (fun s : bytes * kv => enough lbl kv verify_l kv_lbl t tbl kci (fst s)) (s_shares m)
         then let ks := map (fun s : bytes * kv => (fst s, table_key lbl kv verify_l combine_l kv_lbl t tbl kci (fst s))) (s_shares m) in
              (mkDb tbl (insert_key_rows (key_tbl d) kci ks) (dkg_tbl d), HKeys ks)
         else (mkDb tbl (key_tbl d) (dkg_tbl d), HNone).
  Proof.
    intros Hk Hb Ho He Hlt d tbl.
    assert (Heon : i64_of_u64 (s_eon m) = kci) by (rewrite He; apply (i64_of_kci st Hk)).
    assert (Hbelow : rows_below n tbl).
    { apply rows_below_rows_of; [exact Hb | rewrite (u64_i64_kidx _ Hlt); exact Hlt]. }
    unfold handle_message. simpl EpochKGHandler.m_eon. simpl EpochKGHandler.m_shares.
    assert (E1 : (Z.of_N (s_eon m) >? EpochKGHandler.max_int64)%Z = false).
    { rewrite He. pose proof Hk as [_ [_ [_ [Hr _]]]]. rewrite Z.gtb_ltb. apply Z.ltb_ge. unfold EpochKGHandler.max_int64. lia. }
    rewrite E1, Heon.
    assert (Hrows : insert_share_rows d (hmsg m) = tbl).
    { unfold d. rewrite handler_rows, Heon. reflexivity. }
    rewrite Hrows.
    destruct (forallb _ (s_shares m)); [reflexivity|].
    assert (Hdl : dkg_lookup (dkg_tbl d) kci = Some (DkgResult n t)).
    { unfold d. simpl dkg_tbl. rewrite (hdkg_rows_known st Hk). simpl. rewrite Z.eqb_refl. reflexivity. }
    rewrite Hdl.
    rewrite (aggregate_loop_spec lbl kv verify_l combine_l kv_lbl o n t tbl kci t_pos Ho Hbelow (labels_subset_independent n t t_pos)).
    destruct (forallb _ (s_shares m)); reflexivity.
  Qed.

  Theorem shares_progress st o m :
    Inv st -> validate_shares st m = GAccept -> perm_oracle o -> s_eon m = Z.to_N kci ->
    let st' := fst (core_handle_shares kb classify o st m) in
    c_shares st' = rows_of kci (i64_of_u64 (s_kidx m)) (s_shares m) (c_shares st) /\
    Inv st' /\
    (forall x, key_ok st x -> key_ok st' x) /\
    (complete st' (sh_ids m) -> forall x, In x (sh_ids m) -> key_ok st' x).
  Proof.
    intros [Hk [Hb [Hrv Hkv]]] Ha Ho He.
    destruct (accepted_shares_facts st m Hk Ha He) as [Hlt Hvalid].
    assert (Heon : i64_of_u64 (s_eon m) = kci) by (rewrite He; apply (i64_of_kci st Hk)).
    unfold core_handle_shares, handle_shares_core. rewrite Heon, (hkeyset_zero st Hk).
    change (verify_share 0) with verify_l.
    rewrite (hm_eval st o m Hk Hb Ho He Hlt). cbv zeta.
    set (tbl := rows_of kci (i64_of_u64 (s_kidx m)) (s_shares m) (c_shares st)).
    assert (Hbelow : rows_below n tbl).
    { apply rows_below_rows_of; [exact Hb | rewrite (u64_i64_kidx _ Hlt); exact Hlt]. }
    assert (Hrv' : Forall row_valid tbl).
    { apply rows_of_forall; [exact Hrv|]. rewrite Forall_forall in *. intros s Hs _. simpl.
      rewrite (u64_i64_kidx _ Hlt). apply (Hvalid s Hs). }
    assert (Hknows' : forall ks sh, knows c (mkCState (c_instance st) (c_maxkeys st) (c_self st) (c_configs st) (c_eons st) (c_dkg st) ks sh)).
    { intros ks sh. destruct Hk as [H1 [H2 [H3 [H4 [H5 [H6 [H7 H8]]]]]]]. unfold knows, dkg_for_config in *.
      cbn [c_instance c_maxkeys c_self c_configs c_eons c_dkg]. tauto. }
    simpl key_tbl. simpl dkg_tbl.
    destruct (forallb (fun s : bytes * kv => exists_key (hkey_rows st classify) kci (fst s)) (s_shares m)) eqn:Eall.
    { (* a key exists for every identity of the message *)
      simpl fst. simpl share_tbl. simpl key_tbl. rewrite <- (hkey_rows_length st classify), skipn_all. simpl map. rewrite app_nil_r.
      split; [reflexivity|]. split; [split; [apply Hknows' | split; [exact Hbelow | split; [exact Hrv' | exact Hkv]]]|].
      split; [intros x Hx; exact Hx|].
      intros _ x Hx. unfold sh_ids in Hx. apply in_map_iff in Hx. destruct Hx as [s [<- Hs]].
      rewrite forallb_forall in Eall. specialize (Eall s Hs). apply exists_key_hkey in Eall. destruct Eall as [b Hb'].
      apply (key_ok_of_valid _ _ b); [exact Hkv | exact Hb']. }
    destruct (forallb (fun s : bytes * kv => enough lbl kv verify_l kv_lbl t tbl kci (fst s)) (s_shares m)) eqn:Een.
    2: { (* not enough shares for some identity: nothing is stored *)
      simpl fst. simpl share_tbl. simpl key_tbl. rewrite <- (hkey_rows_length st classify), skipn_all. simpl map. rewrite app_nil_r.
      split; [reflexivity|]. split; [split; [apply Hknows' | split; [exact Hbelow | split; [exact Hrv' | exact Hkv]]]|].
      split; [intros x Hx; exact Hx|].
      intros Hcomp x Hx. exfalso.
      assert (forallb (fun s : bytes * kv => enough lbl kv verify_l kv_lbl t tbl kci (fst s)) (s_shares m) = true); [|congruence].
      apply forallb_forall. intros s Hs. unfold enough. apply N.leb_le. apply has_valid_from_dv.
      refine (complete_has_valid tbl _ (sh_ids m) _ Hcomp (fst s) _); [reflexivity|]. unfold sh_ids. apply in_map. exact Hs. }
    (* the keys are derived and stored *)
    set (ks := map (fun s : bytes * kv => (fst s, table_key lbl kv verify_l combine_l kv_lbl t tbl kci (fst s))) (s_shares m)).
    simpl fst. simpl share_tbl. simpl key_tbl.
    destruct (insert_key_rows_spec kci ks (hkey_rows st classify)) as [news [Hins [Hn1 Hn2]]].
    rewrite Hins, <- (hkey_rows_length st classify), skipn_exact.
    assert (Hlab : forall x k, In (x, k) ks -> k = LKey 0 x).
    { intros x k Hin. unfold ks in Hin. apply in_map_iff in Hin. destruct Hin as [s [E Hs]]. injection E as <- <-.
      rewrite forallb_forall in Een. specialize (Een s Hs). unfold enough in Een. apply N.leb_le in Een.
      unfold table_key. apply (good_combine_l n t (fst s) _ t_pos). apply dv_good.
      - apply (shares_of_below lbl kv kv_lbl). apply (select_shares_below lbl kv verify_l n tbl kci (fst s) Hbelow).
      - exact Een. }
    split; [reflexivity|]. split; [|split].
    - split; [apply Hknows'|]. split; [exact Hbelow|]. split; [exact Hrv'|]. cbn [c_keys].
      apply Forall_app. split; [exact Hkv|].
      rewrite Forall_forall in *. intros row Hrow. apply in_map_iff in Hrow. destruct Hrow as [r [<- Hr]].
      destruct (Hn1 r Hr) as [_ Hin]. rewrite (Hlab _ _ Hin). intros _. reflexivity.
    - intros x Hx. unfold key_ok in *. cbn [c_keys]. apply stored_key_app_l. exact Hx.
    - intros _ x Hx. cbn [c_keys].
      destruct (stored_key (c_keys st) kci x) as [b|] eqn:Es.
      { unfold key_ok. cbn [c_keys]. rewrite (stored_key_app_l _ _ _ _ _ Es). f_equal.
        apply stored_key_in in Es. rewrite Forall_forall in Hkv. apply (Hkv _ Es). reflexivity. }
      assert (Hin : exists k, In (x, k) ks).
      { unfold sh_ids in Hx. apply in_map_iff in Hx. destruct Hx as [s [<- Hs]]. eexists. unfold ks. apply in_map_iff. exists s. split; [reflexivity | exact Hs]. }
      destruct Hin as [k Hin]. specialize (Hn2 x k Hin).
      unfold exists_key in Hn2. rewrite existsb_app in Hn2.
      fold (exists_key (hkey_rows st classify) kci x) in Hn2. rewrite (stored_key_none_hkey st classify kci x Es) in Hn2.
      simpl in Hn2. apply existsb_exists in Hn2. destruct Hn2 as [r [Hr Hm]].
      apply andb_true_iff in Hm. destruct Hm as [Hm1 Hm2]. apply Z.eqb_eq in Hm1. apply bytes_eqb_eq in Hm2.
      unfold key_ok. cbn [c_keys]. rewrite (stored_key_app_r _ _ _ _ Es).
      rewrite Forall_forall in Hn1.
      assert (Hall : forall r0, In r0 news -> k_ident r0 = x -> bytes_of_key kb (k_key r0) = kb 0 x).
      { intros r0 Hr0 Hid. destruct (Hn1 r0 Hr0) as [_ Hin0]. rewrite (Hlab _ _ Hin0), Hid. reflexivity. }
      clear - Hr Hm1 Hm2 Hall.
      induction news as [|a rest IH]; [destruct Hr|]. simpl.
      destruct ((EpochKGHandler.k_eon a =? kci)%Z && bytes_eqb (k_ident a) x) eqn:E.
      + apply andb_true_iff in E. destruct E as [_ E]. apply bytes_eqb_eq in E. f_equal. apply Hall; [left; reflexivity | exact E].
      + destruct Hr as [->|Hr]; [rewrite Hm1, Hm2, Z.eqb_refl, bytes_eqb_refl in E; discriminate|].
        apply IH; [exact Hr | intros r0 H0; apply Hall; right; exact H0].
  Qed.

  (* ----------------------------------------------------------------------------------- *)
  (* the node is triggered *)

  Theorem own_step st ids st' m :
    Inv st -> construct sb st (cf_eon c) kci ids = Some (st', m) ->
    Inv st' /\ c_keys st' = c_keys st /\ (forall a, In a (c_shares st) -> In a (c_shares st')) /\
    exists kidx, index_of (c_self st) (cf_keypers c) 0 = Some kidx /\
                 forall x, In x ids -> holds st' x kidx.
  Proof.
    intros [Hk [Hb [Hrv Hkv]]] Hc.
    destruct (construct_facts sb c st ids st' m Hk Hc) as [kidx [Hidx [_ [_ [_ ->]]]]].
    destruct (index_of_bound _ _ _ Hidx) as [Hlt _]. fold n in Hlt.
    change (insert_own_shares (c_shares st) kci (Z.of_N kidx) (honest_shares sb kidx ids))
      with (rows_of kci (Z.of_N kidx) (honest_shares sb kidx ids) (c_shares st)).
    assert (Hu : u64_of_i64 (Z.of_N kidx) = kidx).
    { unfold u64_of_i64. rewrite Z.mod_small; [apply N2Z.id|].
      assert (Z.of_N kidx < 2 ^ 63)%Z by (change (2 ^ 63)%Z with (Z.of_N (2 ^ 63)); lia). lia. }
    split; [|split; [reflexivity|split]].
    - split.
      + destruct Hk as [H1 [H2 [H3 [H4 [H5 [H6 [H7 H8]]]]]]]. unfold knows, dkg_for_config in *.
        cbn [c_instance c_maxkeys c_self c_configs c_eons c_dkg]. tauto.
      + cbn [c_shares c_keys]. split; [apply rows_below_rows_of; [exact Hb | rewrite Hu; exact Hlt]|].
        split; [|exact Hkv]. apply rows_of_forall; [exact Hrv|].
        apply Forall_forall. intros s Hs _. apply in_map_iff in Hs. destruct Hs as [x [<- _]]. simpl.
        exists (LShare 0 kidx x). rewrite Hu. split; [reflexivity|]. simpl. rewrite !N.eqb_refl, bytes_eqb_refl. reflexivity.
    - intros a Ha. cbn [c_shares]. apply rows_of_incl. exact Ha.
    - exists kidx. split; [exact Hidx|]. intros x Hx. unfold holds. cbn [c_shares].
      destruct (rows_of_has kci (Z.of_N kidx) (honest_shares sb kidx ids) (c_shares st) (x, mkKV (sb 0%N kidx x) (Some (LShare 0 kidx x)))) as [a [Ha [H1 [H2 H3]]]].
      { apply in_map_iff. exists x. split; [reflexivity | exact Hx]. }
      exists a. split; [exact Ha|]. split; [exact H1|]. split; [exact H2|]. split; [rewrite H3; exact Hu|].
      (* the row with that key is valid, whoever inserted it *)
      assert (Hval : Forall row_valid (rows_of kci (Z.of_N kidx) (honest_shares sb kidx ids) (c_shares st))).
      { apply rows_of_forall; [exact Hrv|]. apply Forall_forall. intros s Hs _. apply in_map_iff in Hs. destruct Hs as [y [<- _]]. simpl.
        exists (LShare 0 kidx y). rewrite Hu. split; [reflexivity|]. simpl. rewrite !N.eqb_refl, bytes_eqb_refl. reflexivity. }
      rewrite Forall_forall in Hval. destruct (Hval a Ha H1) as [lb [Hlb Hv]].
      exists lb. split; [exact Hlb|]. rewrite H3, Hu, H2 in Hv. exact Hv.
  Qed.

  (* after an accepted key-shares message the table holds a valid share of its sender for every
     identity of the message *)
  Lemma shares_step_holds st o m :
    Inv st -> validate_shares st m = GAccept -> perm_oracle o -> s_eon m = Z.to_N kci ->
    let st' := fst (core_handle_shares kb classify o st m) in
    (forall a, In a (c_shares st) -> In a (c_shares st')) /\
    forall x, In x (sh_ids m) -> holds st' x (s_kidx m).
  Proof.
    intros HI Ha Ho He st'.
    destruct (shares_progress st o m HI Ha Ho He) as [Hrows [[_ [_ [Hrv' _]]] _]]. fold st' in Hrows, Hrv'.
    destruct HI as [Hk _]. destruct (accepted_shares_facts st m Hk Ha He) as [Hlt _].
    split; [intros a Hin; rewrite Hrows; apply rows_of_incl; exact Hin|].
    intros x Hx. unfold sh_ids in Hx. apply in_map_iff in Hx. destruct Hx as [s [<- Hs]].
    destruct (rows_of_has kci (i64_of_u64 (s_kidx m)) (s_shares m) (c_shares st) s Hs) as [a [Hain [H1 [H2 H3]]]].
    unfold holds. rewrite Hrows. exists a. split; [exact Hain|]. split; [exact H1|]. split; [exact H2|].
    split; [rewrite H3; apply u64_i64_kidx; exact Hlt|].
    rewrite Hrows in Hrv'. rewrite Forall_forall in Hrv'. destruct (Hrv' a Hain H1) as [lb [Hlb Hv]].
    exists lb. split; [exact Hlb|]. rewrite H3, (u64_i64_kidx _ Hlt), H2 in Hv. exact Hv.
  Qed.

  (* ----------------------------------------------------------------------------------- *)
  (* an accepted keys message *)

  Lemma insert_keys_spec eon (ks : list (bytes * kv)) : forall tbl,
    exists news, insert_keys tbl eon ks = tbl ++ news /\
                 Forall (fun row => exists p, In p ks /\ row = (eon, fst p, kv_bytes (snd p)) /\ stored_key tbl eon (fst p) = None) news /\
                 forall p, In p ks -> stored_key (tbl ++ news) eon (fst p) <> None.
  Proof.
    induction ks as [|p r IH]; intros tbl; simpl.
    - exists []. rewrite app_nil_r. split; [reflexivity|]. split; [constructor | intros p []].
    - destruct (stored_key tbl eon (fst p)) as [b|] eqn:E.
      + destruct (IH tbl) as [news [H1 [H2 H3]]]. exists news. split; [exact H1|]. split.
        * eapply Forall_impl; [|exact H2]. intros row [q [Hq Hr]]. exists q. split; [right; exact Hq | exact Hr].
        * intros q [<-|Hq]; [rewrite (stored_key_app_l _ _ _ _ _ E); discriminate | apply H3; exact Hq].
      + destruct (IH (tbl ++ [(eon, fst p, kv_bytes (snd p))])) as [news [H1 [H2 H3]]].
        exists ((eon, fst p, kv_bytes (snd p)) :: news). rewrite H1, <- app_assoc. split; [reflexivity|]. split.
        * constructor; [exists p; split; [left; reflexivity | split; [reflexivity | exact E]]|].
          eapply Forall_impl; [|exact H2]. intros row [q [Hq [Hr Hn]]]. exists q. split; [right; exact Hq|]. split; [exact Hr|].
          destruct (stored_key tbl eon (fst q)) eqn:Eq; [|reflexivity].
          rewrite (stored_key_app_l _ _ _ _ _ Eq) in Hn. discriminate.
        * intros q [<-|Hq].
          -- rewrite (stored_key_app_r _ _ _ _ E). simpl. rewrite Z.eqb_refl, bytes_eqb_refl. discriminate.
          -- specialize (H3 q Hq). rewrite <- app_assoc in H3. exact H3.
  Qed.

  Lemma accepted_keys_facts st m :
    knows c st -> validate_keys st m = GAccept -> km_eon m = Z.to_N kci ->
    Forall (fun p => exists lb, kv_lbl (snd p) = Some lb /\
                     (verify_key 0 (fst p) lb = true \/ stored_key (c_keys st) kci (fst p) = Some (kv_bytes (snd p)))) (km_keys m).
  Proof.
    intros Hk Ha He. pose proof Hk as [_ [_ [_ [Hr [_ [_ [Hd _]]]]]]].
    unfold validate_keys in Ha.
    destruct (validate_prelude st (km_inst m) (km_eon m) (length (km_keys m))) as [r|ks n0] eqn:Ep; [discriminate|].
    assert (ks = 0%N) as ->.
    { unfold validate_prelude in Ep.
      destruct (negb _); [discriminate|]. destruct (_ <? _)%N; [discriminate|].
      destruct (zlookup _ _); [|discriminate]. destruct (negb _); [discriminate|].
      rewrite He in Ep. replace (Z.of_N (Z.to_N kci)) with kci in Ep by lia. rewrite Hd in Ep.
      destruct (_ =? _)%nat; [discriminate|]. destruct (_ <? _)%Z; [discriminate|]. injection Ep as <- _. reflexivity. }
    rewrite He in Ha. replace (Z.of_N (Z.to_N kci)) with kci in Ha by lia.
    apply keys_loop_iff in Ha. apply Ha.
  Qed.

  Theorem keys_step st m :
    Inv st -> validate_keys st m = GAccept -> keys_consistent m -> km_eon m = Z.to_N kci ->
    let st' := core_handle_keys st m in
    Inv st' /\ c_shares st' = c_shares st /\ (forall x, key_ok st x -> key_ok st' x) /\
    forall x, In x (k_ids m) -> key_ok st' x.
  Proof.
    intros [Hk [Hb [Hrv Hkv]]] Ha Hcons He st'.
    pose proof (accepted_keys_facts st m Hk Ha He) as Hfacts.
    assert (Heon : int_of_u64 (km_eon m) = kci) by (rewrite He; apply int_of_u64_kci; destruct Hk as [_ [_ [_ [H _]]]]; exact H).
    unfold st', core_handle_keys. rewrite Heon.
    destruct (insert_keys_spec kci (km_keys m) (c_keys st)) as [news [Hins [Hn1 Hn2]]]. rewrite Hins.
    assert (Hval : Forall keyrow_valid (c_keys st ++ news)).
    { apply Forall_app. split; [exact Hkv|]. unfold keys_consistent in Hcons. rewrite Forall_forall in *. intros row Hrow.
      destruct (Hn1 row Hrow) as [p [Hp [-> Hnone]]]. intros _.
      destruct (Hfacts p Hp) as [lb [Hlb [Hv|Hs]]]; [|congruence].
      unfold verify_key in Hv. destruct lb as [| e y |]; try discriminate.
      apply andb_true_iff in Hv. destruct Hv as [He' Hy]. apply N.eqb_eq in He'. apply bytes_eqb_eq in Hy. subst e y.
      apply (Hcons p Hp 0%N (fst p) Hlb). }
    split; [|split; [reflexivity|split]].
    - split.
      + destruct Hk as [H1 [H2 [H3 [H4 [H5 [H6 [H7 H8]]]]]]]. unfold knows, dkg_for_config in *.
        cbn [c_instance c_maxkeys c_self c_configs c_eons c_dkg]. tauto.
      + cbn [c_shares c_keys]. split; [exact Hb|]. split; [exact Hrv | exact Hval].
    - intros x Hx. unfold key_ok in *. cbn [c_keys]. apply stored_key_app_l. exact Hx.
    - intros x Hx. unfold k_ids in Hx. apply in_map_iff in Hx. destruct Hx as [p [<- Hp]].
      specialize (Hn2 p Hp). destruct (stored_key (c_keys st ++ news) kci (fst p)) as [b|] eqn:E; [|contradiction].
      unfold key_ok. cbn [c_keys]. rewrite E. f_equal.
      apply stored_key_in in E. rewrite Forall_forall in Hval. apply (Hval _ E). reflexivity.
  Qed.

  (* ----------------------------------------------------------------------------------- *)
  (* runs *)

  Lemma event_step st e :
    Inv st -> ok_event st e ->
    let st' := apply_nev sb kb classify st e in
    Inv st' /\ (forall a, In a (c_shares st) -> In a (c_shares st')) /\ (forall x, key_ok st x -> key_ok st' x).
  Proof.
    intros HI Hok st'. destruct e as [eon_id kci' ids | o m | m]; simpl in Hok; unfold st'; simpl.
    - destruct Hok as [-> ->].
      destruct (construct sb st (cf_eon c) kci ids) as [[s1 m1]|] eqn:Hc; [|split; [exact HI | split; auto]].
      destruct (own_step st ids s1 m1 HI Hc) as [H1 [H2 [H3 _]]]. split; [exact H1|]. split; [exact H3|].
      intros x Hx. unfold key_ok in *. rewrite H2. exact Hx.
    - destruct Hok as [Ha [Ho He]].
      destruct (shares_progress st o m HI Ha Ho He) as [_ [H1 [H2 _]]].
      destruct (shares_step_holds st o m HI Ha Ho He) as [H3 _]. split; [exact H1|]. split; [exact H3 | exact H2].
    - destruct Hok as [Ha [Hc He]].
      destruct (keys_step st m HI Ha Hc He) as [H1 [H2 [H3 _]]]. split; [exact H1|]. split; [|exact H3].
      intros a Hin. exact Hin.
  Qed.

  Lemma run_step st evs :
    Inv st -> ok_run st evs ->
    let st' := node_run sb kb classify st evs in
    Inv st' /\ (forall a, In a (c_shares st) -> In a (c_shares st')) /\ (forall x, key_ok st x -> key_ok st' x).
  Proof.
    revert st. induction evs as [|e r IH]; intros st HI Hok; simpl; [split; [exact HI | split; auto]|].
    destruct Hok as [He Hr]. destruct (event_step st e HI He) as [H1 [H2 H3]].
    destruct (IH _ H1 Hr) as [G1 [G2 G3]]. split; [exact G1|]. split; [intros a Ha; apply G2, H2, Ha | intros x Hx; apply G3, H3, Hx].
  Qed.

  Lemma node_run_app st a b : node_run sb kb classify st (a ++ b) = node_run sb kb classify (node_run sb kb classify st a) b.
  Proof. unfold node_run. apply fold_left_app. Qed.

  Lemma ok_run_app st a b : ok_run st (a ++ b) <-> ok_run st a /\ ok_run (node_run sb kb classify st a) b.
  Proof.
    revert st. induction a as [|e r IH]; intros st; simpl; [tauto|]. rewrite IH. tauto.
  Qed.

  (* Progress, and it stays: whenever in a run an accepted key-shares message is handled while
     (after its rows are inserted) the table holds valid shares of t distinct keypers for every
     identity of the message, the node stores the correct key of each of these identities at
     the end of the run - whatever else it is triggered for or handles before and after. *)
  Theorem node_progress st evs1 o m evs2 :
    Inv st -> ok_run st (evs1 ++ NevShares o m :: evs2) ->
    complete (node_run sb kb classify st (evs1 ++ [NevShares o m])) (sh_ids m) ->
    forall x, In x (sh_ids m) -> key_ok (node_run sb kb classify st (evs1 ++ NevShares o m :: evs2)) x.
  Proof.
    intros HI Hok Hcomp x Hx.
    apply ok_run_app in Hok. destruct Hok as [Hok1 [[Ha [Ho He]] Hok2]]. simpl in Hok2.
    destruct (run_step st evs1 HI Hok1) as [HI1 _].
    set (s1 := node_run sb kb classify st evs1) in *.
    rewrite node_run_app in Hcomp. simpl in Hcomp. fold s1 in Hcomp.
    destruct (shares_progress s1 o m HI1 Ha Ho He) as [_ [HI2 [_ Hkey]]].
    rewrite node_run_app. simpl. fold s1.
    destruct (run_step _ evs2 HI2 Hok2) as [_ [_ Hkeep]]. apply Hkeep. apply Hkey; assumption.
  Qed.

  (* the senders of the handled key-shares messages for ids, without repetition *)
  Fixpoint handled_senders (ids : list bytes) (evs : list nev) (acc : list N) : list N :=
    match evs with
    | [] => acc
    | NevShares _ m :: r =>
        if ids_eqb (sh_ids m) ids && negb (existsb (N.eqb (s_kidx m)) acc)
        then handled_senders ids r (s_kidx m :: acc) else handled_senders ids r acc
    | _ :: r => handled_senders ids r acc
    end.

  Lemma ids_eqb_eq a b : ids_eqb a b = true -> a = b.
  Proof.
    revert b. induction a as [|x r IH]; intros [|y s]; simpl; try discriminate; [reflexivity|].
    intros H. apply andb_true_iff in H. destruct H as [H1 H2]. apply bytes_eqb_eq in H1. subst. f_equal. apply IH. exact H2.
  Qed.

  (* Counting: after the node handled key-shares messages for ids from t distinct keypers - in
     any order, with any duplicates, interleaved with its own trigger, other key-shares messages
     and keys messages - it stores the correct key of every identity of ids. *)
  Theorem node_counting ids : forall evs st acc,
    Inv st -> ok_run st evs -> NoDup acc ->
    (forall x s, In x ids -> In s acc -> holds st x s) ->
    ((t <= N.of_nat (length acc))%N -> forall x, In x ids -> key_ok st x) ->
    (t <= N.of_nat (length (handled_senders ids evs acc)))%N ->
    forall x, In x ids -> key_ok (node_run sb kb classify st evs) x.
  Proof.
    induction evs as [|e r IH]; intros st acc HI Hok Hnd Hholds Hkeys Hlen x Hx; simpl in *.
    - apply Hkeys; assumption.
    - destruct Hok as [He Hr]. destruct (event_step st e HI He) as [HI' [Hgrow Hkeep]].
      assert (Hholds' : forall y s, In y ids -> In s acc -> holds (apply_nev sb kb classify st e) y s).
      { intros y s Hy Hs. eapply holds_mono; [exact Hgrow | apply Hholds; assumption]. }
      assert (Hkeys' : (t <= N.of_nat (length acc))%N -> forall y, In y ids -> key_ok (apply_nev sb kb classify st e) y).
      { intros Hl y Hy. apply Hkeep. apply Hkeys; assumption. }
      destruct e as [eon_id kci' ids' | o m | m]; try (apply (IH _ acc HI' Hr Hnd Hholds' Hkeys' Hlen x Hx)).
      destruct (ids_eqb (sh_ids m) ids && negb (existsb (N.eqb (s_kidx m)) acc)) eqn:Enew;
        [|apply (IH _ acc HI' Hr Hnd Hholds' Hkeys' Hlen x Hx)].
      apply andb_true_iff in Enew. destruct Enew as [Eids Enotin]. apply ids_eqb_eq in Eids.
      destruct He as [Ha [Ho Hee]].
      destruct (shares_step_holds st o m HI Ha Ho Hee) as [_ Hnewholds]. rewrite Eids in Hnewholds.
      assert (Hnotin : ~ In (s_kidx m) acc).
      { intros Hin. apply negb_true_iff in Enotin. assert (existsb (N.eqb (s_kidx m)) acc = true); [|congruence].
        apply existsb_exists. exists (s_kidx m). split; [exact Hin | apply N.eqb_refl]. }
      apply (IH _ (s_kidx m :: acc) HI' Hr); try assumption.
      + constructor; assumption.
      + intros y s Hy [<-|Hs]; [apply Hnewholds; exact Hy | apply Hholds'; assumption].
      + intros Hl y Hy.
        destruct (shares_progress st o m HI Ha Ho Hee) as [_ [_ [_ Hkey]]]. rewrite Eids in Hkey. apply Hkey; [|exact Hy].
        exists (s_kidx m :: acc). split; [constructor; assumption|]. split; [exact Hl|].
        intros z s Hz [<-|Hs]; [apply Hnewholds; exact Hz | apply Hholds'; assumption].
  Qed.
End Node.
