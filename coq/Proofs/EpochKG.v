(* Proofs about Model/EpochKG.v (library layer of C01): specification vocabulary, the run
   invariant and the threshold / junk / first-t theorems.  Stdlib style. *)
From Coq Require Import List NArith ZArith Bool Lia Permutation.
From Verif Require Import Lib.Bytes Lib.Assoc Model.EpochKG.
Import ListNotations.
Open Scope N_scope.

(* ---------------------------------------------------------------------------------------- *)
(* association-list facts about adel that Lib.Assoc does not have *)
Section AssocExtra.
  Context {V : Type}.

  Lemma adel_keys_incl (m : amap V) k x : In x (map fst (adel m k)) -> In x (map fst m).
  Proof.
    induction m as [|[k0 v0] r IH]; simpl; [tauto|].
    destruct (bytes_eqb k0 k); simpl; intuition.
  Qed.

  Lemma adel_nodup (m : amap V) k : NoDup (map fst m) -> NoDup (map fst (adel m k)).
  Proof.
    induction m as [|[k0 v0] r IH]; simpl; intros H; [constructor|].
    inversion H as [|? ? Hn Hd]; subst.
    destruct (bytes_eqb k0 k); simpl; [assumption|].
    constructor; [|apply IH; assumption].
    intros Hin. apply Hn. eapply adel_keys_incl. exact Hin.
  Qed.

  Lemma aget_adel_same (m : amap V) k : NoDup (map fst m) -> aget (adel m k) k = None.
  Proof.
    induction m as [|[k0 v0] r IH]; simpl; intros H; [reflexivity|].
    inversion H as [|? ? Hn Hd]; subst.
    destruct (bytes_eqb k0 k) eqn:E; simpl.
    - apply bytes_eqb_eq in E. subst k0. apply aget_none_notin. exact Hn.
    - rewrite E. apply IH. exact Hd.
  Qed.

  Lemma aget_adel_other (m : amap V) k k' : k <> k' -> aget (adel m k) k' = aget m k'.
  Proof.
    intros Hne. induction m as [|[k0 v0] r IH]; simpl; [reflexivity|].
    destruct (bytes_eqb k0 k) eqn:E; simpl.
    - apply bytes_eqb_eq in E. subst k0. apply bytes_eqb_neq in Hne. rewrite Hne. reflexivity.
    - destruct (bytes_eqb k0 k'); auto.
  Qed.
End AssocExtra.

Lemma NoDup_app_snoc {A} (l : list A) (a : A) : NoDup l -> ~ In a l -> NoDup (l ++ [a]).
Proof.
  intros Hnd Hn. eapply Permutation_NoDup; [apply Permutation_cons_append|].
  constructor; assumption.
Qed.

Lemma N_lt_to_nat (a b : N) : a < b -> (N.to_nat a < N.to_nat b)%nat.
Proof. lia. Qed.

Lemma NoDup_app_l {A} (l1 l2 : list A) : NoDup (l1 ++ l2) -> NoDup l1.
Proof.
  induction l1 as [|a l1 IH]; simpl; intros H; [constructor|].
  inversion H as [|? ? Hn Hd]; subst. constructor; [|apply IH; exact Hd].
  intros Hin. apply Hn. apply in_or_app. left. exact Hin.
Qed.

(* ---------------------------------------------------------------------------------------- *)
Section Spec.
  Variable V : Type.
  Variable verify : N -> bytes -> V -> bool.
  Variable combine : list (N * V) -> V.

  Notation share := (share V).
  Notation state := (state V).
  Notation handle_share := (handle_share V verify combine).
  Notation step := (step V verify combine).
  Notation run := (run V verify combine).
  Notation run_from := (run_from V verify combine).
  Notation outcomes_from := (outcomes_from V verify combine).
  Notation outcomes := (outcomes V verify combine).

  (* ---- specification vocabulary (written from the property text, not from the code) ---- *)

  (* sh is a share for identity x that passes verification *)
  Definition valid_for (x : bytes) (sh : share) : bool :=
    bytes_eqb (sh_ident sh) x && verify (sh_sender sh) (sh_ident sh) (sh_val sh).

  Definition has_sender (s : N) (A : list (N * V)) : bool := existsb (fun p => fst p =? s) A.

  (* the valid shares for x of a sequence, one per sender (the first one), in arrival order *)
  Definition dv_step (x : bytes) (A : list (N * V)) (sh : share) : list (N * V) :=
    if valid_for x sh && negb (has_sender (sh_sender sh) A) then A ++ [(sh_sender sh, sh_val sh)] else A.
  Definition dv (x : bytes) (l : list share) : list (N * V) := fold_left (dv_step x) l [].

  (* "the sequence l contains valid shares for x from at least t distinct senders" *)
  Definition has_valid_from (x : bytes) (l : list share) (t : N) : Prop :=
    exists S : list N, NoDup S /\ t <= N.of_nat (length S) /\
      forall s, In s S -> exists sh, In sh l /\ sh_ident sh = x /\ sh_sender sh = s /\
                                   verify s x (sh_val sh) = true.

  (* a share counts (is not junk) when it arrives after the prefix [pre]: it verifies, no valid
     share of its sender for its identity arrived before, and its identity had fewer than t
     distinct valid senders so far (the identity's key does not exist yet) *)
  Definition counts (t : N) (pre : list share) (sh : share) : bool :=
    verify (sh_sender sh) (sh_ident sh) (sh_val sh)
    && negb (has_sender (sh_sender sh) (dv (sh_ident sh) pre))
    && (N.of_nat (length (dv (sh_ident sh) pre)) <? t).

  Fixpoint effective_from (t : N) (pre l : list share) : list share :=
    match l with
    | [] => []
    | sh :: r => (if counts t pre sh then [sh] else []) ++ effective_from t (pre ++ [sh]) r
    end.
  (* the subsequence of shares that count *)
  Definition effective (t : N) (l : list share) : list share := effective_from t [] l.

  Definition senders_below (n : N) (l : list share) : Prop := Forall (fun sh => sh_sender sh < n) l.

  (* a list of (sender, value) pairs that the property calls "t distinct valid shares for x" *)
  Definition good_shares (n t : N) (x : bytes) (A : list (N * V)) : Prop :=
    N.of_nat (length A) = t /\ NoDup (map fst A) /\
    Forall (fun p => fst p < n /\ verify (fst p) x (snd p) = true) A.

  (* ---- dv ---- *)

  Lemma dv_snoc x l sh : dv x (l ++ [sh]) = dv_step x (dv x l) sh.
  Proof. unfold dv. rewrite fold_left_app. reflexivity. Qed.

  Lemma has_sender_in s A : has_sender s A = true <-> In s (map fst A).
  Proof.
    unfold has_sender. rewrite existsb_exists. split.
    - intros [p [Hin He]]. apply N.eqb_eq in He. subst. apply in_map. exact Hin.
    - intros Hin. apply in_map_iff in Hin. destruct Hin as [p [He Hin]]. exists p. split; [exact Hin|].
      apply N.eqb_eq. exact He.
  Qed.

  Lemma has_sender_false s A : has_sender s A = false <-> ~ In s (map fst A).
  Proof.
    rewrite <- has_sender_in. destruct (has_sender s A); split; intros H; congruence.
  Qed.

  Lemma valid_for_spec x sh :
    valid_for x sh = true <-> sh_ident sh = x /\ verify (sh_sender sh) x (sh_val sh) = true.
  Proof.
    unfold valid_for. rewrite andb_true_iff, bytes_eqb_eq. split.
    - intros [-> H]. auto.
    - intros [<- H]. auto.
  Qed.

  Lemma dv_in x l s v :
    In (s, v) (dv x l) ->
    exists sh, In sh l /\ sh_ident sh = x /\ sh_sender sh = s /\ sh_val sh = v /\ verify s x v = true.
  Proof.
    induction l as [|sh l IH] using rev_ind; [intros []|].
    rewrite dv_snoc. unfold dv_step.
    destruct (valid_for x sh && negb (has_sender (sh_sender sh) (dv x l))) eqn:E.
    - rewrite in_app_iff. intros [Hin|[Heq|[]]].
      + destruct (IH Hin) as [sh' [H1 H2]]. exists sh'. split; [apply in_or_app; left; exact H1|exact H2].
      + injection Heq as <- <-. apply andb_true_iff in E. destruct E as [E _].
        apply valid_for_spec in E. destruct E as [E1 E2].
        exists sh. split; [apply in_or_app; right; left; reflexivity|auto].
    - intros Hin. destruct (IH Hin) as [sh' [H1 H2]]. exists sh'. split; [apply in_or_app; left; exact H1|exact H2].
  Qed.

  Lemma dv_senders_nodup x l : NoDup (map fst (dv x l)).
  Proof.
    induction l as [|sh l IH] using rev_ind; [constructor|].
    rewrite dv_snoc. unfold dv_step.
    destruct (valid_for x sh && negb (has_sender (sh_sender sh) (dv x l))) eqn:E; [|exact IH].
    apply andb_true_iff in E. destruct E as [_ E]. apply negb_true_iff in E.
    apply has_sender_false in E.
    rewrite map_app. simpl. apply NoDup_app_snoc; assumption.
  Qed.

  Lemma dv_senders_in x l s :
    In s (map fst (dv x l)) <->
    exists sh, In sh l /\ sh_ident sh = x /\ sh_sender sh = s /\ verify s x (sh_val sh) = true.
  Proof.
    split.
    - intros Hin. apply in_map_iff in Hin. destruct Hin as [[s' v] [He Hin]]. simpl in He. subst s'.
      destruct (dv_in _ _ _ _ Hin) as [sh [H1 [H2 [H3 [H4 H5]]]]].
      exists sh. subst v. auto.
    - induction l as [|sh0 l IH] using rev_ind; [intros [sh [[] _]]|].
      intros [sh [Hin [Hx [Hs Hv]]]].
      rewrite dv_snoc. unfold dv_step.
      apply in_app_iff in Hin. destruct Hin as [Hin|[->|[]]].
      + assert (In s (map fst (dv x l))) as H by (apply IH; exists sh; auto).
        destruct (valid_for x sh0 && negb (has_sender (sh_sender sh0) (dv x l))); [|exact H].
        rewrite map_app. apply in_or_app. left. exact H.
      + assert (valid_for x sh = true) as Hvf by (apply valid_for_spec; subst; auto).
        rewrite Hvf. simpl.
        destruct (has_sender (sh_sender sh) (dv x l)) eqn:E; simpl.
        * apply has_sender_in in E. subst. exact E.
        * rewrite map_app. apply in_or_app. right. left. exact Hs.
  Qed.

  Lemma has_valid_from_dv x l t : has_valid_from x l t <-> t <= N.of_nat (length (dv x l)).
  Proof.
    split.
    - intros [S [Hnd [Hlen Hall]]].
      assert (incl S (map fst (dv x l))) as Hincl.
      { intros s Hs. apply dv_senders_in. apply Hall. exact Hs. }
      pose proof (NoDup_incl_length Hnd Hincl) as Hle. rewrite map_length in Hle. lia.
    - intros Hle. exists (map fst (dv x l)). split; [apply dv_senders_nodup|].
      split; [rewrite map_length; exact Hle|].
      intros s Hs. apply dv_senders_in. exact Hs.
  Qed.

  Lemma has_valid_from_perm x l l' t : Permutation l l' -> has_valid_from x l t -> has_valid_from x l' t.
  Proof.
    intros Hp [S [Hnd [Hlen Hall]]]. exists S. split; [exact Hnd|]. split; [exact Hlen|].
    intros s Hs. destruct (Hall s Hs) as [sh [Hin H]]. exists sh. split; [|exact H].
    eapply Permutation_in; eassumption.
  Qed.

  Lemma dv_length_perm x l l' : Permutation l l' -> length (dv x l) = length (dv x l').
  Proof.
    intros Hp.
    assert (Permutation (map fst (dv x l)) (map fst (dv x l'))) as H.
    { apply NoDup_Permutation; try apply dv_senders_nodup.
      intros s. rewrite !dv_senders_in. split; intros [sh [Hin H]]; exists sh; (split; [|exact H]).
      - eapply Permutation_in; eassumption.
      - eapply Permutation_in; [apply Permutation_sym|]; eassumption. }
    apply Permutation_length in H. rewrite !map_length in H. exact H.
  Qed.

  Lemma dv_good n t x l :
    senders_below n l -> t <= N.of_nat (length (dv x l)) ->
    good_shares n t x (firstn (N.to_nat t) (dv x l)).
  Proof.
    intros Hb Hle. unfold good_shares. split; [|split].
    - rewrite firstn_length. lia.
    - rewrite <- firstn_map. pose proof (dv_senders_nodup x l) as Hnd.
      rewrite <- (firstn_skipn (N.to_nat t) (map fst (dv x l))) in Hnd.
      apply NoDup_app_l in Hnd. exact Hnd.
    - apply Forall_forall. intros [s v] Hin. simpl.
      assert (In (s, v) (dv x l)) as Hin'.
      { rewrite <- (firstn_skipn (N.to_nat t) (dv x l)). apply in_or_app. left. exact Hin. }
      destruct (dv_in _ _ _ _ Hin') as [sh [H1 [H2 [H3 [H4 H5]]]]].
      split; [|exact H5]. subst s. unfold senders_below in Hb. rewrite Forall_forall in Hb. apply Hb. exact H1.
  Qed.

  (* ---- the run invariant ---- *)

  (* what the state holds for identity x when D = dv x (shares so far) *)
  Definition inv_at (t : N) (st : state) (x : bytes) (D : list (N * V)) : Prop :=
    if N.of_nat (length D) <? t
    then key_of st x = None /\
         aget (pending st) x = match D with [] => None | _ => Some D end
    else key_of st x = Some (Some (combine (firstn (N.to_nat t) D))) /\
         aget (pending st) x = None.

  Definition Inv (t : N) (st : state) (l : list share) : Prop :=
    NoDup (map fst (pending st)) /\ forall x, inv_at t st x (dv x l).

  Lemma inv_init t : 1 <= t -> Inv t init [].
  Proof.
    intros Ht. split; [constructor|]. intros x. unfold inv_at, dv. simpl.
    destruct (0 <? t) eqn:E; [auto|]. apply N.ltb_ge in E. lia.
  Qed.

  Lemma pending_of_inv t st x D :
    inv_at t st x D -> (N.of_nat (length D) <? t) = true -> pending_of st x = D.
  Proof.
    unfold inv_at, pending_of. intros H E. rewrite E in H. destruct H as [_ H]. rewrite H.
    destruct D; reflexivity.
  Qed.

  Lemma amem_keys_inv t st x D :
    inv_at t st x D -> amem (keys st) x = negb (N.of_nat (length D) <? t).
  Proof.
    unfold inv_at, amem, key_of. destruct (N.of_nat (length D) <? t); intros [H _]; rewrite H; reflexivity.
  Qed.

  (* handle_share touches only the entries of the share's own identity *)
  Lemma handle_share_other n t st sh x :
    x <> sh_ident sh ->
    key_of (step n t st sh) x = key_of st x /\
    aget (pending (step n t st sh)) x = aget (pending st) x.
  Proof.
    intros Hne. unfold step, handle_share, add_share, key_of.
    destruct (amem (keys st) (sh_ident sh)); [auto|].
    destruct (n <=? sh_sender sh); [auto|].
    destruct (negb (verify (sh_sender sh) (sh_ident sh) (sh_val sh))); [auto|].
    destruct (existsb _ _); [auto|].
    destruct (negb _); simpl.
    - split; [reflexivity|]. apply aget_aset_other. congruence.
    - split; [apply aget_aset_other; congruence|apply aget_adel_other; congruence].
  Qed.

  Lemma handle_share_nodup n t st sh :
    NoDup (map fst (pending st)) -> NoDup (map fst (pending (step n t st sh))).
  Proof.
    intros H. unfold step, handle_share, add_share.
    destruct (amem (keys st) (sh_ident sh)); [exact H|].
    destruct (n <=? sh_sender sh); [exact H|].
    destruct (negb (verify (sh_sender sh) (sh_ident sh) (sh_val sh))); [exact H|].
    destruct (existsb _ _); [exact H|].
    destruct (negb _); simpl; [apply aset_nodup|apply adel_nodup]; exact H.
  Qed.

  Lemma firstn_app_ge {A} k (l1 l2 : list A) : (k <= length l1)%nat -> firstn k (l1 ++ l2) = firstn k l1.
  Proof.
    intros H. rewrite firstn_app. replace (k - length l1)%nat with 0%nat by lia.
    simpl. apply app_nil_r.
  Qed.

  (* one step: either the share counts, is accepted with Ok and the invariant moves on, or it
     is junk and the state is returned unchanged with a non-fatal outcome *)
  Lemma handle_share_inv n t st pre sh :
    1 <= t -> Inv t st pre -> sh_sender sh < n ->
    Inv t (step n t st sh) (pre ++ [sh]) /\
    (if counts t pre sh
     then snd (handle_share n t st sh) = Ok
     else fst (handle_share n t st sh) = st /\
          (snd (handle_share n t st sh) = Ok \/ snd (handle_share n t st sh) = ErrVerify \/
           snd (handle_share n t st sh) = ErrDup)).
  Proof.
    intros Ht [Hnd Hinv] Hs.
    set (x0 := sh_ident sh). set (D0 := dv x0 pre).
    pose proof (Hinv x0) as H0. fold D0 in H0.
    assert (Hother : forall x, x <> x0 -> dv x (pre ++ [sh]) = dv x pre).
    { intros x Hne. rewrite dv_snoc. unfold dv_step, valid_for.
      assert (bytes_eqb (sh_ident sh) x = false) as -> by (apply bytes_eqb_neq; intros Hc; apply Hne; unfold x0; congruence).
      reflexivity. }
    (* the identity's own entry *)
    assert (Hown :
      inv_at t (step n t st sh) x0 (dv x0 (pre ++ [sh])) /\
      (if counts t pre sh
       then snd (handle_share n t st sh) = Ok
       else fst (handle_share n t st sh) = st /\
            (snd (handle_share n t st sh) = Ok \/ snd (handle_share n t st sh) = ErrVerify \/
             snd (handle_share n t st sh) = ErrDup))).
    { rewrite dv_snoc. unfold dv_step, counts, valid_for. fold x0. fold D0.
      rewrite bytes_eqb_refl. simpl.
      unfold step, handle_share. fold x0.
      rewrite (amem_keys_inv _ _ _ _ H0).
      destruct (N.of_nat (length D0) <? t) eqn:Elt; simpl.
      - (* no key yet *)
        assert (n <=? sh_sender sh = false) as -> by (apply N.leb_gt; exact Hs).
        destruct (verify (sh_sender sh) x0 (sh_val sh)) eqn:Ev; simpl.
        + unfold add_share. fold x0. rewrite (pending_of_inv _ _ _ _ H0 Elt).
          fold (has_sender (sh_sender sh) D0).
          destruct (has_sender (sh_sender sh) D0) eqn:Ed; simpl.
          * split; [exact H0|]. split; [reflexivity|]. right. right. reflexivity.
          * apply N.ltb_lt in Elt.
            destruct (N.of_nat (length (D0 ++ [(sh_sender sh, sh_val sh)])) =? t) eqn:Eq; simpl.
            -- apply N.eqb_eq in Eq. split; [|unfold compute_epoch_secret_key; rewrite (proj2 (N.eqb_eq _ _) Eq); reflexivity].
               unfold inv_at. rewrite Eq. rewrite N.ltb_irrefl.
               unfold compute_epoch_secret_key. rewrite (proj2 (N.eqb_eq _ _) Eq).
               unfold key_of. simpl. rewrite aget_aset_same.
               rewrite firstn_all2 by lia. split; [reflexivity|].
               apply aget_adel_same. exact Hnd.
            -- apply N.eqb_neq in Eq. split; [|reflexivity].
               rewrite app_length in Eq. simpl in Eq.
               unfold inv_at. rewrite app_length. simpl.
               assert (N.of_nat (length D0 + 1) <? t = true) as -> by (apply N.ltb_lt; lia).
               unfold key_of. simpl. unfold inv_at in H0.
               assert (N.of_nat (length D0) <? t = true) as E' by (apply N.ltb_lt; lia).
               rewrite E' in H0. destruct H0 as [Hk _]. split; [exact Hk|].
               rewrite aget_aset_same. destruct D0; reflexivity.
        + split; [exact H0|]. split; [reflexivity|]. right. left. reflexivity.
      - (* key already there: the share is ignored whatever it is *)
        rewrite andb_false_r. split; [|split; [reflexivity|left; reflexivity]].
        apply N.ltb_ge in Elt.
        destruct (verify (sh_sender sh) x0 (sh_val sh) && negb (has_sender (sh_sender sh) D0)); [|exact H0].
        unfold inv_at in *. rewrite app_length. simpl.
        assert (N.of_nat (length D0) <? t = false) as E1 by (apply N.ltb_ge; lia).
        assert (N.of_nat (length D0 + 1) <? t = false) as E2 by (apply N.ltb_ge; lia).
        rewrite E1 in H0. rewrite E2. rewrite firstn_app_ge by lia. exact H0. }
    destruct Hown as [Hown Hout]. split; [|exact Hout].
    split; [apply handle_share_nodup; exact Hnd|].
    intros x. destruct (bytes_eqb x x0) eqn:E.
    - apply bytes_eqb_eq in E. subst x. exact Hown.
    - apply bytes_eqb_neq in E. rewrite (Hother x E).
      destruct (handle_share_other n t st sh x E) as [Hk Hp].
      pose proof (Hinv x) as Hx. unfold inv_at in *. rewrite Hk, Hp. exact Hx.
  Qed.

  Lemma run_from_snoc n t st l sh : run_from n t st (l ++ [sh]) = step n t (run_from n t st l) sh.
  Proof. unfold run_from. rewrite fold_left_app. reflexivity. Qed.

  Lemma run_snoc n t l sh : run n t (l ++ [sh]) = step n t (run n t l) sh.
  Proof. apply run_from_snoc. Qed.

  Lemma senders_below_app n l1 l2 : senders_below n (l1 ++ l2) <-> senders_below n l1 /\ senders_below n l2.
  Proof. unfold senders_below. apply Forall_app. Qed.

  Lemma inv_run n t l : 1 <= t -> senders_below n l -> Inv t (run n t l) l.
  Proof.
    intros Ht. induction l as [|sh l IH] using rev_ind; intros Hb.
    - apply inv_init. exact Ht.
    - apply senders_below_app in Hb. destruct Hb as [Hb1 Hb2].
      rewrite run_snoc. apply handle_share_inv; auto.
      inversion Hb2; assumption.
  Qed.

  (* ---- C01_exactly_at_threshold ---- *)

  Lemma key_iff_threshold n t l x :
    1 <= t -> senders_below n l ->
    ((exists k, key_of (run n t l) x = Some (Some k)) <-> has_valid_from x l t) /\
    (~ has_valid_from x l t -> key_of (run n t l) x = None).
  Proof.
    intros Ht Hb. destruct (inv_run n t l Ht Hb) as [_ Hinv]. specialize (Hinv x).
    rewrite has_valid_from_dv. unfold inv_at in Hinv.
    destruct (N.of_nat (length (dv x l)) <? t) eqn:E.
    - apply N.ltb_lt in E. destruct Hinv as [Hk _]. rewrite Hk. split; [split|].
      + intros [k Hc]. discriminate.
      + intros. lia.
      + reflexivity.
    - apply N.ltb_ge in E. destruct Hinv as [Hk _]. rewrite Hk. split; [split|].
      + intros _. exact E.
      + intros _. eexists. reflexivity.
      + intros Hc. contradiction.
  Qed.

  Theorem exactly_at_threshold n t l x :
    1 <= t -> senders_below n l ->
    ((exists k, key_of (run n t l) x = Some (Some k)) <-> has_valid_from x l t) /\
    (forall l1 l2, l = l1 ++ l2 -> ~ has_valid_from x l1 t -> key_of (run n t l1) x = None).
  Proof.
    intros Ht Hb. split; [apply key_iff_threshold; assumption|].
    intros l1 l2 -> Hno. apply senders_below_app in Hb. destruct Hb as [Hb1 _].
    apply key_iff_threshold; assumption.
  Qed.

  (* ---- C01_key_is_combine_of_first_t ---- *)

  Theorem key_is_combine_of_first_t n t l x k :
    1 <= t -> senders_below n l ->
    key_of (run n t l) x = Some (Some k) ->
    k = combine (firstn (N.to_nat t) (dv x l)) /\
    good_shares n t x (firstn (N.to_nat t) (dv x l)).
  Proof.
    intros Ht Hb Hk. destruct (inv_run n t l Ht Hb) as [_ Hinv]. specialize (Hinv x).
    unfold inv_at in Hinv.
    destruct (N.of_nat (length (dv x l)) <? t) eqn:E.
    - destruct Hinv as [Hn _]. congruence.
    - destruct Hinv as [Hs _]. apply N.ltb_ge in E. split; [congruence|].
      apply dv_good; assumption.
  Qed.

  (* a stored key is never the nil pointer *)
  Lemma key_never_nil n t l x : 1 <= t -> senders_below n l -> key_of (run n t l) x <> Some None.
  Proof.
    intros Ht Hb. destruct (inv_run n t l Ht Hb) as [_ Hinv]. specialize (Hinv x).
    unfold inv_at in Hinv. destruct (N.of_nat (length (dv x l)) <? t); destruct Hinv as [H _]; congruence.
  Qed.

  (* ---- C01_junk_is_noop ---- *)

  Lemma effective_from_snoc t pre l sh :
    effective_from t pre (l ++ [sh]) =
    effective_from t pre l ++ (if counts t (pre ++ l) sh then [sh] else []).
  Proof.
    revert pre. induction l as [|a l IH]; intros pre; simpl.
    - rewrite !app_nil_r. reflexivity.
    - rewrite IH. rewrite <- !app_assoc. reflexivity.
  Qed.

  Lemma effective_snoc t l sh :
    effective t (l ++ [sh]) = effective t l ++ (if counts t l sh then [sh] else []).
  Proof. unfold effective. rewrite effective_from_snoc. reflexivity. Qed.

  Theorem junk_is_noop n t l :
    1 <= t -> senders_below n l ->
    run n t l = run n t (effective t l) /\
    (forall l1 sh l2, l = l1 ++ sh :: l2 -> counts t l1 sh = false ->
       run n t (l1 ++ [sh]) = run n t l1 /\
       forall o, nth_error (outcomes n t l) (length l1) = Some o -> o = Ok \/ o = ErrVerify \/ o = ErrDup).
  Proof.
    intros Ht Hb. split.
    - induction l as [|sh l IH] using rev_ind; [reflexivity|].
      apply senders_below_app in Hb. destruct Hb as [Hb1 Hb2]. inversion Hb2 as [|? ? Hs _]; subst.
      rewrite effective_snoc, run_snoc.
      destruct (handle_share_inv n t (run n t l) l sh Ht (inv_run n t l Ht Hb1) Hs) as [_ Hc].
      destruct (counts t l sh).
      + rewrite run_snoc. rewrite <- IH by exact Hb1. reflexivity.
      + rewrite app_nil_r. destruct Hc as [Hc _]. unfold step. rewrite Hc. apply IH. exact Hb1.
    - intros l1 sh l2 -> Hj.
      apply senders_below_app in Hb. destruct Hb as [Hb1 Hb2]. inversion Hb2 as [|? ? Hs _]; subst.
      destruct (handle_share_inv n t (run n t l1) l1 sh Ht (inv_run n t l1 Ht Hb1) Hs) as [_ Hc].
      rewrite Hj in Hc. destruct Hc as [Hc Ho]. split.
      + rewrite run_snoc. unfold step. exact Hc.
      + intros o. unfold outcomes, run in *.
        assert (Hgen : forall st, nth_error (outcomes_from n t st (l1 ++ sh :: l2)) (length l1)
                             = Some (snd (handle_share n t (run_from n t st l1) sh))).
        { clear. induction l1 as [|a l1 IH]; intros st; simpl.
          - destruct (handle_share n t st sh). reflexivity.
          - destruct (handle_share n t st a) as [st' o'] eqn:E. simpl.
            rewrite IH. unfold step. rewrite E. reflexivity. }
        rewrite Hgen. intros [= <-]. exact Ho.
  Qed.

  (* no panic, no combine error anywhere in a run whose senders are keypers of the set *)
  Theorem outcomes_benign n t l :
    1 <= t -> senders_below n l ->
    Forall (fun o => o = Ok \/ o = ErrVerify \/ o = ErrDup) (outcomes n t l).
  Proof.
    intros Ht Hb. unfold outcomes.
    assert (Hgen : forall pre st, Inv t st pre -> forall l, senders_below n l ->
              Forall (fun o => o = Ok \/ o = ErrVerify \/ o = ErrDup) (outcomes_from n t st l)).
    { intros pre st Hinv l0. revert pre st Hinv. induction l0 as [|sh l0 IH]; intros pre st Hinv Hb0; simpl; [constructor|].
      inversion Hb0 as [|? ? Hs Hb']; subst.
      destruct (handle_share_inv n t st pre sh Ht Hinv Hs) as [Hinv' Hc].
      unfold step in Hinv'. destruct (handle_share n t st sh) as [st' o]. simpl in *.
      constructor.
      - destruct (counts t pre sh); [left; exact Hc|exact (proj2 Hc)].
      - eapply IH; eassumption. }
    apply (Hgen [] init); [apply inv_init; exact Ht|exact Hb].
  Qed.
End Spec.

Arguments valid_for {V}.
Arguments dv {V}.
Arguments has_valid_from {V}.
Arguments counts {V}.
Arguments effective {V}.
Arguments senders_below {V}.
Arguments good_shares {V}.
