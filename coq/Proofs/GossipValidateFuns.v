(* The hand-written model of the core gossip validators (Model/Gossip.v, Model/GossipMisc.v)
   decides what the translator reads off the source (Generated/GossipValidateFuns.v is rewritten
   from the repository on every check of C04): the guards with their casts, the lookups and which
   error class of theirs is tested where, the slice indices, the loops, the short-circuits.

   Agreement is stated up to the class of the verdict (accept / reject / panic): the rejection
   reason is log text, and two independent guards may be written in either order. The proofs
   split on every comparison and every lookup of either side and let arithmetic close the
   contradictory combinations, so they do not depend on the order of the guards or on the names
   of locals in the source. *)
From Coq Require Import List NArith ZArith Bool Lia.
From Verif Require Import Lib.Bytes Model.EpochKGLabels Model.GossipMisc Generated.GossipValidateFuns.
Import ListNotations.
Open Scope Z_scope.

(* ---- the class of a verdict, and the parameters of the translated functions as the model
   state provides them ------------------------------------------------------------------- *)

Definition same_class (a b : gverdict) : Prop :=
  match a, b with
  | GAccept, GAccept => True
  | GReject _, GReject _ => True
  | GPanic, GPanic => True
  | _, _ => False
  end.

Definition mo (st : cstate) : gen_oracles :=
  mkGenOracles
    (Z.of_N (c_instance st)) (Z.of_N (c_maxkeys st)) (c_self st)
    (fun z => match zlookup (c_configs st) z with Some ks => (ks, ENil) | None => ([], ENoRows) end)
    (fun z => match dkg_for_config st z with Some d => (d, ENil) | None => (DkgBad, ENoRows) end)
    (fun d => match d with DkgBad => false | _ => true end)
    (fun d => match d with DkgOk e n _ => ((e, n), ENil) | _ => ((0%N, 0%N), EOther) end)
    (fun r => map (fun i => (fst r, N.of_nat i)) (seq 0 (N.to_nat (snd r))))
    (fun r => fst r)
    kv_bytes
    (fun v => match kv_lbl v with Some l => (l, ENil) | None => (LOther, EOther) end)
    (fun v => match kv_lbl v with Some l => (l, ENil) | None => (LOther, EOther) end)
    (fun s pk x => verify_share (fst pk) (snd pk) x s)
    (fun s pk x => (verify_key pk x s, ENil))
    (fun z x => match stored_key (c_keys st) z x with Some k => (k, ENil) | None => ([], ENoRows) end).

(* ---- the translator's vocabulary --------------------------------------------------------- *)

Lemma to_int32_agrees z : gen_to_int32 z = to_i32 z.
Proof. reflexivity. Qed.

Lemma to_int64_small z : 0 <= z <= 9223372036854775807 -> gen_to_int64 z = z.
Proof.
  intros H. unfold gen_to_int64. cbv zeta. rewrite Z.mod_small by lia.
  destruct (Z.ltb_spec z 9223372036854775808); lia.
Qed.

Lemma to_int64_u64 n : gen_to_int64 (Z.of_N n) = int_of_u64 n.
Proof. reflexivity. Qed.

Definition last_opt {A} (l : list A) : option A :=
  match rev l with [] => None | x :: _ => Some x end.
Lemma last_opt_snoc {A} (l : list A) x : last_opt (l ++ [x]) = Some x.
Proof. unfold last_opt. rewrite rev_app_distr. reflexivity. Qed.

Lemma gen_index_app {A} (pre : list A) p suf :
  gen_index ((pre ++ [p]) ++ suf) (Z.of_nat (length (pre ++ [p])) - 1) = Some p.
Proof.
  unfold gen_index. rewrite app_length. cbn [length].
  destruct (Z.ltb_spec (Z.of_nat (length pre + 1) - 1) 0); [lia|].
  replace (Z.to_nat (Z.of_nat (length pre + 1) - 1)) with (length pre) by lia.
  rewrite <- app_assoc. cbn [app]. clear. induction pre as [|a pre IH]; cbn [app length nth_error]; [reflexivity|exact IH].
Qed.

Lemma pk_index (ks n i : N) :
  (i < n)%N ->
  gen_index (map (fun j => (ks, N.of_nat j)) (seq 0 (N.to_nat n))) (Z.of_N i) = Some (ks, i).
Proof.
  intros H. unfold gen_index. destruct (Z.ltb_spec (Z.of_N i) 0); [lia|].
  replace (Z.to_nat (Z.of_N i)) with (N.to_nat i) by lia.
  erewrite map_nth_error with (d := N.to_nat i).
  - rewrite N2Nat.id. reflexivity.
  - rewrite nth_error_nth' with (d := O) by (rewrite seq_length; lia).
    rewrite seq_nth by lia. reflexivity.
Qed.

Definition oclass (a b : option gverdict) : Prop :=
  match a, b with
  | None, None => True
  | Some x, Some y => same_class x y
  | _, _ => False
  end.

Lemma same_class_refl v : same_class v v.
Proof. destruct v; exact I. Qed.

(* a range loop with early return against a model loop that carries the previous identity *)
Lemma range_until_loop (body : Z -> bytes * kv -> option gverdict)
      (step : option bytes -> bytes * kv -> option gverdict)
      (loop : option bytes -> list (bytes * kv) -> gverdict) (full : list (bytes * kv)) :
  (forall prev e r, loop prev (e :: r) =
                    match step prev e with Some v => v | None => loop (Some (fst e)) r end) ->
  (forall prev, loop prev [] = GAccept) ->
  (forall pre e suf, full = pre ++ e :: suf ->
                     oclass (body (Z.of_nat (length pre)) e) (step (last_opt (map fst pre)) e)) ->
  forall suf pre, full = pre ++ suf ->
    same_class (match gen_range_until body suf (Z.of_nat (length pre)) with
                | Some v => v | None => GAccept end)
               (loop (last_opt (map fst pre)) suf).
Proof.
  intros Hs Hn Hb suf. induction suf as [|e r IH]; intros pre Hf.
  - cbn. rewrite Hn. exact I.
  - cbn [gen_range_until]. rewrite Hs. specialize (Hb pre e r Hf).
    destruct (body (Z.of_nat (length pre)) e) as [v|], (step (last_opt (map fst pre)) e) as [w|];
      cbn in Hb; try contradiction; [exact Hb|].
    specialize (IH (pre ++ [e])). rewrite app_length in IH. cbn [length] in IH.
    replace (Z.of_nat (length pre + 1)) with (Z.of_nat (length pre) + 1) in IH by lia.
    rewrite map_app in IH. cbn [map] in IH. rewrite last_opt_snoc in IH. apply IH. rewrite <- app_assoc. exact Hf.
Qed.

(* ---- GetKeyperIndex ---- *)
Lemma gki_loop (self : N) (body : Z -> N -> option (Z * bool * gen_err)) :
  (forall i a, option_map (fun r => (snd (fst r), snd r)) (body i a) =
               if (self =? a)%N then Some (true, ENil) else None) ->
  forall ks i dflt,
    let r := match gen_range_until body ks i with Some r => r | None => (dflt, false, ENil) end in
    snd (fst r) = existsb (N.eqb self) ks /\ snd r = ENil.
Proof.
  intros Hb ks. induction ks as [|a ks IH]; intros i dflt; cbn.
  - auto.
  - specialize (Hb i a). destruct (body i a) as [[[x b] e]|]; cbn in Hb.
    + destruct (self =? a)%N; [|discriminate]. inversion Hb. subst. cbn. auto.
    + destruct (self =? a)%N; [discriminate|]. cbn. apply IH.
Qed.

Lemma gki_spec st z :
  let G := gen_get_keyper_index (mo st) z (c_self st) in
  snd (fst G) = match zlookup (c_configs st) (to_i32 z) with
                | Some ks => existsb (N.eqb (c_self st)) ks | None => false end /\
  snd G = match zlookup (c_configs st) (to_i32 z) with Some _ => ENil | None => ENoRows end.
Proof.
  unfold gen_get_keyper_index. cbn [mo o_batch_config o_self]. rewrite to_int32_agrees.
  destruct (zlookup (c_configs st) (to_i32 z)) as [ks|]; cbn -[gen_to_int64].
  - match goal with |- context [gen_range_until ?b ks 0] => apply (gki_loop (c_self st) b) end.
    intros i a. destruct (N.eqb_spec (c_self st) a), (N.eqb_spec a (c_self st)); try congruence; reflexivity.
  - auto.
Qed.

(* ---- splitting on every atom ------------------------------------------------------------- *)

Ltac simp :=
  cbn [mo o_instance o_max_keys o_self o_batch_config o_dkg_result o_success o_decode_dkg o_pk_shares
       o_pub_key o_raw o_decode_share o_decode_key o_verify_share o_verify_key o_decryption_key
       fst snd gen_is_nil gen_is_norows negb andb orb same_class oclass] in *.

Ltac crunch_atom :=
  match goal with
  | |- context [Z.eqb ?a ?b] => destruct (Z.eqb_spec a b)
  | |- context [Z.ltb ?a ?b] => destruct (Z.ltb_spec a b)
  | |- context [Z.leb ?a ?b] => destruct (Z.leb_spec a b)
  | |- context [N.eqb ?a ?b] => destruct (N.eqb_spec a b)
  | |- context [N.ltb ?a ?b] => destruct (N.ltb_spec a b)
  | |- context [N.leb ?a ?b] => destruct (N.leb_spec a b)
  | |- context [Nat.eqb ?a ?b] => destruct (Nat.eqb_spec a b)
  end.

Ltac strip c k :=
  lazymatch c with
  | negb ?d => strip d k
  | andb ?a _ => strip a k
  | orb ?a _ => strip a k
  | _ => k c
  end.

Ltac crunch_bool :=
  match goal with
  | |- context [if ?c then _ else _] =>
      lazymatch c with
      | context [if _ then _ else _] => fail
      | context [match _ with _ => _ end] => fail
      | _ => strip c ltac:(fun d => destruct d eqn:?)
      end
  end.

Ltac crunch_match :=
  match goal with
  | |- context [match ?x with _ => _ end] =>
      lazymatch x with
      | context [if _ then _ else _] => fail
      | context [match _ with _ => _ end] => fail
      | _ => destruct x eqn:?
      end
  end.

Ltac leaf :=
  match goal with
  | |- True => exact I
  | |- False => first [lia | congruence | discriminate]
  end.

Ltac crunch tac :=
  repeat (simp; first [ leaf | tac | crunch_atom; try (exfalso; lia) | crunch_match | crunch_bool ]).

(* ---- checkKeyShares ---- *)
Definition sh_step (ks kidx : N) (prev : option bytes) (e : bytes * kv) : option gverdict :=
  match kv_lbl (snd e) with
  | None => Some (GReject (GS RKeyDecode))
  | Some lb =>
      if negb (verify_share ks kidx (fst e) lb) then Some (GReject GShareInvalid)
      else if (match prev with Some p => bytes_ltb (fst e) p | None => false end)
           then Some (GReject (GS RKeysUnordered)) else None
  end.

Lemma shares_loop_step ks kidx prev e r :
  shares_loop ks kidx prev (e :: r) =
  match sh_step ks kidx prev e with Some v => v | None => shares_loop ks kidx (Some (fst e)) r end.
Proof.
  destruct e as [x v]. unfold sh_step. cbn [shares_loop fst snd].
  destruct (kv_lbl v); [|reflexivity]. destruct (negb _); [reflexivity|].
  destruct (match prev with Some p => bytes_ltb x p | None => false end); reflexivity.
Qed.

Ltac body_spec step :=
  let pre := fresh "pre" in let e := fresh "e" in let suf := fresh "suf" in let Hf := fresh "Hf" in
  let p0 := fresh "p" in let pre0 := fresh "pre" in
  intros pre e suf Hf; unfold step;
  destruct pre as [|p0 pre0 _] using rev_ind;
  [ change (Z.of_nat (length (@nil (bytes * kv)))) with 0; change (last_opt (map fst (@nil (bytes * kv)))) with (@None bytes)
  | rewrite ?Hf, ?map_app; cbn [map]; rewrite ?last_opt_snoc, ?gen_index_app, ?app_length; cbn [length] ].

Ltac apply_shares_loop :=
  match goal with
  | |- same_class (match gen_range_until ?b ?l 0 with Some v => v | None => GAccept end)
                  (shares_loop ?ks ?kidx None ?l) =>
      apply (range_until_loop b (sh_step ks kidx) (fun prev => shares_loop ks kidx prev) l
                              (shares_loop_step ks kidx) (fun _ => eq_refl)) with (pre := []);
      [ body_spec sh_step | reflexivity ]
  end.

Lemma gen_check_key_shares_agrees st m (ks n : N) :
  (n < 2 ^ 63)%N ->
  same_class (gen_check_key_shares (mo st) m (ks, n)) (check_key_shares ks n m).
Proof.
  intros Hn. change (2 ^ 63)%N with 9223372036854775808%N in Hn.
  unfold gen_check_key_shares, check_key_shares, gen_to_uint64. cbv zeta. simp.
  rewrite ?map_length, ?seq_length, ?N_nat_Z, ?(Z.mod_small (Z.of_N n)) by lia.
  crunch ltac:(first [ rewrite pk_index by lia | apply_shares_loop ]).
Qed.

(* ---- checkKeysErrors and the three ValidateMessage ------------------------------------- *)

Definition k_step (tbl : list (Z * bytes * bytes)) (ks : N) (eon : Z) (prev : option bytes)
           (e : bytes * kv) : option gverdict :=
  match kv_lbl (snd e) with
  | None => Some (GReject (GS RKeyDecode))
  | Some lb =>
      if (match prev with Some p => bytes_ltb (fst e) p | None => false end)
      then Some (GReject (GS RKeysUnordered))
      else if (match stored_key tbl eon (fst e) with
               | Some k => bytes_eqb (kv_bytes (snd e)) k | None => false end)
           then None
           else if verify_key ks (fst e) lb then None else Some (GReject (GS RKeyInvalid))
  end.

Lemma keys_loop_step tbl ks eon prev e r :
  keys_loop tbl ks eon prev (e :: r) =
  match k_step tbl ks eon prev e with Some v => v | None => keys_loop tbl ks eon (Some (fst e)) r end.
Proof.
  destruct e as [x v]. unfold k_step. cbn [keys_loop fst snd].
  destruct (kv_lbl v); [|reflexivity].
  destruct (match prev with Some p => bytes_ltb x p | None => false end); [reflexivity|].
  cbv zeta. destruct (match stored_key tbl eon x with Some k => bytes_eqb (kv_bytes v) k | None => false end);
    [reflexivity|]. destruct (verify_key ks x l); reflexivity.
Qed.

Ltac apply_keys_loop :=
  match goal with
  | |- same_class (match gen_range_until ?b ?l 0 with Some v => v | None => GAccept end)
                  (keys_loop ?tbl ?ks ?eon None ?l) =>
      apply (range_until_loop b (k_step tbl ks eon) (fun prev => keys_loop tbl ks eon prev) l
                              (keys_loop_step tbl ks eon) (fun _ => eq_refl)) with (pre := []);
      [ body_spec k_step | reflexivity ]
  end.

Lemma gen_check_keys_errors_agrees st m (ks n : N) :
  (km_eon m <= max_int64)%N ->
  same_class (gen_check_keys_errors (mo st) m (ks, n))
             (keys_loop (c_keys st) ks (Z.of_N (km_eon m)) None (km_keys m)).
Proof.
  intros He. change max_int64 with 9223372036854775807%N in He.
  unfold gen_check_keys_errors, gen_uint64_to_int64_safe. cbv zeta. simp.
  crunch ltac:(first [ rewrite to_int64_small by lia | apply_keys_loop ]).
Qed.

Definition dkg_small (st : cstate) : Prop :=
  forall z e n t, dkg_for_config st z = Some (DkgOk e n t) -> (n < 2 ^ 63)%N.

Ltac use_gki st :=
  match goal with
  | |- context [gen_get_keyper_index ?O ?z ?a] =>
      let H := fresh in
      pose proof (gki_spec st z) as H; cbv zeta in H;
      destruct (gen_get_keyper_index O z a) as [[? ?] ?]; cbn [fst snd] in H;
      let H1 := fresh in let H2 := fresh in destruct H as [H1 H2]; rewrite ?H1, ?H2; clear H1 H2
  end.

Ltac validators st Hsm :=
  crunch ltac:(first
    [ rewrite to_int64_small by lia
    | use_gki st
    | apply gen_check_key_shares_agrees; eapply Hsm; eassumption
    | apply gen_check_keys_errors_agrees; change max_int64 with 9223372036854775807%N; lia ]).

Theorem gen_validate_shares_agrees st m :
  dkg_small st -> same_class (gen_validate_shares (mo st) m) (validate_shares st m).
Proof.
  intros Hsm. unfold gen_validate_shares, validate_shares, validate_prelude, gen_uint64_to_int64_safe.
  change max_int64 with 9223372036854775807%N. cbv zeta. simp.
  rewrite ?(to_int64_u64 (c_maxkeys st)).
  validators st Hsm.
Qed.

Theorem gen_validate_keys_agrees st m :
  dkg_small st -> same_class (gen_validate_keys (mo st) m) (validate_keys st m).
Proof.
  intros Hsm. unfold gen_validate_keys, validate_keys, validate_prelude, gen_uint64_to_int64_safe.
  change max_int64 with 9223372036854775807%N. cbv zeta. simp.
  rewrite ?(to_int64_u64 (c_maxkeys st)).
  validators st Hsm.
Qed.

Theorem gen_validate_eonpk_agrees st m :
  same_class (gen_validate_eonpk (mo (g_core st)) m) (validate_eonpk st m).
Proof.
  unfold gen_validate_eonpk, validate_eonpk. cbv zeta. simp. crunch ltac:(fail).
Qed.

Lemma same_class_accept a b : same_class a b -> (a = GAccept <-> b = GAccept).
Proof. destruct a, b; cbn; intros H; try contradiction; split; intros E; try reflexivity; discriminate. Qed.
Lemma same_class_panic a b : same_class a b -> (a = GPanic <-> b = GPanic).
Proof. destruct a, b; cbn; intros H; try contradiction; split; intros E; try reflexivity; discriminate. Qed.
