(* The hypotheses of no_false_conviction hold in a concrete run: the two keypers of
   Proofs/DKGExamples.v, phase length 2, eon 1 started in block 2; both deal correctly in block 3,
   B accuses A in block 4 (accusing phase), A apologises with the right value in block 6
   (apologising phase).  Keyper B reads blocks 3..8; dealer 0 (A, commitment 10) stays qualified. *)
From Coq Require Import List NArith ZArith Bool Lia.
From Verif Require Import Lib.Bytes Model.DKGPure Model.DKGDriver Proofs.DKGPure Proofs.DKGChain
  Proofs.DKGLive Proofs.DKGLiveRun Proofs.DKGConvict Proofs.DKGExamples.
Import ListNotations.
Open Scope Z_scope.

Module ConvEx.
Import DkgEx.

Definition blocks2 : list (Z * list (@dev C E)) :=
  [ (1, [DBatchConfig 1%N 0%N 2%N [A; B] false]);
    (2, [DEonStarted 1%N 0%N 1%N]);
    (3, [DCommit A 1%N 10%N; DCommit B 1%N 20%N;
         DEval A 1%N [B] [Some 10%N]; DEval B 1%N [A] [Some 20%N]]);
    (4, [DAccusation B 1%N [A]]); (5, []);
    (6, [DApology A 1%N [B] [10%N]]); (7, []); (8, []) ].

Definition st0 : st C E P := (db_init, sm_fresh).
Definition pick (o : option (st C E P)) : st C E P := match o with Some x => x | None => st0 end.
Definition x2 : st C E P := Eval vm_compute in pick (run B 20%N (firstn 2 blocks2)).
Definition a_dummy : @active C E P := mkActive (new_pure 0%N 0 0%N 0) 0 false [].
Definition a2 : @active C E P :=
  Eval vm_compute in match nget (sm_dkg (snd x2)) 1%N with Some a => a | None => a_dummy end.
Definition rest : list (Z * list (@dev C E)) := skipn 2 blocks2.
Definition lchf (h : Z) : Z := h + 1.
Notation runB := (run_blocks C E P commit_of eval_of verify deg_ok valid_eval B L (fun m => m) (fun _ => 20%N) lchf).
Definition x8 : st C E P := Eval vm_compute in pick (runB x2 rest).
Definition allh : list (Z * @dev C E) := Eval vm_compute in evs_of C E rest.
Definition e1 : N := 1%N.
Definition t2 : N := 2%N.
Definition c10 : C := 10%N.
Definition h2 : Z := 2.
Definition h4 : Z := 4.

Lemma x2_is_reached : run B 20%N (firstn 2 blocks2) = Some x2.
Proof. vm_compute. reflexivity. Qed.

Lemma ex_held : held C E P e1 a2 Dealing x2 a2.
Proof.
  constructor; try (vm_compute; reflexivity).
  - vm_compute. discriminate.
  - apply keepsA_refl.
Qed.

Lemma ex_run : runB x2 rest = Some x8.
Proof. vm_compute. reflexivity. Qed.

Lemma ex_heights : forall k b, nth_error rest k = Some b -> fst b = h2 + 1 + Z.of_nat k.
Proof. intros k b. do 7 (destruct k as [|k]; [intros [= <-]; reflexivity|]). destruct k; discriminate. Qed.

Ltac cases_in := repeat match goal with H : _ \/ _ |- _ => destruct H as [H|H] | H : False |- _ => destruct H end.

Lemma ex_ucj : forall h s c', In (h, DCommit s e1 c') allh -> find_index [A; B] s 0 = Some 0%nat -> c' = c10.
Proof.
  intros h s c' H Hf. vm_compute in H. cases_in; try discriminate H; injection H as <- <- <-;
    vm_compute in Hf; try discriminate Hf; reflexivity.
Qed.

Lemma ex_lcj : exists k b s, nth_error rest k = Some b /\ h2 + 1 + Z.of_nat k < h2 + L /\
  In (DCommit s e1 c10) (snd b) /\ find_index [A; B] s 0 = Some 0%nat /\ deg_ok t2 c10 = true.
Proof. exists 0%nat, (3, snd (nth 2 blocks2 (0, []))), A. vm_compute. repeat split; auto. Qed.

Lemma ex_hv : forall h s accusers vals k ad a v,
  In (h, DApology s e1 accusers vals) allh -> find_index [A; B] s 0 = Some 0%nat ->
  nth_error accusers k = Some ad -> find_index [A; B] ad 0 = Some a -> nth_error vals k = Some v -> verify a v c10 = true.
Proof.
  intros h s accusers vals k ad a v H _ Hk Hf Hv. vm_compute in H. cases_in; try discriminate H.
  injection H as <- <- <- <-. destruct k as [|[|k]]; simpl in Hk, Hv; try discriminate.
  injection Hv as <-. reflexivity.
Qed.

Lemma ex_ha : forall h s accused ad a,
  In (h, DAccusation s e1 accused) allh -> phase_at L h h2 = Accusing ->
  find_index [A; B] s 0 = Some a -> In ad accused -> find_index [A; B] ad 0 = Some 0%nat ->
  exists h' s' accusers vals k ad' v,
    In (h', DApology s' e1 accusers vals) allh /\ phase_at L h' h2 = Apologizing /\ find_index [A; B] s' 0 = Some 0%nat /\
    nth_error accusers k = Some ad' /\ find_index [A; B] ad' 0 = Some a /\ nth_error vals k = Some v /\ valid_eval v = true.
Proof.
  intros h s accused ad a H _ Hf _ _. vm_compute in H. cases_in; try discriminate H.
  injection H as <- <- <-. vm_compute in Hf. injection Hf as <-.
  exists 6, A, [B], [10%N], 0%nat, B, 10%N. vm_compute. repeat split; auto 10.
Qed.

(* the accusation is on the chain in the accusing phase, so the hypothesis about answers is used *)
Lemma ex_accused : In (h4, DAccusation B e1 [A]) allh /\ phase_at L h4 h2 = Accusing.
Proof. vm_compute. auto 10. Qed.

Lemma ex_good : good C E P verify e1 0%nat c10 x8.
Proof.
  eapply (no_false_conviction C E P commit_of eval_of verify deg_ok valid_eval B L eq_refl (fun m => m) enum_id_ok
            (fun _ => 20%N) e1 [A; B] h2 t2 0%nat c10 allh ex_ucj a2 x2 h2 lchf rest x8).
  - reflexivity.
  - exact ex_held.
  - reflexivity.
  - reflexivity.
  - reflexivity.
  - reflexivity.
  - reflexivity.
  - reflexivity.
  - intros c'. vm_compute. discriminate.
  - unfold h2, L. lia.
  - exact ex_heights.
  - vm_compute. discriminate.
  - exact ex_run.
  - exact ex_lcj.
  - exact ex_hv.
  - exact ex_ha.
Qed.
End ConvEx.
