(* The hand-written application model agrees with what the translator reads off the source
   (Generated/AppConsts.v is rewritten from /repo on every check that lists it). *)
From Coq Require Import String.
From Coq Require Import List NArith ZArith Bool Lia.
From Verif Require Import Lib.Bytes Lib.Assoc Model.Powermap Model.App Generated.AppConsts.
Import ListNotations.
Open Scope Z_scope.

Lemma consts_agree :
  gen_max_txs_per_block = max_txs_per_block /\
  gen_code_ok = code_ok /\ gen_code_error = code_error /\ gen_code_seen = code_seen /\
  gen_power_per_keyper = 10 /\
  gen_nonexistent_validator = nonexistent_validator.
Proof. repeat split. Qed.

(* the voting power literal really is what make_powermap adds *)
Lemma power_per_keyper_used ids k :
  make_powermap ids [k] =
  [(match aget ids k with Some v => v | None => nonexistent_validator end, gen_power_per_keyper)].
Proof. unfold make_powermap. simpl. reflexivity. Qed.

Fixpoint lookup_override (tbl : list (bytes * (option Z * option N))) (chain : bytes) : option (option Z * option N) :=
  match tbl with
  | [] => None
  | (k, v) :: r => if bytes_eqb chain k then Some v else lookup_override r chain
  end.

Lemma fork_overrides_agree chain : fork_override chain = lookup_override gen_fork_overrides chain.
Proof.
  unfold fork_override, gen_fork_overrides, lookup_override.
  repeat match goal with
         | |- context [bytes_eqb chain ?k] =>
             let E := fresh "E" in destruct (bytes_eqb chain k) eqn:E; [apply bytes_eqb_eq in E|]
         end; try reflexivity; subst; try discriminate;
  repeat match goal with H : _ = _ |- _ => vm_compute in H; try discriminate H end.
Qed.

Lemma N_ltb_Z a b : (a <? b)%N = (Z.of_N a <? Z.of_N b).
Proof. destruct (a <? b)%N eqn:E1; destruct (Z.of_N a <? Z.of_N b) eqn:E2; try reflexivity;
  try (apply N.ltb_lt in E1); try (apply N.ltb_ge in E1); try (apply Z.ltb_lt in E2); try (apply Z.ltb_ge in E2); lia. Qed.
Lemma N_leb_Z a b : (a <=? b)%N = (Z.of_N a <=? Z.of_N b).
Proof. destruct (a <=? b)%N eqn:E1; destruct (Z.of_N a <=? Z.of_N b) eqn:E2; try reflexivity;
  try (apply N.leb_le in E1); try (apply N.leb_gt in E1); try (apply Z.leb_le in E2); try (apply Z.leb_gt in E2); lia. Qed.

Lemma is_fork_active_agrees o en h ch ce : gen_is_fork_active o en h ch ce = is_fork_active o en h ch ce.
Proof.
  unfold gen_is_fork_active, gen_is_fork_active_flat, is_fork_active.
  destruct o as [[[oh|] [oe|]]|], en; cbn [negb]; try reflexivity;
    try (rewrite N_leb_Z; reflexivity);
    repeat match goal with
           | |- context [Z.leb ?a ?b] => destruct (Z.leb_spec a b)
           | |- context [Z.ltb ?a ?b] => destruct (Z.ltb_spec a b)
           | |- context [N.leb ?a ?b] => rewrite (N_leb_Z a b)
           end; cbn [negb andb orb]; try reflexivity; try (exfalso; lia).
Qed.

Lemma num_required_agrees c :
  Z.of_nat (List.length (c_keypers c)) < two63 ->
  Z.of_N (num_required_transition c) =
  gen_num_required_transition (Z.of_nat (List.length (c_keypers c))) (Z.of_N (c_threshold c)).
Proof.
  (* decided by cases on every comparison atom of either side, so that a rephrased test in the
     source (n < 1 for n == 0, the comparison turned around with the branches swapped) passes *)
  intros Hlen. unfold num_required_transition, gen_num_required_transition, two63 in *. cbv zeta.
  set (n := Z.of_nat (List.length (c_keypers c))) in *.
  assert (Hn : 0 <= n) by (unfold n; lia).
  rewrite ?(Z.quot_div_nonneg (n + 2) 3) by lia.
  pose proof (Z.div_mod (n + 2) 3 ltac:(lia)) as Hdm.
  pose proof (Z.mod_pos_bound (n + 2) 3 ltac:(lia)) as Hmb.
  set (q := (n + 2) / 3) in *.
  assert (Hd : 0 < n - q + 1 <= n + 1) by lia.
  rewrite ?(Z.mod_small (n - q + 1) 18446744073709551616) by lia.
  rewrite N_leb_Z, Z2N.id by lia.
  set (t := Z.of_N (c_threshold c)).
  assert (Ht : 0 <= t) by (unfold t; lia).
  repeat match goal with
         | |- context [Z.eqb ?a ?b] => destruct (Z.eqb_spec a b)
         | |- context [Z.ltb ?a ?b] => destruct (Z.ltb_spec a b)
         | |- context [Z.leb ?a ?b] => destruct (Z.leb_spec a b)
         end;
  try reflexivity; try (rewrite Z2N.id by lia); try (fold t); try lia.
Qed.

(* Deciding boolean combinations of integer comparisons: split on every comparison atom of the
   goal, then both sides are literals, equal unless the hypotheses are contradictory. Used for
   the agreement lemmas below so that a reordering or rephrasing of the tests in the source
   (which leaves the decision unchanged) does not break them. *)
Ltac split_atoms :=
  repeat match goal with
         | |- context [Z.eqb ?a ?b] => destruct (Z.eqb_spec a b)
         | |- context [Z.ltb ?a ?b] => destruct (Z.ltb_spec a b)
         | |- context [Z.leb ?a ?b] => destruct (Z.leb_spec a b)
         end;
  cbn [negb andb orb]; try reflexivity; try (exfalso; lia).

Lemma nat_eqb0_Z n : Nat.eqb n 0 = (Z.of_nat n =? 0).
Proof. destruct n; reflexivity. Qed.
Lemma N_eqb0_Z n : N.eqb n 0 = (Z.of_N n =? 0).
Proof. destruct n; reflexivity. Qed.


(* BatchConfig.EnsureValid and ShutterApp.checkConfig, as read off the source on this run,
   decide what the model's ensure_valid / check_config decide (for slices of Go-representable
   length; the model's last conjunct is that side condition). *)
Lemma ensure_valid_agrees c :
  ensure_valid c =
  gen_ensure_valid (Z.of_nat (List.length (c_keypers c))) (Z.of_N (c_threshold c)) &&
  (Z.of_nat (List.length (c_keypers c)) <? two63).
Proof.
  unfold ensure_valid, two63. rewrite nat_eqb0_Z, N_eqb0_Z.
  set (n := Z.of_nat (List.length (c_keypers c))).
  assert (Hn : 0 <= n) by (unfold n; lia).
  set (t := Z.of_N (c_threshold c)).
  destruct (Z.ltb_spec n 9223372036854775808) as [Hlt|Hge].
  - rewrite !andb_true_r. unfold gen_ensure_valid. cbv zeta.
    rewrite ?(Z.mod_small n 18446744073709551616) by lia.
    split_atoms.
  - rewrite !andb_false_r. reflexivity.
Qed.

Lemma check_config_agrees s c lc :
  last_opt (configs s) = Some lc ->
  Z.of_nat (List.length (c_keypers c)) < two63 ->
  check_config s c =
  Some (gen_check_config (Z.of_nat (List.length (c_keypers c))) (Z.of_N (c_threshold c))
                         (Z.of_N (c_act c)) (Z.of_N (c_index c)) (Z.of_N (c_act lc)) (Z.of_N (c_index lc))).
Proof.
  intros Hl Hlen. unfold check_config, gen_check_config. rewrite Hl, ensure_valid_agrees, N_ltb_Z, N_leb_Z.
  replace (Z.of_nat (List.length (c_keypers c)) <? two63) with true by (symmetry; apply Z.ltb_lt; exact Hlen).
  rewrite andb_true_r. cbv zeta.
  destruct (gen_ensure_valid _ _); cbn [negb]; split_atoms.
Qed.

(* CheckTxState.AddTx as read off the source decides the CheckTx code of the model (for a
   transaction that passed the chain-id and executed-nonce tests before it). *)
Lemma add_tx_agrees s signer chain nonce p :
  bytes_eqb chain (chain_id s) = true -> nonce_used (nonces s) signer nonce = false ->
  snd (check_tx s (Tx signer chain nonce p)) =
  if gen_add_tx_ok (Z.of_nat (List.length (chk_members s))) (mem_addr signer (chk_members s))
                   (match aget (chk_counts s) signer with Some c => c | None => 0 end)
                   (negb (nonce_used (chk_nonces s) signer nonce))
  then 0%N else 1%N.
Proof.
  intros Hc Hn. unfold check_tx, gen_add_tx_ok. rewrite Hc, Hn. cbn [negb]. cbv zeta.
  rewrite nat_eqb0_Z.
  change gen_max_txs_per_block with max_txs_per_block.
  assert (H0 : 0 <= Z.of_nat (List.length (chk_members s))) by lia.
  destruct (mem_addr signer (chk_members s)), (nonce_used (chk_nonces s) signer nonce); split_atoms.
Qed.
