(* A small concrete instance of the DKG models, used by the non-vacuity examples of
   Properties/C07.v: commitments, evaluations and polynomials are numbers, an evaluation
   verifies against a commitment iff the numbers are equal.  Two keypers A and B (threshold 2,
   phase length 2) read the same eight blocks. *)
From Coq Require Import List NArith ZArith Bool Lia.
From Verif Require Import Lib.Bytes Model.DKGPure Model.DKGDriver Proofs.DKGPure Proofs.DKGChain.
Import ListNotations.
Open Scope Z_scope.

Module DkgEx.
Definition C := N. Definition E := N. Definition P := N.
Definition commit_of (p : P) : C := p.
Definition eval_of (p : P) (_ : nat) : E := p.
Definition verify (_ : nat) (v : E) (c : C) : bool := N.eqb v c.
Definition deg_ok (_ : N) (_ : C) : bool := true.
Definition valid_eval (_ : E) : bool := true.

Definition n1 : N := 1%N. Definition c10 : N := 10%N. Definition c20 : N := 20%N.
Definition A : addr := [1%N].
Definition B : addr := [2%N].
Definition L : Z := 2.

Definition blocks : list (Z * list (@dev C E)) :=
  [ (1, [DBatchConfig 1%N 0%N 2%N [A; B] false]);
    (2, [DEonStarted 1%N 0%N 1%N]);
    (3, [DCommit A 1%N 10%N; DCommit B 1%N 20%N;
         DEval A 1%N [B] [Some 10%N]; DEval B 1%N [A] [Some 20%N]]);
    (4, []); (5, []); (6, []); (7, []); (8, []) ].

Definition run (me : addr) (poly : N) (bs : list (Z * list (@dev C E))) :=
  run_blocks C E P commit_of eval_of verify deg_ok valid_eval me L (fun m => m) (fun _ => poly)
             (fun h => h + 1) (db_init, sm_fresh) bs.

Definition xA3 := run A 10%N (firstn 3 blocks).
Definition xB3 := run B 20%N (firstn 3 blocks).
Definition xA8 := run A 10%N blocks.
Definition xB8 := run B 20%N blocks.

Lemma enum_id_ok : enum_keys_ok C E P (fun m => m).
Proof. intros m k a H. eapply nget_in. exact H. Qed.

(* after block 3 both hold eon 1, in the dealing phase, with both commitments *)
Lemma both_hold_eon1 :
  exists x1 x2 a1 a2, xA3 = Some x1 /\ xB3 = Some x2 /\
    nget (sm_dkg (snd x1)) 1%N = Some a1 /\ nget (sm_dkg (snd x2)) 1%N = Some a2 /\
    p_phase (a_pure a1) = Dealing /\ p_commits (a_pure a1) = [Some 10%N; Some 20%N] /\
    p_me (a_pure a1) = 0%nat /\ p_me (a_pure a2) = 1%nat.
Proof. vm_compute. repeat eexists. Qed.

(* after block 8 both report success with the same qualified commitments *)
Lemma both_succeed :
  exists x1 x2 r1 r2 vs1 vs2, xA8 = Some x1 /\ xB8 = Some x2 /\
    nget (db_results _ _ _ (fst x1)) 1%N = Some r1 /\ nget (db_results _ _ _ (fst x2)) 1%N = Some r2 /\
    rs_result _ _ r1 = CResult [Some 10%N; Some 20%N] vs1 /\ rs_result _ _ r2 = CResult [Some 10%N; Some 20%N] vs2.
Proof. vm_compute. repeat eexists. Qed.

(* a finalised instance in which dealer 1 was accused by 0, apologised correctly, and dealer 2
   never committed: result with dealers 0 and 1 qualified *)
Definition d_fin : @pure C E P :=
  mkPure Finalized 1%N 3 2%N 0 (Some 10%N) [Some 10%N; Some 20%N; None] [Some 10%N; Some 99%N; None]
         [(0%nat, 1%nat)] [((0%nat, 1%nat), 20%N)].

Lemma d_fin_result :
  compute_result C E P verify d_fin = CResult [Some 10%N; Some 20%N; None] [Some 10%N; Some 20%N; None].
Proof. reflexivity. Qed.

(* an instance whose dealing went well *)
Definition d_dealt : @pure C E P :=
  mkPure Dealing 1%N 2 2%N 0 (Some 10%N) [Some 10%N; Some 20%N] [Some 10%N; Some 20%N] [] [].

Lemma d_dealt_ok : dealt_ok C E P verify d_dealt.
Proof.
  intros j Hj. destruct j as [|[|j]]; simpl in Hj.
  - exists 10%N, 10%N. repeat split.
  - exists 20%N, 20%N. repeat split.
  - exfalso. change (p_n d_dealt) with 2%nat in Hj. lia.
Qed.
End DkgEx.
