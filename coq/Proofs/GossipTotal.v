(* C04 / C05 - proofs about the combined validator, totality (no panic) of every validator and
   handler of every node flavour, the cost bounds, and the refutations for the pinned tree. *)
From Coq Require Import List NArith ZArith Bool Lia Permutation.
From Verif Require Import Lib.Bytes Lib.Assoc Model.EpochKG Model.EpochKGLabels Model.EpochKGHandler
     Model.KeysSig Model.Gossip Model.GossipMisc Proofs.KeysSig Proofs.EpochKG Proofs.EpochKGHandler Proofs.Gossip.
Import ListNotations.

(* ------------------------------------------------------------------------------------- *)
(* GetCombinedValidator *)

Lemma combine_accept_iff l : forall ig, combine ig l = VAccept <-> ig = false /\ Forall (eq VAccept) l.
Proof.
  induction l as [|v r IH]; intros ig; simpl.
  - destruct ig; split; try discriminate; try (intros [H _]; discriminate); auto.
  - destruct v.
    + rewrite IH. split; intros [H F]; (split; [exact H|]); [constructor; [reflexivity | exact F] | inversion F; assumption].
    + split; [discriminate | intros [_ F]; inversion F; discriminate].
    + rewrite IH. split; [intros [H _]; discriminate | intros [_ F]; inversion F; discriminate].
    + split; [discriminate | intros [_ F]; inversion F; discriminate].
Qed.

Lemma combine_not_panic l : forall ig, ~ In VPanic l -> combine ig l <> VPanic.
Proof.
  induction l as [|v r IH]; intros ig Hn; simpl.
  - destruct ig; discriminate.
  - destruct v; try discriminate.
    + apply IH. intros H. apply Hn. right. exact H.
    + apply IH. intros H. apply Hn. right. exact H.
    + exfalso. apply Hn. left. reflexivity.
Qed.

(* reject dominates: among results without a panic, the verdict is Reject exactly when some
   validator rejects, whatever the others say and wherever it stands *)
Lemma combine_reject_iff l : forall ig, ~ In VPanic l -> (combine ig l = VReject <-> In VReject l).
Proof.
  induction l as [|v r IH]; intros ig Hn; simpl.
  - destruct ig; split; try discriminate; intros [].
  - assert (Hr : ~ In VPanic r) by (intros H; apply Hn; right; exact H).
    destruct v.
    + rewrite (IH _ Hr). split; [intros H; right; exact H | intros [H|H]; [discriminate | exact H]].
    + split; [intros _; left; reflexivity | reflexivity].
    + rewrite (IH _ Hr). split; [intros H; right; exact H | intros [H|H]; [discriminate | exact H]].
    + exfalso. apply Hn. left. reflexivity.
Qed.

Lemma topic_eqb_eq a b : topic_eqb a b = true <-> a = b.
Proof. destruct a, b; simpl; split; intros H; try discriminate; reflexivity. Qed.

Lemma mtype_eqb_eq a b : mtype_eqb a b = true <-> a = b.
Proof. destruct a, b; simpl; split; intros H; try discriminate; reflexivity. Qed.

Lemma topic_of_type_inj a b : topic_of_type a = topic_of_type b -> a = b.
Proof. destruct a, b; simpl; intros H; try discriminate; reflexivity. Qed.

Lemma wrapped_accept_iff ty f mt w :
  wrapped ty f mt w = VAccept <->
  mt = topic_of_type ty /\ exists m, unmarshal_pubsub w = Some m /\ type_of m = ty /\ f m = GAccept.
Proof.
  unfold wrapped.
  destruct (topic_eqb mt (topic_of_type ty)) eqn:Et; simpl.
  2: { split; [discriminate|]. intros [H _]. apply topic_eqb_eq in H. congruence. }
  apply topic_eqb_eq in Et.
  destruct (unmarshal_pubsub w) as [m|].
  2: { split; [discriminate | intros [_ [m [H _]]]; discriminate]. }
  destruct (mtype_eqb (type_of m) ty) eqn:Ety; simpl.
  2: { split; [discriminate|]. intros [_ [m' [H [Hty _]]]]. injection H as <-. apply mtype_eqb_eq in Hty. congruence. }
  apply mtype_eqb_eq in Ety.
  split.
  - intros H. split; [exact Et|]. exists m. repeat split; try assumption.
    destruct (f m); simpl in H; try discriminate. reflexivity.
  - intros [_ [m' [H [_ Hf]]]]. injection H as <-. rewrite Hf. reflexivity.
Qed.

(* the combined validator of a topic accepts exactly when the pubsub topic is the validators'
   topic, the envelope decodes (version, registered type, Validate) to a message of the
   topic's type, and every registered validator accepts it *)
Theorem combined_accept_iff vs st tp mt w :
  vs <> [] -> Forall (fun v => topic_of_type (fst v) = tp) vs ->
  (combined_of vs st mt w = VAccept <->
   mt = tp /\ exists m, unmarshal_pubsub w = Some m /\ topic_of_type (type_of m) = tp /\
                        Forall (fun v => snd v st m = GAccept) vs).
Proof.
  intros Hne Htp. unfold combined_of. rewrite combine_accept_iff. split.
  - intros [_ F].
    assert (Hall : Forall (fun v : validator => wrapped (fst v) (snd v st) mt w = VAccept) vs).
    { rewrite Forall_forall in *. intros v Hv. symmetry. apply F. apply in_map_iff. exists v. split; [reflexivity | exact Hv]. }
    destruct vs as [|v0 r]; [contradiction|].
    pose proof (Forall_inv Hall) as H0. pose proof (Forall_inv Htp) as Ht0. simpl in H0, Ht0.
    apply wrapped_accept_iff in H0. destruct H0 as [Hmt [m [Hu [Hty _]]]].
    split; [rewrite Hmt; exact Ht0|]. exists m. split; [exact Hu|]. split; [rewrite Hty; exact Ht0|].
    rewrite Forall_forall in *. intros v Hv. specialize (Hall v Hv).
    apply wrapped_accept_iff in Hall. destruct Hall as [_ [m' [Hu' [_ Hf]]]]. congruence.
  - intros [Hmt [m [Hu [Hty Hall]]]]. split; [reflexivity|].
    rewrite Forall_forall in *. intros r Hr. apply in_map_iff in Hr. destruct Hr as [v [<- Hv]].
    symmetry. apply wrapped_accept_iff. split; [rewrite Hmt; symmetry; apply Htp; exact Hv|].
    exists m. split; [exact Hu|]. split; [|apply Hall; exact Hv].
    apply topic_of_type_inj. rewrite Hty. symmetry. apply Htp. exact Hv.
Qed.

Lemma validators_of_topic reg tp : Forall (fun v : validator => topic_of_type (fst v) = tp) (validators_of reg tp).
Proof.
  unfold validators_of. apply Forall_forall. intros v Hv. apply filter_In in Hv. apply topic_eqb_eq. apply Hv.
Qed.

(* ------------------------------------------------------------------------------------- *)
(* No validator panics *)

Lemma lift_not_panic v : v <> Panic -> lift v <> GPanic.
Proof. destruct v; simpl; intros H; [discriminate | discriminate | contradiction]. Qed.

Lemma validate_share_sig_not_panic st m t sg : validate_share_sig st m t sg <> GPanic.
Proof.
  unfold validate_share_sig.
  destruct (zlookup (f_ksets st) (int_of_u64 (s_eon m))) as [ks|]; [|discriminate].
  destruct (N.of_nat (length (ks_keypers ks)) <=? s_kidx m)%N eqn:E; [discriminate|].
  apply N.leb_gt in E.
  destruct (nth_error (ks_keypers ks) (N.to_nat (s_kidx m))) as [[a|]|] eqn:En; [|discriminate|].
  - destruct (1024 <? _)%nat; [discriminate|].
    destruct (check_signature _ _ _ _ _ _) as [[|]|]; discriminate.
  - apply nth_error_None in En. lia.
Qed.

Lemma validate_shares_gnosis_not_panic st m : validate_shares_gnosis st m <> GPanic.
Proof.
  unfold validate_shares_gnosis. destruct (s_extra m); try discriminate.
  destruct (_ <? _)%N; [discriminate|]. destruct (_ <? _)%N; [discriminate|]. apply validate_share_sig_not_panic.
Qed.

Lemma validate_shares_service_not_panic st m : validate_shares_service st m <> GPanic.
Proof. unfold validate_shares_service. destruct (s_extra m); try discriminate. apply validate_share_sig_not_panic. Qed.

Lemma c_validate_sigs_common_not_panic fl ks m signers sigs :
  validate_sigs_common tuple tuple_eqb (fun t => t) fl ks m signers sigs <> Panic.
Proof.
  unfold validate_sigs_common.
  destruct (negb _); [discriminate|].
  destruct (length sigs =? length signers)%nat eqn:El; simpl; [|discriminate].
  apply Nat.eqb_eq in El.
  pose proof (validate_signer_indices_not_panic signers (length (ks_keypers ks))) as Hv.
  destruct (validate_signer_indices signers (length (ks_keypers ks))); [|discriminate|contradiction].
  destruct (get_subset (ks_keypers ks) signers) as [addrs| |] eqn:Es; [|discriminate|].
  - destruct (1024 <? _)%nat; [discriminate|].
    rewrite sig_loop_walk. simpl. apply sig_walk_not_panic.
    apply get_subset_ok in Es. apply Forall2_length_eq in Es. lia.
  - exfalso. eapply get_subset_not_panic. exact Es.
Qed.

Lemma c_validate_sigs_not_panic fl ks m signers sigs : c_validate_sigs fl ks m signers sigs <> Panic.
Proof.
  unfold c_validate_sigs, validate_sigs. destruct fl; [apply c_validate_sigs_common_not_panic|].
  destruct (_ && _); [discriminate | apply c_validate_sigs_common_not_panic].
Qed.

Lemma validate_keys_gnosis_not_panic st m : validate_keys_gnosis st m <> GPanic.
Proof.
  unfold validate_keys_gnosis. apply lift_not_panic. unfold c_keyper_validate_gnosis, keyper_validate_gnosis.
  pose proof (validate_basic_not_panic (to_keysmsg no_label m)) as Hb.
  destruct (validate_basic (to_keysmsg no_label m)); [|discriminate|contradiction].
  destruct (zlookup _ _); [|discriminate]. apply c_validate_sigs_not_panic.
Qed.

Lemma validate_keys_service_not_panic st m : validate_keys_service st m <> GPanic.
Proof.
  unfold validate_keys_service. destruct (km_extra m); try discriminate.
  destruct (zlookup _ _); [|discriminate]. apply lift_not_panic. apply c_validate_sigs_not_panic.
Qed.

Lemma validate_keys_access_not_panic st m : validate_keys_access st m <> GPanic.
Proof.
  unfold validate_keys_access. apply lift_not_panic. unfold c_an_validate, an_validate.
  set (km := to_keysmsg (an_label st (km_eon m)) m).
  pose proof (an_validate_common_not_panic (g_an st) km) as Hc.
  destruct (an_validate_common (g_an st) km); [|discriminate|contradiction].
  unfold an_validate_gnosis.
  pose proof (validate_basic_not_panic km) as Hb.
  destruct (validate_basic km); [|discriminate|contradiction].
  destruct (lookup_ks _ _); [|discriminate]. apply c_validate_sigs_not_panic.
Qed.

Lemma validate_trigger_not_panic st m : validate_trigger st m <> GPanic.
Proof.
  unfold validate_trigger. destruct (negb _); [discriminate|]. destruct (_ <? _)%N; [discriminate|].
  destruct (collator_at _ _ _) as [[a [c|]]|]; try discriminate.
  destruct (t_sig m); try discriminate. destruct (_ =? _)%N; discriminate.
Qed.

Lemma validate_commit_not_panic st m : validate_commit st m <> GPanic.
Proof. unfold validate_commit. destruct (negb _); [discriminate|]. destruct (negb _); discriminate. Qed.

Lemma validate_eonpk_not_panic st m : validate_eonpk st m <> GPanic.
Proof. unfold validate_eonpk. destruct (negb _); discriminate. Qed.

(* a registered validator does not panic on a message of its own type; on any other type its
   unchecked type assertion would, which the wrapper excludes *)
Definition total_validator (v : validator) : Prop :=
  forall st m, type_of m = fst v -> snd v st m <> GPanic.

Lemma registered_total nd : Forall total_validator (registered nd).
Proof.
  assert (Hks : total_validator v_core_keys).
  { intros st [| | | |] Ht; try discriminate. simpl. apply validate_keys_not_panic. }
  assert (Hsh : total_validator v_core_shares).
  { intros st [| | | |] Ht; try discriminate. simpl. apply validate_shares_not_panic. }
  assert (Hpk : total_validator v_core_eonpk).
  { intros st [| | | |] Ht; try discriminate. simpl. apply validate_eonpk_not_panic. }
  assert (Hgs : total_validator v_gnosis_shares).
  { intros st [| | | |] Ht; try discriminate. simpl. apply validate_shares_gnosis_not_panic. }
  assert (Hgk : total_validator v_gnosis_keys).
  { intros st [| | | |] Ht; try discriminate. simpl. apply validate_keys_gnosis_not_panic. }
  assert (Hss : total_validator v_service_shares).
  { intros st [| | | |] Ht; try discriminate. simpl. apply validate_shares_service_not_panic. }
  assert (Hsk : total_validator v_service_keys).
  { intros st [| | | |] Ht; try discriminate. simpl. apply validate_keys_service_not_panic. }
  assert (Htr : total_validator v_trigger).
  { intros st [| | | |] Ht; try discriminate. simpl. apply validate_trigger_not_panic. }
  assert (Hcm : total_validator v_commit).
  { intros st [| | | |] Ht; try discriminate. simpl. apply validate_commit_not_panic. }
  assert (Hak : total_validator v_access_keys).
  { intros st [| | | |] Ht; try discriminate. simpl. apply validate_keys_access_not_panic. }
  destruct nd; unfold registered, registered_with; simpl; repeat constructor; assumption.
Qed.

Lemma wrapped_not_panic v st mt w : total_validator v -> wrapped (fst v) (snd v st) mt w <> VPanic.
Proof.
  intros Ht. unfold wrapped. destruct (negb _); [discriminate|].
  destruct (unmarshal_pubsub w) as [m|]; [|discriminate].
  destruct (mtype_eqb (type_of m) (fst v)) eqn:E; simpl; [|discriminate].
  apply mtype_eqb_eq in E. specialize (Ht st m E). destruct (snd v st m); simpl; try discriminate. contradiction.
Qed.

Theorem validate_total nd st tp mt w : combined nd st tp mt w <> VPanic.
Proof.
  unfold combined, combined_of. apply combine_not_panic. intros Hin.
  apply in_map_iff in Hin. destruct Hin as [v [Hv Hin]].
  unfold validators_for, validators_of in Hin. apply filter_In in Hin. destruct Hin as [Hin _].
  pose proof (registered_total nd) as Hall. rewrite Forall_forall in Hall.
  eapply wrapped_not_panic; [apply Hall; exact Hin | exact Hv].
Qed.

(* the pinned tree: the combined key-share validator of a core keyper panics (D1) *)
Definition d1_gstate : gstate :=
  mkGState (mkFState d1_state []) [] {| an_instance := 7; an_maxkeys := 3; an_eonkeys := []; an_keypersets := [] |} [].

Lemma legacy_validate_panics :
  legacy_combined NCore d1_gstate TpShares TpShares (WEnv envelope_version (PMsg (MShares d1_msg))) = VPanic.
Proof. vm_compute. reflexivity. Qed.

(* ------------------------------------------------------------------------------------- *)
(* Handlers *)

Lemma hseq_fin a b : hseq a b = HFin <-> a = HFin /\ b = HFin.
Proof. destruct a, b; simpl; split; intros H; try discriminate; try (destruct H; discriminate); auto. Qed.

Lemma run_handlers_fin hs o st m : forall acc,
  fold_left (fun acc h => hseq acc (if mtype_eqb (fst h) (type_of m) then snd h o st m else HFin)) hs acc = HFin <->
  acc = HFin /\ Forall (fun h : handler => fst h = type_of m -> snd h o st m = HFin) hs.
Proof.
  induction hs as [|h r IH]; intros acc; simpl.
  - split; [intros H; split; [exact H | constructor] | intros [H _]; exact H].
  - rewrite IH, hseq_fin. split.
    + intros [[Ha Hh] F]. split; [exact Ha|]. constructor; [|exact F].
      intros Et. rewrite Et in Hh. assert (mtype_eqb (type_of m) (type_of m) = true) as E by (apply mtype_eqb_eq; reflexivity).
      rewrite E in Hh. exact Hh.
    + intros [Ha F]. inversion F as [|? ? Hh F']; subst. split; [|exact F']. split; [reflexivity|].
      destruct (mtype_eqb (fst h) (type_of m)) eqn:E; [|reflexivity]. apply Hh. apply mtype_eqb_eq. exact E.
Qed.

(* signatures are indexed over the signer list: no crash when the lists have equal length *)
Lemma sig_index_loop_fin signers sigs : forall i,
  (i + length signers <= length sigs)%nat -> sig_index_loop signers sigs i = HFin.
Proof.
  induction signers as [|s r IH]; intros i Hl; simpl; [reflexivity|].
  destruct (nth_error sigs i) eqn:En.
  - apply IH. simpl in Hl. lia.
  - apply nth_error_None in En. simpl in Hl. lia.
Qed.

(* what acceptance by the signature validators says about the two list lengths *)
Lemma c_validate_sigs_common_lengths fl ks m signers sigs :
  validate_sigs_common tuple tuple_eqb (fun t => t) fl ks m signers sigs = Accept -> length sigs = length signers.
Proof.
  unfold validate_sigs_common. destruct (negb _); [discriminate|].
  destruct (length sigs =? length signers)%nat eqn:El; simpl; [|discriminate].
  intros _. apply Nat.eqb_eq. exact El.
Qed.

Lemma c_validate_sigs_lengths fl ks m signers sigs :
  c_validate_sigs fl ks m signers sigs = Accept -> length sigs = length signers.
Proof.
  unfold c_validate_sigs, validate_sigs. destruct fl; [apply c_validate_sigs_common_lengths|].
  destruct (length signers =? 0)%nat eqn:E1; destruct (length sigs =? 0)%nat eqn:E2; simpl;
    try apply c_validate_sigs_common_lengths.
  intros _. apply Nat.eqb_eq in E1, E2. lia.
Qed.

Lemma lift_accept v : lift v = GAccept -> v = Accept.
Proof. destruct v; simpl; intros H; try discriminate; reflexivity. Qed.

(* a keys message the Gnosis validator accepted (in whatever state) is handled without a crash *)
Lemma gnosis_keys_handle_total st m : validate_keys_gnosis st m = GAccept -> handle_keys_gnosis m = HFin.
Proof.
  unfold validate_keys_gnosis, handle_keys_gnosis. intros H. apply lift_accept in H.
  unfold c_keyper_validate_gnosis, keyper_validate_gnosis in H.
  destruct (validate_basic (to_keysmsg no_label m)) eqn:Eb; try discriminate.
  unfold validate_basic in Eb. simpl in Eb. unfold k_signers, k_sigs in H.
  destruct (km_extra m); simpl in Eb; try discriminate.
  destruct (zlookup _ _); [|discriminate].
  apply c_validate_sigs_lengths in H. simpl in H. apply sig_index_loop_fin. simpl. apply Nat.eq_le_incl. symmetry. exact H.
Qed.

Lemma service_keys_handle_total st m : validate_keys_service st m = GAccept -> handle_keys_service m = HFin.
Proof.
  unfold validate_keys_service, handle_keys_service.
  destruct (km_extra m); try discriminate.
  destruct (zlookup _ _); [|discriminate]. intros H. apply lift_accept in H.
  apply c_validate_sigs_lengths in H. apply sig_index_loop_fin. simpl. apply Nat.eq_le_incl. symmetry. exact H.
Qed.

Lemma gnosis_shares_handle_total st m : validate_shares_gnosis st m = GAccept -> handle_shares_gnosis m = HFin.
Proof. unfold validate_shares_gnosis, handle_shares_gnosis. destruct (s_extra m); try discriminate. reflexivity. Qed.

Lemma service_shares_handle_total st m : validate_shares_service st m = GAccept -> handle_shares_service m = HFin.
Proof. unfold validate_shares_service, handle_shares_service. destruct (s_extra m); try discriminate. reflexivity. Qed.

(* the core key-share handler: the aggregation from the share table *)

(* every stored share row carries an index inside the DKG result under which the handler
   aggregates it, and thresholds are at least one: the invariant the validators maintain
   (a row is stored only for a message they accepted, or by the keyper for itself) *)
Definition shares_in_range (st : cstate) : Prop :=
  forall eon ks n t, dkg_for_config st eon = Some (DkgOk ks n t) ->
    (1 <= t)%N /\ rows_below n (filter (fun r => (r_eon r =? eon)%Z) (c_shares st)).

Lemma aggregate_loop_no_panic (o : oracle kv) verify n t tbl eon :
  (1 <= t)%N ->
  (forall i x, rows_below n (o i (select_shares tbl eon x))) ->
  forall shares i acc,
    aggregate_loop lbl kv verify combine_l kv_lbl o n t tbl eon i shares acc <> LPanic.
Proof.
  intros Ht Hb. induction shares as [|[x raw] shares IH]; intros i acc; simpl; [discriminate|].
  rewrite (aggregate_rows_run lbl kv verify combine_l kv_lbl n t _ init (Hb i x)).
  fold (run lbl verify combine_l n t (shares_of kv_lbl (o i (select_shares tbl eon x)))).
  set (l := shares_of kv_lbl (o i (select_shares tbl eon x))).
  assert (Hs : senders_below n l) by (apply shares_of_below; apply Hb).
  pose proof (key_never_nil lbl verify combine_l n t l x Ht Hs) as Hnil.
  destruct (key_of (run lbl verify combine_l n t l) x) as [[k|]|].
  - apply IH.
  - contradiction.
  - destruct (_ <? _)%N; discriminate.
Qed.

Lemma rows_below_perm n (a b : list (share_row kv)) : Permutation a b -> rows_below n b -> rows_below n a.
Proof. intros Hp Hb. unfold rows_below in *. eapply Permutation_Forall; [apply Permutation_sym; exact Hp | exact Hb]. Qed.

Lemma select_shares_filter (tbl : list (share_row kv)) eon x n :
  rows_below n (filter (fun r => (r_eon r =? eon)%Z) tbl) -> rows_below n (select_shares tbl eon x).
Proof.
  unfold rows_below, select_shares. rewrite !Forall_forall. intros H r Hr.
  apply filter_In in Hr. destruct Hr as [Hin Hc]. apply andb_true_iff in Hc. destruct Hc as [He _].
  apply H. apply filter_In. split; assumption.
Qed.

Lemma insert_share_keeps (tbl : list (share_row kv)) r P :
  Forall P tbl -> P r -> Forall P (insert_share tbl r).
Proof.
  intros Ht Hr. unfold insert_share. destruct (existsb _ _); [exact Ht|].
  apply Forall_app. split; [exact Ht | constructor; [exact Hr | constructor]].
Qed.

Lemma u64_of_i64_of_u64 k : (k < 2 ^ 63)%N -> u64_of_i64 (i64_of_u64 k) = k.
Proof.
  intros Hk. unfold u64_of_i64, i64_of_u64.
  assert (H : (Z.of_N k < 2 ^ 63)%Z) by (change (2 ^ 63)%Z with (Z.of_N (2 ^ 63)); lia).
  rewrite (Z.mod_small (Z.of_N k)) by lia.
  destruct (Z.of_N k <? 2 ^ 63)%Z eqn:E; [|apply Z.ltb_ge in E; lia].
  rewrite Z.mod_small by lia. apply N2Z.id.
Qed.

(* the handler on a state satisfying the invariant, for a message whose sender index is
   inside the DKG result of that state, and a row order oracle that permutes *)
Theorem core_shares_handle_total (o : oracle kv) canon st m :
  perm_oracle o -> shares_in_range st ->
  (forall ks n t, dkg_for_config st (i64_of_u64 (s_eon m)) = Some (DkgOk ks n t) -> (s_kidx m < n)%N /\ (n < 2 ^ 63)%N) ->
  snd (handle_shares_core o canon st m) <> HPanic.
Proof.
  intros Ho Hinv Hk. unfold handle_shares_core, handle_message.
  set (eon := i64_of_u64 (s_eon m)).
  destruct (_ >? _)%Z; [discriminate|].
  destruct (forallb _ _); [discriminate|].
  unfold hdb at 3. simpl dkg_tbl. unfold hdkg_rows.
  destruct (dkg_for_config st eon) as [[| |ks n t]|] eqn:Ed; simpl; try rewrite Z.eqb_refl; try discriminate.
  destruct (Hinv eon ks n t Ed) as [Ht Hrows]. destruct (Hk ks n t Ed) as [Hlt Hn63].
  set (tbl := insert_share_rows (hdb st canon eon) (hmsg m)).
  assert (Hb : rows_below n (filter (fun r => (r_eon r =? eon)%Z) tbl)).
  { unfold tbl, insert_share_rows. simpl share_tbl. simpl m_shares. simpl m_eon. simpl m_kidx.
    assert (G : forall (l : list (bytes * kv)) (t0 : list (share_row kv)), rows_below n (filter (fun r => (r_eon r =? eon)%Z) t0) ->
               rows_below n (filter (fun r => (r_eon r =? eon)%Z)
                 (fold_left (fun tb s => insert_share tb (mkShareRow (i64_of_u64 (s_eon m)) (fst s) (i64_of_u64 (s_kidx m)) (snd s))) l t0))).
    { induction l as [|s l IHl]; intros t0 H0; simpl; [exact H0|]. apply IHl.
      unfold insert_share. destruct (existsb _ t0); [exact H0|].
      rewrite filter_app. unfold rows_below. apply Forall_app. split; [exact H0|].
      simpl. fold eon. rewrite Z.eqb_refl. constructor; [|constructor]. simpl.
      rewrite u64_of_i64_of_u64 by lia. exact Hlt. }
    apply G. exact Hrows. }
  pose proof (aggregate_loop_no_panic o (verify_share (hkeyset st eon)) n t tbl eon Ht) as Hnp.
  assert (Hsel : forall i x, rows_below n (o i (select_shares tbl eon x))).
  { intros i x. eapply rows_below_perm; [apply Ho|]. apply select_shares_filter. exact Hb. }
  specialize (Hnp Hsel (s_shares m) 0%nat []).
  fold tbl. simpl m_shares.
  destruct (aggregate_loop _ _ _ _ _ _ _ _ _ _ _ _ _); simpl; try discriminate. contradiction.
Qed.

(* ------------------------------------------------------------------------------------- *)
(* Cost *)

Lemma cost_prelude_bound st inst eon : (db_stmts (cost_prelude st inst eon) <= 2 /\ crypto_ops (cost_prelude st inst eon) = 0)%nat.
Proof.
  unfold cost_prelude. destruct (negb _); [simpl; lia|]. destruct (_ <? _)%N; [simpl; lia|].
  destruct (zlookup _ _); [|simpl; lia]. destruct (negb _); simpl; lia.
Qed.

Lemma cost_shares_loop_bound ks kidx l : forall prev,
  (db_stmts (cost_shares_loop ks kidx prev l) = 0 /\ crypto_ops (cost_shares_loop ks kidx prev l) <= length l)%nat.
Proof.
  induction l as [|[x v] r IH]; intros prev; simpl; [lia|].
  destruct (kv_lbl v); [|simpl; lia]. destruct (negb _); [simpl; lia|].
  destruct (match prev with Some p => bytes_ltb x p | None => false end); [simpl; lia|].
  specialize (IH (Some x)). simpl. lia.
Qed.

Lemma cost_keys_loop_bound tbl ks eon l : forall prev,
  (db_stmts (cost_keys_loop tbl ks eon prev l) <= length l /\ crypto_ops (cost_keys_loop tbl ks eon prev l) <= length l)%nat.
Proof.
  induction l as [|[x v] r IH]; intros prev; simpl; [lia|].
  destruct (kv_lbl v) as [lb|]; [|simpl; lia].
  destruct (match prev with Some p => bytes_ltb x p | None => false end); [simpl; lia|].
  specialize (IH (Some x)).
  destruct (match stored_key tbl eon x with Some k => bytes_eqb (kv_bytes v) k | None => false end); [simpl; lia|].
  destruct (verify_key ks x lb); simpl; lia.
Qed.

Theorem cost_bounds :
  (forall st m, db_stmts (cost_validate_shares st m) <= 2 /\
                crypto_ops (cost_validate_shares st m) <= length (s_shares m))%nat /\
  (forall st m, db_stmts (cost_validate_keys st m) <= 2 + length (km_keys m) /\
                crypto_ops (cost_validate_keys st m) <= length (km_keys m))%nat /\
  (forall m, db_stmts (cost_validate_shares_flavour m) <= 1 /\ crypto_ops (cost_validate_shares_flavour m) <= 1)%nat /\
  (forall m, db_stmts (cost_validate_keys_flavour m) <= 1 /\
             crypto_ops (cost_validate_keys_flavour m) <= length (k_signers m))%nat.
Proof.
  assert (Hs : forall st m, (db_stmts (cost_validate_shares st m) <= 2 /\
                crypto_ops (cost_validate_shares st m) <= length (s_shares m))%nat).
  { intros st m. unfold cost_validate_shares. pose proof (cost_prelude_bound st (s_inst m) (s_eon m)) as Hp.
    destruct (validate_prelude _ _ _ _) as [r|ks n]; [lia|]. unfold cost_add.
    destruct (_ <=? _)%N; simpl; [lia|].
    pose proof (cost_shares_loop_bound ks (s_kidx m) (s_shares m) None). lia. }
  assert (Hk : forall st m, (db_stmts (cost_validate_keys st m) <= 2 + length (km_keys m) /\
                crypto_ops (cost_validate_keys st m) <= length (km_keys m))%nat).
  { intros st m. unfold cost_validate_keys. pose proof (cost_prelude_bound st (km_inst m) (km_eon m)) as Hp.
    destruct (validate_prelude _ _ _ _) as [r|ks n]; [lia|]. unfold cost_add. simpl.
    pose proof (cost_keys_loop_bound (c_keys st) ks (Z.of_N (km_eon m)) (km_keys m) None). lia. }
  split; [exact Hs|]. split; [exact Hk|]. split.
  - intros m. simpl. lia.
  - intros m. unfold cost_validate_keys_flavour. simpl. lia.
Qed.

(* ------------------------------------------------------------------------------------- *)
(* Reject dominates, for the registered validators of a node *)
Theorem combined_reject_iff nd st tp mt w :
  combined nd st tp mt w = VReject <->
  exists v, In v (validators_for nd tp) /\ wrapped (fst v) (snd v st) mt w = VReject.
Proof.
  unfold combined, combined_of.
  assert (Hnp : ~ In VPanic (map (fun v : validator => wrapped (fst v) (snd v st) mt w) (validators_for nd tp))).
  { intros Hin. apply in_map_iff in Hin. destruct Hin as [v [Hv Hin]].
    unfold validators_for, validators_of in Hin. apply filter_In in Hin. destruct Hin as [Hin _].
    pose proof (registered_total nd) as Hall. rewrite Forall_forall in Hall.
    eapply wrapped_not_panic; [apply Hall; exact Hin | exact Hv]. }
  rewrite (combine_reject_iff _ false Hnp). rewrite in_map_iff. split.
  - intros [v [Hv Hin]]. exists v. split; assumption.
  - intros [v [Hin Hv]]. exists v. split; assumption.
Qed.

(* the verdict is one of accept / reject / ignore, and ignore never arises from these validators *)
Lemma combine_two l : ~ In VPanic l -> ~ In VIgnore l -> combine false l = VAccept \/ combine false l = VReject.
Proof.
  induction l as [|v r IH]; intros Hp Hi; simpl.
  - left. reflexivity.
  - destruct v.
    + apply IH; intros H; [apply Hp | apply Hi]; right; exact H.
    + right. reflexivity.
    + exfalso. apply Hi. left. reflexivity.
    + exfalso. apply Hp. left. reflexivity.
Qed.

Theorem combined_verdicts nd st tp mt w :
  combined nd st tp mt w = VAccept \/ combined nd st tp mt w = VReject.
Proof.
  unfold combined, combined_of. apply combine_two.
  - intros Hin. apply in_map_iff in Hin. destruct Hin as [v [Hv Hin]].
    unfold validators_for, validators_of in Hin. apply filter_In in Hin. destruct Hin as [Hin _].
    pose proof (registered_total nd) as Hall. rewrite Forall_forall in Hall.
    eapply wrapped_not_panic; [apply Hall; exact Hin | exact Hv].
  - intros Hin. apply in_map_iff in Hin. destruct Hin as [v [Hv _]]. unfold wrapped in Hv.
    destruct (negb _); [discriminate|]. destruct (unmarshal_pubsub w) as [m|]; [|discriminate].
    destruct (negb _); [discriminate|]. destruct (snd v st m); discriminate.
Qed.
