(* Proofs about Model/HttpGuard.v, for any operation table that passes the boolean
   well-formedness checks defined here.  Proofs/HttpGuardTable.v evaluates the checks on the
   regenerated table (Generated/OapiTable.v). *)
From Coq Require Import List NArith Bool Lia Permutation PeanoNat.
From Verif Require Import Lib.Bytes Model.HttpGuard.
Import ListNotations.
Open Scope N_scope.

(* ------------------------------------------------------------------------------------- *)
(* small facts about the helpers *)

Lemma bytes_mem_In x l : bytes_mem x l = true <-> In x l.
Proof.
  induction l as [|y l IH]; simpl.
  - split; [discriminate | intros []].
  - rewrite orb_true_iff, IH, bytes_eqb_eq. split; intros [H|H]; auto.
Qed.

Lemma has_prefix_split p s : has_prefix p s = true -> s = p ++ skipn (List.length p) s.
Proof.
  revert s; induction p as [|a p IH]; intros s H; simpl in *.
  - reflexivity.
  - destruct s as [|b s]; [discriminate|].
    apply andb_true_iff in H as [H1 H2]. apply N.eqb_eq in H1. subst b.
    simpl. f_equal. apply IH, H2.
Qed.

Lemma has_prefix_app p s : has_prefix p (p ++ s) = true.
Proof. induction p as [|a p IH]; simpl; [reflexivity|]. rewrite N.eqb_refl. exact IH. Qed.

Lemma skipn_app_exact {A} (p s : list A) : skipn (List.length p) (p ++ s) = s.
Proof. induction p; simpl; auto. Qed.

Lemma trim_prefix_app p s : trim_prefix p (p ++ s) = s.
Proof. unfold trim_prefix. rewrite has_prefix_app. apply skipn_app_exact. Qed.

Lemma find_some_in {A} (P : A -> bool) l x : find P l = Some x -> In x l /\ P x = true.
Proof. apply find_some. Qed.

(* ------------------------------------------------------------------------------------- *)
(* net/url *)

Definition no_percent (s : bytes) : bool := forallb (fun c => negb (N.eqb c c_percent)) s.

Lemma unescape_cons_plain c r :
  N.eqb c c_percent = false ->
  unescape (c :: r) = match unescape r with Some t => Some (c :: t) | None => None end.
Proof. intros H. simpl. rewrite H. reflexivity. Qed.

Lemma unescape_app_plain a b :
  no_percent a = true ->
  unescape (a ++ b) = match unescape b with Some t => Some (a ++ t) | None => None end.
Proof.
  induction a as [|c a IH]; intros H.
  - simpl. destruct (unescape b); reflexivity.
  - simpl in H. apply andb_true_iff in H as [Hc Ha]. apply negb_true_iff in Hc.
    change ((c :: a) ++ b) with (c :: (a ++ b)). rewrite (unescape_cons_plain _ _ Hc), (IH Ha).
    destruct (unescape b); reflexivity.
Qed.

Lemma unescape_plain a : no_percent a = true -> unescape a = Some a.
Proof.
  intros H. pose proof (unescape_app_plain a [] H) as E. simpl in E. rewrite !app_nil_r in E. exact E.
Qed.

Lemma parse_path_inv raw path rawpath :
  parse_path raw = Some (path, rawpath) ->
  unescape raw = Some path /\ (rawpath = [] \/ rawpath = raw).
Proof.
  unfold parse_path. destruct (has_ctl raw); [discriminate|].
  destruct (unescape raw) as [p|]; [|discriminate].
  intros H. injection H as <- <-. split; [reflexivity|].
  destruct (bytes_eqb raw (escape p)); auto.
Qed.

(* ------------------------------------------------------------------------------------- *)
(* how the path the guard sees (p2) relates to the path the api router routes on (irp) *)

Lemma strip_prefix_inv pfx path rawpath p2 rp2 :
  strip_prefix pfx path rawpath = Some (p2, rp2) -> p2 = trim_prefix pfx path /\ path <> [].
Proof.
  unfold strip_prefix.
  destruct (Nat.ltb (List.length (trim_prefix pfx path)) (List.length path)) eqn:E; simpl; [|discriminate].
  destruct (is_nil rawpath || _); [|discriminate].
  intros H. injection H as <- _. split; [reflexivity|].
  intros ->. unfold trim_prefix in E. destruct (has_prefix pfx []); destruct pfx; simpl in E; discriminate.
Qed.

Lemma has_prefix_slash pfx x :
  has_prefix (pfx ++ [c_slash]) x = true -> x = (pfx ++ [c_slash]) ++ skipn (S (List.length pfx)) x.
Proof.
  intros H. apply has_prefix_split in H. rewrite app_length in H.
  change (List.length [c_slash]) with 1%nat in H. rewrite Nat.add_1_r in H. exact H.
Qed.

Lemma mount_relation pfx m path rawpath raw irp p2 rp2 :
  no_percent pfx = true ->
  unescape raw = Some path -> (rawpath = [] \/ rawpath = raw) ->
  outer_route pfx m (route_path_of path rawpath) = OuterMount irp ->
  strip_prefix pfx path rawpath = Some (p2, rp2) ->
  (irp = [c_slash] /\ p2 = []) \/ p2 = irp \/ unescape irp = Some p2.
Proof.
  intros Hpfx Hun Hraw Hout Hstrip.
  apply strip_prefix_inv in Hstrip as [-> Hne].
  unfold outer_route in Hout.
  destruct (negb (bytes_mem m chi_methods)); [discriminate|].
  assert (Hslash : no_percent [c_slash] = true) by reflexivity.
  assert (Hpfxs : no_percent (pfx ++ [c_slash]) = true).
  { unfold no_percent. rewrite forallb_app. fold (no_percent pfx). rewrite Hpfx. reflexivity. }
  (* the route path is either the decoded path or the raw one *)
  assert (Hrp : (route_path_of path rawpath = path /\ True) \/
                (route_path_of path rawpath = raw /\ raw <> [] /\ rawpath = raw)).
  { unfold route_path_of. destruct Hraw as [-> | ->].
    - left. simpl. destruct path; [contradiction|]. auto.
    - destruct raw as [|c r].
      + left. simpl. destruct path; [contradiction|]. auto.
      + right. simpl. repeat split; auto. discriminate. }
  destruct Hrp as [[Erp _] | [Erp [Hrne Erw]]]; rewrite Erp in Hout.
  - (* routed on the decoded path: the guard sees the same text *)
    destruct (bytes_eqb path pfx || bytes_eqb path (pfx ++ [c_slash])) eqn:E1.
    + injection Hout as <-. apply orb_true_iff in E1 as [E|E]; apply bytes_eqb_eq in E; subst path.
      * left. split; [reflexivity|]. pose proof (trim_prefix_app pfx []) as T. rewrite app_nil_r in T. exact T.
      * right. left. apply trim_prefix_app.
    + destruct (has_prefix (pfx ++ [c_slash]) path) eqn:E2; [|discriminate].
      apply has_prefix_slash in E2. set (s := skipn (S (List.length pfx)) path) in *.
      injection Hout as <-.
      right. left. rewrite E2. rewrite <- app_assoc. rewrite trim_prefix_app. reflexivity.
  - (* routed on RawPath: the guard sees its unescaped form *)
    destruct (bytes_eqb raw pfx || bytes_eqb raw (pfx ++ [c_slash])) eqn:E1.
    + injection Hout as <-. apply orb_true_iff in E1 as [E|E]; apply bytes_eqb_eq in E; subst raw.
      * rewrite (unescape_plain _ Hpfx) in Hun. injection Hun as <-.
        left. split; [reflexivity|]. pose proof (trim_prefix_app pfx []) as T. rewrite app_nil_r in T. exact T.
      * rewrite (unescape_plain _ Hpfxs) in Hun. injection Hun as <-.
        right. left. apply trim_prefix_app.
    + destruct (has_prefix (pfx ++ [c_slash]) raw) eqn:E2; [|discriminate].
      apply has_prefix_slash in E2. set (s := skipn (S (List.length pfx)) raw) in *.
      injection Hout as <-.
      rewrite E2 in Hun. rewrite (unescape_app_plain _ _ Hpfxs) in Hun.
      destruct (unescape s) as [s'|] eqn:Es; [|discriminate]. injection Hun as <-.
      right. right. rewrite <- app_assoc. rewrite trim_prefix_app.
      change (c_slash :: s) with ([c_slash] ++ s). rewrite (unescape_app_plain _ _ Hslash), Es. reflexivity.
Qed.

(* ------------------------------------------------------------------------------------- *)
(* split / templates *)

Fixpoint join_slash (l : list bytes) : bytes :=
  match l with
  | [] => []
  | [x] => x
  | x :: r => x ++ c_slash :: join_slash r
  end.

Lemma split_slash_nonempty s : split_slash s <> [].
Proof.
  destruct s as [|c r]; simpl; [discriminate|].
  destruct (N.eqb c c_slash); [discriminate|]. destruct (split_slash r); discriminate.
Qed.

Lemma join_cons2 x y l : join_slash (x :: y :: l) = x ++ c_slash :: join_slash (y :: l).
Proof. reflexivity. Qed.

Lemma split_slash_cons c r :
  split_slash (c :: r) =
  if N.eqb c c_slash then [] :: split_slash r
  else match split_slash r with cur :: rest => (c :: cur) :: rest | [] => [[c]] end.
Proof. reflexivity. Qed.

Lemma join_split s : join_slash (split_slash s) = s.
Proof.
  induction s as [|c r IH]; [reflexivity|].
  rewrite split_slash_cons. pose proof (split_slash_nonempty r) as Hn.
  destruct (split_slash r) as [|x l]; [contradiction|].
  destruct (N.eqb c c_slash) eqn:E.
  - apply N.eqb_eq in E. subst c. rewrite join_cons2, IH. reflexivity.
  - destruct l as [|y l].
    + simpl in *. rewrite IH. reflexivity.
    + rewrite join_cons2 in *. rewrite <- IH. reflexivity.
Qed.

Lemma split_slash_inj a b : split_slash a = split_slash b -> a = b.
Proof. intros H. rewrite <- (join_split a), <- (join_split b), H. reflexivity. Qed.

Lemma parse_seg_lit s l : parse_seg s = Some (SLit l) -> l = s.
Proof.
  unfold parse_seg. destruct s as [|c r]; [intros H; injection H as <-; reflexivity|].
  destruct (N.eqb c c_lbrace).
  - destruct (rev r) as [|e nr]; [discriminate|].
    destruct (N.eqb e c_rbrace && negb (is_nil nr) && forallb name_char_ok nr); discriminate.
  - destruct (forallb lit_char_ok (c :: r)); [|discriminate]. intros H. injection H as <-. reflexivity.
Qed.

Lemma parse_segs_all_lit l ps :
  parse_segs l = Some ps -> forallb seg_is_lit ps = true -> ps = map SLit l.
Proof.
  revert ps; induction l as [|s l IH]; intros ps H Hl; simpl in H.
  - injection H as <-. reflexivity.
  - destruct (parse_seg s) as [x|] eqn:Ex; [|discriminate].
    destruct (parse_segs l) as [xs|] eqn:Exs; [|discriminate].
    injection H as <-. simpl in Hl. apply andb_true_iff in Hl as [H1 H2].
    destruct x as [lit|nm]; [|discriminate]. apply parse_seg_lit in Ex. subst lit.
    simpl. f_equal. apply IH; auto.
Qed.

Lemma chi_match_segs_lits l vs : chi_match_segs (map SLit l) vs = true -> vs = l.
Proof.
  revert vs; induction l as [|x l IH]; intros vs H; destruct vs as [|v vs]; simpl in H; try discriminate.
  - reflexivity.
  - apply andb_true_iff in H as [H1 H2]. apply bytes_eqb_eq in H1. subst. f_equal. apply IH, H2.
Qed.

Definition all_literal (t : bytes) : bool :=
  match parse_template t with
  | Some ps => forallb seg_is_lit ps
  | None => false
  end.

(* a pattern without parameters is matched by exactly its own text *)
Lemma chi_match_all_literal t rp : all_literal t = true -> chi_match t rp = true -> rp = t.
Proof.
  unfold all_literal, chi_match. destruct (parse_template t) as [ps|] eqn:Ep; [|discriminate].
  intros Hl Hm. unfold parse_template in Ep. destruct t as [|c r]; [discriminate|].
  destruct (N.eqb c c_slash) eqn:Ec; [|discriminate]. apply N.eqb_eq in Ec. subst c.
  destruct rp as [|c' r']; [discriminate|]. apply andb_true_iff in Hm as [Hc Hm].
  apply N.eqb_eq in Hc. subst c'.
  rewrite (parse_segs_all_lit _ _ Ep Hl) in Hm. apply chi_match_segs_lits in Hm.
  f_equal. apply split_slash_inj. exact Hm.
Qed.

(* ------------------------------------------------------------------------------------- *)
(* chi_find returns one of the registered routes that match method and path *)

Lemma best_route_in cur rest : In (best_route cur rest) (cur :: rest).
Proof.
  revert cur; induction rest as [|r rest IH]; intros cur; simpl; [auto|].
  destruct (IH (if pattern_before (r_pattern r) (r_pattern cur) then r else cur)) as [H|H]; [|auto].
  destruct (pattern_before (r_pattern r) (r_pattern cur)); rewrite <- H; auto.
Qed.

Lemma chi_find_found routes m rp r :
  chi_find routes m rp = ChiFound r ->
  In r routes /\ r_method r = m /\ chi_match (r_pattern r) rp = true.
Proof.
  unfold chi_find.
  set (cands := filter (fun r0 => chi_match (r_pattern r0) rp) routes).
  destruct (filter (fun r0 => bytes_eqb (r_method r0) m) cands) as [|x rest] eqn:E.
  - destruct (is_nil cands); discriminate.
  - intros H. injection H as <-.
    pose proof (best_route_in x rest) as Hin. rewrite <- E in Hin.
    apply filter_In in Hin as [Hin Hm]. apply filter_In in Hin as [Hin Hc].
    apply bytes_eqb_eq in Hm. auto.
Qed.

(* ------------------------------------------------------------------------------------- *)
(* table lookups *)

Lemma lookup_op_some ops m t o :
  lookup_op ops m t = Some o -> In o ops /\ op_method o = m /\ op_template o = t.
Proof.
  induction ops as [|x ops IH]; simpl; [discriminate|].
  destruct (bytes_eqb (op_method x) m && bytes_eqb (op_template x) t) eqn:E.
  - intros H. injection H as <-. apply andb_true_iff in E as [E1 E2].
    apply bytes_eqb_eq in E1, E2. auto.
  - intros H. destruct (IH H) as [? [? ?]]. auto.
Qed.

Definition ro_eqb (a b : rokind) : bool :=
  match a, b with
  | RoAbsent, RoAbsent | RoTrue, RoTrue | RoFalse, RoFalse | RoOther, RoOther => true
  | _, _ => false
  end.

Lemma ro_eqb_eq a b : ro_eqb a b = true -> a = b.
Proof. destruct a, b; simpl; congruence. Qed.

(* oapi.yaml and the embedded spec list the same operations (operationIds up to the
   capitalisation oapi-codegen applies) *)
Fixpoint ops_agree (a b : list spec_op) : bool :=
  match a, b with
  | [], [] => true
  | x :: a', y :: b' =>
      bytes_eqb (op_method x) (op_method y) && bytes_eqb (op_template x) (op_template y)
      && ro_eqb (op_ro x) (op_ro y) && bytes_eqb (ucfirst (op_id x)) (ucfirst (op_id y))
      && ops_agree a' b'
  | _, _ => false
  end.

Lemma ops_agree_lookup a b m t ob :
  ops_agree a b = true -> lookup_op b m t = Some ob ->
  exists oa, lookup_op a m t = Some oa /\ op_ro oa = op_ro ob.
Proof.
  revert b; induction a as [|x a IH]; intros [|y b] H Hl; simpl in H; try discriminate.
  apply andb_true_iff in H as [H Hrest]. apply andb_true_iff in H as [H Hid].
  apply andb_true_iff in H as [H Hro]. apply andb_true_iff in H as [Hm Ht].
  apply bytes_eqb_eq in Hm, Ht. apply ro_eqb_eq in Hro.
  simpl in *. rewrite Hm, Ht.
  destruct (bytes_eqb (op_method y) m && bytes_eqb (op_template y) t).
  - injection Hl as <-. eauto.
  - eapply IH; eauto.
Qed.

(* ------------------------------------------------------------------------------------- *)
(* the guard *)

(* what the guard answers once the path item (template t) is found *)
Definition guard_status (tbl : table) (enable_write : bool) (m t : bytes) : guard_result :=
  match assoc_bytes (t_guard_switch tbl) m with
  | None => GuardNotFound
  | Some sm =>
      match lookup_op (t_embedded_ops tbl) sm t with
      | None => GuardNotFound
      | Some o => if t_should_enable tbl (is_read_only (op_ro o)) enable_write then GuardPass else GuardForbidden
      end
  end.

Lemma guard_unfold tbl ew e1 e2 p m :
  guard tbl ew e1 e2 p m =
  match find_item (templates_of (t_embedded_ops tbl)) e1 e2 p with
  | None => GuardNotFound
  | Some t => guard_status tbl ew m t
  end.
Proof. reflexivity. Qed.

Lemma find_item_cases templates e1 e2 p t :
  find_item templates e1 e2 p = Some t ->
  t = p \/ norm_eq t p = true \/ regex_match t p = true.
Proof.
  unfold find_item. destruct (bytes_mem p templates).
  - intros H. injection H as <-. auto.
  - destruct (find (fun t0 => norm_eq t0 p) e1) as [x|] eqn:E1.
    + intros H. injection H as <-. apply find_some in E1 as [_ E1]. auto.
    + intros H. apply find_some in H as [_ H]. auto.
Qed.

Lemma assoc_bytes_some l k v : assoc_bytes l k = Some v -> exists k', In (k', v) l /\ k' = k.
Proof.
  induction l as [|[a b] l IH]; simpl; [discriminate|].
  destruct (bytes_eqb a k) eqn:E.
  - intros H. injection H as <-. apply bytes_eqb_eq in E. eauto.
  - intros H. destruct (IH H) as [k' [? ?]]. eauto.
Qed.

Lemma dedup_in x l : In x (dedup l) <-> In x l.
Proof.
  induction l as [|y l IH]; simpl; [tauto|].
  destruct (bytes_mem y l) eqn:E.
  - rewrite IH. split; [auto|]. intros [->|H]; [apply bytes_mem_In; exact E | exact H].
  - simpl. rewrite IH. tauto.
Qed.

(* ------------------------------------------------------------------------------------- *)
(* well-formedness of a table, as far as soundness needs it (all of it is computed) *)

Definition route_risky (tbl : table) (r : route) : bool :=
  negb (route_marked_read_only tbl r) || bytes_mem (r_handler r) (critical_handlers tbl).

Definition unescape_is_id (t : bytes) : bool :=
  match unescape t with Some u => bytes_eqb u t | None => false end.

Definition template_ok (t : bytes) : bool :=
  match parse_template t with Some _ => true | None => false end.

Definition wf_sound (tbl : table) : bool :=
  (* the mount prefix contains no escape *)
  no_percent (t_mount tbl)
  (* every template / pattern has the shape the model covers *)
  && forallb (fun o => template_ok (op_template o)) (t_embedded_ops tbl)
  && forallb (fun r => template_ok (r_pattern r)) (t_routes tbl)
  (* the document and the embedded copy agree *)
  && ops_agree (t_yaml_ops tbl) (t_embedded_ops tbl)
  (* every registered route is the route of an operation of the spec, served by the handler
     named after it *)
  && forallb (fun r => match lookup_op (t_embedded_ops tbl) (r_method r) (r_pattern r) with
                       | Some o => bytes_eqb (ucfirst (op_id o)) (r_handler r)
                       | None => false
                       end) (t_routes tbl)
  (* findOperation returns the operation of the request's own method *)
  && forallb (fun p => bytes_eqb (fst p) (snd p)) (t_guard_switch tbl)
  (* shouldEnableEndpoint lets pass exactly: read-only, or write operations enabled *)
  && forallb (fun a => forallb (fun b => Bool.eqb (t_should_enable tbl a b) (a || b)) [true; false]) [true; false]
  (* a route whose operation is not marked read-only (or that the property names, or that
     sends on the channels) has a parameter-free path that is its own unescaped form - or no
     read-only operation with its method exists at all *)
  && forallb (fun r => negb (route_risky tbl r)
                       || (all_literal (r_pattern r) && unescape_is_id (r_pattern r))
                       || negb (existsb (fun o => bytes_eqb (op_method o) (r_method r) && is_read_only (op_ro o))
                                        (t_embedded_ops tbl))) (t_routes tbl)
  (* the named / sending handlers are not marked read-only, and they exist *)
  && forallb (fun r => negb (bytes_mem (r_handler r) (critical_handlers tbl)) || negb (route_marked_read_only tbl r))
             (t_routes tbl)
  && forallb (fun h => existsb (fun r => bytes_eqb (r_handler r) h) (t_routes tbl)) (critical_handlers tbl).

Ltac split_wf H :=
  repeat match type of H with
         | (_ && _) = true => let H' := fresh "W" in apply andb_true_iff in H as [H H']
         end.

Lemma forallb_In {A} (f : A -> bool) l x : forallb f l = true -> In x l -> f x = true.
Proof. intros H Hin. rewrite forallb_forall in H. auto. Qed.

Lemma should_enable_spec tbl a b :
  forallb (fun a => forallb (fun b => Bool.eqb (t_should_enable tbl a b) (a || b)) [true; false]) [true; false] = true ->
  t_should_enable tbl a b = (a || b).
Proof.
  intros H. simpl in H. rewrite !andb_true_r in H.
  apply andb_true_iff in H as [H1 H2].
  apply andb_true_iff in H1 as [H11 H12]. apply andb_true_iff in H2 as [H21 H22].
  destruct a, b; apply eqb_prop; assumption.
Qed.

(* With write operations disabled, whatever the validator does and in whatever order the
   spec's map is enumerated: a dispatched route is marked read-only and is not one of the
   critical handlers. *)
Theorem guard_sound tbl validator e1 e2 m raw r :
  wf_sound tbl = true ->
  serve tbl validator false e1 e2 m raw = VDispatch r ->
  route_marked_read_only tbl r = true /\ ~ In (r_handler r) (critical_handlers tbl).
Proof.
  intros W H. unfold wf_sound in W. split_wf W.
  rename W into Wpfx, W8 into Wtpl, W7 into Wpat, W6 into Wagree, W5 into Wroutes,
         W4 into Wsw, W3 into Wse, W2 into Wrisky, W1 into Wcrit, W0 into Wexist.
  unfold serve in H.
  destruct (parse_path raw) as [[path rawpath]|] eqn:Hp; [|discriminate].
  destruct (outer_route (t_mount tbl) m (route_path_of path rawpath)) as [| |irp] eqn:Ho; try discriminate.
  destruct (strip_prefix (t_mount tbl) path rawpath) as [[p2 rp2]|] eqn:Hs; [|discriminate].
  destruct (negb (validator m p2 rp2)); [discriminate|].
  destruct (guard tbl false e1 e2 p2 m) eqn:Hg; try discriminate.
  destruct (chi_find (t_routes tbl) m irp) as [r'| |] eqn:Hc; try discriminate.
  injection H as ->.
  apply chi_find_found in Hc as [Hin [Hm Hmatch]].
  (* the guard passed: it found a template t with a read-only operation for method m *)
  rewrite guard_unfold in Hg.
  destruct (find_item (templates_of (t_embedded_ops tbl)) e1 e2 p2) as [t|] eqn:Hf; [|discriminate].
  unfold guard_status in Hg.
  destruct (assoc_bytes (t_guard_switch tbl) m) as [sm|] eqn:Ha; [|discriminate].
  apply assoc_bytes_some in Ha as [k' [Hk ->]].
  pose proof (forallb_In _ _ _ Wsw Hk) as Esm. simpl in Esm. apply bytes_eqb_eq in Esm. subst sm.
  destruct (lookup_op (t_embedded_ops tbl) m t) as [o|] eqn:Hl; [|discriminate].
  rewrite (should_enable_spec _ _ _ Wse), orb_false_r in Hg.
  destruct (is_read_only (op_ro o)) eqn:Hro; [|discriminate].
  pose proof (lookup_op_some _ _ _ _ Hl) as [Hoin [Hom Hot]].
  (* facts about the dispatched route *)
  pose proof (forallb_In _ _ _ Wcrit Hin) as Hcr.
  pose proof (forallb_In _ _ _ Wrisky Hin) as Hrk.
  cbv beta in Hcr, Hrk.
  assert (Hdone : route_risky tbl r = false ->
                  route_marked_read_only tbl r = true /\ ~ In (r_handler r) (critical_handlers tbl)).
  { unfold route_risky. intros E. apply orb_false_iff in E as [E1 E2].
    apply negb_false_iff in E1. split; [exact E1|].
    intros Hc. apply bytes_mem_In in Hc. congruence. }
  destruct (route_risky tbl r) eqn:Hrisky; [|auto].
  exfalso. simpl in Hrk.
  apply orb_true_iff in Hrk as [Hrk | Hrk].
  - (* parameter-free path *)
    apply andb_true_iff in Hrk as [Hlit Hid].
    pose proof (chi_match_all_literal _ _ Hlit Hmatch) as ->.
    apply parse_path_inv in Hp as [Hun Hraw].
    pose proof (mount_relation _ _ _ _ _ _ _ _ Wpfx Hun Hraw Ho Hs) as Hrel.
    assert (Hp2 : p2 = r_pattern r \/ p2 = []).
    { destruct Hrel as [[_ ->] | [-> | Hu]]; auto.
      unfold unescape_is_id in Hid. rewrite Hu in Hid. apply bytes_eqb_eq in Hid. auto. }
    (* the route's own operation in the spec *)
    pose proof (forallb_In _ _ _ Wroutes Hin) as Hrt. simpl in Hrt.
    destruct (lookup_op (t_embedded_ops tbl) (r_method r) (r_pattern r)) as [o'|] eqn:Hl'; [|discriminate].
    pose proof (lookup_op_some _ _ _ _ Hl') as [Hoin' [Hom' Hot']].
    destruct Hp2 as [-> | ->].
    + (* the guard looked the route's own path up: exact hit on the route's template *)
      assert (Et : t = r_pattern r).
      { unfold find_item in Hf.
        assert (Hmem : bytes_mem (r_pattern r) (templates_of (t_embedded_ops tbl)) = true).
        { apply bytes_mem_In. unfold templates_of. apply dedup_in. rewrite <- Hot'. apply in_map, Hoin'. }
        rewrite Hmem in Hf. injection Hf as <-. reflexivity. }
      rewrite Et in Hl. rewrite Hm in Hl'. rewrite Hl' in Hl. injection Hl as ->.
      (* so the route's operation is read-only in the document too *)
      destruct (ops_agree_lookup _ _ _ _ _ Wagree Hl') as [oa [Hla Hroa]].
      assert (Hmarked : route_marked_read_only tbl r = true).
      { unfold route_marked_read_only, route_op. rewrite Hm, Hla, Hroa. exact Hro. }
      unfold route_risky in Hrisky. rewrite Hmarked in Hrisky, Hcr. cbn [negb orb] in Hrisky.
      rewrite Hrisky in Hcr. discriminate.
    + (* the guard saw the empty path: nothing can be found for it *)
      pose proof (forallb_In _ _ _ Wtpl Hoin) as Hok. simpl in Hok. rewrite Hot in Hok.
      unfold template_ok in Hok. destruct (parse_template t) as [ps|] eqn:Ept; [|discriminate].
      unfold parse_template in Ept. destruct t as [|c tl]; [discriminate|].
      destruct (N.eqb c c_slash) eqn:Ec; [|discriminate].
      apply find_item_cases in Hf as [Hf | [Hf | Hf]].
      * discriminate.
      * unfold norm_eq in Hf. simpl in Hf.
        apply N.eqb_eq in Ec. subst c. change (N.eqb c_slash c_lbrace) with false in Hf. cbv iota in Hf.
        destruct (normalize tl false) as [tn tc]. apply andb_true_iff in Hf as [_ Hf]. discriminate.
      * unfold regex_match in Hf. destruct (parse_template (c :: tl)); discriminate.
  - (* no read-only operation with this method exists, but the guard found one *)
    apply negb_true_iff in Hrk.
    assert (E : existsb (fun o0 => bytes_eqb (op_method o0) (r_method r) && is_read_only (op_ro o0))
                        (t_embedded_ops tbl) = true).
    { apply existsb_exists. exists o. split; [exact Hoin|]. rewrite Hom, Hm, bytes_eqb_refl. exact Hro. }
    congruence.
Qed.

(* ------------------------------------------------------------------------------------- *)
(* determinism: the enumeration orders of the two map loops do not matter *)

Fixpoint unify_segs (a b : list seg) : bool :=
  match a, b with
  | [], [] => true
  | SLit x :: a', SLit y :: b' => bytes_eqb x y && unify_segs a' b'
  | _ :: a', _ :: b' => unify_segs a' b'
  | _, _ => false
  end.

Definition unify (t1 t2 : bytes) : bool :=
  match parse_template t1, parse_template t2 with
  | Some a, Some b => unify_segs a b
  | _, _ => false
  end.

Definition norm_same (t1 t2 : bytes) : bool :=
  let '(n1, c1) := normalize t1 false in
  let '(n2, c2) := normalize t2 false in
  N.eqb c1 c2 && bytes_eqb n1 n2.

Definition gr_eqb (a b : guard_result) : bool :=
  match a, b with
  | GuardPass, GuardPass | GuardNotFound, GuardNotFound | GuardForbidden, GuardForbidden => true
  | _, _ => false
  end.

Lemma gr_eqb_eq a b : gr_eqb a b = true -> a = b.
Proof. destruct a, b; simpl; congruence. Qed.

Definition same_status (tbl : table) (t1 t2 : bytes) : bool :=
  forallb (fun p => forallb (fun ew => gr_eqb (guard_status tbl ew (fst p) t1) (guard_status tbl ew (fst p) t2))
                            [true; false]) (t_guard_switch tbl).

(* two templates that can both be found for one path give the same answer for every method *)
Definition wf_det (tbl : table) : bool :=
  let ts := templates_of (t_embedded_ops tbl) in
  forallb (fun t1 => forallb (fun t2 => negb (unify t1 t2 || norm_same t1 t2) || same_status tbl t1 t2) ts) ts.

Lemma regex_match_segs_unify a b vs :
  regex_match_segs a vs = true -> regex_match_segs b vs = true -> unify_segs a b = true.
Proof.
  revert b vs; induction a as [|x a IH]; intros b vs Ha Hb.
  - destruct vs; simpl in Ha; [|discriminate].
    destruct b as [|y b]; [reflexivity|]. simpl in Hb. destruct y; discriminate.
  - destruct vs as [|v vs]; [destruct x; discriminate|].
    destruct b as [|y b]; [simpl in Hb; discriminate|].
    assert (Ha2 : regex_match_segs a vs = true)
      by (destruct x; simpl in Ha; apply andb_true_iff in Ha; tauto).
    assert (Hb2 : regex_match_segs b vs = true)
      by (destruct y; simpl in Hb; apply andb_true_iff in Hb; tauto).
    specialize (IH b vs Ha2 Hb2).
    destruct x as [lx|nx], y as [ly|ny]; simpl; auto.
    simpl in Ha, Hb. apply andb_true_iff in Ha as [Ha1 _]. apply andb_true_iff in Hb as [Hb1 _].
    apply bytes_eqb_eq in Ha1, Hb1. subst. rewrite bytes_eqb_refl. exact IH.
Qed.

Lemma regex_match_unify t1 t2 p : regex_match t1 p = true -> regex_match t2 p = true -> unify t1 t2 = true.
Proof.
  unfold regex_match, unify.
  destruct (parse_template t1) as [a|]; [|discriminate].
  destruct (parse_template t2) as [b|]; [|discriminate].
  destruct p as [|c r]; [discriminate|].
  intros H1 H2. apply andb_true_iff in H1 as [_ H1]. apply andb_true_iff in H2 as [_ H2].
  eapply regex_match_segs_unify; eassumption.
Qed.

Lemma norm_eq_same t1 t2 p : norm_eq t1 p = true -> norm_eq t2 p = true -> norm_same t1 t2 = true.
Proof.
  unfold norm_eq, norm_same.
  destruct (normalize t1 false) as [n1 c1], (normalize t2 false) as [n2 c2], (normalize p false) as [np cp].
  intros H1 H2. apply andb_true_iff in H1 as [A1 B1]. apply andb_true_iff in H2 as [A2 B2].
  apply N.eqb_eq in A1, A2. apply bytes_eqb_eq in B1, B2. subst.
  rewrite N.eqb_refl, bytes_eqb_refl. reflexivity.
Qed.

Lemma same_status_spec tbl t1 t2 ew m :
  same_status tbl t1 t2 = true -> guard_status tbl ew m t1 = guard_status tbl ew m t2.
Proof.
  intros H.
  destruct (assoc_bytes (t_guard_switch tbl) m) as [sm|] eqn:Ha.
  - pose proof Ha as Ha'. apply assoc_bytes_some in Ha' as [k' [Hin ->]].
    unfold same_status in H. pose proof (forallb_In _ _ _ H Hin) as H1.
    cbv beta in H1. cbn [forallb fst] in H1.
    apply andb_true_iff in H1 as [Ht H1]. apply andb_true_iff in H1 as [Hf _].
    apply gr_eqb_eq in Ht, Hf. destruct ew; assumption.
  - unfold guard_status. rewrite Ha. reflexivity.
Qed.

(* find over two permutations of the same list, when all elements satisfying the predicate are
   related by R *)
Lemma find_perm {A} (P : A -> bool) (R : A -> A -> Prop) l l' :
  Permutation l l' ->
  (forall x y, In x l -> In y l -> P x = true -> P y = true -> R x y) ->
  match find P l, find P l' with
  | Some x, Some y => R x y
  | None, None => True
  | _, _ => False
  end.
Proof.
  intros Hp HR.
  destruct (find P l) as [x|] eqn:E1; destruct (find P l') as [y|] eqn:E2.
  - apply find_some in E1 as [I1 P1]. apply find_some in E2 as [I2 P2].
    apply HR; auto. eapply Permutation_in; [apply Permutation_sym; exact Hp | exact I2].
  - apply find_some in E1 as [I1 P1].
    pose proof (find_none _ _ E2 x (Permutation_in _ Hp I1)). congruence.
  - apply find_some in E2 as [I2 P2].
    pose proof (find_none _ _ E1 y (Permutation_in _ (Permutation_sym Hp) I2)). congruence.
  - exact I.
Qed.

Lemma gr_eqb_refl a : gr_eqb a a = true.
Proof. destruct a; reflexivity. Qed.

Lemma same_status_refl tbl t : same_status tbl t t = true.
Proof.
  unfold same_status. apply forallb_forall. intros p _. cbn [forallb].
  rewrite !gr_eqb_refl. reflexivity.
Qed.

Lemma wf_det_spec tbl t1 t2 :
  wf_det tbl = true ->
  In t1 (templates_of (t_embedded_ops tbl)) -> In t2 (templates_of (t_embedded_ops tbl)) ->
  unify t1 t2 = true \/ norm_same t1 t2 = true ->
  same_status tbl t1 t2 = true.
Proof.
  intros W H1 H2 Hc. unfold wf_det in W.
  pose proof (forallb_In _ _ _ W H1) as W1. cbv beta in W1.
  pose proof (forallb_In _ _ _ W1 H2) as W2. cbv beta in W2.
  assert (E : unify t1 t2 || norm_same t1 t2 = true) by (apply orb_true_iff; exact Hc).
  rewrite E in W2. exact W2.
Qed.

Lemma find_item_perm tbl e1 e1' e2 e2' p :
  let T := templates_of (t_embedded_ops tbl) in
  wf_det tbl = true ->
  Permutation e1 T -> Permutation e1' T -> Permutation e2 T -> Permutation e2' T ->
  match find_item T e1 e2 p, find_item T e1' e2' p with
  | Some t, Some t' => same_status tbl t t' = true
  | None, None => True
  | _, _ => False
  end.
Proof.
  intros T W P1 P1' P2 P2'. unfold find_item.
  destruct (bytes_mem p T); [apply same_status_refl|].
  assert (Q1 : Permutation e1 e1') by (eapply Permutation_trans; [exact P1 | apply Permutation_sym; exact P1']).
  assert (Q2 : Permutation e2 e2') by (eapply Permutation_trans; [exact P2 | apply Permutation_sym; exact P2']).
  pose proof (find_perm (fun t => norm_eq t p) (fun t t' => same_status tbl t t' = true) e1 e1' Q1) as F1.
  pose proof (find_perm (fun t => regex_match t p) (fun t t' => same_status tbl t t' = true) e2 e2' Q2) as F2.
  assert (G1 : forall x y, In x e1 -> In y e1 -> norm_eq x p = true -> norm_eq y p = true -> same_status tbl x y = true).
  { intros x y Ix Iy Hx Hy.
    apply wf_det_spec; [exact W | exact (Permutation_in _ P1 Ix) | exact (Permutation_in _ P1 Iy) |].
    right. eapply norm_eq_same; eauto. }
  assert (G2 : forall x y, In x e2 -> In y e2 -> regex_match x p = true -> regex_match y p = true -> same_status tbl x y = true).
  { intros x y Ix Iy Hx Hy.
    apply wf_det_spec; [exact W | exact (Permutation_in _ P2 Ix) | exact (Permutation_in _ P2 Iy) |].
    left. eapply regex_match_unify; eauto. }
  specialize (F1 G1). specialize (F2 G2).
  destruct (find (fun t => norm_eq t p) e1), (find (fun t => norm_eq t p) e1'); try contradiction; auto.
Qed.

Theorem guard_deterministic tbl ew e1 e1' e2 e2' p m :
  let T := templates_of (t_embedded_ops tbl) in
  wf_det tbl = true ->
  Permutation e1 T -> Permutation e1' T -> Permutation e2 T -> Permutation e2' T ->
  guard tbl ew e1 e2 p m = guard tbl ew e1' e2' p m.
Proof.
  intros T W P1 P1' P2 P2'. rewrite !guard_unfold.
  pose proof (find_item_perm tbl e1 e1' e2 e2' p W P1 P1' P2 P2') as H. cbv zeta in H.
  destruct (find_item (templates_of (t_embedded_ops tbl)) e1 e2 p),
           (find_item (templates_of (t_embedded_ops tbl)) e1' e2' p); try contradiction; auto.
  apply same_status_spec. exact H.
Qed.

Theorem serve_deterministic tbl validator ew e1 e1' e2 e2' m raw :
  let T := templates_of (t_embedded_ops tbl) in
  wf_det tbl = true ->
  Permutation e1 T -> Permutation e1' T -> Permutation e2 T -> Permutation e2' T ->
  serve tbl validator ew e1 e2 m raw = serve tbl validator ew e1' e2' m raw.
Proof.
  intros T W P1 P1' P2 P2'. unfold serve.
  destruct (parse_path raw) as [[path rawpath]|]; [|reflexivity].
  destruct (outer_route (t_mount tbl) m (route_path_of path rawpath)); try reflexivity.
  destruct (strip_prefix (t_mount tbl) path rawpath) as [[p2 rp2]|]; [|reflexivity].
  destruct (negb (validator m p2 rp2)); [reflexivity|].
  rewrite (guard_deterministic tbl ew e1 e1' e2 e2' p2 m W P1 P1' P2 P2'). reflexivity.
Qed.

(* ------------------------------------------------------------------------------------- *)
(* the validator can only turn an answer into "rejected by the validator" *)

Definition accept_all (_ _ _ : bytes) : bool := true.

Lemma serve_validator tbl validator ew e1 e2 m raw :
  serve tbl validator ew e1 e2 m raw = VValidatorReject \/
  serve tbl validator ew e1 e2 m raw = serve tbl accept_all ew e1 e2 m raw.
Proof.
  unfold serve.
  destruct (parse_path raw) as [[path rawpath]|]; [|auto].
  destruct (outer_route (t_mount tbl) m (route_path_of path rawpath)); auto.
  destruct (strip_prefix (t_mount tbl) path rawpath) as [[p2 rp2]|]; [|auto].
  unfold accept_all at 1. destruct (validator m p2 rp2); simpl; auto.
Qed.

(* ------------------------------------------------------------------------------------- *)
(* reachability of canonical requests (checked by evaluation on the table, lifted to every
   enumeration order by determinism and to every validator by the lemma above) *)

Definition canonical_value : bytes := [55]. (* "7" *)

Definition reaches (tbl : table) (ew : bool) (o : spec_op) : bool :=
  let T := templates_of (t_embedded_ops tbl) in
  match canonical_path tbl (op_template o) canonical_value with
  | Some raw =>
      match serve tbl accept_all ew T T (op_method o) raw with
      | VDispatch r =>
          bytes_eqb (r_method r) (op_method o) && bytes_eqb (r_pattern r) (op_template o)
          && bytes_eqb (r_handler r) (ucfirst (op_id o))
      | _ => false
      end
  | None => false
  end.

Definition wf_reach_read_only (tbl : table) : bool :=
  forallb (fun o => negb (is_read_only (op_ro o)) || reaches tbl false o) (t_yaml_ops tbl).

Definition wf_reach_all (tbl : table) : bool :=
  forallb (fun o => reaches tbl true o) (t_yaml_ops tbl).

Theorem reachable tbl ew o validator e1 e2 :
  let T := templates_of (t_embedded_ops tbl) in
  wf_det tbl = true -> reaches tbl ew o = true ->
  Permutation e1 T -> Permutation e2 T ->
  exists raw r,
    canonical_path tbl (op_template o) canonical_value = Some raw /\
    r_method r = op_method o /\ r_pattern r = op_template o /\ r_handler r = ucfirst (op_id o) /\
    (serve tbl validator ew e1 e2 (op_method o) raw = VDispatch r \/
     serve tbl validator ew e1 e2 (op_method o) raw = VValidatorReject).
Proof.
  intros T W H P1 P2. unfold reaches in H.
  destruct (canonical_path tbl (op_template o) canonical_value) as [raw|]; [|discriminate].
  destruct (serve tbl accept_all ew (templates_of (t_embedded_ops tbl)) (templates_of (t_embedded_ops tbl))
                  (op_method o) raw) as [| | | | | | | | |r] eqn:E; try discriminate.
  apply andb_true_iff in H as [H H3]. apply andb_true_iff in H as [H1 H2].
  apply bytes_eqb_eq in H1, H2, H3.
  exists raw, r. repeat split; auto.
  destruct (serve_validator tbl validator ew e1 e2 (op_method o) raw) as [Hv | Hv]; [auto|].
  left. rewrite Hv.
  rewrite (serve_deterministic tbl accept_all ew e1 (templates_of (t_embedded_ops tbl)) e2
             (templates_of (t_embedded_ops tbl)) (op_method o) raw W P1 (Permutation_refl _) P2 (Permutation_refl _)).
  exact E.
Qed.
