From Coq Require Import List NArith ZArith Bool Lia.
From Verif Require Import Lib.Bytes Lib.Assoc Model.Powermap Model.App Model.AppPersist Proofs.AppDet.
Import ListNotations.

Lemma load_snapshot s : load (snapshot s) = s.
Proof. destruct s. reflexivity. Qed.

Lemma snapshot_load i : snapshot (load i) = i.
Proof. destruct i. reflexivity. Qed.

(* ---------- crash during persist ---------- *)
Lemma run_fs_app f a b : run_fs f (a ++ b) = run_fs (run_fs f a) b.
Proof. unfold run_fs. apply fold_left_app. Qed.

Lemma writes_keep_main chunks : forall f, f_main (run_fs f (map OWrite chunks)) = f_main f.
Proof.
  induction chunks as [|c r IH]; intros f; simpl; [reflexivity|].
  unfold run_fs in *. simpl. rewrite IH. reflexivity.
Qed.

Lemma writes_tmp chunks : forall f b, f_tmp f = Some b ->
  f_tmp (run_fs f (map OWrite chunks)) = Some (b ++ concat chunks).
Proof.
  induction chunks as [|c r IH]; intros f b H; simpl.
  - rewrite app_nil_r. exact H.
  - unfold run_fs in *. simpl. rewrite (IH _ (b ++ c)); [rewrite app_assoc; reflexivity|].
    simpl. rewrite H. reflexivity.
Qed.

(* every proper prefix of the operations leaves the main file untouched *)
Lemma no_rename_keeps_main ops : forall f,
  (forall o, In o ops -> o <> ORename) -> f_main (run_fs f ops) = f_main f.
Proof.
  induction ops as [|o r IH]; intros f Hnr; [reflexivity|].
  unfold run_fs in *. simpl. rewrite IH.
  - destruct o; simpl; try reflexivity. exfalso. apply (Hnr ORename); [left; reflexivity|reflexivity].
  - intros o' Hin. apply Hnr. right. exact Hin.
Qed.

Lemma prefix_keeps_main chunks f ops rest :
  persist_ops chunks = ops ++ rest -> rest <> [] -> f_main (run_fs f ops) = f_main f.
Proof.
  unfold persist_ops. intros H Hne.
  destruct (exists_last Hne) as [rest' [x Hx]]. subst rest.
  replace (OCreateTmp :: map OWrite chunks ++ [OSync; ORename])
    with ((OCreateTmp :: map OWrite chunks ++ [OSync]) ++ [ORename]) in H
    by (simpl; rewrite <- app_assoc; reflexivity).
  rewrite app_assoc in H. apply app_inj_tail in H as [H _].
  apply no_rename_keeps_main. intros o Hin.
  assert (Hin' : In o (OCreateTmp :: map OWrite chunks ++ [OSync])) by (rewrite H; apply in_or_app; left; exact Hin).
  destruct Hin' as [<-|Hin']; [discriminate|].
  apply in_app_or in Hin' as [Hin'|[<-|[]]]; [|discriminate].
  apply in_map_iff in Hin' as [c [<- _]]. discriminate.
Qed.

Lemma persist_complete chunks f :
  f_main (run_fs f (persist_ops chunks)) = Some (concat chunks).
Proof.
  unfold persist_ops.
  replace (OCreateTmp :: map OWrite chunks ++ [OSync; ORename])
    with ([OCreateTmp] ++ map OWrite chunks ++ [OSync; ORename]) by reflexivity.
  rewrite !run_fs_app.
  set (f0 := run_fs f [OCreateTmp]).
  assert (H0 : f_tmp f0 = Some []) by reflexivity.
  pose proof (writes_tmp chunks f0 [] H0) as Ht. simpl in Ht.
  set (f1 := run_fs f0 (map OWrite chunks)) in *.
  unfold run_fs. simpl. rewrite Ht. reflexivity.
Qed.
