(* Determinism of the application model with respect to map enumeration order (C09). *)
From Coq Require Import List NArith ZArith Bool Lia Permutation Sorted.
From Verif Require Import Lib.Bytes Lib.Assoc Lib.Sorting Model.Powermap Model.App Proofs.Powermap.
Import ListNotations.
Open Scope Z_scope.

Definition enum_ok (e : enumerator) : Prop := forall (A : Type) (l : list A), Permutation (e A l) l.

Lemma enum_id_ok : enum_ok enum_id.
Proof. intros A l. apply Permutation_refl. Qed.

(* destruct every match / if of the goal *)
Ltac branches :=
  repeat match goal with
         | |- context [match ?x with _ => _ end] => destruct x eqn:?
         end.

(* ---------- voting ---------- *)
Lemma filter_length_perm {A} (f : A -> bool) l l' :
  Permutation l l' -> length (filter f l) = length (filter f l').
Proof.
  induction 1; simpl; auto.
  - destruct (f x); simpl; congruence.
  - destruct (f x), (f y); simpl; reflexivity.
  - congruence.
Qed.

Lemma tally_perm votes votes' i : Permutation votes votes' -> tally votes i = tally votes' i.
Proof. intros H. unfold tally. apply filter_length_perm. exact H. Qed.

Lemma first_index_meeting_perm votes votes' req n : forall i,
  Permutation votes votes' ->
  first_index_meeting votes req i n = first_index_meeting votes' req i n.
Proof.
  induction n as [|n IH]; intros i H; simpl; [reflexivity|].
  rewrite (tally_perm votes votes' i H). rewrite (IH (S i) H). reflexivity.
Qed.

Lemma outcome_index_enum {T} e1 e2 (v : voting T) req :
  enum_ok e1 -> enum_ok e2 -> outcome_index e1 v req = outcome_index e2 v req.
Proof.
  intros H1 H2. unfold outcome_index. apply first_index_meeting_perm.
  eapply Permutation_trans; [apply H1|]. apply Permutation_sym. apply H2.
Qed.

Lemma outcome_enum {T} e1 e2 (v : voting T) req :
  enum_ok e1 -> enum_ok e2 -> outcome e1 v req = outcome e2 v req.
Proof. intros H1 H2. unfold outcome. rewrite (outcome_index_enum e1 e2 v req H1 H2). reflexivity. Qed.

(* an index returned by the scan is a candidate index: Outcome never indexes out of range *)
Lemma first_index_meeting_bound votes req n : forall i j,
  first_index_meeting votes req i n = Some j -> (i <= j < i + n)%nat.
Proof.
  induction n as [|n IH]; intros i j H; simpl in H; [discriminate|].
  destruct (negb (Nat.eqb (tally votes i) 0) && (req <=? Z.of_nat (tally votes i))).
  - injection H as <-. lia.
  - apply IH in H. lia.
Qed.

Lemma outcome_never_panics {T} e (v : voting T) req : outcome e v req <> Some None.
Proof.
  unfold outcome, outcome_index. destruct (first_index_meeting _ _ _ _) eqn:E; [|discriminate].
  apply first_index_meeting_bound in E. intros H. injection H as H.
  apply nth_error_None in H. lia.
Qed.

(* ---------- the legacy outcomeIndex really depended on the enumeration ---------- *)
Lemma legacy_outcome_index_order_dependent :
  exists (enum1 enum2 : list (nat * nat)) (req : Z),
    Permutation enum1 enum2 /\
    legacy_outcome_index enum1 req <> legacy_outcome_index enum2 req.
Proof.
  exists [(0%nat, 2%nat); (1%nat, 2%nat)], [(1%nat, 2%nat); (0%nat, 2%nat)], 2.
  split; [apply perm_swap|]. vm_compute. discriminate.
Qed.

(* ---------- power maps ---------- *)
Lemma fold_aset_nodup {A} (f : powermap -> A -> bytes * Z) (l : list A) : forall pm,
  NoDup (map fst pm) ->
  NoDup (map fst (fold_left (fun pm x => aset pm (fst (f pm x)) (snd (f pm x))) l pm)).
Proof.
  induction l as [|x r IH]; intros pm H; simpl; [exact H|].
  apply IH. apply aset_nodup. exact H.
Qed.

Lemma make_powermap_nodup ids ks : NoDup (map fst (make_powermap ids ks)).
Proof.
  unfold make_powermap.
  apply (fold_aset_nodup (fun pm k =>
           let key := match aget ids k with Some v => v | None => nonexistent_validator end in
           (key, pget0 pm key + 10))).
  constructor.
Qed.

Lemma genesis_powermap_nodup l : NoDup (map fst (genesis_powermap l)).
Proof.
  unfold genesis_powermap.
  apply (fold_aset_nodup (fun pm kv => (fst kv, pget0 pm (fst kv) + snd kv))). constructor.
Qed.

Lemma current_validators_nodup ids dflt cs :
  NoDup (map fst dflt) -> NoDup (map fst (current_validators ids dflt cs)).
Proof.
  intros H. unfold current_validators. induction (rev cs) as [|c r IH]; simpl; [exact H|].
  destruct (c_started c && c_valupd c); [apply make_powermap_nodup|exact IH].
Qed.

Lemma diff_enum_perm oldpm newpm oe ne :
  NoDup (map fst oldpm) -> NoDup (map fst newpm) ->
  Permutation oe oldpm -> Permutation ne newpm ->
  Permutation (diff_powermaps_enum oldpm newpm oe ne) (diff_powermaps oldpm newpm).
Proof.
  intros Ho Hn Hpo Hpn.
  pose proof (diff_enum_nodup oldpm newpm oe ne) as Hd.
  pose proof (diff_enum_nodup oldpm newpm oldpm newpm) as Hd0.
  apply NoDup_Permutation.
  - eapply NoDup_map_inv. exact Hd.
  - eapply NoDup_map_inv. exact Hd0.
  - intros [k v]. unfold diff_powermaps. split; intros Hin.
    + apply aget_in. rewrite (diff_enum_get oldpm newpm oldpm newpm k Ho Hn (Permutation_refl _) (Permutation_refl _)).
      rewrite <- (diff_enum_get oldpm newpm oe ne k Ho Hn Hpo Hpn). apply in_nodup_aget; assumption.
    + apply aget_in. rewrite (diff_enum_get oldpm newpm oe ne k Ho Hn Hpo Hpn).
      rewrite <- (diff_enum_get oldpm newpm oldpm newpm k Ho Hn (Permutation_refl _) (Permutation_refl _)).
      apply in_nodup_aget; assumption.
Qed.

Lemma updates_enum_canonical e oldpm newpm :
  enum_ok e -> NoDup (map fst oldpm) -> NoDup (map fst newpm) ->
  validator_updates_enum (e _ (diff_powermaps_enum oldpm newpm (e _ oldpm) (e _ newpm)))
  = validator_updates (diff_powermaps oldpm newpm).
Proof.
  intros He Ho Hn. unfold validator_updates_enum, validator_updates.
  set (d := diff_powermaps_enum oldpm newpm (e _ oldpm) (e _ newpm)).
  assert (Hp : Permutation (e _ d) (diff_powermaps oldpm newpm)).
  { eapply Permutation_trans; [apply He|]. apply diff_enum_perm; auto. }
  apply ksort_unique; [|exact Hp].
  eapply Permutation_NoDup; [apply Permutation_map, Permutation_sym, Hp|].
  apply diff_enum_nodup.
Qed.

(* ---------- the invariant and the frame of each call ---------- *)
Definition vals_ok (s : state) : Prop := NoDup (map fst (validators s)).

Lemma init_chain_vals_ok g s : init_chain g = Some s -> vals_ok s.
Proof.
  unfold init_chain. branches; try discriminate. intros [= <-]. unfold vals_ok. simpl.
  apply genesis_powermap_nodup.
Qed.

Lemma start_dkg_validators s c : validators (fst (start_dkg s c)) = validators s.
Proof. reflexivity. Qed.

Lemma deliver_message_validators e s sender p s' r :
  deliver_message e s sender p = Some (s', r) -> validators s' = validators s.
Proof.
  destruct p; simpl.
  - unfold deliver_batch_config. branches; intros [= <- <-]; try reflexivity.
    all: try match goal with H : start_dkg _ _ = _ |- _ =>
           pose proof (f_equal (fun x => validators (fst x)) H) as HH; simpl in HH; rewrite <- HH; reflexivity end.
  - unfold deliver_block_seen. branches; intros [= <- <-]; reflexivity.
  - unfold deliver_check_in. branches; intros [= <- <-]; reflexivity.
  - unfold deliver_dkg_result. branches; intros [= <- <-]; try reflexivity.
    all: try match goal with H : start_dkg _ _ = _ |- _ =>
           pose proof (f_equal (fun x => validators (fst x)) H) as HH; simpl in HH; rewrite <- HH; reflexivity end.
  - unfold handle_poly_eval. branches; intros [= <- <-]; reflexivity.
  - unfold handle_poly_commitment. branches; intros [= <- <-]; reflexivity.
  - unfold handle_accusation. branches; intros [= <- <-]; reflexivity.
  - unfold handle_apology. branches; intros [= <- <-]; reflexivity.
  - intros [= <- <-]. reflexivity.
Qed.

Lemma deliver_tx_validators e s t s' r :
  deliver_tx e s t = Some (s', r) -> validators s' = validators s.
Proof.
  unfold deliver_tx. destruct t as [|signer chain nonce p]; [intros [= <- <-]; reflexivity|].
  branches; try (intros [= <- <-]; reflexivity).
  intros H. apply deliver_message_validators in H. exact H.
Qed.

Lemma check_tx_validators s t : validators (fst (check_tx s t)) = validators s.
Proof. unfold check_tx. branches; reflexivity. Qed.

Lemma end_block_vals_ok e s h : vals_ok s -> vals_ok (fst (end_block e s h)).
Proof.
  intros H. unfold end_block. destruct (end_block_configs s None (configs s)) as [cs evs].
  unfold vals_ok. simpl. apply current_validators_nodup. exact H.
Qed.

Lemma step_vals_ok e s c : vals_ok s -> vals_ok (fst (step e s c)).
Proof.
  intros H. destruct c; simpl.
  - destruct (begin_block s height); exact H.
  - pose proof (check_tx_validators s t) as Hc. destruct (check_tx s t) as [s' code]. simpl in *.
    unfold vals_ok. rewrite Hc. exact H.
  - destruct (deliver_tx e s t) as [[s' [code evs]]|] eqn:E; simpl; [|exact H].
    apply deliver_tx_validators in E. unfold vals_ok. rewrite E. exact H.
  - pose proof (end_block_vals_ok e s height H) as He.
    destruct (end_block e s height) as [s' [ups evs]]. exact He.
  - exact H.
Qed.

(* ---------- one call answers and moves the same under any two enumerators ---------- *)
Lemma deliver_message_enum e1 e2 s sender p :
  enum_ok e1 -> enum_ok e2 -> deliver_message e1 s sender p = deliver_message e2 s sender p.
Proof.
  intros H1 H2. destruct p; simpl; try reflexivity.
  - unfold deliver_batch_config. branches; try reflexivity;
      try (rewrite (outcome_enum e1 e2 _ _ H1 H2) in *; congruence).
  - unfold deliver_dkg_result. branches; try reflexivity;
      try (rewrite (outcome_enum e1 e2 _ _ H1 H2) in *; congruence).
Qed.

Lemma step_enum e1 e2 s c :
  enum_ok e1 -> enum_ok e2 -> vals_ok s -> step e1 s c = step e2 s c.
Proof.
  intros H1 H2 Hv. destruct c; simpl; try reflexivity.
  - unfold deliver_tx. destruct t as [|signer chain nonce p]; [reflexivity|].
    destruct (negb (bytes_eqb chain (chain_id s))); [reflexivity|].
    destruct (nonce_used (nonces s) signer nonce); [reflexivity|].
    rewrite (deliver_message_enum e1 e2 _ _ _ H1 H2). reflexivity.
  - unfold end_block. destruct (end_block_configs s None (configs s)) as [cs evs].
    assert (Hn : NoDup (map fst (current_validators (identities s) (validators s) cs))).
    { apply current_validators_nodup. exact Hv. }
    rewrite (updates_enum_canonical e1 _ _ H1 Hv Hn), (updates_enum_canonical e2 _ _ H2 Hv Hn).
    reflexivity.
Qed.

Theorem replicas_agree_from cs : forall es1 es2 k1 k2 s,
  (forall k, enum_ok (es1 k)) -> (forall k, enum_ok (es2 k)) -> vals_ok s ->
  run_enums es1 k1 s cs = run_enums es2 k2 s cs.
Proof.
  induction cs as [|c r IH]; intros es1 es2 k1 k2 s H1 H2 Hv; simpl; [reflexivity|].
  rewrite (step_enum (es1 k1) (es2 k2) s c (H1 k1) (H2 k2) Hv).
  pose proof (step_vals_ok (es2 k2) s c Hv) as Hv'.
  destruct (step (es2 k2) s c) as [s1 o]. simpl in Hv'.
  rewrite (IH es1 es2 (S k1) (S k2) s1 H1 H2 Hv'). reflexivity.
Qed.

Theorem replicas_agree g s0 cs es1 es2 :
  init_chain g = Some s0 ->
  (forall k, enum_ok (es1 k)) -> (forall k, enum_ok (es2 k)) ->
  run_enums es1 0 s0 cs = run_enums es2 0 s0 cs.
Proof.
  intros Hi H1 H2. apply replicas_agree_from; auto. eapply init_chain_vals_ok. exact Hi.
Qed.

(* run with one fixed enumerator is the special case of a constant stream *)
Lemma run_is_run_enums e cs : forall k s, run e s cs = run_enums (fun _ => e) k s cs.
Proof.
  induction cs as [|c r IH]; intros k s; simpl; [reflexivity|].
  destruct (step e s c) as [s1 o]. rewrite (IH (S k) s1). reflexivity.
Qed.

(* ---------- the map-iteration sites of the source are exactly the modelled ones ---------- *)
(* [enum] is applied in the model at: the vote tally of Voting.outcomeIndex ([outcome_index]),
   the two loops of DiffPowermaps ([diff_remove], [diff_update] through [diff_powermaps_enum])
   and Powermap.ValidatorUpdates ([validator_updates_enum]).  Generated/MapRanges.v lists every
   `range` over a map that go/types finds in rolling-shutter/app on this run. *)
From Coq Require Import String.
From Verif Require Import Generated.MapRanges.
Definition modelled_map_range_sites : list string :=
  ["powermap.go:DiffPowermaps:newpm"%string; "powermap.go:DiffPowermaps:oldpm"%string;
   "powermap.go:ValidatorUpdates:pm"%string; "voting.go:outcomeIndex:v.Votes"%string].
Lemma map_range_sites_are_modelled : gen_map_range_sites = modelled_map_range_sites.
Proof. reflexivity. Qed.
